(* C17 -- proofs about the binary32 model of the matrix assembly (QuadFloat.v, Flocq).  Every lemma is closed by Qed;
   the axioms of the standard library (ClassicalDedekindReals.sig_forall_dec, sig_not_dec,
   FunctionalExtensionality.functional_extensionality_dep, Classical_Prop.classic) are inherited from Coq.Reals through
   Flocq; no other axiom.

   Plan: (1) round-to-nearest-even in binary32 commutes with the multiplication by 2^k when the argument and its
   multiple are of magnitude >= 2^-126 (rnd32_scale); (2) every operation of the assembly that touches a scaled
   quantity (a * d, a / d, a + b, -a) maps exactly scaled operands to an exactly scaled result when the side
   condition (ok_mul / ok_div / ok_add) holds in both runs; (3) this is pushed through addPin, the eight generators
   of addPin calls, addPenalty and the create* loops. *)
From Coq Require Import ZArith Reals Psatz Lra Lia List Bool.
From Coq Require Import SpecFloat QArith.
From Flocq Require Import Core BinarySingleNaN Plus_error.
Require Import CV.Quad CV.QuadProofs CV.QuadFloat.
Import ListNotations.
Local Open Scope R_scope.

Local Notation fexp32 := (FLT_exp (-149) 24).
Local Instance qprec24 : Prec_gt_0 24 := q24.
Local Instance qvalid32 : Valid_exp fexp32 := FLT_exp_valid (-149) 24.
Local Instance qvalidx : Valid_exp (FLX_exp 24) := FLX_exp_valid 24.
Local Notation b2 := (bpow radix2).

(* ------------------------------------------------------------------ (1) rounding and powers of two *)

Lemma rnd32_0 : rnd32 0 = 0.
Proof. unfold rnd32. apply round_0. apply valid_rnd_N. Qed.

(* with unbounded exponents, rounding to 24 bits commutes with every power of two *)
Lemma FLX_round_scale : forall k x,
  round radix2 (FLX_exp 24) ZnearestE (b2 k * x) = b2 k * round radix2 (FLX_exp 24) ZnearestE x.
Proof.
  intros k x. destruct (Req_dec x 0) as [->|Hx].
  { rewrite Rmult_0_r, round_0 by apply valid_rnd_N. ring. }
  unfold round, scaled_mantissa, cexp, F2R; simpl.
  rewrite (Rmult_comm (b2 k) x), (mag_mult_bpow radix2 x k Hx).
  unfold FLX_exp. set (e := (mag radix2 x - 24)%Z).
  replace (mag radix2 x + k - 24)%Z with (e + k)%Z by (unfold e; ring).
  replace (x * b2 k * b2 (- (e + k))) with (x * b2 (- e)).
  2:{ rewrite Z.opp_add_distr, bpow_plus, (bpow_opp radix2 k). field. apply Rgt_not_eq, bpow_gt_0. }
  rewrite bpow_plus. ring.
Qed.

(* binary32: the same when neither the argument nor its multiple is below 2^-126 (normal range) *)
Lemma rnd32_scale : forall k x, b2 (-126) <= Rabs x -> b2 (-126) <= Rabs (b2 k * x) ->
  rnd32 (b2 k * x) = b2 k * rnd32 x.
Proof.
  intros k x H1 H2. unfold rnd32.
  rewrite (round_FLT_FLX radix2 (-149) 24 ZnearestE (b2 k * x)) by exact H2.
  rewrite (round_FLT_FLX radix2 (-149) 24 ZnearestE x) by exact H1.
  apply FLX_round_scale.
Qed.

Lemma fmt32_bpow : forall e, (-149 <= e)%Z -> fmt32 (b2 e).
Proof. intros e H. apply generic_format_bpow. unfold FLT_exp. lia. Qed.

(* a rounded value strictly above 2^-126 comes from an argument strictly above 2^-126 *)
Lemma rnd32_gt_min : forall x, b2 (-126) < Rabs (rnd32 x) -> b2 (-126) < Rabs x.
Proof.
  intros x H. destruct (Rlt_or_le (b2 (-126)) (Rabs x)) as [L|L]; [exact L|exfalso].
  assert (A : Rabs (rnd32 x) <= b2 (-126)).
  { unfold rnd32. apply abs_round_le_generic; [exact qvalid32|apply valid_rnd_N| |exact L].
    apply fmt32_bpow. lia. }
  lra.
Qed.

(* the form in which the side condition is used: x = 0, or the rounded value is above 2^-126; in both runs *)
Lemma rnd32_scale_ok : forall k x,
  (x = 0 \/ b2 (-126) < Rabs (rnd32 x)) -> (x = 0 \/ b2 (-126) < Rabs (rnd32 (b2 k * x))) ->
  rnd32 (b2 k * x) = b2 k * rnd32 x.
Proof.
  intros k x [->|H1] H2. { rewrite Rmult_0_r, rnd32_0. ring. }
  destruct H2 as [->|H2]. { rewrite Rmult_0_r, rnd32_0. ring. }
  apply rnd32_scale; apply Rlt_le; apply rnd32_gt_min; assumption.
Qed.

(* ------------------------------------------------------------------ (2) the operations *)
Local Instance qprec24_128 : Prec_lt_emax 24 128 := q24_128.

Lemma overflow_not_finite : forall (v : f32) s, B2SF v = binary_overflow 24 128 mode_NE s -> is_finite v = false.
Proof. intros v s H. rewrite <- is_finite_SF_B2SF, H. reflexivity. Qed.

Lemma finite_not_nan : forall v : f32, is_finite v = true -> is_nan v = false.
Proof. intros [ | | | ]; simpl; congruence. Qed.

(* a finite product is the correctly rounded product of finite factors *)
Lemma fmul_finite : forall x y : f32, is_finite (fmul x y) = true ->
  B2R (fmul x y) = rnd32 (B2R x * B2R y) /\ is_finite x = true /\ is_finite y = true /\
  Bsign (fmul x y) = xorb (Bsign x) (Bsign y).
Proof.
  intros x y F. pose proof (Bmult_correct 24 128 q24 q24_128 mode_NE x y) as C.
  change (round radix2 (SpecFloat.fexp 24 128) (round_mode mode_NE) (B2R x * B2R y)) with (rnd32 (B2R x * B2R y)) in C.
  fold (fmul x y) in C. destruct (Rlt_bool _ _).
  - destruct C as (C1 & C2 & C3). rewrite F in C2. symmetry in C2. apply andb_true_iff in C2.
    destruct C2 as [Fx Fy]. repeat split; auto. apply C3. apply finite_not_nan. exact F.
  - rewrite (overflow_not_finite _ _ C) in F. discriminate.
Qed.

Lemma finite_nonzero_R : forall y : f32, is_finite y = true -> fis_zero y = false -> B2R y <> 0.
Proof.
  intros [s|s| |s m e B] F Z; simpl in F, Z; try discriminate.
  intros H. unfold B2R in H. apply eq_0_F2R in H. destruct s; discriminate.
Qed.

Lemma fis_zero_R : forall y : f32, fis_zero y = true -> B2R y = 0.
Proof. intros [s|s| |s m e B] Z; simpl in *; try discriminate. reflexivity. Qed.

(* a finite quotient by a finite divisor: the divisor is not zero and the quotient is correctly rounded *)
Lemma fdiv_finite : forall x y : f32, is_finite (fdiv x y) = true -> is_finite y = true ->
  B2R y <> 0 /\ B2R (fdiv x y) = rnd32 (B2R x / B2R y) /\ is_finite x = true /\
  Bsign (fdiv x y) = xorb (Bsign x) (Bsign y).
Proof.
  intros x y F Fy.
  assert (Ny : B2R y <> 0).
  { apply finite_nonzero_R; [exact Fy|]. destruct y as [s|s| |s m e B]; simpl in *; try reflexivity.
    destruct x; simpl in F; discriminate. }
  pose proof (Bdiv_correct 24 128 q24 q24_128 mode_NE x y Ny) as C.
  change (round radix2 (SpecFloat.fexp 24 128) (round_mode mode_NE) (B2R x / B2R y)) with (rnd32 (B2R x / B2R y)) in C.
  fold (fdiv x y) in C. destruct (Rlt_bool _ _).
  - destruct C as (C1 & C2 & C3). rewrite F in C2. repeat split; auto. apply C3. apply finite_not_nan. exact F.
  - rewrite (overflow_not_finite _ _ C) in F. discriminate.
Qed.

(* a finite sum of finite terms is the correctly rounded sum; the sign of a zero sum follows IEEE-754 *)
Lemma fadd_finite : forall x y : f32, is_finite x = true -> is_finite y = true -> is_finite (fadd x y) = true ->
  B2R (fadd x y) = rnd32 (B2R x + B2R y) /\
  Bsign (fadd x y) = match Rcompare (B2R x + B2R y) 0 with
                     | Eq => andb (Bsign x) (Bsign y) | Lt => true | Gt => false end.
Proof.
  intros x y Fx Fy F. pose proof (Bplus_correct 24 128 q24 q24_128 mode_NE x y Fx Fy) as C.
  change (round radix2 (SpecFloat.fexp 24 128) (round_mode mode_NE) (B2R x + B2R y)) with (rnd32 (B2R x + B2R y)) in C.
  fold (fadd x y) in C. destruct (Rlt_bool _ _).
  - destruct C as (C1 & C2 & C3). split; assumption.
  - destruct C as [C _]. rewrite (overflow_not_finite _ _ C) in F. discriminate.
Qed.

Lemma B2R_flt_min : B2R flt_min = b2 (-126).
Proof.
  unfold flt_min, B2R, F2R; simpl Fnum; simpl Fexp; simpl cond_Zopp.
  change (Z.pos 8388608) with (2 ^ 23)%Z. rewrite (IZR_Zpower radix2) by lia.
  rewrite <- bpow_plus. reflexivity.
Qed.

(* FLT_MIN < |v| as a statement about the value *)
Lemma fnormal_R : forall v : f32, is_finite v = true -> fnormal v = true -> b2 (-126) < Rabs (B2R v).
Proof.
  intros v F N. unfold fnormal, fltb in N.
  rewrite Bltb_correct in N by (try reflexivity; unfold fabs; rewrite is_finite_Babs; exact F).
  unfold fabs in N. rewrite B2R_Babs, B2R_flt_min in N.
  destruct (Rlt_bool_spec (b2 (-126)) (Rabs (B2R v))); [assumption|discriminate].
Qed.

Lemma B2R_fmt32 : forall x : f32, fmt32 (B2R x).
Proof. intros x. apply (generic_format_B2R 24 128). Qed.

Lemma sc_finite_l : forall k x y, sc k x y -> is_finite x = true.
Proof. intros k x y H; apply H. Qed.
Lemma sc_finite_r : forall k x y, sc k x y -> is_finite y = true.
Proof. intros k x y H; apply H. Qed.

Lemma b2_pos : forall k, 0 < b2 k.
Proof. intros; apply bpow_gt_0. Qed.

(* a zero operand is a zero operand in both runs *)
Lemma sc_zero_R : forall k a a', sc k a a' -> (B2R a' = 0 <-> B2R a = 0).
Proof.
  intros k a a' (_ & _ & E & _). rewrite E. pose proof (b2_pos k). split; intros H0; [|rewrite H0; ring].
  apply Rmult_integral in H0. destruct H0; [lra|assumption].
Qed.

Lemma sc_zero : forall k, sc k fzero fzero.
Proof. intros k. unfold sc, fzero; simpl. repeat split; auto. ring. Qed.

Lemma sc_opp : forall k a a', sc k a a' -> sc k (fopp a) (fopp a').
Proof.
  intros k a a' (Fa & Fa' & E & S). unfold sc, fopp. rewrite !is_finite_Bopp, !B2R_Bopp.
  rewrite !Bsign_Bopp by (apply finite_not_nan; assumption). rewrite E, S. repeat split; auto. ring.
Qed.

(* the common last step: two finite results that are roundings of x and of 2^k x, with equal signs, under the side
   condition in both runs *)
Lemma sc_of_rnd : forall k (v v' : f32) x, is_finite v = true -> is_finite v' = true ->
  B2R v = rnd32 x -> B2R v' = rnd32 (b2 k * x) -> Bsign v' = Bsign v ->
  (x = 0 \/ b2 (-126) < Rabs (B2R v)) -> (x = 0 \/ b2 (-126) < Rabs (B2R v')) -> sc k v v'.
Proof.
  intros k v v' x F F' V V' S O O'. unfold sc. repeat split; auto.
  rewrite V', V. apply rnd32_scale_ok; [rewrite <- V|rewrite <- V']; assumption.
Qed.

(* a * d and d * a, a scaled, d the same in both runs *)
Lemma sc_mul : forall k a a' d, sc k a a' ->
  ok_mul a d (fmul a d) = true -> ok_mul a' d (fmul a' d) = true -> sc k (fmul a d) (fmul a' d).
Proof.
  intros k a a' d Sa O O'. unfold ok_mul in O, O'.
  apply andb_true_iff in O; destruct O as [F O]. apply andb_true_iff in O'; destruct O' as [F' O'].
  destruct (fmul_finite _ _ F) as (V & Fa & Fd & S). destruct (fmul_finite _ _ F') as (V' & Fa' & _ & S').
  pose proof (sc_zero_R _ _ _ Sa) as Z. destruct Sa as (_ & _ & E & Sg).
  apply (sc_of_rnd k _ _ (B2R a * B2R d)); auto.
  - rewrite V', E. f_equal. ring.
  - rewrite S', S, Sg. reflexivity.
  - apply orb_true_iff in O. destruct O as [O|O]; [apply orb_true_iff in O; destruct O as [O|O]|].
    + left. rewrite (fis_zero_R _ O). ring.
    + left. rewrite (fis_zero_R _ O). ring.
    + right. apply fnormal_R; assumption.
  - apply orb_true_iff in O'. destruct O' as [O'|O']; [apply orb_true_iff in O'; destruct O' as [O'|O']|].
    + left. apply fis_zero_R in O'. apply Z in O'. rewrite O'. ring.
    + left. rewrite (fis_zero_R _ O'). ring.
    + right. apply fnormal_R; assumption.
Qed.

Lemma sc_mul_r : forall k a a' d, sc k a a' ->
  ok_mul a d (fmul d a) = true -> ok_mul a' d (fmul d a') = true -> sc k (fmul d a) (fmul d a').
Proof.
  intros k a a' d Sa O O'. unfold ok_mul in O, O'.
  apply andb_true_iff in O; destruct O as [F O]. apply andb_true_iff in O'; destruct O' as [F' O'].
  destruct (fmul_finite _ _ F) as (V & Fd & Fa & S). destruct (fmul_finite _ _ F') as (V' & _ & Fa' & S').
  pose proof (sc_zero_R _ _ _ Sa) as Z. destruct Sa as (_ & _ & E & Sg).
  apply (sc_of_rnd k _ _ (B2R d * B2R a)); auto.
  - rewrite V', E. f_equal. ring.
  - rewrite S', S, Sg. reflexivity.
  - apply orb_true_iff in O. destruct O as [O|O]; [apply orb_true_iff in O; destruct O as [O|O]|].
    + left. rewrite (fis_zero_R _ O). ring.
    + left. rewrite (fis_zero_R _ O). ring.
    + right. apply fnormal_R; assumption.
  - apply orb_true_iff in O'. destruct O' as [O'|O']; [apply orb_true_iff in O'; destruct O' as [O'|O']|].
    + left. apply fis_zero_R in O'. apply Z in O'. rewrite O'. ring.
    + left. rewrite (fis_zero_R _ O'). ring.
    + right. apply fnormal_R; assumption.
Qed.

(* a / d, a scaled, d the same in both runs *)
Lemma sc_div : forall k a a' d, sc k a a' ->
  ok_div a d (fdiv a d) = true -> ok_div a' d (fdiv a' d) = true -> sc k (fdiv a d) (fdiv a' d).
Proof.
  intros k a a' d Sa O O'. unfold ok_div in O, O'.
  apply andb_true_iff in O; destruct O as [F O]. apply andb_true_iff in F; destruct F as [F Fd].
  apply andb_true_iff in O'; destruct O' as [F' O']. apply andb_true_iff in F'; destruct F' as [F' _].
  destruct (fdiv_finite _ _ F Fd) as (Nd & V & Fa & S). destruct (fdiv_finite _ _ F' Fd) as (_ & V' & Fa' & S').
  pose proof (sc_zero_R _ _ _ Sa) as Z. destruct Sa as (_ & _ & E & Sg).
  apply (sc_of_rnd k _ _ (B2R a / B2R d)); auto.
  - rewrite V', E. f_equal. unfold Rdiv. ring.
  - rewrite S', S, Sg. reflexivity.
  - apply orb_true_iff in O. destruct O as [O|O].
    + left. rewrite (fis_zero_R _ O). unfold Rdiv. ring.
    + right. apply fnormal_R; assumption.
  - apply orb_true_iff in O'. destruct O' as [O'|O'].
    + left. apply fis_zero_R in O'. apply Z in O'. rewrite O'. unfold Rdiv. ring.
    + right. apply fnormal_R; assumption.
Qed.

(* a + b, both scaled: a zero result of a binary32 addition is exact *)
Lemma sc_add : forall k a a' b b', sc k a a' -> sc k b b' ->
  ok_add (fadd a b) = true -> ok_add (fadd a' b') = true -> sc k (fadd a b) (fadd a' b').
Proof.
  intros k a a' b b' (Fa & Fa' & Ea & Sa) (Fb & Fb' & Eb & Sb) O O'. unfold ok_add in O, O'.
  apply andb_true_iff in O; destruct O as [F O]. apply andb_true_iff in O'; destruct O' as [F' O'].
  destruct (fadd_finite _ _ Fa Fb F) as (V & S). destruct (fadd_finite _ _ Fa' Fb' F') as (V' & S').
  assert (X : B2R a' + B2R b' = b2 k * (B2R a + B2R b)) by (rewrite Ea, Eb; ring).
  pose proof (b2_pos k) as Pk.
  apply (sc_of_rnd k _ _ (B2R a + B2R b)); auto.
  - rewrite V', X. reflexivity.
  - rewrite S', S, X, Sa, Sb.
    destruct (Rcompare_spec (B2R a + B2R b) 0) as [L|L|L].
    + rewrite Rcompare_Lt; [reflexivity|]. nra.
    + rewrite L, Rmult_0_r, Rcompare_Eq; reflexivity.
    + rewrite Rcompare_Gt; [reflexivity|]. nra.
  - apply orb_true_iff in O. destruct O as [O|O].
    + left. apply fis_zero_R in O. rewrite V in O. unfold rnd32 in O.
      apply (round_plus_eq_0 radix2 fexp32 ZnearestE) in O; [exact O|apply B2R_fmt32|apply B2R_fmt32].
    + right. apply fnormal_R; assumption.
  - apply orb_true_iff in O'. destruct O' as [O'|O'].
    + left. apply fis_zero_R in O'. rewrite V' in O'. unfold rnd32 in O'.
      apply (round_plus_eq_0 radix2 fexp32 ZnearestE) in O'; [|apply B2R_fmt32|apply B2R_fmt32].
      rewrite X in O'. apply Rmult_integral in O'. destruct O'; [lra|assumption].
    + right. apply fnormal_R; assumption.
Qed.

(* ------------------------------------------------------------------ (3) addPin and sequences of addPin calls *)

Lemma Forall2_sc_nth : forall k l l' n, Forall2 (sc k) l l' -> sc k (nth n l fzero) (nth n l' fzero).
Proof.
  intros k l l' n H. revert n. induction H; intros [|n]; simpl; auto using sc_zero.
Qed.

Lemma Forall2_upd_nth : forall {A} (R : A -> A -> Prop) d f g n l l', Forall2 R l l' ->
  R (f (nth n l d)) (g (nth n l' d)) -> Forall2 R (upd n f l) (upd n g l').
Proof.
  intros A R d f g n l l' H. revert n. induction H; intros [|n] Hn; simpl in *; constructor; auto.
Qed.

(* rhs_[c] += w * d *)
Lemma frhs_add_sc : forall k c w w' d rhs rhs', sc k w w' -> Forall2 (sc k) rhs rhs' ->
  snd (frhs_add c w d rhs) = true -> snd (frhs_add c w' d rhs') = true ->
  Forall2 (sc k) (fst (frhs_add c w d rhs)) (fst (frhs_add c w' d rhs')).
Proof.
  intros k c w w' d rhs rhs' Sw Sr O O'. unfold frhs_add in *. cbv zeta in *. cbn [fst snd] in *.
  apply andb_true_iff in O; destruct O as [O1 O2]. apply andb_true_iff in O'; destruct O' as [O1' O2'].
  apply Forall2_upd_nth with (d := fzero); [exact Sr|].
  apply sc_add; auto. - apply Forall2_sc_nth; exact Sr. - apply sc_mul; assumption.
Qed.

Lemma fsys_sc_intro : forall k s s', Forall2 (ftrip_sc k) (fs_mat s) (fs_mat s') -> Forall2 (sc k) (fs_rhs s) (fs_rhs s') ->
  fs_init s' = fs_init s -> fs_nz s' = fs_nz s -> fsys_sc k s s'.
Proof. intros; unfold fsys_sc; auto. Qed.

Lemma ftrip_sc_intro : forall k r c v v', sc k v v' -> ftrip_sc k (mkFT r c v) (mkFT r c v').
Proof. intros. unfold ftrip_sc; cbn. auto. Qed.

(* addFixedPin *)
Lemma fadd_fixed_pin_sc : forall k c o p w w' b b' s s', fsys_sc k s s' -> (b = true -> b' = true -> sc k w w') ->
  fs_ok (fadd_fixed_pin c o p w b s) = true -> fs_ok (fadd_fixed_pin c o p w' b' s') = true ->
  fsys_sc k (fadd_fixed_pin c o p w b s) (fadd_fixed_pin c o p w' b' s').
Proof.
  intros k c o p w w' b b' s s' (Hm & Hr & Hi & Hn) Hw O O'. unfold fadd_fixed_pin in *.
  pose proof (frhs_add_sc k c w w' (fsub p o) (fs_rhs s) (fs_rhs s')) as R.
  destruct (frhs_add c w (fsub p o) (fs_rhs s)) as [rhs ok]. destruct (frhs_add c w' (fsub p o) (fs_rhs s')) as [rhs' ok'].
  cbn [fs_ok fst snd] in *.
  apply andb_true_iff in O; destruct O as [O Ok]. apply andb_true_iff in O; destruct O as [O Ob].
  apply andb_true_iff in O'; destruct O' as [O' Ok']. apply andb_true_iff in O'; destruct O' as [O' Ob'].
  specialize (Hw Ob Ob'). apply fsys_sc_intro; cbn [fs_mat fs_rhs fs_init fs_nz].
  - apply Forall2_app; [exact Hm|]. constructor; [apply ftrip_sc_intro; assumption|constructor].
  - apply R; auto.
  - exact Hi.
  - rewrite Hn. reflexivity.
Qed.

(* addMovingPin *)
Lemma fadd_moving_pin_sc : forall k c1 c2 o1 o2 w w' b b' s s', fsys_sc k s s' -> (b = true -> b' = true -> sc k w w') ->
  fs_ok (fadd_moving_pin c1 c2 o1 o2 w b s) = true -> fs_ok (fadd_moving_pin c1 c2 o1 o2 w' b' s') = true ->
  fsys_sc k (fadd_moving_pin c1 c2 o1 o2 w b s) (fadd_moving_pin c1 c2 o1 o2 w' b' s').
Proof.
  intros k c1 c2 o1 o2 w w' b b' s s' Hs Hw O O'. unfold fadd_moving_pin in *.
  destruct (c1 =? c2)%Z; [exact Hs|]. destruct Hs as (Hm & Hr & Hi & Hn).
  pose proof (frhs_add_sc k c1 w w' (fsub o2 o1) (fs_rhs s) (fs_rhs s')) as R1.
  destruct (frhs_add c1 w (fsub o2 o1) (fs_rhs s)) as [rhs1 ok1]. destruct (frhs_add c1 w' (fsub o2 o1) (fs_rhs s')) as [rhs1' ok1'].
  pose proof (frhs_add_sc k c2 w w' (fsub o1 o2) rhs1 rhs1') as R2.
  destruct (frhs_add c2 w (fsub o1 o2) rhs1) as [rhs2 ok2]. destruct (frhs_add c2 w' (fsub o1 o2) rhs1') as [rhs2' ok2'].
  cbn [fs_ok fst snd] in *.
  apply andb_true_iff in O; destruct O as [O Ok2]. apply andb_true_iff in O; destruct O as [O Ok1].
  apply andb_true_iff in O; destruct O as [O Ob].
  apply andb_true_iff in O'; destruct O' as [O' Ok2']. apply andb_true_iff in O'; destruct O' as [O' Ok1'].
  apply andb_true_iff in O'; destruct O' as [O' Ob'].
  specialize (Hw Ob Ob'). pose proof (sc_opp _ _ _ Hw) as Hno.
  apply fsys_sc_intro; cbn [fs_mat fs_rhs fs_init fs_nz].
  - apply Forall2_app; [exact Hm|]. repeat (constructor; [apply ftrip_sc_intro; assumption|]). constructor.
  - apply R2; auto.
  - exact Hi.
  - rewrite Hn. reflexivity.
Qed.

(* addPin *)
Lemma fadd_pin_sc : forall k o o' s s', fsys_sc k s s' -> fop_sc k o o' ->
  fs_ok (fadd_pin o s) = true -> fs_ok (fadd_pin o' s') = true -> fsys_sc k (fadd_pin o s) (fadd_pin o' s').
Proof.
  intros k [c1 c2 o1 o2 w b] [c1' c2' o1' o2' w' b'] s s' Hs (E1 & E2 & E3 & E4 & Hw). cbn in E1, E2, E3, E4, Hw. subst.
  unfold fadd_pin; cbn [fp_c1 fp_c2 fp_o1 fp_o2 fp_w fp_ok]. intros O O'.
  destruct (c1 =? c2)%Z; [exact Hs|]. destruct (c1 =? -1)%Z; [apply fadd_fixed_pin_sc; auto|].
  destruct (c2 =? -1)%Z; [apply fadd_fixed_pin_sc; auto|]. apply fadd_moving_pin_sc; auto.
Qed.

(* the flag only goes down *)
Lemma fadd_pin_ok_mono : forall o s, fs_ok (fadd_pin o s) = true -> fs_ok s = true.
Proof.
  intros o s. unfold fadd_pin, fadd_fixed_pin, fadd_moving_pin.
  repeat match goal with |- context [if ?c then _ else _] => destruct c end; auto;
  repeat match goal with |- context [frhs_add ?a ?b ?c ?d] => destruct (frhs_add a b c d) end; cbn [fs_ok];
  intros H; repeat (apply andb_true_iff in H; destruct H as [H _]); exact H.
Qed.

Lemma fold_ok_mono : forall {N} (f : fsys -> N -> fsys), (forall s n, fs_ok (f s n) = true -> fs_ok s = true) ->
  forall l s, fs_ok (fold_left f l s) = true -> fs_ok s = true.
Proof. intros N f Hf l. induction l; simpl; intros s H; auto. apply (Hf s a). apply IHl. exact H. Qed.

Lemma fapply_ops_ok_mono : forall ops s, fs_ok (fapply_ops ops s) = true -> fs_ok s = true.
Proof. intros ops s. apply fold_ok_mono. intros s0 n. apply fadd_pin_ok_mono. Qed.

(* a loop whose body maps scaled states to scaled states, under the flags of both runs *)
Lemma fold_sc : forall {N} (RN : N -> N -> Prop) k (f : fsys -> N -> fsys),
  (forall s n, fs_ok (f s n) = true -> fs_ok s = true) ->
  (forall s s' n n', fsys_sc k s s' -> RN n n' -> fs_ok (f s n) = true -> fs_ok (f s' n') = true -> fsys_sc k (f s n) (f s' n')) ->
  forall l l', Forall2 RN l l' -> forall s s', fsys_sc k s s' ->
  fs_ok (fold_left f l s) = true -> fs_ok (fold_left f l' s') = true -> fsys_sc k (fold_left f l s) (fold_left f l' s').
Proof.
  intros N RN k f Hm Hf l l' H. induction H; simpl; intros s s' Hs O O'; [exact Hs|].
  apply IHForall2; auto. apply Hf; auto; eapply fold_ok_mono; eauto.
Qed.

Lemma fapply_ops_sc : forall k ops ops' s s', Forall2 (fop_sc k) ops ops' -> fsys_sc k s s' ->
  fs_ok (fapply_ops ops s) = true -> fs_ok (fapply_ops ops' s') = true ->
  fsys_sc k (fapply_ops ops s) (fapply_ops ops' s').
Proof.
  intros k ops ops' s s' H Hs. unfold fapply_ops.
  apply (fold_sc (fop_sc k) k (fun s o => fadd_pin o s)); auto.
  - intros s0 n. apply fadd_pin_ok_mono.
  - intros. apply fadd_pin_sc; auto.
Qed.

(* ------------------------------------------------------------------ (4) the generators of addPin calls *)

Lemma fop_sc_intro : forall k c1 c2 o1 o2 w w' b b', (b = true -> b' = true -> sc k w w') ->
  fop_sc k (mkFOp c1 c2 o1 o2 w b) (mkFOp c1 c2 o1 o2 w' b').
Proof. intros. unfold fop_sc; cbn. auto. Qed.

Lemma fop_sc_div : forall k c1 c2 o1 o2 a a' d, sc k a a' ->
  fop_sc k (mkFOp c1 c2 o1 o2 (fdiv a d) (ok_div a d (fdiv a d))) (mkFOp c1 c2 o1 o2 (fdiv a' d) (ok_div a' d (fdiv a' d))).
Proof. intros. apply fop_sc_intro. intros. apply sc_div; auto. Qed.

Lemma fbipoint_ops_sc : forall k w w' pins, sc k w w' -> Forall2 (fop_sc k) (fbipoint_ops w pins) (fbipoint_ops w' pins).
Proof.
  intros k w w' pins S. unfold fbipoint_ops. destruct pins as [|p0 [|p1 r]]; constructor; [|constructor].
  apply fop_sc_intro; auto.
Qed.

Lemma fpair_ops_sc : forall k f f' pins, (forall p q, fop_sc k (f p q) (f' p q)) ->
  Forall2 (fop_sc k) (fpair_ops f pins) (fpair_ops f' pins).
Proof.
  intros k f f' pins H. induction pins as [|p r IH]; simpl; [constructor|].
  apply Forall2_app; [|exact IH]. apply Forall2_map_same. intros; apply H.
Qed.

Lemma fclique_w_sc : forall k wn wn' n, sc k wn wn' -> snd (fclique_w wn n) = true -> snd (fclique_w wn' n) = true ->
  sc k (fst (fclique_w wn n)) (fst (fclique_w wn' n)).
Proof.
  intros k wn wn' n S O O'. unfold fclique_w in *. cbv zeta in *. cbn [fst snd] in *.
  apply andb_true_iff in O; destruct O as [O1 O2]. apply andb_true_iff in O'; destruct O' as [O1' O2'].
  apply sc_div; auto. apply sc_mul_r; auto.
Qed.

Lemma fclique_ops_sc : forall k wn wn' pins, sc k wn wn' -> Forall2 (fop_sc k) (fclique_ops wn pins) (fclique_ops wn' pins).
Proof.
  intros k wn wn' pins S. unfold fclique_ops. pose proof (fclique_w_sc k wn wn' (length pins) S) as H.
  destruct (fclique_w wn (length pins)) as [w ok]. destruct (fclique_w wn' (length pins)) as [w' ok']. cbn [fst snd] in H.
  apply fpair_ops_sc. intros p q. apply fop_sc_intro. exact H.
Qed.

Lemma fstar_ops_sc : forall k wn wn' pins c, sc k wn wn' -> Forall2 (fop_sc k) (fstar_ops wn pins c) (fstar_ops wn' pins c).
Proof. intros k wn wn' pins c S. unfold fstar_ops. cbv zeta. apply Forall2_map_same. intros. apply fop_sc_div. exact S. Qed.

Lemma fbipoint_pl_ops_sc : forall k wn wn' pins pl eps, sc k wn wn' ->
  Forall2 (fop_sc k) (fbipoint_pl_ops wn pins pl eps) (fbipoint_pl_ops wn' pins pl eps).
Proof.
  intros k wn wn' pins pl eps S. unfold fbipoint_pl_ops. destruct pins as [|p0 [|p1 r]]; constructor; [|constructor].
  cbv zeta. apply fop_sc_div. exact S.
Qed.

Lemma fclique_pl_ops_sc : forall k wn wn' pins pl eps, sc k wn wn' ->
  Forall2 (fop_sc k) (fclique_pl_ops wn pins pl eps) (fclique_pl_ops wn' pins pl eps).
Proof.
  intros k wn wn' pins pl eps S. unfold fclique_pl_ops. pose proof (fclique_w_sc k wn wn' (length pins) S) as H.
  destruct (fclique_w wn (length pins)) as [w ok]. destruct (fclique_w wn' (length pins)) as [w' ok']. cbn [fst snd] in H.
  apply fpair_ops_sc. intros p q. cbv zeta. apply fop_sc_intro. intros B B'.
  apply andb_true_iff in B; destruct B as [B1 B2]. apply andb_true_iff in B'; destruct B' as [B1' B2'].
  apply sc_div; auto.
Qed.

Lemma fstar_pl_ops_sc : forall k wn wn' pins pl eps c, sc k wn wn' ->
  Forall2 (fop_sc k) (fstar_pl_ops wn pins pl eps c) (fstar_pl_ops wn' pins pl eps c).
Proof.
  intros k wn wn' pins pl eps c S. unfold fstar_pl_ops.
  destruct (fmin_pin pins pl) as [[[minI mc] mo] minPos]. destruct (fmax_pin pins pl) as [[[maxI xc] xo] maxPos].
  cbv zeta. apply Forall2_map_same. intros [i p] _. cbn [fst snd].
  destruct ((i =? minI)%nat || (i =? maxI)%nat); apply fop_sc_div; exact S.
Qed.

Lemma flightstar_ops_sc : forall k wn wn' pins pl eps c, sc k wn wn' ->
  Forall2 (fop_sc k) (flightstar_ops wn pins pl eps c) (flightstar_ops wn' pins pl eps c).
Proof.
  intros k wn wn' pins pl eps c S. unfold flightstar_ops.
  destruct (fmin_pin pins pl) as [[[minI mc] mo] minPos]. destruct (fmax_pin pins pl) as [[[maxI xc] xo] maxPos].
  cbv zeta. apply Forall2_map_same. intros [i p] _. cbn [fst snd].
  destruct ((i =? minI)%nat || (i =? maxI)%nat); [apply fop_sc_div; exact S|].
  apply fop_sc_intro. intros B B'.
  apply andb_true_iff in B; destruct B as [B B4]. apply andb_true_iff in B; destruct B as [B B3].
  apply andb_true_iff in B; destruct B as [B1 B2].
  apply andb_true_iff in B'; destruct B' as [B' B4']. apply andb_true_iff in B'; destruct B' as [B' B3'].
  apply andb_true_iff in B'; destruct B' as [B1' B2'].
  assert (Sw : sc k (fdiv wn (f_of_Z (Z.of_nat (length pins) - 1))) (fdiv wn' (f_of_Z (Z.of_nat (length pins) - 1))))
    by (apply sc_div; auto).
  apply sc_add; auto; apply sc_div; auto.
Qed.

Lemma fb2b_ops_sc : forall k wn wn' pins pl eps, sc k wn wn' ->
  Forall2 (fop_sc k) (fb2b_ops wn pins pl eps) (fb2b_ops wn' pins pl eps).
Proof.
  intros k wn wn' pins pl eps S. unfold fb2b_ops.
  destruct (fmin_pin pins pl) as [[[minI mc] mo] minPos]. destruct (fmax_pin pins pl) as [[[maxI xc] xo] maxPos].
  cbv zeta. apply Forall2_flat_map_same. intros [i p] _. cbn [fst snd].
  assert (Hd : forall c1 c2 o1 o2 d,
    fop_sc k (mkFOp c1 c2 o1 o2 (fdiv (fdiv wn (f_of_Z (Z.of_nat (length pins) - 1))) d)
                (ok_div wn (f_of_Z (Z.of_nat (length pins) - 1)) (fdiv wn (f_of_Z (Z.of_nat (length pins) - 1))) &&
                 ok_div (fdiv wn (f_of_Z (Z.of_nat (length pins) - 1))) d (fdiv (fdiv wn (f_of_Z (Z.of_nat (length pins) - 1))) d)))
             (mkFOp c1 c2 o1 o2 (fdiv (fdiv wn' (f_of_Z (Z.of_nat (length pins) - 1))) d)
                (ok_div wn' (f_of_Z (Z.of_nat (length pins) - 1)) (fdiv wn' (f_of_Z (Z.of_nat (length pins) - 1))) &&
                 ok_div (fdiv wn' (f_of_Z (Z.of_nat (length pins) - 1))) d (fdiv (fdiv wn' (f_of_Z (Z.of_nat (length pins) - 1))) d)))).
  { intros. apply fop_sc_intro. intros B B'.
    apply andb_true_iff in B; destruct B as [B1 B2]. apply andb_true_iff in B'; destruct B' as [B1' B2'].
    apply sc_div; auto. apply sc_div; auto. }
  destruct (i =? minI)%nat; [constructor|]. constructor; [apply Hd|].
  destruct (i =? maxI)%nat; constructor; [apply Hd|constructor].
Qed.

(* addPenalty: strengths scaled *)
Lemma fpenalty_ops_sc : forall k pl tg st st' cutoff i, Forall2 (sc k) st st' ->
  Forall2 (fop_sc k) (fpenalty_ops i pl tg st cutoff) (fpenalty_ops i pl tg st' cutoff).
Proof.
  intros k pl. induction pl as [|p pl IH]; intros tg st st' cutoff i H; simpl; [constructor|].
  destruct tg as [|t tg]; [constructor|]. destruct H as [|x x' st st' Hx H]; [constructor|].
  constructor; [apply fop_sc_div; exact Hx|]. apply IH. exact H.
Qed.

(* ------------------------------------------------------------------ (5) whole systems *)

Lemma fsys_sc_size : forall k s s', fsys_sc k s s' -> fmat_size s' = fmat_size s.
Proof. intros k s s' (_ & Hr & _). unfold fmat_size. symmetry. eapply Forall2_len; eauto. Qed.

(* addCell *)
Lemma fadd_cell_sc : forall k p s s', fsys_sc k s s' ->
  fsys_sc k (mkFSys (fs_mat s) (fs_rhs s ++ [fzero]) (fs_init s ++ [p]) (fs_nz s ++ [false]) (fs_ok s))
            (mkFSys (fs_mat s') (fs_rhs s' ++ [fzero]) (fs_init s' ++ [p]) (fs_nz s' ++ [false]) (fs_ok s')).
Proof.
  intros k p s s' (Hm & Hr & Hi & Hn). apply fsys_sc_intro; cbn [fs_mat fs_rhs fs_init fs_nz].
  - exact Hm.
  - apply Forall2_app; [exact Hr|]. constructor; [apply sc_zero|constructor].
  - rewrite Hi. reflexivity.
  - rewrite Hn. reflexivity.
Qed.

(* a net of more than two pins in the star models: addCell, then the calls *)
Lemma fcell_ops_sc : forall k p (ops ops' : Z -> list fpinop) s s', fsys_sc k s s' ->
  (forall c, Forall2 (fop_sc k) (ops c) (ops' c)) ->
  fs_ok (let (c, s1) := fadd_cell p s in fapply_ops (ops c) s1) = true ->
  fs_ok (let (c, s1) := fadd_cell p s' in fapply_ops (ops' c) s1) = true ->
  fsys_sc k (let (c, s1) := fadd_cell p s in fapply_ops (ops c) s1) (let (c, s1) := fadd_cell p s' in fapply_ops (ops' c) s1).
Proof.
  intros k p ops ops' s s' Hs Ho. unfold fadd_cell. rewrite (fsys_sc_size _ _ _ Hs). intros O O'.
  apply fapply_ops_sc; auto. apply fadd_cell_sc. exact Hs.
Qed.

Lemma fcell_ops_ok_mono : forall p (ops : Z -> list fpinop) s,
  fs_ok (let (c, s1) := fadd_cell p s in fapply_ops (ops c) s1) = true -> fs_ok s = true.
Proof. intros p ops s. unfold fadd_cell. intros H. apply fapply_ops_ok_mono in H. exact H. Qed.

(* one net of create(topo, pl, eps, model) *)
Lemma fadd_net_model_sc : forall k m pl eps s s' n n', fsys_sc k s s' -> fnet_sc k n n' ->
  fs_ok (fadd_net_model m pl eps s n) = true -> fs_ok (fadd_net_model m pl eps s' n') = true ->
  fsys_sc k (fadd_net_model m pl eps s n) (fadd_net_model m pl eps s' n').
Proof.
  intros k m pl eps s s' [w pins] [w' pins'] Hs [Ep Sw]. cbn in Ep, Sw. subst pins'.
  unfold fadd_net_model. cbn [fn_weight fn_pins]. destruct m.
  - apply fapply_ops_sc; auto. apply fb2b_ops_sc; auto.
  - destruct (fbip_like pins).
    + apply fapply_ops_sc; auto. apply fbipoint_pl_ops_sc; auto.
    + apply (fcell_ops_sc k (fstar_pos pins pl) (fstar_pl_ops w pins pl eps) (fstar_pl_ops w' pins pl eps)); auto.
      intros c. apply fstar_pl_ops_sc; auto.
  - apply fapply_ops_sc; auto. apply fclique_pl_ops_sc; auto.
  - destruct (fbip_like pins).
    + apply fapply_ops_sc; auto. apply fbipoint_pl_ops_sc; auto.
    + apply (fcell_ops_sc k (fstar_pos pins pl) (flightstar_ops w pins pl eps) (flightstar_ops w' pins pl eps)); auto.
      intros c. apply flightstar_ops_sc; auto.
Qed.

Lemma fadd_net_model_ok_mono : forall m pl eps s n, fs_ok (fadd_net_model m pl eps s n) = true -> fs_ok s = true.
Proof.
  intros m pl eps s n. unfold fadd_net_model. destruct m; try destruct (fbip_like (fn_pins n));
    first [apply fapply_ops_ok_mono | apply fcell_ops_ok_mono].
Qed.

(* one net of createStar(topo) / addBipoint(net) / addClique(net) *)
Lemma fadd_star_sc : forall k s s' n n', fsys_sc k s s' -> fnet_sc k n n' ->
  fs_ok (fadd_star n s) = true -> fs_ok (fadd_star n' s') = true -> fsys_sc k (fadd_star n s) (fadd_star n' s').
Proof.
  intros k s s' [w pins] [w' pins'] Hs [Ep Sw]. cbn in Ep, Sw. subst pins'.
  unfold fadd_star. cbn [fn_weight fn_pins]. destruct (fbip_like pins).
  - apply fapply_ops_sc; auto. apply fbipoint_ops_sc; auto.
  - apply (fcell_ops_sc k fzero (fstar_ops w pins) (fstar_ops w' pins)); auto. intros c. apply fstar_ops_sc; auto.
Qed.

Lemma fadd_star_ok_mono : forall n s, fs_ok (fadd_star n s) = true -> fs_ok s = true.
Proof.
  intros n s. unfold fadd_star. destruct (fbip_like (fn_pins n));
    first [apply fapply_ops_ok_mono | apply fcell_ops_ok_mono].
Qed.

Lemma fadd_bipoint_sc : forall k s s' n n', fsys_sc k s s' -> fnet_sc k n n' ->
  fs_ok (fadd_bipoint n s) = true -> fs_ok (fadd_bipoint n' s') = true -> fsys_sc k (fadd_bipoint n s) (fadd_bipoint n' s').
Proof.
  intros k s s' [w pins] [w' pins'] Hs [Ep Sw]. cbn in Ep, Sw. subst pins'. unfold fadd_bipoint. cbn [fn_weight fn_pins].
  apply fapply_ops_sc; auto. apply fbipoint_ops_sc; auto.
Qed.

Lemma fadd_clique_sc : forall k s s' n n', fsys_sc k s s' -> fnet_sc k n n' ->
  fs_ok (fadd_clique n s) = true -> fs_ok (fadd_clique n' s') = true -> fsys_sc k (fadd_clique n s) (fadd_clique n' s').
Proof.
  intros k s s' [w pins] [w' pins'] Hs [Ep Sw]. cbn in Ep, Sw. subst pins'. unfold fadd_clique. cbn [fn_weight fn_pins].
  apply fapply_ops_sc; auto. apply fclique_ops_sc; auto.
Qed.

Lemma fsys_empty_sc : forall k n, fsys_sc k (fsys_empty n) (fsys_empty n).
Proof.
  intros k n. apply fsys_sc_intro; cbn; auto. induction n; simpl; constructor; auto using sc_zero.
Qed.

(* the assembly, all entry points *)
Lemma fassembly_pow2_exact : forall k nm nm', fnm_sc k nm nm' ->
  (fs_ok (fcreate_star0 nm) = true -> fs_ok (fcreate_star0 nm') = true -> fsys_sc k (fcreate_star0 nm) (fcreate_star0 nm')) /\
  (fs_ok (fcreate_bipoint0 nm) = true -> fs_ok (fcreate_bipoint0 nm') = true -> fsys_sc k (fcreate_bipoint0 nm) (fcreate_bipoint0 nm')) /\
  (fs_ok (fcreate_clique0 nm) = true -> fs_ok (fcreate_clique0 nm') = true -> fsys_sc k (fcreate_clique0 nm) (fcreate_clique0 nm')) /\
  (forall m pl eps, fs_ok (fcreate m nm pl eps) = true -> fs_ok (fcreate m nm' pl eps) = true ->
     fsys_sc k (fcreate m nm pl eps) (fcreate m nm' pl eps)) /\
  (forall m pl eps tg st st' cutoff, Forall2 (sc k) st st' ->
     fs_ok (fadd_penalty pl tg st cutoff (fcreate m nm pl eps)) = true ->
     fs_ok (fadd_penalty pl tg st' cutoff (fcreate m nm' pl eps)) = true ->
     fsys_sc k (fadd_penalty pl tg st cutoff (fcreate m nm pl eps)) (fadd_penalty pl tg st' cutoff (fcreate m nm' pl eps))).
Proof.
  intros k [n nets] [n' nets'] [En Hn]. cbn in En, Hn. subst n'.
  assert (Hc : forall m pl eps, fs_ok (fcreate m (mkFNM n nets) pl eps) = true -> fs_ok (fcreate m (mkFNM n nets') pl eps) = true ->
     fsys_sc k (fcreate m (mkFNM n nets) pl eps) (fcreate m (mkFNM n nets') pl eps)).
  { intros m pl eps. unfold fcreate. cbn [fnm_nets fnm_cells].
    apply (fold_sc (fnet_sc k) k (fadd_net_model m pl eps)); auto using fsys_empty_sc.
    - intros s x. apply fadd_net_model_ok_mono.
    - intros. apply fadd_net_model_sc; auto. }
  split; [|split; [|split; [|split]]].
  - unfold fcreate_star0. cbn [fnm_nets fnm_cells].
    apply (fold_sc (fnet_sc k) k (fun s x => fadd_star x s)); auto using fsys_empty_sc.
    + intros s x. apply fadd_star_ok_mono.
    + intros. apply fadd_star_sc; auto.
  - unfold fcreate_bipoint0. cbn [fnm_nets fnm_cells].
    apply (fold_sc (fnet_sc k) k (fun s x => fadd_bipoint x s)); auto using fsys_empty_sc.
    + intros s x. apply fapply_ops_ok_mono.
    + intros. apply fadd_bipoint_sc; auto.
  - unfold fcreate_clique0. cbn [fnm_nets fnm_cells].
    apply (fold_sc (fnet_sc k) k (fun s x => fadd_clique x s)); auto using fsys_empty_sc.
    + intros s x. apply fapply_ops_ok_mono.
    + intros. apply fadd_clique_sc; auto.
  - exact Hc.
  - intros m pl eps tg st st' cutoff Hst O O'. unfold fadd_penalty in *.
    apply fapply_ops_sc; auto. + apply fpenalty_ops_sc; exact Hst.
    + apply Hc; eapply fapply_ops_ok_mono; eauto.
Qed.

(* ------------------------------------------------------------------ (6) bit patterns *)

(* "exactly 2^k times" determines the bit pattern: it is ldexp(v, k) *)
Lemma sc_ldexp : forall k v v', sc k v v' -> v' = fldexp v k.
Proof.
  intros k v v' (F & F' & E & S). unfold fldexp.
  pose proof (Bldexp_correct 24 128 q24 q24_128 mode_NE v k) as C.
  assert (R : round radix2 (SpecFloat.fexp 24 128) (round_mode mode_NE) (B2R v * b2 k) = B2R v').
  { rewrite Rmult_comm, <- E. apply round_generic; [apply valid_rnd_N|]. apply (generic_format_B2R 24 128). }
  rewrite R in C. rewrite Rlt_bool_true in C by apply (abs_B2R_lt_emax 24 128).
  destruct C as (C1 & C2 & C3). apply B2R_Bsign_inj; auto; try congruence.
Qed.

Lemma fsys_sc_ldexp : forall k s s', fsys_sc k s s' -> fsys_ldexp k s s'.
Proof.
  intros k [m r i n o] [m' r' i' n' o'] (Hm & Hr & Hi & Hn). cbn in *. unfold fsys_ldexp. cbn. repeat split; auto.
  - clear -Hm. induction Hm as [|t t' l l' E H IH]; simpl; [reflexivity|]. destruct E as (E1 & E2 & E3).
    destruct t as [a b v], t' as [a' b' v']. cbn in E1, E2, E3. subst a' b'. cbn. rewrite (sc_ldexp _ _ _ E3), IH. reflexivity.
  - clear -Hr. induction Hr as [|v v' l l' E H IH]; simpl; [reflexivity|]. rewrite (sc_ldexp _ _ _ E), IH. reflexivity.
Qed.

(* finalize(): the regularisation triplets are the same in both runs (1.0e-8f is NOT multiplied by 2^k); they sit on rows
   that no addPin call touched *)
Lemma ffinalize_sc : forall k s s', fsys_sc k s s' ->
  exists reg, fs_mat (ffinalize s) = fs_mat s ++ reg /\ fs_mat (ffinalize s') = fs_mat s' ++ reg /\
              reg = freg_trips (fs_nz s) /\
              Forall2 (sc k) (fs_rhs (ffinalize s)) (fs_rhs (ffinalize s')) /\ fs_init (ffinalize s') = fs_init (ffinalize s).
Proof.
  intros k s s' (Hm & Hr & Hi & Hn). exists (freg_trips (fs_nz s)). unfold ffinalize. cbn. rewrite Hn. auto.
Qed.

(* ------------------------------------------------------------------ (7) underflow really breaks exactness *)
(* one cell; one net {cell 0 at offset 0, fixed pin at 0.375} of weight (2^23+1) 2^-23; k = -126: the scaled weight
   (2^23+1) 2^-149 is a binary32 number, but the product w * 0.375 falls into the subnormal range and is rounded at
   2^-149 instead of 24 bits: rhs' = 3145728 * 2^-149 whereas 2^-126 * rhs = 3145728.5 * 2^-149 *)
Definition uf_w : f32 := @B754_finite 24 128 false 8388609 (-23) eq_refl.
Definition uf_w' : f32 := @B754_finite 24 128 false 8388609 (-149) eq_refl.
Definition uf_pos : f32 := @B754_finite 24 128 false 12582912 (-25) eq_refl.   (* 0.375 *)
Definition uf_nm (w : f32) : fnetmodel := mkFNM 1 [mkFNet w [(0%Z, fzero); ((-1)%Z, uf_pos)]].

Lemma uf_weights_sc : sc (-126) uf_w uf_w'.
Proof.
  unfold sc. repeat split; try reflexivity. unfold uf_w, uf_w', B2R, F2R. cbn [Fnum Fexp cond_Zopp].
  replace (b2 (-149)) with (b2 (-126) * b2 (-23)) by (rewrite <- bpow_plus; reflexivity). ring.
Qed.

Lemma SF2R_finite : forall s m e, SF2R radix2 (S754_finite s m e) = IZR (cond_Zopp s (Zpos m)) * b2 e.
Proof. reflexivity. Qed.

Lemma fassembly_underflow_witness :
  fnm_sc (-126) (uf_nm uf_w) (uf_nm uf_w') /\
  fs_ok (fcreate_bipoint0 (uf_nm uf_w)) = true /\ fs_ok (fcreate_bipoint0 (uf_nm uf_w')) = false /\
  ~ fsys_sc (-126) (fcreate_bipoint0 (uf_nm uf_w)) (fcreate_bipoint0 (uf_nm uf_w')).
Proof.
  split; [|split; [|split]].
  - split; [reflexivity|]. constructor; [|constructor]. split; [reflexivity|exact uf_weights_sc].
  - vm_compute. reflexivity.
  - vm_compute. reflexivity.
  - intros (_ & Hr & _). apply (Forall2_sc_nth _ _ _ O) in Hr. destruct Hr as (_ & _ & E & _).
    rewrite <- !(SF2R_B2SF 24 128) in E.
    assert (E1 : B2SF (nth 0 (fs_rhs (fcreate_bipoint0 (uf_nm uf_w))) fzero) = S754_finite false 12582914 (-25))
      by (vm_compute; reflexivity).
    assert (E2 : B2SF (nth 0 (fs_rhs (fcreate_bipoint0 (uf_nm uf_w'))) fzero) = S754_finite false 3145728 (-149))
      by (vm_compute; reflexivity).
    rewrite E1, E2, !SF2R_finite in E. cbn [cond_Zopp] in E.
    assert (P : 0 < b2 (-149)) by apply bpow_gt_0.
    replace (b2 (-126)) with (b2 (-149) * 8388608) in E
      by (change 8388608 with (b2 23); rewrite <- bpow_plus; reflexivity).
    replace (b2 (-25)) with (/ 33554432) in E by reflexivity.
    lra.
Qed.

(* ------------------------------------------------------------------ (9) how the side condition is discharged: ranges *)
(* an operation satisfies its side condition when the exact result is 0 or of magnitude in [2^-125, 2^127] *)

Lemma rnd32_range : forall x, b2 (-125) <= Rabs x <= b2 127 -> b2 (-125) <= Rabs (rnd32 x) <= b2 127.
Proof.
  intros x [L U]. unfold rnd32. split.
  - apply abs_round_ge_generic; [exact qvalid32|apply valid_rnd_N|apply fmt32_bpow; lia|exact L].
  - apply abs_round_le_generic; [exact qvalid32|apply valid_rnd_N|apply fmt32_bpow; lia|exact U].
Qed.

Lemma fnormal_of_R : forall v : f32, is_finite v = true -> b2 (-125) <= Rabs (B2R v) -> fnormal v = true.
Proof.
  intros v F L. unfold fnormal, fltb.
  rewrite Bltb_correct by (try reflexivity; unfold fabs; rewrite is_finite_Babs; exact F).
  unfold fabs. rewrite B2R_Babs, B2R_flt_min. apply Rlt_bool_true.
  apply Rlt_le_trans with (b2 (-125)); [apply bpow_lt; lia|exact L].
Qed.

Lemma lt_emax : forall y, Rabs y <= b2 127 -> Rlt_bool (Rabs y) (b2 128) = true.
Proof. intros y H. apply Rlt_bool_true. apply Rle_lt_trans with (b2 127); [exact H|apply bpow_lt; lia]. Qed.

Lemma ok_mul_range : forall a d : f32, is_finite a = true -> is_finite d = true ->
  (B2R a * B2R d = 0 \/ b2 (-125) <= Rabs (B2R a * B2R d) <= b2 127) ->
  ok_mul a d (fmul a d) = true /\ ok_mul a d (fmul d a) = true.
Proof.
  intros a d Fa Fd H.
  assert (G : forall x y : f32, is_finite x = true -> is_finite y = true ->
    (B2R x * B2R y = 0 \/ b2 (-125) <= Rabs (B2R x * B2R y) <= b2 127) ->
    is_finite (fmul x y) = true /\ (fis_zero x || fis_zero y || fnormal (fmul x y)) = true).
  { intros x y Fx Fy Hxy. pose proof (Bmult_correct 24 128 q24 q24_128 mode_NE x y) as C.
    change (round radix2 (SpecFloat.fexp 24 128) (round_mode mode_NE) (B2R x * B2R y)) with (rnd32 (B2R x * B2R y)) in C.
    fold (fmul x y) in C. destruct Hxy as [Z|R].
    - rewrite Z, rnd32_0, Rabs_R0, Rlt_bool_true in C by apply bpow_gt_0. destruct C as (_ & C2 & _).
      rewrite Fx, Fy in C2. split; [exact C2|]. apply Rmult_integral in Z.
      destruct x as [sx|sx| |sx mx ex Bx]; try discriminate; try reflexivity.
      destruct y as [sy|sy| |sy my ey By]; try discriminate; try (rewrite orb_true_r; reflexivity).
      exfalso. destruct Z as [Z|Z]; revert Z; apply finite_nonzero_R; reflexivity.
    - pose proof (rnd32_range _ R) as [L U]. rewrite (lt_emax _ U) in C. destruct C as (C1 & C2 & _).
      rewrite Fx, Fy in C2. split; [exact C2|]. rewrite (fnormal_of_R _ C2); [apply orb_true_r|]. rewrite C1. exact L. }
  unfold ok_mul. split.
  - destruct (G a d Fa Fd H) as [G1 G2]. rewrite G1, G2. reflexivity.
  - rewrite Rmult_comm in H. destruct (G d a Fd Fa H) as [G1 G2]. rewrite G1. cbn [andb].
    rewrite <- G2. destruct (fis_zero a), (fis_zero d); reflexivity.
Qed.

Lemma ok_div_range : forall a d : f32, is_finite a = true -> is_finite d = true -> B2R d <> 0 ->
  (B2R a = 0 \/ b2 (-125) <= Rabs (B2R a / B2R d) <= b2 127) -> ok_div a d (fdiv a d) = true.
Proof.
  intros a d Fa Fd Nd H. pose proof (Bdiv_correct 24 128 q24 q24_128 mode_NE a d Nd) as C.
  change (round radix2 (SpecFloat.fexp 24 128) (round_mode mode_NE) (B2R a / B2R d)) with (rnd32 (B2R a / B2R d)) in C.
  fold (fdiv a d) in C. unfold ok_div. destruct H as [Z|R].
  - unfold Rdiv in C. rewrite Z, Rmult_0_l, rnd32_0, Rabs_R0, Rlt_bool_true in C by apply bpow_gt_0. destruct C as (_ & C2 & _).
    rewrite C2, Fa, Fd. cbn [andb].
    destruct a as [sx|sx| |sx mx ex Bx]; try discriminate; try reflexivity.
    exfalso. revert Z. apply finite_nonzero_R; reflexivity.
  - pose proof (rnd32_range _ R) as [L U]. rewrite (lt_emax _ U) in C. destruct C as (C1 & C2 & _).
    rewrite C2, Fa, Fd. cbn [andb]. rewrite (fnormal_of_R (fdiv a d)); [apply orb_true_r|rewrite C2; exact Fa|rewrite C1; exact L].
Qed.

Lemma ok_add_range : forall a b : f32, is_finite a = true -> is_finite b = true ->
  (B2R a + B2R b = 0 \/ b2 (-125) <= Rabs (B2R a + B2R b) <= b2 127) -> ok_add (fadd a b) = true.
Proof.
  intros a b Fa Fb H. pose proof (Bplus_correct 24 128 q24 q24_128 mode_NE a b Fa Fb) as C.
  change (round radix2 (SpecFloat.fexp 24 128) (round_mode mode_NE) (B2R a + B2R b)) with (rnd32 (B2R a + B2R b)) in C.
  fold (fadd a b) in C. unfold ok_add. destruct H as [Z|R].
  - rewrite Z, rnd32_0, Rabs_R0, Rlt_bool_true in C by apply bpow_gt_0. destruct C as (C1 & C2 & _). rewrite C2. cbn [andb].
    destruct (fadd a b) as [sx|sx| |sx mx ex Bx]; try discriminate; try reflexivity.
    exfalso. revert C1. apply finite_nonzero_R; reflexivity.
  - pose proof (rnd32_range _ R) as [L U]. rewrite (lt_emax _ U) in C. destruct C as (C1 & C2 & _).
    rewrite C2. cbn [andb]. rewrite (fnormal_of_R _ C2); [apply orb_true_r|rewrite C1; exact L].
Qed.

Lemma fops_side_condition_by_range : forall a b d : f32, is_finite a = true -> is_finite b = true -> is_finite d = true ->
  ((B2R a * B2R d = 0 \/ b2 (-125) <= Rabs (B2R a * B2R d) <= b2 127) ->
     ok_mul a d (fmul a d) = true /\ ok_mul a d (fmul d a) = true) /\
  (B2R d <> 0 -> (B2R a = 0 \/ b2 (-125) <= Rabs (B2R a / B2R d) <= b2 127) -> ok_div a d (fdiv a d) = true) /\
  ((B2R a + B2R b = 0 \/ b2 (-125) <= Rabs (B2R a + B2R b) <= b2 127) -> ok_add (fadd a b) = true).
Proof.
  intros a b d Fa Fb Fd. split; [|split].
  - apply ok_mul_range; assumption.
  - intros. apply ok_div_range; assumption.
  - apply ok_add_range; assumption.
Qed.

(* ------------------------------------------------------------------ (8) packaging for Properties_C17.v *)

Lemma fops_pow2_exact : forall k a a' b b' d, sc k a a' -> sc k b b' ->
  (ok_mul a d (fmul a d) = true -> ok_mul a' d (fmul a' d) = true -> sc k (fmul a d) (fmul a' d)) /\
  (ok_mul a d (fmul d a) = true -> ok_mul a' d (fmul d a') = true -> sc k (fmul d a) (fmul d a')) /\
  (ok_div a d (fdiv a d) = true -> ok_div a' d (fdiv a' d) = true -> sc k (fdiv a d) (fdiv a' d)) /\
  (ok_add (fadd a b) = true -> ok_add (fadd a' b') = true -> sc k (fadd a b) (fadd a' b')) /\
  sc k (fopp a) (fopp a').
Proof.
  intros k a a' b b' d Sa Sb. split; [|split; [|split; [|split]]].
  - apply sc_mul; exact Sa.
  - apply sc_mul_r; exact Sa.
  - apply sc_div; exact Sa.
  - apply sc_add; assumption.
  - apply sc_opp; exact Sa.
Qed.

Lemma fscaled_is_ldexp : (forall k v v', sc k v v' -> v' = fldexp v k) /\ (forall k s s', fsys_sc k s s' -> fsys_ldexp k s s').
Proof. split; [exact sc_ldexp|exact fsys_sc_ldexp]. Qed.

(* two numbers with the same sign and mantissa and exponents e, e + k *)
Lemma sc_by_SF : forall k (x y : f32) s m e, B2SF x = S754_finite s m e -> B2SF y = S754_finite s m (e + k) -> sc k x y.
Proof.
  intros k x y sg mm ee Hx Hy. destruct x as [ | | |sx mx ex Bx]; simpl in Hx; try discriminate.
  destruct y as [ | | |sy my ey By]; simpl in Hy; try discriminate.
  inversion Hx; inversion Hy; subst. unfold sc, B2R, F2R. cbn [is_finite Bsign Fnum Fexp]. repeat split; auto.
  rewrite bpow_plus. ring.
Qed.

(* ------------------------------------------------------------------ (10) normalize() (finding F22) in binary32 *)
Lemma sc_abs : forall k a a', sc k a a' -> sc k (fabs a) (fabs a').
Proof.
  intros k a a' (F & F' & E & S). unfold sc, fabs. rewrite !is_finite_Babs, !B2R_Babs, E.
  repeat split; auto.
  - rewrite Rabs_mult, (Rabs_pos_eq (b2 k)) by apply bpow_ge_0. reflexivity.
  - destruct a, a'; simpl in *; try discriminate; reflexivity.
Qed.

Lemma sc_ltb : forall k a a' b b', sc k a a' -> sc k b b' -> fltb a' b' = fltb a b.
Proof.
  intros k a a' b b' (Fa & Fa' & Ea & _) (Fb & Fb' & Eb & _). unfold fltb.
  rewrite !Bltb_correct by assumption. rewrite Ea, Eb. pose proof (b2_pos k) as P.
  destruct (Rlt_bool_spec (B2R a) (B2R b)) as [L|L].
  - apply Rlt_bool_true. nra.
  - apply Rlt_bool_false. nra.
Qed.

Lemma sc_max : forall k a a' b b', sc k a a' -> sc k b b' -> sc k (fmax_std a b) (fmax_std a' b').
Proof. intros k a a' b b' Sa Sb. unfold fmax_std. rewrite (sc_ltb k a a' b b' Sa Sb). destruct (fltb a b); assumption. Qed.

Lemma sc_maxabs : forall k l l', Forall2 (sc k) l l' -> sc k (fmaxabs l) (fmaxabs l').
Proof.
  intros k l l' H. unfold fmaxabs. generalize (sc_zero k). generalize fzero at 1 3. generalize fzero.
  induction H as [|v v' l l' Hv H IH]; intros m m' Hm; simpl; [exact Hm|].
  apply IH. apply sc_max; [exact Hm|apply sc_abs; exact Hv].
Qed.

Lemma filogb_mag : forall v : f32, is_finite v = true -> B2R v <> 0 -> filogb v = (mag radix2 (B2R v) - 1)%Z.
Proof.
  intros [s|s| |s m e B] F N; simpl in F; try discriminate; [simpl in N; congruence|].
  unfold filogb, B2R. rewrite mag_F2R_Zdigits by (destruct s; discriminate). destruct s; reflexivity.
Qed.

Lemma fltb_zero_R : forall v : f32, is_finite v = true -> fltb fzero v = true -> 0 < B2R v.
Proof.
  intros v F H. unfold fltb in H. rewrite Bltb_correct in H by (auto; reflexivity). simpl in H.
  destruct (Rlt_bool_spec 0 (B2R v)); [assumption|discriminate].
Qed.

Lemma filogb_sc : forall k v v', sc k v v' -> fltb fzero v = true -> filogb v' = (filogb v + k)%Z.
Proof.
  intros k v v' (F & F' & E & S) P. pose proof (fltb_zero_R v F P) as Pv. pose proof (b2_pos k) as Pk.
  rewrite (filogb_mag v F) by lra. rewrite (filogb_mag v' F') by (rewrite E; nra).
  rewrite E, Rmult_comm, mag_mult_bpow by lra. ring.
Qed.

(* ldexp of two exactly scaled numbers by exponents that differ by the scale: the same number, bit for bit *)
Lemma fldexp_sc : forall k e v v', sc k v v' -> fldexp v' (- (e + k)) = fldexp v (- e).
Proof.
  intros k e v v' (F & F' & E & S). unfold fldexp.
  pose proof (Bldexp_correct 24 128 q24 q24_128 mode_NE v (- e)) as C.
  pose proof (Bldexp_correct 24 128 q24 q24_128 mode_NE v' (- (e + k))) as C'.
  assert (X : B2R v' * b2 (- (e + k)) = B2R v * b2 (- e)).
  { rewrite E. replace (- (e + k))%Z with (- e + - k)%Z by ring. rewrite bpow_plus, (bpow_opp radix2 k).
    field. apply Rgt_not_eq, bpow_gt_0. }
  rewrite X in C'. destruct (Rlt_bool _ _).
  - destruct C as (C1 & C2 & C3). destruct C' as (C1' & C2' & C3'). apply B2R_Bsign_inj; try congruence.
  - apply B2SF_inj. rewrite C, C', S. reflexivity.
Qed.

Lemma fldexp_0 : forall v : f32, is_finite v = true -> fldexp v 0 = v.
Proof.
  intros v F. assert (S : sc 0 v v). { unfold sc. repeat split; auto. simpl. ring. }
  pose proof (fldexp_sc 0 0 v v S) as H. simpl in H. rewrite (sc_ldexp 0 v v S) at 2. symmetry. exact H.
Qed.

Lemma fscale_sys_sc : forall k e s s', fsys_sc k s s' -> fs_ok s' = fs_ok s -> fscale_sys (e + k) s' = fscale_sys e s.
Proof.
  intros k e [m r i n o] [m' r' i' n' o'] (Hm & Hr & Hi & Hn) Ho. cbn in *. unfold fscale_sys. cbn. subst. f_equal.
  - clear -Hm. induction Hm as [|t t' l l' E H IH]; simpl; [reflexivity|]. destruct E as (E1 & E2 & E3).
    rewrite IH, E1, E2, (fldexp_sc k e _ _ E3). reflexivity.
  - clear -Hr. induction Hr as [|v v' l l' E H IH]; simpl; [reflexivity|]. rewrite IH, (fldexp_sc k e _ _ E). reflexivity.
Qed.

Lemma fscale_sys_0 : forall s, Forall (fun t => is_finite (ft_val t) = true) (fs_mat s) ->
  Forall (fun v : f32 => is_finite v = true) (fs_rhs s) -> fscale_sys 0 s = s.
Proof.
  intros [m r i n o] Hm Hr. cbn in *. unfold fscale_sys. cbn. f_equal.
  - induction Hm as [|t l F H IH]; simpl; [reflexivity|]. rewrite IH, (fldexp_0 _ F). destruct t; reflexivity.
  - induction Hr as [|v l F H IH]; simpl; [reflexivity|]. rewrite IH, (fldexp_0 _ F). reflexivity.
Qed.

(* the exponent of normalize(), 0 standing for "no scaling" *)
Definition fnorm_e (s : fsys) : Z :=
  let e := filogb (fmaxabs (fs_rhs s)) in
  if fltb fzero (fmaxabs (map ft_val (fs_mat s))) then Z.max e (filogb (fmaxabs (map ft_val (fs_mat s))) - 64) else e.

Lemma fsys_sc_vals : forall k s s', fsys_sc k s s' -> Forall2 (sc k) (map ft_val (fs_mat s)) (map ft_val (fs_mat s')).
Proof. intros k s s' (Hm & _). induction Hm as [|t t' l l' (_ & _ & E) H IH]; simpl; constructor; auto. Qed.

Lemma Forall2_sc_finite_l : forall k l l', Forall2 (sc k) l l' -> Forall (fun v : f32 => is_finite v = true) l.
Proof. intros k l l' H. induction H as [|v v' l l' E H IH]; constructor; auto. apply E. Qed.

Lemma fnormalize_as_scale : forall k s s', fsys_sc k s s' -> fltb fzero (fmaxabs (fs_rhs s)) = true ->
  fnormalize s = fscale_sys (fnorm_e s) s.
Proof.
  intros k s s' H P. pose proof (fsys_sc_vals k s s' H) as Hv. destruct H as (Hm & Hr & _).
  pose proof (sc_maxabs k _ _ Hr) as Sr. pose proof (sc_maxabs k _ _ Hv) as Sm.
  unfold fnormalize, fnorm_exp. cbv zeta. rewrite P, (sc_finite_l _ _ _ Sr), (sc_finite_l _ _ _ Sm). cbn [negb orb].
  fold (fnorm_e s). destruct (fnorm_e s =? 0)%Z eqn:E; [|reflexivity].
  apply Z.eqb_eq in E. rewrite E. symmetry. apply fscale_sys_0.
  - clear -Hm. induction Hm as [|t t' l l' (_ & _ & E) H IH]; constructor; auto. apply E.
  - eapply Forall2_sc_finite_l; eauto.
Qed.

Lemma sc_sym_finite : forall k s s', fsys_sc k s s' -> fsys_sc (- k) s' s.
Proof.
  assert (S : forall k v v', sc k v v' -> sc (- k) v' v).
  { intros k v v' (F & F' & E & Sg). unfold sc. repeat split; auto. rewrite E, <- Rmult_assoc, <- bpow_plus.
    replace (- k + k)%Z with 0%Z by ring. simpl. ring. }
  intros k s s' (Hm & Hr & Hi & Hn). unfold fsys_sc. repeat split; auto.
  - clear -Hm S. induction Hm as [|t t' l l' (E1 & E2 & E3) H IH]; constructor; auto. unfold ftrip_sc. auto.
  - clear -Hr S. induction Hr; constructor; auto.
Qed.

(* (ii) two exactly 2^k-scaled systems with a non-zero right-hand side are normalised to THE SAME system *)
Lemma fnormalize_scaled_identical : forall k s s', fsys_sc k s s' -> fs_ok s' = fs_ok s ->
  fltb fzero (fmaxabs (fs_rhs s)) = true -> fnormalize s' = fnormalize s /\ fsolver_input s' = fsolver_input s.
Proof.
  intros k s s' H Ho P.
  assert (G : fnormalize s' = fnormalize s).
  { pose proof (fsys_sc_vals k s s' H) as Hv. pose proof H as (Hm & Hr & _).
    pose proof (sc_maxabs k _ _ Hr) as Sr. pose proof (sc_maxabs k _ _ Hv) as Sm.
    assert (P' : fltb fzero (fmaxabs (fs_rhs s')) = true) by (rewrite (sc_ltb k _ _ _ _ (sc_zero k) Sr); exact P).
    rewrite (fnormalize_as_scale k s s' H P).
    rewrite (fnormalize_as_scale (- k) s' s (sc_sym_finite _ _ _ H) P').
    assert (E : fnorm_e s' = (fnorm_e s + k)%Z).
    { unfold fnorm_e. rewrite (sc_ltb k _ _ _ _ (sc_zero k) Sm), (filogb_sc k _ _ Sr P).
      destruct (fltb fzero (fmaxabs (map ft_val (fs_mat s)))) eqn:Q; [|reflexivity].
      rewrite (filogb_sc k _ _ Sm Q). lia. }
    rewrite E. apply fscale_sys_sc; assumption. }
  split; [exact G|]. unfold fsolver_input. rewrite G. reflexivity.
Qed.

(* the strongest form of the power-of-two clause up to Eigen: inside the window of c17_float_assembly_pow2_exact the solver
   receives the same bits, whatever k *)
Lemma fsolver_input_pow2_identical : forall k nm nm', fnm_sc k nm nm' ->
  (forall m pl eps, fs_ok (fcreate m nm pl eps) = true -> fs_ok (fcreate m nm' pl eps) = true ->
     fltb fzero (fmaxabs (fs_rhs (fcreate m nm pl eps))) = true ->
     fsolver_input (fcreate m nm' pl eps) = fsolver_input (fcreate m nm pl eps)) /\
  (forall m pl eps tg st st' cutoff, Forall2 (sc k) st st' ->
     fs_ok (fadd_penalty pl tg st cutoff (fcreate m nm pl eps)) = true ->
     fs_ok (fadd_penalty pl tg st' cutoff (fcreate m nm' pl eps)) = true ->
     fltb fzero (fmaxabs (fs_rhs (fadd_penalty pl tg st cutoff (fcreate m nm pl eps)))) = true ->
     fsolver_input (fadd_penalty pl tg st' cutoff (fcreate m nm' pl eps)) = fsolver_input (fadd_penalty pl tg st cutoff (fcreate m nm pl eps))) /\
  (fs_ok (fcreate_star0 nm) = true -> fs_ok (fcreate_star0 nm') = true ->
     fltb fzero (fmaxabs (fs_rhs (fcreate_star0 nm))) = true -> fsolver_input (fcreate_star0 nm') = fsolver_input (fcreate_star0 nm)).
Proof.
  intros k nm nm' H. destruct (fassembly_pow2_exact k nm nm' H) as (A0 & _ & _ & A1 & A2).
  split; [|split].
  - intros m pl eps O O' P. apply (fnormalize_scaled_identical k); auto; congruence.
  - intros m pl eps tg st st' cutoff Hst O O' P. apply (fnormalize_scaled_identical k); auto; congruence.
  - intros O O' P. apply (fnormalize_scaled_identical k); auto; congruence.
Qed.

(* ------------------------------------------------------------------ (11) nets on a single cell (finding F25), binary32 *)
Lemma fadd_pin_self : forall o s, fp_c1 o = fp_c2 o -> fadd_pin o s = s.
Proof. intros o s H. unfold fadd_pin. rewrite H, Z.eqb_refl. reflexivity. Qed.

Lemma fapply_ops_self : forall ops s, Forall (fun o => fp_c1 o = fp_c2 o) ops -> fapply_ops ops s = s.
Proof.
  intros ops s H. revert s. unfold fapply_ops. induction H as [|o r Ho H IH]; intros s; simpl; [reflexivity|].
  rewrite fadd_pin_self by exact Ho. apply IH.
Qed.

Lemma fsingle_cell_spec : forall pins, fsingle_cell pins = true -> forall p q, In p pins -> In q pins -> fst p = fst q.
Proof.
  intros [|a r] H p q Hp Hq; [destruct Hp|]. simpl in H. rewrite forallb_forall in H.
  assert (E : forall x, In x (a :: r) -> fst x = fst a).
  { intros x [<-|Hx]; [reflexivity|]. apply Z.eqb_eq. apply H. exact Hx. }
  rewrite (E p Hp), (E q Hq). reflexivity.
Qed.

Lemma fpair_ops_in : forall f pins o, In o (fpair_ops f pins) -> exists p q, In p pins /\ In q pins /\ o = f p q.
Proof.
  intros f pins. induction pins as [|a r IH]; intros o H; simpl in H; [destruct H|].
  apply in_app_or in H. destruct H as [H|H].
  - apply in_map_iff in H. destruct H as (q & E & Hq). exists a, q. simpl; auto.
  - destruct (IH o H) as (p & q & Hp & Hq & E). exists p, q. simpl; auto.
Qed.

Lemma fpair_ops_self : forall f pins, fsingle_cell pins = true -> (forall p q, fp_c1 (f p q) = fst p /\ fp_c2 (f p q) = fst q) ->
  Forall (fun o => fp_c1 o = fp_c2 o) (fpair_ops f pins).
Proof.
  intros f pins H Hf. apply Forall_forall. intros o Ho. destruct (fpair_ops_in _ _ _ Ho) as (p & q & Hp & Hq & ->).
  destruct (Hf p q) as [-> ->]. apply (fsingle_cell_spec _ H); auto.
Qed.

Lemma fbipoint_pl_ops_self : forall w pins pl eps, fsingle_cell pins = true ->
  Forall (fun o => fp_c1 o = fp_c2 o) (fbipoint_pl_ops w pins pl eps).
Proof.
  intros w pins pl eps H. unfold fbipoint_pl_ops. destruct pins as [|p0 [|p1 r]]; constructor; [|constructor].
  cbn. apply (fsingle_cell_spec _ H); simpl; auto.
Qed.
Lemma fbipoint_ops_self : forall w pins, fsingle_cell pins = true -> Forall (fun o => fp_c1 o = fp_c2 o) (fbipoint_ops w pins).
Proof.
  intros w pins H. unfold fbipoint_ops. destruct pins as [|p0 [|p1 r]]; constructor; [|constructor].
  cbn. apply (fsingle_cell_spec _ H); simpl; auto.
Qed.

(* binary32: a net whose pins are all on one cell adds nothing (values and flag) in the Star, Clique and LightStar models and in
   the builders without placement.  (B2B: the same when the pin positions are finite; with a NaN position minPin() returns cell -1
   and the C++ adds fixed pins: not covered) *)
Lemma fsingle_cell_net_noop : forall n, fsingle_cell (fn_pins n) = true ->
  (forall m pl eps s, m <> B2B -> fadd_net_model m pl eps s n = s) /\ (forall s, fadd_star n s = s) /\
  (forall s, fadd_bipoint n s = s) /\ (forall s, fadd_clique n s = s).
Proof.
  intros n H. assert (B : fbip_like (fn_pins n) = true) by (unfold fbip_like; rewrite H; apply orb_true_r).
  split; [|split; [|split]].
  - intros m pl eps s Hm. unfold fadd_net_model. rewrite B. destruct m; [congruence| | |]; apply fapply_ops_self.
    + apply fbipoint_pl_ops_self; exact H.
    + unfold fclique_pl_ops. destruct (fclique_w _ _). apply fpair_ops_self; [exact H|]. intros; cbn; auto.
    + apply fbipoint_pl_ops_self; exact H.
  - intros s. unfold fadd_star. rewrite B. apply fapply_ops_self. apply fbipoint_ops_self; exact H.
  - intros s. unfold fadd_bipoint. apply fapply_ops_self. apply fbipoint_ops_self; exact H.
  - intros s. unfold fadd_clique. apply fapply_ops_self. unfold fclique_ops. destruct (fclique_w _ _).
    apply fpair_ops_self; [exact H|]. intros; cbn; auto.
Qed.

(* ------------------------------------------------------------------ (12) finding F30: the penalty anchor lost in binary32 *)
(* three cells without any fixed pin, two nets of weight 1 between cells 0 and 1 (offsets 0), lower-bound placement (0, 0, 0),
   approximation distance 2, penalty targets 4194003, 4194010, 4194022 (about 2^22), strengths 1/16, cutoff 40 *)
Definition f30_fnm : fnetmodel :=
  fbuild_nm 3 [(f_of_Z 1, [(0%Z, fzero); (1%Z, fzero)]); (f_of_Z 1, [(0%Z, fzero); (1%Z, fzero)])].
Definition f30_fsys (m : model) : fsys :=
  fsolver_input (fadd_penalty [fzero; fzero; fzero] [f_of_Z 4194003; f_of_Z 4194010; f_of_Z 4194022]
                              [f_of_me 1 (-4); f_of_me 1 (-4); f_of_me 1 (-4)] (f_of_Z 40)
                              (fcreate m f30_fnm [fzero; fzero; fzero] (f_of_Z 2))).
Definition f30_nm : netmodel := mkNM 3 [mkNet 1 [(0%Z, 0%Q); (1%Z, 0%Q)]; mkNet 1 [(0%Z, 0%Q); (1%Z, 0%Q)]].
Definition f30_sys (m : model) : sys :=
  system_penalty m f30_nm [0%Q; 0%Q; 0%Q] 2%Q [4194003%Q; 4194010%Q; 4194022%Q] [(1 # 16)%Q; (1 # 16)%Q; (1 # 16)%Q] 40%Q.

Definition fpositive (v : f32) : bool := is_finite v && negb (Bsign v) && negb (fis_zero v).

Lemma fpenalty_anchor_lost : forall m,
  let M := fs_mat (f30_fsys m) in let b := fs_rhs (f30_fsys m) in
  (* the matrix Eigen builds: rows 0 and 1 are (a, -a, 0) and (-a, a, 0): the two penalties have vanished from the diagonal *)
  fpositive (fentry 0 0 M) = true /\
  B2SF (fentry 0 1 M) = B2SF (fopp (fentry 0 0 M)) /\ B2SF (fentry 1 0 M) = B2SF (fopp (fentry 0 0 M)) /\
  B2SF (fentry 1 1 M) = B2SF (fentry 0 0 M) /\
  fis_zero (fentry 0 2 M) = true /\ fis_zero (fentry 1 2 M) = true /\ fis_zero (fentry 2 0 M) = true /\ fis_zero (fentry 2 1 M) = true /\
  (* ... while the right-hand side is positive on both rows: (1, 1, 0) . M = 0 but (1, 1, 0) . b > 0: no solution *)
  fpositive (nth 0 b fzero) = true /\ fpositive (nth 1 b fzero) = true /\
  (* over Q the same system keeps its anchors: (1, 1, 0) . M x is not identically zero *)
  (0 < row_sum 0 (s_mat (f30_sys m)) [1; 1; 0] + row_sum 1 (s_mat (f30_sys m)) [1; 1; 0])%Q.
Proof. intros m. destruct m; vm_compute; repeat split; try reflexivity. Qed.
