(* Review gap (C14 memory clause), the sweep run()/push(): NOT re-modelled with option-valued reads.  What is
   proved here is the index invariant at every push(i) boundary that such a transcription needs:
   lastOccupiedSink < nbSinks, optimalSink < nbSinks, |p| = i <= nbSources, 0 < nbSinks when there is a source.
   With it the reads of push(i) are in range:
     u[i], u[i-1], S[i], S[i+1]           i < nbSources, |S| = nbSources + 1
     cost(i, j), cost(i, j+1)             updateOptimalSink guards j + 1 < nbSinks; pushOnce reads j + 1 only
                                          when lastOccupiedSink <> nbSinks - 1
     D[optimalSink], D[lastOccupiedSink + 1], D[j + 1], D[l + 1]   indices <= nbSinks, |D| = nbSinks + 1
     delta(i-1, j), j < e <= lastOccupiedSink               j + 1 < nbSinks
   (inside the while loop the same invariant is kept: Transp1dTerm.push_once_step). *)
From Coq Require Import List ZArith Lia Bool Arith.
Import ListNotations.
Require Import CV.Transp1d CV.Transp1dProofs CV.Transp1dTerm.
Local Open Scope Z_scope.

Lemma init_sinv P : wf_sprob P -> (0 < n_snk P)%nat -> sinv P (Sx P 0) init_st.
Proof.
  intros W Hm. constructor; cbn [init_st lp ev lo os pp]; try lia.
  - split; [exact I|intros e []].
  - rewrite Dx_0, Sx_0 by exact W. lia.
Qed.

Lemma sinks_exist P : wf_sprob P -> (0 < n_src P)%nat -> (0 < n_snk P)%nat.
Proof.
  intros W E. destruct (n_snk P) eqn:Em; [|lia]. exfalso.
  assert (Sx P 0 < Sx P (0 + 1)) by (apply Sx_step; [exact W|lia]).
  assert (Sx P (0 + 1) <= Sx P (n_src P)) by (apply Sx_mono; [exact W|lia|lia]).
  rewrite Sx_n in H0 by exact W. rewrite Sx_0 in H by exact W.
  pose proof (Dx_m P W) as Q. rewrite Em in Q. rewrite Dx_0 in Q by exact W. pose proof (w_tot _ W). lia.
Qed.

Lemma push_all_sinv P : wf_sprob P -> forall c i s s', (i + c <= n_src P)%nat -> sinv P (Sx P i) s ->
  push_all P (seq i c) s = Some s' ->
  sinv P (Sx P (i + c)) s' /\ length (pp s') = (length (pp s) + c)%nat.
Proof.
  intros W. induction c as [|c IH]; intros i s s' Hic Iv H; cbn [seq push_all] in H.
  - inversion H; subst s'. rewrite !Nat.add_0_r. split; [exact Iv|reflexivity].
  - destruct (push_terminates P i s W ltac:(lia) Iv) as (s1 & E1 & I1). rewrite E1 in H.
    destruct (push_proj P i s s1 (i_lp _ _ _ Iv) E1) as [_ Epp].
    replace (i + 1)%nat with (S i) in I1 by lia.
    destruct (IH (S i) s1 s' ltac:(lia) I1 H) as [A B].
    replace (i + S c)%nat with (S i + c)%nat by lia. split; [exact A|].
    rewrite B, Epp, app_length. cbn [length]. lia.
Qed.

(* at the boundary before push(k), for every k <= nbSources *)
Theorem sweep_index_invariant P k s : wf_sprob P -> (k <= n_src P)%nat -> (0 < n_src P)%nat ->
  push_all P (seq 0 k) init_st = Some s ->
  (0 < n_snk P)%nat /\ (lo s < n_snk P)%nat /\ (os s < n_snk P)%nat /\ length (pp s) = k /\
  length (sS P) = S (n_src P) /\ length (sD P) = S (n_snk P) /\
  length (su P) = n_src P /\ length (sv P) = n_snk P.
Proof.
  intros W Hk Hn H. pose proof (sinks_exist P W Hn) as Hm.
  destruct (push_all_sinv P W k 0 init_st s ltac:(lia) (init_sinv P W Hm) H) as [Iv L].
  split; [exact Hm|]. split; [apply Iv|]. split; [apply Iv|]. split; [exact L|].
  split; [apply sS_length; exact W|]. split; [apply sD_length; exact W|]. split; reflexivity.
Qed.
