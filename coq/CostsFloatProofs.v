(* C07 / C13 -- proofs about the float side of the transportation costs (model: CostsFloat.v).
   Part 1: std::round on a binary64 value (SpreadFloat.dround_Z) is Flocq's ZnearestA of its real value.
   Part 2: costsFromIntegers establishes SspMachine.cost_dom for every rectangular matrix of finite non-negative
           binary32 costs with 1 <= #sinks < 2^30; composition with the whole-run theorems.
   Part 3: the cost matrix of DensityLegalizer::reoptimize is finite and non-negative.
   The theorems use the real numbers of the standard library: their Print Assumptions lists
   ClassicalDedekindReals.sig_forall_dec, ClassicalDedekindReals.sig_not_dec and
   FunctionalExtensionality.functional_extensionality_dep (and Classical_Prop.classic through Flocq). *)
From Coq Require Import ZArith Reals Psatz Lra Lia List Bool.
From Flocq Require Import Core BinarySingleNaN Relative.
Require Import CV.RowLegMachine CV.DensityMachine CV.Ssp CV.SspProofs CV.SspTotal.
Require Import CV.SspMachine CV.SspMachineProofs CV.SspMachineRun CV.SspMachineRunProofs.
Require Import CV.SpreadFloat CV.SpreadFloatProofs CV.ExpandFloat CV.ExpandFloatBase CV.CostsFloat.
Import ListNotations.
Local Open Scope R_scope.
Local Existing Instance ExpandFloatBase.prec53.
Local Existing Instance ExpandFloatBase.valid64.

(* ------------------------------------------------------------------ part 1: std::round *)

Lemma ZnearestA_opp : forall x, ZnearestA (- x) = (- ZnearestA x)%Z.
Proof.
  intros x. rewrite Znearest_opp. f_equal.
  unfold Znearest.
  destruct (Rcompare (x - IZR (Zfloor x)) (/ 2)) eqn:C; try reflexivity.
  assert (H : negb (0 <=? - (Zfloor x + 1))%Z = (0 <=? Zfloor x)%Z).
  { destruct (Z.leb_spec 0 (Zfloor x)); destruct (Z.leb_spec 0 (- (Zfloor x + 1))); simpl; try reflexivity; lia. }
  rewrite H. reflexivity.
Qed.

Lemma ZnearestA_IZR : forall z : Z, ZnearestA (IZR z) = z.
Proof.
  intros z. apply Znearest_imp. replace (IZR z - IZR z) with 0 by ring. rewrite Rabs_R0. lra.
Qed.

Lemma ZnearestA_frac : forall m d : Z, (0 <= m)%Z -> (0 < d)%Z ->
  ZnearestA (IZR m / IZR d) = (if (d <=? 2 * (m mod d))%Z then m / d + 1 else m / d)%Z.
Proof.
  intros m d Hm Hd.
  pose proof (Z.div_mod m d ltac:(lia)) as E. pose proof (Z.mod_pos_bound m d Hd) as Hr.
  assert (Hq : (0 <= m / d)%Z) by (apply Z.div_pos; lia).
  set (q := (m / d)%Z) in *. set (r := (m mod d)%Z) in *.
  assert (Pd : 0 < IZR d) by (apply (IZR_lt 0); exact Hd).
  assert (Pr : 0 <= IZR r) by (apply (IZR_le 0); lia).
  assert (Lr : IZR r < IZR d) by (apply IZR_lt; lia).
  set (t := IZR r / IZR d).
  assert (K : IZR r = t * IZR d) by (unfold t; field; lra).
  assert (X : IZR m / IZR d = IZR q + t).
  { unfold t. rewrite E, plus_IZR, mult_IZR. field. lra. }
  assert (T0 : 0 <= t < 1) by (split; nra).
  assert (Fl : Zfloor (IZR m / IZR d) = q). { apply Zfloor_imp. rewrite plus_IZR. lra. }
  unfold Znearest. rewrite Fl. replace (IZR m / IZR d - IZR q) with t by lra.
  destruct (Z.leb_spec d (2 * r)) as [H|H].
  - assert (H' : IZR d <= 2 * IZR r) by (rewrite <- mult_IZR; apply IZR_le; exact H).
    assert (Ht : / 2 <= t) by nra.
    assert (Ce : Zceil (IZR m / IZR d) = (q + 1)%Z).
    { apply Zceil_imp. rewrite plus_IZR. replace (q + 1 - 1)%Z with q by ring. simpl. lra. }
    destruct (Rcompare_spec t (/ 2)) as [C|C|C].
    + lra.
    + rewrite Ce. destruct (Z.leb_spec 0 q); [reflexivity|lia].
    + exact Ce.
  - assert (H' : 2 * IZR r < IZR d) by (rewrite <- mult_IZR; apply IZR_lt; exact H).
    assert (Ht : t < / 2) by nra.
    rewrite Rcompare_Lt by exact Ht. reflexivity.
Qed.

(* std::round of a finite double = ZnearestA of its value *)
Lemma round_half_away_me_correct : forall (s : bool) (m : positive) (e : Z),
  round_half_away_me s m e = ZnearestA (F2R (Float radix2 (cond_Zopp s (Zpos m)) e)).
Proof.
  intros s m e.
  assert (P : forall e, round_half_away_me false m e = ZnearestA (F2R (Float radix2 (Zpos m) e))).
  { clear e. intros e. unfold round_half_away_me, F2R. cbn [Fnum Fexp cond_Zopp].
    destruct (Z.leb_spec 0 e) as [He|He].
    - rewrite <- IZR_Zpower by exact He. rewrite <- mult_IZR. rewrite ZnearestA_IZR. reflexivity.
    - assert (Pd : (0 < 2 ^ (- e))%Z) by (apply Z.pow_pos_nonneg; lia).
      replace (bpow radix2 e) with (/ IZR (2 ^ (- e))).
      2:{ rewrite (IZR_Zpower radix2) by lia. rewrite <- bpow_opp. f_equal. lia. }
      change (IZR (Z.pos m) * / IZR (2 ^ (- e))) with (IZR (Z.pos m) / IZR (2 ^ (- e))).
      rewrite ZnearestA_frac by lia. reflexivity. }
  destruct s.
  - replace (F2R (Float radix2 (cond_Zopp true (Z.pos m)) e)) with (- F2R (Float radix2 (Z.pos m) e)).
    2:{ rewrite <- F2R_Zopp. reflexivity. }
    rewrite ZnearestA_opp, <- P. unfold round_half_away_me. cbn [cond_Zopp]. reflexivity.
  - apply P.
Qed.

Lemma dround_Z_correct : forall v : f64, is_finite v = true -> dround_Z v = Some (ZnearestA (B2R v)).
Proof.
  intros v Fv. destruct v as [s|s| |s m e B]; try discriminate Fv.
  - cbn [dround_Z B2R]. rewrite (ZnearestA_IZR 0). reflexivity.
  - cbn [dround_Z B2R]. rewrite round_half_away_me_correct. reflexivity.
Qed.

Lemma ZnearestA_nonneg : forall x, 0 <= x -> (0 <= ZnearestA x)%Z.
Proof.
  intros x Hx. eapply Z.le_trans; [|apply Znearest_ge_floor]. apply Zfloor_lub. exact Hx.
Qed.

Lemma ZnearestA_le_half : forall x, IZR (ZnearestA x) <= x + / 2.
Proof.
  intros x. pose proof (Znearest_half (Zle_bool 0) x) as H. apply abs_le_inv in H. lra.
Qed.

(* ------------------------------------------------------------------ part 2: costsFromIntegers *)

Notation u53 := (bpow radix2 (-53)).

(* one binary64 rounding of a value of the normal range: at most one relative unit roundoff above *)
Lemma rnd64_rel_le : forall x, bpow radix2 (-1022) <= x -> rnd64 x <= x * (1 + u53).
Proof.
  intros x Hx. pose proof (bpow_gt_0 radix2 (-1022)) as P.
  assert (Hn : bpow radix2 (-1074 + 53 - 1) <= Rabs x) by (rewrite Rabs_pos_eq by lra; exact Hx).
  pose proof (relative_error_N_FLT radix2 (-1074) 53 ltac:(lia) (fun z => negb (Z.even z)) x Hn) as H.
  match type of H with _ <= ?c * _ => replace c with u53 in H end.
  2:{ change (/ 2) with (bpow radix2 (-1)). rewrite <- bpow_plus. reflexivity. }
  rewrite (Rabs_pos_eq x) in H by lra. apply abs_le_inv in H. unfold rnd64. lra.
Qed.

(* any non-negative value: the absolute term covers the subnormal range *)
Lemma rnd64_err_le : forall x, 0 <= x -> rnd64 x <= x * (1 + u53) + bpow radix2 (-1075).
Proof.
  intros x Hx. pose proof (rnd64_err x) as H. rewrite (Rabs_pos_eq x) in H by exact Hx.
  apply abs_le_inv in H. lra.
Qed.

(* 1.0e-8f *)
Lemma f_1em8_correct : B2R f_1em8 = 11258999 * bpow radix2 (-50) /\ is_finite f_1em8 = true.
Proof.
  pose proof (binary_normalize_correct 24 128 p24 p24_128 mode_NE 11258999 (-50) false) as C.
  cbv zeta in C.
  change (round radix2 (SpecFloat.fexp 24 128) (round_mode mode_NE) (F2R (Float radix2 11258999 (-50))))
    with (rnd32 (F2R (Float radix2 11258999 (-50)))) in C.
  assert (E : F2R (Float radix2 11258999 (-50)) = 11258999 * bpow radix2 (-50)) by reflexivity.
  rewrite E in C.
  assert (Fm : fmt32 (11258999 * bpow radix2 (-50))) by (apply (fmt32_F2R 11258999 (-50)); lia).
  rewrite (rnd32_id _ Fm) in C. rewrite Rlt_bool_true in C.
  - destruct C as [C1 [C2 _]]. split; [exact C1|exact C2].
  - pose proof (bpow_gt_0 radix2 (-50)) as P. rewrite Rabs_pos_eq by nra.
    apply Rle_lt_trans with (bpow radix2 24 * bpow radix2 (-50)).
    + apply Rmult_le_compat_r; [lra|]. change (bpow radix2 24) with 16777216. lra.
    + rewrite <- bpow_plus. apply bpow_lt. lia.
Qed.

Lemma f_1em8_ge : bpow radix2 (-27) <= B2R f_1em8.
Proof.
  destruct f_1em8_correct as [E _]. rewrite E.
  replace (bpow radix2 (-27)) with (bpow radix2 23 * bpow radix2 (-50)) by (rewrite <- bpow_plus; reflexivity).
  apply Rmult_le_compat_r; [apply bpow_ge_0|]. change (bpow radix2 23) with 8388608. lra.
Qed.

(* std::max on finite operands *)
Lemma fmax_std_spec : forall d m : f32, is_finite d = true -> is_finite m = true ->
  is_finite (fmax_std d m) = true /\ B2R d <= B2R (fmax_std d m) /\ B2R m <= B2R (fmax_std d m).
Proof.
  intros d m Fd Fm. unfold fmax_std. destruct (Bltb d m) eqn:C.
  - apply (Bltb_true_lt d m Fd Fm) in C. repeat split; [exact Fm|lra|lra].
  - rewrite (Bltb_correct 24 128 d m Fd Fm) in C.
    destruct (Rlt_bool_spec (B2R d) (B2R m)); [discriminate|]. repeat split; [exact Fd|lra|lra].
Qed.

Lemma max_row_spec : forall row m, Forall fcost_ok row -> is_finite m = true ->
  is_finite (max_row m row) = true /\ B2R m <= B2R (max_row m row) /\
  Forall (fun d => B2R d <= B2R (max_row m row)) row.
Proof.
  induction row as [|d t IH]; intros m Hr Fm.
  - repeat split; [exact Fm|apply Rle_refl|constructor].
  - inversion Hr as [|? ? [Fd _] Ht]; subst.
    destruct (fmax_std_spec d m Fd Fm) as [F1 [L1 L2]].
    destruct (IH (fmax_std d m) Ht F1) as [F2 [L3 A]].
    change (max_row m (d :: t)) with (max_row (fmax_std d m) t).
    repeat split; [exact F2|lra|]. constructor; [lra|exact A].
Qed.

Lemma max_rows_spec : forall rows m, Forall (Forall fcost_ok) rows -> is_finite m = true ->
  is_finite (fold_left max_row rows m) = true /\ B2R m <= B2R (fold_left max_row rows m) /\
  Forall (Forall (fun d => B2R d <= B2R (fold_left max_row rows m))) rows.
Proof.
  induction rows as [|r t IH]; intros m Hr Fm.
  - repeat split; [exact Fm|apply Rle_refl|constructor].
  - inversion Hr as [|? ? Hr1 Ht]; subst.
    destruct (max_row_spec r m Hr1 Fm) as [F1 [L1 A1]].
    destruct (IH (max_row m r) Ht F1) as [F2 [L2 A2]].
    cbn [fold_left]. repeat split; [exact F2|lra|]. constructor; [|exact A2].
    eapply Forall_impl; [|exact A1]. cbv beta. intros a Ha. lra.
Qed.

Lemma max_val_spec : forall costs, fcosts_ok costs ->
  is_finite (max_val costs) = true /\ bpow radix2 (-27) <= B2R (max_val costs) /\
  Forall (Forall (fun d => B2R d <= B2R (max_val costs))) costs.
Proof.
  intros costs H. destruct f_1em8_correct as [_ F0].
  destruct (max_rows_spec costs f_1em8 H F0) as [F [L A]]. pose proof f_1em8_ge.
  repeat split; [exact F|unfold max_val; lra|exact A].
Qed.

Lemma bpow_m1022_le : forall e, (-1022 <= e)%Z -> bpow radix2 (-1022) <= bpow radix2 e.
Proof. intros e He. apply bpow_le. exact He. Qed.

(* one division of the chain 162-164: a finite dividend x in [2^ex, 2^800], a divisor y in [2^-ey, 2^ey] *)
Lemma ddiv_step : forall (x y : f64) (ex ey : Z), is_finite x = true ->
  (0 <= ey <= 200)%Z -> (-1022 <= ex - ey)%Z ->
  bpow radix2 ex <= B2R x <= bpow radix2 800 -> bpow radix2 (- ey) <= B2R y <= bpow radix2 ey ->
  is_finite (ddiv x y) = true /\ bpow radix2 (ex - ey) <= B2R (ddiv x y) /\
  B2R (ddiv x y) * B2R y <= B2R x * (1 + u53) /\ B2R (ddiv x y) <= B2R x * bpow radix2 (ey + 1).
Proof.
  intros x y ex ey Fx Hey Hn [Lx Ux] [Ly Uy].
  pose proof (bpow_gt_0 radix2 ex) as Px. pose proof (bpow_gt_0 radix2 (- ey)) as Py.
  pose proof (bpow_gt_0 radix2 ey) as Py'.
  assert (Pu : 0 < u53 < 1).
  { split; [apply bpow_gt_0|]. change 1 with (bpow radix2 0). apply bpow_lt. lia. }
  assert (Iy : bpow radix2 (- ey) <= / B2R y <= bpow radix2 ey).
  { split.
    - rewrite bpow_opp. apply Rinv_le_contravar; lra.
    - replace (bpow radix2 ey) with (/ bpow radix2 (- ey)).
      2:{ rewrite <- bpow_opp. f_equal. lia. }
      apply Rinv_le_contravar; lra. }
  set (q := B2R x / B2R y).
  assert (Lq : bpow radix2 (ex - ey) <= q).
  { unfold q, Rdiv, Zminus. rewrite bpow_plus. apply Rmult_le_compat; lra. }
  assert (Uq : q <= B2R x * bpow radix2 ey).
  { unfold q, Rdiv. apply Rmult_le_compat_l; lra. }
  assert (Uq' : q <= bpow radix2 1000).
  { eapply Rle_trans; [exact Uq|]. replace 1000%Z with (800 + 200)%Z by reflexivity. rewrite bpow_plus.
    apply Rmult_le_compat; try lra. apply bpow_le. lia. }
  assert (Pq : 0 < q) by (pose proof (bpow_gt_0 radix2 (ex - ey)); lra).
  destruct (ddiv_correct x y Fx) as [C1 C2].
  { lra. }
  { fold q. rewrite Rabs_pos_eq by lra. eapply Rle_trans; [exact Uq'|]. apply bpow_le. lia. }
  fold q in C1.
  assert (Rq : rnd64 q <= q * (1 + u53)).
  { apply rnd64_rel_le. eapply Rle_trans; [apply (bpow_m1022_le (ex - ey) Hn)|exact Lq]. }
  split; [exact C2|]. rewrite C1. split; [|split].
  - apply rnd64_ge; [apply fmt64_bpow; lia|exact Lq].
  - assert (E : q * B2R y = B2R x) by (unfold q; field; lra).
    apply Rle_trans with (q * (1 + u53) * B2R y); [apply Rmult_le_compat_r; lra|].
    replace (q * (1 + u53) * B2R y) with (q * B2R y * (1 + u53)) by ring. rewrite E. lra.
  - eapply Rle_trans; [exact Rq|]. rewrite bpow_plus. change (bpow radix2 1) with 2.
    apply Rle_trans with (B2R x * bpow radix2 ey * 2); [|lra].
    apply Rmult_le_compat; lra.
Qed.

Notation AMAX := 2147483647.

(* 161-164: the conversion factor F of a matrix in the domain with n sinks, 1 <= n < 2^30, maxVal = M:
   finite, positive, and 4 n M F <= INT_MAX (1 + 2^-53)^3 *)
Lemma conv_factor_spec : forall costs, fcosts_ok costs ->
  (1 <= Z.of_nat (length costs) < 2 ^ 30)%Z ->
  is_finite (conv_factor costs) = true /\ 0 < B2R (conv_factor costs) <= bpow radix2 194 /\
  4 * IZR (Z.of_nat (length costs)) * B2R (max_val costs) * B2R (conv_factor costs)
    <= AMAX * ((1 + u53) * (1 + u53) * (1 + u53)).
Proof.
  intros costs Hc Hn. set (n := Z.of_nat (length costs)) in *.
  destruct (max_val_spec costs Hc) as [FM [LM _]].
  destruct (d_of_f_correct (max_val costs) FM) as [EM FM'].
  pose proof (abs_B2R_lt_emax 24 128 (max_val costs)) as UM.
  set (M := B2R (max_val costs)) in *.
  pose proof (bpow_gt_0 radix2 (-27)) as P27.
  rewrite Rabs_pos_eq in UM by lra.
  assert (Pu : 0 < u53 < 1).
  { split; [apply bpow_gt_0|]. change 1 with (bpow radix2 0). apply bpow_lt. lia. }
  destruct (d_of_Z_exact 2147483647 ltac:(simpl; lia)) as [EA FA].
  destruct (d_of_Z_exact 4 ltac:(simpl; lia)) as [E4 F4].
  destruct (d_of_Z_exact n) as [En Fn].
  { apply Z.abs_lt. split; [lia|]. eapply Z.lt_le_trans; [apply Hn|]. apply Z.pow_le_mono_r; lia. }
  (* maxLong / maxVal *)
  destruct (ddiv_step d_int_max (d_of_f (max_val costs)) 30 128 FA ltac:(lia) ltac:(lia)) as [F1 [L1 [R1 U1]]].
  { unfold d_int_max. rewrite EA. split.
    - change (bpow radix2 30) with 1073741824. lra.
    - apply Rle_trans with (bpow radix2 31); [change (bpow radix2 31) with 2147483648; lra|apply bpow_le; lia]. }
  { rewrite EM. split; [|lra]. eapply Rle_trans; [|exact LM]. apply bpow_le. lia. }
  set (f1 := ddiv d_int_max (d_of_f (max_val costs))) in *.
  unfold d_int_max in R1, U1. rewrite EA in R1, U1. rewrite EM in R1.
  assert (U1' : B2R f1 <= bpow radix2 800).
  { eapply Rle_trans; [exact U1|]. apply Rle_trans with (bpow radix2 31 * bpow radix2 (128 + 1)).
    - apply Rmult_le_compat_r; [apply bpow_ge_0|]. change (bpow radix2 31) with 2147483648. lra.
    - rewrite <- bpow_plus. apply bpow_le. lia. }
  (* / 4.0 *)
  destruct (ddiv_step f1 (d_of_Z 4) (30 - 128) 2 F1 ltac:(lia) ltac:(lia)) as [F2 [L2 [R2 U2]]].
  { split; [exact L1|exact U1']. }
  { rewrite E4. change (bpow radix2 (- (2))) with (/ 4). change (bpow radix2 2) with 4. lra. }
  set (f2 := ddiv f1 (d_of_Z 4)) in *. rewrite E4 in R2.
  assert (U2' : B2R f2 <= bpow radix2 800).
  { eapply Rle_trans; [exact U2|]. apply Rle_trans with (bpow radix2 160 * bpow radix2 (2 + 1)).
    - apply Rmult_le_compat_r; [apply bpow_ge_0|]. eapply Rle_trans; [exact U1|].
      apply Rle_trans with (bpow radix2 31 * bpow radix2 (128 + 1)).
      + apply Rmult_le_compat_r; [apply bpow_ge_0|]. change (bpow radix2 31) with 2147483648. lra.
      + rewrite <- bpow_plus. apply bpow_le. lia.
    - rewrite <- bpow_plus. apply bpow_le. lia. }
  (* / costs.size() *)
  assert (Nn : 1 <= IZR n <= bpow radix2 30).
  { split; [apply (IZR_le 1); lia|]. rewrite <- (IZR_Zpower radix2) by lia. apply IZR_le. simpl. lia. }
  destruct (ddiv_step f2 (d_of_Z n) (30 - 128 - 2) 30 F2 ltac:(lia) ltac:(lia)) as [F3 [L3 [R3 U3]]].
  { split; [exact L2|exact U2']. }
  { rewrite En. split; [|lra]. apply Rle_trans with 1; [|lra]. change 1 with (bpow radix2 0). apply bpow_le. lia. }
  change (conv_factor costs) with (ddiv f2 (d_of_Z n)). rewrite En in R3.
  set (F := B2R (ddiv f2 (d_of_Z n))) in *.
  pose proof (bpow_gt_0 radix2 (30 - 128 - 2 - 30)) as PF.
  split; [exact F3|]. split; [split; [lra|]|].
  - eapply Rle_trans; [exact U3|]. apply Rle_trans with (bpow radix2 163 * bpow radix2 (30 + 1)).
    + apply Rmult_le_compat_r; [apply bpow_ge_0|]. eapply Rle_trans; [exact U2|].
      apply Rle_trans with (bpow radix2 160 * bpow radix2 (2 + 1)); [|rewrite <- bpow_plus; apply bpow_le; lia].
      apply Rmult_le_compat_r; [apply bpow_ge_0|]. eapply Rle_trans; [exact U1|].
      apply Rle_trans with (bpow radix2 31 * bpow radix2 (128 + 1)); [|rewrite <- bpow_plus; apply bpow_le; lia].
      apply Rmult_le_compat_r; [apply bpow_ge_0|]. change (bpow radix2 31) with 2147483648. lra.
    + rewrite <- bpow_plus. apply bpow_le. lia.
  - (* 4 n M F <= 4 M f2 (1+u) <= M f1 (1+u)^2 <= A (1+u)^3 *)
    set (e := 1 + u53) in *. assert (Pe : 0 < e) by (unfold e; lra).
    assert (PM : 0 < M) by lra.
    assert (S1 : 4 * IZR n * M * F <= 4 * M * (B2R f2 * e)).
    { replace (4 * IZR n * M * F) with (4 * M * (F * IZR n)) by ring. apply Rmult_le_compat_l; lra. }
    assert (S2 : 4 * M * (B2R f2 * e) <= M * e * (B2R f1 * e)).
    { replace (4 * M * (B2R f2 * e)) with (M * e * (B2R f2 * 4)) by ring. apply Rmult_le_compat_l; [nra|exact R2]. }
    assert (S3 : M * e * (B2R f1 * e) <= e * e * (AMAX * e)).
    { replace (M * e * (B2R f1 * e)) with (e * e * (B2R f1 * M)) by ring. apply Rmult_le_compat_l; [nra|exact R1]. }
    replace (AMAX * (e * e * e)) with (e * e * (AMAX * e)) by ring. lra.
Qed.

Lemma e53_pow4 : (1 + u53) * (1 + u53) * (1 + u53) * (1 + u53) <= 1 + 5 * u53.
Proof.
  assert (Pu : 0 < u53 <= / 1000).
  { split; [apply bpow_gt_0|]. apply Rle_trans with (bpow radix2 (-10)); [apply bpow_le; lia|].
    change (bpow radix2 (-10)) with (/ 1024). lra. }
  set (u := u53) in *.
  assert (S : (1 + u) * (1 + u) <= 1 + 2001 / 1000 * u) by nra.
  set (s := (1 + u) * (1 + u)) in *. set (w := 2001 / 1000 * u) in *.
  assert (Pw : 0 < w <= / 400) by (unfold w; lra).
  assert (Ps : 0 < s) by (unfold s; nra).
  replace (s * (1 + u) * (1 + u)) with (s * s) by (unfold s; ring).
  apply Rle_trans with ((1 + w) * (1 + w)); [apply Rmult_le_compat; lra|].
  assert (W2 : w * w <= w * / 400) by (apply Rmult_le_compat_l; lra).
  assert (W : w = 2001 / 1000 * u) by reflexivity.
  replace ((1 + w) * (1 + w)) with (1 + 2 * w + w * w) by ring. lra.
Qed.

(* 171 for one entry c with 0 <= c <= M, under the factor bound of conv_factor_spec *)
Lemma scale_cost_spec : forall (F : f64) (c : f32) (n : Z) (M : R),
  is_finite F = true -> 0 < B2R F <= bpow radix2 194 -> fcost_ok c -> B2R c <= M ->
  (1 <= n < 2 ^ 30)%Z ->
  4 * IZR n * M * B2R F <= AMAX * ((1 + u53) * (1 + u53) * (1 + u53)) ->
  exists k, scale_cost F c = Some k /\ (0 <= k)%Z /\ (4 * n * k <= 2147483647 + 2 * n)%Z.
Proof.
  intros F c n M FF [PF UF] [Fc Pc] HcM Hn HF.
  destruct (d_of_f_correct c Fc) as [Ec Fc'].
  pose proof (abs_B2R_lt_emax 24 128 c) as Uc. rewrite Rabs_pos_eq in Uc by exact Pc.
  assert (Pu : 0 < u53 < 1).
  { split; [apply bpow_gt_0|]. change 1 with (bpow radix2 0). apply bpow_lt. lia. }
  assert (Nn : 1 <= IZR n <= bpow radix2 30).
  { split; [apply (IZR_le 1); lia|]. rewrite <- (IZR_Zpower radix2) by lia. apply IZR_le. simpl. lia. }
  destruct (dmul_correct (d_of_f c) F Fc' FF) as [Ex Fx].
  { rewrite Ec. rewrite Rabs_pos_eq by nra. apply Rle_trans with (bpow radix2 128 * bpow radix2 194).
    - apply Rmult_le_compat; lra.
    - rewrite <- bpow_plus. apply bpow_le. lia. }
  rewrite Ec in Ex. set (x := B2R c * B2R F) in *. assert (Px : 0 <= x) by (unfold x; nra).
  unfold scale_cost. rewrite (dround_Z_correct _ Fx). rewrite Ex.
  set (k := ZnearestA (rnd64 x)).
  assert (Pk : (0 <= k)%Z) by (apply ZnearestA_nonneg; apply rnd64_nonneg; exact Px).
  pose proof (ZnearestA_le_half (rnd64 x)) as Hk. fold k in Hk.
  pose proof (rnd64_err_le x Px) as Hx.
  set (e := 1 + u53) in *. set (t := bpow radix2 (-1075)) in *.
  assert (Pt : 0 < t) by apply bpow_gt_0.
  assert (T : 4 * IZR n * t <= / 4).
  { apply Rle_trans with (bpow radix2 2 * bpow radix2 30 * bpow radix2 (-1075)).
    - unfold t. apply Rmult_le_compat_r; [apply bpow_ge_0|]. change (bpow radix2 2) with 4. lra.
    - rewrite <- 2!bpow_plus. apply Rle_trans with (bpow radix2 (-2)); [apply bpow_le; lia|].
      change (bpow radix2 (-2)) with (/ 4). lra. }
  assert (B1 : 4 * IZR n * x <= AMAX * (e * e * e)).
  { eapply Rle_trans; [|exact HF]. unfold x.
    replace (4 * IZR n * (B2R c * B2R F)) with (4 * IZR n * B2R F * B2R c) by ring.
    replace (4 * IZR n * M * B2R F) with (4 * IZR n * B2R F * M) by ring.
    apply Rmult_le_compat_l; [nra|exact HcM]. }
  assert (B2 : 4 * IZR n * rnd64 x <= AMAX * (e * e * e * e) + / 4).
  { apply Rle_trans with (4 * IZR n * (x * e + t)); [apply Rmult_le_compat_l; lra|].
    replace (4 * IZR n * (x * e + t)) with (4 * IZR n * x * e + 4 * IZR n * t) by ring.
    replace (AMAX * (e * e * e * e)) with (AMAX * (e * e * e) * e) by ring.
    apply Rplus_le_compat; [apply Rmult_le_compat_r; [unfold e; lra|exact B1]|exact T]. }
  assert (B3 : AMAX * (e * e * e * e) <= AMAX + / 4).
  { pose proof e53_pow4 as E4. fold e in E4.
    assert (U5 : AMAX * (5 * u53) <= / 4).
    { change u53 with (/ 9007199254740992). lra. }
    nra. }
  assert (B4 : IZR (4 * n * k - 2 * n) < IZR (2147483647 + 1)).
  { rewrite minus_IZR, !mult_IZR, plus_IZR. nra. }
  apply lt_IZR in B4.
  assert (Kb : (4 * n * k <= 2147483647 + 2 * n)%Z) by lia.
  exists k. split; [|split; [exact Pk|exact Kb]].
  unfold int_of_Z.
  assert (Kr : (k <= 2147483647)%Z) by nia.
  destruct (Z.leb_spec (-2147483648) k); [|lia]. destruct (Z.leb_spec k 2147483647); [reflexivity|lia].
Qed.

(* ------------------------------------------------------------------ the whole matrix *)
Local Open Scope Z_scope.

Lemma omap_spec : forall {A B : Type} (f : A -> option B) (P : A -> Prop) (Q : B -> Prop),
  (forall a, P a -> exists b, f a = Some b /\ Q b) ->
  forall l, Forall P l -> exists r, omap f l = Some r /\ Forall Q r /\ length r = length l.
Proof.
  intros A B f P Q H l. induction l as [|a t IH]; intros Hl.
  - exists []. repeat split; constructor.
  - inversion Hl as [|? ? Ha Ht]; subst. destruct (H a Ha) as [b [Eb Qb]].
    destruct (IH Ht) as [r [Er [Qr Lr]]]. exists (b :: r). cbn [omap]. rewrite Eb, Er.
    repeat split; [constructor; assumption|cbn [length]; rewrite Lr; reflexivity].
Qed.

Lemma get2_Forall : forall (Q : Z -> Prop) (c : list (list Z)), Q 0 -> Forall (Forall Q) c ->
  forall j i, Q (get2 c j i).
Proof.
  intros Q c Q0 Hc j i. unfold get2.
  assert (Hr : Forall Q (nth j c [])).
  { destruct (nth_in_or_default j c []) as [Hin|E]; [|rewrite E; constructor].
    rewrite Forall_forall in Hc. apply Hc. exact Hin. }
  destruct (nth_in_or_default i (nth j c []) 0) as [Hin|E]; [|rewrite E; exact Q0].
  rewrite Forall_forall in Hr. apply Hr. exact Hin.
Qed.

Lemma Forall_Forall_and : forall {A : Type} (P Q : A -> Prop) (l : list (list A)),
  Forall (Forall P) l -> Forall (Forall Q) l -> Forall (Forall (fun x => P x /\ Q x)) l.
Proof.
  intros A P Q l. induction l as [|r t IH]; intros HP HQ; [constructor|].
  inversion HP; inversion HQ; subst. constructor; [apply Forall_and; assumption|apply IH; assumption].
Qed.

(* the entries of the scaled matrix: what SspMachine.cost_dom asks of every cost, n = the number of sinks *)
Definition scaled_ok (n k : Z) : Prop := 0 <= k /\ 4 * n * k <= 2147483647 + 2 * n.

(* costsFromIntegers on its domain: defined (every conversion to int is in range), shape preserved, entries scaled_ok *)
Theorem costs_from_floats_spec : forall (fc : list (list f32)) (nr : nat),
  fcosts_ok fc -> rect_mat nr fc -> 1 <= Z.of_nat (length fc) < 2 ^ 30 ->
  exists c, costs_from_floats fc = Some c /\ length c = length fc /\ rect_mat nr c /\
            Forall (Forall (scaled_ok (Z.of_nat (length fc)))) c.
Proof.
  intros fc nr Hok Hrect Hn.
  destruct (conv_factor_spec fc Hok Hn) as [FF [BF HF]].
  destruct (max_val_spec fc Hok) as [_ [_ HM]].
  set (n := Z.of_nat (length fc)) in *. set (M := B2R (max_val fc)) in *.
  set (P := fun d : f32 => fcost_ok d /\ (B2R d <= M)%R).
  assert (Hrow : forall row, Forall P row /\ length row = nr ->
            exists r, omap (scale_cost (conv_factor fc)) row = Some r /\ (Forall (scaled_ok n) r /\ length r = nr)).
  { intros row [Hp Hl].
    destruct (omap_spec (scale_cost (conv_factor fc)) P (scaled_ok n)) with (l := row) as [r [Er [Qr Lr]]].
    - intros d [Hd HdM]. exact (scale_cost_spec (conv_factor fc) d n M FF BF Hd HdM Hn HF).
    - exact Hp.
    - exists r. repeat split; [exact Er|exact Qr|rewrite Lr; exact Hl]. }
  assert (Hall : Forall (fun row => Forall P row /\ length row = nr) fc).
  { apply Forall_and; [|exact Hrect]. exact (Forall_Forall_and _ _ fc Hok HM). }
  destruct (omap_spec _ _ _ Hrow fc Hall) as [c [Ec [Qc Lc]]].
  exists c. split; [exact Ec|]. split; [exact Lc|]. split.
  - unfold rect_mat. eapply Forall_impl; [|exact Qc]. cbv beta. intros r [_ H]. exact H.
  - eapply Forall_impl; [|exact Qc]. cbv beta. intros r [H _]. exact H.
Qed.

(* the float constructor (cpp:139-147) on its domain: the problem exists, check() accepts it, and it is in cost_dom *)
Theorem float_problem_cost_dom : forall (cps dms : list Z) (fc : list (list f32)),
  fcosts_ok fc -> length fc = length cps -> rect_mat (length dms) fc ->
  1 <= Z.of_nat (length cps) < 2 ^ 30 ->
  Forall (fun c => 0 < c) cps -> Forall (fun d => 0 < d) dms ->
  exists pb, float_problem cps dms fc = Some pb /\ caps pb = cps /\ dems pb = dms /\
             check_pb pb = true /\ SspMachine.cost_dom pb.
Proof.
  intros cps dms fc Hok Hlen Hrect Hn Hc Hd.
  destruct (costs_from_floats_spec fc (length dms) Hok Hrect) as [c [Ec [Lc [Rc Qc]]]].
  { rewrite Hlen. exact Hn. }
  exists (mkPb cps dms c). unfold float_problem. rewrite Ec.
  split; [reflexivity|]. split; [reflexivity|]. split; [reflexivity|]. split.
  - unfold check_pb, nsnk, nsrc. cbn [caps dems costs]. rewrite !andb_true_iff. repeat split.
    + apply forallb_forall. rewrite Forall_forall in Hd. intros x Hx. apply Z.ltb_lt. apply Hd. exact Hx.
    + apply forallb_forall. rewrite Forall_forall in Hc. intros x Hx. apply Z.ltb_lt. apply Hc. exact Hx.
    + apply Nat.eqb_eq. rewrite Lc. exact Hlen.
    + apply forallb_forall. unfold rect_mat in Rc. rewrite Forall_forall in Rc. intros r Hr. apply Nat.eqb_eq. apply Rc. exact Hr.
  - unfold SspMachine.cost_dom, nsnk, cost. cbn [caps costs]. split; [lia|]. split; [exact (proj2 Hn)|].
    rewrite Hlen in Qc. apply (get2_Forall (scaled_ok (Z.of_nat (length cps))) c); [|exact Qc].
    unfold scaled_ok. lia.
Qed.

(* ------------------------------------------------------------------ composition with the whole-run theorems
   the sequence of DensityLegalizer::reoptimize (density_legalizer.cpp:295-298): float constructor, increaseCapacity(),
   solve() *)
Theorem float_transport_problem_no_overflow : forall (cps dms : list Z) (fc : list (list f32)),
  fcosts_ok fc -> length fc = length cps -> rect_mat (length dms) fc ->
  1 <= Z.of_nat (length cps) < 2 ^ 30 ->
  Forall (fun c => 0 < c) cps -> Forall (fun d => 0 < d) dms ->
  zsuml dms <= SUMB -> zsuml cps <= SUMB ->
  exists pb, float_problem cps dms fc = Some pb /\ caps pb = cps /\ dems pb = dms /\
             check_pb pb = true /\ SspMachine.cost_dom pb /\
             Forall fits (increase_capacity_vals pb) /\
             let pb' := increase_capacity pb in
             Forall fits (ssp_run_vals tree_fuel pb') /\
             exists x, ssp pb' = Ok x /\ pb_optimal pb' (plan_f x).
Proof.
  intros cps dms fc Hok Hlen Hrect Hn Hc Hd Sd Sc.
  destruct (float_problem_cost_dom cps dms fc Hok Hlen Hrect Hn Hc Hd) as [pb [E [Ec [Ed [Hchk Hdom]]]]].
  exists pb. split; [exact E|]. split; [exact Ec|]. split; [exact Ed|]. split; [exact Hchk|]. split; [exact Hdom|].
  assert (Hns : (0 < nsnk pb)%nat) by (unfold nsnk; rewrite Ec; lia).
  assert (Td : total_demand pb <= SUMB) by (unfold total_demand; rewrite Ed; exact Sd).
  assert (Tc : total_capacity pb <= SUMB) by (unfold total_capacity; rewrite Ec; exact Sc).
  split.
  - apply increase_capacity_vals_fit; try assumption.
    + unfold nsnk. rewrite Ec. lia.
    + rewrite Ed. rewrite Forall_forall in Hd. intros x Hx. specialize (Hd x Hx). lia.
    + rewrite Ec. rewrite Forall_forall in Hc. intros x Hx. specialize (Hc x Hx). lia.
  - cbv zeta. destruct (increase_capacity_post pb Hns) as [Pd [Pc [Pn [Pbal [Psame Pmore]]]]].
    set (pb' := increase_capacity pb) in *.
    assert (Hchk' : check_pb pb' = true) by (apply increase_capacity_check; exact Hchk).
    assert (Hdom' : SspMachine.cost_dom pb').
    { destruct Hdom as [D1 [D2 D3]]. unfold SspMachine.cost_dom, cost. rewrite Pn, Pc. repeat split; try assumption; apply D3. }
    assert (Tc' : total_capacity pb' <= SUMB).
    { destruct (Z.le_gt_cases (total_demand pb) (total_capacity pb)) as [Hle|Hgt].
      - unfold total_capacity. rewrite (Psame Hle). exact Tc.
      - destruct (Pmore ltac:(lia)) as [Et _]. rewrite Et. exact Td. }
    split.
    + exact (proj1 (ssp_run_no_overflow pb' Hchk' Hdom' Pbal Tc')).
    + apply ssp_returns; [exact Hchk'| |exact Pbal]. apply half_dom_cost. apply cost_dom_half. exact Hdom'.
Qed.

(* ------------------------------------------------------------------ what is outside the domain (evaluated) *)

(* a sufficient executable test of fcost_ok: finite with the sign bit clear *)
Definition fcost_okb (d : f32) : bool := is_finite d && negb (Bsign d).
Lemma fcost_okb_sound : forall d, fcost_okb d = true -> fcost_ok d.
Proof.
  intros d H. unfold fcost_okb in H. apply andb_true_iff in H. destruct H as [F S]. split; [exact F|].
  destruct d as [s|s| |s m e B]; try discriminate F; cbn [B2R]; try apply Rle_refl.
  cbn [Bsign] in S. destruct s; [discriminate S|]. apply F2R_ge_0. cbn [cond_Zopp Fnum]. lia.
Qed.
Lemma fcosts_okb_sound : forall fc, forallb (forallb fcost_okb) fc = true -> fcosts_ok fc.
Proof.
  intros fc H. unfold fcosts_ok. apply Forall_forall. intros r Hr. apply Forall_forall. intros d Hd.
  rewrite forallb_forall in H. specialize (H r Hr). rewrite forallb_forall in H. apply fcost_okb_sound. apply H. exact Hd.
Qed.

(* a NaN entry: std::max returns it, the NEXT entry replaces it (the running maximum is 0.5 at the end, not NaN);
   NaN * factor = NaN, std::round(NaN) = NaN, and its conversion to int is undefined *)
Lemma nan_cost_undefined :
  B2SF (max_val [[f_nan; fhalf]]) = B2SF fhalf /\ costs_from_floats [[f_nan; fhalf]] = None /\
  costs_from_floats [[fhalf; f_nan]] = None.
Proof. vm_compute. repeat split. Qed.

(* +inf: maxVal = inf, the factor is 0, inf * 0 = NaN *)
Lemma inf_cost_undefined :
  B2SF (conv_factor [[f_inf; fhalf]]) = B2SF (B754_zero false : f64) /\ costs_from_floats [[f_inf; fhalf]] = None.
Proof. vm_compute. repeat split. Qed.

(* a negative entry: (a) next to a larger positive one it scales to a negative int (outside cost_dom and C13's domain);
   (b) alone, maxVal stays 1e-8 and -1 * 5.4e16 is outside the range of int: the conversion is undefined *)
Lemma negative_cost_outside :
  costs_from_floats [[f_m1; fhalf]] = Some [[-1073741824; 536870912]] /\ costs_from_floats [[f_m1]] = None.
Proof. vm_compute. repeat split. Qed.

(* 0 sinks: the factor is INT_MAX / 1e-8 / 4 / 0 = +inf (IEEE division, no trap), no entry is converted *)
Lemma zero_sinks_factor_inf :
  B2SF (conv_factor []) = B2SF (B754_infinity false : f64) /\ costs_from_floats [] = Some [].
Proof. vm_compute. repeat split. Qed.

(* non-vacuity: 2 sinks x 3 sources with a zero, equal entries, a denormal (2^-149) and 1e30-sized entries *)
Definition ex_fcosts : list (list f32) :=
  [[fzero; f_of_me 12621775 76; f_of_me 1 (-149)]; [f_of_me 12621775 76; f_of_me 12621775 75; fone]].
Lemma ex_fcosts_ok : fcosts_ok ex_fcosts.
Proof. apply fcosts_okb_sound. vm_compute. reflexivity. Qed.
Lemma ex_fcosts_value :
  costs_from_floats ex_fcosts = Some [[0; 268435456; 0]; [268435456; 134217728; 0]].
Proof. vm_compute. reflexivity. Qed.

(* ------------------------------------------------------------------ part 3: the producer (DensityLegalizer::reoptimize) *)
Local Open Scope R_scope.

(* finite, in [0, 2^a] *)
Definition fin_nn (x : f32) (a : Z) : Prop := is_finite x = true /\ 0 <= B2R x <= bpow radix2 a.

Lemma fin_nn_weaken : forall x a b, (a <= b)%Z -> fin_nn x a -> fin_nn x b.
Proof.
  intros x a b Hab [F [L U]]. split; [exact F|]. split; [exact L|].
  eapply Rle_trans; [exact U|]. apply bpow_le. exact Hab.
Qed.

Lemma rnd32_range : forall x a, (-149 <= a)%Z -> 0 <= x <= bpow radix2 a -> 0 <= rnd32 x <= bpow radix2 a.
Proof.
  intros x a Ha [L U]. split; [apply rnd32_nonneg; exact L|].
  rewrite <- (rnd32_id (bpow radix2 a)) by (apply fmt32_bpow; exact Ha). apply rnd32_le. exact U.
Qed.

Lemma fmul_nn : forall x y a b, (-149 <= a + b <= 127)%Z -> fin_nn x a -> fin_nn y b -> fin_nn (fmul x y) (a + b).
Proof.
  intros x y a b Hab [Fx [Lx Ux]] [Fy [Ly Uy]].
  assert (P : 0 <= B2R x * B2R y <= bpow radix2 (a + b)).
  { split; [nra|]. rewrite bpow_plus. apply Rmult_le_compat; lra. }
  destruct (fmul_correct x y Fx Fy) as [E F].
  { rewrite Rabs_pos_eq by lra. eapply Rle_trans; [apply P|]. apply bpow_le. lia. }
  split; [exact F|]. rewrite E. apply rnd32_range; [lia|exact P].
Qed.

Lemma fadd_nn : forall x y a, (-149 <= a + 1 <= 127)%Z -> fin_nn x a -> fin_nn y a -> fin_nn (fadd x y) (a + 1).
Proof.
  intros x y a Ha [Fx [Lx Ux]] [Fy [Ly Uy]].
  assert (P : 0 <= B2R x + B2R y <= bpow radix2 (a + 1)).
  { split; [lra|]. rewrite bpow_plus. change (bpow radix2 1) with 2. lra. }
  destruct (fadd_correct x y Fx Fy) as [E F].
  { rewrite Rabs_pos_eq by lra. eapply Rle_trans; [apply P|]. apply bpow_le. lia. }
  split; [exact F|]. rewrite E. apply rnd32_range; [lia|exact P].
Qed.

Lemma fabs_nn : forall x a, is_finite x = true -> Rabs (B2R x) <= bpow radix2 a -> fin_nn (fabs x) a.
Proof.
  intros x a F H. unfold fabs. split; [rewrite is_finite_Babs; exact F|]. rewrite B2R_Babs.
  split; [apply Rabs_pos|exact H].
Qed.

(* x * x for a finite x of magnitude at most 2^a *)
Lemma fsq_nn : forall x a, (-149 <= a + a <= 127)%Z -> is_finite x = true -> Rabs (B2R x) <= bpow radix2 a ->
  fin_nn (fmul x x) (a + a).
Proof.
  intros x a Ha F H.
  assert (P : 0 <= B2R x * B2R x <= bpow radix2 (a + a)).
  { split; [nra|]. rewrite bpow_plus. rewrite <- (Rabs_pos_eq (B2R x * B2R x)) by nra. rewrite Rabs_mult.
    pose proof (Rabs_pos (B2R x)). apply Rmult_le_compat; lra. }
  destruct (fmul_correct x x F F) as [E F'].
  { rewrite Rabs_pos_eq by lra. eapply Rle_trans; [apply P|]. apply bpow_le. lia. }
  split; [exact F'|]. rewrite E. apply rnd32_range; [lia|exact P].
Qed.

Lemma fmax_nn : forall x y a, fin_nn x a -> fin_nn y a -> fin_nn (fmax_std x y) a.
Proof. intros x y a Hx Hy. unfold fmax_std. destruct (Bltb x y); assumption. Qed.

(* std::sqrt of a finite non-negative value in [0, 2^a], a >= 0: finite, in [0, 2^a] (sqrt v <= max(1, v)) *)
Lemma fsqrt_nn : forall x a, (0 <= a <= 127)%Z -> fin_nn x a -> fin_nn (fsqrt x) a.
Proof.
  intros x a Ha [F [L U]].
  destruct (Bsqrt_correct 24 128 p24 p24_128 mode_NE x) as [E [Fs _]].
  change (round radix2 (SpecFloat.fexp 24 128) (round_mode mode_NE) (sqrt (B2R x))) with (rnd32 (sqrt (B2R x))) in E.
  split.
  - unfold fsqrt. rewrite Fs. destruct x as [s|s| |s m e B]; try discriminate F; try reflexivity.
    destruct s; [|reflexivity]. exfalso. cbn [B2R] in L.
    assert (N : F2R (Float radix2 (cond_Zopp true (Z.pos m)) e) < 0) by (apply F2R_lt_0; cbn; lia). lra.
  - unfold fsqrt. rewrite E. apply rnd32_range; [lia|]. split; [apply sqrt_pos|].
    assert (One : 1 <= bpow radix2 a) by (change 1 with (bpow radix2 0); apply bpow_le; lia).
    destruct (Rle_or_lt (B2R x) 1) as [H1|H1].
    + apply Rle_trans with 1; [|exact One]. rewrite <- sqrt_1. apply sqrt_le_1_alt. exact H1.
    + apply Rle_trans with (B2R x); [|exact U]. apply Rlt_le. apply sqrt_less; lra.
Qed.

(* norm.hpp computeNorm<float> on finite components of magnitude at most 2^29: finite, in [0, 2^60], every model *)
Lemma norm_f_nn : forall (x y : f32) (m : leg_model), is_finite x = true -> is_finite y = true ->
  Rabs (B2R x) <= bpow radix2 29 -> Rabs (B2R y) <= bpow radix2 29 -> fin_nn (norm_f x y m) 60.
Proof.
  intros x y m Fx Fy Hx Hy.
  pose proof (fabs_nn x 29 Fx Hx) as Ax. pose proof (fabs_nn y 29 Fy Hy) as Ay.
  pose proof (fsq_nn x 29 ltac:(lia) Fx Hx) as Sx. pose proof (fsq_nn y 29 ltac:(lia) Fy Hy) as Sy.
  pose proof (fadd_nn _ _ 29 ltac:(lia) Ax Ay) as Z1. pose proof (fadd_nn _ _ (29 + 29) ltac:(lia) Sx Sy) as Z2.
  pose proof (fmax_nn _ _ 29 Ax Ay) as Zi.
  destruct m; cbn [norm_f].
  - apply (fin_nn_weaken _ (29 + 1)); [lia|exact Z1].
  - apply (fin_nn_weaken _ (29 + 29 + 1)); [lia|]. apply fsqrt_nn; [lia|exact Z2].
  - apply (fin_nn_weaken _ 29); [lia|exact Zi].
  - exact (fmul_nn _ _ (29 + 1) (29 + 1) ltac:(lia) Z1 Z1).
  - apply (fin_nn_weaken _ (29 + 29 + 1)); [lia|exact Z2].
  - apply (fin_nn_weaken _ (29 + 29)); [lia|]. exact (fmul_nn _ _ 29 29 ltac:(lia) Zi Zi).
Qed.

(* DensityLegalizer::distance with a penalty factor q in [0, 1]: finite, in [0, 2^121] *)
Lemma distance_f_nn : forall (q x y : f32) (m : leg_model), fin_nn q 0 -> is_finite x = true -> is_finite y = true ->
  Rabs (B2R x) <= bpow radix2 29 -> Rabs (B2R y) <= bpow radix2 29 -> fin_nn (distance_f q m x y) 121.
Proof.
  intros q x y m Hq Fx Fy Hx Hy. unfold distance_f.
  pose proof (norm_f_nn x y m Fx Fy Hx Hy) as D. set (d := norm_f x y m) in *.
  pose proof (fmul_nn q d 0 60 ltac:(lia) Hq D) as QD.
  assert (O : fin_nn fone (0 + 60)).
  { destruct fone_correct as [E F]. split; [exact F|]. rewrite E. split; [lra|].
    change 1 with (bpow radix2 0). apply bpow_le. lia. }
  pose proof (fadd_nn _ _ (0 + 60) ltac:(lia) O QD) as S.
  exact (fmul_nn _ _ 60 (0 + 60 + 1) ltac:(lia) D S).
Qed.

Lemma dhalf_ok : B2R dhalf = / 2 /\ is_finite dhalf = true.
Proof.
  pose proof (binary_normalize_correct 53 1024 p53 p53_1024 mode_NE 1 (-1) false) as C. cbv zeta in C.
  assert (E : F2R (Float radix2 1 (-1)) = / 2) by (unfold F2R; cbn; lra).
  rewrite E in C.
  change (round radix2 (SpecFloat.fexp 53 1024) (round_mode mode_NE) (/ 2)) with (rnd64 (/ 2)) in C.
  assert (Fh : fmt64 (/ 2)) by (change (/ 2) with (bpow radix2 (-1)); apply fmt64_bpow; lia).
  rewrite (rnd64_id _ Fh) in C. rewrite Rlt_bool_true in C.
  - destruct C as [C1 [C2 _]]. split; [exact C1|exact C2].
  - rewrite Rabs_pos_eq by lra. apply Rlt_le_trans with 1; [lra|]. change 1 with (bpow radix2 0). apply bpow_le. lia.
Qed.

(* binX / binY: with limits of magnitude at most 2^22 the centre (lo + hi) / 2 is computed exactly *)
Lemma bin_center_f_exact : forall lo hi : Z, (Z.abs lo <= 2 ^ 22)%Z -> (Z.abs hi <= 2 ^ 22)%Z ->
  is_finite (bin_center_f lo hi) = true /\ B2R (bin_center_f lo hi) = IZR (hi + lo) / 2.
Proof.
  intros lo hi Hlo Hhi. set (s := (hi + lo)%Z). assert (Hs : (Z.abs s <= 2 ^ 23)%Z) by (unfold s; lia).
  destruct (d_of_Z_exact s) as [Es Fs]. { eapply Z.le_lt_trans; [exact Hs|]. reflexivity. }
  destruct dhalf_ok as [Eh Fh].
  assert (Bs : Rabs (IZR s) <= bpow radix2 23).
  { rewrite <- abs_IZR. rewrite <- (IZR_Zpower radix2) by lia. apply IZR_le. exact Hs. }
  assert (V : / 2 * IZR s = IZR s * bpow radix2 (-1)) by (change (bpow radix2 (-1)) with (/ 2); ring).
  assert (Bv : Rabs (/ 2 * IZR s) <= bpow radix2 22).
  { rewrite Rabs_mult, (Rabs_pos_eq (/ 2)) by lra.
    replace (bpow radix2 22) with (/ 2 * bpow radix2 23) by (change (bpow radix2 23) with (2 * bpow radix2 22); field).
    apply Rmult_le_compat_l; lra. }
  destruct (dmul_correct dhalf (d_of_Z s) Fh Fs) as [Em Fm].
  { rewrite Eh, Es. eapply Rle_trans; [exact Bv|]. apply bpow_le. lia. }
  rewrite Eh, Es in Em.
  assert (F32 : fmt32 (/ 2 * IZR s)) by (rewrite V; apply fmt32_F2R; lia).
  rewrite (rnd64_id _ (fmt32_fmt64 _ F32)) in Em.
  destruct (f_of_d_correct (dmul dhalf (d_of_Z s)) Fm) as [Ef Ff].
  { rewrite Em. eapply Rle_trans; [exact Bv|]. apply bpow_le. lia. }
  unfold bin_center_f. fold s. split; [exact Ff|]. rewrite Ef, Em, (rnd32_id _ F32). field.
Qed.

(* the domain of the producer: bin limits within the magnitude range of C07, finite targets within 2^28 *)
Definition bin_in_range (b : fbin) : Prop :=
  (Z.abs (fb_xlo b) <= 2 ^ 22 /\ Z.abs (fb_xhi b) <= 2 ^ 22 /\ Z.abs (fb_ylo b) <= 2 ^ 22 /\ Z.abs (fb_yhi b) <= 2 ^ 22)%Z.
Definition coord_ok (v : f32) : Prop := is_finite v = true /\ Rabs (B2R v) <= bpow radix2 28.
Definition target_ok (c : f32 * f32) : Prop := coord_ok (fst c) /\ coord_ok (snd c).

Lemma center_minus_target : forall (lo hi : Z) (c : f32), (Z.abs lo <= 2 ^ 22)%Z -> (Z.abs hi <= 2 ^ 22)%Z -> coord_ok c ->
  is_finite (fsub (bin_center_f lo hi) c) = true /\ Rabs (B2R (fsub (bin_center_f lo hi) c)) <= bpow radix2 29.
Proof.
  intros lo hi c Hlo Hhi [Fc Hc]. destruct (bin_center_f_exact lo hi Hlo Hhi) as [Fb Eb].
  assert (Bb : Rabs (B2R (bin_center_f lo hi)) <= bpow radix2 22).
  { rewrite Eb. unfold Rdiv. rewrite Rabs_mult, (Rabs_pos_eq (/ 2)) by lra. rewrite <- abs_IZR.
    assert (H : IZR (Z.abs (hi + lo)) <= IZR (2 ^ 23)) by (apply IZR_le; lia).
    rewrite (IZR_Zpower radix2) in H by lia. change (bpow radix2 23) with (2 * bpow radix2 22) in H. lra. }
  assert (D : Rabs (B2R (bin_center_f lo hi) - B2R c) <= bpow radix2 29).
  { unfold Rminus. eapply Rle_trans; [apply Rabs_triang|]. rewrite Rabs_Ropp.
    apply Rle_trans with (bpow radix2 28 + bpow radix2 28); [|change (bpow radix2 29) with (2 * bpow radix2 28); lra].
    apply Rplus_le_compat; [|exact Hc]. eapply Rle_trans; [exact Bb|]. apply bpow_le. lia. }
  destruct (fsub_correct _ c Fb Fc) as [E F].
  { eapply Rle_trans; [exact D|]. apply bpow_le. lia. }
  split; [exact F|]. rewrite E. apply rnd32_abs_le; [apply fmt32_bpow; lia|exact D].
Qed.

(* density_legalizer.cpp:283-290, one entry: finite and non-negative for every cost model *)
Theorem reopt_cost_ok : forall (q : f32) (m : leg_model) (b : fbin) (c : f32 * f32),
  fin_nn q 0 -> bin_in_range b -> target_ok c -> fcost_ok (reopt_cost q m b c).
Proof.
  intros q m b c Hq [Bx1 [Bx2 [By1 By2]]] [Cx Cy]. unfold reopt_cost. cbv zeta.
  destruct (center_minus_target _ _ _ Bx1 Bx2 Cx) as [Fx Hx].
  destruct (center_minus_target _ _ _ By1 By2 Cy) as [Fy Hy].
  destruct (distance_f_nn q _ _ m Hq Fx Fy Hx Hy) as [F [L _]]. split; [exact F|exact L].
Qed.

Theorem reopt_costs_ok : forall (q : f32) (m : leg_model) (bins : list fbin) (cells : list (f32 * f32)),
  fin_nn q 0 -> Forall bin_in_range bins -> Forall target_ok cells ->
  fcosts_ok (reopt_costs q m bins cells) /\ rect_mat (length cells) (reopt_costs q m bins cells) /\
  length (reopt_costs q m bins cells) = length bins.
Proof.
  intros q m bins cells Hq Hb Hc. unfold reopt_costs, fcosts_ok, rect_mat. split; [|split].
  - apply Forall_map. eapply Forall_impl; [|exact Hb]. cbv beta. intros b Hbb.
    apply Forall_map. eapply Forall_impl; [|exact Hc]. cbv beta. intros c Hcc. apply reopt_cost_ok; assumption.
  - apply Forall_map. apply Forall_forall. intros b _. apply map_length.
  - apply map_length.
Qed.

(* the penalty factor handed to DensityLegalizer (place_global.cpp:83-87): in [0, 1] for a quadraticPenalty in [0, 1]
   (what RoughLegalizationParameters::check accepts) and a placement area with 1 <= width + height <= 2^24 *)
Lemma penalty_factor_f_ok : forall (m : leg_model) (p : f64) (wh : Z), is_finite p = true -> 0 <= B2R p <= 1 ->
  (1 <= wh <= 2 ^ 24)%Z -> fin_nn (penalty_factor_f m p wh) 0.
Proof.
  intros m p wh Fp Hp Hwh.
  assert (Z0 : fin_nn fzero 0).
  { split; [reflexivity|]. cbn [B2R fzero]. split; [lra|apply bpow_ge_0]. }
  assert (Q : fin_nn (f_of_d (ddiv p (d_of_f (f_of_Z wh)))) 0).
  { destruct (f_of_Z_exact wh) as [Ew Fw]. { rewrite Z.abs_eq by lia. apply Hwh. }
    destruct (d_of_f_correct _ Fw) as [Ed Fd]. rewrite Ew in Ed.
    assert (W1 : 1 <= IZR wh) by (apply (IZR_le 1); lia).
    assert (R : 0 <= B2R p / IZR wh <= 1).
    { split; [apply Rmult_le_pos; [lra|]; apply Rlt_le, Rinv_0_lt_compat; lra|].
      apply Rle_trans with (B2R p / 1); [|lra]. unfold Rdiv. apply Rmult_le_compat_l; [lra|].
      apply Rinv_le_contravar; lra. }
    destruct (ddiv_correct p (d_of_f (f_of_Z wh)) Fp) as [Eq Fq].
    { rewrite Ed. lra. }
    { rewrite Ed. rewrite Rabs_pos_eq by lra. apply Rle_trans with 1; [lra|]. change 1 with (bpow radix2 0). apply bpow_le. lia. }
    rewrite Ed in Eq.
    assert (Rq : 0 <= B2R (ddiv p (d_of_f (f_of_Z wh))) <= 1).
    { rewrite Eq. split; [apply rnd64_nonneg; lra|apply rnd64_le_fmt; [apply fmt64_1|lra]]. }
    destruct (f_of_d_correct _ Fq) as [Ef Ff].
    { rewrite Rabs_pos_eq by lra. apply Rle_trans with 1; [lra|]. change 1 with (bpow radix2 0). apply bpow_le. lia. }
    split; [exact Ff|]. rewrite Ef. change (bpow radix2 0) with 1. apply rnd32_unit_range. exact Rq. }
  destruct m; cbn [penalty_factor_f]; assumption.
Qed.

(* a non-finite target (outside C06's domain): the L1 cost is NaN, and costsFromIntegers then converts a NaN *)
Lemma nan_target_undefined :
  B2SF (reopt_cost fzero L1 (mkFbin 0 2 0 2) (f_nan, fzero)) = SpecFloat.S754_nan /\
  costs_from_floats (reopt_costs fzero L1 [mkFbin 0 2 0 2; mkFbin 2 4 0 2] [(f_nan, fzero); (fone, fone)]) = None.
Proof. vm_compute. repeat split. Qed.

(* the whole sequence of DensityLegalizer::reoptimize for more than two bins (density_legalizer.cpp:270-298) *)
Theorem reoptimize_transport_no_overflow :
  forall (q : f32) (m : leg_model) (bins : list fbin) (cells : list (f32 * f32)) (cps dms : list Z),
  fin_nn q 0 -> Forall bin_in_range bins -> Forall target_ok cells ->
  length cps = length bins -> length dms = length cells ->
  (1 <= Z.of_nat (length bins) < 2 ^ 30)%Z ->
  Forall (fun c => (0 < c)%Z) cps -> Forall (fun d => (0 < d)%Z) dms ->
  (zsuml dms <= SUMB)%Z -> (zsuml cps <= SUMB)%Z ->
  exists pb, float_problem cps dms (reopt_costs q m bins cells) = Some pb /\ caps pb = cps /\ dems pb = dms /\
             check_pb pb = true /\ SspMachine.cost_dom pb /\
             Forall fits (increase_capacity_vals pb) /\
             let pb' := increase_capacity pb in
             Forall fits (ssp_run_vals tree_fuel pb') /\
             exists x, ssp pb' = Ok x /\ pb_optimal pb' (plan_f x).
Proof.
  intros q m bins cells cps dms Hq Hb Hc Lc Ld Hn Pc Pd Sd Sc.
  destruct (reopt_costs_ok q m bins cells Hq Hb Hc) as [Ok [Rect Len]].
  apply float_transport_problem_no_overflow; try assumption.
  - rewrite Len. symmetry. exact Lc.
  - rewrite Ld. exact Rect.
  - rewrite Lc. exact Hn.
Qed.

(* ------------------------------------------------------------------ existential forms of the witnesses, examples *)
Lemma costs_nan_refuted : exists fc : list (list f32),
  length fc = 1%nat /\ rect_mat 2 fc /\ Exists (Exists (fun d => is_nan d = true)) fc /\ costs_from_floats fc = None.
Proof.
  exists [[f_nan; fhalf]]. split; [reflexivity|]. split; [repeat constructor|]. split.
  - constructor. constructor. reflexivity.
  - exact (proj1 (proj2 nan_cost_undefined)).
Qed.

Lemma costs_inf_refuted : exists fc : list (list f32),
  length fc = 1%nat /\ rect_mat 2 fc /\ Forall (Forall (fun d => is_nan d = false /\ Bsign d = false)) fc /\
  costs_from_floats fc = None.
Proof.
  exists [[f_inf; fhalf]]. split; [reflexivity|]. split; [repeat constructor|]. split.
  - repeat constructor.
  - exact (proj2 inf_cost_undefined).
Qed.

Lemma costs_negative_refuted :
  (exists fc : list (list f32), length fc = 1%nat /\ rect_mat 1 fc /\ Forall (Forall (fun d => is_finite d = true)) fc /\
     costs_from_floats fc = None) /\
  (exists (fc : list (list f32)) (c : list (list Z)), length fc = 1%nat /\ rect_mat 2 fc /\
     Forall (Forall (fun d => is_finite d = true)) fc /\ costs_from_floats fc = Some c /\ (get2 c 0 0 < 0)%Z).
Proof.
  split.
  - exists [[f_m1]]. split; [reflexivity|]. split; [repeat constructor|]. split; [repeat constructor|].
    exact (proj2 negative_cost_outside).
  - exists [[f_m1; fhalf]], [[-1073741824; 536870912]]%Z. split; [reflexivity|]. split; [repeat constructor|].
    split; [repeat constructor|]. split; [exact (proj1 negative_cost_outside)|]. reflexivity.
Qed.

Lemma nan_target_refuted : exists (bins : list fbin) (cells : list (f32 * f32)),
  Forall bin_in_range bins /\ length bins = 2%nat /\ length cells = 2%nat /\
  costs_from_floats (reopt_costs fzero L1 bins cells) = None.
Proof.
  exists [mkFbin 0 2 0 2; mkFbin 2 4 0 2], [(f_nan, fzero); (fone, fone)].
  split; [|split; [reflexivity|split; [reflexivity|exact (proj2 nan_target_undefined)]]].
  repeat constructor; cbn; lia.
Qed.

(* executable test of coord_ok *)
Definition coord_okb (v : f32) : bool := is_finite v && Bleb (fabs v) (f_of_me 1 28).
Lemma coord_okb_sound : forall v, coord_okb v = true -> coord_ok v.
Proof.
  intros v H. unfold coord_okb in H. apply andb_true_iff in H. destruct H as [F L]. split; [exact F|].
  assert (F28 : is_finite (f_of_me 1 28) = true) by reflexivity.
  assert (E28 : B2R (f_of_me 1 28) = bpow radix2 28).
  { pose proof (binary_normalize_correct 24 128 p24 p24_128 mode_NE 1 28 false) as C. cbv zeta in C.
    assert (E : F2R (Float radix2 1 28) = bpow radix2 28) by (unfold F2R; cbn [Fnum Fexp]; ring).
    rewrite E in C.
    change (round radix2 (SpecFloat.fexp 24 128) (round_mode mode_NE) (bpow radix2 28)) with (rnd32 (bpow radix2 28)) in C.
    rewrite (rnd32_id _ (fmt32_bpow 28 ltac:(lia))) in C. rewrite Rlt_bool_true in C; [exact (proj1 C)|].
    rewrite Rabs_pos_eq by apply bpow_ge_0. apply bpow_lt. lia. }
  assert (Fa : is_finite (fabs v) = true) by (unfold fabs; rewrite is_finite_Babs; exact F).
  apply (Bleb_true_le _ _ Fa F28) in L. unfold fabs in L. rewrite B2R_Babs, E28 in L. exact L.
Qed.

(* non-vacuity of the producer theorems: 3 bins of a row, 2 cells, the largest accepted penalty (1.0 over width + height 4096) *)
Definition ex_bins : list fbin := [mkFbin 0 1000 0 500; mkFbin 1000 2001 0 500; mkFbin (-4194304) 4194304 500 4194304].
Definition ex_cells : list (f32 * f32) := [(f_of_me 12345677 (-12), f_of_me 1 (-149)); (f_of_Z (-268435456), f_of_me 11184811 (-20))].
Lemma ex_reopt_hyps : forall m,
  fin_nn (penalty_factor_f m (d_of_Z 1) 4096) 0 /\ Forall bin_in_range ex_bins /\ Forall target_ok ex_cells.
Proof.
  intros m. split; [|split].
  - destruct (d_of_Z_exact 1 ltac:(simpl; lia)) as [E F]. apply penalty_factor_f_ok; [exact F|rewrite E; lra|lia].
  - repeat constructor; cbn; lia.
  - assert (K : forall c, coord_okb (fst c) && coord_okb (snd c) = true -> target_ok c).
    { intros c H. apply andb_true_iff in H. destruct H as [H1 H2]. split; apply coord_okb_sound; assumption. }
    constructor; [apply K; vm_compute; reflexivity|]. constructor; [apply K; vm_compute; reflexivity|]. constructor.
Qed.
