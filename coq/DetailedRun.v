(* C02 / C05 / C04 -- the DRIVER of detailed placement: DetailedPlacer::run() and its passes, CLOSED.
   Definitions only (proofs: DetailedRunProofs.v, DetailedRunTermProofs.v, DetailedRunCircuitProofs.v).

   Model of (src/place_detailed/place_detailed.cpp, /repo main)
     valueOnSwap :331, bestSwap :266, bestSwapUpdate :301, findCellAfter :359, findCellBefore :377,
     runSwapsOneRow :206, runSwapsTwoRowsAmplify :241, runSwaps :159,
     runReorderingOnRows :894, runReordering :877 (each window = Reorder.run, the closed model of runReorderingOnCells),
     run :106 (the shift pass is an ORACLE argument: lemon's network simplex is not modelled), place :75
   over the paired state DetailedValue.pstate (row structure + the two incremental net models).

   What generates the candidate lists is modelled here; the scan itself is DetailedValue.pbest / pscan (bestValue is read
   once at entry and never updated, the LAST candidate strictly below it is retained and performed).

   Loops.  for-loops over vectors = folds over lists; findCellAfter / findCellBefore = structural recursion on the cells
   after / before `from` in its row; the windows of runReorderingOnRows = structural recursion on the cell list;
   `while (bestSwapUpdate(...))` = binary fuel (loop_pos), exhaustion = RErr EWhileFuel; the walk
   `for (c = rowFirstCell(r1); c != -1; c = cellNext(c))` of runSwapsTwoRowsAmplify, whose variable c is REPLACED by the
   partner of every accepted swap = unary fuel, exhaustion = RErr EWalkFuel.  The fuels are functions of the state at
   loop entry (while_fuel, walk_fuel); DetailedRunTermProofs.v proves that they are never exhausted (fuel_suffices).
   C++ ints are Z (machine-int arithmetic: C07). *)
From Coq Require Import List ZArith Lia Bool.
Import ListNotations.
Require Import CV.Orient CV.FreeSpace CV.Circuit CV.Hpwl CV.Moves CV.Optimiser CV.ShiftLp.
Require Import CV.DetailedInit CV.DetailedExport CV.DetailedValue CV.RowNeigh CV.Reorder.
Local Open Scope Z_scope.

(* ---------- results ---------- *)
Inductive rerr :=
| EWhileFuel                 (* the fuel of `while (bestSwapUpdate)` ran out (proved impossible) *)
| EWalkFuel                  (* the fuel of the walk along row r1 ran out (proved impossible) *)
| EUnplaced                  (* a cell the C++ dereferences is in no row (proved impossible) *)
| EThrow                     (* the C++ throws: DetailedPlacement::place "Cannot place the cell" in a write-back *)
| EUndefined                 (* undefined behaviour in the C++: negative nbNeighbours (invalid iterator range), or a window
                                step <= 0 (the loop of runReorderingOnRows does not advance) *)
| EConstruct                 (* fromIspdCircuit throws *)
| EOracle                    (* closed shift driver: no recorded answer is left for a runShiftsOnCells call, or lemon's recorded answer
                                fails the proved certificate checker ShiftLp.shift_cert_ok (the step is then NOT accepted) *)
| ERecord.                   (* closed shift driver: the recorded call differs from the model's -- other cells / another order, or
                                another network (multiset of labelled arcs) than ShiftLp.shift_net builds *)
Inductive rres (A : Type) := ROk (a : A) | RErr (e : rerr).
Arguments ROk {A} a. Arguments RErr {A} e.
Definition rbind {A B} (r : rres A) (f : A -> rres B) : rres B := match r with ROk a => f a | RErr e => RErr e end.
Fixpoint rfold {A S} (f : S -> A -> rres S) (l : list A) (s : S) : rres S :=
  match l with [] => ROk s | a :: t => rbind (f s a) (rfold f t) end.

(* while-loops with binary fuel: at most p iterations; LContinue at the end = fuel exhausted *)
Inductive lstep (S R : Type) := LContinue (s : S) | LDone (r : R).
Arguments LContinue {S R} s. Arguments LDone {S R} r.
Fixpoint loop_pos {S R : Type} (p : positive) (body : S -> lstep S R) (s : S) : lstep S R :=
  match p with
  | xH => body s
  | xO p' => match loop_pos p' body s with LContinue s' => loop_pos p' body s' | LDone r => LDone r end
  | xI p' => match body s with
             | LContinue s' => match loop_pos p' body s' with LContinue s'' => loop_pos p' body s'' | LDone r => LDone r end
             | LDone r => LDone r
             end
  end.

(* ---------- queries of the row structure (detailed_placement.hpp) ---------- *)
(* rowCells(row) *)
Definition row_ids (d : dstate) (r : nat) : list nat :=
  match nth_error (d_rows d) r with Some rw => map p_id (dr_cells rw) | None => [] end.
(* rowFirstCell(row) *)
Definition row_first (d : dstate) (r : nat) : option nat :=
  match row_ids d r with [] => None | c :: _ => Some c end.
(* cellNext(c) / cellPred(c) of a cell that is in a row (outer None: it is in no row) *)
Definition cell_next (d : dstate) (c : nat) : option (option nat) :=
  match find_row (d_rows d) c 0 with Some (_, _, _, _, b) => Some (head_id b) | None => None end.
Definition cell_pred (d : dstate) (c : nat) : option (option nat) :=
  match find_row (d_rows d) c 0 with Some (_, _, a, _, _) => Some (pred_of a) | None => None end.
(* cellX(c), cellX(c) + cellWidth(c) *)
Definition cell_x (d : dstate) (c : nat) : option Z :=
  match find_row (d_rows d) c 0 with Some (_, _, _, m, _) => Some (p_x m) | None => None end.
Definition cell_end (d : dstate) (c : nat) : option Z :=
  match find_row (d_rows d) c 0 with Some (_, _, _, m, _) => Some (p_x m + p_w m) | None => None end.

(* ---------- valueOnSwap (:331) ----------
   canSwap false -> (false, LLONG_MAX): None.  Otherwise the value with c1, c2 at positionsOnSwap; the models are then
   restored (Optimiser.value_on returns the value and the restored models) *)
Definition value_on_swap (s : pstate) (c1 c2 : nat) : option Z * ostate :=
  match cand_moves (ps_d s) (MSwap c1 c2) with
  | Some ms => let r := value_on (ps_o s) ms in (Some (fst r), snd r)
  | None => (None, ps_o s)
  end.

(* ---------- bestSwap(c, candidates) (:266) ----------
   = DetailedValue.pbest on the candidate swaps; the result `found` is whether the scan retained a candidate *)
Definition swap_cands (c : nat) (cands : list nat) : list mop := map (MSwap c) cands.
Definition retained (s : pstate) (ms : list mop) : option mop := snd (pscan (ps_d s) (ps_o s) ms).
Definition best_swap (s : pstate) (c : nat) (cands : list nat) : pstate * bool :=
  (pbest s (swap_cands c cands), match retained s (swap_cands c cands) with Some _ => true | None => false end).

(* ---------- bestSwapUpdate(c, from, nbNeighbours) (:301) ----------
   candidates: from, cellNext(from), ... (at most nbNeighbours cells), then AGAIN from, cellPred(from), ... (at most
   nbNeighbours); from = -1: none.  On success: doSwap(c, best); if (best == from) from = c; c = best *)
Definition bsu_cands (d : dstate) (from : option nat) (n : nat) : option (list nat) :=
  match from with
  | None => Some []
  | Some f => match find_row (d_rows d) f 0 with
              | Some (_, _, a, _, b) => Some (firstn n (f :: map p_id b) ++ firstn n (f :: map p_id (rev a)))
              | None => None
              end
  end.

Record bsu_result := { bs_state : pstate; bs_found : bool; bs_c : nat; bs_from : option nat }.

Definition best_swap_update (s : pstate) (c : nat) (from : option nat) (nb : Z) : rres bsu_result :=
  match bsu_cands (ps_d s) from (Z.to_nat nb) with
  | None => RErr EUnplaced
  | Some cands =>
      let ms := swap_cands c cands in
      match retained s ms with
      | Some (MSwap _ best) =>
          ROk {| bs_state := pbest s ms; bs_found := true; bs_c := best;
                 bs_from := if opt_nat_eqb (Some best) from then Some c else from |}
      | _ => ROk {| bs_state := pbest s ms; bs_found := false; bs_c := c; bs_from := from |}
      end
  end.

(* ---------- findCellAfter(target, fromCell) (:359), findCellBefore (:377) ---------- *)
Fixpoint fca_walk (tx : Z) (cur : nat) (b : list pcell) : nat :=
  match b with
  | [] => cur
  | n :: t => if tx <? p_x n then cur else fca_walk tx (p_id n) t
  end.
Definition find_cell_after (d : dstate) (target : nat) (from : option nat) : option (option nat) :=
  match from with
  | None => Some None
  | Some f => match find_row (d_rows d) f 0, cell_x d target with
              | Some (_, _, _, _, b), Some tx => Some (Some (fca_walk tx f b))
              | _, _ => None
              end
  end.
(* ra = the cells before `from`, nearest first *)
Fixpoint fcb_walk (te : Z) (cur : nat) (ra : list pcell) : nat :=
  match ra with
  | [] => cur
  | n :: t => if p_x n + p_w n <? te then cur else fcb_walk te (p_id n) t
  end.
Definition find_cell_before (d : dstate) (target : nat) (from : option nat) : option (option nat) :=
  match from with
  | None => Some None
  | Some f => match find_row (d_rows d) f 0, cell_end d target with
              | Some (_, _, a, _, _), Some te => Some (Some (fcb_walk te f (rev a)))
              | _, _ => None
              end
  end.

(* ---------- runSwapsOneRow(row, nbNeighbours) (:206) ----------
   cells = rowCells(row) is a SNAPSHOT: the candidates and the cell of iteration i are read from it although earlier
   iterations may have swapped cells.  candidates = cells[max(0, i - nb) .. min(size, i + nb + 1)).
   nb < 0 on a non-empty row: the iterator range is invalid (begin + b > begin + e): EUndefined *)
Definition one_row_cands (cells : list nat) (i n : nat) : list nat :=
  let b := (i - n)%nat in
  let e := Nat.min (length cells) (i + n + 1) in
  firstn (e - b) (skipn b cells).

Definition run_swaps_one_row (s : pstate) (row : nat) (nb : Z) : rres pstate :=
  let cells := row_ids (ps_d s) row in
  match cells with
  | [] => ROk s
  | _ => if nb <? 0 then RErr EUndefined
         else ROk (fold_left (fun st i => fst (best_swap st (nth i cells O) (one_row_cands cells i (Z.to_nat nb))))
                             (seq 0 (length cells)) s)
  end.

(* ---------- runSwapsTwoRowsAmplify(r1, r2, nbNeighbours) (:241) ---------- *)
(* fuel of `while (bestSwapUpdate(c, from, nb))`: every accepted swap lowers value() by at least 1, value() >= 0 *)
Definition while_fuel (s : pstate) : positive := Z.to_pos (ovalue (ps_o s) + 1).

Definition while_body (nb : Z) (st : pstate * nat * option nat) : lstep (pstate * nat * option nat) (rres (pstate * nat * option nat)) :=
  match st with
  | (s, c, from) =>
      match best_swap_update s c from nb with
      | RErr e => LDone (RErr e)
      | ROk r => if bs_found r then LContinue (bs_state r, bs_c r, bs_from r)
                 else LDone (ROk (bs_state r, bs_c r, bs_from r))
      end
  end.

Definition run_while (s : pstate) (c : nat) (from : option nat) (nb : Z) : rres (pstate * nat * option nat) :=
  match loop_pos (while_fuel s) (while_body nb) (s, c, from) with
  | LDone r => r
  | LContinue _ => RErr EWhileFuel
  end.

(* the walk: one iteration = the inner while, from = findCellAfter(c, from), c = cellNext(c) *)
Fixpoint amplify_walk (fuel : nat) (s : pstate) (c : nat) (from : option nat) (nb : Z) : rres pstate :=
  match fuel with
  | O => RErr EWalkFuel
  | S fuel' =>
      match run_while s c from nb with
      | RErr e => RErr e
      | ROk (s1, c1, from1) =>
          match find_cell_after (ps_d s1) c1 from1, cell_next (ps_d s1) c1 with
          | Some from2, Some (Some c2) => amplify_walk fuel' s1 c2 from2 nb
          | Some _, Some None => ROk s1
          | _, _ => RErr EUnplaced
          end
      end
  end.

(* fuel of the walk: the number of cells of row r1 (+ 1) *)
Definition walk_fuel (d : dstate) (r1 : nat) : nat := S (length (row_ids d r1)).

Definition run_swaps_two_rows_amplify (s : pstate) (r1 r2 : nat) (nb : Z) : rres pstate :=
  match row_first (ps_d s) r1 with
  | None => ROk s
  | Some c => amplify_walk (walk_fuel (ps_d s) r1) s c (row_first (ps_d s) r2) nb
  end.

(* ---------- runSwaps(nbRows, nbNeighbours) (:159) ---------- *)
(* placement_.rows() as RowNeighbourhood reads them (maxY is not used by any test of row_neighbourhood.cpp) *)
Definition rects_of (d : dstate) : list rect :=
  map (fun r => {| minX := dr_min r; maxX := dr_max r; minY := dr_y r; maxY := dr_y r |}) (d_rows d).

Definition amplify_all (nb : Z) (i : nat) (s : pstate) (js : list nat) : rres pstate :=
  rfold (fun st j => run_swaps_two_rows_amplify st i j nb) js s.

Definition run_swaps (s : pstate) (nbRows nbNeighbours : Z) : rres pstate :=
  let n := length (d_rows (ps_d s)) in
  let rects := rects_of (ps_d s) in
  (* Optimize each row internally *)
  rbind (rfold (fun st i => run_swaps_one_row st i nbNeighbours) (seq 0 n) s) (fun s1 =>
  (* RowNeighbourhood rowsNeighbours(placement_.rows(), nbRows); each row with the neighbours after it *)
  rbind (rfold (fun st i => rbind (amplify_all nbNeighbours i st (rows_above rects nbRows i))
                                  (fun st' => amplify_all nbNeighbours i st' (rows_right rects nbRows i)))
               (seq 0 n) s1) (fun s2 =>
  (* for (i = nbRows() - 1; i >= 1; --i): each row with the neighbours before it *)
  rfold (fun st i => rbind (amplify_all nbNeighbours i st (rows_below rects nbRows i))
                           (fun st' => amplify_all nbNeighbours i st' (rows_left rects nbRows i)))
        (rev (seq 1 (n - 1))) s2)).

(* ---------- runReordering(maxNbRows, maxNbCells) (:877), runReorderingOnRows (:894) ---------- *)
(* rowCells(rows): the cells of the rows, std::stable_sort of the pairs (cellX, cell) (lexicographic: a strict total
   order on distinct cells, so the sorted arrangement is unique) *)
Definition xc_lt (a b : Z * nat) : bool := (fst a <? fst b) || ((fst a =? fst b) && (snd a <? snd b)%nat).
Definition rows_cells (d : dstate) (rows : list nat) : list nat :=
  map snd (isort xc_lt (flat_map (fun r => match nth_error (d_rows d) r with
                                           | Some rw => map (fun p => (p_x p, p_id p)) (dr_cells rw)
                                           | None => []
                                           end) rows)).

(* for (start = 0; start < size; start += step) window = cells[start .. min(start + size_w, size)):
   `skip` = how many more cells to pass before the next window starts; step >= 1 *)
Fixpoint windows (size_w step : nat) (l : list nat) (skip : nat) : list (list nat) :=
  match l with
  | [] => []
  | _ :: t => match skip with
              | O => firstn size_w l :: windows size_w step t (pred step)
              | S k => windows size_w step t k
              end
  end.

Definition reorder_window (s : pstate) (cs : list nat) : rres pstate :=
  match Reorder.run s cs with Some (s', _) => ROk s' | None => RErr EThrow end.

Definition run_reordering_on_rows (s : pstate) (rows : list nat) (maxNbCells : Z) : rres pstate :=
  let cells := rows_cells (ps_d s) rows in
  let overlap := Z.min (Z.quot maxNbCells 2) 10 in
  let step := maxNbCells - overlap in
  match cells with
  | [] => ROk s
  | _ => if step <=? 0 then RErr EUndefined
         else rfold reorder_window (windows (Z.to_nat maxNbCells) (Z.to_nat step) cells 0) s
  end.

Definition run_reordering (s : pstate) (maxNbRows maxNbCells : Z) : rres pstate :=
  if maxNbCells <? 2 then ROk s
  else
    let rects := rects_of (ps_d s) in
    rfold (fun st row => run_reordering_on_rows st (row :: rows_above rects (maxNbRows - 1) row) maxNbCells)
          (seq 0 (length (d_rows (ps_d s)))) s.

(* ---------- DetailedPlacer::run() (:106) ---------- *)
Record dparams := { dp_nbPasses : Z; dp_localSearchNbNeighbours : Z; dp_localSearchNbRows : Z;
                    dp_shiftNbRows : Z; dp_shiftMaxNbCells : Z; dp_reorderingNbRows : Z; dp_reorderingMaxNbCells : Z }.

(* DetailedPlacerParameters::check() (parameters.cpp 463-492) *)
Definition params_ok (p : dparams) : bool :=
  (0 <=? dp_nbPasses p) && (0 <=? dp_localSearchNbNeighbours p) && (0 <=? dp_localSearchNbRows p) &&
  (0 <? dp_shiftNbRows p) && (0 <=? dp_shiftMaxNbCells p) && (0 <? dp_reorderingNbRows p) && (0 <=? dp_reorderingMaxNbCells p).

(* the ORACLE of the shift pass: for every pass, the calls of runShiftsOnCells that wrote positions -- selected cells,
   lemon's potentials and flow (the flow is only read by the certificate checker) *)
Definition shift_call := (list nat * (snode -> Z) * list Z)%type.
Definition shift_steps (calls : list shift_call) : list pstep :=
  map (fun k => match k with (sel, pi, f) => PShift sel pi f end) calls.
Definition run_shifts_oracle (s : pstate) (calls : list shift_call) : pstate := psteps_run s (shift_steps calls).

(* one pass.  NOTE the call  runSwaps(localSearchNbNeighbours, localSearchNbRows)  against the declaration
   runSwaps(int nbRows, int nbNeighbours): the row cut-off receives localSearchNbNeighbours and the cell cut-off
   localSearchNbRows (the code as it is).  `ex` = the states exposed at the callbacks so far, latest first *)
Definition run_pass (p : dparams) (calls : list shift_call) (acc : pstate * list pstate) : rres (pstate * list pstate) :=
  let '(s, ex) := acc in
  rbind (run_swaps s (dp_localSearchNbNeighbours p) (dp_localSearchNbRows p)) (fun s1 =>
  let ex1 := s1 :: ex in                                                     (* callback() *)
  let '(s2, ex2) := if 2 <=? dp_shiftMaxNbCells p
                    then (run_shifts_oracle s1 calls, run_shifts_oracle s1 calls :: ex1)   (* runShifts; callback() *)
                    else (s1, ex1) in
  if 2 <=? dp_reorderingMaxNbCells p
  then rbind (run_reordering s2 (dp_reorderingNbRows p) (dp_reorderingMaxNbCells p))
             (fun s3 => ROk (s3, s3 :: ex2))                                  (* runReordering; callback() *)
  else ROk (s2, ex2)).

(* for (i = 1; i <= nbPasses; ++i): `shifts` gives the oracle calls of pass 1, 2, ... (none when the list is shorter) *)
Fixpoint run_passes_from (n : nat) (p : dparams) (shifts : list (list shift_call)) (acc : pstate * list pstate)
  : rres (pstate * list pstate) :=
  match n with
  | O => ROk acc
  | S n' => rbind (run_pass p (hd [] shifts) acc) (run_passes_from n' p (tl shifts))
  end.

(* the final state and the states exposed at the callbacks, in order *)
Definition run_passes (p : dparams) (shifts : list (list shift_call)) (s : pstate) : rres (pstate * list pstate) :=
  match run_passes_from (Z.to_nat (dp_nbPasses p)) p shifts (s, []) with
  | ROk (s', ex) => ROk (s', rev ex)
  | RErr e => RErr e
  end.

(* ---------- DetailedPlacer::place after legalization (:75) ----------
   c = the LEGALIZED circuit (what Circuit::legalize / LegalizerWrapper::exportPlacement left).  Result: the circuit
   after the final exportPlacement and the circuits the callbacks saw.  pl.check() before and after run() and the
   check() at the end of runReordering are assertions on what PInv proves; they are not modelled *)
Definition place_detailed_model (c : circuit) (nets : list (list hpin)) (p : dparams) (shifts : list (list shift_call))
  : rres (circuit * list circuit) :=
  match from_circuit c with
  | DErr _ => RErr EConstruct
  | DOk d0 =>
      match run_passes p shifts {| ps_d := d0; ps_o := init_models c nets |} with
      | ROk (s, ex) => ROk (write_back c (ps_d s), map (fun st => write_back c (ps_d st)) ex)
      | RErr e => RErr e
      end
  end.

(* ====================================================================================================== *)
(* The shift pass with its DRIVER closed: runShifts (:421) and runShiftsOnRows (:441) are modelled like
   runReordering -- the row sets from RowNeighbourhood, the cell list, the windows, the overlap --, so that the model
   decides WHICH cells every runShiftsOnCells call receives.  Only lemon's ANSWER to each call stays an oracle: a record
   per call, in call order, of the cells the C++ passed (checked against the model's), the arcs of the network it built
   with lemon's flow on each (checked: same multiset of labelled arcs as ShiftLp.shift_net), and lemon's potentials.
   The answer is accepted only if the PROVED checker ShiftLp.shift_cert_ok accepts it on the MODEL's network. *)
Record shift_answer := { sa_cells : list nat; sa_pi : snode -> Z; sa_flows : list (arc * Z) }.

Definition arc_eqb (a b : arc) : bool :=
  snode_eqb (a_src a) (a_src b) && snode_eqb (a_tgt a) (a_tgt b) && (a_cost a =? a_cost b).

(* the flow of the first recorded arc with the labels of a, and the records without it *)
Fixpoint take_flow (a : arc) (cf : list (arc * Z)) : option (Z * list (arc * Z)) :=
  match cf with
  | [] => None
  | (b, v) :: t => if arc_eqb a b then Some (v, t)
                   else match take_flow a t with Some (w, t') => Some (w, (b, v) :: t') | None => None end
  end.

(* the recorded flows in the order of the model's arcs; None unless the two multisets of labelled arcs are equal *)
Fixpoint match_flows (marcs : list arc) (cf : list (arc * Z)) : option (list Z) :=
  match marcs with
  | [] => match cf with [] => Some [] | _ => None end
  | a :: t => match take_flow a cf with
              | Some (v, cf') => match match_flows t cf' with Some l => Some (v :: l) | None => None end
              | None => None
              end
  end.

Definition list_nat_eqb (a b : list nat) : bool := (length a =? length b)%nat && forallb (fun p => Nat.eqb (fst p) (snd p)) (combine a b).

(* runShiftsOnCells(cells) (:457) with the next recorded answer: the write-back is DetailedValue.pshift *)
Definition shift_on_cells (st : pstate * list shift_answer) (sel : list nat) : rres (pstate * list shift_answer) :=
  let '(s, ans) := st in
  match ans with
  | [] => RErr EOracle
  | a :: rest =>
      if negb (list_nat_eqb sel (sa_cells a)) then RErr ERecord
      else
        let N := shift_net (ps_d s) (ox (ps_o s)) sel in
        match match_flows (n_arcs N) (sa_flows a) with
        | None => RErr ERecord
        | Some f => if shift_cert_ok N (sa_pi a) f then ROk (pshift s sel (sa_pi a), rest) else RErr EOracle
        end
  end.

(* runShiftsOnRows(rows, maxNbCells) (:441): the same cell list and windows as runReorderingOnRows *)
Definition run_shifts_on_rows (st : pstate * list shift_answer) (rows : list nat) (maxNbCells : Z) : rres (pstate * list shift_answer) :=
  let cells := rows_cells (ps_d (fst st)) rows in
  let overlap := Z.min (Z.quot maxNbCells 2) 10 in
  let step := maxNbCells - overlap in
  match cells with
  | [] => ROk st
  | _ => if step <=? 0 then RErr EUndefined
         else rfold shift_on_cells (windows (Z.to_nat maxNbCells) (Z.to_nat step) cells 0) st
  end.

(* runShifts(nbRows, maxNbCells) (:421): nothing if nbRows < 2; RowNeighbourhood(rows, nbRows / 2); for
   (r = 0; r < nbRows(); r += nbRows / 2): rows = r, rowsBelow(r), rowsAbove(r).  (Its final placement_.check() is an
   assertion on what Inv proves.) *)
Definition run_shifts (st : pstate * list shift_answer) (nbRows maxNbCells : Z) : rres (pstate * list shift_answer) :=
  if nbRows <? 2 then ROk st
  else
    let k := Z.quot nbRows 2 in
    let rects := rects_of (ps_d (fst st)) in
    let starts := filter (fun r => Z.of_nat r mod k =? 0) (seq 0 (length (d_rows (ps_d (fst st))))) in
    rfold (fun st' r => run_shifts_on_rows st' (r :: rows_below rects k r ++ rows_above rects k r) maxNbCells) starts st.

(* one pass of run() with the shift driver closed *)
Definition run_pass_c (p : dparams) (acc : pstate * list pstate * list shift_answer) : rres (pstate * list pstate * list shift_answer) :=
  let '(s, ex, ans) := acc in
  rbind (run_swaps s (dp_localSearchNbNeighbours p) (dp_localSearchNbRows p)) (fun s1 =>
  let ex1 := s1 :: ex in
  rbind (if 2 <=? dp_shiftMaxNbCells p
         then rbind (run_shifts (s1, ans) (dp_shiftNbRows p) (dp_shiftMaxNbCells p)) (fun st2 => ROk (fst st2, fst st2 :: ex1, snd st2))
         else ROk (s1, ex1, ans)) (fun acc2 =>
  let '(s2, ex2, ans2) := acc2 in
  if 2 <=? dp_reorderingMaxNbCells p
  then rbind (run_reordering s2 (dp_reorderingNbRows p) (dp_reorderingMaxNbCells p)) (fun s3 => ROk (s3, s3 :: ex2, ans2))
  else ROk (s2, ex2, ans2))).

Fixpoint run_passes_c_from (n : nat) (p : dparams) (acc : pstate * list pstate * list shift_answer) : rres (pstate * list pstate * list shift_answer) :=
  match n with
  | O => ROk acc
  | S n' => rbind (run_pass_c p acc) (run_passes_c_from n' p)
  end.

(* the final state, the states exposed at the callbacks in order, the answers NOT consumed (none when the C++ made
   exactly the calls the model makes) *)
Definition run_passes_c (p : dparams) (answers : list shift_answer) (s : pstate) : rres (pstate * list pstate * list shift_answer) :=
  match run_passes_c_from (Z.to_nat (dp_nbPasses p)) p (s, [], answers) with
  | ROk (s', ex, rest) => ROk (s', rev ex, rest)
  | RErr e => RErr e
  end.

Definition place_detailed_model_c (c : circuit) (nets : list (list hpin)) (p : dparams) (answers : list shift_answer)
  : rres (circuit * list circuit * list shift_answer) :=
  match from_circuit c with
  | DErr _ => RErr EConstruct
  | DOk d0 =>
      match run_passes_c p answers {| ps_d := d0; ps_o := init_models c nets |} with
      | ROk (s, ex, rest) => ROk (write_back c (ps_d s), map (fun st => write_back c (ps_d st)) ex, rest)
      | RErr e => RErr e
      end
  end.
