(* C07 listing tie, the HAND-WRITTEN side: for every operation of the generated table coq/MachineOps_gen.v (same functions
   in the same order, same operations in source order) either the listing value that covers it -- [Listed fn pos ty]: value
   number [pos] (from 0) of the sample evaluation of the listing function [fn] below, of C type [ty] -- or an explicit
   exclusion with its reason.  The rule MachineOps.ops_covered_b compares the two tables entry by entry (function, operator,
   result type, normalised text, occurrence) and checks the type of every covering value against the generated type AND
   against the type the listing function really produces at that position.  What the positions MEAN (that value [pos] of the
   listing is the mathematical value of the C++ expression) is read off the listing files' comments by hand: not checked.
   Definitions only. *)
From Coq Require Import List String ZArith.
Import ListNotations.
Require Import CV.RowLeg CV.RowLegMachine CV.SubdivMachine CV.Ssp CV.SspF CV.SspMachine CV.SspMachineRun
  CV.Orient CV.FreeSpace CV.Legalizer CV.AbacusMachine CV.Moves CV.MovesMachine CV.Hpwl CV.HpwlMachine CV.Density CV.DensityMachine CV.Transp1d CV.Transp1dMachine CV.RowLegPlacementMachine CV.MachineOps.
Local Open Scope Z_scope.

(* ---------- sample evaluations of the listing functions: only the TYPE column is used *)
Definition tys (l : list (RowLegMachine.cty * Z)) : list RowLegMachine.cty := map fst l.

(* RowLegMachine: a fresh segment [0, 10) (no bound in the queue: gd_vals = its 4 leading and 11 trailing values);
   one iteration of the while loop on a queue with one bound *)
Definition smp_gd_vals := tys (gd_vals (rl_init 0 10) 3 5).
Definition smp_pop_vals := tys (RowLegMachine.pop_vals [{| bpos := 5; bw := 2 |}] 0 7 3 (-3) 10 0).
(* SubdivMachine: iteration 1 of computeSubdivisions(0, 10, 2) *)
Definition smp_subdiv_iter_vals := tys (subdiv_iter_vals 0 10 2 1).

(* SspMachine: two sinks of capacity 1, one source of demand 5 (missing = 3, added = 1, one sink gets the remainder) *)
Definition smp_increase_capacity_vals := tys (increase_capacity_vals (mkPb [1; 1] [5] [[0]; [0]])).
Definition smp_moving_vals := tys (moving_vals (mkPb [1; 5] [1] [[0]; [5]]) 0 0 1).
Definition smp_best_sink_vals := tys (best_sink_vals (mkPb [1; 5] [1] [[0]; [5]]) [0; 0] 0).
Definition smp_relax_vals := tys (relax_vals 1 2).
(* SspMachineRun: one sink with room for the whole demand (sendSource/3 without a chain: lines 545, 547); one hop of the
   second chain walk of sendSource/3 from a full sink 0 that holds source 0, towards sink 1 (lines 537, 539);
   one iteration of the while loop of sendSource(src); the first demand of a run *)
Definition smp_pb1 : Pb := mkPb [5] [3] [[7]].
Definition smp_pb2 : Pb := mkPb [1; 5] [1] [[0]; [5]].
Definition smp_send3_vals := tys (send3_vals tree_fuel smp_pb1 (Ssp.init_st smp_pb1) 0 0 3).
Definition smp_walk2_step_vals :=
  tys (walk2_step_vals smp_pb2 1 (mkW2 [[1]; [0]] [[[]; [(5, 0%nat)]]; [[]; []]] 0 0 false) 1).
Definition smp_send_body_vals := tys (send_body_vals tree_fuel smp_pb1 0 (Ssp.init_st smp_pb1, 3)).
Definition smp_ssp_run_vals := tys (ssp_run_vals tree_fuel smp_pb1).

(* AbacusMachine: two stacked rows [0,10) x [0,8), [0,10) x [8,16) with fresh row legalizers; a cell wider than the rows (so
   that evaluatePlacement stops at remainingSpace() and tryPlace's list has a fixed shape) with target y 5.
   "closest_row_vals/end": lower_bound runs off the end; "closest_row_vals/mid": it stops at row 1 *)
Definition smp_r0 : row := {| rr := {| minX := 0; maxX := 10; minY := 0; maxY := 8 |}; ro := oN |}.
Definition smp_r1 : row := {| rr := {| minX := 0; maxX := 10; minY := 8; maxY := 16 |}; ro := oN |}.
Definition smp_c0 : cell := {| cw := 20; ch := 8; cpol := pANY; ctx := 3; Legalizer.cty := 5; cor := oN |}.
Definition smp_closest_end := tys (closest_row_vals [smp_r0] 100).
Definition smp_closest_mid := tys (closest_row_vals [smp_r0; smp_r1] 5).
Definition smp_a_try_vals := tys (a_try_vals [smp_r0] [rl_init 0 10] smp_c0 0 (-1, 9223372036854775807)).
Definition smp_a_scan_vals := tys (a_scan_vals [smp_r0] [rl_init 0 10] smp_c0 1 [0] (-1, 9223372036854775807)).
Definition smp_a_place_vals := tys (a_place_vals [smp_r0; smp_r1] [rl_init 0 10; rl_init 0 10] smp_c0).

(* MovesMachine: row 0 = [0, 20) with cells 0 (x 0, w 2), 1 (x 6, w 2), 3 (x 10, w 2); row 1 = [0, 20) with cell 2 (x 5, w 3);
   cell 4 (w 1) unplaced.  place cell 4 after cell 2; insert cell 3 after cell 2; swap the distant cells 0 and 2
   (canSwap holds); swap the neighbours 1, 0 ("adjacent1": cellPred(c1) == c2) and 0, 1 ("adjacent2": cellPred(c2) == c1) *)
Definition smp_pc (i : nat) (x w : Z) : pcell := {| p_id := i; p_x := x; p_w := w; p_pol := pANY; p_o := oN |}.
Definition smp_dstate : dstate :=
  {| d_rows := [ {| dr_min := 0; dr_max := 20; dr_y := 0; dr_o := oN; dr_cells := [smp_pc 0 0 2; smp_pc 1 6 2; smp_pc 3 10 2] |};
                 {| dr_min := 0; dr_max := 20; dr_y := 8; dr_o := oN; dr_cells := [smp_pc 2 5 3] |} ];
     d_loose := [smp_pc 4 0 1] |}.
Definition smp_place_vals := tys (place_vals smp_dstate 4 1 (Some 2%nat) 9).
Definition smp_can_insert_vals := tys (can_insert_vals smp_dstate 3 1 (Some 2%nat)).
Definition smp_insert_vals := tys (insert_vals smp_dstate 3 1 (Some 2%nat)).
Definition smp_can_swap_vals := tys (can_swap_vals smp_dstate 0 2).
Definition smp_swap_apart := tys (swap_vals smp_dstate 0 2).
Definition smp_swap_adj1 := tys (swap_vals smp_dstate 1 0).
Definition smp_swap_adj2 := tys (swap_vals smp_dstate 0 1).
(* HpwlMachine: one net with one pin on a cell in orientation N (no flipped offset) resp. S (both offsets flipped);
   IncrNetModel: one net with one pin *)
Definition smp_hN : hcell := {| hx := 1; hy := 2; hw := 4; hh := 6; ho := oN |}.
Definition smp_hS : hcell := {| hx := 1; hy := 2; hw := 4; hh := 6; ho := oS |}.
Definition smp_hp : hpin := {| pc := 0; pxo := 1; pyo := 1 |}.
Definition smp_pin_vals := tys (pin_vals [smp_hN] 0 0 smp_hp 2147483647 (-2147483648) 2147483647 (-2147483648)).
Definition smp_pin_vals_flipped := tys (pin_vals [smp_hS] 0 0 smp_hp 2147483647 (-2147483648) 2147483647 (-2147483648)).
Definition smp_net_vals := tys (net_vals [smp_hN] 0 [smp_hp] 0).
Definition smp_nets_vals := tys (nets_vals [smp_hN] 0 0 0 [[smp_hp]]).
Definition smp_mm_pins_vals := tys (mm_pins_vals [5] [(0%nat, 1)] 2147483647 (-2147483648)).
Definition smp_value_vals := tys (value_vals [(1, 3)] 0).
Definition smp_recompute_vals :=
  tys (recompute_vals {| ipos := [5]; inets := [[(0%nat, 1)]]; iminmax := [(6, 6)]; ivalue := 0 |} 0).

(* DensityMachine: a 5 x 5 rectangle; one row [0, 10) clipped by margin 2; bins of size 3 on a 10 x 10 area; limits
   [0; 5; 10]; one bin [0,5)^2 against one region that meets it; one (usage, capacity) pair; one cell of size 2 x 3;
   one row of height 8 whose width left by the margin is 6 *)
Definition smp_rect : rect := {| minX := 0; maxX := 5; minY := 0; maxY := 5 |}.
Definition smp_area_vals := tys (area_vals smp_rect).
Definition smp_clip_vals := tys (clip_vals 2 [{| minX := 0; maxX := 10; minY := 0; maxY := 8 |}]).
Definition smp_nb_bins_vals := tys (nb_bins_vals {| minX := 0; maxX := 10; minY := 0; maxY := 10 |} 3).
Definition smp_centers_vals := tys (centers_vals [0; 5; 10]).
Definition smp_cap0_vals := tys (cap0_vals [0; 5] [0; 5]).
Definition smp_bin_acc_vals := tys (bin_acc_vals smp_rect [{| minX := 2; maxX := 8; minY := 2; maxY := 8 |}] 0).
Definition smp_sum_vals := tys (sum_vals [1; 2]).
Definition smp_overflow_vals := tys (overflow_vals [(5, 3)]).
Definition smp_demand_vals := tys (demand_vals [(2, 3)]).
Definition smp_cell_area_vals := tys (cell_area_vals [(2, 3)]).
Definition smp_row_area_vals := tys (row_area_vals [({| minX := 0; maxX := 10; minY := 0; maxY := 8 |}, 6)]).

(* RowLegPlacementMachine: getPlacement on a segment [0, 10) holding one cell of width 3 constrained at 2 *)
Definition smp_gp_aux_vals := tys (gp_aux_vals [2] [3] 3 None).
(* Transp1dMachine: a sorted problem with sources at 0, 10 (supply 2 each) and sinks at 0, 10 (demand 2 each); an unsorted
   problem with one source of supply 5 and two sinks of demand 1 (balanceDemand: missing 3, added 1, remainder 1); a solver
   state with one event at the last position (getSlope pops it) *)
Definition smp_P2 : sprob := {| su := [0; 10]; sv := [0; 10]; ss := [2; 2]; sd := [2; 2]; sS := [0; 2; 4]; sD := [0; 2; 4] |}.
Definition smp_pbB : prob := {| pb_u := [0]; pb_v := [0; 1]; pb_s := [5]; pb_d := [1; 1] |}.
Definition smp_sE : st := {| ev := [(3, 7)]; lp := 3; lo := O; os := O; pp := [] |}.
Definition smp_total_vals := tys (total_vals [1; 2]).
Definition smp_setup_vals := tys (setup_vals smp_P2).
Definition smp_balance_vals := tys (balance_vals smp_pbB).
Definition smp_order_vals := tys (order_vals [O]).
Definition smp_idle_vals_of := tys (idle_vals_of [(0, O); (10, 1%nat)] 5 0).
Definition smp_cost_vals := tys (cost_vals smp_P2 0 1).
Definition smp_delta_vals := tys (delta_vals smp_P2 0 0).
Definition smp_upd_opt_vals := tys (upd_opt_vals smp_P2 1 2 0).
Definition smp_pnse_vals := tys (pnse_vals smp_P2 1 {| ev := []; lp := 0; lo := 1%nat; os := 1%nat; pp := [] |}).
Definition smp_pnk_vals := tys (pnk_vals smp_P2 0 1 Transp1d.init_st).
Definition smp_slope_vals := tys (slope_vals smp_sE).
Definition smp_ptls_vals := tys (ptls_vals smp_P2 0 smp_sE).
Definition smp_ptns_vals := tys (ptns_vals smp_P2 0 smp_sE).
Definition smp_push_once_vals := tys (push_once_vals smp_P2 0 smp_sE).
Definition smp_loop_test_vals := tys (loop_test_vals smp_P2 0 smp_sE).
Definition smp_push_vals := tys (push_vals smp_P2 0 Transp1d.init_st).
Definition smp_push_all_vals := tys (push_all_vals smp_P2 [O] Transp1d.init_st).
Definition smp_t1d_run_vals := tys (Transp1dMachine.run_vals smp_P2).
Definition smp_t1d_run_vals_rev := tys (rev (Transp1dMachine.run_vals smp_P2)).
Definition smp_solution_vals := tys (solution_vals smp_P2 [0; 0]).
Definition smp_assignment_vals := tys (assignment_vals smp_P2 [0; 0]).

Local Open Scope string_scope.
Definition cover_samples : list (string * list RowLegMachine.cty) :=
  [("gd_vals", smp_gd_vals); ("pop_vals", smp_pop_vals); ("subdiv_iter_vals", smp_subdiv_iter_vals);
   ("increase_capacity_vals", smp_increase_capacity_vals); ("moving_vals", smp_moving_vals);
   ("best_sink_vals", smp_best_sink_vals); ("relax_vals", smp_relax_vals); ("send3_vals", smp_send3_vals);
   ("walk2_step_vals", smp_walk2_step_vals); ("send_body_vals", smp_send_body_vals); ("ssp_run_vals", smp_ssp_run_vals);
   ("closest_row_vals/end", smp_closest_end); ("closest_row_vals/mid", smp_closest_mid); ("a_try_vals", smp_a_try_vals);
   ("a_scan_vals", smp_a_scan_vals); ("a_place_vals", smp_a_place_vals);
   ("place_vals", smp_place_vals); ("can_insert_vals", smp_can_insert_vals); ("insert_vals", smp_insert_vals);
   ("can_swap_vals", smp_can_swap_vals); ("swap_vals/apart", smp_swap_apart); ("swap_vals/adjacent1", smp_swap_adj1);
   ("swap_vals/adjacent2", smp_swap_adj2);
   ("pin_vals", smp_pin_vals); ("pin_vals/flipped", smp_pin_vals_flipped); ("net_vals", smp_net_vals); ("nets_vals", smp_nets_vals);
   ("mm_pins_vals", smp_mm_pins_vals); ("value_vals", smp_value_vals); ("recompute_vals", smp_recompute_vals);
   ("area_vals", smp_area_vals); ("clip_vals", smp_clip_vals); ("nb_bins_vals", smp_nb_bins_vals); ("centers_vals", smp_centers_vals);
   ("cap0_vals", smp_cap0_vals); ("bin_acc_vals", smp_bin_acc_vals); ("sum_vals", smp_sum_vals); ("overflow_vals", smp_overflow_vals);
   ("demand_vals", smp_demand_vals); ("cell_area_vals", smp_cell_area_vals); ("row_area_vals", smp_row_area_vals);
   ("gp_aux_vals", smp_gp_aux_vals);
   ("total_vals", smp_total_vals); ("setup_vals", smp_setup_vals); ("balance_vals", smp_balance_vals); ("order_vals", smp_order_vals);
   ("idle_vals_of", smp_idle_vals_of); ("cost_vals", smp_cost_vals); ("delta_vals", smp_delta_vals); ("upd_opt_vals", smp_upd_opt_vals);
   ("pnse_vals", smp_pnse_vals); ("pnk_vals", smp_pnk_vals); ("slope_vals", smp_slope_vals); ("ptls_vals", smp_ptls_vals);
   ("ptns_vals", smp_ptns_vals); ("push_once_vals", smp_push_once_vals); ("loop_test_vals", smp_loop_test_vals);
   ("push_vals", smp_push_vals); ("push_all_vals", smp_push_all_vals); ("t1d_run_vals", smp_t1d_run_vals);
   ("t1d_run_vals/rev", smp_t1d_run_vals_rev); ("solution_vals", smp_solution_vals); ("assignment_vals", smp_assignment_vals)].

Definition cover_funs : list cfun := [
  mkCF "AbacusMachine.v" "AbacusLegalizer::check" [
    mkC OPreInc MInt "++i" 0
      (Excluded ELoopCounter "counter of a for loop tested against nbRows() (an int) before every increment");
    mkC OAdd MInt "cellToX_[c] + cellWidth_[c]" 0
      (Listed "gp_aux_vals" 1 I32);
    mkC OPreInc MInt "++i" 1
      (Excluded ELoopCounter "counter of a for loop tested against nbRows() (an int) before every increment");
    mkC OAdd MInt "cellToX_[c1] + cellWidth_[c1]" 0
      (Listed "gp_aux_vals" 1 I32)];
  mkCF "AbacusMachine.v" "AbacusLegalizer::evaluatePlacement" [
];
  mkCF "AbacusMachine.v" "AbacusLegalizer::placeCell" [
    mkC OMul MLLong "cellWidth_[cell] * norm(0, rows_[row].minY - targetY, LegalizationModel::L1)" 0
      (Listed "a_try_vals" 5 I64);
    mkC OSub MInt "rows_[row].minY - targetY" 0
      (Listed "a_try_vals" 1 I32);
    mkC OAdd MLLong "xDist + yDist" 0
      (Listed "a_try_vals" 9 I64);
    mkC OPreInc MInt "++row" 0
      (Listed "a_scan_vals" 10 I32);
    mkC OSub MInt "initialRow - 1" 0
      (Listed "a_place_vals" 16 I32);
    mkC OPreDec MInt "--row" 0
      (Listed "a_scan_vals" 10 I32)];
  mkCF "AbacusMachine.v" "AbacusLegalizer::run" [
    mkC OPreInc MInt "++c" 0
      (Excluded ELoopCounter "counter of a for loop tested against nbCells() (an int) before every increment");
    mkC OPreInc MInt "++i" 0
      (Excluded ELoopCounter "counter of a for loop tested against nbRows() (an int) before every increment")];
  mkCF "AbacusMachine.v" "LegalizerBase::check" [
    mkC (ONarrow MULong) MInt "(int)cellWidth_.size()" 0
      (Excluded ESize "(int)cellWidth_.size() compared with nbCells()");
    mkC (ONarrow MULong) MInt "(int)cellHeight_.size()" 0
      (Excluded ESize "(int)cellHeight_.size() compared with nbCells()");
    mkC (ONarrow MULong) MInt "(int)cellTargetX_.size()" 0
      (Excluded ESize "(int)cellTargetX_.size() compared with nbCells()");
    mkC (ONarrow MULong) MInt "(int)cellTargetY_.size()" 0
      (Excluded ESize "(int)cellTargetY_.size() compared with nbCells()");
    mkC (ONarrow MULong) MInt "(int)cellTargetOrientation_.size()" 0
      (Excluded ESize "(int)cellTargetOrientation_.size() compared with nbCells()");
    mkC (ONarrow MULong) MInt "(int)cellToX_.size()" 0
      (Excluded ESize "(int)cellToX_.size() compared with nbCells()");
    mkC (ONarrow MULong) MInt "(int)cellToY_.size()" 0
      (Excluded ESize "(int)cellToY_.size() compared with nbCells()");
    mkC (ONarrow MULong) MInt "(int)cellToOrientation_.size()" 0
      (Excluded ESize "(int)cellToOrientation_.size() compared with nbCells()")];
  mkCF "AbacusMachine.v" "LegalizerBase::closestRow" [
    mkC OSub MInt "nbRows() - 1" 0
      (Listed "closest_row_vals/end" 1 I32);
    mkC (ONarrow MLong) MInt "it - rows_.begin()" 0
      (Listed "closest_row_vals/mid" 0 I32);
    mkC OSub MInt "rows_[row].minY - y" 0
      (Listed "closest_row_vals/mid" 2 I32);
    mkC OSub MInt "y - rows_[row - 1].minY" 0
      (Listed "closest_row_vals/mid" 3 I32);
    mkC OSub MInt "row - 1" 0
      (Listed "closest_row_vals/mid" 1 I32);
    mkC OSub MInt "row - 1" 1
      (Listed "closest_row_vals/mid" 1 I32)];
  mkCF "AbacusMachine.v" "LegalizerBase::getOrientation" [
];
  mkCF "AbacusMachine.v" "LegalizerBase::nbCells" [
    mkC (ONarrow MULong) MInt "cellWidth_.size()" 0
      (Excluded ESize "cellWidth_.size(): the number of cells of the legalizer; abacus_vals ranges over the cells without listing their count (a circuit has < 2^31 cells)")];
  mkCF "AbacusMachine.v" "LegalizerBase::nbRows" [
    mkC (ONarrow MULong) MInt "rows_.size()" 0
      (Listed "closest_row_vals/end" 0 I32)];
  mkCF "AbacusMachine.v" "Rectangle::height" [
    mkC OSub MInt "maxY - minY" 0
      (Listed "a_try_vals" 0 I32)];
  mkCF "AbacusMachine.v" "RowLegalizer::getPlacement" [
    mkC OAdd MInt "finalAbsPos[i] + cumWidth_[i]" 0
      (Listed "gp_aux_vals" 0 I32);
    mkC OAdd MInt "finalAbsPos[i] + cumWidth_[i + 1]" 0
      (Listed "gp_aux_vals" 1 I32)];
  mkCF "AbacusMachine.v" "RowLegalizer::remainingSpace" [
    mkC OSub MInt "end_ - begin_ - usedSpace()" 0
      (Listed "a_try_vals" 8 I32);
    mkC OSub MInt "end_ - begin_" 0
      (Listed "a_try_vals" 7 I32)];
  mkCF "AbacusMachine.v" "computeNorm(long long, long long, coloquinte::LegalizationModel)" [
    mkC OAdd MLLong "std::abs(x) + std::abs(y)" 0
      (Listed "a_try_vals" 4 I64);
    mkC OAbs MLLong "std::abs(x)" 0
      (Listed "a_try_vals" 2 I64);
    mkC OAbs MLLong "std::abs(y)" 0
      (Listed "a_try_vals" 3 I64);
    mkC (OFloatToInt MDouble) MLLong "std::sqrt(x * x + y * y)" 0
      (Excluded EUnreachableInModel "computeNorm<long long> is reached from tryPlace with LegalizationModel::L1 only (abacus_legalizer.cpp:72-73): this case of the switch is not executed");
    mkC OAdd MLLong "x * x + y * y" 0
      (Excluded EUnreachableInModel "computeNorm<long long> is reached from tryPlace with LegalizationModel::L1 only (abacus_legalizer.cpp:72-73): this case of the switch is not executed");
    mkC OMul MLLong "x * x" 0
      (Excluded EUnreachableInModel "computeNorm<long long> is reached from tryPlace with LegalizationModel::L1 only (abacus_legalizer.cpp:72-73): this case of the switch is not executed");
    mkC OMul MLLong "y * y" 0
      (Excluded EUnreachableInModel "computeNorm<long long> is reached from tryPlace with LegalizationModel::L1 only (abacus_legalizer.cpp:72-73): this case of the switch is not executed");
    mkC OAbs MLLong "std::abs(x)" 1
      (Excluded EUnreachableInModel "computeNorm<long long> is reached from tryPlace with LegalizationModel::L1 only (abacus_legalizer.cpp:72-73): this case of the switch is not executed");
    mkC OAbs MLLong "std::abs(y)" 1
      (Excluded EUnreachableInModel "computeNorm<long long> is reached from tryPlace with LegalizationModel::L1 only (abacus_legalizer.cpp:72-73): this case of the switch is not executed");
    mkC OAdd MLLong "std::abs(x) + std::abs(y)" 1
      (Excluded EUnreachableInModel "computeNorm<long long> is reached from tryPlace with LegalizationModel::L1 only (abacus_legalizer.cpp:72-73): this case of the switch is not executed");
    mkC OAbs MLLong "std::abs(x)" 2
      (Excluded EUnreachableInModel "computeNorm<long long> is reached from tryPlace with LegalizationModel::L1 only (abacus_legalizer.cpp:72-73): this case of the switch is not executed");
    mkC OAbs MLLong "std::abs(y)" 2
      (Excluded EUnreachableInModel "computeNorm<long long> is reached from tryPlace with LegalizationModel::L1 only (abacus_legalizer.cpp:72-73): this case of the switch is not executed");
    mkC OMul MLLong "z * z" 0
      (Excluded EUnreachableInModel "computeNorm<long long> is reached from tryPlace with LegalizationModel::L1 only (abacus_legalizer.cpp:72-73): this case of the switch is not executed");
    mkC OAdd MLLong "x * x + y * y" 1
      (Excluded EUnreachableInModel "computeNorm<long long> is reached from tryPlace with LegalizationModel::L1 only (abacus_legalizer.cpp:72-73): this case of the switch is not executed");
    mkC OMul MLLong "x * x" 1
      (Excluded EUnreachableInModel "computeNorm<long long> is reached from tryPlace with LegalizationModel::L1 only (abacus_legalizer.cpp:72-73): this case of the switch is not executed");
    mkC OMul MLLong "y * y" 1
      (Excluded EUnreachableInModel "computeNorm<long long> is reached from tryPlace with LegalizationModel::L1 only (abacus_legalizer.cpp:72-73): this case of the switch is not executed");
    mkC OAbs MLLong "std::abs(x)" 3
      (Excluded EUnreachableInModel "computeNorm<long long> is reached from tryPlace with LegalizationModel::L1 only (abacus_legalizer.cpp:72-73): this case of the switch is not executed");
    mkC OAbs MLLong "std::abs(y)" 3
      (Excluded EUnreachableInModel "computeNorm<long long> is reached from tryPlace with LegalizationModel::L1 only (abacus_legalizer.cpp:72-73): this case of the switch is not executed");
    mkC OMul MLLong "z * z" 1
      (Excluded EUnreachableInModel "computeNorm<long long> is reached from tryPlace with LegalizationModel::L1 only (abacus_legalizer.cpp:72-73): this case of the switch is not executed")];
  mkCF "AbacusMachine.v" "norm(int, int, coloquinte::LegalizationModel)" [
];
  mkCF "DensityMachine.v" "Circuit::area" [
    mkC OMul MLLong "static_cast<long long>(cellWidth_[cell]) * static_cast<long long>(cellHeight_[cell])" 0
      (Listed "cell_area_vals" 2 I64)];
  mkCF "DensityMachine.v" "Circuit::computeRowPlacementArea" [
    mkC (OFloatToInt MDouble) MLLong "w -= 2 * rowSideMargin * h" 0
      (Excluded EFloatInput "w -= 2 * rowSideMargin * h (double -> long long): the width left by the margin is the input wm of row_area_vals, with wm <= w as its only assumption");
    mkC OAddA MLLong "rowArea += w * h" 0
      (Listed "row_area_vals" 3 I64);
    mkC OMul MLLong "w * h" 0
      (Listed "row_area_vals" 2 I64)];
  mkCF "DensityMachine.v" "Circuit::expandCellsByFactor" [
    mkC (ONarrow MULong) MInt "(int)expansionFactor.size()" 0
      (Excluded ESize "(int)expansionFactor.size(), compared with nbCells()");
    mkC OPreInc MInt "++i" 0
      (Excluded ELoopCounter "counter of a for loop tested against nbCells() (an int) before every increment");
    mkC OAddA MLLong "cellArea += area(i)" 0
      (Listed "cell_area_vals" 3 I64);
    mkC (OFloatToInt MDouble) MLLong "expandedArea += static_cast<double>(expansionFactor[i]) * area(i)" 0
      (Excluded ECoveredElsewhere "Properties_links.c18_expanded_area_conversions_defined / c18_expanded_area_defined_by_factor_bound (listing LinksC18.expanded_conv_vals): finite factors in [0,E], movable areas in [0,2^53), E*movableArea + 2^12*nbCells <= 2^63; NOT implied by the accepted arguments: c18_expanded_area_overflow_witness (factor 2^33, UBSan coloquinte.cpp:749)");
    mkC OPreInc MInt "++i" 1
      (Excluded ELoopCounter "counter of a for loop tested against nbCells() (an int) before every increment");
    mkC (OFloatToInt MDouble) MInt "static_cast<int>(cellWidth_[i] * static_cast<double>(expansion[i]))" 0
      (Excluded ECoveredElsewhere "Properties_links.c18_factor_width_conversions_defined (listing LinksC18.factor_conv_vals): domain of c18f_factor_never_narrower and width_i*factor_i <= 2^31-1 for the caller's factors (c18_adjusted_factor_not_above); NOT implied by the accepted arguments: c18_width_conversion_overflow_witness (2^20*2048, UBSan coloquinte.cpp:783)")];
  mkCF "DensityMachine.v" "Circuit::expandCellsToDensity" [
    mkC OPreInc MInt "++i" 0
      (Excluded ELoopCounter "counter of a for loop tested against nbCells() (an int) before every increment");
    mkC OAddA MLLong "cellArea += area(i)" 0
      (Listed "cell_area_vals" 3 I64);
    mkC OPreInc MInt "++i" 1
      (Excluded ELoopCounter "counter of a for loop tested against nbCells() (an int) before every increment");
    mkC (OFloatToInt MDouble) MInt "(int)fracW" 0
      (Excluded ECoveredElsewhere "Properties_C18.c18f_density_conversion_defined (fw_ok): for a finite factor in [1, 2^63], 0 <= w < 2^31 and a finite cap in [0, 2^31), fracW (the capped product, binary64) is finite and in [0, 2^31): the conversion is defined. Not a machine-integer listing value");
    mkC OPreInc MInt "++newW" 0
      (Excluded ECoveredElsewhere "Properties_links.c18_density_increment_defined / c18_density_increments_are_ints (listing LinksC18.density_inc_vals): cap = maxRowWidth*maxExpandedWidth finite, cap + H + 1 <= 2^31, H >= every cell height; holds for 0 <= maxExpandedWidth <= 254 inside C07's magnitudes; NOT implied by the accepted arguments: c18_increment_overflow_witness (cap 2^31-1.5, UBSan coloquinte.cpp:719)")];
  mkCF "DensityMachine.v" "Circuit::isFixed" [
];
  mkCF "DensityMachine.v" "DensityGrid::DensityGrid(int, const std::vector<Rectangle> &)" [
];
  mkCF "DensityMachine.v" "DensityGrid::binCapacity(coloquinte::DensityGrid::BinGroup)" [
    mkC OPreInc MInt "++i" 0
      (Excluded ELoopCounter "counter of a for loop tested against g.maxXCoord (an int) before every increment");
    mkC OPreInc MInt "++j" 0
      (Excluded ELoopCounter "counter of a for loop tested against g.maxYCoord (an int) before every increment");
    mkC OAddA MLLong "ret += binCapacity_[i][j]" 0
      (Listed "sum_vals" 0 I64)];
  mkCF "DensityMachine.v" "DensityGrid::binLimitX" [
];
  mkCF "DensityMachine.v" "DensityGrid::binLimitY" [
];
  mkCF "DensityMachine.v" "DensityGrid::check" [
    mkC (ONarrow MULong) MInt "(int)binCapacity_.size()" 0
      (Excluded ESize "(int)binCapacity_.size() == nbBinsX()");
    mkC (ONarrow MULong) MInt "(int)bc.size()" 0
      (Excluded ESize "(int)bc.size() == nbBinsY()");
    mkC (ONarrow MULong) MInt "(int)binX_.size()" 0
      (Excluded ESize "(int)binX_.size()");
    mkC (ONarrow MULong) MInt "(int)binY_.size()" 0
      (Excluded ESize "(int)binY_.size()");
    mkC (ONarrow MULong) MInt "(int)binLimitX_.size()" 0
      (Excluded ESize "(int)binLimitX_.size()");
    mkC OAdd MInt "nbBinsX() + 1" 0
      (Listed "centers_vals" 3 I32);
    mkC (ONarrow MULong) MInt "(int)binLimitY_.size()" 0
      (Excluded ESize "(int)binLimitY_.size()");
    mkC OAdd MInt "nbBinsY() + 1" 0
      (Listed "centers_vals" 3 I32);
    mkC OPreInc MInt "++i" 0
      (Excluded ELoopCounter "counter of a for loop tested against nbBinsX() (an int) before every increment");
    mkC OAdd MInt "i + 1" 0
      (Listed "centers_vals" 3 I32);
    mkC OPreInc MInt "++i" 1
      (Excluded ELoopCounter "counter of a for loop tested against nbBinsY() (an int) before every increment");
    mkC OAdd MInt "i + 1" 1
      (Listed "centers_vals" 3 I32)];
  mkCF "DensityMachine.v" "DensityGrid::computePlacementArea" [
];
  mkCF "DensityMachine.v" "DensityGrid::fromIspdCircuit" [
    mkC OPreInc MInt "++i" 0
      (Excluded ELoopCounter "counter of a for loop tested against circuit.nbCells() (an int) before every increment");
    mkC (OFloatToInt MFloat) MInt "sideMargin * minCellHeight" 0
      (Excluded EFloatInput "int margin = sideMargin * minCellHeight (float -> int): margin is the input of clip_vals, assumed in [0, 2^30)");
    mkC OMul MInt "2 * margin" 0
      (Listed "clip_vals" 1 I32);
    mkC OAdd MInt "row.minX + margin" 0
      (Listed "clip_vals" 2 I32);
    mkC OSub MInt "row.maxX - margin" 0
      (Listed "clip_vals" 3 I32);
    mkC (OFloatToInt MFloat) MInt "sizeFactor * minCellHeight" 0
      (Excluded EFloatInput "DensityGrid ret(sizeFactor * minCellHeight, circuit.computePlacementArea()) on the path without free space (fix e25c850; float -> int): binSize is the input of grid_vals, assumed >= 1");
    mkC (OFloatToInt MFloat) MInt "sizeFactor * minCellHeight" 1
      (Excluded EFloatInput "DensityGrid(sizeFactor * minCellHeight, clippedRows) (float -> int): binSize is the input of grid_vals, assumed >= 1")];
  mkCF "DensityMachine.v" "DensityGrid::nbBinsX" [
    mkC (ONarrow MULong) MInt "binX_.size()" 0
      (Excluded ESize "binX_.size(): one centre per bin, i.e. binLimitX_.size() - 1, the value listed first by centers_vals")];
  mkCF "DensityMachine.v" "DensityGrid::nbBinsY" [
    mkC (ONarrow MULong) MInt "binY_.size()" 0
      (Excluded ESize "binY_.size(): one centre per bin, i.e. binLimitY_.size() - 1")];
  mkCF "DensityMachine.v" "DensityGrid::region" [
    mkC OAdd MInt "i + 1" 0
      (Listed "centers_vals" 3 I32);
    mkC OAdd MInt "j + 1" 0
      (Listed "centers_vals" 3 I32)];
  mkCF "DensityMachine.v" "DensityGrid::totalCapacity" [
    mkC OPreInc MInt "++i" 0
      (Excluded ELoopCounter "counter of a for loop tested against nbBinsX() (an int) before every increment");
    mkC OPreInc MInt "++j" 0
      (Excluded ELoopCounter "counter of a for loop tested against nbBinsY() (an int) before every increment");
    mkC OAddA MLLong "ret += binCapacity_[i][j]" 0
      (Listed "sum_vals" 0 I64)];
  mkCF "DensityMachine.v" "DensityGrid::updateBinCapacity()" [
    mkC (ONarrow MULong) MInt "binLimitX_.size() - 1" 0
      (Listed "centers_vals" 0 I32);
    mkC OUnsigned MULong "binLimitX_.size() - 1" 0
      (Excluded EIndex "the limit vector comes from computeSubdivisions (number + 1 >= 2 entries): size() - 1 does not wrap");
    mkC (ONarrow MULong) MInt "binLimitY_.size() - 1" 0
      (Listed "centers_vals" 0 I32);
    mkC OUnsigned MULong "binLimitY_.size() - 1" 0
      (Excluded EIndex "the limit vector comes from computeSubdivisions (number + 1 >= 2 entries): size() - 1 does not wrap");
    mkC OPreInc MInt "++i" 0
      (Excluded ELoopCounter "counter of a for loop tested against binLimitX_.size() - 1 (an int) before every increment");
    mkC OPreInc MInt "++j" 0
      (Excluded ELoopCounter "counter of a for loop tested against binLimitY_.size() - 1 (an int) before every increment");
    mkC OSub MInt "binLimitX_[i + 1] - binLimitX_[i]" 0
      (Listed "cap0_vals" 0 I32);
    mkC OAdd MInt "i + 1" 0
      (Listed "centers_vals" 3 I32);
    mkC OSub MInt "binLimitY_[j + 1] - binLimitY_[j]" 0
      (Listed "cap0_vals" 2 I32);
    mkC OAdd MInt "j + 1" 0
      (Listed "centers_vals" 3 I32);
    mkC OMul MLLong "w * h" 0
      (Listed "cap0_vals" 4 I64)];
  mkCF "DensityMachine.v" "DensityGrid::updateBinCapacity(const std::vector<Rectangle> &)" [
    mkC OPreInc MInt "++i" 0
      (Excluded ELoopCounter "counter of a for loop tested against nbBinsX() (an int) before every increment");
    mkC OPreInc MInt "++j" 0
      (Excluded ELoopCounter "counter of a for loop tested against nbBinsY() (an int) before every increment");
    mkC OPreInc MInt "++i" 1
      (Excluded ELoopCounter "counter of a for loop tested against nbBinsX() (an int) before every increment");
    mkC OPreInc MInt "++j" 1
      (Excluded ELoopCounter "counter of a for loop tested against nbBinsY() (an int) before every increment");
    mkC OAddA MLLong "binCapacity_[i][j] += Rectangle::intersection(reg, binReg).area()" 0
      (Listed "bin_acc_vals" 5 I64)];
  mkCF "DensityMachine.v" "DensityGrid::updateBinCenters" [
    mkC (ONarrow MULong) MInt "binLimitX_.size() - 1" 0
      (Listed "centers_vals" 0 I32);
    mkC OUnsigned MULong "binLimitX_.size() - 1" 0
      (Excluded EIndex "the limit vector comes from computeSubdivisions (number + 1 >= 2 entries): size() - 1 does not wrap");
    mkC OPreInc MInt "++i" 0
      (Listed "centers_vals" 3 I32);
    mkC OAdd MInt "binLimitX_[i] + binLimitX_[i + 1]" 0
      (Listed "centers_vals" 1 I32);
    mkC OAdd MInt "i + 1" 0
      (Listed "centers_vals" 3 I32);
    mkC (ONarrow MULong) MInt "binLimitY_.size() - 1" 0
      (Listed "centers_vals" 0 I32);
    mkC OUnsigned MULong "binLimitY_.size() - 1" 0
      (Excluded EIndex "the limit vector comes from computeSubdivisions (number + 1 >= 2 entries): size() - 1 does not wrap");
    mkC OPreInc MInt "++i" 1
      (Listed "centers_vals" 3 I32);
    mkC OAdd MInt "binLimitY_[i] + binLimitY_[i + 1]" 0
      (Listed "centers_vals" 1 I32);
    mkC OAdd MInt "i + 1" 1
      (Listed "centers_vals" 3 I32)];
  mkCF "DensityMachine.v" "DensityGrid::updateBinsToNumber" [
];
  mkCF "DensityMachine.v" "DensityGrid::updateBinsToSize" [
    mkC ODiv MInt "placementArea_.width() / maxSize" 0
      (Listed "nb_bins_vals" 1 I32);
    mkC ODiv MInt "placementArea_.height() / maxSize" 0
      (Listed "nb_bins_vals" 3 I32)];
  mkCF "DensityMachine.v" "HierarchicalDensityPlacement::binCapacity" [
];
  mkCF "DensityMachine.v" "HierarchicalDensityPlacement::binCells" [
];
  mkCF "DensityMachine.v" "HierarchicalDensityPlacement::binUsage" [
    mkC OAddA MLLong "usage += cellDemand(c)" 0
      (Listed "sum_vals" 0 I64)];
  mkCF "DensityMachine.v" "HierarchicalDensityPlacement::cellDemand" [
];
  mkCF "DensityMachine.v" "HierarchicalDensityPlacement::fromIspdCircuit" [
    mkC OPreInc MInt "++i" 0
      (Excluded ELoopCounter "counter of a for loop tested against circuit.nbCells() (an int) before every increment");
    mkC (ONarrow MLLong) MInt "0LL" 0
      (Excluded EConstant "demands.push_back(0LL) into std::vector<int>");
    mkC (ONarrow MLLong) MInt "circuit.area(i)" 0
      (Listed "demand_vals" 3 I32)];
  mkCF "DensityMachine.v" "HierarchicalDensityPlacement::getGroup" [
    mkC OAdd MInt "x + 1" 0
      (Excluded EIndex "xLimits_[levelX_][x + 1]: x < nbBinsX() (an int)");
    mkC OAdd MInt "y + 1" 0
      (Excluded EIndex "yLimits_[levelY_][y + 1]: y < nbBinsY()")];
  mkCF "DensityMachine.v" "HierarchicalDensityPlacement::nbBinsX()" [
];
  mkCF "DensityMachine.v" "HierarchicalDensityPlacement::nbBinsX(int)" [
    mkC (ONarrow MULong) MInt "xLimits_[lvl].size() - 1" 0
      (Excluded ESize "xLimits_[lvl].size() - 1: the number of bins of a view, at most that of the grid (centers_vals lists binLimitX_.size() - 1)");
    mkC OUnsigned MULong "xLimits_[lvl].size() - 1" 0
      (Excluded EIndex "every level of the hierarchy keeps at least the two outer limits: size() - 1 does not wrap")];
  mkCF "DensityMachine.v" "HierarchicalDensityPlacement::nbBinsY()" [
];
  mkCF "DensityMachine.v" "HierarchicalDensityPlacement::nbBinsY(int)" [
    mkC (ONarrow MULong) MInt "yLimits_[lvl].size() - 1" 0
      (Excluded ESize "yLimits_[lvl].size() - 1");
    mkC OUnsigned MULong "yLimits_[lvl].size() - 1" 0
      (Excluded EIndex "every level of the hierarchy keeps at least the two outer limits: size() - 1 does not wrap")];
  mkCF "DensityMachine.v" "HierarchicalDensityPlacement::nbCells" [
    mkC (ONarrow MULong) MInt "cellDemand_.size()" 0
      (Excluded ESize "cellDemand_.size(): the number of cells")];
  mkCF "DensityMachine.v" "HierarchicalDensityPlacement::totalDemand" [
    mkC OAddA MLLong "ret += demand" 0
      (Listed "sum_vals" 0 I64)];
  mkCF "DensityMachine.v" "HierarchicalDensityPlacement::totalOverflow" [
    mkC OPreInc MInt "++i" 0
      (Excluded ELoopCounter "counter of a for loop tested against nbBinsX() (an int) before every increment");
    mkC OPreInc MInt "++j" 0
      (Excluded ELoopCounter "counter of a for loop tested against nbBinsY() (an int) before every increment");
    mkC OAddA MLLong "ret += std::max(binUsage(i, j) - binCapacity(i, j), 0LL)" 0
      (Listed "overflow_vals" 1 I64);
    mkC OSub MLLong "binUsage(i, j) - binCapacity(i, j)" 0
      (Listed "overflow_vals" 0 I64)];
  mkCF "DensityMachine.v" "HierarchicalDensityPlacement::updateCellDemand(const coloquinte::Circuit &)" [
    mkC OPreInc MInt "++i" 0
      (Excluded ELoopCounter "counter of a for loop tested against circuit.nbCells() (an int) before every increment");
    mkC (ONarrow MLLong) MInt "0LL" 0
      (Excluded EConstant "demands.push_back(0LL)");
    mkC (ONarrow MLLong) MInt "circuit.area(i)" 0
      (Listed "demand_vals" 3 I32);
    mkC OPreInc MInt "++i" 1
      (Excluded ELoopCounter "counter of a for loop tested against nbCells() (an int) before every increment")];
  mkCF "DensityMachine.v" "Rectangle::area" [
    mkC OMul MLLong "(long long)width() * (long long)height()" 0
      (Listed "area_vals" 4 I64)];
  mkCF "DensityMachine.v" "Rectangle::height" [
    mkC OSub MInt "maxY - minY" 0
      (Listed "area_vals" 1 I32)];
  mkCF "DensityMachine.v" "Rectangle::intersection" [
];
  mkCF "DensityMachine.v" "Rectangle::intersects" [
];
  mkCF "DensityMachine.v" "Rectangle::width" [
    mkC OSub MInt "maxX - minX" 0
      (Listed "area_vals" 0 I32)];
  mkCF "HpwlMachine.v" "Circuit::hpwl" [
    mkC OPreInc MInt "++net" 0
      (Listed "nets_vals" 14 I32);
    mkC OPreInc MInt "++pin" 0
      (Listed "pin_vals" 7 I32);
    mkC OAdd MInt "x(cell) + pinXOffset(net, pin)" 0
      (Listed "pin_vals" 1 I32);
    mkC OAdd MInt "y(cell) + pinYOffset(net, pin)" 0
      (Listed "pin_vals" 2 I32);
    mkC OAddA MLLong "ret += (maxX - minX)" 0
      (Listed "net_vals" 10 I64);
    mkC OSub MInt "maxX - minX" 0
      (Listed "net_vals" 9 I32);
    mkC OAddA MLLong "ret += (maxY - minY)" 0
      (Listed "net_vals" 12 I64);
    mkC OSub MInt "maxY - minY" 0
      (Listed "net_vals" 11 I32)];
  mkCF "HpwlMachine.v" "Circuit::nbCells" [
    mkC (ONarrow MULong) MInt "cellWidth_.size()" 0
      (Excluded ESize "assert(cell < nbCells()) in x() / y(): the number of cells; hpwl_dom bounds pins and nets, not cells (a circuit has < 2^31 cells)")];
  mkCF "HpwlMachine.v" "Circuit::nbNets" [
    mkC (ONarrow MULong) MInt "netLimits_.size() - 1" 0
      (Excluded ESize "the number of nets, netLimits_.size() - 1: hpwl_dom asks for fewer than 2^31 nets; the listing reaches the same value as its last `net + 1`");
    mkC OUnsigned MULong "netLimits_.size() - 1" 0
      (Excluded EIndex "netLimits_ always holds the leading 0 (constructor, setNets): size() - 1 does not wrap")];
  mkCF "HpwlMachine.v" "Circuit::nbPinsNet" [
    mkC OSub MInt "netLimits_[net + 1] - netLimits_[net]" 0
      (Listed "net_vals" 0 I32);
    mkC OAdd MInt "net + 1" 0
      (Listed "nets_vals" 14 I32)];
  mkCF "HpwlMachine.v" "Circuit::orientation" [
];
  mkCF "HpwlMachine.v" "Circuit::pinCell" [
    mkC OAdd MInt "netLimits_[net] + i" 0
      (Listed "pin_vals" 0 I32)];
  mkCF "HpwlMachine.v" "Circuit::pinXOffset" [
    mkC OAdd MInt "netLimits_[net] + i" 0
      (Listed "pin_vals" 0 I32);
    mkC OAdd MInt "netLimits_[net] + i" 1
      (Listed "pin_vals" 0 I32);
    mkC OSub MInt "placedWidth(cell) - offs" 0
      (Listed "pin_vals/flipped" 1 I32)];
  mkCF "HpwlMachine.v" "Circuit::pinYOffset" [
    mkC OAdd MInt "netLimits_[net] + i" 0
      (Listed "pin_vals" 0 I32);
    mkC OAdd MInt "netLimits_[net] + i" 1
      (Listed "pin_vals" 0 I32);
    mkC OSub MInt "placedHeight(cell) - offs" 0
      (Listed "pin_vals/flipped" 3 I32)];
  mkCF "HpwlMachine.v" "Circuit::placedHeight" [
];
  mkCF "HpwlMachine.v" "Circuit::placedWidth" [
];
  mkCF "HpwlMachine.v" "Circuit::x" [
];
  mkCF "HpwlMachine.v" "Circuit::y" [
];
  mkCF "HpwlMachine.v" "IncrNetModel::computeNetMinMaxPos()" [
    mkC OPreInc MInt "++net" 0
      (Excluded ELoopCounter "counter of a for loop tested against nbNets() (an int) before every increment")];
  mkCF "HpwlMachine.v" "IncrNetModel::computeNetMinMaxPos(int)" [
    mkC OPreInc MInt "++j" 0
      (Excluded ELoopCounter "counter of a for loop tested against nbNetPins(net) (an int) before every increment");
    mkC OAdd MInt "cellPos_[c] + netPinOffset(net, j)" 0
      (Listed "mm_pins_vals" 0 I32)];
  mkCF "HpwlMachine.v" "IncrNetModel::computeValue" [
    mkC OPreInc MInt "++net" 0
      (Excluded ELoopCounter "counter of a for loop tested against nbNets() (an int) before every increment");
    mkC OAddA MLLong "ret += minMaxPos.second - minMaxPos.first" 0
      (Listed "value_vals" 1 I64);
    mkC OSub MInt "minMaxPos.second - minMaxPos.first" 0
      (Listed "value_vals" 0 I32)];
  mkCF "HpwlMachine.v" "IncrNetModel::nbCellPins" [
    mkC OSub MInt "cellLimits_[cell + 1] - cellLimits_[cell]" 0
      (Excluded EIndex "cellLimits_[cell + 1] - cellLimits_[cell]: an offset into the CSR arrays, non-negative and at most the number of pins (an int held by the same array)");
    mkC OAdd MInt "cell + 1" 0
      (Excluded EIndex "cell + 1 (cell < nbCells()): an offset into the CSR arrays, non-negative and at most the number of pins (an int held by the same array)")];
  mkCF "HpwlMachine.v" "IncrNetModel::nbCells" [
    mkC (ONarrow MULong) MInt "cellPos_.size()" 0
      (Excluded ESize "cellPos_.size(): the number of cells of the net model (assert of nbCellPins)")];
  mkCF "HpwlMachine.v" "IncrNetModel::nbNetPins" [
    mkC OSub MInt "netLimits_[net + 1] - netLimits_[net]" 0
      (Excluded EIndex "netLimits_[net + 1] - netLimits_[net]: an offset into the CSR arrays, non-negative and at most the number of pins (an int held by the same array)");
    mkC OAdd MInt "net + 1" 0
      (Excluded EIndex "net + 1 (net < nbNets()): an offset into the CSR arrays, non-negative and at most the number of pins (an int held by the same array)")];
  mkCF "HpwlMachine.v" "IncrNetModel::nbNets" [
    mkC (ONarrow MULong) MInt "netLimits_.size() - 1" 0
      (Excluded ESize "the number of nets: inets_dom asks for fewer than 2^31");
    mkC OUnsigned MULong "netLimits_.size() - 1" 0
      (Excluded EIndex "netLimits_ holds the leading 0: size() - 1 does not wrap")];
  mkCF "HpwlMachine.v" "IncrNetModel::netPinOffset" [
    mkC OAdd MInt "netLimits_[net] + pin" 0
      (Excluded EIndex "netLimits_[net] + pin: an offset into the CSR arrays, non-negative and at most the number of pins (an int held by the same array)")];
  mkCF "HpwlMachine.v" "IncrNetModel::pinCell" [
    mkC OAdd MInt "netLimits_[net] + pin" 0
      (Excluded EIndex "netLimits_[net] + pin: an offset into the CSR arrays, non-negative and at most the number of pins (an int held by the same array)")];
  mkCF "HpwlMachine.v" "IncrNetModel::pinNet" [
    mkC OAdd MInt "cellLimits_[cell] + pin" 0
      (Excluded EIndex "cellLimits_[cell] + pin: an offset into the CSR arrays, non-negative and at most the number of pins (an int held by the same array)")];
  mkCF "HpwlMachine.v" "IncrNetModel::recomputeNet" [
    mkC OSub MInt "oldMinMaxPos.second - oldMinMaxPos.first" 0
      (Listed "recompute_vals" 3 I32);
    mkC OSub MInt "newMinMaxPos.second - newMinMaxPos.first" 0
      (Listed "recompute_vals" 4 I32);
    mkC OAddA MLLong "value_ += newValue - oldValue" 0
      (Listed "recompute_vals" 6 I64);
    mkC OSub MInt "newValue - oldValue" 0
      (Listed "recompute_vals" 5 I32)];
  mkCF "HpwlMachine.v" "IncrNetModel::updateCellPos" [
    mkC OPreInc MInt "++i" 0
      (Excluded ELoopCounter "counter of a for loop tested against nbCellPins(cell) (an int) before every increment")];
  mkCF "MovesMachine.v" "DetailedPlacement::boundaryAfter(int)" [
];
  mkCF "MovesMachine.v" "DetailedPlacement::boundaryAfter(int, int)" [
];
  mkCF "MovesMachine.v" "DetailedPlacement::boundaryBefore(int)" [
    mkC OAdd MInt "cellX(pred) + cellWidth(pred)" 0
      (Listed "can_swap_vals" 0 I32)];
  mkCF "MovesMachine.v" "DetailedPlacement::boundaryBefore(int, int)" [
];
  mkCF "MovesMachine.v" "DetailedPlacement::canInsert" [
    mkC OSub MInt "siteEnd(row, pred) - siteBegin(row, pred)" 0
      (Listed "can_insert_vals" 2 I32)];
  mkCF "MovesMachine.v" "DetailedPlacement::canPlace" [
    mkC OAdd MInt "x + cellWidth(c)" 0
      (Listed "place_vals" 2 I32)];
  mkCF "MovesMachine.v" "DetailedPlacement::canSwap" [
    mkC OSub MInt "e2 - b2" 0
      (Listed "can_swap_vals" 4 I32);
    mkC OSub MInt "e1 - b1" 0
      (Listed "can_swap_vals" 5 I32)];
  mkCF "MovesMachine.v" "DetailedPlacement::cellNext" [
];
  mkCF "MovesMachine.v" "DetailedPlacement::cellPos" [
];
  mkCF "MovesMachine.v" "DetailedPlacement::cellPred" [
];
  mkCF "MovesMachine.v" "DetailedPlacement::cellRow" [
];
  mkCF "MovesMachine.v" "DetailedPlacement::cellWidth" [
];
  mkCF "MovesMachine.v" "DetailedPlacement::cellX" [
];
  mkCF "MovesMachine.v" "DetailedPlacement::insert" [
];
  mkCF "MovesMachine.v" "DetailedPlacement::isPlaced" [
];
  mkCF "MovesMachine.v" "DetailedPlacement::nbCells" [
    mkC (ONarrow MULong) MInt "cellWidth_.size()" 0
      (Excluded ESize "cellWidth_.size(): the number of cells (asserts of the accessors); a circuit has < 2^31 cells")];
  mkCF "MovesMachine.v" "DetailedPlacement::nbRows" [
    mkC (ONarrow MULong) MInt "rows_.size()" 0
      (Excluded ESize "rows_.size(): the number of rows (asserts of the accessors)")];
  mkCF "MovesMachine.v" "DetailedPlacement::place" [
];
  mkCF "MovesMachine.v" "DetailedPlacement::positionOnInsert" [
    mkC ODiv MInt "(siteEnd(row, pred) - cellWidth(c) + siteBegin(row, pred)) / 2" 0
      (Listed "insert_vals" 7 I32);
    mkC OAdd MInt "siteEnd(row, pred) - cellWidth(c) + siteBegin(row, pred)" 0
      (Listed "insert_vals" 6 I32);
    mkC OSub MInt "siteEnd(row, pred) - cellWidth(c)" 0
      (Listed "insert_vals" 4 I32)];
  mkCF "MovesMachine.v" "DetailedPlacement::positionsOnSwap" [
    mkC OAdd MInt "p2.x + cellWidth(c1)" 0
      (Listed "swap_vals/adjacent1" 1 I32);
    mkC OAdd MInt "p1.x + cellWidth(c2)" 0
      (Listed "swap_vals/adjacent2" 1 I32);
    mkC ODiv MInt "(boundaryBefore(c2) + boundaryAfter(c2) - cellWidth(c1)) / 2" 0
      (Listed "swap_vals/apart" 10 I32);
    mkC OSub MInt "boundaryBefore(c2) + boundaryAfter(c2) - cellWidth(c1)" 0
      (Listed "swap_vals/apart" 9 I32);
    mkC OAdd MInt "boundaryBefore(c2) + boundaryAfter(c2)" 0
      (Listed "swap_vals/apart" 8 I32);
    mkC ODiv MInt "(boundaryBefore(c1) + boundaryAfter(c1) - cellWidth(c2)) / 2" 0
      (Listed "swap_vals/apart" 15 I32);
    mkC OSub MInt "boundaryBefore(c1) + boundaryAfter(c1) - cellWidth(c2)" 0
      (Listed "swap_vals/apart" 14 I32);
    mkC OAdd MInt "boundaryBefore(c1) + boundaryAfter(c1)" 0
      (Listed "swap_vals/apart" 13 I32)];
  mkCF "MovesMachine.v" "DetailedPlacement::rowFirstCell" [
];
  mkCF "MovesMachine.v" "DetailedPlacement::rowY" [
];
  mkCF "MovesMachine.v" "DetailedPlacement::siteBegin" [
    mkC OAdd MInt "cellX(pred) + cellWidth(pred)" 0
      (Listed "place_vals" 1 I32)];
  mkCF "MovesMachine.v" "DetailedPlacement::siteEnd" [
];
  mkCF "MovesMachine.v" "DetailedPlacement::swap" [
];
  mkCF "MovesMachine.v" "DetailedPlacement::unplace" [
];
  mkCF "MovesMachine.v" "rowAllowed" [
];
  mkCF "RowLegMachine.v" "RowLegalizer::getCost" [
];
  mkCF "RowLegMachine.v" "RowLegalizer::getDisplacement" [
    mkC OSub MInt "targetPos - usedSpace()" 0
      (Listed "gd_vals" 0 I32);
    mkC ONeg MInt "-width" 0
      (Listed "gd_vals" 1 I32);
    mkC OSub MInt "end_ - usedSpace() - width" 0
      (Listed "gd_vals" 3 I32);
    mkC OSub MInt "end_ - usedSpace()" 0
      (Listed "gd_vals" 2 I32);
    mkC OAddA MLLong "cur_cost += static_cast<long long>(old_pos - cur_pos) * (slope + width)" 0
      (Listed "pop_vals" 3 I64);
    mkC OMul MLLong "static_cast<long long>(old_pos - cur_pos) * (slope + width)" 0
      (Listed "pop_vals" 2 I64);
    mkC OSub MInt "old_pos - cur_pos" 0
      (Listed "pop_vals" 0 I32);
    mkC OAdd MInt "slope + width" 0
      (Listed "pop_vals" 1 I32);
    mkC OAddA MInt "slope += bounds.top().weight" 0
      (Listed "pop_vals" 4 I32);
    mkC OSub MInt "end_ - usedSpace() - width" 1
      (Listed "gd_vals" 3 I32);
    mkC OSub MInt "end_ - usedSpace()" 1
      (Listed "gd_vals" 2 I32);
    mkC OAddA MLLong "cur_cost += static_cast<long long>(cur_pos - finalAbsPos) * (slope + width)" 0
      (Listed "gd_vals" 7 I64);
    mkC OMul MLLong "static_cast<long long>(cur_pos - finalAbsPos) * (slope + width)" 0
      (Listed "gd_vals" 6 I64);
    mkC OSub MInt "cur_pos - finalAbsPos" 0
      (Listed "gd_vals" 4 I32);
    mkC OAdd MInt "slope + width" 1
      (Listed "gd_vals" 5 I32);
    mkC OSub MInt "end_ - usedSpace() - width" 2
      (Listed "gd_vals" 3 I32);
    mkC OSub MInt "end_ - usedSpace()" 2
      (Listed "gd_vals" 2 I32);
    mkC OAdd MInt "width + usedSpace()" 0
      (Listed "gd_vals" 8 I32);
    mkC OAdd MInt "2 * width + std::min(slope, 0)" 0
      (Listed "gd_vals" 10 I32);
    mkC OMul MInt "2 * width" 0
      (Listed "gd_vals" 9 I32);
    mkC OAdd MLLong "cur_cost + static_cast<long long>(width) * std::abs(finalAbsPos - targetAbsPos)" 0
      (Listed "gd_vals" 14 I64);
    mkC OMul MLLong "static_cast<long long>(width) * std::abs(finalAbsPos - targetAbsPos)" 0
      (Listed "gd_vals" 13 I64);
    mkC OAbs MInt "std::abs(finalAbsPos - targetAbsPos)" 0
      (Listed "gd_vals" 12 I32);
    mkC OSub MInt "finalAbsPos - targetAbsPos" 0
      (Listed "gd_vals" 11 I32)];
  mkCF "RowLegMachine.v" "RowLegalizer::push" [
];
  mkCF "RowLegMachine.v" "RowLegalizer::usedSpace" [
];
  mkCF "SspMachine.v" "TransportationProblem::increaseCapacity" [
    mkC OSub MLLong "totalDemand() - totalCapacity()" 0
      (Listed "increase_capacity_vals" 3 I64);
    mkC ODiv MLLong "missing / nbSinks()" 0
      (Listed "increase_capacity_vals" 6 I64);
    mkC OPreInc MInt "++i" 0
      (Listed "increase_capacity_vals" 12 I32);
    mkC OAddA MLLong "capacities_[i] += added" 0
      (Listed "increase_capacity_vals" 7 I64);
    mkC OSub MLLong "missing - added * nbSinks()" 0
      (Listed "increase_capacity_vals" 10 I64);
    mkC OMul MLLong "added * nbSinks()" 0
      (Listed "increase_capacity_vals" 9 I64);
    mkC OPreInc MInt "++i" 1
      (Listed "increase_capacity_vals" 12 I32);
    mkC OAddA MLLong "capacities_[i] += 1" 0
      (Listed "increase_capacity_vals" 11 I64)];
  mkCF "SspMachine.v" "TransportationProblem::movingCost" [
    mkC OSub MInt "costs_[snk2][src] - costs_[snk1][src]" 0
      (Listed "moving_vals" 0 I32)];
  mkCF "SspMachine.v" "TransportationProblem::nbSinks" [
    mkC (ONarrow MULong) MInt "capacities_.size()" 0
      (Listed "increase_capacity_vals" 4 I32)];
  mkCF "SspMachine.v" "TransportationProblem::nbSources" [
    mkC (ONarrow MULong) MInt "demands_.size()" 0
      (Excluded ESize "demands_.size(): the number of sources; no listing states it (cost_dom bounds only the number of sinks); a problem of the placer has one source per cell, < 2^31")];
  mkCF "SspMachine.v" "TransportationProblem::totalCapacity" [
];
  mkCF "SspMachine.v" "TransportationProblem::totalDemand" [
];
  mkCF "SspMachineRun.v" "TransportationProblem::allocation" [
];
  mkCF "SspMachineRun.v" "TransportationProblem::cost" [
];
  mkCF "SspMachineRun.v" "TransportationProblem::demand" [
];
  mkCF "SspMachineRun.v" "TransportationProblem::resetAllocations" [
];
  mkCF "SspMachineRun.v" "TransportationSuccessiveShortestPath::bestSink" [
    mkC OPreInc MInt "++i" 0
      (Excluded ELoopCounter "counter of a for loop tested against pb_.nbSinks() (an int) before every increment");
    mkC OAdd MInt "sendingCost_[i] + pb_.cost(i, src)" 0
      (Listed "best_sink_vals" 0 I32)];
  mkCF "SspMachineRun.v" "TransportationSuccessiveShortestPath::initQueues" [
    mkC OPreInc MInt "++src" 0
      (Excluded ELoopCounter "counter of a for loop tested against pb_.nbSources() (an int) before every increment");
    mkC OPreInc MInt "++dest" 0
      (Excluded ELoopCounter "counter of a for loop tested against pb_.nbSinks() (an int) before every increment")];
  mkCF "SspMachineRun.v" "TransportationSuccessiveShortestPath::movingCost" [
    mkC (ONarrow MLLong) MInt "0LL" 0
      (Excluded EConstant "return 0LL as CostType")];
  mkCF "SspMachineRun.v" "TransportationSuccessiveShortestPath::run" [
];
  mkCF "SspMachineRun.v" "TransportationSuccessiveShortestPath::sendSource(int)" [
    mkC OSubA MLLong "remaining -= sent" 0
      (Listed "send_body_vals" 3 I64)];
  mkCF "SspMachineRun.v" "TransportationSuccessiveShortestPath::sendSource(int, int, coloquinte::DemandType)" [
    mkC OAddA MLLong "pb_.allocations_[snk1][sentSrc] += maxSent" 0
      (Listed "walk2_step_vals" 0 I64);
    mkC OSubA MLLong "pb_.allocations_[snk1][sentSrc] -= maxSent" 0
      (Listed "walk2_step_vals" 1 I64);
    mkC OAddA MLLong "pb_.allocations_[snk1][sentSrc] += maxSent" 1
      (Listed "send3_vals" 0 I64);
    mkC OSubA MLLong "remainingCapa_[snk1] -= maxSent" 0
      (Listed "send3_vals" 1 I64)];
  mkCF "SspMachineRun.v" "TransportationSuccessiveShortestPath::sentQuantity" [
];
  mkCF "SspMachineRun.v" "TransportationSuccessiveShortestPath::sentSource" [
];
  mkCF "SspMachineRun.v" "TransportationSuccessiveShortestPath::sortedSourcesByDemand" [
    mkC OPreInc MInt "++i" 0
      (Excluded ELoopCounter "counter of a for loop tested against pb_.nbSources() (an int) before every increment");
    mkC ONeg MLLong "-pb_.demand(i)" 0
      (Listed "ssp_run_vals" 0 I64)];
  mkCF "SspMachineRun.v" "TransportationSuccessiveShortestPath::updateDestQueues" [
    mkC OPreInc MInt "++dst" 0
      (Excluded ELoopCounter "counter of a for loop tested against pb_.nbSinks() (an int) before every increment")];
  mkCF "SspMachineRun.v" "TransportationSuccessiveShortestPath::updateSinkQueues" [
    mkC OPreInc MInt "++dst" 0
      (Excluded ELoopCounter "counter of a for loop tested against pb_.nbSinks() (an int) before every increment")];
  mkCF "SspMachineRun.v" "TransportationSuccessiveShortestPath::updateTree" [
    mkC OPreInc MInt "++i" 0
      (Excluded ELoopCounter "counter of a for loop tested against pb_.nbSinks() (an int) before every increment");
    mkC (ONarrow MLLong) MInt "0LL" 0
      (Excluded EConstant "sendingCost_[i] = 0LL");
    mkC OPreInc MInt "++i" 1
      (Excluded ELoopCounter "counter of a for loop tested against pb_.nbSinks() (an int) before every increment");
    mkC OPreInc MInt "++i" 2
      (Excluded ELoopCounter "counter of a for loop tested against pb_.nbSinks() (an int) before every increment");
    mkC OAdd MInt "movingCost(i, bestVisit) + sendingCost_[bestVisit]" 0
      (Listed "relax_vals" 0 I32)];
  mkCF "SubdivMachine.v" "computeSubdivisions" [
    mkC OAdd MInt "number + 1" 0
      (Listed "subdiv_iter_vals" 0 I32);
    mkC OPreInc MInt "++i" 0
      (Listed "subdiv_iter_vals" 7 I32);
    mkC OAdd MInt "min + static_cast<int>(static_cast<long long>(i) * (max - min) / number)" 0
      (Listed "subdiv_iter_vals" 6 I32);
    mkC (ONarrow MLLong) MInt "static_cast<int>(static_cast<long long>(i) * (max - min) / number)" 0
      (Listed "subdiv_iter_vals" 5 I32);
    mkC ODiv MLLong "static_cast<long long>(i) * (max - min) / number" 0
      (Listed "subdiv_iter_vals" 4 I64);
    mkC OMul MLLong "static_cast<long long>(i) * (max - min)" 0
      (Listed "subdiv_iter_vals" 3 I64);
    mkC OSub MInt "max - min" 0
      (Listed "subdiv_iter_vals" 2 I32);
    mkC (ONarrow MULong) MInt "(int)ret.size()" 0
      (Excluded ESize "assert((int)ret.size() == number + 1): the vector holds number + 1 <= INT_MAX elements (subdiv_dom: number < 2147483647)");
    mkC OAdd MInt "number + 1" 1
      (Listed "subdiv_iter_vals" 0 I32)];
  mkCF "Transp1dMachine.v" "Transportation1d::Transportation1d(const std::vector<long long> &, const std::vector<long long> &, const std::vector<long long> &, const std::vector<long long> &)" [
];
  mkCF "Transp1dMachine.v" "Transportation1d::Transportation1d(std::vector<long long> &&, std::vector<long long> &&, std::vector<long long> &&, std::vector<long long> &&)" [
];
  mkCF "Transp1dMachine.v" "Transportation1d::assign" [
];
  mkCF "Transp1dMachine.v" "Transportation1d::balanceDemand" [
    mkC OSub MLLong "totalSupply() - totalDemand()" 0
      (Listed "balance_vals" 5 I64);
    mkC ODiv MLLong "missing / nbSinks()" 0
      (Listed "balance_vals" 7 I64);
    mkC OPreInc MInt "++i" 0
      (Listed "balance_vals" 10 I32);
    mkC OAddA MLLong "d[i] += added" 0
      (Listed "balance_vals" 8 I64);
    mkC OSub MLLong "missing - added * nbSinks()" 0
      (Listed "balance_vals" 13 I64);
    mkC OMul MLLong "added * nbSinks()" 0
      (Listed "balance_vals" 12 I64);
    mkC OPreInc MInt "++i" 1
      (Listed "balance_vals" 15 I32);
    mkC OAddA MLLong "d[i] += 1LL" 0
      (Listed "balance_vals" 14 I64)];
  mkCF "Transp1dMachine.v" "Transportation1d::check" [
    mkC (ONarrow MULong) MInt "(int)u.size()" 0
      (Listed "total_vals" 0 I32);
    mkC (ONarrow MULong) MInt "(int)v.size()" 0
      (Listed "total_vals" 0 I32);
    mkC (ONarrow MULong) MInt "(int)s.size()" 0
      (Excluded ESize "(int)s.size(), compared with nbSources(): t1d_dom asks for equal lengths, fewer than 2^31 - 1 sources + sinks");
    mkC (ONarrow MULong) MInt "(int)d.size()" 0
      (Excluded ESize "(int)d.size(), compared with nbSinks(): t1d_dom asks for equal lengths")];
  mkCF "Transp1dMachine.v" "Transportation1d::checkNonZeroCapacities" [
];
  mkCF "Transp1dMachine.v" "Transportation1d::checkSorted" [
    mkC OAdd MInt "i + 1" 0
      (Excluded ELoopCounter "for (int i = 0; i + 1 < nbSources(); ++i): i + 1 is at most nbSources() (an int), ++i only after the test");
    mkC OPreInc MInt "++i" 0
      (Excluded ELoopCounter "for (int i = 0; i + 1 < nbSources(); ++i): i + 1 is at most nbSources() (an int), ++i only after the test");
    mkC OAdd MInt "i + 1" 1
      (Excluded ELoopCounter "for (int i = 0; i + 1 < nbSources(); ++i): i + 1 is at most nbSources() (an int), ++i only after the test");
    mkC OAdd MInt "i + 1" 2
      (Excluded ELoopCounter "for (int i = 0; i + 1 < nbSinks(); ++i): i + 1 is at most nbSinks() (an int), ++i only after the test");
    mkC OPreInc MInt "++i" 1
      (Excluded ELoopCounter "for (int i = 0; i + 1 < nbSinks(); ++i): i + 1 is at most nbSinks() (an int), ++i only after the test");
    mkC OAdd MInt "i + 1" 3
      (Excluded ELoopCounter "for (int i = 0; i + 1 < nbSinks(); ++i): i + 1 is at most nbSinks() (an int), ++i only after the test")];
  mkCF "Transp1dMachine.v" "Transportation1d::checkStrictlySorted" [
    mkC OAdd MInt "i + 1" 0
      (Excluded ELoopCounter "for (int i = 0; i + 1 < nbSources(); ++i): i + 1 is at most nbSources() (an int), ++i only after the test");
    mkC OPreInc MInt "++i" 0
      (Excluded ELoopCounter "for (int i = 0; i + 1 < nbSources(); ++i): i + 1 is at most nbSources() (an int), ++i only after the test");
    mkC OAdd MInt "i + 1" 1
      (Excluded ELoopCounter "for (int i = 0; i + 1 < nbSources(); ++i): i + 1 is at most nbSources() (an int), ++i only after the test");
    mkC OAdd MInt "i + 1" 2
      (Excluded ELoopCounter "for (int i = 0; i + 1 < nbSinks(); ++i): i + 1 is at most nbSinks() (an int), ++i only after the test");
    mkC OPreInc MInt "++i" 1
      (Excluded ELoopCounter "for (int i = 0; i + 1 < nbSinks(); ++i): i + 1 is at most nbSinks() (an int), ++i only after the test");
    mkC OAdd MInt "i + 1" 3
      (Excluded ELoopCounter "for (int i = 0; i + 1 < nbSinks(); ++i): i + 1 is at most nbSinks() (an int), ++i only after the test")];
  mkCF "Transp1dMachine.v" "Transportation1d::cost(int, int)" [
    mkC OAbs MLLong "std::abs(u[i] - v[j])" 0
      (Listed "cost_vals" 1 I64);
    mkC OSub MLLong "u[i] - v[j]" 0
      (Listed "cost_vals" 0 I64)];
  mkCF "Transp1dMachine.v" "Transportation1d::nbSinks" [
    mkC (ONarrow MULong) MInt "v.size()" 0
      (Listed "total_vals" 0 I32)];
  mkCF "Transp1dMachine.v" "Transportation1d::nbSources" [
    mkC (ONarrow MULong) MInt "u.size()" 0
      (Listed "total_vals" 0 I32)];
  mkCF "Transp1dMachine.v" "Transportation1d::sinkDemand" [
];
  mkCF "Transp1dMachine.v" "Transportation1d::sinkPosition" [
];
  mkCF "Transp1dMachine.v" "Transportation1d::sourcePosition" [
];
  mkCF "Transp1dMachine.v" "Transportation1d::sourceSupply" [
];
  mkCF "Transp1dMachine.v" "Transportation1d::totalDemand" [
    mkC OPreInc MInt "++i" 0
      (Excluded ELoopCounter "counter of a for loop tested against nbSinks() (an int) before every increment");
    mkC OAddA MLLong "ret += d[i]" 0
      (Listed "total_vals" 1 I64)];
  mkCF "Transp1dMachine.v" "Transportation1d::totalSupply" [
    mkC OPreInc MInt "++i" 0
      (Excluded ELoopCounter "counter of a for loop tested against nbSources() (an int) before every increment");
    mkC OAddA MLLong "ret += s[i]" 0
      (Listed "total_vals" 1 I64)];
  mkCF "Transp1dMachine.v" "Transportation1dSolver::Transportation1dSolver" [
];
  mkCF "Transp1dMachine.v" "Transportation1dSolver::check" [
    mkC (ONarrow MULong) MInt "(int)S.size()" 0
      (Excluded ESize "(int)S.size() == nbSources() + 1: setupData pushed one prefix sum per source");
    mkC OAdd MInt "nbSources() + 1" 0
      (Listed "setup_vals" 3 I32);
    mkC (ONarrow MULong) MInt "(int)D.size()" 0
      (Excluded ESize "(int)D.size() == nbSinks() + 1");
    mkC OAdd MInt "nbSinks() + 1" 0
      (Listed "setup_vals" 0 I32);
    mkC (ONarrow MULong) MInt "(int)p.size()" 0
      (Listed "solution_vals" 0 I32)];
  mkCF "Transp1dMachine.v" "Transportation1dSolver::computeAssignment" [
    mkC OAdd MLLong "p[i] + S[i] + s[i] / 2" 0
      (Listed "assignment_vals" 2 I64);
    mkC OAdd MLLong "p[i] + S[i]" 0
      (Listed "assignment_vals" 0 I64);
    mkC ODiv MLLong "s[i] / 2" 0
      (Listed "assignment_vals" 1 I64);
    mkC OAdd MInt "currentSink + 1" 0
      (Listed "assignment_vals" 3 I32);
    mkC OPreInc MInt "++currentSink" 0
      (Listed "assignment_vals" 3 I32)];
  mkCF "Transp1dMachine.v" "Transportation1dSolver::computeSolution" [
    mkC (ONarrow MULong) MInt "(int)p.size()" 0
      (Listed "solution_vals" 0 I32);
    mkC OAdd MLLong "S[i] + p[i]" 0
      (Listed "solution_vals" 3 I64);
    mkC OAdd MLLong "S[i + 1] + p[i]" 0
      (Listed "solution_vals" 4 I64);
    mkC OAdd MInt "i + 1" 0
      (Listed "solution_vals" 1 I32);
    mkC OAdd MInt "j + 1" 0
      (Listed "solution_vals" 2 I32);
    mkC OSub MLLong "e - b" 0
      (Listed "solution_vals" 5 I64);
    mkC OSub MLLong "e - b" 1
      (Listed "solution_vals" 5 I64);
    mkC OPreInc MInt "++i" 0
      (Listed "solution_vals" 1 I32);
    mkC OPreInc MInt "++j" 0
      (Listed "solution_vals" 2 I32)];
  mkCF "Transp1dMachine.v" "Transportation1dSolver::delta" [
    mkC OSub MLLong "cost(i, j + 1) + cost(i + 1, j) - cost(i + 1, j + 1) - cost(i, j)" 0
      (Listed "delta_vals" 12 I64);
    mkC OSub MLLong "cost(i, j + 1) + cost(i + 1, j) - cost(i + 1, j + 1)" 0
      (Listed "delta_vals" 11 I64);
    mkC OAdd MLLong "cost(i, j + 1) + cost(i + 1, j)" 0
      (Listed "delta_vals" 10 I64);
    mkC OAdd MInt "j + 1" 0
      (Listed "delta_vals" 0 I32);
    mkC OAdd MInt "i + 1" 0
      (Listed "delta_vals" 1 I32);
    mkC OAdd MInt "i + 1" 1
      (Listed "delta_vals" 1 I32);
    mkC OAdd MInt "j + 1" 1
      (Listed "delta_vals" 0 I32)];
  mkCF "Transp1dMachine.v" "Transportation1dSolver::flushPositions" [
    mkC OSub MLLong "totalDemand() - S[p.size()]" 0
      (Listed "t1d_run_vals/rev" 3 I64);
    mkC (ONarrow MULong) MInt "p.size() - 1" 0
      (Listed "t1d_run_vals/rev" 0 I32);
    mkC OUnsigned MULong "p.size() - 1" 0
      (Excluded EIndex "p.size() - 1 in size_t: wraps when p is empty and converts to -1 (modular, defined); the listing holds the int result (the last values of run_vals, k - 1 for k = 0 .. p.size())");
    mkC OPreDec MInt "--i" 0
      (Listed "t1d_run_vals/rev" 1 I32)];
  mkCF "Transp1dMachine.v" "Transportation1dSolver::getSlope" [
    mkC OAddA MLLong "slope += events.top().second" 0
      (Listed "slope_vals" 0 I64)];
  mkCF "Transp1dMachine.v" "Transportation1dSolver::push" [
    mkC OSub MLLong "D[optimalSink] - S[i]" 0
      (Listed "push_vals" 5 I64);
    mkC OSub MLLong "D[lastOccupiedSink + 1] - S[i + 1]" 0
      (Listed "loop_test_vals" 2 I64);
    mkC OAdd MInt "lastOccupiedSink + 1" 0
      (Listed "loop_test_vals" 0 I32);
    mkC OAdd MInt "i + 1" 0
      (Listed "loop_test_vals" 1 I32)];
  mkCF "Transp1dMachine.v" "Transportation1dSolver::pushNewSinkEvents" [
    mkC OPreInc MInt "++l" 0
      (Listed "pnk_vals" 0 I32);
    mkC OSub MLLong "D[l + 1] - S[i]" 0
      (Listed "pnk_vals" 1 I64);
    mkC OAdd MInt "l + 1" 0
      (Listed "pnk_vals" 0 I32);
    mkC OSub MLLong "cost(i, l) - cost(i, l + 1)" 0
      (Listed "pnk_vals" 6 I64);
    mkC OAdd MInt "l + 1" 1
      (Listed "pnk_vals" 0 I32)];
  mkCF "Transp1dMachine.v" "Transportation1dSolver::pushNewSourceEvents" [
    mkC (ONarrow MLong) MInt "std::upper_bound(v.begin(), v.end(), u[i - 1]) - v.begin()" 0
      (Listed "pnse_vals" 1 I32);
    mkC OSub MInt "i - 1" 0
      (Listed "pnse_vals" 0 I32);
    mkC OSub MInt "b - 1" 0
      (Listed "pnse_vals" 2 I32);
    mkC (ONarrow MLong) MInt "std::lower_bound(v.begin(), v.end(), u[i]) - v.begin()" 0
      (Listed "pnse_vals" 3 I32);
    mkC OPreInc MInt "++j" 0
      (Listed "pnse_vals" 4 I32);
    mkC OSub MLLong "D[j + 1] - S[i]" 0
      (Listed "pnse_vals" 5 I64);
    mkC OAdd MInt "j + 1" 0
      (Listed "pnse_vals" 4 I32);
    mkC OSub MInt "i - 1" 1
      (Listed "pnse_vals" 0 I32)];
  mkCF "Transp1dMachine.v" "Transportation1dSolver::pushOnce" [
    mkC OSub MInt "nbSinks() - 1" 0
      (Listed "push_once_vals" 0 I32);
    mkC OAdd MInt "j + 1" 0
      (Listed "push_once_vals" 1 I32);
    mkC OAdd MLLong "getSlope() + cost(i, j)" 0
      (Listed "push_once_vals" 7 I64)];
  mkCF "Transp1dMachine.v" "Transportation1dSolver::pushToLastSink" [
    mkC OSub MLLong "D[j + 1] - S[i + 1]" 0
      (Listed "ptls_vals" 2 I64);
    mkC OAdd MInt "j + 1" 0
      (Listed "ptls_vals" 0 I32);
    mkC OAdd MInt "i + 1" 0
      (Listed "ptls_vals" 1 I32)];
  mkCF "Transp1dMachine.v" "Transportation1dSolver::pushToNewSink" [
    mkC OAdd MInt "lastOccupiedSink + 1" 0
      (Listed "ptns_vals" 0 I32)];
  mkCF "Transp1dMachine.v" "Transportation1dSolver::run" [
    mkC OAdd MInt "nbSources() + nbSinks()" 0
      (Listed "t1d_run_vals" 0 I32);
    mkC OPreInc MInt "++i" 0
      (Listed "push_all_vals" 0 I32)];
  mkCF "Transp1dMachine.v" "Transportation1dSolver::setupData" [
    mkC OAdd MInt "nbSinks() + 1" 0
      (Listed "setup_vals" 0 I32);
    mkC OAdd MLLong "D.back() + c" 0
      (Listed "setup_vals" 1 I64);
    mkC OAdd MInt "nbSources() + 1" 0
      (Listed "setup_vals" 3 I32);
    mkC OAdd MLLong "S.back() + c" 0
      (Listed "setup_vals" 4 I64)];
  mkCF "Transp1dMachine.v" "Transportation1dSolver::totalDemand" [
];
  mkCF "Transp1dMachine.v" "Transportation1dSolver::totalSupply" [
];
  mkCF "Transp1dMachine.v" "Transportation1dSolver::updateOptimalSink" [
    mkC OAdd MInt "j + 1" 0
      (Listed "upd_opt_vals" 0 I32);
    mkC OAdd MInt "j + 1" 1
      (Listed "upd_opt_vals" 0 I32);
    mkC OPreInc MInt "++j" 0
      (Listed "upd_opt_vals" 5 I32)];
  mkCF "Transp1dMachine.v" "Transportation1dSorter::Transportation1dSorter" [
    mkC (ONarrow MLLong) MInt "p.second" 0
      (Listed "order_vals" 0 I32);
    mkC (ONarrow MLLong) MInt "p.second" 1
      (Listed "order_vals" 0 I32);
    mkC OSub MLLong "u[i] - snkSort[k - 1].first" 0
      (Listed "idle_vals_of" 0 I64);
    mkC OSub MLLong "snkSort[k].first - u[i]" 0
      (Listed "idle_vals_of" 1 I64);
    mkC (ONarrow MLLong) MInt "snkSort[k].second" 0
      (Listed "idle_vals_of" 2 I32)];
  mkCF "Transp1dMachine.v" "Transportation1dSorter::convert" [
];
  mkCF "Transp1dMachine.v" "Transportation1dSorter::convertAssignmentBack" [
];
  mkCF "Transp1dMachine.v" "Transportation1dSorter::convertSolutionBack" [
]
].

(* functions of the repo that a function of the table calls and that are deliberately not in the table, with the reason *)
Definition callees_not_inlined : list (string * string) := [
  ("Circuit::computePlacementArea", "bounding box of the rows (min / max only); its result is an input of the DensityGrid constructor listed by grid_vals");
  ("Circuit::computeRows", "free-space computation of C09 (Row::freespace): the rows it returns are the INPUT of clip_vals / row_area_vals; not transcribed by DensityMachine.v");
  ("LegalizerBase::rowHeight", "returns the height of the first row (Rectangle::height is in the table); defined in legalizer.cpp, check() only");
  ("cellOrientationInRow", "parameters.cpp: a case distinction over two enums, no integer arithmetic");
  ("isTurn", "parameters.cpp: comparison of an enum with four constants, no integer arithmetic")
].

Definition cover : cover := mkCover cover_samples cover_funs callees_not_inlined.
