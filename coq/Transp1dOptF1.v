(* C14 optimality, part F1: the problem built by the sorter is sorted; cost of the sweep plan = cost of the positions. *)
From Coq Require Import List ZArith Lia Bool Arith.
Import ListNotations.
Require Import CV.LpCert CV.Transp1d CV.Transp1dProofs CV.Transp1dTerm CV.Transp1dCert CV.Transp1dOpt
               CV.Transp1dOptA1 CV.Transp1dOptM2 CV.Transp1dOptM3.
Local Open Scope Z_scope.

(* ---------------------------------------------------------------- sort_pairs sorts by position *)
Fixpoint fst_sorted (l : list (Z * nat)) : Prop :=
  match l with
  | x :: r => match r with y :: _ => fst x <= fst y | [] => True end /\ fst_sorted r
  | [] => True
  end.

Lemma pair_lt_fst a b : pair_lt a b = true -> fst a <= fst b.
Proof. unfold pair_lt. intros H. apply orb_prop in H. destruct H as [H|H]; [apply Z.ltb_lt in H; lia|].
  apply andb_prop in H. destruct H as [H _]. apply Z.eqb_eq in H. lia. Qed.
Lemma pair_lt_false_fst a b : pair_lt a b = false -> fst b <= fst a.
Proof. unfold pair_lt. intros H. apply orb_false_iff in H. destruct H as [H _]. apply Z.ltb_ge in H. exact H. Qed.

Lemma ins_pair_sorted x l : fst_sorted l -> fst_sorted (ins_pair x l).
Proof.
  induction l as [|y r IH]; intros H; cbn [ins_pair]; [cbn; auto|].
  destruct (pair_lt x y) eqn:C.
  - cbn [fst_sorted]. split; [apply pair_lt_fst; exact C|exact H].
  - destruct H as [H1 H2]. specialize (IH H2). cbn [fst_sorted]. split; [|exact IH].
    destruct r as [|z t]; cbn [ins_pair].
    + apply pair_lt_false_fst. exact C.
    + destruct (pair_lt x z); [apply pair_lt_false_fst; exact C|exact H1].
Qed.

Lemma sort_pairs_sorted l : fst_sorted (sort_pairs l).
Proof. induction l as [|x r IH]; cbn [sort_pairs fold_right]; [exact I|]. apply ins_pair_sorted. exact IH. Qed.

Lemma fst_sorted_nth l : fst_sorted l -> forall i k, (i <= k)%nat -> (k < length l)%nat ->
  fst (nth i l (0, O)) <= fst (nth k l (0, O)).
Proof.
  induction l as [|x r IH]; intros H i k Hik Hk; cbn [length] in Hk; [lia|].
  destruct H as [H1 H2]. destruct k as [|k].
  - replace i with O by lia. lia.
  - destruct i as [|i].
    + cbn [nth]. destruct r as [|y t]; [cbn in Hk; lia|].
      specialize (IH H2 O k ltac:(lia) ltac:(lia)). change (nth 0 (y :: t) (0, O)) with y in IH. lia.
    + cbn [nth]. apply IH; [exact H2|lia|lia].
Qed.

(* positions of the sorted problem = first components of the sorted pairs *)
Lemma sorted_positions pos amt : length amt = length pos ->
  let srt := sort_pairs (pos_pairs pos amt 0) in
  let order := map snd srt in
  forall i k, (i <= k)%nat -> (k < length order)%nat -> zn (map (zn pos) order) i <= zn (map (zn pos) order) k.
Proof.
  intros HL srt order i k Hik Hk. subst order. rewrite map_length in Hk.
  assert (E : forall t, (t < length srt)%nat -> zn (map (zn pos) (map snd srt)) t = fst (nth t srt (0, O))).
  { intros t Ht. rewrite zn_map_nn by (rewrite map_length; exact Ht).
    unfold nn. rewrite (nth_indep _ O (snd (0, O))) by (rewrite map_length; exact Ht). rewrite map_nth.
    pose proof (nth_In srt (0, O) Ht) as Hin. destruct (nth t srt (0, O)) as [x q] eqn:En. cbn [fst snd].
    apply (Permutation.Permutation_in _ (sort_pairs_perm _)) in Hin.
    apply pos_pairs_in in Hin. rewrite Nat.sub_0_r in Hin. destruct Hin as (_ & _ & _ & Hx & _). symmetry. exact Hx. }
  rewrite (E i ltac:(lia)), (E k Hk). apply fst_sorted_nth; [apply sort_pairs_sorted|exact Hik|exact Hk].
Qed.

Lemma convert_sorted pb : checked pb -> sorted_sprob (convert (mk_sorter pb) pb).
Proof.
  intros C. unfold sorted_sprob, convert, mk_sorter, n_src, n_snk. cbn [su sv srcOrder snkOrder]. split.
  - intros i k Hik Hk. rewrite map_length in Hk. apply (sorted_positions (pb_u pb) (pb_s pb) (c_ls _ C)); assumption.
  - intros j k Hjk Hk. rewrite map_length in Hk. apply (sorted_positions (pb_v pb) (pb_d pb) (c_ld _ C)); assumption.
Qed.

(* ---------------------------------------------------------------- cost of the plan read off by computeSolution *)
Fixpoint wsum (h : nat -> nat -> Z) (sol : list triple) : Z :=
  match sol with [] => 0 | (i, j, a) :: r => a * h i j + wsum h r end.

Lemma wsum_app h a b : wsum h (a ++ b) = wsum h a + wsum h b.
Proof. induction a as [|[[i j] x] r IH]; cbn [app wsum]; [lia|]. rewrite IH. lia. Qed.

Section SweepCost.
Variables (P : sprob) (p : list Z).
Hypothesis G : geom P p.
Variable h : nat -> nat -> Z.
Notation n := (length p).
Notation m := (n_snk P).
Notation b := (bI P p).
Notation e := (eI P p).
Notation D := (Dx P).
Definition cell (i j : nat) : Z := h i j * Z.max 0 (ovl P p i j).

Lemma sweep_wsum : forall fuel i j,
  (n - i + (m - j) <= fuel)%nat -> (i <= n)%nat -> (j <= m)%nat -> ((i < n)%nat -> D j <= e i) ->
  wsum h (sweep P p fuel i j) = zsum (fun i' => zsum (fun j' => cell i' j') (seq j (m - j))) (seq i (n - i)).
Proof.
  induction fuel as [|f IH]; intros i j Hf Hi Hj Hinv.
  - replace (n - i)%nat with O by lia. reflexivity.
  - cbn [sweep]. destruct (Nat.ltb_spec i n) as [C1|C1]; [destruct (Nat.ltb_spec j m) as [C2|C2]|]; cbn [andb].
    + specialize (Hinv C1). fold (b i). fold (e i).
      assert (Hbi : b i < e i) by (apply (g_s _ _ G); lia).
      assert (Hdj : D j < D (j + 1)) by (apply (g_d _ _ G); lia).
      rewrite wsum_app.
      match goal with |- wsum h ?l + _ = _ => assert (Hemit : wsum h l = cell i j) end.
      { unfold cell, ovl. fold (b i). fold (e i).
        destruct (Z.ltb_spec 0 (Z.min (e i) (D (j + 1)) - Z.max (b i) (D j))); cbn [wsum]; lia. }
      rewrite Hemit.
      replace (n - i)%nat with (S (n - (i + 1))) by lia. replace (m - j)%nat with (S (m - (j + 1))) by lia.
      cbn [seq zsum]. replace (S i) with (i + 1)%nat by lia. replace (S j) with (j + 1)%nat by lia.
      destruct (Z.ltb_spec (e i) (D (j + 1))) as [Cmp|Cmp].
      * (* next source: the rest of row i is empty *)
        rewrite IH; try lia.
        2:{ intros H1. assert (e i <= b (i + 1)) by (apply (g_mono _ _ G); lia).
            assert (b (i + 1) < e (i + 1)) by (apply (g_s _ _ G); lia). lia. }
        assert (Z0 : zsum (fun j' => cell i j') (seq (j + 1) (m - (j + 1))) = 0).
        { apply zsum_all_zero. intros j' Hj'. apply in_seq in Hj'. unfold cell, ovl. fold (e i). fold (b i).
          assert (D (j + 1) <= D j') by (apply (D_mono P p G); lia). lia. }
        rewrite Z0. replace (m - j)%nat with (S (m - (j + 1))) by lia.
        assert (E : forall i', zsum (fun j' => cell i' j') (seq j (S (m - (j + 1))))
                        = cell i' j + zsum (fun j' => cell i' j') (seq (j + 1) (m - (j + 1)))).
        { intros i'. cbn [seq zsum]. replace (S j) with (j + 1)%nat by lia. reflexivity. }
        rewrite (zsum_ext _ _ _ (fun i' _ => E i')). lia.
      * (* next sink: the rest of column j is empty *)
        rewrite IH; try lia.
        replace (n - i)%nat with (S (n - (i + 1))) by lia. cbn [seq zsum]. replace (S i) with (i + 1)%nat by lia.
        assert (E : forall i', In i' (seq (i + 1) (n - (i + 1))) ->
                     zsum (fun j' => cell i' j') (seq (j + 1) (m - (j + 1)))
                     = cell i' j + zsum (fun j' => cell i' j') (seq (j + 1) (m - (j + 1)))).
        { intros i' Hi'. apply in_seq in Hi'. enough (cell i' j = 0) by lia. unfold cell, ovl. fold (b i'). fold (e i').
          assert (e i <= b i') by (apply (e_le_b P p G); lia). lia. }
        rewrite (zsum_ext _ _ _ E). lia.
    + replace (m - j)%nat with O by lia. cbn [wsum seq zsum]. symmetry. apply zsum_all_zero. intros; reflexivity.
    + replace (n - i)%nat with O by lia. reflexivity.
Qed.
End SweepCost.

Lemma zsum_map (f : nat -> Z) (g : nat -> nat) l : zsum f (map g l) = zsum (fun x => f (g x)) l.
Proof. induction l as [|a r IH]; cbn [map zsum]; [reflexivity|]. rewrite IH. reflexivity. Qed.

Lemma pos_cost_zsum P : forall p i0, pos_cost P i0 p = zsum (fun k => fc P (i0 + k) (zn p k)) (seq 0 (length p)).
Proof.
  induction p as [|x r IH]; intros i0; cbn [pos_cost length]; [reflexivity|].
  cbn [seq zsum]. rewrite <- seq_shift, zsum_map, IH. replace (i0 + 0)%nat with i0 by lia.
  unfold zn at 2. cbn [nth]. f_equal. apply zsum_ext. intros k _.
  replace (S i0 + k)%nat with (i0 + S k)%nat by lia. unfold zn. cbn [nth]. reflexivity.
Qed.

Lemma compute_solution_cost P p : wf_sprob P -> geom P p -> length p = n_src P ->
  wsum (cost P) (compute_solution P p) = pos_cost P 0 p.
Proof.
  intros W G Ln. unfold compute_solution.
  rewrite (sweep_wsum P p G (cost P) (length p + n_snk P) 0 0); try lia.
  2:{ intros H. rewrite (g_D0 _ _ G). assert (0 <= bI P p 0) by (apply (g_b0 _ _ G); lia).
      assert (bI P p 0 < eI P p 0) by (apply (g_s _ _ G); lia). lia. }
  rewrite !Nat.sub_0_r, pos_cost_zsum. apply zsum_ext. intros i Hi. apply in_seq in Hi. cbn [Nat.add].
  pose proof (g_b0 _ _ G i ltac:(lia)) as B0. pose proof (g_last _ _ G i ltac:(lia)) as EL.
  unfold bI in B0. unfold eI in EL.
  rewrite (fc_as_sum P W i (zn p i) B0 ltac:(pose proof (Sx_step P W i ltac:(lia)); lia) EL).
  apply zsum_ext. intros j _. unfold cell, ovl, avail, bI, eI. reflexivity.
Qed.
