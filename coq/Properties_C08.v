(* C08 -- placement is deterministic and independent of thread scheduling.

   HONEST LIMIT (DESIGN.md, level "other"): no theorem here is about the C++ program.
   * c08_schedule_independent / c08_any_two_schedules_agree / c08_completion_order_irrelevant are
     proved for ALL pairs of tasks over ALL stores (ForkJoin.v: tasks = lists of atomic Read/Write
     actions): Bernstein-independent tasks give the same final store and the same per-task results
     under EVERY interleaving.
   * c08_runLB_* are about [Effects_gen.effects], a summary GENERATED from /repo's source by
     tools/effects.py on every run (the translator, clang's AST dump and `nm` are trusted base): which
     locations the two std::async tasks of GlobalPlacer::runLB and the main thread between the two
     joins may read / write.  The derivation "const member function of a class without mutable /
     indirect members, arguments decay-copied, no unexplained static storage in the library => the
     task writes only its own result slot" is ForkJoin.fp_call -- a modelling decision, not verified
     against the C++ semantics.  Third-party code (Eigen, libstdc++) is outside the summary.
   * Data-race freedom and bitwise determinism of the binary are OBSERVED (ThreadSanitizer, forced
     completion orders, repeated runs: ./check C08), not proved. *)
From Coq Require Import List Bool String.
Import ListNotations.
Require Import CV.ForkJoin CV.ForkJoinProofs CV.Effects_gen CV.Determinism CV.DeterminismProofs CV.Nondet_gen.
Local Open Scope string_scope.

(* [F] every interleaving of two independent tasks = first task, then second task *)
Theorem c08_schedule_independent :
  forall (Loc Val : Type) (loc_eqb : Loc -> Loc -> bool),
    (forall a b, loc_eqb a b = true <-> a = b) ->
    forall (t1 t2 : task Loc Val) m,
      independent Loc Val loc_eqb t1 t2 -> interleaving t1 t2 m ->
      forall c, same (exec Loc Val loc_eqb m c) (exec Loc Val loc_eqb (tag true t1 ++ tag false t2)%list c).
Proof. exact schedule_independent. Qed.

(* [F] hence any two schedules agree on the store and on both tasks' results *)
Theorem c08_any_two_schedules_agree :
  forall (Loc Val : Type) (loc_eqb : Loc -> Loc -> bool),
    (forall a b, loc_eqb a b = true <-> a = b) ->
    forall (t1 t2 : task Loc Val) m m',
      independent Loc Val loc_eqb t1 t2 -> interleaving t1 t2 m -> interleaving t1 t2 m' ->
      forall c, same (exec Loc Val loc_eqb m c) (exec Loc Val loc_eqb m' c).
Proof. exact any_two_schedules_agree. Qed.

(* [F] in particular both completion orders (x entirely before y, y entirely before x) *)
Theorem c08_completion_order_irrelevant :
  forall (Loc Val : Type) (loc_eqb : Loc -> Loc -> bool),
    (forall a b, loc_eqb a b = true <-> a = b) ->
    forall (t1 t2 : task Loc Val),
      independent Loc Val loc_eqb t1 t2 ->
      forall c, same (exec Loc Val loc_eqb (tag true t1 ++ tag false t2)%list c)
                     (exec Loc Val loc_eqb (tag false t2 ++ tag true t1)%list c).
Proof. exact completion_order_irrelevant. Qed.

(* [F] the independence hypothesis cannot be dropped *)
Theorem c08_racy_tasks_differ :
  let t1 : task string nat := [Write "g" (fun _ => 1)] in
  let t2 : task string nat := [Write "g" (fun _ => 2)] in
  let c := Build_state (fun _ => 0) [] [] in
  st (sexec (tag true t1 ++ tag false t2)%list c) "g" <> st (sexec (tag false t2 ++ tag true t1)%list c) "g".
Proof. exact racy_tasks_differ. Qed.

(* [F over the GENERATED summary; the summary itself is trusted] the summary extracted from the
   current source satisfies every condition: footprints disjoint (Bernstein), two distinct objects,
   two distinct result targets, both futures consumed by one top-level .get() each and not used
   otherwise, nothing done by the main thread before the first join, no unexplained static storage *)
Theorem c08_runLB_summary_ok : summary_ok effects = true.
Proof. vm_compute. reflexivity. Qed.

Theorem c08_runLB_footprints_disjoint : footprints_disjoint effects = true.
Proof. exact (summary_ok_disjoint effects c08_runLB_summary_ok). Qed.

(* [F over the generated summary] whatever the two solves compute, as long as they stay inside the
   footprints of the summary, every schedule yields the same store and the same results *)
Theorem c08_runLB_schedule_independent :
  forall (Val : Type) (t1 t2 : task string Val) m,
    sconforms t1 (fp_first effects) -> sconforms t2 (fp_second effects) -> interleaving t1 t2 m ->
    forall c, same (sexec m c) (sexec (tag true t1 ++ tag false t2)%list c).
Proof. exact (summary_schedule_independent effects c08_runLB_summary_ok). Qed.

Theorem c08_runLB_completion_order_irrelevant :
  forall (Val : Type) (t1 t2 : task string Val),
    sconforms t1 (fp_first effects) -> sconforms t2 (fp_second effects) ->
    forall c, same (sexec (tag true t1 ++ tag false t2)%list c) (sexec (tag false t2 ++ tag true t1)%list c).
Proof. exact (summary_completion_order_irrelevant effects c08_runLB_summary_ok). Qed.

(* ---- non-vacuity: the tasks that touch EVERYTHING their footprint allows (read every readable
   location, then write the number of values read so far + k into every writable one) conform to the
   generated footprints, are not empty, and do change the store ---- *)
Definition full_task (k : nat) (f : footprint string) : task string nat :=
  (map Read (fp_reads f) ++ map (fun l => Write l (fun log => k + List.length log)) (fp_writes f))%list.

Example c08_nonvacuous_conforms :
  sconforms (full_task 1 (fp_first effects)) (fp_first effects) /\
  sconforms (full_task 2 (fp_second effects)) (fp_second effects) /\
  2 <= List.length (full_task 1 (fp_first effects)) /\ 2 <= List.length (full_task 2 (fp_second effects)).
Proof. vm_compute. repeat split; repeat constructor. Qed.

(* the independence hypothesis of the generic theorems is satisfiable on these non-trivial tasks *)
Example c08_nonvacuous_independent :
  independent string nat String.eqb (full_task 1 (fp_first effects)) (full_task 2 (fp_second effects)).
Proof. vm_compute. split; reflexivity. Qed.

(* and the two extreme schedules really run and agree on a location written by the first thread
   (value = 1 + number of locations it read: not the initial 0) *)
Example c08_nonvacuous_runs :
  let t1 := full_task 1 (fp_first effects) in
  let t2 := full_task 2 (fp_second effects) in
  let c := Build_state (fun _ => 0) [] [] in
  let l := ac_result_target (sm_first effects) in
  st (sexec (tag true t1 ++ tag false t2)%list c) l = st (sexec (tag false t2 ++ tag true t1)%list c) l /\
  st (sexec (tag true t1 ++ tag false t2)%list c) l <> 0 /\
  lg2 (sexec (tag true t1 ++ tag false t2)%list c) = lg2 (sexec (tag false t2 ++ tag true t1)%list c) /\
  lg2 (sexec (tag true t1 ++ tag false t2)%list c) <> [].
Proof. vm_compute. repeat split; discriminate. Qed.

Example c08_racy_nonvacuous : exists (t1 t2 : task string nat),
  ~ independent string nat String.eqb t1 t2.
Proof.
  exists [Write "g" (fun _ => 1)], [Write "g" (fun _ => 2)]. vm_compute. intros [H _]. discriminate.
Qed.

(* [translator-derived table + rule; NO proof content of its own: nondet_okb is a forallb over kind labels that
   tools/nondet.py itself assigns (Determinism.v), and c08_nondet_rule_correct is the forallb <-> forall
   reading; all the analysis (taint tracking, token scan) is trusted Python; nondet_ok [] holds, and nothing
   checks that the three known clock uses are found.  Read the statement as "the translator reports ..."]
   "a pure function of the circuit and the parameters":
   tools/nondet.py regenerates from clang's AST and a token scan of the tree under check every use of a value derived
   from a clock (std::chrono::*::now(), time(), clock(): taint followed through variables, duration arithmetic and
   .count()) and every other external source (std::random_device, rand/srand, getenv, getpid, thread ids, %p, unordered
   containers keyed by pointers, random_shuffle, hardware_concurrency, addresses cast to integers).  On this tree every
   clock-derived value only reaches a variable or an ostream print (the "... done in N s" messages), and no other
   source occurs; the pseudo-random engines are listed for information (an engine is deterministic unless fed by one
   of these sources; a static engine is caught by sm_globals of the first table).  A time budget, a time-derived
   seed, a random_device, ... break this theorem even when no repeated run happens to differ. *)
Theorem c08_no_nondeterminism_source : nondet_ok nondet_facts.
Proof. exact (proj1 (nondet_okb_correct nondet_facts) (eq_refl true)). Qed.

Theorem c08_nondet_rule_correct : forall l, nondet_okb l = true <-> nondet_ok l.
Proof. exact nondet_okb_correct. Qed.

Print Assumptions c08_schedule_independent.
Print Assumptions c08_any_two_schedules_agree.
Print Assumptions c08_completion_order_irrelevant.
Print Assumptions c08_racy_tasks_differ.
Print Assumptions c08_runLB_summary_ok.
Print Assumptions c08_runLB_footprints_disjoint.
Print Assumptions c08_runLB_schedule_independent.
Print Assumptions c08_runLB_completion_order_irrelevant.
Print Assumptions c08_no_nondeterminism_source.
Print Assumptions c08_nondet_rule_correct.
