From Coq Require Import List ZArith Lia Bool.
Import ListNotations.
Require Import CV.Orient CV.FreeSpace CV.Circuit.
Local Open Scope Z_scope.

Ltac Zify.zify_post_hook ::= Z.div_mod_to_equations.

Lemma rect_intersects_spec a b : rect_intersects a b = false <-> disjoint_rects a b.
Proof.
  unfold rect_intersects, disjoint_rects. rewrite !andb_false_iff, !Z.ltb_ge. tauto.
Qed.

Lemma pairwise_disjointb_spec l : pairwise_disjointb l = true <-> pairwise_disjoint l.
Proof.
  induction l as [|a r IH]; cbn [pairwise_disjointb pairwise_disjoint]; [tauto|].
  rewrite andb_true_iff, forallb_forall, IH. split; intros [H1 H2]; (split; [|exact H2]); intros b Hb.
  - apply rect_intersects_spec. specialize (H1 b Hb). destruct (rect_intersects a b); [discriminate|reflexivity].
  - specialize (H1 b Hb). apply rect_intersects_spec in H1. rewrite H1. reflexivity.
Qed.

Lemma strip_ok_spec fr p rh j : strip_ok fr p rh j = true <-> strip_in_segment fr p rh j.
Proof.
  unfold strip_ok, strip_in_segment. rewrite existsb_exists. split.
  - intros (s & Hs & H). rewrite !andb_true_iff in H. destruct H as [[[H1 H2] H3] H4].
    exists s. rewrite Z.eqb_eq in H1, H2. rewrite Z.leb_le in H3, H4. tauto.
  - intros (s & Hs & H1 & H2 & H3 & H4). exists s. split; [exact Hs|].
    rewrite !andb_true_iff, !Z.eqb_eq, !Z.leb_le. tauto.
Qed.

Lemma cell_legalb_spec c rh k : 0 < rh -> cell_legalb c rh (free_rows c) k = true <-> cell_legal c rh k.
Proof.
  intros Hrh. unfold cell_legalb, cell_legal. cbn zeta.
  set (p := placement_of k). rewrite !andb_true_iff, forallb_forall, existsb_exists. split.
  - intros [[[[H1 H2] H3] (r & Hr & Hry)] H5].
    apply Z.ltb_lt in H1, H3. apply Z.eqb_eq in H2, Hry. split; [exact H3|].
    exists (Z.to_nat ((maxY p - minY p) / rh)).
    assert (E : maxY p - minY p = (maxY p - minY p) / rh * rh) by lia.
    assert (0 < (maxY p - minY p) / rh) by nia.
    split; [lia|]. split; [rewrite Z2Nat.id by lia; exact E|]. split; [exists r; tauto|].
    intros j Hj. apply strip_ok_spec. apply H5. apply in_seq. lia.
  - intros (H3 & n & Hn & Hh & (r & Hr & Hry) & Hs).
    assert (E : (maxY p - minY p) / rh = Z.of_nat n) by (rewrite Hh; apply Z.div_mul; lia).
    repeat split.
    + apply Z.ltb_lt. nia.
    + apply Z.eqb_eq. rewrite Hh. apply Z.mod_mul. lia.
    + apply Z.ltb_lt. exact H3.
    + exists r. split; [exact Hr|apply Z.eqb_eq; exact Hry].
    + intros j Hj. apply strip_ok_spec. apply Hs. apply in_seq in Hj. rewrite E, Nat2Z.id in Hj. lia.
Qed.

Theorem legalb_correct c : legalb c = true <-> legal c.
Proof.
  unfold legalb, legal. destruct (row_height c) as [rh|].
  - rewrite !andb_true_iff, Z.ltb_lt, forallb_forall, pairwise_disjointb_spec. split.
    + intros [[H1 H2] H3]. split; [exact H1|]. split; [|exact H3].
      intros k Hk. apply cell_legalb_spec; [exact H1|apply H2; exact Hk].
    + intros (H1 & H2 & H3). split; [split; [exact H1|]|exact H3].
      intros k Hk. apply cell_legalb_spec; [exact H1|apply H2; exact Hk].
  - destruct (movable c); split; intros H; try reflexivity; try discriminate.
Qed.
