(* C05 -- completeness of the enumeration of the reordering pass: WHICH arrangements are evaluated.
   Every assignment of the registered cells (ascending index) to the regions that passes the width / polarity test at
   each push, combined with every arrangement of every region OTHER THAN the ascending one, is a leaf of
   Reorder.leaves_of.  (The ascending arrangement of a region is the one `while (std::next_permutation(...))` starts
   from and never evaluates: ReorderEnumProofs.leaves_shape + loop_perms = tl lex_perms.) *)
From Coq Require Import List ZArith Lia Bool Permutation.
Import ListNotations.
Require Import CV.Orient CV.Hpwl CV.Moves CV.Optimiser CV.ShiftLp CV.DetailedValue CV.Reorder CV.ReorderGeomProofs CV.ReorderEnumProofs.
Local Open Scope Z_scope.

(* ---------- std::next_permutation visits every permutation; the first one is the start ---------- *)
Lemma selects_in : forall l1 x l2, In (x, l1 ++ l2) (selects (l1 ++ x :: l2)).
Proof.
  induction l1 as [|a t IH]; intros x l2; cbn [app selects]; [left; reflexivity|].
  right. apply in_map_iff. exists (x, t ++ l2). split; [reflexivity|apply IH].
Qed.

Lemma lex_perms_complete n : forall l p, length l = n -> Permutation l p -> In p (lex_perms n l).
Proof.
  induction n as [|n IH]; intros l p Hl P.
  - destruct l; [|discriminate]. apply Permutation_nil in P. subst p. left. reflexivity.
  - destruct p as [|x p']; [apply Permutation_sym, Permutation_nil in P; subst l; discriminate|].
    assert (Hx : In x l) by (apply (Permutation_in _ (Permutation_sym P)); left; reflexivity).
    apply in_split in Hx as (l1 & l2 & ->).
    assert (P' : Permutation (l1 ++ l2) p') by (apply Permutation_sym in P; apply Permutation_cons_app_inv in P; apply Permutation_sym; exact P).
    assert (L' : length (l1 ++ l2) = n) by (rewrite app_length in *; cbn [length] in Hl; lia).
    cbn [lex_perms]. destruct (l1 ++ x :: l2) eqn:E; [destruct l1; discriminate|]. rewrite <- E.
    apply in_flat_map. exists (x, l1 ++ l2). split; [apply selects_in|]. cbn [fst snd]. apply in_map. exact (IH _ _ L' P').
Qed.

Lemma lex_perms_head n : forall l, length l = n -> exists t, lex_perms n l = l :: t.
Proof.
  induction n as [|n IH]; intros l Hl; [destruct l; [|discriminate]; exists []; reflexivity|].
  destruct l as [|a l']; [discriminate|]. cbn [lex_perms selects flat_map fst snd].
  destruct (IH l') as [t Ht]; [cbn [length] in Hl; lia|]. rewrite Ht. cbn [map app]. eexists. reflexivity.
Qed.

(* every arrangement other than the one the loop starts from is visited *)
Lemma loop_perms_complete l p : Permutation l p -> p <> l -> In p (loop_perms l).
Proof.
  intros P Hne. pose proof (lex_perms_complete _ l p eq_refl P) as H. unfold loop_perms.
  destruct (lex_perms_head _ l eq_refl) as [t Ht]. rewrite Ht in *. cbn [tl]. destruct H as [H|H]; [congruence|exact H].
Qed.

(* ---------- runOrdering ---------- *)
Lemma order_leaves_complete w : forall regs ps chosen,
  Forall2 (fun go p => In p (loop_perms (snd go))) regs ps ->
  In (leaf_of (rev (chosen_of w (combine (map fst regs) ps)) ++ chosen)) (order_leaves w regs chosen).
Proof.
  intros regs ps chosen F. revert chosen. induction F as [|[g ord] p regs ps Hp _ IH]; intros chosen; cbn [order_leaves map combine chosen_of rev fst snd].
  - left. reflexivity.
  - apply in_flat_map. exists p. split; [exact Hp|]. rewrite <- app_assoc. cbn [app]. apply IH.
Qed.

(* ---------- runRegionChoice: the cells go to the regions an assignment `a` names ---------- *)
Fixpoint distribute (a : nat -> nat) (rem : list nat) (ord : list (list nat)) : list (list nat) :=
  match rem with [] => ord | c :: t => distribute a t (push_at ord (a c) c) end.

Fixpoint dist_ok (d : dstate) (rgs : list region) (a : nat -> nat) (rem : list nat) (ord : list (list nat)) : Prop :=
  match rem with
  | [] => True
  | c :: t => (exists g, nth_error rgs (a c) = Some g /\ choice_ok d g (nth (a c) (push_at ord (a c) c) []) c = true) /\
              dist_ok d rgs a t (push_at ord (a c) c)
  end.

Lemma choice_leaves_complete d rgs a : forall rem ord leaf, dist_ok d rgs a rem ord ->
  In leaf (order_leaves (width_of d) (rev (combine rgs (distribute a rem ord))) []) -> In leaf (choice_leaves d rgs rem ord).
Proof.
  induction rem as [|c t IH]; intros ord leaf; cbn [dist_ok distribute choice_leaves]; [intros _ H; exact H|].
  intros [(g & Hn & C) Hok] H. apply in_flat_map. exists (a c). split.
  - apply in_seq. split; [lia|]. cbn [Nat.add]. apply nth_error_Some. congruence.
  - rewrite Hn, C. exact (IH _ _ Hok H).
Qed.

Lemma length_distribute a : forall rem ord, length (distribute a rem ord) = length ord.
Proof. induction rem as [|c t IH]; intros ord; cbn [distribute]; [reflexivity|]. rewrite IH. apply length_push_at. Qed.

Lemma forall2_rev {A B} (R : A -> B -> Prop) l l' : Forall2 R l l' -> Forall2 R (rev l) (rev l').
Proof. induction 1; cbn [rev]; [constructor|]. apply Forall2_app; [assumption|constructor; [assumption|constructor]]. Qed.

Lemma combine_rev {A B} (l : list A) : forall (l' : list B), length l = length l' -> combine (rev l) (rev l') = rev (combine l l').
Proof.
  induction l as [|a t IH]; intros [|b t'] H; cbn [length] in H; try discriminate; [reflexivity|]. cbn [rev combine].
  rewrite <- IH by lia. clear IH. assert (L : length (rev t) = length (rev t')) by (rewrite !rev_length; lia).
  revert L. generalize (rev t) (rev t'). induction l as [|x l IH]; intros [|y l'] L; cbn [length] in L; try discriminate; [reflexivity|].
  cbn [app combine]. f_equal. apply IH. lia.
Qed.

(* (b) completeness of the enumeration *)
Theorem enumeration_complete d rgs a ps :
  let gs := map fst rgs in
  let ord := distribute a (sort_asc (map p_id (registered rgs))) (map (fun _ => []) rgs) in
  dist_ok d gs a (sort_asc (map p_id (registered rgs))) (map (fun _ => []) rgs) ->
  Forall2 (fun o p => Permutation o p /\ p <> o) ord ps ->
  In (leaf_of (chosen_of (width_of d) (combine gs ps))) (leaves_of d rgs).
Proof.
  cbn zeta. intros Hok F. unfold leaves_of. set (gs := map fst rgs) in *. set (cells := sort_asc _) in *.
  set (ord := distribute a cells (map (fun _ => []) rgs)) in *.
  apply (choice_leaves_complete d gs a _ _ _ Hok). fold ord.
  assert (L1 : length gs = length ord) by (unfold ord, gs; rewrite length_distribute, !map_length; reflexivity).
  assert (L2 : length ord = length ps) by exact (forall2_length _ _ _ F).
  pose proof (order_leaves_complete (width_of d) (rev (combine gs ord)) (rev ps) []) as H.
  rewrite app_nil_r, map_rev, map_fst_combine, combine_rev in H by congruence.
  unfold chosen_of in H. rewrite map_rev, rev_involutive in H. apply H. clear H.
  rewrite <- combine_rev by exact L1.
  assert (G : forall o p, Forall2 (fun o p => Permutation o p /\ p <> o) o p -> forall go : list region, length go = length o ->
            Forall2 (fun (gx : region * list nat) q => In q (loop_perms (snd gx))) (combine go o) p).
  { induction 1 as [|x y o p [P N] _ IH]; intros [|g0 go] Hl; cbn [length combine] in *; try discriminate; constructor.
    - cbn [snd]. apply loop_perms_complete; assumption.
    - apply IH. lia. }
  rewrite combine_rev by exact L1. apply forall2_rev. apply G; assumption.
Qed.

(* ---------- the tests along the way follow from the conditions on the FINAL assignment (cell widths are >= 0) ---------- *)
Lemma nth_push_at_gen c : forall ord i j, exists e, nth i (push_at ord j c) [] = nth i ord [] ++ e /\ forall x, In x e -> x = c.
Proof.
  induction ord as [|l t IH]; intros i j.
  - exists []. destruct j; cbn [push_at]; rewrite app_nil_r; split; [reflexivity|intros x []|reflexivity|intros x []].
  - destruct j as [|j]; cbn [push_at].
    + destruct i as [|i]; cbn [nth]; [exists [c]; split; [reflexivity|intros x [<-|[]]; reflexivity]|exists []; rewrite app_nil_r; split; [reflexivity|intros x []]].
    + destruct i as [|i]; cbn [nth]; [exists []; rewrite app_nil_r; split; [reflexivity|intros x []]|apply IH].
Qed.

Lemma distribute_prefix a : forall rem ord i, exists suf, nth i (distribute a rem ord) [] = nth i ord [] ++ suf /\ forall x, In x suf -> In x rem.
Proof.
  induction rem as [|c t IH]; intros ord i; cbn [distribute]; [exists []; rewrite app_nil_r; split; [reflexivity|intros x []]|].
  destruct (IH (push_at ord (a c) c) i) as (s1 & E1 & H1). destruct (nth_push_at_gen c ord i (a c)) as (e & E2 & H2).
  exists (e ++ s1). split; [rewrite E1, E2, app_assoc; reflexivity|].
  intros x Hx. apply in_app_or in Hx as [Hx|Hx]; [left; symmetry; exact (H2 x Hx)|right; exact (H1 x Hx)].
Qed.

Lemma alloc_app w l s : alloc_width w (l ++ s) = alloc_width w l + alloc_width w s.
Proof. unfold alloc_width. induction l as [|c t IH]; cbn [app fold_right]; [lia|rewrite IH; lia]. Qed.

Lemma dist_ok_of_final d rgs a : forall rem ord,
  (forall c, In c rem -> 0 <= width_of d c) -> length ord = length rgs ->
  (forall c, In c rem -> exists g, nth_error rgs (a c) = Some g) ->
  (forall i g, nth_error rgs i = Some g ->
     alloc_width (width_of d) (nth i (distribute a rem ord) []) <= rg_width g /\
     forall c, In c (nth i (distribute a rem ord) []) -> rok d g c) ->
  dist_ok d rgs a rem ord.
Proof.
  induction rem as [|c t IH]; intros ord Hw Hl Ha Hf; cbn [dist_ok]; [exact I|]. cbn [distribute] in Hf.
  destruct (Ha c (or_introl eq_refl)) as [g Hn]. split.
  - exists g. split; [exact Hn|]. destruct (Hf (a c) g Hn) as [W R].
    destruct (distribute_prefix a t (push_at ord (a c) c) (a c)) as (suf & E & Hs). rewrite E in W, R.
    assert (Hlt : (a c < length ord)%nat) by (rewrite Hl; apply nth_error_Some; congruence).
    destruct (nth_error ord (a c)) as [l|] eqn:No; [|apply nth_error_None in No; lia].
    rewrite (nth_push_at ord (a c) c l No) in *.
    unfold choice_ok. apply andb_true_iff. split.
    + apply Z.leb_le. rewrite alloc_app in W.
      assert (0 <= alloc_width (width_of d) suf) by (apply alloc_nonneg; intros x Hx; apply Hw; right; exact (Hs x Hx)). lia.
    + apply (R c). apply in_or_app. left. apply in_or_app. right. left. reflexivity.
  - apply IH; [intros x Hx; apply Hw; right; exact Hx|rewrite length_push_at; exact Hl|intros x Hx; apply Ha; right; exact Hx|exact Hf].
Qed.

(* (b), in terms of the FINAL assignment only *)
Theorem enumeration_complete_final d rgs a ps :
  let gs := map fst rgs in
  let cells := sort_asc (map p_id (registered rgs)) in
  let ord := distribute a cells (map (fun _ => []) rgs) in
  (forall c, In c cells -> 0 <= width_of d c) ->
  (forall c, In c cells -> exists g, nth_error gs (a c) = Some g) ->
  (forall i g, nth_error gs i = Some g ->
     alloc_width (width_of d) (nth i ord []) <= rg_width g /\ forall c, In c (nth i ord []) -> rok d g c) ->
  Forall2 (fun o p => Permutation o p /\ p <> o) ord ps ->
  In (leaf_of (chosen_of (width_of d) (combine gs ps))) (leaves_of d rgs).
Proof.
  cbn zeta. intros Hw Ha Hf F. apply (enumeration_complete d rgs a ps); [|exact F].
  apply dist_ok_of_final; [exact Hw|rewrite !map_length; reflexivity|exact Ha|exact Hf].
Qed.
