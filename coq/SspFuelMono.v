(* C13 -- the plan does not depend on the round budget of updateTree: if the model returns a plan with some
   budget, it returns the same plan with every larger budget (all problems, no hypothesis).  Hence the plans
   returned under two budgets are equal, and whenever Ssp.v's ssp returns, it returns the plan of the
   terminating run of c13_sspF_total. *)
From Coq Require Import List ZArith Lia Bool Arith.
Import ListNotations.
Require Import CV.LpCert CV.Ssp CV.SspF.
Local Open Scope Z_scope.

(* at most k rounds *)
Fixpoint iterN {S R : Type} (k : nat) (body : S -> step S R) (s : S) : step S R :=
  match k with
  | O => Continue s
  | Datatypes.S k' => match body s with Continue s' => iterN k' body s' | Done r => Done r end
  end.

Lemma iterN_add {S R : Type} (body : S -> step S R) a b s :
  iterN (a + b) body s = match iterN a body s with Continue s' => iterN b body s' | Done r => Done r end.
Proof.
  revert s; induction a as [|a IH]; intros s; cbn [iterN Nat.add]; [reflexivity|].
  destruct (body s) as [s'|r]; [apply IH|reflexivity].
Qed.

Lemma loopP_iterN {S R : Type} (body : S -> step S R) p s : loopP p body s = iterN (Pos.to_nat p) body s.
Proof.
  revert s; induction p as [p IH|p IH|]; intros s; cbn [loopP].
  - rewrite Pos2Nat.inj_xI. cbn [iterN]. destruct (body s) as [s1|r]; [|reflexivity].
    replace (2 * Pos.to_nat p)%nat with (Pos.to_nat p + Pos.to_nat p)%nat by lia.
    rewrite iterN_add, <- IH. destruct (loopP p body s1) as [s2|r]; [apply IH|reflexivity].
  - rewrite Pos2Nat.inj_xO.
    replace (2 * Pos.to_nat p)%nat with (Pos.to_nat p + Pos.to_nat p)%nat by lia.
    rewrite iterN_add, <- IH. destruct (loopP p body s) as [s2|r]; [apply IH|reflexivity].
  - rewrite Pos2Nat.inj_1. cbn [iterN]. destruct (body s); reflexivity.
Qed.

Lemma loopP_mono {S R : Type} (body : S -> step S R) p p' s r :
  (p <= p')%positive -> loopP p body s = Done r -> loopP p' body s = Done r.
Proof.
  intros Hle. rewrite !loopP_iterN. apply Pos2Nat.inj_le in Hle.
  replace (Pos.to_nat p') with (Pos.to_nat p + (Pos.to_nat p' - Pos.to_nat p))%nat by lia.
  rewrite iterN_add. intros ->. reflexivity.
Qed.

(* two bodies, the second succeeds wherever the first does *)
Lemma loopP_sim {S A : Type} (b1 b2 : S -> step S (res A)) :
  (forall s s', b1 s = Continue s' -> b2 s = Continue s') ->
  (forall s a, b1 s = Done (Ok a) -> b2 s = Done (Ok a)) ->
  forall p s,
    (forall s', loopP p b1 s = Continue s' -> loopP p b2 s = Continue s') /\
    (forall a, loopP p b1 s = Done (Ok a) -> loopP p b2 s = Done (Ok a)).
Proof.
  intros Hc Hd. induction p as [p IH|p IH|]; intros s; cbn [loopP].
  - destruct (b1 s) as [s1|r1] eqn:E1.
    + rewrite (Hc _ _ E1). destruct (loopP p b1 s1) as [s2|r2] eqn:E2.
      * destruct (IH s1) as [I1 _]. rewrite (I1 _ E2). apply IH.
      * destruct (IH s1) as [_ I2]. split; [discriminate|]. intros a [= ->]. rewrite (I2 _ E2). reflexivity.
    + split; [discriminate|]. intros a [= ->]. rewrite (Hd _ _ E1). reflexivity.
  - destruct (loopP p b1 s) as [s2|r2] eqn:E2.
    + destruct (IH s) as [I1 _]. rewrite (I1 _ E2). apply IH.
    + destruct (IH s) as [_ I2]. split; [discriminate|]. intros a [= ->]. rewrite (I2 _ E2). reflexivity.
  - split; [apply Hc|apply Hd].
Qed.

Lemma run_loop_sim {S A : Type} id p (b1 b2 : S -> step S (res A)) s a :
  (forall s s', b1 s = Continue s' -> b2 s = Continue s') ->
  (forall s a, b1 s = Done (Ok a) -> b2 s = Done (Ok a)) ->
  run_loop id p b1 s = Ok a -> run_loop id p b2 s = Ok a.
Proof.
  intros Hc Hd. unfold run_loop. destruct (loopP_sim b1 b2 Hc Hd p s) as [_ H].
  destruct (loopP p b1 s) as [s'|r]; [discriminate|]. intros ->. rewrite (H a eq_refl). reflexivity.
Qed.

Lemma foldM_sim {A S : Type} (f1 f2 : S -> A -> res S) l :
  (forall s a s', f1 s a = Ok s' -> f2 s a = Ok s') ->
  forall s s', foldM f1 l s = Ok s' -> foldM f2 l s = Ok s'.
Proof.
  intros Hf. induction l as [|a l IH]; intros s s'; cbn [foldM]; [intros H; exact H|].
  destruct (f1 s a) as [s1|e] eqn:E; cbn [bind]; [|discriminate]. rewrite (Hf _ _ _ E). cbn [bind]. apply IH.
Qed.

Section Mono.
Variables tf tf' : nat -> positive.
Hypothesis Hle : forall n, (tf n <= tf' n)%positive.

Lemma update_treeF_mono s s' : update_treeF tf s = Ok s' -> update_treeF tf' s = Ok s'.
Proof.
  unfold update_treeF, run_loop.
  destruct (loopP (tf (length (rem s))) _ _) as [t|r] eqn:E; cbn [bind]; [discriminate|].
  rewrite (loopP_mono _ _ _ _ _ (Hle (length (rem s))) E). intros H; exact H.
Qed.

Lemma send_source3F_mono pb s src sink q r : send_source3F tf pb s src sink q = Ok r -> send_source3F tf' pb s src sink q = Ok r.
Proof.
  unfold send_source3F. destruct (negb (q >? 0)); [discriminate|].
  destruct (run_loop 519 _ _ _) as [[root m1]|]; cbn [bind]; [|discriminate].
  destruct (negb (_ >? 0)); [discriminate|].
  destruct (run_loop 532 _ _ _) as [w|]; cbn [bind]; [|discriminate].
  destruct (w_upd w || _); [|intros H; exact H].
  destruct (update_treeF tf _) as [s2|] eqn:E; cbn [bind]; [|discriminate].
  rewrite (update_treeF_mono _ _ E). intros H; exact H.
Qed.

Lemma send_sourceF_mono pb s src s' : send_sourceF tf pb s src = Ok s' -> send_sourceF tf' pb s src = Ok s'.
Proof.
  unfold send_sourceF. apply run_loop_sim.
  - intros [s1 r1] sr'. unfold send_bodyF. destruct (negb (r1 >? 0)); [discriminate|].
    destruct (send_source3F tf pb s1 src _ r1) as [[s2 sent]|] eqn:E; [|discriminate].
    rewrite (send_source3F_mono _ _ _ _ _ _ E). intros H; exact H.
  - intros [s1 r1] a. unfold send_bodyF. destruct (negb (r1 >? 0)); [intros H; exact H|].
    destruct (send_source3F tf pb s1 src _ r1) as [[s2 sent]|] eqn:E; [|discriminate].
    rewrite (send_source3F_mono _ _ _ _ _ _ E). intros H; exact H.
Qed.

Lemma sspF_mono pb x : sspF tf pb = Ok x -> sspF tf' pb = Ok x.
Proof.
  unfold sspF, ssp_runF. destruct (foldM (send_sourceF tf pb) _ _) as [s|] eqn:E; cbn [bind]; [|discriminate].
  rewrite (foldM_sim _ (send_sourceF tf' pb) _ (send_sourceF_mono pb) _ _ E). intros H; exact H.
Qed.
End Mono.

Lemma sspF_fuel_indep tf1 tf2 pb x1 x2 : sspF tf1 pb = Ok x1 -> sspF tf2 pb = Ok x2 -> x1 = x2.
Proof.
  intros H1 H2.
  apply (sspF_mono tf1 (fun n => Pos.max (tf1 n) (tf2 n)) (fun n => Pos.le_max_l _ _)) in H1.
  apply (sspF_mono tf2 (fun n => Pos.max (tf1 n) (tf2 n)) (fun n => Pos.le_max_r _ _)) in H2.
  congruence.
Qed.

Lemma sspF_budget_monotone tf tf' pb x :
  (forall n, (tf n <= tf' n)%positive) -> sspF tf pb = Ok x -> sspF tf' pb = Ok x.
Proof. intros H. exact (sspF_mono tf tf' H pb x). Qed.
