(* CONCRETE model of the row data structure of detailed placement
   (src/place_detailed/detailed_placement.hpp/.cpp, class DetailedPlacement): the per-row doubly
   linked lists kept in the five index arrays cellPred_/cellNext_/cellRow_ (per cell, -1 = none)
   and rowFirstCell_/rowLastCell_ (per row, -1 = empty), plus cellX_/cellY_/cellWidth_/
   cellOrientation_/cellRowPolarity_ and the row geometry rows_.
   Arrays are lists; indices are C++ ints (Z); EVERY access goes through getZ/setZ, which return
   None when the index is out of range (no default value is ever produced).  A C++ `throw` and a
   failing `assert` are None as well.  The abstract model is Moves.v; MovesConcreteProofs.v proves
   that this model refines it.  No proofs in this file. *)
From Coq Require Import List ZArith Lia Bool Arith.
Import ListNotations.
Require Import CV.Orient CV.Moves.
Local Open Scope Z_scope.

(* ---------- arrays ---------- *)
Definition getZ {A} (l : list A) (i : Z) : option A :=
  if i <? 0 then None else nth_error l (Z.to_nat i).

Fixpoint upd {A} (l : list A) (i : nat) (a : A) : list A :=
  match l, i with [], _ => [] | _ :: t, O => a :: t | x :: t, S i' => x :: upd t i' a end.

Definition setZ {A} (l : list A) (i : Z) (a : A) : option (list A) :=
  if i <? 0 then None
  else if (Z.to_nat i <? length l)%nat then Some (upd l (Z.to_nat i) a) else None.

Notation "'do' x <- e ; k" := (match e with Some x => k | None => None end)
  (at level 200, x pattern, e at level 100, k at level 200, only parsing).

(* ---------- state ---------- *)
Record crow := { cr_min : Z; cr_max : Z; cr_y : Z; cr_o : orient }.   (* Row: minX maxX minY orientation *)

Record cstate := {
  c_rows : list crow;        (* rows_ *)
  c_first : list Z;          (* rowFirstCell_ *)
  c_last : list Z;           (* rowLastCell_ *)
  c_width : list Z;          (* cellWidth_ *)
  c_pred : list Z;           (* cellPred_ *)
  c_next : list Z;           (* cellNext_ *)
  c_row : list Z;            (* cellRow_ *)
  c_x : list Z;              (* cellX_ *)
  c_y : list Z;              (* cellY_ *)
  c_orient : list orient;    (* cellOrientation_ *)
  c_pol : list polarity      (* cellRowPolarity_ *)
}.

Definition set_first (cs : cstate) v := {| c_rows := c_rows cs; c_first := v; c_last := c_last cs; c_width := c_width cs;
  c_pred := c_pred cs; c_next := c_next cs; c_row := c_row cs; c_x := c_x cs; c_y := c_y cs; c_orient := c_orient cs; c_pol := c_pol cs |}.
Definition set_last (cs : cstate) v := {| c_rows := c_rows cs; c_first := c_first cs; c_last := v; c_width := c_width cs;
  c_pred := c_pred cs; c_next := c_next cs; c_row := c_row cs; c_x := c_x cs; c_y := c_y cs; c_orient := c_orient cs; c_pol := c_pol cs |}.
Definition set_pred (cs : cstate) v := {| c_rows := c_rows cs; c_first := c_first cs; c_last := c_last cs; c_width := c_width cs;
  c_pred := v; c_next := c_next cs; c_row := c_row cs; c_x := c_x cs; c_y := c_y cs; c_orient := c_orient cs; c_pol := c_pol cs |}.
Definition set_next (cs : cstate) v := {| c_rows := c_rows cs; c_first := c_first cs; c_last := c_last cs; c_width := c_width cs;
  c_pred := c_pred cs; c_next := v; c_row := c_row cs; c_x := c_x cs; c_y := c_y cs; c_orient := c_orient cs; c_pol := c_pol cs |}.
Definition set_row (cs : cstate) v := {| c_rows := c_rows cs; c_first := c_first cs; c_last := c_last cs; c_width := c_width cs;
  c_pred := c_pred cs; c_next := c_next cs; c_row := v; c_x := c_x cs; c_y := c_y cs; c_orient := c_orient cs; c_pol := c_pol cs |}.
Definition set_x (cs : cstate) v := {| c_rows := c_rows cs; c_first := c_first cs; c_last := c_last cs; c_width := c_width cs;
  c_pred := c_pred cs; c_next := c_next cs; c_row := c_row cs; c_x := v; c_y := c_y cs; c_orient := c_orient cs; c_pol := c_pol cs |}.
Definition set_y (cs : cstate) v := {| c_rows := c_rows cs; c_first := c_first cs; c_last := c_last cs; c_width := c_width cs;
  c_pred := c_pred cs; c_next := c_next cs; c_row := c_row cs; c_x := c_x cs; c_y := v; c_orient := c_orient cs; c_pol := c_pol cs |}.
Definition set_orient (cs : cstate) v := {| c_rows := c_rows cs; c_first := c_first cs; c_last := c_last cs; c_width := c_width cs;
  c_pred := c_pred cs; c_next := c_next cs; c_row := c_row cs; c_x := c_x cs; c_y := c_y cs; c_orient := v; c_pol := c_pol cs |}.

Definition nb_cells (cs : cstate) : nat := length (c_width cs).   (* nbCells() = cellWidth_.size() *)
Definition nb_rows (cs : cstate) : nat := length (c_rows cs).     (* nbRows()  = rows_.size() *)

(* ---------- read accessors (detailed_placement.hpp) ---------- *)
Definition cellRow (cs : cstate) (c : Z) : option Z := getZ (c_row cs) c.
Definition cellPred (cs : cstate) (c : Z) : option Z := getZ (c_pred cs) c.
Definition cellNext (cs : cstate) (c : Z) : option Z := getZ (c_next cs) c.
Definition rowFirstCell (cs : cstate) (r : Z) : option Z := getZ (c_first cs) r.
Definition rowLastCell (cs : cstate) (r : Z) : option Z := getZ (c_last cs) r.
Definition cellX (cs : cstate) (c : Z) : option Z := getZ (c_x cs) c.
Definition cellWidth (cs : cstate) (c : Z) : option Z := getZ (c_width cs) c.
(* isPlaced(c): cellRow_[c] != -1 *)
Definition isPlaced (cs : cstate) (c : Z) : option bool :=
  do r <- cellRow cs c; Some (negb (r =? -1)).

(* int boundaryBefore(int c): assert(isPlaced(c)); pred == -1 ? rows_[cellRow(c)].minX : cellX(pred)+cellWidth(pred) *)
Definition boundaryBefore (cs : cstate) (c : Z) : option Z :=
  do pl <- isPlaced cs c;
  if negb pl then None else
  do pred <- cellPred cs c;
  if pred =? -1 then
    do row <- cellRow cs c; do g <- getZ (c_rows cs) row; Some (cr_min g)
  else do x <- cellX cs pred; do w <- cellWidth cs pred; Some (x + w).

(* int boundaryAfter(int c) *)
Definition boundaryAfter (cs : cstate) (c : Z) : option Z :=
  do pl <- isPlaced cs c;
  if negb pl then None else
  do next <- cellNext cs c;
  if next =? -1 then
    do row <- cellRow cs c; do g <- getZ (c_rows cs) row; Some (cr_max g)
  else cellX cs next.

(* int siteBegin(int row, int pred) *)
Definition siteBegin (cs : cstate) (row pred : Z) : option Z :=
  if pred =? -1 then do g <- getZ (c_rows cs) row; Some (cr_min g)
  else do x <- cellX cs pred; do w <- cellWidth cs pred; Some (x + w).

(* int siteEnd(int row, int pred) *)
Definition siteEnd (cs : cstate) (row pred : Z) : option Z :=
  do next <- (if pred =? -1 then rowFirstCell cs row else cellNext cs pred);
  if next =? -1 then do g <- getZ (c_rows cs) row; Some (cr_max g)
  else cellX cs next.

(* rowAllowed(pol, row) *)
Definition rowAllowed (pol : polarity) (g : crow) : bool :=
  negb (orient_eqb (cell_orientation_in_row pol (cr_o g)) oINVALID).

(* bool canPlace(c,row,pred,x): throws when c is placed *)
Definition canPlace (cs : cstate) (c row pred x : Z) : option bool :=
  do pl <- isPlaced cs c;
  if pl then None else
  do sb <- siteBegin cs row pred;
  if negb (sb <=? x) then Some false else                              (* && short-circuits *)
  do w <- cellWidth cs c;
  do se <- siteEnd cs row pred;
  Some (x + w <=? se).

(* bool canInsert(c,row,pred) *)
Definition canInsert (cs : cstate) (c row pred : Z) : option bool :=
  do pl <- isPlaced cs c;
  if negb pl then None else
  if c =? pred then Some false else
  do rc <- cellRow cs c;
  do same <- (if rc =? row then do pc <- cellPred cs c; Some (pc =? pred) else Some false);
  if same then Some false else
  do pol <- getZ (c_pol cs) c;
  do g <- getZ (c_rows cs) row;
  if negb (rowAllowed pol g) then Some false else
  do se <- siteEnd cs row pred;
  do sb <- siteBegin cs row pred;
  do w <- cellWidth cs c;
  Some (w <=? se - sb).

(* bool canSwap(c1,c2) *)
Definition canSwap (cs : cstate) (c1 c2 : Z) : option bool :=
  do pl1 <- isPlaced cs c1;
  if negb pl1 then None else
  do pl2 <- isPlaced cs c2;
  if negb pl2 then None else
  if c1 =? c2 then Some false else
  do pol1 <- getZ (c_pol cs) c1;
  do r2 <- cellRow cs c2;
  do g2 <- getZ (c_rows cs) r2;
  if negb (rowAllowed pol1 g2) then Some false else
  do pol2 <- getZ (c_pol cs) c2;
  do r1 <- cellRow cs c1;
  do g1 <- getZ (c_rows cs) r1;
  if negb (rowAllowed pol2 g1) then Some false else
  do p1 <- cellPred cs c1;
  if p1 =? c2 then Some true else
  do p2 <- cellPred cs c2;
  if p2 =? c1 then Some true else
  do b1 <- boundaryBefore cs c1;
  do b2 <- boundaryBefore cs c2;
  do e1 <- boundaryAfter cs c1;
  do e2 <- boundaryAfter cs c2;
  do w1 <- cellWidth cs c1;
  do w2 <- cellWidth cs c2;
  Some ((w1 <=? e2 - b2) && (w2 <=? e1 - b1)).

(* ---------- void place(int c, int row, int pred, int x) ---------- *)
Definition place (cs : cstate) (c row pred x : Z) : option cstate :=
  do ok <- canPlace cs c row pred x;
  if negb ok then None else                                           (* throw "Cannot place the cell" *)
  do rowv <- setZ (c_row cs) c row;                                   (* cellRow_[c] = row *)
  let cs := set_row cs rowv in
  do pol <- getZ (c_pol cs) c;
  do g <- getZ (c_rows cs) row;
  let o := cell_orientation_in_row pol (cr_o g) in
  do cs <- (if orient_eqb o oUNKNOWN then Some cs                     (* if (orient != UNKNOWN) cellOrientation_[c] = orient *)
            else do ov <- setZ (c_orient cs) c o; Some (set_orient cs ov));
  do next <- (if pred =? -1 then rowFirstCell cs row else cellNext cs pred);
  do cs <- (if pred =? -1 then do v <- setZ (c_first cs) row c; Some (set_first cs v)   (* rowFirstCell_[row] = c *)
            else do v <- setZ (c_next cs) pred c; Some (set_next cs v));               (* cellNext_[pred] = c *)
  do v <- setZ (c_pred cs) c pred;                                    (* cellPred_[c] = pred *)
  let cs := set_pred cs v in
  do cs <- (if next =? -1 then do v <- setZ (c_last cs) row c; Some (set_last cs v)     (* rowLastCell_[row] = c *)
            else do v <- setZ (c_pred cs) next c; Some (set_pred cs v));               (* cellPred_[next] = c *)
  do v <- setZ (c_next cs) c next;                                    (* cellNext_[c] = next *)
  let cs := set_next cs v in
  do v <- setZ (c_x cs) c x;                                          (* cellX_[c] = x *)
  let cs := set_x cs v in
  do v <- setZ (c_y cs) c (cr_y g);                                   (* cellY_[c] = rows_[row].minY *)
  Some (set_y cs v).

(* ---------- void unplace(int c) ---------- *)
Definition unplace (cs : cstate) (c : Z) : option cstate :=
  do row <- cellRow cs c;
  do pred <- cellPred cs c;
  do next <- cellNext cs c;
  do v <- setZ (c_row cs) c (-1);                                     (* cellRow_[c] = -1 *)
  let cs := set_row cs v in
  do cs <- (if pred =? -1 then do v <- setZ (c_first cs) row next; Some (set_first cs v)   (* rowFirstCell_[row] = next *)
            else do v <- setZ (c_next cs) pred next; Some (set_next cs v));               (* cellNext_[pred] = next *)
  do v <- setZ (c_pred cs) c (-1);                                    (* cellPred_[c] = -1 *)
  let cs := set_pred cs v in
  do cs <- (if next =? -1 then do v <- setZ (c_last cs) row pred; Some (set_last cs v)     (* rowLastCell_[row] = pred *)
            else do v <- setZ (c_pred cs) next pred; Some (set_pred cs v));               (* cellPred_[next] = pred *)
  do v <- setZ (c_next cs) c (-1);                                    (* cellNext_[c] = -1 *)
  Some (set_next cs v).

(* Point positionOnInsert(c,row,pred): x only; C++ int division truncates *)
Definition positionOnInsert (cs : cstate) (c row pred : Z) : option Z :=
  do se <- siteEnd cs row pred;
  do w <- cellWidth cs c;
  do sb <- siteBegin cs row pred;
  Some (Z.quot (se - w + sb) 2).

(* void insert(c,row,pred) *)
Definition insert (cs : cstate) (c row pred : Z) : option cstate :=
  do ok <- canInsert cs c row pred;
  if negb ok then None else                                           (* throw "Cannot insert this cell here" *)
  do x <- positionOnInsert cs c row pred;
  do cs <- unplace cs c;
  place cs c row pred x.

(* positionsOnSwap(c1,c2): the two x *)
Definition positionsOnSwap (cs : cstate) (c1 c2 : Z) : option (Z * Z) :=
  do px1 <- cellX cs c1;
  do px2 <- cellX cs c2;
  do p1 <- cellPred cs c1;
  if p1 =? c2 then do w1 <- cellWidth cs c1; Some (px2, px2 + w1) else
  do p2 <- cellPred cs c2;
  if p2 =? c1 then do w2 <- cellWidth cs c2; Some (px1 + w2, px1) else
  do b2 <- boundaryBefore cs c2; do e2 <- boundaryAfter cs c2; do w1 <- cellWidth cs c1;
  do b1 <- boundaryBefore cs c1; do e1 <- boundaryAfter cs c1; do w2 <- cellWidth cs c2;
  Some (Z.quot (b2 + e2 - w1) 2, Z.quot (b1 + e1 - w2) 2).

(* void swap(c1,c2) *)
Definition swap (cs : cstate) (c1 c2 : Z) : option cstate :=
  do ok <- canSwap cs c1 c2;
  if negb ok then None else                                           (* throw "Cannot swap these cells" *)
  do xs <- positionsOnSwap cs c1 c2;
  let '(x1, x2) := xs in
  do r1 <- cellRow cs c1;
  do r2 <- cellRow cs c2;
  do p1 <- cellPred cs c1;
  do p2 <- cellPred cs c2;
  do cs <- unplace cs c1;
  do cs <- unplace cs c2;
  if p1 =? c2 then do cs <- place cs c1 r2 p2 x1; place cs c2 r1 c1 x2
  else if p2 =? c1 then do cs <- place cs c2 r1 p1 x2; place cs c1 r2 c2 x1
  else do cs <- place cs c1 r2 p2 x1; place cs c2 r1 p1 x2.

(* ---------- histories ---------- *)
(* ints of the C++ interface: a cell/row index n is the int n, "no predecessor" is -1 *)
Definition enc (o : option nat) : Z := match o with Some n => Z.of_nat n | None => -1 end.

(* The C++ never checks that `pred` is a cell of `row` (place/insert/canPlace/canInsert would link
   the cell into another row's list): this is an obligation of the caller (DetailedPlacer respects it,
   the harness checks it with the same test).  pred == -1 || cellRow(pred) == row. *)
Definition predOk (cs : cstate) (row pred : Z) : bool :=
  (pred =? -1) || match cellRow cs pred with Some r => r =? row | None => false end.

Definition cop_pre (cs : cstate) (o : mop) : bool :=
  match o with
  | MInsert _ r p | MPlace _ r p _ => predOk cs (Z.of_nat r) (enc p)
  | _ => true
  end.

Definition apply_cop (cs : cstate) (o : mop) : option cstate :=
  match o with
  | MSwap c1 c2 => swap cs (Z.of_nat c1) (Z.of_nat c2)
  | MInsert c r p => insert cs (Z.of_nat c) (Z.of_nat r) (enc p)
  | MUnplace c => unplace cs (Z.of_nat c)
  | MPlace c r p x => place cs (Z.of_nat c) (Z.of_nat r) (enc p) x
  end.

(* an operation that throws, or whose caller obligation fails, is not performed *)
Definition step_cop (cs : cstate) (o : mop) : cstate :=
  if cop_pre cs o then match apply_cop cs o with Some cs' => cs' | None => cs end else cs.

Definition run_cops (cs : cstate) (ops : list mop) : cstate := fold_left step_cop ops cs.

(* ---------- abstraction: rebuild the row lists by walking the pointers ---------- *)
Fixpoint omap {A B} (f : A -> option B) (l : list A) : option (list B) :=
  match l with
  | [] => Some []
  | a :: r => do b <- f a; do r' <- omap f r; Some (b :: r')
  end.

(* the cells from c on, following cellNext_ (rowCells()); fuel bounds the walk, a cell of another
   row or an out-of-range index is an inconsistency *)
Fixpoint walk (cs : cstate) (row : Z) (fuel : nat) (c : Z) : option (list nat) :=
  if c =? -1 then Some [] else
  match fuel with
  | O => None                                                          (* cycle *)
  | S f =>
    do r <- cellRow cs c;
    if negb (r =? row) then None else
    do nx <- cellNext cs c;
    do rest <- walk cs row f nx;
    Some (Z.to_nat c :: rest)
  end.

Definition cell_of (cs : cstate) (c : nat) : option pcell :=
  do x <- nth_error (c_x cs) c;
  do w <- nth_error (c_width cs) c;
  do pol <- nth_error (c_pol cs) c;
  do o <- nth_error (c_orient cs) c;
  Some {| p_id := c; p_x := x; p_w := w; p_pol := pol; p_o := o |}.

Definition abs_row (cs : cstate) (i : nat) : option drow :=
  do g <- nth_error (c_rows cs) i;
  do f <- nth_error (c_first cs) i;
  do l <- walk cs (Z.of_nat i) (nb_cells cs) f;
  do cells <- omap (cell_of cs) l;
  Some {| dr_min := cr_min g; dr_max := cr_max g; dr_y := cr_y g; dr_o := cr_o g; dr_cells := cells |}.

(* unplaced cells, in index order *)
Definition loose_ids (cs : cstate) : list nat :=
  filter (fun c => match nth_error (c_row cs) c with Some r => r =? -1 | None => false end) (seq 0 (nb_cells cs)).

Definition abs (cs : cstate) : option dstate :=
  do rows <- omap (abs_row cs) (seq 0 (nb_rows cs));
  do loose <- omap (cell_of cs) (loose_ids cs);
  Some {| d_rows := rows; d_loose := loose |}.

(* ---------- helpers of the correspondence driver (so that the OCaml side needs no field names) ---------- *)
Definition crow_make (a b y : Z) (o : orient) : crow := {| cr_min := a; cr_max := b; cr_y := y; cr_o := o |}.
Definition cstate_make rows first last width pred next row x y orient pol : cstate :=
  {| c_rows := rows; c_first := first; c_last := last; c_width := width; c_pred := pred; c_next := next;
     c_row := row; c_x := x; c_y := y; c_orient := orient; c_pol := pol |}.
(* rowFirstCell_, rowLastCell_, cellPred_, cellNext_, cellRow_, cellX_, cellY_ *)
Definition cstate_arrays (cs : cstate) : list (list Z) :=
  [c_first cs; c_last cs; c_pred cs; c_next cs; c_row cs; c_x cs; c_y cs].
Definition cstate_orients (cs : cstate) : list orient := c_orient cs.
Definition cstate_abs (cs : cstate) : option dstate := abs cs.
