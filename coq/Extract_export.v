(* Extraction of the export model (DetailedExport.v) for the correspondence run EX of C02 / C04
   (harness/dexport.cpp, ocaml/driver_export.ml, checks/c02_export.py).
   ExtrOcamlBasic only; Z, positive, nat stay the extracted Coq datatypes.  No Extract Constant. *)
From Coq Require Import Extraction ExtrOcamlBasic ZArith List.
Require Import CV.Orient CV.FreeSpace CV.Circuit CV.Moves CV.MovesOrientProofs CV.DetailedInit CV.DetailedExport.
Extraction Language OCaml.
Extraction "model_export.ml"
  DetailedInit.from_circuit MovesOrientProofs.run_dops MovesOrientProofs.step_dop DetailedExport.write_back
  DetailedExport.closed_dop DetailedExport.dop_shift_ok Circuit.legalb Circuit.orient_okb.
