(* C03, static part: the boolean rule evaluated on the generated table implies its Prop-level reading *)
From Coq Require Import List String Bool ZArith Lia.
Import ListNotations.
Require Import CV.CircuitAccess.
Local Open Scope string_scope.

Lemma mem_In : forall s l, mem s l = true <-> In s l.
Proof.
  intros s l. unfold mem. rewrite existsb_exists. split.
  - intros [x [Hx He]]. apply String.eqb_eq in He. subst. exact Hx.
  - intros H. exists s. split; [exact H | apply String.eqb_refl].
Qed.

Lemma mem2_In : forall p l, mem2 p l = true <-> In p l.
Proof.
  intros [a b] l. unfold mem2. rewrite existsb_exists. split.
  - intros [[x y] [Hx He]]. cbn [fst snd] in He. apply andb_true_iff in He. destruct He as [H1 H2].
    apply String.eqb_eq in H1. apply String.eqb_eq in H2. subst. exact Hx.
  - intros H. exists (a, b). split; [exact H|]. cbn [fst snd]. rewrite !String.eqb_refl. reflexivity.
Qed.

Lemma closedb_closed : forall uses s, closedb uses s = true -> closed uses s.
Proof.
  intros uses s H g h Hg Hh. unfold closedb in H. rewrite forallb_forall in H.
  specialize (H g Hg). rewrite forallb_forall in H. apply mem_In. apply H. exact Hh.
Qed.

Theorem circuit_uses_okb_sound : forall uses, circuit_uses_okb uses = true -> uses_ok uses.
Proof.
  intros uses H. unfold circuit_uses_okb in H. cbv zeta in H.
  repeat (apply andb_true_iff in H; destruct H as [H ?]).
  match goal with Hc : closedb uses (reach uses entries) = true |- _ => rename Hc into HcA end.
  match goal with Hc : closedb uses (reach uses [entry_global]) = true |- _ => rename Hc into HcG end.
  exists (reach uses entries), (reach uses [entry_global]).
  split; [apply closedb_closed; exact HcA|].
  split; [apply closedb_closed; exact HcG|].
  match goal with He : forallb (fun e => mem e (reach uses entries)) entries = true |- _ => rename He into HeA end.
  match goal with He : mem entry_global (reach uses [entry_global]) = true |- _ => rename He into HeG end.
  match goal with Hu : forallb (use_okb uses _ _) uses = true |- _ => rename Hu into HU end.
  split; [intros e He; rewrite forallb_forall in HeA; apply mem_In; apply HeA; exact He|].
  split; [apply mem_In; exact HeG|].
  intros u Hu. rewrite forallb_forall in HU. specialize (HU u Hu). unfold use_okb in HU.
  destruct (u_kind u); try exact I; try discriminate HU.
  2:{ apply existsb_exists in HU. destruct HU as [v [Hv He]]. exists v. split; [exact Hv | apply String.eqb_eq; exact He]. }
  apply orb_true_iff in HU. destruct HU as [Hf | Hp].
  - left. apply mem_In. exact Hf.
  - right. apply andb_true_iff in Hp. destruct Hp as [Hp Ho]. apply andb_true_iff in Hp. destruct Hp as [Hp Hm].
    split; [apply mem_In; exact Hp|]. split.
    + apply orb_true_iff in Hm. destruct Hm as [Hm | Hm].
      * left. apply mem2_In. exact Hm.
      * right. apply andb_true_iff in Hm. destruct Hm as [Hd Hm]. split; [apply mem_In; exact Hd|].
        intro Hin. apply mem_In in Hin. rewrite Hin in Hm. discriminate Hm.
    + intros [Hn Hin]. apply mem_In in Hin. rewrite Hin in Ho. rewrite Hn in Ho. rewrite String.eqb_refl in Ho. discriminate Ho.
Qed.

(* the rule is not vacuous: a table in which an algorithm function reachable from an entry point writes a width,
   or moves a cell outside the three modelled functions, or global placement writes an orientation, is refused *)
Definition ex_good : list cuse :=
  [mkU "GlobalPlacer::place" UParam "circuit" 1; mkU "DetailedPlacer::legalize" UParam "circuit" 1; mkU "DetailedPlacer::place" UParam "circuit" 1;
   mkU "GlobalPlacer::place" UPass "GlobalPlacer::exportPlacement" 1;
   mkU "GlobalPlacer::exportPlacement" UWrite "cellX_" 2; mkU "GlobalPlacer::exportPlacement" UWrite "cellY_" 3;
   mkU "DetailedPlacer::legalize" UPass "Legalizer::exportPlacement" 4;
   mkU "Legalizer::exportPlacement" UWrite "cellX_" 5; mkU "Legalizer::exportPlacement" UWrite "cellY_" 6;
   mkU "Legalizer::exportPlacement" UWrite "cellOrientation_" 7;
   mkU "DetailedPlacer::place" UPass "DetailedPlacement::exportPlacement" 8;
   mkU "DetailedPlacement::exportPlacement" UWrite "cellX_" 9; mkU "DetailedPlacement::exportPlacement" UWrite "cellY_" 10;
   mkU "DetailedPlacement::exportPlacement" UWrite "cellOrientation_" 11;
   mkU "NetModel::exportPlacementX" UWrite "cellX_" 12].
Example rule_discriminates :
  circuit_uses_okb ex_good = true /\
  circuit_uses_okb (mkU "GlobalPlacer::exportPlacement" UWrite "cellWidth_" 20 :: ex_good) = false /\
  circuit_uses_okb (mkU "GlobalPlacer::exportPlacement" UWrite "cellOrientation_" 20 :: ex_good) = false /\
  circuit_uses_okb (mkU "GlobalPlacer::place" UPass "NetModel::exportPlacementX" 20 :: ex_good) = false /\
  circuit_uses_okb (mkU "GlobalPlacer::place" UPass "Legalizer::exportPlacement" 20 :: ex_good) = false /\
  circuit_uses_okb (mkU "DetailedPlacer::place" UCallNC "setCellX" 20 :: ex_good) = false /\
  circuit_uses_okb (mkU "DensityLegalizer::run" UOther "cellX_" 20 :: ex_good) = false /\
  (* an unknown helper writing a placement field, even when nothing is seen to reach it *)
  circuit_uses_okb (mkU "detail::nudge" UWrite "cellX_" 20 :: ex_good) = false /\
  (* the circuit handed to a function the table does not describe *)
  circuit_uses_okb (mkU "GlobalPlacer::place" UPass "std::ref" 20 :: ex_good) = false.
Proof. vm_compute. repeat split. Qed.

(* ================================================================================================ C10 *)
Lemma lookup_guarded_In : forall n g, NoDup (map fst modelled_setters) -> In (n, g) modelled_setters -> lookup_guarded n = Some g.
Proof.
  intros n g _ H. unfold modelled_setters in H. cbn [In] in H.
  repeat (destruct H as [H | H]; [inversion H; subst; reflexivity|]). contradiction.
Qed.

Lemma lookup_guarded_Some : forall n g, lookup_guarded n = Some g -> In (n, g) modelled_setters.
Proof.
  intros n g H. unfold lookup_guarded in H.
  destruct (filter (fun p => String.eqb (fst p) n) modelled_setters) as [|p l] eqn:E; [discriminate|].
  inversion H; subst. assert (Hin : In p (p :: l)) by (left; reflexivity). rewrite <- E in Hin.
  apply filter_In in Hin. destruct Hin as [Hin He]. apply String.eqb_eq in He. subst. destruct p; exact Hin.
Qed.

Lemma lookup_guarded_None : forall n, lookup_guarded n = None -> ~ In n (map fst modelled_setters).
Proof.
  intros n H Hin. apply in_map_iff in Hin. destruct Hin as [[a b] [Ha Hin]]. cbn [fst] in Ha. subst a.
  unfold lookup_guarded in H.
  destruct (filter (fun p => String.eqb (fst p) n) modelled_setters) as [|p l] eqn:E; [|discriminate].
  assert (Hf : In (n, b) (filter (fun p => String.eqb (fst p) n) modelled_setters)).
  { apply filter_In. split; [exact Hin | cbn [fst]; apply String.eqb_refl]. }
  rewrite E in Hf. contradiction.
Qed.

Lemma guarded_first_spec : forall m,
  negb (Nat.eqb (m_guard m) 0) && forallb (fun w => Nat.ltb (m_guard m) (snd w)) (m_writes m) = true ->
  m_guard m <> O /\ forall w, In w (m_writes m) -> (m_guard m < snd w)%nat.
Proof.
  intros m H. apply andb_true_iff in H. destruct H as [H1 H2]. split.
  - intro E. rewrite E in H1. discriminate H1.
  - intros w Hw. rewrite forallb_forall in H2. apply Nat.ltb_lt. apply H2. exact Hw.
Qed.

Theorem circuit_methods_okb_sound : forall ms, circuit_methods_okb ms = true -> methods_ok ms.
Proof.
  intros ms H. unfold circuit_methods_okb in H. apply andb_true_iff in H. destruct H as [H HN].
  apply andb_true_iff in H. destruct H as [HM HE]. split; [|split].
  - intros m Hm Hc. rewrite forallb_forall in HM. specialize (HM m Hm). unfold method_okb in HM. rewrite Hc in HM.
    cbv zeta in HM. apply andb_true_iff in HM. destruct HM as [H1 H23]. split; [|split; [|split; [|split; [|split]]]].
    + intros [w [Hw Hs]]. apply orb_true_iff in H1. destruct H1 as [H1 | H1].
      * exfalso. apply negb_true_iff in H1.
        assert (Ht : existsb (fun w => mem (fst w) structural_fields) (m_writes m) = true).
        { apply existsb_exists. exists w. split; [exact Hw | apply mem_In; exact Hs]. }
        rewrite Ht in H1. discriminate H1.
      * apply guarded_first_spec. exact H1.
    + intros g Hg Hnd. rewrite (lookup_guarded_In _ _ Hnd Hg) in H23.
      apply andb_true_iff in H23. destruct H23 as [He _]. apply Bool.eqb_prop in He. subst g. split.
      * intros Hn E. rewrite E in Hn. discriminate Hn.
      * intros Hn. destruct (Nat.eqb (m_guard m) 0) eqn:E; [apply Nat.eqb_eq in E; contradiction | reflexivity].
    + intros [w Hw]. destruct (lookup_guarded (m_name m)) as [g|] eqn:El.
      * left. apply lookup_guarded_Some in El. apply in_map_iff. exists (m_name m, g). split; [reflexivity | exact El].
      * right. apply andb_true_iff in H23. destruct H23 as [_ H3].
        destruct (mem (m_name m) entry_methods) eqn:Ee; [left; apply mem_In; exact Ee|].
        destruct (mem (m_name m) expansion_methods) eqn:Ex; [right; apply mem_In; exact Ex|].
        destruct (m_writes m); [contradiction | discriminate H3].
    + intros He Hns w Hw Hpw. destruct (lookup_guarded (m_name m)) as [g|] eqn:El.
      * exfalso. apply Hns. apply lookup_guarded_Some in El. apply in_map_iff. exists (m_name m, g). split; [reflexivity | exact El].
      * apply andb_true_iff in H23. destruct H23 as [_ H3]. apply mem_In in He. rewrite He in H3.
        apply andb_true_iff in H3. destruct H3 as [H3 _]. apply andb_true_iff in H3. destruct H3 as [_ HG].
        unfold guard_before_pass in HG. rewrite forallb_forall in HG.
        specialize (HG w Hw). rewrite Hpw in HG. cbn [negb orb] in HG. apply existsb_exists in HG.
        destruct HG as [g [Hg Hb]]. apply andb_true_iff in Hb. destruct Hb as [Hn Hl].
        exists g. split; [exact Hg|]. split; [apply String.eqb_eq; exact Hn | apply Nat.ltb_lt; exact Hl].
    + intros He Hns w Hw. destruct (lookup_guarded (m_name m)) as [g|] eqn:El.
      * exfalso. apply Hns. apply lookup_guarded_Some in El. apply in_map_iff. exists (m_name m, g). split; [reflexivity | exact El].
      * apply andb_true_iff in H23. destruct H23 as [_ H3]. apply mem_In in He. rewrite He in H3.
        apply andb_true_iff in H3. destruct H3 as [H3 _]. apply andb_true_iff in H3. destruct H3 as [HW _].
        rewrite forallb_forall in HW. specialize (HW w Hw). apply orb_true_iff in HW. destruct HW as [HW | HW].
        -- left. apply String.eqb_eq. exact HW.
        -- right. exact HW.
    + intros He Hns c Hc'. destruct (lookup_guarded (m_name m)) as [g|] eqn:El.
      * exfalso. apply Hns. apply lookup_guarded_Some in El. apply in_map_iff. exists (m_name m, g). split; [reflexivity | exact El].
      * apply andb_true_iff in H23. destruct H23 as [_ H3]. apply mem_In in He. rewrite He in H3.
        apply andb_true_iff in H3. destruct H3 as [_ HC]. rewrite forallb_forall in HC. apply mem_In. apply HC. exact Hc'.
  - intros p Hp. rewrite forallb_forall in HE. specialize (HE p Hp). apply existsb_exists in HE.
    destruct HE as [m [Hm Hb]]. apply andb_true_iff in Hb. destruct Hb as [Hb Hc]. apply andb_true_iff in Hb.
    destruct Hb as [Hn Hpub]. exists m. split; [exact Hm|]. split; [apply String.eqb_eq; exact Hn|].
    split; [exact Hpub | apply negb_true_iff; exact Hc].
  - intros n Hn'. rewrite forallb_forall in HN. specialize (HN n Hn'). apply existsb_exists in HN.
    destruct HN as [m [Hm Hb]]. apply andb_true_iff in Hb. destruct Hb as [Hb Hc]. apply andb_true_iff in Hb.
    destruct Hb as [Hn Hpub]. exists m. split; [exact Hm|]. split; [apply String.eqb_eq; exact Hn|].
    split; [exact Hpub | apply negb_true_iff; exact Hc].
Qed.

Lemma modelled_setters_nodup : NoDup (map fst modelled_setters).
Proof.
  unfold modelled_setters. cbn [map fst].
  repeat (constructor; [cbn [In]; intro H; repeat (destruct H as [H | H]; [discriminate H|]); exact H|]).
  constructor.
Qed.

(* the rule is not vacuous *)
Definition ex_entries : list cmethod :=
  [mkM "placeGlobal" true false 0 [("@raii:isInUse_", 12); ("@pass:GlobalPlacer::place", 13)] [];
   mkM "placeGlobal" true false 0 [] ["placeGlobal"];
   mkM "legalize" true false 0 [("@raii:isInUse_", 12); ("@pass:DetailedPlacer::legalize", 13)] [];
   mkM "placeDetailed" true false 0 [("@raii:isInUse_", 12); ("@pass:DetailedPlacer::place", 13)] [];
   mkM "place" true false 0 [] ["placeDetailed"; "placeGlobal"]].
Definition ex_methods : list cmethod :=
  (ex_entries ++
   map (fun p : string * bool => mkM (fst p) true false (if snd p then 10%nat else 0%nat) [(("f_" ++ fst p)%string, 20%nat)] []) modelled_setters)%list.
Example methods_rule_discriminates :
  circuit_methods_okb ex_methods = true /\
  (* a guarded setter that lost its guard *)
  circuit_methods_okb (mkM "setRows" true false 0 [("rows_", 20)] [] :: ex_methods) = false /\
  (* a guard that comes after the first write *)
  circuit_methods_okb (mkM "setRows" true false 30 [("rows_", 20)] [] :: ex_methods) = false /\
  (* a new, unknown member function that changes the rows, even guarded *)
  circuit_methods_okb (mkM "clearRows" true false 10 [("rows_", 20)] [] :: ex_methods) = false /\
  (* an unguarded setter of the model that starts changing the structure *)
  circuit_methods_okb (mkM "setCellX" true false 0 [("cellX_", 20); ("cellIsFixed_", 21)] [] :: ex_methods) = false /\
  (* an entry point writing something else than the in-use flag *)
  circuit_methods_okb (mkM "legalize" true false 0 [("cellX_", 20)] [] :: ex_methods) = false /\
  (* an entry point that hands the circuit on BEFORE taking the in-use flag *)
  circuit_methods_okb (mkM "placeDetailed" true false 0 [("@pass:DetailedPlacer::legalize", 10); ("@raii:isInUse_", 12); ("@pass:DetailedPlacer::place", 13)] [] :: ex_methods) = false /\
  circuit_methods_okb (mkM "placeDetailed" true false 0 [("@raii:isInUse_", 12); ("@pass:DetailedPlacer::place", 13)] [] :: ex_methods) = true /\
  (* an entry point that marks the circuit BY HAND (direct assignments to the flag: no exception path) -- around calls of other entry
     points (seeded defect C10-10, inline place(effort)) or before handing the circuit on *)
  circuit_methods_okb (mkM "place" true false 0 [("isInUse_", 970); ("isInUse_", 973)] ["placeDetailed"; "placeGlobal"] :: ex_methods) = false /\
  circuit_methods_okb (mkM "placeDetailed" true false 0 [("isInUse_", 12); ("@pass:DetailedPlacer::place", 13); ("isInUse_", 14)] [] :: ex_methods) = false /\
  (* an entry point that calls a member function which is not an entry point *)
  circuit_methods_okb (mkM "place" true false 0 [] ["placeGlobal"; "setRows"] :: ex_methods) = false /\
  (* a table that lost an entry point (inline member functions of the header not scanned) *)
  circuit_methods_okb (filter (fun m => negb (String.eqb (m_name m) "place")) ex_methods) = false /\
  (* a const member function is not constrained (const-correctness is trusted) *)
  circuit_methods_okb (mkM "hpwl" true true 0 [] [] :: ex_methods) = true.
Proof. vm_compute. repeat split. Qed.
