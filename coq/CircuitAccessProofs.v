(* C03, static part: the boolean rule evaluated on the generated table implies its Prop-level reading *)
From Coq Require Import List String Bool ZArith Lia.
Import ListNotations.
Require Import CV.CircuitAccess.
Local Open Scope string_scope.

Lemma mem_In : forall s l, mem s l = true <-> In s l.
Proof.
  intros s l. unfold mem. rewrite existsb_exists. split.
  - intros [x [Hx He]]. apply String.eqb_eq in He. subst. exact Hx.
  - intros H. exists s. split; [exact H | apply String.eqb_refl].
Qed.

Lemma mem2_In : forall p l, mem2 p l = true <-> In p l.
Proof.
  intros [a b] l. unfold mem2. rewrite existsb_exists. split.
  - intros [[x y] [Hx He]]. cbn [fst snd] in He. apply andb_true_iff in He. destruct He as [H1 H2].
    apply String.eqb_eq in H1. apply String.eqb_eq in H2. subst. exact Hx.
  - intros H. exists (a, b). split; [exact H|]. cbn [fst snd]. rewrite !String.eqb_refl. reflexivity.
Qed.

Lemma closedb_closed : forall uses s, closedb uses s = true -> closed uses s.
Proof.
  intros uses s H g h Hg Hh. unfold closedb in H. rewrite forallb_forall in H.
  specialize (H g Hg). rewrite forallb_forall in H. apply mem_In. apply H. exact Hh.
Qed.

Theorem circuit_uses_okb_sound : forall uses, circuit_uses_okb uses = true -> uses_ok uses.
Proof.
  intros uses H. unfold circuit_uses_okb in H. cbv zeta in H.
  repeat (apply andb_true_iff in H; destruct H as [H ?]).
  match goal with Hc : closedb uses (reach uses entries) = true |- _ => rename Hc into HcA end.
  match goal with Hc : closedb uses (reach uses [entry_global]) = true |- _ => rename Hc into HcG end.
  exists (reach uses entries), (reach uses [entry_global]).
  split; [apply closedb_closed; exact HcA|].
  split; [apply closedb_closed; exact HcG|].
  match goal with He : forallb (fun e => mem e (reach uses entries)) entries = true |- _ => rename He into HeA end.
  match goal with He : mem entry_global (reach uses [entry_global]) = true |- _ => rename He into HeG end.
  match goal with Hu : forallb (use_okb uses _ _) uses = true |- _ => rename Hu into HU end.
  split; [intros e He; rewrite forallb_forall in HeA; apply mem_In; apply HeA; exact He|].
  split; [apply mem_In; exact HeG|].
  intros u Hu. rewrite forallb_forall in HU. specialize (HU u Hu). unfold use_okb in HU.
  destruct (u_kind u); try exact I; try discriminate HU.
  apply orb_true_iff in HU. destruct HU as [Hf | Hp].
  - left. apply mem_In. exact Hf.
  - right. apply andb_true_iff in Hp. destruct Hp as [Hp Ho]. apply andb_true_iff in Hp. destruct Hp as [Hp Hm].
    split; [apply mem_In; exact Hp|]. split.
    + apply orb_true_iff in Hm. destruct Hm as [Hm | Hm].
      * left. apply mem2_In. exact Hm.
      * right. intro Hin. apply mem_In in Hin. rewrite Hin in Hm. discriminate Hm.
    + intros [Hn Hin]. apply mem_In in Hin. rewrite Hin in Ho. rewrite Hn in Ho. rewrite String.eqb_refl in Ho. discriminate Ho.
Qed.

(* the rule is not vacuous: a table in which an algorithm function reachable from an entry point writes a width,
   or moves a cell outside the three modelled functions, or global placement writes an orientation, is refused *)
Definition ex_good : list cuse :=
  [mkU "GlobalPlacer::place" UPass "GlobalPlacer::exportPlacement" 1;
   mkU "GlobalPlacer::exportPlacement" UWrite "cellX_" 2; mkU "GlobalPlacer::exportPlacement" UWrite "cellY_" 3;
   mkU "DetailedPlacer::legalize" UPass "Legalizer::exportPlacement" 4;
   mkU "Legalizer::exportPlacement" UWrite "cellX_" 5; mkU "Legalizer::exportPlacement" UWrite "cellY_" 6;
   mkU "Legalizer::exportPlacement" UWrite "cellOrientation_" 7;
   mkU "DetailedPlacer::place" UPass "DetailedPlacement::exportPlacement" 8;
   mkU "DetailedPlacement::exportPlacement" UWrite "cellX_" 9; mkU "DetailedPlacement::exportPlacement" UWrite "cellY_" 10;
   mkU "DetailedPlacement::exportPlacement" UWrite "cellOrientation_" 11;
   mkU "NetModel::exportPlacementX" UWrite "cellX_" 12].
Example rule_discriminates :
  circuit_uses_okb ex_good = true /\
  circuit_uses_okb (mkU "GlobalPlacer::exportPlacement" UWrite "cellWidth_" 20 :: ex_good) = false /\
  circuit_uses_okb (mkU "GlobalPlacer::exportPlacement" UWrite "cellOrientation_" 20 :: ex_good) = false /\
  circuit_uses_okb (mkU "GlobalPlacer::place" UPass "NetModel::exportPlacementX" 20 :: ex_good) = false /\
  circuit_uses_okb (mkU "GlobalPlacer::place" UPass "Legalizer::exportPlacement" 20 :: ex_good) = false /\
  circuit_uses_okb (mkU "DetailedPlacer::place" UCallNC "setCellX" 20 :: ex_good) = false /\
  circuit_uses_okb (mkU "DensityLegalizer::run" UOther "cellX_" 20 :: ex_good) = false.
Proof. vm_compute. repeat split. Qed.
