(* Model of the linear programme DetailedPlacer::runShiftsOnCells builds
   (src/place_detailed/place_detailed.cpp, lines 425-546) and of the certificate that makes the answer of
   lemon's NetworkSimplex checkable.

   The C++ builds a min-cost-flow network:
     nodes   one per selected cell, two (L, U) per net that has a pin on a selected cell, one `fixed`;
     arcs    positional constraints (from the row structure placement_) and one pair per pin of every touched
             net (from the incremental x model xtopo_);
     supply  +1 at U_net, -1 at L_net;
   solves it with the network simplex and writes  x[c] = potential(cell c) - potential(fixed).
   With lemon's convention  reduced cost(a) = cost(a) + pi(source a) - pi(target a),  potentials with all
   reduced costs >= 0 are exactly the feasible points of
        minimise  sum_net (U_net - L_net)
        subject to  x_next - x_c >= w_c, boundaryBefore(c) <= x_c, x_c + w_c <= boundaryAfter(c),
                    L_net <= pin <= U_net for every pin of every touched net,
   and a flow >= 0 that respects the supplies and is complementary to the potentials proves them optimal.

   The network simplex itself is NOT modelled.  What is modelled, line by line:
     pos_arcs   the three `if`s of the loop "for (int c : cells)" (lines 466-486),
     net_arcs   the loop "for (int net : nets)" (lines 489-505),
     supplies   lines 508-512,
     positions_of  lines 541-545.
   The arcs are emitted row by row (for every cell of every row that is selected) instead of in the order of
   the vector `cells`; the correspondence compares the arc MULTISETS, so the order is immaterial.  A cell of
   `cells` is "selected"; membership is cell_set.count(.) != 0. *)
From Coq Require Import List ZArith Lia Bool.
Import ListNotations.
Require Import CV.Orient CV.Hpwl CV.Moves CV.Optimiser.
Local Open Scope Z_scope.

Inductive snode := NCell (c : nat) | NL (net : nat) | NU (net : nat) | NFixed.

Definition snode_eqb (a b : snode) : bool :=
  match a, b with
  | NCell x, NCell y => Nat.eqb x y
  | NL x, NL y => Nat.eqb x y
  | NU x, NU y => Nat.eqb x y
  | NFixed, NFixed => true
  | _, _ => false
  end.

Definition arc := (snode * snode * Z)%type.          (* source, target, cost *)
Definition a_src (a : arc) : snode := fst (fst a).
Definition a_tgt (a : arc) : snode := snd (fst a).
Definition a_cost (a : arc) : Z := snd a.

Record network := { n_arcs : list arc; n_sup : list (snode * Z) }.

(* cell_set.count(c) != 0 *)
Definition mem (c : nat) (sel : list nat) : bool := existsb (fun s => Nat.eqb s c) sel.

(* ---------- positional arcs (lines 466-486) ----------
   for a selected cell c with successor `next` (None = -1), bb = boundaryBefore(c), ba = boundaryAfter(c),
   prev_sel = cell_set.count(pred) != 0 *)
Definition cell_pos_arcs (sel : list nat) (prev_sel : bool) (bb ba : Z) (c : pcell) (next : option pcell) : list arc :=
  let next_sel := match next with Some n => mem (p_id n) sel | None => false end in
  (match next with
   | Some n => if mem (p_id n) sel then [(NCell (p_id n), NCell (p_id c), - p_w c)] else []    (* two movable cells *)
   | None => [] end) ++
  (if prev_sel then [] else [(NCell (p_id c), NFixed, - bb)]) ++                               (* predecessor fixed *)
  (if next_sel then [] else [(NFixed, NCell (p_id c), ba - p_w c)]).                           (* successor fixed *)

(* walk of one row: bb is the end of the previous cell (or the row's minX) = boundaryBefore of the head;
   boundaryAfter of a cell is the x of its successor (or the row's maxX) *)
Fixpoint row_pos_arcs (sel : list nat) (prev_sel : bool) (bb hi : Z) (l : list pcell) : list arc :=
  match l with
  | [] => []
  | c :: r =>
    (if mem (p_id c) sel
     then cell_pos_arcs sel prev_sel bb (site_end hi r) c (match r with n :: _ => Some n | [] => None end)
     else []) ++
    row_pos_arcs sel (mem (p_id c) sel) (p_x c + p_w c) hi r
  end.

Definition pos_arcs (d : dstate) (sel : list nat) : list arc :=
  flat_map (fun r => row_pos_arcs sel false (dr_min r) (dr_max r) (dr_cells r)) (d_rows d).

(* ---------- net arcs (lines 489-505) ---------- *)
Definition pin_arcs (sel : list nat) (pos : list Z) (net : nat) (p : ipin) : list arc :=
  if mem (fst p) sel
  then [(NCell (fst p), NL net, snd p); (NU net, NCell (fst p), - snd p)]
  else [(NFixed, NL net, nth (fst p) pos 0 + snd p); (NU net, NFixed, - nth (fst p) pos 0 - snd p)].

(* lines 430-438: the nets with a pin on a selected cell, ascending, each once *)
Definition touches (sel : list nat) (net : list ipin) : bool := existsb (fun p => mem (fst p) sel) net.
Definition indexed (nets : list (list ipin)) : list (nat * list ipin) := combine (seq 0 (length nets)) nets.
Definition touched_nets (sel : list nat) (nets : list (list ipin)) : list (nat * list ipin) :=
  filter (fun x => touches sel (snd x)) (indexed nets).

Definition net_arcs (sel : list nat) (pos : list Z) (nets : list (list ipin)) : list arc :=
  flat_map (fun x => flat_map (pin_arcs sel pos (fst x)) (snd x)) (touched_nets sel nets).

(* lines 508-512 *)
Definition supplies (sel : list nat) (nets : list (list ipin)) : list (snode * Z) :=
  flat_map (fun x => [(NU (fst x), 1); (NL (fst x), -1)]) (touched_nets sel nets).

(* the whole network, from the row structure d (placement_), the x model xm (xtopo_) and the vector `cells` *)
Definition shift_net (d : dstate) (xm : incr) (sel : list nat) : network :=
  {| n_arcs := pos_arcs d sel ++ net_arcs sel (ipos xm) (inets xm); n_sup := supplies sel (inets xm) |}.

(* lines 541-545: pos = potential(cell) - potential(fixed) *)
Definition x_of (pi : snode -> Z) (c : nat) : Z := pi (NCell c) - pi NFixed.
Definition assign (sel : list nat) (x : nat -> Z) : list (nat * Z) := map (fun c => (c, x c)) sel.
Definition positions_of (sel : list nat) (pi : snode -> Z) : list (nat * Z) := assign sel (x_of pi).

(* ---------- the certificate ---------- *)
Definition redcost (pi : snode -> Z) (a : arc) : Z := a_cost a + pi (a_src a) - pi (a_tgt a).

(* dual feasibility: every reduced cost is >= 0 *)
Definition dual_feasible (arcs : list arc) (pi : snode -> Z) : bool := forallb (fun a => 0 <=? redcost pi a) arcs.

(* the flow (one value per arc, in the order of the arcs): >= 0, and complementary to the potentials *)
Definition flow_ok (arcs : list arc) (pi : snode -> Z) (f : list Z) : bool :=
  forallb (fun af => (0 <=? snd af) && ((snd af =? 0) || (redcost pi (fst af) =? 0))) (combine arcs f).

Fixpoint node_in (n : snode) (l : list snode) : bool :=
  match l with [] => false | m :: r => snode_eqb m n || node_in n r end.
Fixpoint dedup (l : list snode) : list snode :=
  match l with [] => [] | n :: r => if node_in n r then dedup r else n :: dedup r end.
Definition nodes (arcs : list arc) (sup : list (snode * Z)) : list snode :=
  dedup (map a_src arcs ++ map a_tgt arcs ++ map fst sup).

(* flow leaving n minus flow entering n; the supply of n *)
Definition excess (afs : list (arc * Z)) (n : snode) : Z :=
  fold_right (fun af acc => (if snode_eqb (a_src (fst af)) n then snd af else 0)
                            - (if snode_eqb (a_tgt (fst af)) n then snd af else 0) + acc) 0 afs.
Definition supply (sup : list (snode * Z)) (n : snode) : Z :=
  fold_right (fun sb acc => (if snode_eqb (fst sb) n then snd sb else 0) + acc) 0 sup.
Definition conserve (arcs : list arc) (sup : list (snode * Z)) (f : list Z) : bool :=
  forallb (fun n => excess (combine arcs f) n =? supply sup n) (nodes arcs sup).

(* the wirelength model stores minima / maxima from the sentinels INT_MAX / INT_MIN (Hpwl.fmin, fmax): the
   certificate also asks that the net bounds it is given are on the right side of the sentinels *)
Definition range_ok (sup : list (snode * Z)) (pi : snode -> Z) : bool :=
  forallb (fun sb => match fst sb with
                     | NU _ => INT_MIN <=? pi (fst sb) - pi NFixed
                     | NL _ => pi (fst sb) - pi NFixed <=? INT_MAX
                     | _ => true end) sup.

Definition shift_cert_ok (N : network) (pi : snode -> Z) (f : list Z) : bool :=
  dual_feasible (n_arcs N) pi && flow_ok (n_arcs N) pi f && conserve (n_arcs N) (n_sup N) f && range_ok (n_sup N) pi.

(* ---------- the objective ----------
   x wirelength (IncrNetModel::value of xtopo_) once the updates `ups` have been written *)
Definition write_pos (pos : list Z) (ups : list (nat * Z)) : list Z :=
  fold_left (fun l u => upd l (fst u) (snd u)) ups pos.
Definition xvalue (xm : incr) (ups : list (nat * Z)) : Z :=
  ivalue (incr_build (write_pos (ipos xm) ups) (inets xm)).

(* the write-back loop (lines 541-545): xtopo_.updateCellPos(c, pos) for every selected cell *)
Definition write_updates (s : incr) (ups : list (nat * Z)) : incr :=
  fold_left (fun s u => update_cell_pos s (fst u) (snd u)) ups s.

(* what the correspondence prints *)
Definition arc_code (a : arc) : list Z :=
  let code n := match n with NCell c => [0; Z.of_nat c] | NL k => [1; Z.of_nat k] | NU k => [2; Z.of_nat k] | NFixed => [3; 0] end in
  code (a_src a) ++ code (a_tgt a) ++ [a_cost a].

(* ---------- the shift pass as a step of the optimiser state (Optimiser.v) ----------
   only xtopo_ is written (lines 541-545); ytopo_ is not touched *)
Definition oshift (s : ostate) (ups : list (nat * Z)) : ostate := {| ox := write_updates (ox s) ups; oy := oy s |}.

(* histories mixing best-move calls / reorderings (Optimiser.ostep) and shift passes; a shift pass carries the
   row structure it was run on, the selected cells, and the solver's potentials and flow *)
Inductive cstep :=
| CO (o : ostep)
| CS (d : dstate) (sel : list nat) (pi : snode -> Z) (f : list Z).
Definition cstep_run (s : ostate) (st : cstep) : ostate :=
  match st with
  | CO o => ostep_run s o
  | CS d sel pi f => oshift s (positions_of sel pi)
  end.
Definition csteps_run (s : ostate) (l : list cstep) : ostate := fold_left cstep_run l s.
