(* C07 <- C18: the three operations of expandCellsToDensity / expandCellsByFactor that C07's listing tie left ENotListed
   (LinksC18.v lists their values) are defined -- no signed overflow of `++newW`, no out-of-range double -> long long /
   double -> int conversion -- under input conditions stated on the ARGUMENTS; witnesses just outside.  Proofs only. *)
From Coq Require Import ZArith Reals Psatz Lra Lia List Bool.
From Flocq Require Import Core BinarySingleNaN.
Require Import CV.Orient CV.FreeSpace CV.Expand CV.ExpandProofs CV.SpreadFloat CV.SpreadFloatProofs.
Require Import CV.ExpandFloat CV.ExpandFloatBase CV.ExpandFloatProofs CV.ExpandFloatCarry CV.ExpandFloatArea
               CV.ExpandFloatTotal CV.ExpandFloatFactor.
Require Import CV.LinksC18.
Import ListNotations.
Local Open Scope R_scope.
Local Existing Instance ExpandFloatBase.prec53.
Local Existing Instance ExpandFloatBase.valid64.

(* ================================================================== (i) ++newW *)

Lemma carry_inc_vals_bound : forall fuel h w m w' m',
  carry_loop_f fuel h w m = Some (w', m') -> Forall (fun v => (w < v <= w')%Z) (carry_inc_vals fuel h w m).
Proof.
  induction fuel as [|fuel IH]; intros h w m w' m' H; cbn [carry_loop_f] in H; cbn [carry_inc_vals];
    destruct (Bleb (d_of_Z h) m); try discriminate H; try (constructor; fail).
  pose proof (carry_loop_f_ge _ _ _ _ _ _ H) as Hge.
  constructor; [lia|]. eapply Forall_impl; [|apply (IH _ _ _ _ _ H)]. cbv beta. intros v Hv. lia.
Qed.

Lemma cell_inc_vals_bound : forall f cap k m k' m', processed k = true ->
  expand_cell_f f cap k m = Some (k', m') ->
  Forall (fun v => (Btrunc (frac_width_f f cap k) < v <= e_w k')%Z) (cell_inc_vals f cap k m).
Proof.
  intros f cap k m k' m' P H. unfold expand_cell_f in H. unfold cell_inc_vals. rewrite P in *. cbv zeta in *.
  destruct (carry_loop_f _ _ _ _) as [[w' m2]|] eqn:L; [|discriminate H]. inversion H; subst k' m'.
  cbn [set_w e_w]. eapply carry_inc_vals_bound. exact L.
Qed.

(* the new width of one processed cell stays below 2^31 when  h * fracW + H + 2^-20 <= h * 2^31,  H > missingArea *)
Lemma expand_cell_f_width_lt : forall f cap k (m : f64) k' m' (H : Z),
  processed k = true -> (e_h k < 2 ^ 31)%Z -> (H <= 2 ^ 31)%Z ->
  is_finite m = true -> 0 <= B2R m < IZR H -> fw_ok f cap k ->
  IZR (e_h k) * B2R (frac_width_f f cap k) + IZR H + bpow radix2 (-20) <= IZR (e_h k) * bpow radix2 31 ->
  expand_cell_f f cap k m = Some (k', m') -> (0 <= e_w k' < 2 ^ 31)%Z.
Proof.
  intros f cap k m k' m' H P Hh HH Fm Hm Ok Hc E.
  assert (H31 : IZR H <= bpow radix2 31).
  { change (bpow radix2 31) with (IZR (2 ^ 31)). apply IZR_le. exact HH. }
  destruct (expand_cell_f_spec f cap k m k' m' P Hh Fm ltac:(lra) Ok E) as (_ & _ & R1 & A1).
  destruct (processed_spec k P) as (_ & Ph & _). destruct (Ok P) as [Ff Hf].
  assert (Rh : 1 <= IZR (e_h k)) by (apply (IZR_le 1); lia).
  apply Rabs_le_inv in A1.
  split.
  - pose proof (cell_inc_vals_bound f cap k m k' m' P E) as B.
    unfold expand_cell_f in E. rewrite P in E. cbv zeta in E.
    destruct (carry_loop_f _ _ _ _) as [[w' m2]|] eqn:L; [|discriminate E]. inversion E; subst k' m'. cbn [set_w e_w].
    pose proof (carry_loop_f_ge _ _ _ _ _ _ L) as G. rewrite Btrunc_Ztrunc in G.
    assert (0 <= Ztrunc (B2R (frac_width_f f cap k)))%Z; [|lia].
    rewrite Ztrunc_floor by lra. apply Zfloor_lub. simpl. lra.
  - apply lt_IZR. change (IZR (2 ^ 31)) with (bpow radix2 31). nra.
Qed.

Definition inc_cond (f cap : f64) (H : Z) (k : ecell) : Prop :=
  processed k = true ->
  IZR (e_h k) * B2R (frac_width_f f cap k) + IZR H + bpow radix2 (-20) <= IZR (e_h k) * bpow radix2 31.

(* [F] the whole loop: every value stored by ++newW is an int, and so is every new width *)
Lemma cells_inc_vals_ok : forall f cap (H : Z), (H <= 2 ^ 31)%Z -> forall cells (m : f64),
  int_sizes cells -> Forall (fw_ok f cap) cells -> Forall (fun k => (e_h k <= H)%Z) cells ->
  Forall (inc_cond f cap H) cells ->
  is_finite m = true -> 0 <= B2R m < IZR H ->
  Forall in_int (cells_inc_vals f cap cells m) /\
  exists cells' m', expand_cells_f f cap cells m = Some (cells', m') /\ Forall (fun k => (0 <= e_w k < 2 ^ 31)%Z) cells'.
Proof.
  intros f cap H HH. induction cells as [|k r IH]; intros m Hs Ok Hb Hc Fm Hm.
  - split; [constructor|]. exists [], m. split; [reflexivity|constructor].
  - inversion Hs as [|? ? [Hw Hh] Hs']; subst. inversion Ok as [|? ? Ok1 Ok']; subst.
    inversion Hb as [|? ? Hb1 Hb']; subst. inversion Hc as [|? ? Hc1 Hc']; subst.
    assert (H31 : IZR H <= bpow radix2 31).
    { change (bpow radix2 31) with (IZR (2 ^ 31)). apply IZR_le. exact HH. }
    pose proof (expand_cell_f_total f cap k m ltac:(lia) Fm ltac:(lra) Ok1) as T.
    destruct (expand_cell_f f cap k m) as [[k1 m1]|] eqn:E1; [|contradiction].
    cbn [cells_inc_vals expand_cells_f]. rewrite E1.
    destruct (processed k) eqn:P.
    + destruct (expand_cell_f_spec f cap k m k1 m1 P ltac:(lia) Fm ltac:(lra) Ok1 E1) as (_ & F1 & R1 & _).
      assert (R1' : 0 <= B2R m1 < IZR H).
      { split; [apply R1|]. eapply Rlt_le_trans; [apply R1|]. apply IZR_le. exact Hb1. }
      destruct (IH m1 Hs' Ok' Hb' Hc' F1 R1') as (IV & cs' & m2 & E2 & W2).
      pose proof (expand_cell_f_width_lt f cap k m k1 m1 H P ltac:(lia) HH Fm Hm Ok1 (Hc1 P) E1) as W1.
      split.
      * apply Forall_app. split; [|exact IV].
        pose proof (cell_inc_vals_bound f cap k m k1 m1 P E1) as B.
        destruct (Ok1 P) as [Ff Hf].
        assert (T0 : (0 <= Btrunc (frac_width_f f cap k))%Z).
        { rewrite Btrunc_Ztrunc, Ztrunc_floor by lra. apply Zfloor_lub. simpl. lra. }
        eapply Forall_impl; [|exact B]. cbv beta. intros v Hv. unfold in_int. lia.
      * rewrite E2. exists (k1 :: cs'), m2. split; [reflexivity|]. constructor; assumption.
    + rewrite (expand_cell_f_unprocessed f cap k m P) in E1. inversion E1; subst k1 m1.
      destruct (IH m Hs' Ok' Hb' Hc' Fm Hm) as (IV & cs' & m2 & E2 & W2).
      split.
      * unfold cell_inc_vals. rewrite P. exact IV.
      * rewrite E2. exists (k :: cs'), m2. split; [reflexivity|]. constructor; assumption.
Qed.

(* fracW never exceeds a finite cap *)
Lemma frac_width_f_le_cap : forall (f cap : f64) k, is_finite f = true -> 1 <= B2R f <= bpow radix2 63 ->
  (0 <= e_w k < 2 ^ 31)%Z -> is_finite cap = true -> B2R (frac_width_f f cap k) <= B2R cap.
Proof.
  intros f cap k Ff Hf Hw Fc.
  destruct (d_of_Z_exact (e_w k) (abs31 _ Hw)) as [W1 W2]. pose proof (IZR31 (e_w k) Hw) as W0.
  pose proof (bpow_gt_0 radix2 63) as P63.
  destruct (dmul_correct (d_of_Z (e_w k)) f W2 Ff) as [M1 M2].
  { rewrite W1, Rabs_pos_eq by nra. apply Rle_trans with (bpow radix2 31 * bpow radix2 63); [nra|].
    rewrite <- bpow_plus. apply bpow_le. lia. }
  unfold frac_width_f. destruct (Bltb cap (dmul (d_of_Z (e_w k)) f)) eqn:C; [lra|].
  pose proof (dltb_false_ge _ _ Fc M2 C) as L. lra.
Qed.

(* [F] (i) at the level of the function's arguments: finite target <= 1, int sizes, areas below 2^63, a finite cap
   maxRowWidth * maxExpandedWidth >= 0 with  cap + H + 1 <= 2^31,  H >= every cell height: every ++newW stores an int and
   every new width is an int *)
Theorem density_inc_vals_ok : forall (t m mew : f64) c (H : Z),
  is_finite t = true -> B2R t <= 1 -> int_sizes (e_cells c) ->
  (movable_area (e_cells c) < 2 ^ 63)%Z -> (row_placement_area_f m c < 2 ^ 63)%Z ->
  is_finite (cap_f mew c) = true -> 0 <= B2R (cap_f mew c) ->
  (1 <= H <= 2 ^ 31)%Z -> Forall (fun k => (e_h k <= H)%Z) (e_cells c) ->
  B2R (cap_f mew c) + IZR H + 1 <= bpow radix2 31 ->
  Forall in_int (density_inc_vals t m mew c) /\
  (forall c' b, expand_to_density_f_br t m mew c = Some (c', b) -> Forall (fun k => (0 <= e_w k < 2 ^ 31)%Z) (e_cells c')).
Proof.
  intros t m mew c H Ft Ht Hs Hca Hra Fc Hc0 HH Hb Hcap.
  assert (W0 : Forall (fun k => (0 <= e_w k < 2 ^ 31)%Z) (e_cells c)).
  { eapply Forall_impl; [|exact Hs]. cbv beta. intros k [A _]. exact A. }
  assert (RH : 1 <= IZR H) by (apply (IZR_le 1); lia).
  unfold density_inc_vals, expand_to_density_f_br.
  destruct ((movable_area (e_cells c) =? 0)%Z || (row_placement_area_f m c =? 0)%Z) eqn:Z0.
  { split; [constructor|]. intros c' b E. inversion E; subst. exact W0. }
  destruct (Bleb t _) eqn:D.
  { split; [constructor|]. intros c' b E. inversion E; subst. exact W0. }
  apply orb_false_iff in Z0. destruct Z0 as [Z1 Z2]. apply Z.eqb_neq in Z1. apply Z.eqb_neq in Z2.
  destruct (to_density_f_factor t m c Ft Ht Hs Hca Hra Z1 Z2 D) as [Ff Hf]. cbv zeta in Ff, Hf.
  set (f := ddiv t (density_f (movable_area (e_cells c)) (row_placement_area_f m c))) in *.
  assert (Hc31 : 0 <= B2R (cap_f mew c) < bpow radix2 31) by lra.
  assert (Ok : Forall (fw_ok f (cap_f mew c)) (e_cells c)).
  { eapply Forall_impl; [|exact Hs]. cbv beta. intros k [Hw _]. apply fw_ok_of_cap; assumption. }
  assert (Ic : Forall (inc_cond f (cap_f mew c) H) (e_cells c)).
  { eapply Forall_impl; [|exact Hs]. cbv beta. intros k [Hw Hh] P.
    destruct (processed_spec k P) as (_ & Ph & _).
    assert (Rh : 1 <= IZR (e_h k)) by (apply (IZR_le 1); lia).
    pose proof (frac_width_f_le_cap f (cap_f mew c) k Ff Hf Hw Fc) as Lc.
    assert (B20 : bpow radix2 (-20) <= 1) by (rewrite bpow_m20; lra).
    nra. }
  destruct (cells_inc_vals_ok f (cap_f mew c) H ltac:(lia) (e_cells c) (B754_zero false) Hs Ok Hb Ic eq_refl)
    as (IV & cs' & m2 & E2 & W2).
  { cbn [B2R]. lra. }
  split; [exact IV|]. intros c' b E. rewrite E2 in E. inversion E; subst. exact W2.
Qed.

(* ================================================================== (iii) static_cast<int>(cellWidth * (double)e) *)

Lemma fmt64_2p31m1 : fmt64 (bpow radix2 31 - 1).
Proof. replace (bpow radix2 31 - 1) with (IZR 2147483647) by (rewrite bpow_31; lra). apply fmt64_IZR. simpl. lia. Qed.

(* one conversion: a finite factor >= 0 with  w * e <= 2^31 - 1 *)
Lemma scaled_width_conv_ok : forall (w : Z) (e : f32), (0 <= w < 2 ^ 31)%Z -> is_finite e = true -> 0 <= B2R e ->
  IZR w * B2R e <= bpow radix2 31 - 1 -> conv_int_ok (scaled_width_f w e).
Proof.
  intros w e Hw Fe He Hp.
  destruct (d_of_Z_exact w (abs31 w Hw)) as [W1 W2]. destruct (d_of_f_correct e Fe) as [E1 E2].
  pose proof (IZR31 w Hw) as W0.
  destruct (dmul_correct (d_of_Z w) (d_of_f e) W2 E2) as [M1 M2].
  { rewrite W1, E1, Rabs_pos_eq by nra. apply Rle_trans with (bpow radix2 31); [lra|apply bpow_le; lia]. }
  rewrite W1, E1 in M1. unfold scaled_width_f, conv_int_ok. split; [exact M2|]. rewrite M1.
  pose proof (rnd64_nonneg (IZR w * B2R e) ltac:(nra)).
  pose proof (rnd64_le_fmt (IZR w * B2R e) _ fmt64_2p31m1 Hp). pose proof (bpow_gt_0 radix2 31). lra.
Qed.

(* the adjusted factor (float)(1.0 + (e - 1.0) * ratio) is not above e when 0 <= ratio <= 1 and 1 <= e <= 2^31 *)
Lemma adjust_f_le : forall (ratio : f64) (e : f32), is_finite ratio = true -> 0 <= B2R ratio <= 1 ->
  is_finite e = true -> 1 <= B2R e <= bpow radix2 31 ->
  is_finite (adjust_f ratio e) = true /\ 1 <= B2R (adjust_f ratio e) <= B2R e.
Proof.
  intros ratio e Fr Hr Fe He.
  assert (Ok100 : factor_ok (bpow radix2 100) e).
  { split; [exact Fe|]. split; [lra|]. apply Rle_trans with (bpow radix2 31); [lra|apply bpow_le; lia]. }
  destruct (adjust_f_range ratio e Fr Hr Ok100) as [Fa [La _]]. split; [exact Fa|]. split; [exact La|].
  assert (B31 : bpow radix2 31 <= bpow radix2 1023) by (apply bpow_le; lia).
  assert (B127 : bpow radix2 31 <= bpow radix2 127) by (apply bpow_le; lia).
  destruct (d_of_f_correct e Fe) as [E1 E2]. destruct done_correct as [O1 O2].
  assert (Fe64 : fmt64 (B2R e)) by (apply fmt32_fmt64; apply B2R_fmt32).
  destruct (dsub_correct (d_of_f e) done E2 O2) as [S1 S2].
  { rewrite E1, O1, Rabs_pos_eq by lra. lra. }
  rewrite E1, O1 in S1.
  assert (Fx : fmt64 (B2R e - 1)).
  { apply (fmt64_minus_int (B2R e) 1 Fe64); [lra|]. apply Rle_lt_trans with (bpow radix2 31); [lra|apply bpow_lt; lia]. }
  rewrite (rnd64_id _ Fx) in S1.
  destruct (dmul_correct _ ratio S2 Fr) as [M1 M2].
  { rewrite S1, Rabs_pos_eq by nra. nra. }
  rewrite S1 in M1.
  assert (Rm : 0 <= B2R (dmul (dsub (d_of_f e) done) ratio) <= B2R e - 1).
  { rewrite M1. split; [apply rnd64_nonneg; nra|apply rnd64_le_fmt; [exact Fx|nra]]. }
  destruct (dadd_correct done _ O2 M2) as [A1 A2].
  { rewrite O1, Rabs_pos_eq by lra. lra. }
  rewrite O1 in A1.
  assert (Ra : 1 <= B2R (dadd done (dmul (dsub (d_of_f e) done) ratio)) <= B2R e).
  { rewrite A1. split; [apply rnd64_ge; [apply fmt64_1|lra]|apply rnd64_le_fmt; [exact Fe64|lra]]. }
  destruct (f_of_d_correct _ A2) as [F1 _].
  { rewrite Rabs_pos_eq by lra. lra. }
  unfold adjust_f. rewrite F1.
  apply Rle_trans with (rnd32 (B2R e)); [apply rnd32_le; lra|]. rewrite (rnd32_id (B2R e) (B2R_fmt32 e)). lra.
Qed.

Definition width_cond (k : ecell) (e : f32) : Prop :=
  e_fixed k = false -> IZR (e_w k) * B2R e <= bpow radix2 31 - 1.

Lemma width_conv_vals_ok : forall cells es es',
  Forall (fun k => (0 <= e_w k < 2 ^ 31)%Z) cells -> length es = length cells -> length es' = length es ->
  Forall2 width_cond cells es ->
  Forall2 (fun e e' => is_finite e' = true /\ 1 <= B2R e' /\ (B2R e <= bpow radix2 31 -> B2R e' <= B2R e)) es es' ->
  Forall (fun e => 1 <= B2R e) es ->
  Forall conv_int_ok (width_conv_vals cells es').
Proof.
  unfold width_conv_vals.
  induction cells as [|k r IH]; intros es es' Hw L L' Hc Hadj H1; [constructor|].
  destruct es as [|e er]; [discriminate L|]. destruct es' as [|e' er']; [discriminate L'|].
  inversion Hw; subst. inversion Hc; subst. inversion Hadj as [|? ? ? ? (Fe' & L1 & Le) Hadj']; subst. inversion H1; subst.
  cbn [combine flat_map fst snd]. apply Forall_app. split.
  - destruct (e_fixed k) eqn:Fx; [constructor|]. constructor; [|constructor].
    match goal with Hc1 : width_cond k e |- _ => specialize (Hc1 Fx); rename Hc1 into Hp end.
    match goal with Hk : (0 <= e_w k < 2 ^ 31)%Z |- _ => rename Hk into Hk0 end.
    apply scaled_width_conv_ok; [exact Hk0|exact Fe'|lra|].
    destruct (Z.eq_dec (e_w k) 0) as [Z0|Z0].
    + rewrite Z0. pose proof (bpow_gt_0 radix2 31). rewrite bpow_31. lra.
    + assert (W1 : 1 <= IZR (e_w k)) by (apply (IZR_le 1); lia).
      assert (E31 : B2R e <= bpow radix2 31) by nra.
      specialize (Le E31). nra.
  - eapply IH; try eassumption; simpl in L, L'; lia.
Qed.

(* [F] (iii) at the level of the function's arguments: finite factors in [1, 2^100], finite maxDensity, int sizes, the three
   areas in the range of long long, and  width_i * factor_i <= 2^31 - 1  for every movable cell (the factors the CALLER
   passes: the adjusted factors are not above them): every conversion of the last loop is defined *)
Theorem factor_conv_vals_ok : forall es maxD m c,
  int_sizes (e_cells c) -> Forall (factor_ok (bpow radix2 100)) es -> is_finite maxD = true ->
  (movable_area (e_cells c) < 2 ^ 63)%Z -> (row_placement_area_f m c < 2 ^ 63)%Z ->
  (Z.abs (expanded_area_f (e_cells c) es 0) < 2 ^ 63)%Z ->
  Forall2 width_cond (e_cells c) es ->
  Forall conv_int_ok (factor_conv_vals es maxD m c).
Proof.
  intros es maxD m c Hs He Fm Hca Hra Hea Hc. unfold factor_conv_vals.
  destruct (Nat.eqb (length es) (length (e_cells c))) eqn:L; cbn [negb]; [|constructor]. apply Nat.eqb_eq in L.
  destruct (existsb (fun e => Bltb e f_0_999) es); [constructor|].
  destruct ((movable_area (e_cells c) =? 0)%Z || (row_placement_area_f m c =? 0)%Z) eqn:Z0; [constructor|].
  destruct (Bleb maxD _) eqn:D; [constructor|].
  apply orb_false_iff in Z0. destruct Z0 as [Z1 Z2]. apply Z.eqb_neq in Z1. apply Z.eqb_neq in Z2.
  pose proof (movable_area_nonneg _ (int_sizes_nonneg _ Hs)) as Pca. pose proof (row_area_f_nonneg m c) as Pra.
  set (ca := movable_area (e_cells c)) in *. set (ra := row_placement_area_f m c) in *.
  destruct (density_f_range ca ra) as [Fd [Ld Ud]]; [lia|lia|].
  destruct (density_f_finite (expanded_area_f (e_cells c) es 0) ra Hea) as [Fe Ue]; [lia|].
  assert (W0 : Forall (fun k => (0 <= e_w k < 2 ^ 31)%Z) (e_cells c)).
  { eapply Forall_impl; [|exact Hs]. cbv beta. intros k [A _]. exact A. }
  assert (H1 : Forall (fun e => 1 <= B2R e) es).
  { eapply Forall_impl; [|exact He]. intros e [_ [A _]]. exact A. }
  destruct (Bltb maxD _) eqn:X.
  - pose proof (dltb_lt _ _ Fm Fe X) as L2. pose proof (dleb_false_gt _ _ Fm Fd D) as L1.
    destruct (ratio_f_range maxD _ _ Fm Fd Fe) as [Fr Hr]; try assumption.
    { pose proof (bpow_gt_0 radix2 (-63)). lra. }
    { eapply Rle_trans; [apply Rle_abs|exact Ue]. }
    set (rt := ratio_f maxD (density_f ca ra) (density_f (expanded_area_f (e_cells c) es 0) ra)) in *. clearbody rt.
    eapply width_conv_vals_ok with (es := es); try eassumption.
    + apply map_length.
    + clear - He Fr Hr. induction es as [|e er IH]; [constructor|]. inversion He as [|? ? He1 He']; subst.
      cbn [map]. constructor; [|apply IH; exact He'].
      destruct (adjust_f_range _ e Fr Hr He1) as [Fa [La _]]. split; [exact Fa|]. split; [exact La|].
      intros E31. destruct He1 as [Fe1 [Le1 _]].
      destruct (adjust_f_le _ e Fr Hr Fe1 ltac:(lra)) as (_ & _ & G). exact G.
  - eapply width_conv_vals_ok with (es := es); try eassumption; [reflexivity|].
    clear - He. induction es as [|e er IH]; [constructor|]. inversion He as [|? ? [Fe1 [Le1 _]] He']; subst.
    constructor; [|apply IH; exact He']. split; [exact Fe1|]. split; [exact Le1|]. intros _. lra.
Qed.

(* ================================================================== (ii) expandedArea += (double)e * area(i) *)

Lemma bpow_63 : bpow radix2 63 = 9223372036854775808. Proof. reflexivity. Qed.
Lemma bpow_12 : bpow radix2 12 = 4096. Proof. reflexivity. Qed.

(* rounding a value in [0, 2^63] to binary64 adds at most 2^10 + 2^-1075 *)
Lemma rnd64_add_err : forall x, 0 <= x <= bpow radix2 63 -> rnd64 x <= x + 1024 + bpow radix2 (-1075).
Proof.
  intros x Hx. pose proof (rnd64_err x) as E. apply Rabs_le_inv in E. rewrite Rabs_pos_eq in E by lra.
  rewrite bpow_m53 in E. rewrite bpow_63 in Hx. lra.
Qed.

(* one step: acc >= 0, a finite factor >= 0, an area in [0, 2^53), acc + e * a + 2^12 <= 2^63 *)
Lemma expanded_step_ok : forall (acc : Z) (e : f32) (a : Z), (0 <= acc)%Z -> is_finite e = true -> 0 <= B2R e ->
  (0 <= a < 2 ^ 53)%Z -> IZR acc + B2R e * IZR a + bpow radix2 12 <= bpow radix2 63 ->
  conv_ll_ok (expanded_step_f acc e a) /\ (0 <= Btrunc (expanded_step_f acc e a))%Z /\
  IZR (Btrunc (expanded_step_f acc e a)) <= IZR acc + B2R e * IZR a + bpow radix2 12 /\
  IZR (Btrunc (expanded_step_f acc e a)) < bpow radix2 63.
Proof.
  intros acc e a Hacc Fe He Ha Hb.
  assert (Pa : 0 <= IZR a) by (apply IZR_le; lia). assert (Pacc : 0 <= IZR acc) by (apply IZR_le; lia).
  assert (Pp : 0 <= B2R e * IZR a) by nra.
  rewrite bpow_12, bpow_63 in Hb.
  assert (B63 : bpow radix2 63 <= bpow radix2 1023) by (apply bpow_le; lia). rewrite bpow_63 in B63.
  destruct eta_small as [Eta0 Eta]. rewrite bpow_m30 in Eta.
  destruct (d_of_Z_correct acc) as [C1 C2].
  { apply Z.abs_le. split; [lia|]. apply Z.le_trans with (2 ^ 63)%Z; [|apply Z.pow_le_mono_r; lia].
    apply le_IZR. change (IZR (2 ^ 63)) with 9223372036854775808. lra. }
  destruct (d_of_Z_exact a) as [A1 A2]; [apply Z.abs_lt; lia|].
  destruct (d_of_f_correct e Fe) as [E1 E2].
  destruct (dmul_correct (d_of_f e) (d_of_Z a) E2 A2) as [M1 M2].
  { rewrite E1, A1, Rabs_pos_eq by lra. lra. }
  rewrite E1, A1 in M1.
  pose proof (rnd64_add_err (IZR acc) ltac:(rewrite bpow_63; lra)) as R1.
  pose proof (rnd64_add_err (B2R e * IZR a) ltac:(rewrite bpow_63; lra)) as R2.
  pose proof (rnd64_nonneg _ Pacc) as N1. pose proof (rnd64_nonneg _ Pp) as N2.
  destruct (dadd_correct (d_of_Z acc) (dmul (d_of_f e) (d_of_Z a)) C2 M2) as [S1 S2].
  { rewrite C1, M1, Rabs_pos_eq by lra. lra. }
  rewrite C1, M1 in S1.
  pose proof (rnd64_add_err (rnd64 (IZR acc) + rnd64 (B2R e * IZR a)) ltac:(rewrite bpow_63; lra)) as R3.
  pose proof (rnd64_nonneg (rnd64 (IZR acc) + rnd64 (B2R e * IZR a)) ltac:(lra)) as N3.
  unfold expanded_step_f in *. set (x := dadd (d_of_Z acc) (dmul (d_of_f e) (d_of_Z a))) in *.
  assert (X : 0 <= B2R x < IZR acc + B2R e * IZR a + 4096) by (rewrite S1; lra).
  rewrite Btrunc_Ztrunc, Ztrunc_floor by lra. pose proof (Zfloor_lb (B2R x)) as Fl.
  split; [split; [exact S2|rewrite bpow_63; lra]|]. split; [apply Zfloor_lub; simpl; lra|].
  rewrite bpow_12, bpow_63. split; lra.
Qed.

Definition ll_dom (cells : list ecell) (es : list f32) : Prop :=
  Forall (fun k => e_fixed k = false -> (0 <= cell_area k < 2 ^ 53)%Z) cells /\
  Forall (fun e => is_finite e = true /\ 0 <= B2R e) es.

Lemma expanded_exact_nonneg : forall cells es, ll_dom cells es -> 0 <= expanded_exact cells es.
Proof.
  induction cells as [|k r IH]; intros es [Hk He]; [simpl; lra|]. destruct es as [|e er]; [simpl; lra|].
  inversion Hk as [|? ? Hk1 Hk']; subst. inversion He as [|? ? [_ He1] He']; subst.
  cbn [expanded_exact]. pose proof (IH er (conj Hk' He')). destruct (e_fixed k) eqn:Fx; [lra|].
  destruct (Hk1 eq_refl) as [A _]. apply IZR_le in A. nra.
Qed.

(* [F] (ii): the loop from any acc in [0, 2^63): every converted double is in the range of long long *)
Lemma expanded_conv_vals_ok : forall cells es (acc : Z), ll_dom cells es -> (0 <= acc)%Z -> IZR acc < bpow radix2 63 ->
  IZR acc + expanded_exact cells es + INR (nb_movable cells es) * bpow radix2 12 <= bpow radix2 63 ->
  Forall conv_ll_ok (expanded_conv_vals cells es acc) /\
  (0 <= expanded_area_f cells es acc)%Z /\ IZR (expanded_area_f cells es acc) < bpow radix2 63 /\
  IZR (expanded_area_f cells es acc) <= IZR acc + expanded_exact cells es + INR (nb_movable cells es) * bpow radix2 12.
Proof.
  induction cells as [|k r IH]; intros es acc D Hacc Hlt Hb.
  { cbn. split; [constructor|]. split; [exact Hacc|]. split; [exact Hlt|lra]. }
  destruct es as [|e er].
  { cbn. split; [constructor|]. split; [exact Hacc|]. split; [exact Hlt|lra]. }
  destruct D as [Hk He]. inversion Hk as [|? ? Hk1 Hk']; subst. inversion He as [|? ? [Fe1 He1] He']; subst.
  pose proof (expanded_exact_nonneg r er (conj Hk' He')) as Pr. pose proof (pos_INR (nb_movable r er)) as Pn.
  pose proof (bpow_gt_0 radix2 12) as P12.
  cbn [expanded_conv_vals expanded_area_f expanded_exact nb_movable] in *.
  destruct (e_fixed k) eqn:Fx.
  - cbn [plus] in Hb. destruct (IH er acc (conj Hk' He') Hacc Hlt ltac:(lra)) as (A & B & C & E).
    split; [exact A|]. split; [exact B|]. split; [exact C|]. cbn [plus]. lra.
  - rewrite S_INR in Hb. change (1 + nb_movable r er)%nat with (S (nb_movable r er)). rewrite S_INR.
    destruct (expanded_step_ok acc e (cell_area k) Hacc Fe1 He1 (Hk1 eq_refl) ltac:(nra)) as (Ok & N & U & Lt).
    destruct (IH er _ (conj Hk' He') N Lt ltac:(nra)) as (A & B & C & E).
    split; [constructor; assumption|]. split; [exact B|]. split; [exact C|]. nra.
Qed.

Lemma expanded_exact_le : forall cells es (E : R), ll_dom cells es -> Forall (fun e => B2R e <= E) es -> 0 <= E ->
  expanded_exact cells es <= E * IZR (movable_area cells) /\ (0 <= movable_area cells)%Z /\
  (nb_movable cells es <= length cells)%nat.
Proof.
  induction cells as [|k r IH]; intros es E [Hk He] HE PE.
  { cbn. split; [lra|]. split; lia. }
  inversion Hk as [|? ? Hk1 Hk']; subst. rewrite movable_area_cons. unfold marea1.
  destruct es as [|e er].
  { cbn [expanded_exact nb_movable length].
    assert (0 <= movable_area r)%Z.
    { clear - Hk'. induction r as [|k r IH]; [cbn; lia|]. inversion Hk'; subst. rewrite movable_area_cons. unfold marea1.
      destruct (e_fixed k) eqn:F; [apply IH; assumption|]. match goal with H : _ -> (0 <= cell_area k < _)%Z |- _ => specialize (H eq_refl) end.
      specialize (IH ltac:(assumption)). lia. }
    assert (0 <= (if e_fixed k then 0 else cell_area k))%Z by (destruct (e_fixed k); [lia|specialize (Hk1 eq_refl); lia]).
    split; [|split; lia]. apply Rmult_le_pos; [exact PE|apply IZR_le; lia]. }
  inversion He as [|? ? [_ He1] He']; subst. inversion HE as [|? ? HE1 HE']; subst.
  destruct (IH er E (conj Hk' He') HE' PE) as (A & B & C).
  cbn [expanded_exact nb_movable length]. rewrite plus_IZR. destruct (e_fixed k) eqn:Fx.
  - split; [lra|]. split; lia.
  - destruct (Hk1 eq_refl) as [A0 _]. pose proof (IZR_le _ _ A0) as A0'. split; [nra|]. split; lia.
Qed.

(* [F] (ii) at the level of the function's arguments: finite factors in [0, E], movable cells with areas in [0, 2^53),
   E * (movable area) + 2^12 * (number of cells) <= 2^63: every double -> long long conversion of the accumulation is
   defined, and the result is in [0, 2^63) -- the hypothesis |expanded_area_f| < 2^63 of c18f_factor_never_narrower *)
Theorem expanded_conv_vals_ok_args : forall cells es (E : R), ll_dom cells es -> Forall (fun e => B2R e <= E) es -> 0 <= E ->
  E * IZR (movable_area cells) + INR (length cells) * bpow radix2 12 <= bpow radix2 63 ->
  Forall conv_ll_ok (expanded_conv_vals cells es 0) /\ (Z.abs (expanded_area_f cells es 0) < 2 ^ 63)%Z.
Proof.
  intros cells es E D HE PE Hb. destruct (expanded_exact_le cells es E D HE PE) as (A & B & C).
  pose proof (bpow_gt_0 radix2 12) as P12. apply le_INR in C.
  destruct (expanded_conv_vals_ok cells es 0 D ltac:(lia)) as (V & N & L & _).
  { rewrite bpow_63. simpl. lra. }
  { simpl (IZR 0). nra. }
  split; [exact V|]. rewrite Z.abs_eq by exact N. apply lt_IZR. exact L.
Qed.
