(* C07: the C++-typed intermediate values of a WHOLE run of TransportationSuccessiveShortestPath::run()
   (src/place_global/transportation.cpp:425-613; CostType = int, DemandType = long long, transportation.hpp:8-9), listed
   over the fuel-parametrised ideal model SspF.v (sspF tree_fuel = ssp, SspOpt.ssp_is_sspF).  Definitions only; the
   proofs are in SspMachineRunProofs.v, the statements in Properties_C07.v (c07_ssp_run_no_overflow).
   The listing follows the control flow of the model: for every loop it ranges over the states at which the loop body is
   evaluated ([loopP_states], [foldM_states]), so "along the whole run" means: every iteration of every loop of the run, up
   to the point where the model returns (or, with a round budget tf below big_fuel, gives up).
   Types transcribed BY HAND (modelled, not verified).  Listed:
     sortedSourcesByDemand 437  -pb_.demand(i)                                   long long
     bestSink 453               sendingCost_[i] + pb_.cost(i, src), every sink    int
     sendSource 468             remaining -= sent                                 long long
     updateTree 502             movingCost(i, bestVisit) + sendingCost_[bestVisit], every i with remainingCapa_[i] == 0
                                                                                  int
     sendSource/3 537, 539      allocations_[snk1][sentSrc] += maxSent ; allocations_[snk1][sentSrc] -= maxSent
                                                                                  long long
     sendSource/3 545, 547      allocations_[snk1][sentSrc] += maxSent ; remainingCapa_[snk1] -= maxSent
                                                                                  long long
     updateDestQueues 610       pb_.movingCost(src, sink, dst) = costs_[dst][src] - costs_[sink][src]
                                                                                  int
     initQueues 575             pb_.movingCost(src, sink, dest)                   int
   Not listed: loop counters (int, below nbSinks() / nbSources()), std::min (no arithmetic), the comparisons, the values
   READ from the queues (they were listed when pushed), `2 * sources.size()` (size_t). *)
From Coq Require Import List ZArith Bool.
Import ListNotations.
Require Import CV.Ssp CV.SspF CV.RowLegMachine CV.SspMachine.
Local Open Scope Z_scope.

(* ------------------------------------------------------------------ the states a loop goes through *)

(* the states at which [loopP p body] evaluates [body], in order *)
Fixpoint loopP_states {S R : Type} (p : positive) (body : S -> step S R) (s : S) : list S :=
  match p with
  | xH => [s]
  | xO p' => loopP_states p' body s ++
             match loopP p' body s with Continue s' => loopP_states p' body s' | Done _ => [] end
  | xI p' => s :: match body s with
                  | Continue s' => loopP_states p' body s' ++
                                   match loopP p' body s' with Continue s'' => loopP_states p' body s'' | Done _ => [] end
                  | Done _ => []
                  end
  end.

(* the pairs (state, element) at which [foldM f l] evaluates [f], in order *)
Fixpoint foldM_states {A S : Type} (f : S -> A -> res S) (l : list A) (s : S) : list (S * A) :=
  match l with
  | [] => []
  | a :: t => (s, a) :: match f s a with Ok s' => foldM_states f t s' | Fail _ => [] end
  end.

(* ------------------------------------------------------------------ updateTree(), cpp:472-511 *)

(* 498-508, one i: nothing for a sink with room (continue at 499); else the addition of 502 *)
Definition relax_step_vals (qs : list (list Queue)) (rm : list Z) (b : nat) (t : TreeSt) (i : nat) : list (cty * Z) :=
  if getZ rm i >? 0 then [] else
  match moving_cost 502 qs i b with
  | Ok mc => relax_vals mc (getZ (t_sc t) b)
  | Fail _ => []
  end.

(* one round of the while (true) loop 483-510 *)
Definition tree_body_vals (qs : list (list Queue)) (rm : list Z) (t : TreeSt) : list (cty * Z) :=
  let n := length rm in
  match select_best n t with
  | None => []
  | Some b => flat_map (fun ti => relax_step_vals qs rm b (fst ti) (snd ti))
                       (foldM_states (relax qs rm b) (seq 0 n) t)
  end.

Definition update_tree_vals (tf : nat -> positive) (s : St) : list (cty * Z) :=
  let rm := rem s in
  let t0 := mkT (map (fun r => if r >? 0 then 0 else INT_MAX) rm)
                (map (fun _ => None) rm)
                (map (fun r => r >? 0) rm) in
  flat_map (tree_body_vals (queues s) rm) (loopP_states (tf (length rm)) (tree_body (queues s) rm) t0).

(* ------------------------------------------------------------------ queues *)

(* updateDestQueues(sink, src), cpp:603-613: one moving cost per destination, when the source is new at the sink *)
Definition dest_queues_vals (pb : Pb) (al : list (list Z)) (sink src : nat) : list (cty * Z) :=
  if negb (get2 al sink src =? 0) then [] else
  flat_map (fun dst => if (dst =? sink)%nat then [] else moving_vals pb src sink dst) (seq 0 (nsnk pb)).

(* initQueues(sink), cpp:559-580: one moving cost per destination and allocated source *)
Definition init_queues_vals (pb : Pb) (al : list (list Z)) (sink : nat) : list (cty * Z) :=
  let sources := filter (fun src => negb (get2 al sink src =? 0)) (seq 0 (nsrc pb)) in
  flat_map (fun dest => if (sink =? dest)%nat then [] else flat_map (fun src => moving_vals pb src sink dest) sources)
           (seq 0 (nsnk pb)).

(* ------------------------------------------------------------------ sendSource(src, sink, quantity), cpp:513-557 *)

(* one iteration of the second chain walk 532-544 *)
Definition walk2_step_vals (pb : Pb) (maxSent : Z) (w : W2) (snk2 : nat) : list (cty * Z) :=
  let snk1 := w_snk w in
  dest_queues_vals pb (w_al w) snk1 (w_src w)                                             (* 536 *)
  ++ [(I64, get2 (w_al w) snk1 (w_src w) + maxSent)]                                      (* 537 *)
  ++ match update_dest_queues pb (w_al w) (w_qs w) snk1 (w_src w) with
     | Fail _ => []
     | Ok qs1 =>
       let al1 := upd2 (w_al w) snk1 (w_src w) (get2 (w_al w) snk1 (w_src w) + maxSent) in
       match sent_source 538 qs1 snk1 snk2 with
       | Fail _ => []
       | Ok sentSrc => [(I64, get2 al1 snk1 sentSrc - maxSent)]                           (* 539 *)
       end
     end.
Definition walk2_body_vals (pb : Pb) (par : list (option nat)) (maxSent : Z) (w : W2) : list (cty * Z) :=
  match nth (w_snk w) par None with
  | None => []
  | Some snk2 => walk2_step_vals pb maxSent w snk2
  end.

Definition send3_vals (tf : nat -> positive) (pb : Pb) (s : St) (src sink : nat) (quantity : Z) : list (cty * Z) :=
  if negb (quantity >? 0) then [] else
  let n := nsnk pb in
  match run_loop 519 (chain_fuel n) (walk1_body s) (sink, quantity) with
  | Fail _ => []
  | Ok (root, m1) =>
    let maxSent := Z.min m1 (getZ (rem s) root) in
    if negb (maxSent >? 0) then [] else
    let w0 := mkW2 (alloc s) (queues s) sink src false in
    flat_map (walk2_body_vals pb (parent s) maxSent)
             (loopP_states (chain_fuel n) (walk2_body pb (parent s) (rem s) maxSent) w0)
    ++ match run_loop 532 (chain_fuel n) (walk2_body pb (parent s) (rem s) maxSent) w0 with
       | Fail _ => []
       | Ok w =>
         let snk1 := w_snk w in
         let al := upd2 (w_al w) snk1 (w_src w) (get2 (w_al w) snk1 (w_src w) + maxSent) in
         let rm := upd (rem s) snk1 (getZ (rem s) snk1 - maxSent) in
         let full := getZ rm snk1 =? 0 in
         let qs := if full then init_queues pb al (w_qs w) snk1 else w_qs w in
         let s1 := mkSt al rm (scost s) (parent s) qs in
         [(I64, get2 (w_al w) snk1 (w_src w) + maxSent);                                  (* 545 *)
          (I64, getZ (rem s) snk1 - maxSent)]                                             (* 547 *)
         ++ (if full then init_queues_vals pb al snk1 else [])                            (* 549 *)
         ++ (if w_upd w || full then update_tree_vals tf s1 else [])                      (* 553 *)
       end
  end.

(* ------------------------------------------------------------------ sendSource(src), cpp:462-470 *)

(* one iteration of while (remaining > 0LL) *)
Definition send_body_vals (tf : nat -> positive) (pb : Pb) (src : nat) (sr : St * Z) : list (cty * Z) :=
  let (s, remaining) := sr in
  if negb (remaining >? 0) then [] else
  let sink := best_sink pb (scost s) src in
  best_sink_vals pb (scost s) src                                                         (* 453 *)
  ++ send3_vals tf pb s src sink remaining                                                (* 466 *)
  ++ match send_source3F tf pb s src sink remaining with
     | Ok (_, sent) => [(I64, remaining - sent)]                                          (* 468 *)
     | Fail _ => []
     end.

Definition send_source_vals (tf : nat -> positive) (pb : Pb) (s : St) (src : nat) : list (cty * Z) :=
  let d := getZ (dems pb) src in
  flat_map (send_body_vals tf pb src) (loopP_states (Z.to_pos (d + 1)) (send_bodyF tf pb src) (s, d)).

(* ------------------------------------------------------------------ run(), cpp:425-431 *)

Definition ssp_run_vals (tf : nat -> positive) (pb : Pb) : list (cty * Z) :=
  map (fun d => (I64, - d)) (dems pb)                                                     (* 437 *)
  ++ flat_map (fun sa => send_source_vals tf pb (fst sa) (snd sa))
              (foldM_states (send_sourceF tf pb) (sorted_sources pb) (init_st pb)).

(* ------------------------------------------------------------------ domain *)

(* what the additions on sendingCost_ need: every scaled cost is at most INT_MAX / 2.  The guarantee of
   costsFromIntegers (SspMachine.cost_dom: costs at most about INT_MAX / (4 nbSinks)) is stronger by the factor
   2 nbSinks; SspMachineRunProofs.v shows that the labels of the shortest-path tree never exceed ONE scaled cost (every full
   sink has a direct edge to the free sink that updateTree extracts first), so no factor nbSinks is needed. *)
Definition HALF : Z := 1073741823.         (* INT_MAX / 2 *)
Definition half_dom (pb : Pb) : Prop := forall j i, 0 <= cost pb j i <= HALF.

(* the problems of the whole-run theorem: C13's domain (check() accepts, demand <= capacity) with costs in half_dom and
   the total capacity at most 2^62 (the bound of the other long long listings) *)
Definition run_dom (pb : Pb) : Prop :=
  check_pb pb = true /\ half_dom pb /\ total_demand pb <= total_capacity pb /\ total_capacity pb <= 4611686018427387904.

(* ------------------------------------------------------------------ executable form of [fits], example problems *)

Definition fitsb (v : cty * Z) : bool :=
  match fst v with
  | I32 => (-2147483648 <=? snd v) && (snd v <? 2147483648)
  | I64 => (-9223372036854775808 <=? snd v) && (snd v <? 9223372036854775808)
  end.

Definition veqb (a b : cty * Z) : bool :=
  match fst a, fst b with I32, I32 | I64, I64 => snd a =? snd b | _, _ => false end.

(* three sinks, costs at the bound of costsFromIntegers for 3 sinks (round(INT_MAX / 12) = 178956971); the second and
   third source displace the first one along tree edges, updateTree runs three times *)
Definition ex_run_pb : Pb :=
  mkPb [2; 2; 3] [3; 2; 2] [[0; 178956971; 178956971]; [178956971; 0; 100]; [178956971; 178956971; 0]].

(* two sinks, scaled costs 2^30 = INT_MAX / 2 + 1: inside C13's domain (costs < INT_MAX), one unit above half_dom.
   Source 0 fills sink 0, updateTree labels sink 0 with 2^30, and bestSink(1) adds cost(0, 1) = 2^30 to it *)
Definition over_run_pb : Pb := mkPb [1; 5] [1; 1] [[0; 1073741824]; [1073741824; 0]].
