(* Model of RowNeighbourhood (src/place_detailed/row_neighbourhood.{hpp,cpp}): which rows the detailed-placement
   passes (DetailedPlacer::runSwaps/runInserts/runShifts/runReordering) look at next to a given row.
   Definitions only; proofs in RowNeighProofs.v; tie: harness/rowneigh.cpp, Extract_neigh.v, checks/c02_neigh.py.

   Rows are `rect`s (a Row is converted to its Rectangle by the second constructor), row indices are `nat`
   (positions in the input vector), the cut-off `nbNeighbourRows` is a `Z` (a C++ int that may be 0 or negative).
   Coordinates are `Z`: the only arithmetic of the C++ is the Manhattan distance of buildLeftFrom/buildRightFrom
   (`abs(ax - rx) + abs(ay - ry)` on ints), which does not overflow when |coordinate| <= 2^28 (RowNeighProofs.dist_int32).

   The sorts.  rowsBelow/rowsAbove call std::sort with orderBelow/orderAbove, buildLeftFrom/buildRightFrom with a
   distance comparator: all three break ties by the row INDEX and the sorted pairs carry pairwise distinct indices, so
   the comparators are strict total orders on the sorted elements and the result of std::sort is the unique sorted
   arrangement whatever algorithm is used (RowNeighProofs.isort_unique); insertion sort computes it.
   buildRowsSides calls std::sort with orderSide, which compares (minY, minX) only: two rows with the same (minY, minX)
   are equivalent, std::sort is not stable, so their relative order is unspecified by the standard.  `rows_left` /
   `rows_right` use the STABLE insertion sort (what libstdc++ does up to 16 elements: std::sort is then a plain
   insertion sort); the safety theorems are stated for `sides_with s`, where `s` is ANY arrangement of the indexed rows,
   and therefore hold for every behaviour of std::sort. *)
From Coq Require Import List ZArith Bool.
Import ListNotations.
Require Import CV.FreeSpace.
Local Open Scope Z_scope.

Definition irow := (nat * rect)%type.        (* std::pair<int, Rectangle> *)

(* ---- the four geometric tests (row_neighbourhood.cpp:73-111); each C++ function is a chain of early `return false` *)
(* isBelow(r1, r2): r1 is strictly below r2 (by minY) and their x ranges share a point *)
Definition is_below (r1 r2 : rect) : bool :=
  negb (minY r2 <=? minY r1) && negb (maxX r1 <=? minX r2) && negb (maxX r2 <=? minX r1).
(* isAbove(r1, r2) *)
Definition is_above (r1 r2 : rect) : bool :=
  negb (minY r1 <=? minY r2) && negb (maxX r1 <=? minX r2) && negb (maxX r2 <=? minX r1).
(* isLeft(r1, r2): r2.minX >= r1.maxX;  isRight(r1, r2): r2.maxX <= r1.minX  (no condition on y) *)
Definition is_left (r1 r2 : rect) : bool := maxX r1 <=? minX r2.
Definition is_right (r1 r2 : rect) : bool := maxX r2 <=? minX r1.

(* ---- the comparators (row_neighbourhood.cpp:45-63 and the two lambdas) *)
Definition order_below (a b : irow) : bool :=
  (minY (snd b) <? minY (snd a)) || ((minY (snd a) =? minY (snd b)) && (fst a <? fst b)%nat).
Definition order_above (a b : irow) : bool :=
  (minY (snd a) <? minY (snd b)) || ((minY (snd a) =? minY (snd b)) && (fst a <? fst b)%nat).
Definition order_side (a b : irow) : bool :=
  (minY (snd a) <? minY (snd b)) || ((minY (snd a) =? minY (snd b)) && (minX (snd a) <? minX (snd b))).
(* distance of candidate c to the reference point (px, py): BOTH lambdas measure from the candidate's maxX *)
Definition dist (px py : Z) (c : rect) : Z := Z.abs (maxX c - px) + Z.abs (minY c - py).
Definition order_dist (px py : Z) (a b : irow) : bool :=
  (dist px py (snd a) <? dist px py (snd b)) ||
  ((dist px py (snd a) =? dist px py (snd b)) && (fst a <? fst b)%nat).

(* ---- sorting: stable insertion sort (x goes before the first element that is not smaller than x; elements are
   inserted from the last to the first) *)
Fixpoint insert {A} (lt : A -> A -> bool) (x : A) (l : list A) : list A :=
  match l with
  | [] => [x]
  | y :: l' => if lt y x then y :: insert lt x l' else x :: l
  end.
Definition isort {A} (lt : A -> A -> bool) (l : list A) : list A := fold_right (insert lt) [] l.

(* the loop `for i: sortedRows.emplace_back(i, rows[i])` *)
Definition indexed (rows : list rect) : list irow := combine (seq 0 (length rows)) rows.

(* ---- rowsBelow / rowsAbove (row_neighbourhood.cpp:113-165) *)
(* the inner loop over j = i+1 .. : `if (test) {push; ++nbFound}  if (nbFound >= nbNeighbourRows) break;`
   NOTE the order: the cut-off is tested AFTER the push, so the first successor is always examined *)
Fixpoint scan (test : rect -> bool) (k found : Z) (l : list irow) : list nat :=
  match l with
  | [] => []
  | (i2, r2) :: l' =>
      let found' := if test r2 then found + 1 else found in
      (if test r2 then [i2] else []) ++ (if k <=? found' then [] else scan test k found' l')
  end.
(* the outer loop: one (ind1, pushed indices) entry per sorted position *)
Fixpoint vertical (rel : rect -> rect -> bool) (k : Z) (s : list irow) : list (nat * list nat) :=
  match s with
  | [] => []
  | (i1, r1) :: s' => (i1, scan (fun r2 => rel r2 r1) k 0 s') :: vertical rel k s'
  end.
(* ret[r]: everything pushed into slot r, in order *)
Definition collect (r : nat) (t : list (nat * list nat)) : list nat :=
  flat_map (fun p => if (fst p =? r)%nat then snd p else []) t.

Definition rows_below (rows : list rect) (k : Z) (r : nat) : list nat :=
  collect r (vertical is_below k (isort order_below (indexed rows))).
Definition rows_above (rows : list rect) (k : Z) (r : nat) : list nat :=
  collect r (vertical is_above k (isort order_above (indexed rows))).

(* ---- buildLeftFrom / buildRightFrom / keepFirstK / buildRowsSides (row_neighbourhood.cpp:38-43, 167-266) *)
Definition dflt : rect := {| minX := 0; maxX := 0; minY := 0; maxY := 0 |}.
Definition candidates (ab be : nat -> list nat) (ind : nat) : list nat := ind :: ab ind ++ be ind.
Definition with_rows (rows : list rect) (l : list nat) : list irow := map (fun c => (c, nth c rows dflt)) l.
Definition build_left (rows : list rect) (ab be : nat -> list nat) (row : rect) (ind : nat) : list nat :=
  map fst (isort (order_dist (minX row) (minY row))
                 (filter (fun p => is_left (snd p) row) (with_rows rows (candidates ab be ind)))).
Definition build_right (rows : list rect) (ab be : nat -> list nat) (row : rect) (ind : nat) : list nat :=
  map fst (isort (order_dist (maxX row) (minY row))
                 (filter (fun p => is_right (snd p) row) (with_rows rows (candidates ab be ind)))).
(* keepFirstK(inds, nb).  For nb < 0 and a non-empty list the C++ builds std::vector(begin, begin + nb): an invalid
   iterator range (libstdc++ throws std::length_error); the model returns [] there and is faithful for nb >= 0 only.
   No caller inside the library passes a negative cut-off (design/C02_neigh.md). *)
Definition keep_first_k (l : list nat) (k : Z) : list nat :=
  if Z.of_nat (length l) <=? k then l else firstn (Z.to_nat k) l.

(* consecutive pairs (sortedRows[i], sortedRows[i+1]) *)
Fixpoint side_pairs (s : list irow) : list (irow * irow) :=
  match s with
  | a :: s' => match s' with b :: _ => (a, b) :: side_pairs s' | [] => [] end
  | [] => []
  end.
(* the assignments `rowsLeft_[ind2] = ...` / `rowsRight_[ind1] = ...` in program order *)
Definition left_assign rows ab be (k : Z) (s : list irow) : list (nat * list nat) :=
  flat_map (fun pq => if is_left (snd (fst pq)) (snd (snd pq))
                      then [(fst (snd pq), keep_first_k (build_left rows ab be (snd (snd pq)) (fst (fst pq))) k)] else [])
           (side_pairs s).
Definition right_assign rows ab be (k : Z) (s : list irow) : list (nat * list nat) :=
  flat_map (fun pq => if is_right (snd (snd pq)) (snd (fst pq))
                      then [(fst (fst pq), keep_first_k (build_right rows ab be (snd (fst pq)) (fst (snd pq))) k)] else [])
           (side_pairs s).
(* slot r after all assignments (`=` overwrites): the last one wins, [] if there is none *)
Definition last_assign (r : nat) (t : list (nat * list nat)) : list nat :=
  fold_left (fun acc p => if (fst p =? r)%nat then snd p else acc) t [].

(* the side lists for an arbitrary arrangement s of the indexed rows (what std::sort(orderSide) returned) *)
Definition left_with (s : list irow) (rows : list rect) (k : Z) (r : nat) : list nat :=
  last_assign r (left_assign rows (rows_above rows k) (rows_below rows k) k s).
Definition right_with (s : list irow) (rows : list rect) (k : Z) (r : nat) : list nat :=
  last_assign r (right_assign rows (rows_above rows k) (rows_below rows k) k s).
Definition rows_left (rows : list rect) (k : Z) (r : nat) : list nat :=
  left_with (isort order_side (indexed rows)) rows k r.
Definition rows_right (rows : list rect) (k : Z) (r : nat) : list nat :=
  right_with (isort order_side (indexed rows)) rows k r.

(* the whole structure: (below, above, left, right) of every row, in row order (what harness/rowneigh.cpp prints) *)
Definition neighbourhood (rows : list rect) (k : Z) : list (list nat * list nat * list nat * list nat) :=
  map (fun r => (rows_below rows k r, rows_above rows k r, rows_left rows k r, rows_right rows k r))
      (seq 0 (length rows)).
