From Coq Require Import List ZArith Lia Bool.
Import ListNotations.
Require Import CV.Orient CV.FreeSpace CV.Circuit.
Local Open Scope Z_scope.

(* the code's table is the documented one, for every polarity and every value of the
   orientation enum (including INVALID and UNKNOWN as row orientation) *)
Lemma table_matches_doc p r :
  match prescribed p r with
  | None => cell_orientation_in_row p r = oINVALID
  | Some None => cell_orientation_in_row p r = oUNKNOWN
  | Some (Some o) => cell_orientation_in_row p r = o
  end.
Proof. destruct p, r; reflexivity. Qed.

(* on real row orientations a prescribed orientation is never INVALID/UNKNOWN *)
Lemma prescribed_real p r o :
  r <> oINVALID -> r <> oUNKNOWN -> prescribed p r = Some (Some o) -> o <> oINVALID /\ o <> oUNKNOWN.
Proof. destruct p, r; cbn; intros H1 H2 [= <-]; split; congruence. Qed.

Lemma opposite_involutive r : r <> oINVALID -> r <> oUNKNOWN ->
  opposite_row_orientation (opposite_row_orientation r) = r.
Proof. destruct r; cbn; congruence. Qed.

Lemma opposite_keeps_turn r : r <> oINVALID -> r <> oUNKNOWN ->
  is_turn (opposite_row_orientation r) = is_turn r.
Proof. destruct r; cbn; congruence. Qed.

Lemma nonany_spec c b a pol :
  pol <> pANY -> c_fixed a = false -> c_pol a = pol ->
  (match row_under c a with
   | None => false
   | Some r => match prescribed pol (ro r) with
               | Some (Some o) => orient_eqb (c_o a) o && negb (orient_eqb o oINVALID)
               | _ => false end
   end) = true <-> cell_orient_ok c b a.
Proof.
  intros Hne Hfix Hpol. unfold cell_orient_ok. split.
  - intros H _. split; [intros E; congruence|]. intros _.
    destruct (row_under c a) as [r|]; [|discriminate].
    destruct (prescribed pol (ro r)) as [[o|]|] eqn:Pr; try discriminate.
    apply andb_true_iff in H as [H1 H2]. apply orient_eqb_eq in H1.
    exists r, o. rewrite Hpol. split; [reflexivity|]. split; [exact Pr|]. split; [exact H1|].
    intros E. rewrite E in H2. cbn in H2. discriminate H2.
  - intros H. destruct (H Hfix) as [_ H2]. destruct H2 as (r & o & Hr & Hp & Ho & Hn); [congruence|].
    rewrite Hr. rewrite Hpol in Hp. rewrite Hp. apply andb_true_iff.
    split; [apply orient_eqb_eq; exact Ho|]. destruct o; try reflexivity; congruence.
Qed.

Lemma cell_orient_okb_spec c b a : cell_orient_okb c b a = true <-> cell_orient_ok c b a.
Proof.
  unfold cell_orient_okb. destruct (c_fixed a) eqn:F.
  - unfold cell_orient_ok. split; [intros _ H; congruence|intros _; reflexivity].
  - destruct (c_pol a) eqn:P.
    + unfold cell_orient_ok. rewrite orient_eqb_eq. split.
      * intros H _. split; [intros _; exact H|intros N; congruence].
      * intros H. destruct (H F) as [H1 _]. apply H1. exact P.
    + apply nonany_spec; [discriminate|exact F|exact P].
    + apply nonany_spec; [discriminate|exact F|exact P].
    + apply nonany_spec; [discriminate|exact F|exact P].
    + apply nonany_spec; [discriminate|exact F|exact P].
Qed.

Theorem orient_okb_correct before after : orient_okb before after = true <-> orient_ok before after.
Proof.
  unfold orient_okb, orient_ok. rewrite andb_true_iff, Nat.eqb_eq, forallb_forall. split.
  - intros [H1 H2]. split; [exact H1|]. intros b a Hin. apply cell_orient_okb_spec. exact (H2 (b, a) Hin).
  - intros [H1 H2]. split; [exact H1|]. intros [b a] Hin. apply cell_orient_okb_spec. exact (H2 b a Hin).
Qed.
