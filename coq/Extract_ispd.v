(* Extraction of the C20 models (family `ispd`) to OCaml for the correspondence runs.
   ExtrOcamlBasic only: bool/option/list/prod/unit/sumbool map to OCaml's; Z, positive, nat, ascii,
   string stay the extracted Coq datatypes.  No Extract Constant. *)
From Coq Require Import Extraction ExtrOcamlBasic ZArith List String.
Require Import CV.Orient CV.Hpwl CV.Ispd.
Extraction Language OCaml.
Extraction "model_ispd.ml"
  Ispd.export_ispd_v Ispd.print_file Ispd.read_ispd Ispd.wfb Ispd.circuit_hpwl Ispd.fs_get Ispd.binding_okb.
