(* C13 -- proofs about the model Ssp.v of transportation.cpp.
   Part 1: the boolean checkers are sound against LpCert's Prop-level notions; solve_checked.
   Part 2: toAssignment argmax.   Part 3: increaseCapacity postcondition.
   Part 4: finite domains (bounded optimality of the raw algorithm).
   Part 5: feasibility of every plan returned by the raw algorithm (invariants). *)
From Coq Require Import List ZArith Lia Bool Arith Permutation.
Import ListNotations.
Require Import CV.LpCert CV.Ssp.
Local Open Scope Z_scope.

(* ================================================================== Part 1: checkers *)

Lemma feasibleb_sound pb x : feasibleb pb x = true -> pb_feasible pb (plan_f x).
Proof.
  unfold feasibleb, pb_feasible, feasible. rewrite !andb_true_iff, !forallb_forall.
  intros [[H1 H2] H3]. repeat split.
  - intros i Hi. apply Z.eqb_eq, H1, Hi.
  - intros j Hj. apply Z.leb_le, H2, Hj.
  - intros i j Hi Hj. specialize (H3 i Hi). rewrite forallb_forall in H3. apply Z.leb_le, H3, Hj.
Qed.

Lemma feasibleb_complete pb x : pb_feasible pb (plan_f x) -> feasibleb pb x = true.
Proof.
  unfold feasibleb, pb_feasible, feasible. intros (H1 & H2 & H3). rewrite !andb_true_iff, !forallb_forall.
  repeat split.
  - intros i Hi. apply Z.eqb_eq, H1, Hi.
  - intros j Hj. apply Z.leb_le, H2, Hj.
  - intros i Hi. rewrite forallb_forall. intros j Hj. apply Z.leb_le, H3; assumption.
Qed.

Lemma cert_okb_sound pb x u v : cert_okb pb x u v = true ->
  dual_ok (srcs_of pb) (snks_of pb) (cost pb) (getZ u) (getZ v) /\
  slack (srcs_of pb) (snks_of pb) (cap_f pb) (cost pb) (plan_f x) (getZ u) (getZ v).
Proof.
  unfold cert_okb, dual_ok, slack. rewrite !andb_true_iff, !forallb_forall.
  intros [[[H1 H2] H3] H4]. repeat split.
  - intros j Hj. apply Z.leb_le, H1, Hj.
  - intros i j Hi Hj. specialize (H2 i Hi). rewrite forallb_forall in H2. apply Z.leb_le, H2, Hj.
  - intros i j Hi Hj Hp. specialize (H3 i Hi). rewrite forallb_forall in H3. specialize (H3 j Hj).
    apply orb_true_iff in H3. destruct H3 as [H3|H3].
    + apply negb_true_iff, Z.ltb_ge in H3. lia.
    + apply Z.eqb_eq, H3.
  - intros j Hj Hp. specialize (H4 j Hj). apply orb_true_iff in H4. destruct H4 as [H4|H4].
    + apply negb_true_iff, Z.ltb_ge in H4. lia.
    + apply Z.eqb_eq, H4.
Qed.

(* minimality among ALL feasible plans (arbitrary functions nat -> nat -> Z) *)
Definition pb_optimal (pb : Pb) (x : nat -> nat -> Z) : Prop :=
  pb_feasible pb x /\ forall x', pb_feasible pb x' -> pb_cost pb x <= pb_cost pb x'.

Lemma cert_sound pb x u v : feasibleb pb x = true -> cert_okb pb x u v = true -> pb_optimal pb (plan_f x).
Proof.
  intros Hf Hc. apply feasibleb_sound in Hf. destruct (cert_okb_sound _ _ _ _ Hc) as [Hd Hs].
  split; [assumption|]. intros x' Hx'. unfold pb_cost.
  exact (lp_cert_sound _ _ _ _ _ _ _ _ _ Hf Hd Hs Hx').
Qed.

Lemma check_plan_sound pb x : check_plan pb x = true -> pb_optimal pb (plan_f x).
Proof.
  unfold check_plan. destruct (potentials pb x) as [u v]. rewrite andb_true_iff. intros [Hf Hc].
  exact (cert_sound _ _ _ _ Hf Hc).
Qed.

Lemma solve_checked_sound pb x : solve_checked pb = Some x -> ssp pb = Ok x /\ pb_optimal pb (plan_f x).
Proof.
  unfold solve_checked. destruct (ssp pb) as [x0|e]; [|discriminate].
  destruct (check_plan pb x0) eqn:Hc; [|discriminate]. intros [= <-]. split; [reflexivity|].
  apply check_plan_sound, Hc.
Qed.

(* ================================================================== Part 2: toAssignment *)

Definition is_argmax (al : list (list Z)) (n : nat) (src r : nat) : Prop :=
  (r < n)%nat /\ (forall k, (k < n)%nat -> get2 al k src <= get2 al r src) /\
  (forall k, (k < r)%nat -> get2 al k src < get2 al r src).

Lemma best_sink_of_inv al src n :
  let st := fold_left (fun (st : nat * Z) sink =>
                         if get2 al sink src >? snd st then (sink, get2 al sink src) else st)
                      (seq 0 n) (0%nat, -1) in
  (snd st = -1 /\ fst st = 0%nat /\ forall k, (k < n)%nat -> get2 al k src <= -1) \/
  (snd st = get2 al (fst st) src /\ -1 < snd st /\ is_argmax al n src (fst st)).
Proof.
  induction n as [|n IH].
  - left. cbn. repeat split; intros; lia.
  - rewrite seq_S, fold_left_app. cbn [fold_left Nat.add].
    set (st := fold_left _ (seq 0 n) (0%nat, -1)) in *. cbn zeta in IH.
    destruct (Z.gtb_spec (get2 al n src) (snd st)) as [Hgt|Hle].
    + right. cbn [fst snd]. split; [reflexivity|]. destruct IH as [(E & _ & Hall)|(E & Hp & Hr & Hm & Hs)].
      * split; [lia|]. split; [lia|]. split.
        -- intros k Hk. destruct (Nat.eq_dec k n) as [->|]; [lia|]. specialize (Hall k ltac:(lia)). lia.
        -- intros k Hk. specialize (Hall k Hk). lia.
      * split; [lia|]. split; [lia|]. split.
        -- intros k Hk. destruct (Nat.eq_dec k n) as [->|]; [lia|]. specialize (Hm k ltac:(lia)). lia.
        -- intros k Hk. specialize (Hm k Hk). lia.
    + destruct IH as [(E & E0 & Hall)|(E & Hp & Hr & Hm & Hs)].
      * left. repeat split; try assumption. intros k Hk. destruct (Nat.eq_dec k n) as [->|]; [lia|]. apply Hall; lia.
      * right. split; [assumption|]. split; [assumption|]. split; [lia|]. split; [|assumption].
        intros k Hk. destruct (Nat.eq_dec k n) as [->|]; [lia|]. apply Hm; lia.
Qed.

(* every plan whose column [src] has a non-negative entry (in particular every feasible plan, n > 0) *)
Lemma best_sink_of_argmax al n src :
  (exists k, (k < n)%nat /\ 0 <= get2 al k src) -> is_argmax al n src (best_sink_of al n src).
Proof.
  intros (k & Hk & Hpos). unfold best_sink_of. destruct (best_sink_of_inv al src n) as [(_ & _ & Hall)|(_ & _ & H)].
  - specialize (Hall k Hk). lia.
  - exact H.
Qed.

Lemma to_assignment_length pb al : length (to_assignment pb al) = nsrc pb.
Proof. unfold to_assignment. rewrite map_length, seq_length. reflexivity. Qed.

Lemma to_assignment_nth pb al i : (i < nsrc pb)%nat ->
  nth i (to_assignment pb al) 0%nat = best_sink_of al (nsnk pb) i.
Proof.
  intros Hi. unfold to_assignment.
  rewrite nth_indep with (d' := best_sink_of al (nsnk pb) 0%nat) by (rewrite map_length, seq_length; exact Hi).
  rewrite map_nth, seq_nth by exact Hi. reflexivity.
Qed.

Lemma to_assignment_argmax pb al :
  (0 < nsnk pb)%nat -> (forall j i, 0 <= get2 al j i) ->
  length (to_assignment pb al) = nsrc pb /\
  forall i, (i < nsrc pb)%nat -> is_argmax al (nsnk pb) i (nth i (to_assignment pb al) 0%nat).
Proof.
  intros Hn Hpos. split; [apply to_assignment_length|]. intros i Hi. rewrite to_assignment_nth by exact Hi.
  apply best_sink_of_argmax. exists 0%nat. split; [exact Hn|apply Hpos].
Qed.

Lemma argmaxb_sound pb x a : argmaxb pb x a = true ->
  length a = nsrc pb /\
  forall i, (i < nsrc pb)%nat ->
    (nth i a 0%nat < nsnk pb)%nat /\ forall k, (k < nsnk pb)%nat -> get2 x k i <= get2 x (nth i a 0%nat) i.
Proof.
  unfold argmaxb. rewrite andb_true_iff, forallb_forall. intros [Hl H]. split; [apply Nat.eqb_eq, Hl|].
  intros i Hi. specialize (H i). unfold srcs_of in H. rewrite in_seq in H. specialize (H ltac:(lia)).
  cbn zeta in H. rewrite !andb_true_iff, !forallb_forall in H. destruct H as [H1 H2].
  split; [apply Nat.ltb_lt, H1|].
  intros k Hk. apply Z.leb_le, H2. unfold snks_of. rewrite in_seq. lia.
Qed.

(* ================================================================== Part 3: increaseCapacity *)

Lemma mapi_from_length {A B} (f : nat -> A -> B) l k : length (mapi_from k f l) = length l.
Proof. revert k; induction l as [|a l IH]; intros k; cbn; [reflexivity|]. rewrite IH. reflexivity. Qed.

Lemma mapi_from_nth {A B} (f : nat -> A -> B) l k i da db :
  (i < length l)%nat -> nth i (mapi_from k f l) db = f (k + i)%nat (nth i l da).
Proof.
  revert k i; induction l as [|a l IH]; intros k i Hi; cbn in *; [lia|].
  destruct i as [|i]; [rewrite Nat.add_0_r; reflexivity|]. rewrite (IH (S k) i) by lia. f_equal. lia.
Qed.

Lemma nth_map_in {A B} (f : A -> B) l j da db : (j < length l)%nat -> nth j (map f l) db = f (nth j l da).
Proof. intros H. rewrite (nth_indep _ db (f da)) by (rewrite map_length; exact H). apply map_nth. Qed.

Lemma zsuml_map_add l c : zsuml (map (fun x => x + c) l) = zsuml l + c * Z.of_nat (length l).
Proof. induction l as [|a l IH]; cbn [map zsuml fold_right length]; [lia|]. unfold zsuml in IH. rewrite IH. lia. Qed.

Lemma zsuml_bump l r k :
  zsuml (mapi_from k (fun i c => if Z.of_nat i <? r then c + 1 else c) l)
  = zsuml l + Z.max 0 (Z.min (Z.of_nat (length l)) (r - Z.of_nat k)).
Proof.
  revert k; induction l as [|a l IH]; intros k; cbn [mapi_from zsuml fold_right length]; [lia|].
  unfold zsuml in IH. rewrite IH. destruct (Z.ltb_spec (Z.of_nat k) r); lia.
Qed.

Lemma increase_capacity_post pb :
  (0 < nsnk pb)%nat ->
  let pb' := increase_capacity pb in
  dems pb' = dems pb /\ costs pb' = costs pb /\ nsnk pb' = nsnk pb /\
  total_demand pb' <= total_capacity pb' /\
  (total_demand pb <= total_capacity pb -> caps pb' = caps pb) /\
  (total_capacity pb < total_demand pb ->
     let m := total_demand pb - total_capacity pb in
     let n := Z.of_nat (nsnk pb) in
     total_capacity pb' = total_demand pb /\
     forall j, (j < nsnk pb)%nat ->
       getZ (caps pb') j = getZ (caps pb) j + m / n + (if Z.of_nat j <? m mod n then 1 else 0)).
Proof.
  intros Hn. unfold increase_capacity. cbn zeta.
  destruct (Z.leb_spec (total_demand pb - total_capacity pb) 0) as [Hle|Hgt].
  - repeat split; try reflexivity; try lia; intros; lia.
  - set (m := total_demand pb - total_capacity pb) in *. set (n := Z.of_nat (nsnk pb)).
    assert (Hnpos : 0 < n) by (unfold n; lia).
    assert (Hq : Z.quot m n = m / n) by (apply Z.quot_div_nonneg; lia).
    rewrite Hq.
    assert (Hr : m - m / n * n = m mod n) by (rewrite Z.mod_eq by lia; lia).
    rewrite Hr.
    assert (Hrb : 0 <= m mod n < n) by (apply Z.mod_pos_bound; lia).
    assert (Htot : total_capacity
              {| caps := mapi_from 0 (fun i c => if Z.of_nat i <? m mod n then c + 1 else c)
                                   (map (fun c => c + m / n) (caps pb));
                 dems := dems pb; costs := costs pb |} = total_demand pb).
    { unfold total_capacity. cbn [caps]. rewrite zsuml_bump, zsuml_map_add, map_length.
      fold (nsnk pb). fold n. fold (total_capacity pb).
      rewrite Z.sub_0_r, Z.min_r, Z.max_r by lia.
      pose proof (Z.div_mod m n ltac:(lia)). unfold m in *. lia. }
    cbn [dems costs]. repeat split; try reflexivity.
    + unfold nsnk. cbn [caps]. rewrite mapi_from_length, map_length. reflexivity.
    + unfold total_demand at 1. cbn [dems]. fold (total_demand pb). rewrite Htot. lia.
    + intros; lia.
    + exact Htot.
    + intros j Hj. cbn [caps]. unfold getZ.
      rewrite (mapi_from_nth _ _ 0%nat j 0 0) by (rewrite map_length; exact Hj). cbn [Nat.add].
      rewrite (nth_map_in _ _ j 0 0) by exact Hj.
      destruct (Z.ltb_spec (Z.of_nat j) (m mod n)); lia.
Qed.

Lemma increase_capacity_check pb : check_pb pb = true -> check_pb (increase_capacity pb) = true.
Proof.
  unfold check_pb. rewrite !andb_true_iff. intros [[[Hd Hc] Hl] Hr].
  unfold increase_capacity. cbn zeta. destruct (_ <=? 0) eqn:E; [rewrite Hd, Hc, Hl, Hr; auto|].
  apply Z.leb_gt in E.
  set (m := total_demand pb - total_capacity pb) in *.
  assert (Hq : 0 <= Z.quot m (Z.of_nat (nsnk pb))).
  { destruct (Z.eq_dec (Z.of_nat (nsnk pb)) 0) as [->|]; [destruct m; cbn; lia|apply Z.quot_pos; lia]. }
  unfold nsnk, nsrc in *. cbn [caps dems costs]. rewrite mapi_from_length, map_length, Hd, Hl, Hr.
  repeat split; try reflexivity. rewrite forallb_forall in *. intros c Hc'.
  destruct (In_nth _ _ 0 Hc') as (j & Hj & <-). rewrite mapi_from_length, map_length in Hj.
  rewrite (mapi_from_nth _ _ 0%nat j 0 0) by (rewrite map_length; exact Hj).
  set (q := Z.quot m _) in *.
  rewrite (nth_map_in _ _ j 0 0) by exact Hj.
  specialize (Hc (nth j (caps pb) 0) (nth_In _ _ Hj)). apply Z.ltb_lt in Hc. apply Z.ltb_lt.
  destruct (_ <? _); lia.
Qed.

(* ================================================================== Part 4: finite domains *)

Lemma lists_over_complete {A} (vals : list A) n l :
  length l = n -> Forall (fun v => In v vals) l -> In l (lists_over vals n).
Proof.
  revert l; induction n as [|n IH]; intros l Hl Hf.
  - destruct l; [left; reflexivity|discriminate].
  - destruct l as [|a l]; [discriminate|]. inversion Hf; subst. cbn [lists_over].
    apply in_flat_map. exists l. split; [apply IH; [cbn in Hl; lia|assumption]|].
    apply in_map_iff. exists a. split; [reflexivity|assumption].
Qed.

Lemma zrange_complete a b z : a <= z <= b -> In z (zrange a b).
Proof.
  intros H. unfold zrange. apply in_map_iff. exists (Z.to_nat (z - a)). split; [lia|]. apply in_seq. lia.
Qed.

Definition in_small_domain (ns nr : nat) (maxc maxd maxk : Z) (pb : Pb) : Prop :=
  length (caps pb) = ns /\ length (dems pb) = nr /\
  Forall (fun c => 1 <= c <= maxc) (caps pb) /\ Forall (fun d => 1 <= d <= maxd) (dems pb) /\
  length (costs pb) = ns /\ Forall (fun r => length r = nr /\ Forall (fun k => 0 <= k <= maxk) r) (costs pb) /\
  total_demand pb <= total_capacity pb.

Lemma all_small_complete ns nr maxc maxd maxk pb :
  all_small ns nr maxc maxd maxk = true -> in_small_domain ns nr maxc maxd maxk pb -> solved_ok pb = true.
Proof.
  intros H (Hlc & Hld & Hc & Hd & Hlk & Hk & Hbal). destruct pb as [cp dm cs]. cbn [caps dems costs] in *.
  unfold all_small in H. cbn zeta in H. rewrite forallb_forall in H. specialize (H cp).
  rewrite forallb_forall in H. specialize (H ltac:(apply lists_over_complete; [assumption|];
    eapply Forall_impl; [|exact Hc]; intros; apply zrange_complete; assumption) dm).
  specialize (H ltac:(apply lists_over_complete; [assumption|];
    eapply Forall_impl; [|exact Hd]; intros; apply zrange_complete; assumption)).
  unfold total_demand, total_capacity in Hbal. cbn [caps dems] in Hbal.
  destruct (Z.leb_spec (zsuml dm) (zsuml cp)); [|lia].
  rewrite forallb_forall in H. apply H.
  apply lists_over_complete; [assumption|]. eapply Forall_impl; [|exact Hk]. intros r [Hr1 Hr2].
  apply lists_over_complete; [assumption|]. eapply Forall_impl; [|exact Hr2]. intros; apply zrange_complete; assumption.
Qed.

(* the raw algorithm returns a plan, and that plan is feasible and of minimum cost *)
Definition ssp_correct (pb : Pb) : Prop := exists x, ssp pb = Ok x /\ pb_optimal pb (plan_f x).

Lemma solved_ok_correct pb : solved_ok pb = true -> ssp_correct pb.
Proof.
  unfold solved_ok. destruct (solve_checked pb) as [x|] eqn:E; [|discriminate]. intros _.
  exists x. apply solve_checked_sound, E.
Qed.

Lemma bounded_correct ns nr maxc maxd maxk :
  all_small ns nr maxc maxd maxk = true ->
  forall pb, in_small_domain ns nr maxc maxd maxk pb -> ssp_correct pb.
Proof. intros H pb Hd. eapply solved_ok_correct, all_small_complete; eassumption. Qed.

(* ================================================================== Part 5: feasibility of the raw algorithm *)

(* ---- loop rules *)
Lemma loopP_inv {S R : Type} (I : S -> Prop) (Q : R -> Prop) (body : S -> step S R) :
  (forall s, I s -> match body s with Continue s' => I s' | Done r => Q r end) ->
  forall p s, I s -> match loopP p body s with Continue s' => I s' | Done r => Q r end.
Proof.
  intros Hb. induction p as [p IH|p IH|]; intros s Hs; cbn [loopP].
  - pose proof (Hb s Hs) as H0. destruct (body s) as [s1|r]; [|exact H0].
    pose proof (IH s1 H0) as H1. destruct (loopP p body s1) as [s2|r]; [|exact H1]. apply IH, H1.
  - pose proof (IH s Hs) as H1. destruct (loopP p body s) as [s2|r]; [|exact H1]. apply IH, H1.
  - apply Hb, Hs.
Qed.

Lemma run_loop_inv {S A : Type} (I : S -> Prop) (P : A -> Prop) id p (body : S -> step S (res A)) s a :
  I s ->
  (forall s, I s -> match body s with Continue s' => I s' | Done (Ok a) => P a | Done (Fail _) => True end) ->
  run_loop id p body s = Ok a -> P a.
Proof.
  intros Hs Hb. unfold run_loop.
  pose proof (loopP_inv I (fun r => match r with Ok a => P a | Fail _ => True end) body Hb p s Hs) as H.
  destruct (loopP p body s) as [s'|r]; [discriminate|]. intros ->. exact H.
Qed.

Lemma foldM_inv {A S : Type} (I : S -> Prop) (f : S -> A -> res S) l :
  (forall s a s', In a l -> I s -> f s a = Ok s' -> I s') ->
  forall s s', I s -> foldM f l s = Ok s' -> I s'.
Proof.
  induction l as [|a l IH]; intros Hf s s' Hs; cbn [foldM].
  - intros [= <-]. exact Hs.
  - destruct (f s a) as [s1|e] eqn:E; cbn [bind]; [|discriminate].
    apply IH; [intros; eapply Hf; eauto; right; assumption|]. eapply Hf; eauto. left; reflexivity.
Qed.

(* ---- lists and matrices *)
Lemma upd_length {A} (l : list A) i v : length (upd l i v) = length l.
Proof. revert i; induction l as [|a l IH]; intros [|i]; cbn; auto. Qed.

Lemma nth_upd_eq {A} (l : list A) i v d : (i < length l)%nat -> nth i (upd l i v) d = v.
Proof. revert i; induction l as [|a l IH]; intros [|i] H; cbn in *; try lia; auto. apply IH; lia. Qed.

Lemma nth_upd_neq {A} (l : list A) i j v d : i <> j -> nth j (upd l i v) d = nth j l d.
Proof.
  revert i j; induction l as [|a l IH]; intros [|i] [|j] H; cbn; auto; try congruence.
Qed.

Definition shape (n m : nat) (al : list (list Z)) : Prop :=
  length al = n /\ forall j, (j < n)%nat -> length (nth j al []) = m.

Lemma upd2_shape n m al j i v : shape n m al -> shape n m (upd2 al j i v).
Proof.
  intros [Hl Hr]. unfold upd2. split; [rewrite upd_length; exact Hl|]. intros k Hk.
  destruct (Nat.eq_dec j k) as [<-|Hne].
  - rewrite nth_upd_eq by lia. rewrite upd_length. apply Hr, Hk.
  - rewrite nth_upd_neq by exact Hne. apply Hr, Hk.
Qed.

Lemma row_upd2_other al j0 i0 v j : j <> j0 -> nth j (upd2 al j0 i0 v) [] = nth j al [].
Proof. intros H. unfold upd2. apply nth_upd_neq. congruence. Qed.

Lemma get2_upd2 n m al j0 i0 v j i : shape n m al -> (j0 < n)%nat -> (i0 < m)%nat ->
  get2 (upd2 al j0 i0 v) j i = if ((j =? j0) && (i =? i0))%nat then v else get2 al j i.
Proof.
  intros [Hl Hr] Hj Hi. unfold get2, upd2.
  destruct (Nat.eqb_spec j j0) as [->|Hne]; cbn [andb].
  - rewrite nth_upd_eq by lia. destruct (Nat.eqb_spec i i0) as [->|Hne].
    + apply nth_upd_eq. rewrite Hr by exact Hj. exact Hi.
    + apply nth_upd_neq. congruence.
  - rewrite nth_upd_neq by congruence. reflexivity.
Qed.

Lemma get2_inrange n m al j i : shape n m al -> get2 al j i <> 0 -> (j < n)%nat /\ (i < m)%nat.
Proof.
  intros [Hl Hr] H. unfold get2 in H.
  destruct (Nat.lt_ge_cases j n) as [Hj|Hj].
  - split; [exact Hj|]. destruct (Nat.lt_ge_cases i m) as [Hi|Hi]; [exact Hi|].
    rewrite nth_overflow in H; [congruence|]. rewrite Hr by exact Hj. exact Hi.
  - rewrite (nth_overflow al) in H by lia. destruct i; cbn in H; congruence.
Qed.

Definition rowsum (m : nat) (al : list (list Z)) (j : nat) : Z := load (seq 0 m) (plan_f al) j.
Definition colsum (n : nat) (al : list (list Z)) (i : nat) : Z := sent (seq 0 n) (plan_f al) i.
Definition delta (a b : nat) : Z := if (a =? b)%nat then 1 else 0.

Lemma zsum_point (f g : nat -> Z) l a :
  NoDup l -> In a l -> (forall b, In b l -> b <> a -> f b = g b) -> zsum f l = zsum g l + (f a - g a).
Proof.
  induction l as [|h l IH]; intros Hnd Hin Heq; [destruct Hin|]. inversion Hnd as [|? ? Hnotin Hnd']; subst.
  cbn [zsum]. destruct Hin as [->|Hin].
  - rewrite (zsum_ext f g l); [lia|]. intros b Hb. apply Heq; [right; exact Hb|]. intros ->. contradiction.
  - rewrite IH; [|assumption|assumption|intros; apply Heq; [right|]; assumption].
    rewrite (Heq h); [lia|left; reflexivity|]. intros ->. contradiction.
Qed.

Lemma rowsum_upd2 n m al j0 i0 v j : shape n m al -> (j0 < n)%nat -> (i0 < m)%nat ->
  rowsum m (upd2 al j0 i0 v) j = rowsum m al j + (if (j =? j0)%nat then v - get2 al j0 i0 else 0).
Proof.
  intros Hs Hj Hi. unfold rowsum, load, plan_f.
  destruct (Nat.eqb_spec j j0) as [->|Hne].
  - rewrite (zsum_point _ (fun i => get2 al j0 i) (seq 0 m) i0).
    + rewrite (get2_upd2 n m) by assumption. rewrite !Nat.eqb_refl. cbn [andb]. reflexivity.
    + apply seq_NoDup.
    + apply in_seq. lia.
    + intros b _ Hb. rewrite (get2_upd2 n m) by assumption. rewrite Nat.eqb_refl. cbn [andb].
      destruct (Nat.eqb_spec b i0); [contradiction|reflexivity].
  - rewrite Z.add_0_r. apply zsum_ext. intros b _. rewrite (get2_upd2 n m) by assumption.
    destruct (Nat.eqb_spec j j0); [contradiction|reflexivity].
Qed.

Lemma colsum_upd2 n m al j0 i0 v i : shape n m al -> (j0 < n)%nat -> (i0 < m)%nat ->
  colsum n (upd2 al j0 i0 v) i = colsum n al i + (if (i =? i0)%nat then v - get2 al j0 i0 else 0).
Proof.
  intros Hs Hj Hi. unfold colsum, sent, plan_f.
  destruct (Nat.eqb_spec i i0) as [->|Hne].
  - rewrite (zsum_point _ (fun j => get2 al j i0) (seq 0 n) j0).
    + rewrite (get2_upd2 n m) by assumption. rewrite !Nat.eqb_refl. cbn [andb]. reflexivity.
    + apply seq_NoDup.
    + apply in_seq. lia.
    + intros b _ Hb. rewrite (get2_upd2 n m) by assumption. rewrite Nat.eqb_refl.
      destruct (Nat.eqb_spec b j0); [contradiction|reflexivity].
  - rewrite Z.add_0_r. apply zsum_ext. intros b _. rewrite (get2_upd2 n m) by assumption.
    destruct (Nat.eqb_spec i i0); [contradiction|]. rewrite andb_false_r. reflexivity.
Qed.

(* ---- parent chains *)
Inductive Chain (par : list (option nat)) : nat -> list nat -> nat -> Prop :=
| Ch_root r : nth r par None = None -> Chain par r [] r
| Ch_step a b l r : nth a par None = Some b -> Chain par b l r -> Chain par a (a :: l) r.

Lemma chain_det par a l r : Chain par a l r -> forall l' r', Chain par a l' r' -> l = l' /\ r = r'.
Proof.
  induction 1 as [r Hr|a b l r Hab Hc IH]; intros l' r' H'; inversion H' as [? Hr'|? b' ? ? Hab' Hc']; subst; try congruence.
  - split; reflexivity.
  - assert (b' = b) by congruence. subst b'. destruct (IH _ _ Hc') as [-> ->]. split; reflexivity.
Qed.

Lemma chain_root par a l r : Chain par a l r -> nth r par None = None.
Proof. induction 1; assumption. Qed.

Lemma chain_suffix par a l r : Chain par a l r -> forall b, In b l ->
  exists l1 l2, l = l1 ++ b :: l2 /\ Chain par b (b :: l2) r.
Proof.
  induction 1 as [r Hr|a b0 l r Hab Hc IH]; intros b Hb; [destruct Hb|].
  destruct Hb as [<-|Hb].
  - exists [], l. split; [reflexivity|]. econstructor; eassumption.
  - destruct (IH b Hb) as (l1 & l2 & -> & Hc'). exists (a :: l1), l2. split; [reflexivity|exact Hc'].
Qed.

Lemma chain_nodup par a l r : Chain par a l r -> NoDup l /\ ~ In r l.
Proof.
  induction 1 as [r Hr|a b l r Hab Hc [IHn IHr]].
  - split; [constructor|intros []].
  - assert (Hca : Chain par a (a :: l) r) by (econstructor; eassumption).
    split.
    + constructor; [|exact IHn]. intros Hin.
      destruct (chain_suffix _ _ _ _ Hc a Hin) as (l1 & l2 & -> & Hc').
      destruct (chain_det _ _ _ _ Hca _ _ Hc') as [E _]. injection E as E.
      apply (f_equal (@length nat)) in E. rewrite app_length in E. cbn in E. lia.
    + intros [<-|Hin]; [pose proof (chain_root _ _ _ _ Hc); congruence|contradiction].
Qed.

(* ---- queues *)
Lemma q_push_head e q e1 t : q_push e q = e1 :: t -> e1 = e \/ exists t', q = e1 :: t'.
Proof.
  destruct q as [|h q']; cbn [q_push].
  - intros [= <- <-]. left; reflexivity.
  - destruct (fst e <? fst h); intros [= <- <-]; [left; reflexivity|right; eexists; reflexivity].
Qed.

Lemma getq_other qs a row j b : j <> a -> getq (upd qs a row) j b = getq qs j b.
Proof. intros H. unfold getq. rewrite nth_upd_neq by congruence. reflexivity. Qed.

Lemma row_upd_other {A} (qs : list (list A)) a row j : j <> a -> nth j (upd qs a row) [] = nth j qs [].
Proof. intros H. apply nth_upd_neq. congruence. Qed.

Lemma dest_queues_spec pb al qs a src qs1 :
  update_dest_queues pb al qs a src = Ok qs1 ->
  (forall j, j <> a -> nth j qs1 [] = nth j qs []) /\
  (forall b e t, getq qs1 a b = e :: t -> snd e = src \/ exists t', getq qs a b = e :: t').
Proof.
  unfold update_dest_queues. destruct (negb _).
  - intros [= <-]. split; [reflexivity|]. intros b e t H. right. eexists; exact H.
  - destruct (existsb _ _); [discriminate|]. intros [= <-]. split.
    + intros j Hj. apply row_upd_other, Hj.
    + intros b e t H. unfold getq in *.
      destruct (Nat.lt_ge_cases a (length qs)) as [Ha|Ha].
      * rewrite nth_upd_eq in H by exact Ha.
        destruct (Nat.lt_ge_cases b (length (nth a qs []))) as [Hb|Hb].
        -- rewrite (@mapi_from_nth Queue Queue _ _ 0%nat b [] []) in H by exact Hb. cbn [Nat.add] in H.
           destruct (b =? a)%nat; [right; eexists; exact H|].
           apply q_push_head in H. destruct H as [->|H]; [left; reflexivity|right; exact H].
        -- rewrite nth_overflow in H by (rewrite mapi_from_length; exact Hb). discriminate.
      * rewrite (nth_overflow (upd _ _ _)) in H by (rewrite upd_length; exact Ha). destruct b; discriminate.
Qed.

Lemma sink_queues_rows al qs a src j : j <> a -> nth j (update_sink_queues al qs a src) [] = nth j qs [].
Proof.
  intros Hj. unfold update_sink_queues. destruct (negb _); [reflexivity|]. apply row_upd_other, Hj.
Qed.

(* ---- first chain walk of sendSource(src, sink, quantity): the bottleneck *)
Definition good (s : St) (mx : Z) (a : nat) : Prop :=
  forall b e t, nth a (parent s) None = Some b -> getq (queues s) a b = e :: t -> mx <= get2 (alloc s) a (snd e).

Lemma walk1_spec s sink q p r m1 :
  0 < q -> run_loop 519 p (walk1_body s) (sink, q) = Ok (r, m1) ->
  exists l, Chain (parent s) sink l r /\ 0 < m1 <= q /\ forall a, In a l -> good s m1 a.
Proof.
  intros Hq H.
  apply (run_loop_inv
    (fun w : nat * Z => 0 < snd w <= q /\ exists pre,
         (forall l r, Chain (parent s) (fst w) l r -> Chain (parent s) sink (pre ++ l) r) /\
         forall a, In a pre -> good s (snd w) a)
    (fun w : nat * Z => exists l, Chain (parent s) sink l (fst w) /\ 0 < snd w <= q /\
                                  forall a, In a l -> good s (snd w) a)) in H.
  - exact H.
  - cbn [fst snd]. split; [lia|]. exists []. split; [intros; assumption|intros ? []].
  - intros [cur m] (Hm & pre & Hch & Hgood). cbn [fst snd] in *. unfold walk1_body.
    destruct (nth cur (parent s) None) as [b|] eqn:Ep.
    + unfold sent_source. destruct (getq (queues s) cur b) as [|e t] eqn:Eq; [exact I|].
      destruct (Z.gtb_spec (Z.min m (get2 (alloc s) cur (snd e))) 0) as [Hpos|Hnp]; [|exact I].
      cbn [fst snd]. split; [lia|]. exists (pre ++ [cur]). split.
      * intros l r0 Hc. rewrite <- app_assoc. cbn [app]. apply Hch. econstructor; eassumption.
      * intros a Ha. apply in_app_iff in Ha. destruct Ha as [Ha|[<-|[]]].
        -- intros b' e' t' H1 H2. specialize (Hgood a Ha b' e' t' H1 H2). lia.
        -- intros b' e' t' H1 H2. rewrite Ep in H1. injection H1 as <-. rewrite Eq in H2.
           injection H2 as <- <-. lia.
    + exists pre. split; [|split; [exact Hm|exact Hgood]]. rewrite <- (app_nil_r pre). apply Hch.
      constructor. exact Ep.
Qed.

(* ---- second chain walk: the quantity mx travels along the chain, carried by w_src *)
Section Walk2.
Variables (pb : Pb) (s : St) (src sink root : nat) (l : list nat) (mx : Z).
Let n := nsnk pb.
Let m := nsrc pb.
Hypothesis Hshape : shape n m (alloc s).
Hypothesis Hnn : forall j i, 0 <= get2 (alloc s) j i.
Hypothesis Hchain : Chain (parent s) sink l root.
Hypothesis Hmx : 0 < mx.
Hypothesis Hgood : forall a, In a l -> good s mx a.
Hypothesis Hsrc : (src < m)%nat.

Definition K (w : W2) : Prop :=
  exists pre post, l = pre ++ post /\ Chain (parent s) (w_snk w) post root /\
    shape n m (w_al w) /\ (forall j i, 0 <= get2 (w_al w) j i) /\
    (forall j, ~ In j pre -> nth j (w_al w) [] = nth j (alloc s) [] /\ nth j (w_qs w) [] = nth j (queues s) []) /\
    (forall j, (j < n)%nat -> rowsum m (w_al w) j = rowsum m (alloc s) j) /\
    (forall i, (i < m)%nat -> colsum n (w_al w) i + delta i (w_src w) * mx = colsum n (alloc s) i + delta i src * mx) /\
    (w_src w < m)%nat.

Lemma walk2_step_K w b w' :
  K w -> nth (w_snk w) (parent s) None = Some b -> walk2_step pb (rem s) mx w b = Ok w' -> K w'.
Proof.
  destruct w as [wal wqs a wsrc wupd]. unfold K. cbn [w_al w_qs w_snk w_src w_upd].
  intros (pre & post & El & Hc & Hsh & Hpos & Hrows & Hrs & Hcs & Hws) Hp Hstep.
  inversion Hc as [? Hr|? b' post' ? Hab Hc']; subst; [congruence|].
  assert (b' = b) by congruence. subst b'.
  assert (Hne : a <> b).
  { intros <-. destruct (chain_det _ _ _ _ Hc _ _ Hc') as [E _].
    apply (f_equal (@length nat)) in E. cbn in E. lia. }
  destruct (chain_nodup _ _ _ _ Hchain) as [Hnd _].
  assert (Hnotin : ~ In a pre).
  { apply NoDup_remove_2 in Hnd. intros Hin. apply Hnd, in_app_iff. left; exact Hin. }
  assert (Hga : good s mx a) by (apply Hgood, in_app_iff; right; left; reflexivity).
  destruct (Hrows a Hnotin) as [Era Erq].
  unfold walk2_step in Hstep. cbn [w_al w_qs w_snk w_src w_upd] in Hstep.
  destruct (negb (getZ (rem s) a =? 0)); [discriminate|].
  unfold moving_cost at 1 in Hstep. destruct (Nat.eqb_spec a b) as [|_]; [contradiction|].
  destruct (getq wqs a b) as [|e0 t0] eqn:Eq0; [discriminate|]. cbn [bind] in Hstep.
  assert (Eq0' : getq (queues s) a b = e0 :: t0) by (unfold getq in *; rewrite <- Erq; exact Eq0).
  pose proof (Hga b e0 t0 Hp Eq0') as Hm0.
  destruct (get2_inrange n m (alloc s) a (snd e0) Hshape ltac:(lia)) as [Han He0].
  destruct (update_dest_queues pb wal wqs a wsrc) as [qs1|] eqn:Ed; [|discriminate]. cbn [bind] in Hstep.
  destruct (dest_queues_spec _ _ _ _ _ _ Ed) as [Hd1 Hd2].
  unfold sent_source at 1 in Hstep. destruct (getq qs1 a b) as [|e1 t1] eqn:Eq1; [discriminate|].
  cbn [bind] in Hstep.
  set (al1 := upd2 wal a wsrc (get2 wal a wsrc + mx)) in *.
  assert (Hsh1 : shape n m al1) by (apply upd2_shape, Hsh).
  assert (C1 : mx <= get2 al1 a (snd e1)).
  { unfold al1. rewrite (get2_upd2 n m) by assumption. rewrite Nat.eqb_refl. cbn [andb].
    destruct (Nat.eqb_spec (snd e1) wsrc) as [_|Hd]; [specialize (Hpos a wsrc); lia|].
    destruct (Hd2 b e1 t1 Eq1) as [E|[t' E]]; [contradiction|].
    rewrite Eq0 in E. injection E as <- _. unfold get2 in *. rewrite Era. exact Hm0. }
  destruct (get2_inrange n m al1 a (snd e1) Hsh1 ltac:(lia)) as [_ He1].
  set (al2 := upd2 al1 a (snd e1) (get2 al1 a (snd e1) - mx)) in *.
  destruct (moving_cost 541 _ a b) as [nc|]; [|discriminate]. cbn [bind] in Hstep.
  injection Hstep as <-. cbn [w_al w_qs w_snk w_src w_upd].
  exists (pre ++ [a]), post'. split; [rewrite <- app_assoc; reflexivity|]. split; [exact Hc'|].
  split; [apply upd2_shape, Hsh1|]. split; [|split; [|split; [|split]]].
  - intros j i. unfold al2. rewrite (get2_upd2 n m) by assumption.
    destruct ((j =? a)%nat && (i =? snd e1)%nat); [lia|].
    unfold al1. rewrite (get2_upd2 n m) by assumption.
    destruct ((j =? a)%nat && (i =? wsrc)%nat); [specialize (Hpos a wsrc); lia|apply Hpos].
  - intros j Hj. assert (Hj1 : ~ In j pre) by (intros H; apply Hj, in_app_iff; left; exact H).
    assert (Hj2 : j <> a) by (intros ->; apply Hj, in_app_iff; right; left; reflexivity).
    destruct (Hrows j Hj1) as [E1 E2]. split.
    + unfold al2, al1. rewrite !row_upd2_other by exact Hj2. exact E1.
    + rewrite sink_queues_rows by exact Hj2. rewrite Hd1 by exact Hj2. exact E2.
  - intros j Hj. unfold al2. rewrite (rowsum_upd2 n m) by assumption.
    unfold al1 at 1. rewrite (rowsum_upd2 n m) by assumption. rewrite Hrs by exact Hj.
    destruct (j =? a)%nat; lia.
  - intros i Hi. unfold al2. rewrite (colsum_upd2 n m) by assumption.
    unfold al1 at 1. rewrite (colsum_upd2 n m) by assumption. specialize (Hcs i Hi).
    unfold delta in *. destruct (i =? snd e1)%nat, (i =? wsrc)%nat; lia.
  - exact He1.
Qed.

Lemma walk2_spec p w :
  run_loop 532 p (walk2_body pb (parent s) (rem s) mx) (mkW2 (alloc s) (queues s) sink src false) = Ok w ->
  w_snk w = root /\ shape n m (w_al w) /\ (forall j i, 0 <= get2 (w_al w) j i) /\
  (forall j, (j < n)%nat -> rowsum m (w_al w) j = rowsum m (alloc s) j) /\
  (forall i, (i < m)%nat -> colsum n (w_al w) i + delta i (w_src w) * mx = colsum n (alloc s) i + delta i src * mx) /\
  (w_src w < m)%nat.
Proof.
  intros H.
  apply (run_loop_inv K (fun w => K w /\ nth (w_snk w) (parent s) None = None)) in H.
  - destruct H as [(pre & post & El & Hc & Hsh & Hpos & Hrows & Hrs & Hcs & Hws) Hnone].
    assert (Er : w_snk w = root) by (inversion Hc as [? Hr|? b' post' ? Hab Hc']; [reflexivity|congruence]).
    split; [exact Er|]. split; [exact Hsh|]. split; [exact Hpos|]. split; [exact Hrs|]. split; [exact Hcs|exact Hws].
  - exists [], l. cbn [w_al w_qs w_snk w_src].
    split; [reflexivity|]. split; [exact Hchain|]. split; [exact Hshape|]. split; [exact Hnn|].
    split; [intros; split; reflexivity|]. split; [reflexivity|]. split; [reflexivity|exact Hsrc].
  - intros w0 HK. unfold walk2_body. destruct (nth (w_snk w0) (parent s) None) as [b|] eqn:Ep.
    + destruct (walk2_step pb (rem s) mx w0 b) as [w1|] eqn:Es; [|exact I].
      eapply walk2_step_K; eassumption.
    + split; assumption.
Qed.
End Walk2.

(* ---- the solver-wide invariant *)
Definition G (pb : Pb) (s : St) : Prop :=
  shape (nsnk pb) (nsrc pb) (alloc s) /\ length (rem s) = nsnk pb /\
  (forall j i, 0 <= get2 (alloc s) j i) /\
  (forall j, (j < nsnk pb)%nat -> rowsum (nsrc pb) (alloc s) j + getZ (rem s) j = cap_f pb j) /\
  (forall j, 0 <= getZ (rem s) j).

Lemma update_tree_frame s s' : update_tree s = Ok s' -> alloc s' = alloc s /\ rem s' = rem s.
Proof.
  unfold update_tree. destruct (run_loop _ _ _ _) as [t|e]; cbn [bind]; [|discriminate].
  intros [= <-]. split; reflexivity.
Qed.

Lemma send_source3_spec pb s src sink q s' sent :
  G pb s -> (src < nsrc pb)%nat -> send_source3 pb s src sink q = Ok (s', sent) ->
  G pb s' /\ 0 < sent <= q /\
  forall i, (i < nsrc pb)%nat -> colsum (nsnk pb) (alloc s') i = colsum (nsnk pb) (alloc s) i + delta i src * sent.
Proof.
  intros (Hsh & Hlr & Hpos & Hrs & Hrem) Hsrc. unfold send_source3.
  destruct (Z.gtb_spec q 0) as [Hq|]; cbn [negb]; [|discriminate].
  destruct (run_loop 519 _ _ _) as [[root m1]|] eqn:E1; cbn [bind]; [|discriminate].
  destruct (walk1_spec _ _ _ _ _ _ Hq E1) as (l & Hch & Hm1 & Hgood).
  set (mx := Z.min m1 (getZ (rem s) root)).
  assert (Hmx1 : mx <= m1) by apply Z.le_min_l.
  assert (Hmx2 : mx <= getZ (rem s) root) by apply Z.le_min_r.
  clearbody mx.
  destruct (Z.gtb_spec mx 0) as [Hmx|]; cbn [negb]; [|discriminate].
  assert (Hgood' : forall a, In a l -> good s mx a).
  { intros a Ha b e t H1 H2. specialize (Hgood a Ha b e t H1 H2). lia. }
  destruct (run_loop 532 _ _ _) as [w|] eqn:E2; cbn [bind]; [|discriminate].
  destruct (walk2_spec pb s src sink root l mx Hsh Hpos Hch Hmx Hgood' Hsrc _ _ E2)
    as (Ew & Hshw & Hposw & Hrsw & Hcsw & Hws).
  rewrite Ew.
  assert (Hroot : (root < nsnk pb)%nat).
  { rewrite <- Hlr. destruct (Nat.lt_ge_cases root (length (rem s))) as [|Hge]; [assumption|].
    unfold getZ in Hmx2. rewrite nth_overflow in Hmx2 by exact Hge. lia. }
  set (al := upd2 (w_al w) root (w_src w) (get2 (w_al w) root (w_src w) + mx)).
  set (rm := upd (rem s) root (getZ (rem s) root - mx)).
  match goal with |- context [if ?c then init_queues pb al (w_qs w) root else w_qs w] =>
    set (qs := if c then init_queues pb al (w_qs w) root else w_qs w) end.
  intros H.
  assert (Hfr : alloc s' = al /\ rem s' = rm /\ sent = mx).
  { destruct (w_upd w || (getZ rm root =? 0)).
    - destruct (update_tree _) as [s2|] eqn:Et; cbn [bind] in H; [|discriminate].
      injection H as <- <-. apply update_tree_frame in Et. cbn [alloc rem] in Et. tauto.
    - cbn [bind] in H. injection H as <- <-. cbn [alloc rem]. tauto. }
  destruct Hfr as (Ea & Er & ->). unfold G. rewrite Ea, Er.
  split; [|split; [lia|]].
  { split; [apply upd2_shape, Hshw|]. split; [unfold rm; rewrite upd_length; exact Hlr|].
    split; [|split].
    - intros j i. unfold al. rewrite (get2_upd2 (nsnk pb) (nsrc pb)) by assumption.
      destruct ((j =? root)%nat && (i =? w_src w)%nat); [specialize (Hposw root (w_src w)); lia|apply Hposw].
    - intros j Hj. unfold al. rewrite (rowsum_upd2 (nsnk pb) (nsrc pb)) by assumption.
      rewrite Hrsw by exact Hj. specialize (Hrs j Hj). unfold rm, getZ in *.
      destruct (Nat.eqb_spec j root) as [->|Hne].
      + rewrite nth_upd_eq by lia. lia.
      + rewrite nth_upd_neq by congruence. lia.
    - intros j. unfold rm, getZ. destruct (Nat.eq_dec root j) as [<-|Hne].
      + rewrite nth_upd_eq by lia. unfold getZ in Hmx2. lia.
      + rewrite nth_upd_neq by exact Hne. apply Hrem. }
  intros i Hi. unfold al. rewrite (colsum_upd2 (nsnk pb) (nsrc pb)) by assumption.
  specialize (Hcsw i Hi). unfold delta in *. destruct (i =? w_src w)%nat; lia.
Qed.

(* ---- sendSource(src): the whole demand of src is sent *)
Lemma send_source_spec pb s src s' :
  G pb s -> (src < nsrc pb)%nat -> 0 <= dem_f pb src -> send_source pb s src = Ok s' ->
  G pb s' /\
  forall i, (i < nsrc pb)%nat ->
    colsum (nsnk pb) (alloc s') i = colsum (nsnk pb) (alloc s) i + delta i src * dem_f pb src.
Proof.
  intros HG Hsrc Hd H. unfold send_source in H. fold (dem_f pb src) in H.
  apply (run_loop_inv
    (fun sr : St * Z => G pb (fst sr) /\ 0 <= snd sr /\
       forall i, (i < nsrc pb)%nat ->
         colsum (nsnk pb) (alloc (fst sr)) i = colsum (nsnk pb) (alloc s) i + delta i src * (dem_f pb src - snd sr))
    (fun s1 : St => G pb s1 /\
       forall i, (i < nsrc pb)%nat ->
         colsum (nsnk pb) (alloc s1) i = colsum (nsnk pb) (alloc s) i + delta i src * dem_f pb src)) in H.
  - exact H.
  - cbn [fst snd]. split; [exact HG|]. split; [exact Hd|]. intros i Hi. rewrite Z.sub_diag. lia.
  - intros [s1 r] (HG1 & Hr & Hc). cbn [fst snd] in *. unfold send_body.
    destruct (Z.gtb_spec r 0) as [Hr0|Hr0]; cbn [negb].
    + destruct (send_source3 pb s1 src _ r) as [[s2 sent]|] eqn:E; [|exact I].
      destruct (send_source3_spec _ _ _ _ _ _ _ HG1 Hsrc E) as (HG2 & Hs & Hc2).
      destruct (Z.gtb_spec sent 0); cbn [negb]; [|exact I].
      cbn [fst snd]. split; [exact HG2|]. split; [lia|]. intros i Hi. rewrite Hc2, Hc by exact Hi.
      unfold delta. destruct (i =? src)%nat; lia.
    + split; [exact HG1|]. intros i Hi. rewrite Hc by exact Hi. assert (r = 0) by lia. subst r.
      rewrite Z.sub_0_r. reflexivity.
Qed.

(* ---- sortedSourcesByDemand is a permutation of the sources *)
Lemma ins_key_perm a l : Permutation (ins_key a l) (a :: l).
Proof.
  induction l as [|h l IH]; cbn [ins_key]; [reflexivity|]. destruct (key_le a h); [reflexivity|].
  rewrite IH. apply perm_swap.
Qed.
Lemma sort_perm l : Permutation (fold_right ins_key [] l) l.
Proof. induction l as [|a l IH]; cbn [fold_right]; [constructor|]. rewrite ins_key_perm. constructor. exact IH. Qed.
Lemma map_snd_mapi k (l : list Z) : map snd (mapi_from k (fun i d => (- d, i)) l) = seq k (length l).
Proof. revert k; induction l as [|a l IH]; intros k; cbn; [reflexivity|]. rewrite IH. reflexivity. Qed.
Lemma sorted_sources_perm pb : Permutation (sorted_sources pb) (seq 0 (nsrc pb)).
Proof.
  unfold sorted_sources. eapply Permutation_trans; [apply Permutation_map, sort_perm|].
  rewrite map_snd_mapi. reflexivity.
Qed.

(* ---- run() *)
Definition ind (i : nat) (L : list nat) : Z := if existsb (Nat.eqb i) L then 1 else 0.

Lemma run_sources_spec pb L :
  NoDup L -> (forall a, In a L -> (a < nsrc pb)%nat) -> (forall i, 0 <= dem_f pb i) ->
  forall s s', G pb s -> foldM (send_source pb) L s = Ok s' ->
  G pb s' /\
  forall i, (i < nsrc pb)%nat ->
    colsum (nsnk pb) (alloc s') i = colsum (nsnk pb) (alloc s) i + ind i L * dem_f pb i.
Proof.
  intros Hnd Hin Hd. induction L as [|a L IH]; intros s s' HG; cbn [foldM].
  - intros [= <-]. split; [exact HG|]. intros i _. unfold ind. cbn. lia.
  - inversion Hnd as [|? ? Hna Hnd']; subst.
    destruct (send_source pb s a) as [s1|] eqn:E; cbn [bind]; [|discriminate].
    destruct (send_source_spec _ _ _ _ HG (Hin a (or_introl eq_refl)) (Hd a) E) as [HG1 Hc1].
    intros H. destruct (IH Hnd' (fun b Hb => Hin b (or_intror Hb)) _ _ HG1 H) as [HG' Hc'].
    split; [exact HG'|]. intros i Hi. rewrite Hc', Hc1 by exact Hi.
    unfold ind, delta. cbn [existsb]. destruct (Nat.eqb_spec i a) as [->|Hne]; cbn [orb]; [|lia].
    destruct (existsb (Nat.eqb a) L) eqn:Ex; [|lia].
    apply existsb_exists in Ex. destruct Ex as (b & Hb & Eb). apply Nat.eqb_eq in Eb. subst b. contradiction.
Qed.

Lemma get2_zero_alloc pb j i : get2 (zero_alloc pb) j i = 0.
Proof.
  unfold get2, zero_alloc. destruct (Nat.lt_ge_cases j (nsnk pb)) as [Hj|Hj].
  - rewrite (nth_indep _ [] (repeat 0 (nsrc pb))) by (rewrite repeat_length; exact Hj). rewrite nth_repeat.
    destruct (Nat.lt_ge_cases i (nsrc pb)) as [Hi|Hi]; [apply nth_repeat|].
    apply nth_overflow. rewrite repeat_length. exact Hi.
  - rewrite (nth_overflow (repeat _ _)) by (rewrite repeat_length; exact Hj). destruct i; reflexivity.
Qed.

Lemma G_init pb : (forall j, 0 <= cap_f pb j) -> G pb (init_st pb).
Proof.
  intros Hc. unfold G, init_st. cbn [alloc rem]. split; [|split; [reflexivity|split; [|split]]].
  - split; [apply repeat_length|]. intros j Hj. unfold zero_alloc.
    rewrite (nth_indep _ [] (repeat 0 (nsrc pb))) by (rewrite repeat_length; exact Hj).
    rewrite nth_repeat. apply repeat_length.
  - intros j i. rewrite get2_zero_alloc. lia.
  - intros j Hj. unfold rowsum, load, plan_f.
    rewrite (zsum_ext _ (fun _ => 0)) by (intros; apply get2_zero_alloc). rewrite zsum_zero. reflexivity.
  - exact Hc.
Qed.

(* [F] every plan the raw algorithm returns is feasible *)
Lemma ssp_feasible pb x :
  (forall j, 0 <= cap_f pb j) -> (forall i, 0 <= dem_f pb i) -> ssp pb = Ok x -> pb_feasible pb (plan_f x).
Proof.
  intros Hc Hd. unfold ssp, ssp_run. destruct (foldM _ _ _) as [s|] eqn:E; cbn [bind]; [|discriminate].
  intros [= <-].
  pose proof (sorted_sources_perm pb) as Hperm.
  assert (Hnd : NoDup (sorted_sources pb)) by (eapply Permutation_NoDup; [symmetry; exact Hperm|apply seq_NoDup]).
  assert (Hin : forall a, In a (sorted_sources pb) -> (a < nsrc pb)%nat).
  { intros a Ha. eapply Permutation_in in Ha; [|exact Hperm]. apply in_seq in Ha. lia. }
  destruct (run_sources_spec pb _ Hnd Hin Hd _ _ (G_init pb Hc) E) as [(Hsh & Hlr & Hpos & Hrs & Hrem) Hcs].
  unfold pb_feasible, feasible, srcs_of, snks_of. split; [|split].
  - intros i Hi. apply in_seq in Hi. specialize (Hcs i ltac:(lia)). unfold colsum in Hcs. rewrite Hcs.
    cbn [alloc init_st]. unfold sent, plan_f.
    rewrite (zsum_ext _ (fun _ => 0)) by (intros; apply get2_zero_alloc). rewrite zsum_zero.
    unfold ind. assert (Ex : existsb (Nat.eqb i) (sorted_sources pb) = true).
    { apply existsb_exists. exists i. split; [|apply Nat.eqb_refl].
      eapply Permutation_in; [symmetry; exact Hperm|]. apply in_seq. lia. }
    rewrite Ex. lia.
  - intros j Hj. apply in_seq in Hj. specialize (Hrs j ltac:(lia)). specialize (Hrem j).
    unfold rowsum in Hrs. lia.
  - intros i j _ _. apply Hpos.
Qed.

Lemma check_pb_nonneg pb : check_pb pb = true -> (forall j, 0 <= cap_f pb j) /\ (forall i, 0 <= dem_f pb i).
Proof.
  unfold check_pb. rewrite !andb_true_iff, !forallb_forall. intros [[[Hd Hc] _] _].
  split; intros k; unfold cap_f, dem_f, getZ.
  - destruct (Nat.lt_ge_cases k (length (caps pb))) as [Hk|Hk]; [|rewrite nth_overflow by exact Hk; lia].
    specialize (Hc _ (nth_In _ 0 Hk)). apply Z.ltb_lt in Hc. lia.
  - destruct (Nat.lt_ge_cases k (length (dems pb))) as [Hk|Hk]; [|rewrite nth_overflow by exact Hk; lia].
    specialize (Hd _ (nth_In _ 0 Hk)). apply Z.ltb_lt in Hd. lia.
Qed.

Lemma ssp_feasible_checked pb x : check_pb pb = true -> ssp pb = Ok x -> pb_feasible pb (plan_f x).
Proof. intros Hc. destruct (check_pb_nonneg pb Hc) as [H1 H2]. exact (ssp_feasible pb x H1 H2). Qed.

(* the outer loop of sendSource(src) never exhausts its fuel (every iteration sends >= 1) *)
Lemma loopP_measure {S R : Type} (mu : S -> nat) (body : S -> step S R) :
  (forall s s', body s = Continue s' -> (mu s' < mu s)%nat) ->
  forall p s s', loopP p body s = Continue s' -> (mu s' + Pos.to_nat p <= mu s)%nat.
Proof.
  intros Hb. induction p as [p IH|p IH|]; intros s s'; cbn [loopP].
  - destruct (body s) as [s1|r] eqn:E1; [|discriminate]. apply Hb in E1.
    destruct (loopP p body s1) as [s2|r] eqn:E2; [|discriminate]. apply IH in E2.
    intros E3. apply IH in E3. rewrite Pos2Nat.inj_xI. lia.
  - destruct (loopP p body s) as [s2|r] eqn:E2; [|discriminate]. apply IH in E2.
    intros E3. apply IH in E3. rewrite Pos2Nat.inj_xO. lia.
  - intros E. apply Hb in E. rewrite Pos2Nat.inj_1. lia.
Qed.

Lemma send_loop_never_out_of_fuel pb s src :
  exists r, loopP (Z.to_pos (getZ (dems pb) src + 1)) (send_body pb src) (s, getZ (dems pb) src) = Done r.
Proof.
  set (d := getZ (dems pb) src).
  destruct (loopP _ _ _) as [[s' r']|r] eqn:E; [|exists r; reflexivity].
  exfalso. apply (loopP_measure (fun sr : St * Z => Z.to_nat (snd sr))) in E.
  - cbn [snd] in E. pose proof (Pos2Nat.is_pos (Z.to_pos (d + 1))).
    destruct (Z.leb_spec d 0); [|rewrite <- Z2Nat.inj_pos, Z2Pos.id in E by lia]; lia.
  - intros [s1 r1] s2. unfold send_body. destruct (Z.gtb_spec r1 0); cbn [negb]; [|discriminate].
    destruct (send_source3 _ _ _ _ _) as [[s3 sent]|]; [|discriminate].
    destruct (Z.gtb_spec sent 0); cbn [negb]; [|discriminate]. intros [= <-]. cbn [snd]. lia.
Qed.
