(* C18, floating-point analysis, part 3: Circuit::computeCellExpansion in binary32 (model ExpandFloat.v):
   the factor of a congested region is strictly above 1.0f, the result is 1.0f for fixed / uncongested cells and
   otherwise the largest factor (std::max of floats is exact).  Proofs only. *)
From Coq Require Import ZArith Reals Psatz Lra Lia List Bool.
From Flocq Require Import Core BinarySingleNaN.
Require Import CV.Orient CV.FreeSpace CV.Expand CV.ExpandProofs CV.SpreadFloat CV.SpreadFloatProofs.
Require Import CV.ExpandFloat CV.ExpandFloatBase.
Import ListNotations.
Local Open Scope R_scope.
Local Existing Instance ExpandFloatBase.prec24.
Local Existing Instance ExpandFloatBase.valid32.

Lemma Bltb32_false_ge : forall a b : f32, is_finite a = true -> is_finite b = true ->
  Bltb a b = false -> B2R b <= B2R a.
Proof.
  intros a b Fa Fb H. rewrite (Bltb_correct 24 128 a b Fa Fb) in H.
  destruct (Rlt_bool_spec (B2R a) (B2R b)); [discriminate|assumption].
Qed.

(* std::max on finite floats: one of the arguments, not below either *)
Lemma fmax_std_cases : forall a b : f32, is_finite a = true -> is_finite b = true ->
  (fmax_std a b = a \/ fmax_std a b = b) /\ B2R a <= B2R (fmax_std a b) /\ B2R b <= B2R (fmax_std a b).
Proof.
  intros a b Fa Fb. unfold fmax_std. destruct (Bltb a b) eqn:E.
  - pose proof (Bltb_true_lt a b Fa Fb E). split; [right; reflexivity|]. lra.
  - pose proof (Bltb32_false_ge a b Fa Fb E). split; [left; reflexivity|]. lra.
Qed.

(* the smallest float above 1 *)
Lemma fmt32_succ1 : fmt32 (1 + bpow radix2 (-23)).
Proof.
  replace (1 + bpow radix2 (-23)) with (IZR 8388609 * bpow radix2 (-23)).
  - apply fmt32_F2R; [simpl; lia|lia].
  - change 8388609%Z with (8388608 + 1)%Z. rewrite plus_IZR.
    change (IZR 8388608) with (bpow radix2 23). rewrite Rmult_plus_distr_r, <- bpow_plus. simpl. lra.
Qed.

Lemma f32_gt_1 : forall c : R, fmt32 c -> 1 < c -> 1 + bpow radix2 (-23) <= c.
Proof.
  intros c Fc Hc.
  assert (F1 : fmt32 1). { change 1 with (bpow radix2 0). apply fmt32_bpow. lia. }
  pose proof (succ_le_lt radix2 fexp32 1 c F1 Fc Hc) as S.
  rewrite succ_eq_pos in S by lra.
  replace (ulp radix2 fexp32 1) with (bpow radix2 (-23)) in S; [exact S|].
  change 1 with (bpow radix2 0). rewrite ulp_bpow. reflexivity.
Qed.

(* (c - 1.0f) * penaltyFactor + fixedPenalty + 1.0 for a congested region (c > 1): finite and strictly above 1 *)
Lemma region_factor_f_gt1 : forall fp pf c : f32,
  is_finite fp = true -> is_finite pf = true -> is_finite c = true ->
  0 <= B2R fp <= bpow radix2 40 -> 1 <= B2R pf <= bpow radix2 40 -> 1 < B2R c <= bpow radix2 40 ->
  is_finite (region_factor_f fp pf c) = true /\ 1 + bpow radix2 (-23) <= B2R (region_factor_f fp pf c).
Proof.
  intros fp pf c Ffp Fpf Fc Hfp Hpf Hc.
  set (u := bpow radix2 (-23)). assert (Pu : 0 < u) by apply bpow_gt_0.
  assert (Fu : fmt32 u) by (apply fmt32_bpow; lia).
  pose proof (bpow_gt_0 radix2 40) as P40.
  assert (B : forall e, (e <= 127)%Z -> bpow radix2 e <= bpow radix2 127) by (intros; apply bpow_le; lia).
  assert (E80 : bpow radix2 40 * bpow radix2 40 = bpow radix2 80) by (rewrite <- bpow_plus; reflexivity).
  assert (E81 : bpow radix2 81 = 2 * bpow radix2 80).
  { change 2 with (bpow radix2 1). rewrite <- bpow_plus. reflexivity. }
  assert (E82 : bpow radix2 82 = 2 * bpow radix2 81).
  { change 2 with (bpow radix2 1). rewrite <- bpow_plus. reflexivity. }
  assert (L40 : bpow radix2 40 <= bpow radix2 80) by (apply bpow_le; lia).
  assert (O40 : 1 <= bpow radix2 40). { apply Rle_trans with (bpow radix2 0); [simpl; lra|]. apply bpow_le. lia. }
  pose proof (f32_gt_1 (B2R c) (B2R_fmt32 c) (proj1 Hc)) as Gc. fold u in Gc.
  destruct fone_correct as [O1 O2].
  (* c - 1.0f *)
  destruct (fsub_correct c fone Fc O2) as [S1 S2].
  { rewrite O1, Rabs_pos_eq by lra. pose proof (B 40%Z ltac:(lia)). lra. }
  rewrite O1 in S1.
  assert (R1 : u <= B2R (fsub c fone) <= bpow radix2 40).
  { rewrite S1. split.
    - rewrite <- (rnd32_id u Fu). apply rnd32_le. lra.
    - rewrite <- (rnd32_id (bpow radix2 40)) by (apply fmt32_bpow; lia). apply rnd32_le. lra. }
  (* * penaltyFactor *)
  destruct (fmul_correct _ pf S2 Fpf) as [M1 M2].
  { rewrite Rabs_pos_eq by nra. pose proof (B 80%Z ltac:(lia)). nra. }
  assert (R2 : u <= B2R (fmul (fsub c fone) pf) <= bpow radix2 80).
  { rewrite M1. split.
    - rewrite <- (rnd32_id u Fu). apply rnd32_le. nra.
    - rewrite <- (rnd32_id (bpow radix2 80)) by (apply fmt32_bpow; lia). apply rnd32_le. nra. }
  (* + fixedPenalty *)
  destruct (fadd_correct _ fp M2 Ffp) as [A1 A2].
  { rewrite Rabs_pos_eq by lra. pose proof (B 81%Z ltac:(lia)). lra. }
  assert (R3 : u <= B2R (fadd (fmul (fsub c fone) pf) fp) <= bpow radix2 81).
  { rewrite A1. split.
    - rewrite <- (rnd32_id u Fu). apply rnd32_le. lra.
    - rewrite <- (rnd32_id (bpow radix2 81)) by (apply fmt32_bpow; lia). apply rnd32_le. lra. }
  (* + 1.0 in double *)
  destruct (d_of_f_correct _ A2) as [D1 D2]. destruct done_correct as [Q1 Q2].
  destruct (dadd_correct _ done D2 Q2) as [T1 T2].
  { rewrite D1, Q1, Rabs_pos_eq by lra. apply Rle_trans with (bpow radix2 82); [lra|]. apply bpow_le. lia. }
  rewrite D1, Q1 in T1.
  assert (R4 : 1 + u <= B2R (dadd (d_of_f (fadd (fmul (fsub c fone) pf) fp)) done) <= bpow radix2 82).
  { rewrite T1. split.
    - apply rnd64_ge; [apply fmt32_fmt64; apply fmt32_succ1|lra].
    - apply rnd64_le_fmt; [apply fmt64_bpow; lia|lra]. }
  (* (float) *)
  destruct (f_of_d_correct _ T2) as [G1 G2].
  { rewrite Rabs_pos_eq by lra. eapply Rle_trans; [apply R4|]. apply bpow_le. lia. }
  unfold region_factor_f. split; [exact G2|]. rewrite G1.
  rewrite <- (rnd32_id (1 + u) fmt32_succ1). apply rnd32_le. lra.
Qed.

(* ------------------------------------------------------------------ the maximum over the intersecting regions *)
Definition fin_map (emap : list (rect * f32)) : Prop := Forall (fun re => is_finite (snd re) = true) emap.

Lemma fold_fmax_spec : forall k emap acc, fin_map emap -> is_finite acc = true ->
  let v := fold_left (fun a re => if rect_intersects (fst re) (e_placement k) then fmax_std a (snd re) else a)
                     emap acc in
  is_finite v = true /\ B2R acc <= B2R v /\
  (forall r e, In (r, e) emap -> hit k r = true -> B2R e <= B2R v) /\
  (v = acc \/ exists r e, In (r, e) emap /\ hit k r = true /\ v = e).
Proof.
  intros k emap. induction emap as [|[r0 e0] t IH]; intros acc Fm Fa; cbn [fold_left].
  - split; [exact Fa|]. split; [lra|]. split; [intros r e []|left; reflexivity].
  - inversion Fm as [|x l F0 Ft]; subst. cbn [snd fst] in *.
    destruct (rect_intersects r0 (e_placement k)) eqn:Hh.
    + destruct (fmax_std_cases acc e0 Fa F0) as [Hc [La Le]].
      assert (Fx : is_finite (fmax_std acc e0) = true) by (destruct Hc as [-> | ->]; assumption).
      destruct (IH (fmax_std acc e0) Ft Fx) as [Fv [Lv [Hall Hex]]]. cbv zeta in *.
      split; [exact Fv|]. split; [lra|]. split.
      * intros r e [Heq|Hin] Hr; [inversion Heq; subst; lra|eapply Hall; eauto].
      * destruct Hex as [Hex|[r [e [Hin [Hr Hv]]]]].
        -- destruct Hc as [Hc|Hc]; [left; congruence|].
           right. exists r0, e0. split; [left; reflexivity|]. split; [exact Hh|congruence].
        -- right. exists r, e. split; [right; exact Hin|]. split; assumption.
    + destruct (IH acc Ft Fa) as [Fv [Lv [Hall Hex]]]. cbv zeta in *.
      split; [exact Fv|]. split; [exact Lv|]. split.
      * intros r e [Heq|Hin] Hr; [inversion Heq; subst; unfold hit in Hr; congruence|eapply Hall; eauto].
      * destruct Hex as [Hex|[r [e [Hin [Hr Hv]]]]]; [left; exact Hex|].
        right. exists r, e. split; [right; exact Hin|]. split; assumption.
Qed.

Lemma in_expansion_map_f : forall fp pf cmap r e, In (r, e) (expansion_map_f fp pf cmap) <->
  exists cg, In (r, cg) cmap /\ Bltb fone cg = true /\ e = region_factor_f fp pf cg.
Proof.
  intros fp pf cmap r e. unfold expansion_map_f. rewrite in_flat_map. split.
  - intros [[r1 cg] [Hin H]]. cbn [fst snd] in H. destruct (Bltb fone cg) eqn:B; [|destruct H].
    destruct H as [H|[]]. inversion H; subst. exists cg. split; [exact Hin|]. split; [exact B|reflexivity].
  - intros [cg [Hin [B ->]]]. exists (r, cg). split; [exact Hin|]. cbn [fst snd]. rewrite B. left. reflexivity.
Qed.

(* domain: finite penalties and congestion values of magnitude at most 2^40 (no binary32 overflow) *)
Definition ce_dom (cmap : list (rect * f32)) (fp pf : f32) : Prop :=
  is_finite fp = true /\ is_finite pf = true /\ B2R fp <= bpow radix2 40 /\ B2R pf <= bpow radix2 40 /\
  Forall (fun rc => is_finite (snd rc) = true /\ B2R (snd rc) <= bpow radix2 40) cmap.

Definition congested_hit_f (cmap : list (rect * f32)) (k : ecell) (r : rect) (cg : f32) : Prop :=
  In (r, cg) cmap /\ Bltb fone cg = true /\ hit k r = true.

Definition expansion_spec_f (cmap : list (rect * f32)) (fp pf : f32) (k : ecell) (v : f32) : Prop :=
  if e_fixed k then v = fone
  else is_finite v = true /\ 1 <= B2R v /\
       (forall r cg, congested_hit_f cmap k r cg -> B2R (region_factor_f fp pf cg) <= B2R v) /\
       ((forall r cg, ~ congested_hit_f cmap k r cg) -> v = fone) /\
       ((exists r cg, congested_hit_f cmap k r cg) ->
        exists r cg, congested_hit_f cmap k r cg /\ v = region_factor_f fp pf cg).

Lemma fzero_correct : B2R fzero = 0 /\ is_finite fzero = true.
Proof. split; reflexivity. Qed.

Lemma compute_expansion_f_some : forall cmap fp pf c l, compute_expansion_f cmap fp pf c = Some l ->
  Bltb fp fzero = false /\ Bltb pf fone = false /\
  l = map (cell_expansion_f (expansion_map_f fp pf cmap)) (e_cells c).
Proof.
  intros cmap fp pf c l H. unfold compute_expansion_f in H.
  destruct (Bltb fp fzero) eqn:A; [discriminate H|]. destruct (Bltb pf fone) eqn:B; [discriminate H|].
  cbn [orb] in H. inversion H. split; [reflexivity|]. split; reflexivity.
Qed.

Lemma cell_expansion_f_spec : forall cmap fp pf k, ce_dom cmap fp pf -> 0 <= B2R fp -> 1 <= B2R pf ->
  expansion_spec_f cmap fp pf k (cell_expansion_f (expansion_map_f fp pf cmap) k).
Proof.
  intros cmap fp pf k [Ffp [Fpf [Ufp [Upf Hc]]]] Pfp Ppf. unfold expansion_spec_f, cell_expansion_f.
  destruct (e_fixed k); [reflexivity|].
  destruct fone_correct as [O1 O2].
  assert (G : forall r cg, In (r, cg) cmap -> Bltb fone cg = true ->
              is_finite (region_factor_f fp pf cg) = true /\ 1 + bpow radix2 (-23) <= B2R (region_factor_f fp pf cg)).
  { intros r cg Hin B. rewrite Forall_forall in Hc. destruct (Hc _ Hin) as [Fc Uc]. cbn [snd] in Fc, Uc.
    pose proof (Bltb_true_lt fone cg O2 Fc B) as L. rewrite O1 in L.
    apply region_factor_f_gt1; try assumption; lra. }
  assert (Fm : fin_map (expansion_map_f fp pf cmap)).
  { apply Forall_forall. intros [r e] Hin. apply in_expansion_map_f in Hin. destruct Hin as [cg [Hin [B ->]]].
    cbn [snd]. apply (G r cg Hin B). }
  destruct (fold_fmax_spec k _ fone Fm O2) as [Fv [Lv [Hall Hex]]]. cbv zeta in *.
  set (v := fold_left _ _ fone) in *. rewrite O1 in Lv.
  split; [exact Fv|]. split; [exact Lv|]. split; [|split].
  - intros r cg [Hin [B Hr]]. apply (Hall r). + apply in_expansion_map_f. exists cg. auto. + exact Hr.
  - intros Hno. destruct Hex as [Hex|[r [e [Hin [Hr Hv]]]]]; [exact Hex|].
    apply in_expansion_map_f in Hin. destruct Hin as [cg [Hin [B _]]]. exfalso. apply (Hno r cg). split; auto.
  - intros [r [cg [Hin [B Hr]]]]. destruct Hex as [Hex|[r1 [e [Hin1 [Hr1 Hv]]]]].
    + exfalso. pose proof (Hall r (region_factor_f fp pf cg)) as X.
      assert (Y : B2R (region_factor_f fp pf cg) <= B2R v).
      { apply X; [apply in_expansion_map_f; exists cg; auto|exact Hr]. }
      destruct (G r cg Hin B) as [_ Z]. rewrite Hex, O1 in Y. pose proof (bpow_gt_0 radix2 (-23)). lra.
    + apply in_expansion_map_f in Hin1. destruct Hin1 as [cg1 [Hin1 [B1 E1]]].
      exists r1, cg1. split; [split; auto|congruence].
Qed.

(* C18 clause 5 for the binary32 computation *)
Theorem expansion_f_is_max : forall cmap fp pf c l, ce_dom cmap fp pf ->
  compute_expansion_f cmap fp pf c = Some l ->
  0 <= B2R fp /\ 1 <= B2R pf /\ Forall2 (expansion_spec_f cmap fp pf) (e_cells c) l.
Proof.
  intros cmap fp pf c l D H. destruct (compute_expansion_f_some _ _ _ _ _ H) as [A [B ->]].
  destruct D as [Ffp [Fpf R]]. destruct fone_correct as [O1 O2]. destruct fzero_correct as [Z1 Z2].
  pose proof (Bltb32_false_ge fp fzero Ffp Z2 A) as Pfp. rewrite Z1 in Pfp.
  pose proof (Bltb32_false_ge pf fone Fpf O2 B) as Ppf. rewrite O1 in Ppf.
  split; [exact Pfp|]. split; [exact Ppf|].
  apply Forall2_map_r. intros k. apply cell_expansion_f_spec; [split; [exact Ffp|split; [exact Fpf|exact R]]|exact Pfp|exact Ppf].
Qed.

Theorem expansion_f_throws : forall cmap fp pf c, is_finite fp = true -> is_finite pf = true ->
  (compute_expansion_f cmap fp pf c = None <-> (B2R fp < 0 \/ B2R pf < 1)).
Proof.
  intros cmap fp pf c Ffp Fpf. destruct fone_correct as [O1 O2]. destruct fzero_correct as [Z1 Z2].
  unfold compute_expansion_f.
  rewrite (Bltb_correct 24 128 fp fzero Ffp Z2), (Bltb_correct 24 128 pf fone Fpf O2), Z1, O1.
  destruct (Rlt_bool_spec (B2R fp) 0) as [A|A]; destruct (Rlt_bool_spec (B2R pf) 1) as [B|B]; cbn [orb];
    split; intro H; try reflexivity; try discriminate H; try (left; exact A); try (right; exact B).
  destruct H; lra.
Qed.
