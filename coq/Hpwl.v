(* Models for C09: pin offsets under the eight orientations (Circuit::pinXOffset,
   pinYOffset, placedWidth, placedHeight), Circuit::hpwl, and the incremental
   net model of detailed placement (incr_net_model.cpp). *)
From Coq Require Import List ZArith Lia Bool.
Import ListNotations.
Require Import CV.Orient.
Local Open Scope Z_scope.

(* ---------- the code's pin offsets ---------- *)
Definition x_flipped (o : orient) : bool := match o with oS | oW | oFN | oFE => true | _ => false end.
Definition y_flipped (o : orient) : bool := match o with oS | oE | oFS | oFE => true | _ => false end.
Definition placed_width (o : orient) (w h : Z) : Z := if is_turn o then h else w.
Definition placed_height (o : orient) (w h : Z) : Z := if is_turn o then w else h.
Definition pin_x_offset (o : orient) (w h px py : Z) : Z :=
  let offs := if is_turn o then py else px in
  if x_flipped o then placed_width o w h - offs else offs.
Definition pin_y_offset (o : orient) (w h px py : Z) : Z :=
  let offs := if is_turn o then px else py in
  if y_flipped o then placed_height o w h - offs else offs.

(* ---------- the DEF semantics, independently: rotations/mirrors of a w x h box
   keeping its lower-left corner at the origin; state = (w, h, x, y) ---------- *)
Definition geom := (Z * Z * Z * Z)%type.
Definition R90 (g : geom) : geom := match g with (w, h, x, y) => (h, w, h - y, x) end.   (* counter-clockwise *)
Definition MX (g : geom) : geom := match g with (w, h, x, y) => (w, h, x, h - y) end.    (* mirror about the x axis *)
Definition MY (g : geom) : geom := match g with (w, h, x, y) => (w, h, w - x, y) end.    (* mirror about the y axis *)
Definition def_transform (o : orient) (g : geom) : option geom :=
  match o with
  | oN => Some g
  | oW => Some (R90 g)
  | oS => Some (R90 (R90 g))
  | oE => Some (R90 (R90 (R90 g)))
  | oFN => Some (MY g)
  | oFS => Some (MX g)
  | oFW => Some (R90 (MX g))      (* "MX then W" *)
  | oFE => Some (R90 (MY g))      (* "MY then W" *)
  | _ => None
  end.

(* ---------- Circuit::hpwl ---------- *)
Definition INT_MAX := 2147483647.
Definition INT_MIN := -2147483648.
Definition fmin (l : list Z) : Z := fold_left Z.min l INT_MAX.
Definition fmax (l : list Z) : Z := fold_left Z.max l INT_MIN.
Definition extent (l : list Z) : Z := fmax l - fmin l.

Record hcell := { hx : Z; hy : Z; hw : Z; hh : Z; ho : orient }.
Record hpin := { pc : nat; pxo : Z; pyo : Z }.
Definition dcell := {| hx := 0; hy := 0; hw := 0; hh := 0; ho := oN |}.
Definition pin_px (cells : list hcell) (p : hpin) : Z :=
  let c := nth (pc p) cells dcell in hx c + pin_x_offset (ho c) (hw c) (hh c) (pxo p) (pyo p).
Definition pin_py (cells : list hcell) (p : hpin) : Z :=
  let c := nth (pc p) cells dcell in hy c + pin_y_offset (ho c) (hw c) (hh c) (pxo p) (pyo p).
Definition net_hpwl (cells : list hcell) (net : list hpin) : Z :=
  match net with
  | [] => 0
  | _ => extent (map (pin_px cells) net) + extent (map (pin_py cells) net)
  end.
Definition hpwl (cells : list hcell) (nets : list (list hpin)) : Z :=
  fold_left (fun acc net => acc + net_hpwl cells net) nets 0.

(* ---------- IncrNetModel ---------- *)
Definition ipin := (nat * Z)%type.   (* local cell index, offset *)
Record incr := { ipos : list Z; inets : list (list ipin); iminmax : list (Z * Z); ivalue : Z }.

Definition ipin_pos (pos : list Z) (p : ipin) : Z := nth (fst p) pos 0 + snd p.
Definition net_minmax (pos : list Z) (net : list ipin) : Z * Z :=
  (fmin (map (ipin_pos pos) net), fmax (map (ipin_pos pos) net)).
Definition sum_widths (mm : list (Z * Z)) : Z := fold_right (fun m a => (snd m - fst m) + a) 0 mm.

(* IncrNetModelBuilder::build + finalize *)
Definition incr_build (pos : list Z) (nets : list (list ipin)) : incr :=
  let mm := map (net_minmax pos) nets in
  {| ipos := pos; inets := nets; iminmax := mm; ivalue := sum_widths mm |}.

Fixpoint upd {A} (l : list A) (i : nat) (a : A) : list A :=
  match l, i with [], _ => [] | _ :: l', O => a :: l' | x :: l', S i' => x :: upd l' i' a end.

(* cell -> nets CSR as built by finalize(): one entry per pin, nets ascending *)
Definition cell_net_ids (nets : list (list ipin)) (c : nat) : list nat :=
  flat_map (fun '(i, net) => map (fun _ => i) (filter (fun p => Nat.eqb (fst p) c) net))
           (combine (seq 0 (length nets)) nets).

(* recomputeNet *)
Definition recompute_net (s : incr) (net : nat) : incr :=
  match nth_error (inets s) net, nth_error (iminmax s) net with
  | Some pins, Some old =>
    let nw := net_minmax (ipos s) pins in
    {| ipos := ipos s; inets := inets s; iminmax := upd (iminmax s) net nw;
       ivalue := ivalue s + ((snd nw - fst nw) - (snd old - fst old)) |}
  | _, _ => s
  end.

(* updateCellPos *)
Definition update_cell_pos (s : incr) (c : nat) (p : Z) : incr :=
  let s1 := {| ipos := upd (ipos s) c p; inets := inets s; iminmax := iminmax s; ivalue := ivalue s |} in
  fold_left recompute_net (cell_net_ids (inets s) c) s1.

(* x/yTopology(circuit, cells): pins of cells outside the subset are folded into a
   min and a max pseudo-pin on an extra cell at position 0; nets of <= 1 pin dropped.
   A circuit net is given by the list of (global cell, offset) with the offset
   already oriented (pinXOffset/pinYOffset) and `gpos` the coordinate of each cell. *)
Fixpoint index_of (c : nat) (l : list nat) (i : nat) : option nat :=
  match l with [] => None | x :: l' => if Nat.eqb x c then Some i else index_of c l' (S i) end.

Definition topo_net (gpos : list Z) (subset : list nat) (net : list ipin) : list ipin :=
  let fixedCell := length subset in
  let local := flat_map (fun p => match index_of (fst p) subset 0 with Some i => [(i, snd p)] | None => [] end) net in
  let fixedpos := flat_map (fun p => match index_of (fst p) subset 0 with Some _ => [] | None => [ipin_pos gpos p] end) net in
  match fixedpos with
  | [] => local
  | _ => let mn := fmin fixedpos in let mx := fmax fixedpos in
         local ++ (fixedCell, mn) :: (if mn =? mx then [] else [(fixedCell, mx)])
  end.

Definition topology (gpos : list Z) (subset : list nat) (nets : list (list ipin)) : incr :=
  let pos := map (fun c => nth c gpos 0) subset ++ [0] in
  let lnets := filter (fun n => (1 <? length n)%nat) (map (topo_net gpos subset) nets) in
  incr_build pos lnets.

(* what the correspondence compares: value after build and after each update *)
Definition incr_trace (s : incr) (ups : list (nat * Z)) : list Z :=
  ivalue s :: snd (fold_left (fun '(s, acc) '(c, p) => let s' := update_cell_pos s c p in (s', acc ++ [ivalue s'])) ups (s, [])).

(* IncrNetModel::xTopology / yTopology from a circuit (dirx = true for x) *)
Definition circuit_topology (dirx : bool) (cells : list hcell) (nets : list (list hpin)) (subset : list nat) : incr :=
  let gpos := map (fun c => if dirx then hx c else hy c) cells in
  let inets := map (map (fun p => let c := nth (pc p) cells dcell in
                                  (pc p, if dirx then pin_x_offset (ho c) (hw c) (hh c) (pxo p) (pyo p)
                                         else pin_y_offset (ho c) (hw c) (hh c) (pxo p) (pyo p)))) nets in
  topology gpos subset inets.
