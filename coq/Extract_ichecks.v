(* Extraction of the models of the internal check() functions (InternalChecks.v, InternalChecksDetailed.v) for the correspondence
   run of C01 / C02 (harness/ichecks.cpp, ocaml/driver_ichecks.ml, checks/internal_checks.py).  ExtrOcamlBasic only; Z, positive,
   nat, string stay the extracted Coq datatypes.  No Extract Constant. *)
From Coq Require Import Extraction ExtrOcamlBasic ZArith List String.
Require Import CV.Orient CV.FreeSpace CV.RowLeg CV.Circuit CV.Legalizer CV.Hpwl CV.Moves CV.MovesConcrete.
Require Import CV.InternalChecks CV.InternalChecksDetailed.
Extraction Language OCaml.
Extraction "model_ichecks.ml" ab_final abacus_check ab_perturb res_code export_chk
  cplacer_check cdp_check incr_check ccoupling_check cstate_make crow_make incr_make.
