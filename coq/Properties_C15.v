(* C15 -- free row space is exactly the rows minus fixed obstructions.
   FreeSpace.v is a SPECIFICATION (contract) of Row::freespace / Circuit::computeRows, tested equal to
   the code by the exhaustive-on-a-grid + random correspondence of ./check C15; it is NOT a model of
   the code path (boost::polygon get_rectangles slicing + the height filter are not modelled).  The
   theorems below are properties of the specification function freespace_iv on one row with a
   rectangle list; nothing is stated at compute_rows / compute_rows_circuit level.  Domain:
   non-inverted rectangles (boost normalises minX > maxX; the specification does not). *)
From Coq Require Import List ZArith Lia Bool Permutation.
Import ListNotations.
Require Import CV.Orient CV.FreeSpace CV.FreeSpaceProofs.
Local Open Scope Z_scope.

(* [F] exactness: a column x belongs to a returned interval iff it is a column of
   a non-degenerate row and no obstacle of positive area whose y-range meets the
   row's touches it *)
Theorem c15_freespace_exact : forall rw obs x,
  in_ivs x (freespace_iv rw obs) <->
  (minX rw <= x < maxX rw /\ minY rw < maxY rw /\
   forall o, In o obs -> blocks rw o = true -> ~ (minX o <= x < maxX o)).
Proof. exact freespace_exact. Qed.

(* [F] the returned intervals are non-empty, sorted, pairwise disjoint, inside the row *)
Theorem c15_segments_disjoint_sorted_inside : forall rw obs,
  let l := freespace_iv rw obs in
  (forall a b, In (a, b) l -> minX rw <= a /\ a < b /\ b <= maxX rw) /\
  (forall i j a b c d, (i < j)%nat -> nth_error l i = Some (a, b) -> nth_error l j = Some (c, d) -> b <= c).
Proof.
  intros rw obs l. split.
  - intros a b. exact (chain_In _ _ _ a b (freespace_chain rw obs)).
  - intros i j a b c d. exact (chain_disjoint _ _ _ i j a b c d (freespace_chain rw obs)).
Qed.

(* [F] full height, same orientation, inside the row *)
Theorem c15_rows_shape : forall r obs s,
  In s (freespace_rows r obs) ->
  minY (rr s) = minY (rr r) /\ maxY (rr s) = maxY (rr r) /\ ro s = ro r /\
  minX (rr r) <= minX (rr s) /\ minX (rr s) < maxX (rr s) /\ maxX (rr s) <= maxX (rr r).
Proof. exact freespace_rows_shape. Qed.

(* [by construction of the specification: this restates the definition of obstacles_of (if fx && ob vs
   filter); that the CODE ignores such cells rests entirely on the tie]
   movable cells and fixed cells flagged as non-obstructions are ignored *)
Theorem c15_compute_rows_ignores : forall rows extra cells,
  compute_rows rows extra cells =
  compute_rows rows extra (filter (fun c => match c with (_, fx, ob) => fx && ob end) cells).
Proof. exact compute_rows_ignores. Qed.

(* [F] the set of free columns does not depend on the order of the obstacles *)
Theorem c15_obstacle_order_irrelevant : forall rw obs obs' x,
  Permutation obs obs' -> in_ivs x (freespace_iv rw obs) <-> in_ivs x (freespace_iv rw obs').
Proof. exact freespace_perm. Qed.

Example c15_nonvacuous :
  freespace_iv {| minX := 0; maxX := 10; minY := 0; maxY := 2 |}
     [ {| minX := 3; maxX := 5; minY := 1; maxY := 4 |};   (* partially covers the height *)
       {| minX := 4; maxX := 4; minY := 0; maxY := 2 |};   (* degenerate *)
       {| minX := 8; maxX := 12; minY := -1; maxY := 0 |}; (* touches the edge only *)
       {| minX := 9; maxX := 12; minY := 0; maxY := 2 |} ]
  = [(0, 3); (5, 9)].
Proof. vm_compute. reflexivity. Qed.

Print Assumptions c15_freespace_exact.
Print Assumptions c15_segments_disjoint_sorted_inside.
Print Assumptions c15_rows_shape.
Print Assumptions c15_compute_rows_ignores.
Print Assumptions c15_obstacle_order_irrelevant.
