(* C01 -- legalization returns a legal placement or fails loudly.
   Models: Circuit.v (specification `legal`), Legalizer.v (Tetris + Abacus + row
   legalizer + free space, cell order as a parameter), tied to /repo by ./check C01. *)
From Coq Require Import List ZArith Lia Bool.
Import ListNotations.
Require Import CV.Orient CV.FreeSpace CV.RowLeg CV.Circuit CV.CircuitProofs CV.Legalizer CV.LegalizerProofs.
Local Open Scope Z_scope.

(* [F] the boolean checker that the correspondence runs on every placement returned
   by the C++ decides exactly the specification of the statement *)
Theorem c01_legalb_decides_legal : forall c, legalb c = true <-> legal c.
Proof. exact legalb_correct. Qed.

(* [F] when legalization raises an error (no row / not all cells placed) the circuit is
   exactly as it was, for every cell order: export happens after run() returned *)
Theorem c01_error_leaves_circuit : forall c order,
  (forall c', legalize_circuit c order <> LegOk c') -> circuit_after c order = c.
Proof. exact circuit_after_error. Qed.

(* [F] a successful legalization changes nothing but x, y, orientation of movable cells *)
Theorem c01_success_frame : forall c order c',
  legalize_circuit c order = LegOk c' -> rows c' = rows c /\ Forall2 same_frame (cells c) (cells c').
Proof. exact legalize_circuit_frame. Qed.

(* [P] legality of the result.  Full statement (NOT proved for the raw algorithm):
     forall c order c', legalize_circuit c order = LegOk c' -> legal c'.
   Proved: the same for the algorithm run under the proved checker; the correspondence
   evaluates legalb on the model's and on the implementation's result of every case, so
   that legalize_checked = legalize_circuit is validated per run, not proved. *)
Theorem c01_legalize_sound_partial : forall c order c',
  legalize_checked c order = Some c' -> legalize_circuit c order = LegOk c' /\ legal c'.
Proof. exact legalize_checked_sound. Qed.

(* non-vacuity: a 2-row circuit with an obstruction, a 2-row cell and two row-high cells *)
Definition ex_circuit : circuit :=
  {| rows := [ {| rr := {| minX := 0; maxX := 10; minY := 0; maxY := 2 |}; ro := oN |};
               {| rr := {| minX := 0; maxX := 10; minY := 2; maxY := 4 |}; ro := oFS |} ];
     cells := [ {| c_x := 4; c_y := 0; c_w := 2; c_h := 4; c_o := oN; c_pol := pANY; c_fixed := true; c_obs := true |};
                {| c_x := 3; c_y := 1; c_w := 2; c_h := 4; c_o := oN; c_pol := pANY; c_fixed := false; c_obs := true |};
                {| c_x := 5; c_y := 0; c_w := 3; c_h := 2; c_o := oN; c_pol := pSAME; c_fixed := false; c_obs := true |};
                {| c_x := 5; c_y := 3; c_w := 2; c_h := 3; c_o := oW; c_pol := pANY; c_fixed := false; c_obs := true |} ] |}.
Example c01_nonvacuous :
  exists c', legalize_checked ex_circuit [0%nat; 1%nat; 2%nat] = Some c' /\ c' <> ex_circuit /\
             legalb ex_circuit = false.
Proof. eexists. split; [vm_compute; reflexivity|]. split; [discriminate|vm_compute; reflexivity]. Qed.

Print Assumptions c01_legalb_decides_legal.
Print Assumptions c01_error_leaves_circuit.
Print Assumptions c01_success_frame.
Print Assumptions c01_legalize_sound_partial.
