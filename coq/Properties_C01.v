(* C01 -- legalization returns a legal placement or fails loudly.
   Models: Circuit.v (specification `legal`), Legalizer.v (Tetris + Abacus + row
   legalizer + free space, cell order as a parameter), tied to /repo by ./check C01. *)
From Coq Require Import List ZArith Lia Bool.
Import ListNotations.
Require Import CV.Orient CV.FreeSpace CV.RowLeg CV.Circuit CV.CircuitProofs CV.Legalizer CV.LegalizerProofs CV.LegalizerAbacusProofs CV.LegalizerSoundProofs.
Require CV.LegalizerTetrisProofs.
Local Open Scope Z_scope.

(* [F] the boolean checker that the correspondence runs on every placement returned
   by the C++ decides exactly the specification of the statement *)
Theorem c01_legalb_decides_legal : forall c, legalb c = true <-> legal c.
Proof. exact legalb_correct. Qed.

(* [by construction of the model + validated per run] when the MODEL returns NoRow / NotAllPlaced the
   circuit is as it was: `circuit_after` is DEFINED as `match .. | LegOk c' => c' | _ => c`, so this theorem
   restates the definition (the modelling decision "export happens after run() returned").  The C++ has
   further exceptions that the model does not have (AbacusLegalizer::check, LegalizerBase::check,
   params.check(), "Circuit does not match" of the export) and one throwing path AFTER exportPlacement
   (size-update test in the callback, place_detailed.cpp:54-60); only the tie speaks about those. *)
Theorem c01_error_leaves_circuit : forall c order,
  (forall c', legalize_circuit c order <> LegOk c') -> circuit_after c order = c.
Proof. exact circuit_after_error. Qed.

(* [F] a successful legalization changes nothing but x, y, orientation of movable cells *)
Theorem c01_success_frame : forall c order c',
  legalize_circuit c order = LegOk c' -> rows c' = rows c /\ Forall2 same_frame (cells c) (cells c').
Proof. exact legalize_circuit_frame. Qed.

(* [checked model: filters by legalb, then concludes legal -- a checker against itself, kept for
   reference only] legality of the result of the algorithm run under the proved checker,
   for EVERY circuit (no domain restriction); the correspondence evaluates legalb on the
   model's and on the implementation's result of every case.  For the RAW algorithm see
   c01_legalize_circuit_legal below (proved on the domain std_design; refuted outside it
   by c01_turned_polarised_cell_refuted). *)
Theorem c01_legalize_sound_partial : forall c order c',
  legalize_checked c order = Some c' -> legalize_circuit c order = LegOk c' /\ legal c'.
Proof. exact legalize_checked_sound. Qed.

(* [F] the Abacus pass of the RAW model (abacus_run: per-row RowLegalizer states, row
   scans with their early stops, read-back), for every list of row segments and every
   list of cells of positive width, whatever their heights, targets and polarities:
   a cell is recorded in at most one segment and once; every placed cell is recorded in
   a segment of `sort_rows rows0` of exactly its height and lies inside it, on its
   bottom edge; two different cells recorded in the same segment have disjoint
   x-intervals.  (abacus_rowcells = the per-segment cell lists the loop ends with.) *)
Theorem c01_abacus_rows_legal : forall rows0 cells,
  widths_positive cells ->
  let rows := sort_rows rows0 in
  let rcs := abacus_rowcells rows0 cells in
  let res := abacus_run rows0 cells in
  length res = length cells /\ length rcs = length rows /\
  (forall i rc, nth_error rcs i = Some rc -> NoDup rc) /\
  (forall i j rc rc' ci, nth_error rcs i = Some rc -> nth_error rcs j = Some rc' ->
                         In ci rc -> In ci rc' -> i = j) /\
  (forall ci c x y o, nth_error cells ci = Some c -> nth_error res ci = Some (Some (x, y, o)) ->
     exists i r rc, nth_error rows i = Some r /\ nth_error rcs i = Some rc /\ In ci rc /\ in_segment r c x y) /\
  (forall i rc ci cj c c' x y o x' y' o',
     nth_error rcs i = Some rc -> In ci rc -> In cj rc -> ci <> cj ->
     nth_error cells ci = Some c -> nth_error cells cj = Some c' ->
     nth_error res ci = Some (Some (x, y, o)) -> nth_error res cj = Some (Some (x', y', o')) ->
     x + cw c <= x' \/ x' + cw c' <= x).
Proof. exact abacus_rows_legal. Qed.

(* non-vacuity of c01_abacus_rows_legal: three segments (two on one row, given unsorted),
   six cells of which one is too high; five are placed, two segments receive two cells *)
Definition ex_segments : list row :=
  [ {| rr := {| minX := 6; maxX := 12; minY := 2; maxY := 4 |}; ro := oFS |};
    {| rr := {| minX := 0; maxX := 5; minY := 0; maxY := 2 |}; ro := oN |};
    {| rr := {| minX := 0; maxX := 4; minY := 2; maxY := 4 |}; ro := oFS |} ].
Definition ex_leg_cells : list cell :=
  [ {| cw := 3; ch := 2; cpol := pSAME; ctx := 1; cty := 0; cor := oN |};
    {| cw := 3; ch := 2; cpol := pANY; ctx := 1; cty := 0; cor := oS |};
    {| cw := 2; ch := 2; cpol := pNW; ctx := 7; cty := 3; cor := oN |};
    {| cw := 4; ch := 2; cpol := pOPPOSITE; ctx := 8; cty := 2; cor := oN |};
    {| cw := 2; ch := 4; cpol := pANY; ctx := 8; cty := 2; cor := oN |};
    {| cw := 2; ch := 2; cpol := pSAME; ctx := 9; cty := 2; cor := oN |} ].
Example c01_abacus_nonvacuous :
  widths_positive ex_leg_cells /\
  abacus_run ex_segments ex_leg_cells =
    [Some (0, 0, oN); Some (1, 2, oS); Some (3, 0, oN); Some (6, 2, oN); None; Some (10, 2, oFS)] /\
  abacus_rowcells ex_segments ex_leg_cells = [[0%nat; 2%nat]; [1%nat]; [3%nat; 5%nat]].
Proof.
  split; [repeat constructor|]. split; vm_compute; reflexivity.
Qed.

(* [F] the Tetris pass of the RAW model (tetris_run: frontier rowFreePos, stacked-row
   interval intersection with its fuel, closest-row scans, instanciate), for every list of
   row segments that after sorting have one positive height rh and are pairwise disjoint
   rectangles, and every list of cells of positive width and height: the orientation of a
   placed cell is the one get_orientation gives in the first segment at its bottom y and is
   never INVALID; every row-high strip of the cell lies inside one segment; two different
   placed cells do not overlap.  (t_dims = the dimensions after the turn swap.) *)
Theorem c01_tetris_rows_legal : forall rows0 cells rh,
  let rows := sort_rows rows0 in
  LegalizerTetrisProofs.rows_uniform rh rows -> LegalizerTetrisProofs.rows_disjoint rows ->
  Forall (fun c => 0 < cw c /\ 0 < ch c) cells ->
  let res := tetris_run rows0 cells in
  length res = length cells /\
  (forall ci c x y o, nth_error cells ci = Some c -> nth_error res ci = Some (Some (x, y, o)) ->
     get_orientation rows c (closest_row rows y) = Some o /\ o <> oINVALID /\
     (exists r0, nthZ rows (closest_row rows y) = Some r0 /\ minY (rr r0) = y) /\
     forall j, 0 <= j -> j * rh < snd (LegalizerTetrisProofs.t_dims c o) ->
       exists r, In r rows /\ minY (rr r) = y + j * rh /\ minX (rr r) <= x /\
                 x + fst (LegalizerTetrisProofs.t_dims c o) <= maxX (rr r)) /\
  (forall ci cj c c' x y o x' y' o', ci <> cj ->
     nth_error cells ci = Some c -> nth_error cells cj = Some c' ->
     nth_error res ci = Some (Some (x, y, o)) -> nth_error res cj = Some (Some (x', y', o')) ->
     disjoint_rects {| minX := x; maxX := x + fst (LegalizerTetrisProofs.t_dims c o); minY := y;
                       maxY := y + snd (LegalizerTetrisProofs.t_dims c o) |}
                    {| minX := x'; maxX := x' + fst (LegalizerTetrisProofs.t_dims c' o'); minY := y';
                       maxY := y' + snd (LegalizerTetrisProofs.t_dims c' o') |}).
Proof. exact LegalizerTetrisProofs.tetris_rows_legal. Qed.

(* [F] Legalizer::run of the RAW model (Tetris pass, remainingRows, Abacus pass, import,
   any cell order, duplicates allowed) over pairwise disjoint segments of one positive
   height rh, cells of positive width and height none of which changes its turn in any
   segment: every returned cell has a valid orientation, each of its row-high strips lies
   inside one segment of rows0, and two different cells do not overlap *)
Theorem c01_legalize_sound : forall rows0 cellsL order pl rh,
  0 < rh ->
  (forall r, In r rows0 -> maxY (rr r) - minY (rr r) = rh) ->
  pairwise_disjoint (map rr rows0) ->
  Forall (fun c => 0 < cw c /\ 0 < ch c) cellsL ->
  no_turn_change rows0 cellsL ->
  legalize rows0 cellsL order = Ok pl ->
  length pl = length cellsL /\
  (forall ci c x y o, nth_error cellsL ci = Some c -> nth_error pl ci = Some (x, y, o) ->
     o <> oINVALID /\ is_turn o = is_turn (cor c) /\
     (exists r', In r' rows0 /\ o = seg_orientation c r' /\ minY (rr r') = y) /\
     forall j, 0 <= j -> j * rh < ch c ->
       exists r, In r rows0 /\ minY (rr r) = y + j * rh /\ minX (rr r) <= x /\ x + cw c <= maxX (rr r)) /\
  (forall ci cj c c' x y o x' y' o', ci <> cj ->
     nth_error cellsL ci = Some c -> nth_error cellsL cj = Some c' ->
     nth_error pl ci = Some (x, y, o) -> nth_error pl cj = Some (x', y', o') ->
     disjoint_rects (cellrect c x y) (cellrect c' x' y')).
Proof. exact legalize_sound. Qed.

(* [F on the domain std_design; P for the statement of C01 as a whole] THE property for the
   RAW algorithm: a placement returned by DetailedPlacer::legalize is legal, for every
   cell order and every circuit whose rows have one positive height rh, are pairwise
   disjoint rectangles and are not turned (N/S/FN/FS, also UNKNOWN/INVALID), and whose
   movable cells have positive placed width, placed height a positive multiple of rh and
   are not turned unless they have no polarity.  Fixed cells and obstructions are
   arbitrary.  Missing for the full statement: circuits outside std_design; the last
   condition cannot be dropped (c01_turned_polarised_cell_refuted).  All arithmetic is over
   unbounded Z: no magnitude hypothesis, hence nothing about `int` wrap-around of the C++ for
   coordinates near INT_MAX (generated inputs stay within about 2^16).  The model's outcomes
   are Ok / NoRow / NotAllPlaced only. *)
Theorem c01_legalize_circuit_legal : forall c order c' rh,
  std_design c rh -> legalize_circuit c order = LegOk c' -> legal c'.
Proof. exact legalize_circuit_legal. Qed.

(* [R] outside the domain: a polarised, turned, row-high movable cell is exported with an
   un-turned orientation and the dimensions of the turned one; legalize returns a placement
   that is not legal (the C++ returns the same placement: harness case
   `LG 2 0 10 0 2 0 0 10 2 4 5 1 3 2 2 4 3 1 0 1 0 0 0 0 3 0` gives `OK 3 2 5`) *)
Theorem c01_turned_polarised_cell_refuted :
  exists c', legalize_circuit w_turned [0%nat] = LegOk c' /\ legalb c' = false /\
  row_height w_turned = Some 2 /\ pairwise_disjoint (map rr (rows w_turned)) /\
  (forall r, In r (rows w_turned) -> is_turn (ro r) = false) /\
  (forall k, In k (movable w_turned) ->
     0 < maxX (placement_of k) - minX (placement_of k) /\ maxY (placement_of k) - minY (placement_of k) = 2).
Proof. exact turned_polarised_cell_refuted. Qed.

(* non-vacuity: a 2-row circuit with an obstruction, a 2-row cell and two row-high cells *)
Definition ex_circuit : circuit :=
  {| rows := [ {| rr := {| minX := 0; maxX := 10; minY := 0; maxY := 2 |}; ro := oN |};
               {| rr := {| minX := 0; maxX := 10; minY := 2; maxY := 4 |}; ro := oFS |} ];
     cells := [ {| c_x := 4; c_y := 0; c_w := 2; c_h := 4; c_o := oN; c_pol := pANY; c_fixed := true; c_obs := true |};
                {| c_x := 3; c_y := 1; c_w := 2; c_h := 4; c_o := oN; c_pol := pANY; c_fixed := false; c_obs := true |};
                {| c_x := 5; c_y := 0; c_w := 3; c_h := 2; c_o := oN; c_pol := pSAME; c_fixed := false; c_obs := true |};
                {| c_x := 5; c_y := 3; c_w := 2; c_h := 3; c_o := oW; c_pol := pANY; c_fixed := false; c_obs := true |} ] |}.
Example c01_nonvacuous :
  exists c', legalize_checked ex_circuit [0%nat; 1%nat; 2%nat] = Some c' /\ c' <> ex_circuit /\
             legalb ex_circuit = false.
Proof. eexists. split; [vm_compute; reflexivity|]. split; [discriminate|vm_compute; reflexivity]. Qed.

(* non-vacuity of c01_legalize_circuit_legal: ex_circuit (fixed macro, a 2-row cell, a
   polarised row-high cell, a turned cell without polarity) is in the domain, is not legal
   before, and legalization succeeds and moves it *)
Example c01_legalize_circuit_nonvacuous :
  std_design ex_circuit 2 /\ legalb ex_circuit = false /\
  exists c', legalize_circuit ex_circuit [0%nat; 1%nat; 2%nat] = LegOk c' /\ c' <> ex_circuit.
Proof.
  split; [|split; [vm_compute; reflexivity|eexists; split; [vm_compute; reflexivity|discriminate]]].
  split; [lia|]. split; [|split; [|split]].
  - intros r [<-|[<-|[]]]; reflexivity.
  - apply pairwise_disjointb_spec. vm_compute. reflexivity.
  - intros r [<-|[<-|[]]]; reflexivity.
  - intros k Hk. vm_compute in Hk. destruct Hk as [<-|[<-|[<-|[]]]].
    + split; [vm_compute; reflexivity|]. split; [exists 2%nat; split; [lia|vm_compute; reflexivity]|left; reflexivity].
    + split; [vm_compute; reflexivity|]. split; [exists 1%nat; split; [lia|vm_compute; reflexivity]|left; reflexivity].
    + split; [vm_compute; reflexivity|]. split; [exists 1%nat; split; [lia|vm_compute; reflexivity]|right; reflexivity].
Qed.

Print Assumptions c01_legalb_decides_legal.
Print Assumptions c01_error_leaves_circuit.
Print Assumptions c01_success_frame.
Print Assumptions c01_legalize_sound_partial.
Print Assumptions c01_abacus_rows_legal.
Print Assumptions c01_tetris_rows_legal.
Print Assumptions c01_legalize_sound.
Print Assumptions c01_legalize_circuit_legal.
Print Assumptions c01_turned_polarised_cell_refuted.

(* ================================================================== *)
(* last clause of C01: "it never fails when success is trivial" (LegalizerTrivialProofs) *)
Require Import CV.LegalizerTrivialProofs.

(* [F] the Abacus pass of the RAW model places EVERY cell when the cells are row-high, have no
   row polarity (and an own orientation other than the enumerator INVALID), and their total width
   is at most the total segment width less maxw per segment (maxw >= every cell width): whatever
   the targets, the segment list (sorted or not, overlapping or not) and the order of the cells.
   (has_value res ci = position ci of the result is Some _; rwidth r = maxX - minX.) *)
Theorem c01_abacus_all_placed : forall rows0 cells rh maxw,
  (forall r, In r rows0 -> maxY (rr r) - minY (rr r) = rh) ->
  Forall (fun c => 0 < cw c <= maxw /\ ch c = rh /\ cpol c = pANY /\ cor c <> oINVALID) cells ->
  sumZ (map cw cells) <= sumZ (map rwidth rows0) - Z.of_nat (length rows0) * maxw ->
  forall ci, (ci < length cells)%nat -> has_value (abacus_run rows0 cells) ci.
Proof. exact abacus_all_placed. Qed.

(* [F] Legalizer::run of the RAW model returns Ok under the same hypotheses, for every order that
   lists every cell index at least once and nothing twice (entries beyond the last cell allowed) *)
Theorem c01_legalize_trivial : forall rows0 cellsL order rh maxw,
  (forall r, In r rows0 -> maxY (rr r) - minY (rr r) = rh /\ nonempty_row r) ->
  Forall (fun c => 0 < cw c <= maxw /\ ch c = rh /\ cpol c = pANY /\ cor c <> oINVALID) cellsL ->
  NoDup order -> (forall ci, (ci < length cellsL)%nat -> In ci order) ->
  sumZ (map cw cellsL) <= sumZ (map rwidth rows0) - Z.of_nat (length rows0) * maxw ->
  exists pl, legalize rows0 cellsL order = Ok pl.
Proof. exact legalize_trivial. Qed.

(* [F for every circuit, with the two side conditions below; the bound of the statement is
   sufficient as it stands (no off-by-one)] THE last clause of C01 for the RAW algorithm:
   DetailedPlacer::legalize succeeds on every circuit that Circuit.trivially_feasible accepts
   (rows of one height, every movable cell row-high, without row polarity, of positive width,
   total width <= total free segment width - #segments * max cell width), provided
   (a) no movable cell has the enumerator INVALID as its own orientation -- needed, see
       c01_trivial_invalid_orientation_refuted -- and
   (b) the order lists every movable cell, and none twice (computeCellOrder returns a
       permutation of 0..n-1; needed, see c01_trivial_duplicate_order_refuted).
   No hypothesis on the rows (they may overlap or be turned), on fixed cells or on positions. *)
Theorem c01_never_fails_when_trivial : forall c order,
  trivially_feasible c = true ->
  (forall k, In k (movable c) -> c_o k <> oINVALID) ->
  NoDup order /\ (forall ci, (ci < length (movable c))%nat -> In ci order) ->
  exists c', legalize_circuit c order = LegOk c'.
Proof. exact legalize_circuit_trivially_feasible. Qed.

(* [R] discrepancy with the statement as written: a movable cell WITHOUT row polarity whose own
   orientation is CellOrientation::INVALID (an enumerator a caller can store) is refused by
   every row -- getOrientation returns the cell's own orientation for polarity ANY and
   evaluatePlacement rejects INVALID -- so legalization fails although success is trivial *)
Theorem c01_trivial_invalid_orientation_refuted :
  trivially_feasible w_invalid_orientation = true /\
  legalize_circuit w_invalid_orientation [0%nat] = LegNotAllPlaced.
Proof. exact trivially_feasible_invalid_orientation_refuted. Qed.

(* [R] (model-level side condition, not reachable through computeCellOrder) an order with a
   repeated index makes the Abacus pass place the cell several times and can exhaust the room *)
Theorem c01_trivial_duplicate_order_refuted :
  trivially_feasible w_duplicates = true /\
  legalize_circuit w_duplicates [0%nat; 0%nat; 0%nat; 1%nat] = LegNotAllPlaced /\
  exists c', legalize_circuit w_duplicates [0%nat; 1%nat] = LegOk c'.
Proof. exact trivially_feasible_duplicate_order_refuted. Qed.

(* non-vacuity: two rows, an obstruction splitting the first (three free segments of total width
   18), three cells of width 2 far outside the rows and on top of each other: accepted by
   trivially_feasible, not legal before, legalized into a legal placement *)
Definition ex_trivial : circuit :=
  {| rows := [ {| rr := {| minX := 0; maxX := 10; minY := 0; maxY := 2 |}; ro := oN |};
               {| rr := {| minX := 0; maxX := 10; minY := 2; maxY := 4 |}; ro := oFS |} ];
     cells := [ {| c_x := 4; c_y := 0; c_w := 2; c_h := 2; c_o := oN; c_pol := pANY; c_fixed := true; c_obs := true |};
                {| c_x := 40; c_y := -7; c_w := 2; c_h := 2; c_o := oN; c_pol := pANY; c_fixed := false; c_obs := true |};
                {| c_x := 40; c_y := -7; c_w := 2; c_h := 2; c_o := oFS; c_pol := pANY; c_fixed := false; c_obs := true |};
                {| c_x := 5; c_y := 1; c_w := 2; c_h := 2; c_o := oS; c_pol := pANY; c_fixed := false; c_obs := true |} ] |}.
Example c01_trivial_nonvacuous :
  trivially_feasible ex_trivial = true /\
  (forall k, In k (movable ex_trivial) -> c_o k <> oINVALID) /\
  (NoDup [2%nat; 0%nat; 1%nat] /\ (forall ci, (ci < length (movable ex_trivial))%nat -> In ci [2%nat; 0%nat; 1%nat])) /\
  legalb ex_trivial = false /\
  exists c', legalize_circuit ex_trivial [2%nat; 0%nat; 1%nat] = LegOk c' /\ legalb c' = true.
Proof.
  split; [vm_compute; reflexivity|]. split; [|split; [split|split]].
  - intros k Hk. vm_compute in Hk. destruct Hk as [<-|[<-|[<-|[]]]]; discriminate.
  - repeat constructor; cbn; intuition discriminate.
  - intros ci Hci. change (length (movable ex_trivial)) with 3%nat in Hci.
    destruct ci as [|[|[|ci]]]; cbn; auto; lia.
  - vm_compute. reflexivity.
  - eexists. split; vm_compute; reflexivity.
Qed.

Print Assumptions c01_abacus_all_placed.
Print Assumptions c01_legalize_trivial.
Print Assumptions c01_never_fails_when_trivial.
Print Assumptions c01_trivial_invalid_orientation_refuted.
Print Assumptions c01_trivial_duplicate_order_refuted.

(* ======================================================================================== *)
(* C01 for the CLOSED model of DetailedPlacer::legalize: the cell order is computed by the model of
   LegalizerBase::computeCellOrder (CellOrder.v) instead of being a parameter.
   legalize_real p c = legalize_circuit c (cell_order p c), p = (orderingWidth, orderingY, orderingHeight) as rationals.
   Every theorem is the order-parametric theorem above instantiated with the computed order; the new content is that the
   computed order satisfies side condition (b) of c01_never_fails_when_trivial (a permutation of 0..n-1).  Tie: the model's
   order is compared exactly with the vector returned by the real computeCellOrder wherever the binary32 evaluation of the key
   is exact (checks/c11_order.py, tag OR). *)
From Coq Require Import QArith Permutation.
Require Import CV.CellOrder CV.CellOrderProofs.
Local Open Scope Z_scope.
(* [F] the computed order is a permutation of the indices of the movable cells, for all parameters *)
Theorem c01_cell_order_permutation : forall p c,
  Permutation (cell_order p c) (seq 0 (length (movable c))).
Proof. exact cell_order_perm. Qed.

(* [F] hence it satisfies side condition (b) of c01_never_fails_when_trivial *)
Theorem c01_cell_order_lists_every_cell_once : forall p c,
  NoDup (cell_order p c) /\ (forall ci, (ci < length (movable c))%nat -> In ci (cell_order p c)).
Proof. exact cell_order_lists_every_cell_once. Qed.

(* [F on std_design, every parameter set] a placement returned by the closed model is legal *)
Theorem c01_legalize_real_legal : forall p c c' rh,
  std_design c rh -> legalize_real p c = LegOk c' -> legal c'.
Proof. exact legalize_real_legal. Qed.

(* [F] frame of a successful run of the closed model *)
Theorem c01_legalize_real_frame : forall p c c',
  legalize_real p c = LegOk c' -> rows c' = rows c /\ Forall2 same_frame (cells c) (cells c').
Proof. exact legalize_real_frame. Qed.

(* [F] last clause of C01 for the closed model: side condition (b) is discharged, (a) stays
   (c01_trivial_invalid_orientation_refuted) *)
Theorem c01_legalize_real_never_fails_when_trivial : forall p c,
  trivially_feasible c = true -> (forall k, In k (movable c) -> c_o k <> oINVALID) ->
  exists c', legalize_real p c = LegOk c'.
Proof. exact legalize_real_trivially_feasible. Qed.

(* non-vacuity, on the example circuits of Properties_C01.v with the parameters of effort 3
   (orderingWidth 0.2, orderingY 0, orderingHeight -1): the computed orders (cells 1 and 2 of ex_circuit
   have EQUAL keys 18/5: the index decides), a successful run on the
   illegal ex_circuit (std_design: c01_legalize_circuit_nonvacuous) giving a legal circuit with the
   prescribed orientations, and a successful run on the trivially feasible ex_trivial *)
Definition p_effort3 : order_params := {| op_w := 1 # 5; op_y := 0; op_h := -1 # 1 |}.
Example c01_order_nonvacuous :
  cell_order p_effort3 ex_circuit = [0%nat; 1%nat; 2%nat] /\
  (exists c', legalize_real p_effort3 ex_circuit = LegOk c' /\ c' <> ex_circuit /\
              legalb c' = true /\ orient_okb ex_circuit c' = true) /\
  trivially_feasible ex_trivial = true /\
  cell_order p_effort3 ex_trivial = [2%nat; 0%nat; 1%nat] /\
  (exists c', legalize_real p_effort3 ex_trivial = LegOk c' /\ legalb c' = true).
Proof.
  split; [vm_compute; reflexivity|]. split.
  - eexists. split; [vm_compute; reflexivity|]. split; [discriminate|]. split; vm_compute; reflexivity.
  - split; [vm_compute; reflexivity|]. split; [vm_compute; reflexivity|].
    eexists. split; vm_compute; reflexivity.
Qed.

Print Assumptions c01_cell_order_permutation.
Print Assumptions c01_cell_order_lists_every_cell_once.
Print Assumptions c01_legalize_real_legal.
Print Assumptions c01_legalize_real_frame.
Print Assumptions c01_legalize_real_never_fails_when_trivial.
