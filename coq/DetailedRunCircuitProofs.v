(* C02 / C05 / C04 -- Circuit-level corollaries for the CLOSED model of DetailedPlacer::place after legalization
   (DetailedRun.place_detailed_model): it returns, every exposed circuit (callbacks and final) is legal, carries the frame,
   the prescribed orientations, and Circuit::hpwl never increases from one exposed state to the next (F8 scope). *)
From Coq Require Import List ZArith Lia Bool Arith Permutation.
Import ListNotations.
Require Import CV.Orient CV.FreeSpace CV.Circuit CV.Hpwl CV.HpwlProofs CV.Moves CV.MovesProofs CV.MovesOrientProofs.
Require Import CV.Optimiser CV.OptimiserProofs CV.ShiftLp CV.ShiftLpProofs.
Require Import CV.Legalizer CV.LegalizerProofs CV.LegalizerSoundProofs CV.DetailedInit CV.DetailedInitProofs CV.DetailedExport CV.DetailedExportProofs.
Require Import CV.DetailedValue CV.DetailedValueProofs CV.DetailedValueStepProofs.
Require Import CV.RowNeigh CV.RowNeighProofs CV.Reorder CV.ReorderGeomProofs CV.ReorderProofs.
Require Import CV.DetailedRun CV.DetailedRunProofs CV.DetailedRunStructProofs CV.DetailedRunTermProofs CV.DetailedRunTotalProofs.
Local Open Scope Z_scope.

(* ---------- the scan retains one of its candidates; what a bestSwap does to the structure ---------- *)
Lemma pscan_in d cands : forall o b m,
  snd (fold_left (fun (acc : ostate * option mop) m =>
         match cand_moves d m with
         | None => acc
         | Some ms => let r := value_on (fst acc) ms in
                      if fst r <? ovalue o then (snd r, Some m) else (snd r, snd acc)
         end) cands b) = Some m -> snd b = Some m \/ In m cands.
Proof.
  induction cands as [|x t IH]; intros o b m; cbn [fold_left]; [tauto|]. intros H.
  apply IH in H as [H|H]; [|right; right; exact H].
  destruct (cand_moves d x) as [ms|]; [|left; exact H]. cbn zeta in H.
  destruct (fst (value_on (fst b) ms) <? ovalue o); cbn [snd] in H; [right; left; congruence|left; exact H].
Qed.

Lemma pbest_structure s ms : ps_d (pbest s ms) = ps_d s \/
  exists m d', In m ms /\ apply_mop (ps_d s) m = Some d' /\ ps_d (pbest s ms) = d'.
Proof.
  unfold pbest. destruct (pscan (ps_d s) (ps_o s) ms) as [o' [m|]] eqn:E; [|left; reflexivity].
  assert (Hin : In m ms).
  { pose proof (pscan_in (ps_d s) ms (ps_o s) (ps_o s, None) m) as H.
    change (snd (pscan (ps_d s) (ps_o s) ms) = Some m -> snd (ps_o s, @None mop) = Some m \/ In m ms) in H.
    rewrite E in H. cbn [snd] in H. destruct (H eq_refl) as [H1|H1]; [discriminate|exact H1]. }
  destruct (apply_mop (ps_d s) m) as [d'|] eqn:A; [|left; reflexivity].
  destruct (cand_moves (ps_d s) m); [|left; reflexivity]. right. exists m, d'. cbn [ps_d]. tauto.
Qed.

(* ---------- the orientation invariant along the closed run (C04) ---------- *)
Definition Jor (s : pstate) : Prop := OInvM (ps_d s).

Lemma Jor_best s cc cands : Jor s -> Jor (pbest s (swap_cands cc cands)).
Proof.
  unfold Jor. intros H. destruct (pbest_structure s (swap_cands cc cands)) as [->|(m & d' & Hin & A & ->)]; [exact H|].
  apply in_map_iff in Hin as (x & <- & _). exact (swap_oinv _ _ _ _ H A).
Qed.

Lemma Jor_reorder c rh nets s w s' n : PInv c rh nets s -> Jor s -> NoDup w -> (forall x, In x w -> held (ps_d s) x = true) ->
  Reorder.run s w = Some (s', n) -> Jor s'.
Proof.
  intros HP HJ ND Hh R. destruct (run_keeps_orientation c rh nets s w HP HJ ND Hh) as (s1 & n1 & R1 & H1).
  rewrite R in R1. injection R1 as <- _. exact H1.
Qed.

Lemma Jor_shift s sel pi : Jor s -> Jor (pshift s sel pi).
Proof. unfold Jor, pshift. cbn [ps_d]. apply shift_oinv. Qed.

Definition Jtrue (s : pstate) : Prop := True.

(* ---------- what an exposed state of a state satisfying the invariant looks like ---------- *)
Definition frame (c c' : circuit) (rh : Z) : Prop :=
  rows c' = rows c /\ Forall2 same_frame (cells c) (cells c') /\
  (forall i k, nth_error (cells c) i = Some k -> (c_fixed k = true \/ placed_h k <> rh) -> nth_error (cells c') i = Some k).

Lemma exposed_frame c rh nets s : PInv c rh nets s -> frame c (write_back c (ps_d s)) rh.
Proof.
  intros (HR & _). split; [reflexivity|]. split; [apply map_from_same_frame|].
  intros i k Hk Hn. rewrite (write_back_nth_fwd c _ i k Hk). f_equal. exact (export_not_kept c rh _ i k HR Hk Hn).
Qed.

(* Circuit::hpwl of two exposed states, the later one reached from the earlier one by accepted steps (F8 scope) *)
Lemma exposed_le c rh nets sa sb : std_design c rh -> PInv c rh nets sa -> steps_to sa sb ->
  orient_frozen c (ps_d sa) -> orient_frozen c (ps_d sb) -> int_pins c nets -> pins_fit c rh nets ->
  exposed_hpwl c nets sb <= exposed_hpwl c nets sa.
Proof.
  intros SD Pa St Fa Fb B0 PF. destruct (steps_inv c rh nets sa sb SD Pa St) as [Pb Le].
  rewrite (exposed_value_inv c rh nets sa Pa Fa (exposed_int_pins c rh nets sa SD Pa Fa B0 PF)).
  rewrite (exposed_value_inv c rh nets sb Pb Fb (exposed_int_pins c rh nets sb SD Pb Fb B0 PF)). exact Le.
Qed.

Section Circuit.
  Variables (c : circuit) (rh : Z) (nets : list (list hpin)).
  Hypothesis SD : std_design c rh.
  Hypothesis HL : legal c.

  (* MAIN (C02, total correctness): after a successful legalization the model of DetailedPlacer::place returns -- no loop runs
     out of fuel, nothing throws -- and the final circuit and every circuit a callback sees are legal and carry the frame *)
  Theorem place_detailed_returns p shifts d0 : from_circuit c = DOk d0 -> params_ok p = true ->
    oracle_ok (Z.to_nat (dp_nbPasses p)) p shifts {| ps_d := d0; ps_o := init_models c nets |} ->
    exists c' exs, place_detailed_model c nets p shifts = ROk (c', exs) /\
      legal c' /\ frame c c' rh /\ Forall (fun e => legal e /\ frame c e rh) exs.
  Proof.
    intros Hs Hp Ho. pose proof (init_PInv c rh nets d0 SD HL Hs) as P0.
    destruct (run_passes_returns c rh nets SD Jtrue (fun _ _ _ _ => I) (fun _ _ _ _ _ _ _ _ _ => I) (fun _ _ _ _ => I) p shifts _ Hp P0 I Ho)
      as (s' & ex & R & Ch & P' & _ & _).
    unfold place_detailed_model. rewrite Hs, R. eexists _, _. split; [reflexivity|].
    split; [exact (exposed_legal_inv c rh nets s' SD HL P')|]. split; [exact (exposed_frame c rh nets s' P')|].
    apply Forall_forall. intros e He. apply in_map_iff in He as (st & <- & Hst).
    destruct (chain_in _ _ _ st Ch Hst) as [S1 _]. destruct (steps_inv c rh nets _ st SD P0 S1) as [Pst _].
    split; [exact (exposed_legal_inv c rh nets st SD HL Pst)|exact (exposed_frame c rh nets st Pst)].
  Qed.

  (* MAIN (C05): Circuit::hpwl at the callbacks and at the end never increases (F8 scope at the compared states) *)
  Theorem place_detailed_value p shifts d0 s' ex : from_circuit c = DOk d0 -> params_ok p = true ->
    let s0 := {| ps_d := d0; ps_o := init_models c nets |} in
    oracle_ok (Z.to_nat (dp_nbPasses p)) p shifts s0 -> run_passes p shifts s0 = ROk (s', ex) ->
    int_pins c nets -> pins_fit c rh nets ->
    (orient_frozen c (ps_d s') -> exposed_hpwl c nets s' <= hpwl_circuit c nets) /\
    (forall e, In e ex -> orient_frozen c (ps_d e) ->
       exposed_hpwl c nets e <= hpwl_circuit c nets /\ (orient_frozen c (ps_d s') -> exposed_hpwl c nets s' <= exposed_hpwl c nets e)) /\
    (forall l1 e1 l2 e2 l3, ex = l1 ++ e1 :: l2 ++ e2 :: l3 -> orient_frozen c (ps_d e1) -> orient_frozen c (ps_d e2) ->
       exposed_hpwl c nets e2 <= exposed_hpwl c nets e1).
  Proof.
    intros Hs Hp s0 Ho R B0 PF. pose proof (init_PInv c rh nets d0 SD HL Hs) as P0. fold s0 in P0.
    destruct (run_passes_returns c rh nets SD Jtrue (fun _ _ _ _ => I) (fun _ _ _ _ _ _ _ _ _ => I) (fun _ _ _ _ => I) p shifts s0 Hp P0 I Ho)
      as (s1 & ex1 & R1 & Ch & _). rewrite R in R1. injection R1 as <- <-.
    destruct (exposed_initial c rh d0 SD HL Hs) as [F0 W0].
    assert (E0 : exposed_hpwl c nets s0 = hpwl_circuit c nets) by (unfold exposed_hpwl, s0; cbn [ps_d]; rewrite W0; reflexivity).
    split; [|split].
    - intros Fs. rewrite <- E0. exact (exposed_le c rh nets s0 s' SD P0 (chain_end _ _ _ Ch) F0 Fs B0 PF).
    - intros e He Fe. destruct (chain_in _ _ _ e Ch He) as [S1 S2]. destruct (steps_inv c rh nets s0 e SD P0 S1) as [Pe _]. split.
      + rewrite <- E0. exact (exposed_le c rh nets s0 e SD P0 S1 F0 Fe B0 PF).
      + intros Fs. exact (exposed_le c rh nets e s' SD Pe S2 Fe Fs B0 PF).
    - intros l1 e1 l2 e2 l3 -> F1 F2. pose proof (chain_order _ _ _ _ _ _ _ Ch) as S12.
      assert (In1 : In e1 (l1 ++ e1 :: l2 ++ e2 :: l3)) by (apply in_or_app; right; left; reflexivity).
      destruct (chain_in _ _ _ e1 Ch In1) as [S1 _].
      destruct (steps_inv c rh nets s0 e1 SD P0 S1) as [P1 _].
      exact (exposed_le c rh nets e1 e2 SD P1 S12 F1 F2 B0 PF).
  Qed.

  (* MAIN (C04): with the orientations legalization leaves and rows of known orientation, every exposed circuit has every
     cell in the orientation its row prescribes *)
  Theorem place_detailed_orient before p shifts d0 : from_circuit c = DOk d0 -> orient_ok before c ->
    (forall r, In r (rows c) -> ro r <> oUNKNOWN) -> params_ok p = true ->
    oracle_ok (Z.to_nat (dp_nbPasses p)) p shifts {| ps_d := d0; ps_o := init_models c nets |} ->
    exists c' exs, place_detailed_model c nets p shifts = ROk (c', exs) /\ orient_ok before c' /\ Forall (orient_ok before) exs.
  Proof.
    intros Hs HO HU Hp Ho. pose proof (init_PInv c rh nets d0 SD HL Hs) as P0.
    destruct (from_circuit_after_legalization before c rh SD HL HO) as (d1 & Hs1 & _ & HOI). rewrite Hs in Hs1. injection Hs1 as <-.
    destruct (run_passes_returns c rh nets SD Jor Jor_best (Jor_reorder c rh nets) Jor_shift p shifts _ Hp P0 HOI Ho)
      as (s' & ex & R & Ch & P' & J' & Fex).
    assert (G : forall st, PInv c rh nets st -> Jor st -> orient_ok before (write_back c (ps_d st))).
    { intros st (HR & HI & Hl & _) HJ. exact (exposed_orient_ok before c rh _ SD HU HO HR HI HJ Hl). }
    unfold place_detailed_model. rewrite Hs, R. eexists _, _. split; [reflexivity|]. split; [exact (G s' P' J')|].
    apply Forall_forall. intros e He. apply in_map_iff in He as (st & <- & Hst).
    destruct (chain_in _ _ _ st Ch Hst) as [S1 _]. destruct (steps_inv c rh nets _ st SD P0 S1) as [Pst _].
    apply (G st Pst). exact (proj1 (Forall_forall _ _) Fex st Hst).
  Qed.
End Circuit.

(* ---------- the statements without the extra invariant ---------- *)
Section Plain.
  Variables (c : circuit) (rh : Z) (nets : list (list hpin)).
  Hypothesis SD : std_design c rh.

  Theorem run_swaps_total s nbRows nbNeighbours : PInv c rh nets s -> 0 <= nbNeighbours ->
    exists s', run_swaps s nbRows nbNeighbours = ROk s' /\ steps_to s s' /\ PInv c rh nets s' /\ ovalue (ps_o s') <= ovalue (ps_o s).
  Proof.
    intros HI Hnb.
    destruct (run_swaps_returns c rh nets SD Jtrue (fun _ _ _ _ => I) (fun _ _ _ _ _ _ _ _ _ => I) s nbRows nbNeighbours HI I Hnb) as (s' & E & S & _).
    exists s'. split; [exact E|]. split; [exact S|]. exact (steps_inv c rh nets s s' SD HI S).
  Qed.

  Theorem run_reordering_total s maxNbRows maxNbCells : PInv c rh nets s ->
    exists s', run_reordering s maxNbRows maxNbCells = ROk s' /\ steps_to s s' /\ PInv c rh nets s' /\ ovalue (ps_o s') <= ovalue (ps_o s).
  Proof.
    intros HI.
    destruct (run_reordering_returns c rh nets SD Jtrue (fun _ _ _ _ => I) (fun _ _ _ _ _ _ _ _ _ => I) s maxNbRows maxNbCells HI I) as (s' & E & S & _).
    exists s'. split; [exact E|]. split; [exact S|]. exact (steps_inv c rh nets s s' SD HI S).
  Qed.

  Theorem run_passes_total p shifts s : params_ok p = true -> PInv c rh nets s ->
    oracle_ok (Z.to_nat (dp_nbPasses p)) p shifts s ->
    exists s' ex, run_passes p shifts s = ROk (s', ex) /\ chain s ex s' /\ PInv c rh nets s' /\
      Forall (fun e => PInv c rh nets e /\ ovalue (ps_o s') <= ovalue (ps_o e) <= ovalue (ps_o s)) ex.
  Proof.
    intros Hp HI Ho.
    destruct (run_passes_returns c rh nets SD Jtrue (fun _ _ _ _ => I) (fun _ _ _ _ _ _ _ _ _ => I) (fun _ _ _ _ => I) p shifts s Hp HI I Ho)
      as (s' & ex & R & Ch & P' & _ & _).
    exists s', ex. split; [exact R|]. split; [exact Ch|]. split; [exact P'|].
    apply Forall_forall. intros e He. destruct (chain_in _ _ _ e Ch He) as [S1 S2].
    destruct (steps_inv c rh nets s e SD HI S1) as [Pe L1]. destruct (steps_inv c rh nets e s' SD Pe S2) as [_ L2].
    split; [exact Pe|lia].
  Qed.

  (* every state of a history from a state satisfying the invariant exposes a legal circuit with the frame *)
  Theorem history_exposes_legal s s' : legal c -> PInv c rh nets s -> steps_to s s' ->
    legal (write_back c (ps_d s')) /\ frame c (write_back c (ps_d s')) rh.
  Proof.
    intros HL HI S. destruct (steps_inv c rh nets s s' SD HI S) as [P' _].
    split; [exact (exposed_legal_inv c rh nets s' SD HL P')|exact (exposed_frame c rh nets s' P')].
  Qed.

  (* an accepted bestSwapUpdate lowers the value by at least one; the value is never negative *)
  Theorem accepted_swap_decreases s cc from nb : PInv c rh nets s -> held (ps_d s) cc = true -> from_ok (ps_d s) from ->
    exists r, best_swap_update s cc from nb = ROk r /\ 0 <= ovalue (ps_o (bs_state r)) /\
      (bs_found r = true -> ovalue (ps_o (bs_state r)) <= ovalue (ps_o s) - 1).
  Proof.
    intros HI Hc Hf. destruct (bsu_spec c rh nets SD s cc from nb HI Hc Hf) as (r & E & P' & _ & _ & _ & Lt).
    exists r. split; [exact E|]. split; [exact (ovalue_nonneg c rh nets _ P')|]. intros Hfd. specialize (Lt Hfd). lia.
  Qed.
End Plain.

(* ---------- the value theorem stated on the circuits place_detailed_model returns ---------- *)
(* F8 scope, on circuits: no polarised cell has, in c', another orientation than in c *)
Definition same_polar_orient (c c' : circuit) : Prop :=
  forall i k k', nth_error (cells c) i = Some k -> nth_error (cells c') i = Some k' -> c_pol k <> pANY -> c_o k' = c_o k.

Lemma same_polar_frozen c d : same_polar_orient c (write_back c d) -> orient_frozen c d.
Proof. intros H i k Hk Hp. exact (H i k _ Hk (write_back_nth_fwd c d i k Hk) Hp). Qed.

Theorem place_detailed_model_hpwl c rh nets : std_design c rh -> legal c -> forall p shifts d0 c' exs,
  from_circuit c = DOk d0 -> params_ok p = true ->
  oracle_ok (Z.to_nat (dp_nbPasses p)) p shifts {| ps_d := d0; ps_o := init_models c nets |} ->
  int_pins c nets -> pins_fit c rh nets ->
  place_detailed_model c nets p shifts = ROk (c', exs) ->
  (same_polar_orient c c' -> hpwl_circuit c' nets <= hpwl_circuit c nets) /\
  Forall (fun e => same_polar_orient c e ->
            hpwl_circuit e nets <= hpwl_circuit c nets /\ (same_polar_orient c c' -> hpwl_circuit c' nets <= hpwl_circuit e nets)) exs.
Proof.
  intros SD HL p shifts d0 c' exs Hs Hp Ho B0 PF. unfold place_detailed_model. rewrite Hs.
  destruct (run_passes p shifts {| ps_d := d0; ps_o := init_models c nets |}) as [[s' ex]|e] eqn:R; [|discriminate].
  intros [= <- <-]. destruct (place_detailed_value c rh nets SD HL p shifts d0 s' ex Hs Hp Ho R B0 PF) as (A & B & _).
  split.
  - intros H. exact (A (same_polar_frozen c _ H)).
  - apply Forall_forall. intros e He. apply in_map_iff in He as (st & <- & Hst). intros H.
    destruct (B st Hst (same_polar_frozen c _ H)) as [B1 B2]. split; [exact B1|].
    intros H'. exact (B2 (same_polar_frozen c _ H')).
Qed.
