(* C07 listing tie: soundness of the boolean rule of MachineOps.v against its Prop-level reading. *)
From Coq Require Import List String Ascii Bool Arith Lia.
Import ListNotations.
Require Import CV.RowLegMachine CV.MachineOps.

Lemma mty_eqb_eq a b : mty_eqb a b = true -> a = b.
Proof. destruct a, b; simpl; intros H; try reflexivity; discriminate H. Qed.

Lemma opk_eqb_eq a b : opk_eqb a b = true -> a = b.
Proof.
  destruct a, b; simpl; intros H; try reflexivity; try discriminate H;
    apply mty_eqb_eq in H; subst; reflexivity.
Qed.

Lemma cty_eqb_eq a b : cty_eqb a b = true -> a = b.
Proof. destruct a, b; simpl; intros H; try reflexivity; discriminate H. Qed.

Lemma octy_is_eq o t : octy_is o t = true -> o = Some t.
Proof.
  destruct o as [u|]; simpl; intros H; [apply cty_eqb_eq in H; subst; reflexivity | discriminate H].
Qed.

Lemma same_op_sound o e : same_op o e = true -> op_matches o e.
Proof.
  unfold same_op, op_matches. intros H.
  apply andb_prop in H. destruct H as [H Hocc].
  apply andb_prop in H. destruct H as [H Htext].
  apply andb_prop in H. destruct H as [Hk Hty].
  apply opk_eqb_eq in Hk. apply mty_eqb_eq in Hty.
  apply String.eqb_eq in Htext. apply Nat.eqb_eq in Hocc. auto.
Qed.

Lemma cov_okb_sound c o e : cov_okb c o e = true -> cov_ok c o e.
Proof.
  unfold cov_okb, cov_ok. destruct (c_cov e) as [fn pos ty | r why]; [| trivial].
  intros H. apply andb_prop in H. destruct H as [H1 H2].
  apply octy_is_eq in H1. apply octy_is_eq in H2. auto.
Qed.

Lemma forall2b_nth {A B} (p : A -> B -> bool) (l : list A) : forall (m : list B),
  forall2b p l m = true ->
  List.length l = List.length m /\
  forall i a b, nth_error l i = Some a -> nth_error m i = Some b -> p a b = true.
Proof.
  induction l as [|x l IH]; intros [|y m] H; simpl in H; try discriminate H.
  - split; [reflexivity|]. intros [|i] a b Ha; discriminate Ha.
  - apply andb_prop in H. destruct H as [Hxy Hr].
    destruct (IH m Hr) as [Hlen Hnth]. split; [simpl; congruence|].
    intros [|i] a b Ha Hb; simpl in Ha, Hb.
    + inversion Ha; inversion Hb; subst; exact Hxy.
    + eapply Hnth; eassumption.
Qed.

Theorem ops_covered_b_sound t c : ops_covered_b t c = true -> ops_covered t c.
Proof.
  unfold ops_covered_b, ops_covered. intros H0.
  apply andb_prop in H0. destruct H0 as [H _].
  destruct (forall2b_nth _ _ _ H) as [Hlen Hnth]. split; [exact Hlen|].
  intros i f g Hf Hg. specialize (Hnth i f g Hf Hg). unfold fun_okb in Hnth.
  apply andb_prop in Hnth. destruct Hnth as [Hn Hops].
  apply andb_prop in Hn. destruct Hn as [Hl Hn].
  apply String.eqb_eq in Hl. apply String.eqb_eq in Hn.
  destruct (forall2b_nth _ _ _ Hops) as [Hlen2 Hnth2].
  split; [exact Hl|]. split; [exact Hn|]. split; [exact Hlen2|].
  intros j o e Ho He. specialize (Hnth2 j o e Ho He). unfold entry_okb in Hnth2.
  apply andb_prop in Hnth2. destruct Hnth2 as [Hs Hc].
  split; [apply same_op_sound; exact Hs | apply cov_okb_sound; exact Hc].
Qed.

(* the reading asked for: every operation of the generated table is covered or excluded by an entry of the cover that has
   the same function, operator, type, text and occurrence ... *)
Corollary ops_covered_every_op t c : ops_covered_b t c = true ->
  forall f, In f t -> forall o, In o (f_ops f) ->
  exists g e, In g (cv_funs c) /\ In e (cf_entries g) /\
              f_listing f = cf_listing g /\ f_name f = cf_name g /\ op_matches o e /\ cov_ok c o e.
Proof.
  intros H f Hf o Ho. destruct (ops_covered_b_sound _ _ H) as [Hlen Hall].
  destruct (In_nth_error _ _ Hf) as [i Hi].
  assert (Hg : exists g, nth_error (cv_funs c) i = Some g).
  { destruct (nth_error (cv_funs c) i) as [g|] eqn:E; [eauto|].
    apply nth_error_None in E. assert (i < List.length t)%nat by (apply nth_error_Some; congruence). lia. }
  destruct Hg as [g Hg]. destruct (Hall i f g Hi Hg) as (Hl & Hn & Hlen2 & Hops).
  destruct (In_nth_error _ _ Ho) as [j Hj].
  assert (He : exists e, nth_error (cf_entries g) j = Some e).
  { destruct (nth_error (cf_entries g) j) as [e|] eqn:E; [eauto|].
    apply nth_error_None in E. assert (j < List.length (f_ops f))%nat by (apply nth_error_Some; congruence). lia. }
  destruct He as [e He]. destruct (Hops j o e Hj He) as [Hm Hc].
  exists g, e. repeat split; try assumption; try (apply Hm).
  - eapply nth_error_In; eassumption.
  - eapply nth_error_In; eassumption.
Qed.

(* ... and no cover entry is stale: each one is the entry of an operation of the generated table *)
Corollary ops_covered_no_stale t c : ops_covered_b t c = true ->
  forall g, In g (cv_funs c) -> forall e, In e (cf_entries g) ->
  exists f o, In f t /\ In o (f_ops f) /\ f_name f = cf_name g /\ op_matches o e.
Proof.
  intros H g Hg e He. destruct (ops_covered_b_sound _ _ H) as [Hlen Hall].
  destruct (In_nth_error _ _ Hg) as [i Hi].
  assert (Hf : exists f, nth_error t i = Some f).
  { destruct (nth_error t i) as [f|] eqn:E; [eauto|].
    apply nth_error_None in E. assert (i < List.length (cv_funs c))%nat by (apply nth_error_Some; congruence). lia. }
  destruct Hf as [f Hf]. destruct (Hall i f g Hf Hi) as (Hl & Hn & Hlen2 & Hops).
  destruct (In_nth_error _ _ He) as [j Hj].
  assert (Ho : exists o, nth_error (f_ops f) j = Some o).
  { destruct (nth_error (f_ops f) j) as [o|] eqn:E; [eauto|].
    apply nth_error_None in E. assert (j < List.length (cf_entries g))%nat by (apply nth_error_Some; congruence). lia. }
  destruct Ho as [o Ho]. destruct (Hops j o e Ho Hj) as [Hm Hc].
  exists f, o. repeat split; try assumption; try (apply Hm).
  - eapply nth_error_In; eassumption.
  - eapply nth_error_In; eassumption.
Qed.

(* ---------- callee closure *)
Lemma smem_In s l : smem s l = true <-> In s l.
Proof.
  unfold smem. rewrite existsb_exists. split.
  - intros [x [Hx He]]. apply String.eqb_eq in He. subst. exact Hx.
  - intros Hin. exists s. split; [exact Hin | apply String.eqb_refl].
Qed.

Lemma In_table_names n t : In n (table_names t) <-> exists g, In g t /\ base_name (f_name g) = n.
Proof.
  unfold table_names. rewrite in_map_iff. split; intros [g [Ha Hb]]; exists g; tauto.
Qed.

Lemma In_map_fst (n : string) (l : list (string * string)) : In n (map fst l) <-> exists r, In (n, r) l.
Proof.
  rewrite in_map_iff. split.
  - intros [[a b] [Ha Hb]]. simpl in Ha. subst. exists b. exact Hb.
  - intros [r Hr]. exists (n, r). split; [reflexivity | exact Hr].
Qed.

Theorem calls_okb_sound t c : calls_okb t c = true -> calls_ok t c.
Proof.
  unfold calls_okb, calls_ok. intros H. apply andb_prop in H. destruct H as [H1 H2].
  rewrite forallb_forall in H1. rewrite forallb_forall in H2. split.
  - intros f n Hf Hn. specialize (H1 f Hf). rewrite forallb_forall in H1. specialize (H1 n Hn).
    apply orb_prop in H1. destruct H1 as [Ht | Hc].
    + left. apply In_table_names. apply smem_In. exact Ht.
    + right. apply In_map_fst. apply smem_In. exact Hc.
  - intros n r Hr. specialize (H2 (n, r) Hr). cbn [fst] in H2.
    apply andb_prop in H2. destruct H2 as [Hcalled Hnot]. split.
    + apply existsb_exists in Hcalled. destruct Hcalled as [f [Hf Hm]]. exists f. split; [exact Hf | apply smem_In; exact Hm].
    + intros Hex. apply In_table_names in Hex. apply smem_In in Hex. rewrite Hex in Hnot. discriminate Hnot.
Qed.

Corollary ops_covered_calls t c : ops_covered_b t c = true -> calls_ok t c.
Proof.
  unfold ops_covered_b. intros H. apply andb_prop in H. destruct H as [_ H]. apply calls_okb_sound. exact H.
Qed.
