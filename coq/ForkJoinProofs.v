(* C08 -- proofs about ForkJoin.v: every interleaving of two tasks whose footprints satisfy
   Bernstein's conditions ends in the same store and the same per-task results as running the
   first task to completion and then the second (and hence as the opposite order, too). *)
From Coq Require Import List Bool String.
Import ListNotations.
Require Import CV.ForkJoin.

Section Proofs.
  Variable Loc : Type.
  Variable Val : Type.
  Variable loc_eqb : Loc -> Loc -> bool.
  Hypothesis loc_eqb_spec : forall a b, loc_eqb a b = true <-> a = b.

  Notation action := (action Loc Val).
  Notation task := (task Loc Val).
  Notation state := (state Loc Val).
  Notation step := (step Loc Val loc_eqb).
  Notation exec := (exec Loc Val loc_eqb).
  Notation upd := (upd Loc Val loc_eqb).
  Notation memb := (memb Loc loc_eqb).
  Notation disjointb := (disjointb Loc loc_eqb).
  Notation subsetb := (subsetb Loc loc_eqb).

  Lemma loc_eqb_refl : forall a, loc_eqb a a = true.
  Proof. intro a. apply loc_eqb_spec. reflexivity. Qed.

  Lemma loc_eqb_false : forall a b, a <> b -> loc_eqb a b = false.
  Proof.
    intros a b H. destruct (loc_eqb a b) eqn:E; [|reflexivity].
    apply loc_eqb_spec in E. contradiction.
  Qed.

  Lemma memb_In : forall l ls, memb l ls = true <-> In l ls.
  Proof.
    intros l ls. unfold ForkJoin.memb. rewrite existsb_exists. split.
    - intros [x [Hin He]]. apply loc_eqb_spec in He. subst. exact Hin.
    - intro Hin. exists l. split; [exact Hin | apply loc_eqb_refl].
  Qed.

  Lemma disjointb_spec : forall xs ys,
    disjointb xs ys = true <-> (forall x, In x xs -> ~ In x ys).
  Proof.
    intros xs ys. unfold ForkJoin.disjointb. rewrite forallb_forall. split.
    - intros H x Hx Hy. specialize (H x Hx). apply negb_true_iff in H.
      apply memb_In in Hy. rewrite Hy in H. discriminate.
    - intros H x Hx. apply negb_true_iff. destruct (memb x ys) eqn:E; [|reflexivity].
      apply memb_In in E. exfalso. exact (H x Hx E).
  Qed.

  Lemma subsetb_spec : forall xs ys, subsetb xs ys = true <-> incl xs ys.
  Proof.
    intros xs ys. unfold ForkJoin.subsetb. rewrite forallb_forall. unfold incl. split.
    - intros H a Ha. apply memb_In. exact (H a Ha).
    - intros H a Ha. apply memb_In. exact (H a Ha).
  Qed.

  (* ---- observable equality is an equivalence respected by steps ---- *)
  Lemma same_refl : forall c : state, same c c.
  Proof. intro c. repeat split. Qed.

  Lemma same_sym : forall c d : state, same c d -> same d c.
  Proof. intros c d [H1 [H2 H3]]. repeat split; intros; symmetry; auto. Qed.

  Lemma same_trans : forall c d e : state, same c d -> same d e -> same c e.
  Proof.
    intros c d e [H1 [H2 H3]] [K1 [K2 K3]]. repeat split.
    - intro l. rewrite H1. apply K1.
    - rewrite H2. exact K2.
    - rewrite H3. exact K3.
  Qed.

  Lemma step_same : forall tid a (c d : state), same c d -> same (step tid a c) (step tid a d).
  Proof.
    intros tid a c d [H1 [H2 H3]]. destruct a as [l | l f]; destruct tid; simpl; repeat split; simpl;
      try (intro l'); try rewrite H1; try rewrite H2; try rewrite H3; try reflexivity;
      unfold ForkJoin.upd; destruct (loc_eqb l l'); try reflexivity; apply H1.
  Qed.

  Lemma exec_same : forall m (c d : state), same c d -> same (exec m c) (exec m d).
  Proof.
    induction m as [| [tid a] m IH]; intros c d H; simpl.
    - exact H.
    - apply IH. apply step_same. exact H.
  Qed.

  Lemma exec_app : forall m1 m2 (c : state), exec (m1 ++ m2) c = exec m2 (exec m1 c).
  Proof.
    induction m1 as [| [tid a] m1 IH]; intros m2 c; simpl; [reflexivity | apply IH].
  Qed.

  (* ---- independence of two single actions ---- *)
  Definition a_reads (a : action) : list Loc := match a with Read l => [l] | Write _ _ => [] end.
  Definition a_writes (a : action) : list Loc := match a with Read _ => [] | Write l _ => [l] end.

  Definition indep (a b : action) : Prop :=
    (forall l, In l (a_writes a) -> ~ In l (a_reads b ++ a_writes b)) /\
    (forall l, In l (a_writes b) -> ~ In l (a_reads a ++ a_writes a)).

  (* adjacent independent steps of different tasks commute *)
  Lemma commute : forall (a b : action) (c : state),
    indep a b -> same (step true a (step false b c)) (step false b (step true a c)).
  Proof.
    intros a b c [Hab Hba].
    destruct a as [la | la fa]; destruct b as [lb | lb fb]; simpl; repeat split; simpl; try reflexivity.
    - (* Read / Write *)
      assert (lb <> la) as Hne.
      { intro E. apply (Hba lb); simpl; auto. }
      unfold ForkJoin.upd. rewrite (loc_eqb_false _ _ Hne). reflexivity.
    - (* Write / Read *)
      assert (la <> lb) as Hne.
      { intro E. apply (Hab la); simpl; auto. }
      unfold ForkJoin.upd. rewrite (loc_eqb_false _ _ Hne). reflexivity.
    - (* Write / Write *)
      assert (la <> lb) as Hne.
      { intro E. apply (Hab la); simpl; auto. }
      intro l. unfold ForkJoin.upd.
      destruct (loc_eqb la l) eqn:E1; destruct (loc_eqb lb l) eqn:E2; try reflexivity.
      apply loc_eqb_spec in E1. apply loc_eqb_spec in E2. subst. contradiction.
  Qed.

  (* an action of the second task moves to the right past a block of actions of the first task *)
  Lemma move_past : forall (t1 : task) (b : action) (r : list (bool * action)) (c : state),
    (forall a, In a t1 -> indep a b) ->
    same (exec ((false, b) :: tag true t1 ++ r) c) (exec (tag true t1 ++ (false, b) :: r) c).
  Proof.
    induction t1 as [| a t1 IH]; intros b r c H.
    - apply same_refl.
    - simpl. eapply same_trans.
      2:{ apply (IH b r (step true a c)). intros a' Ha'. apply H. right. exact Ha'. }
      simpl. apply exec_same. apply commute. apply H. left. reflexivity.
  Qed.

  (* ---- task-level independence from footprints ---- *)
  Definition independent (t1 t2 : task) : Prop :=
    disjointb (writes_of Loc Val t1) (reads_of Loc Val t2 ++ writes_of Loc Val t2) = true /\
    disjointb (writes_of Loc Val t2) (reads_of Loc Val t1 ++ writes_of Loc Val t1) = true.

  Lemma in_reads_of : forall (t : task) a l, In a t -> In l (a_reads a) -> In l (reads_of Loc Val t).
  Proof.
    intros t a l Ha Hl. unfold reads_of. apply in_flat_map. exists a. split; [exact Ha|].
    destruct a; exact Hl.
  Qed.

  Lemma in_writes_of : forall (t : task) a l, In a t -> In l (a_writes a) -> In l (writes_of Loc Val t).
  Proof.
    intros t a l Ha Hl. unfold writes_of. apply in_flat_map. exists a. split; [exact Ha|].
    destruct a; exact Hl.
  Qed.

  Lemma independent_indep : forall t1 t2 a b,
    independent t1 t2 -> In a t1 -> In b t2 -> indep a b.
  Proof.
    intros t1 t2 a b [H1 H2] Ha Hb.
    rewrite disjointb_spec in H1. rewrite disjointb_spec in H2. split.
    - intros l Hl Hin. apply (H1 l (in_writes_of _ _ _ Ha Hl)).
      apply in_app_or in Hin. apply in_or_app. destruct Hin as [Hr | Hw].
      + left. exact (in_reads_of _ _ _ Hb Hr).
      + right. exact (in_writes_of _ _ _ Hb Hw).
    - intros l Hl Hin. apply (H2 l (in_writes_of _ _ _ Hb Hl)).
      apply in_app_or in Hin. apply in_or_app. destruct Hin as [Hr | Hw].
      + left. exact (in_reads_of _ _ _ Ha Hr).
      + right. exact (in_writes_of _ _ _ Ha Hw).
  Qed.

  Lemma independent_tail1 : forall a t1 t2, independent (a :: t1) t2 -> independent t1 t2.
  Proof.
    intros a t1 t2 [H1 H2]. rewrite disjointb_spec in H1. rewrite disjointb_spec in H2.
    split; apply disjointb_spec.
    - intros l Hl. apply H1. unfold writes_of. simpl. apply in_or_app. right. exact Hl.
    - intros l Hl Hin. apply (H2 l Hl). apply in_app_or in Hin. apply in_or_app.
      destruct Hin as [Hr | Hw].
      + left. unfold reads_of. simpl. apply in_or_app. right. exact Hr.
      + right. unfold writes_of. simpl. apply in_or_app. right. exact Hw.
  Qed.

  Lemma independent_tail2 : forall b t1 t2, independent t1 (b :: t2) -> independent t1 t2.
  Proof.
    intros b t1 t2 [H1 H2]. rewrite disjointb_spec in H1. rewrite disjointb_spec in H2.
    split; apply disjointb_spec.
    - intros l Hl Hin. apply (H1 l Hl). apply in_app_or in Hin. apply in_or_app.
      destruct Hin as [Hr | Hw].
      + left. unfold reads_of. simpl. apply in_or_app. right. exact Hr.
      + right. unfold writes_of. simpl. apply in_or_app. right. exact Hw.
    - intros l Hl. apply H2. unfold writes_of. simpl. apply in_or_app. right. exact Hl.
  Qed.

  (* MAIN: every interleaving is observably equal to "first task, then second task" *)
  Theorem schedule_independent : forall t1 t2 m,
    independent t1 t2 -> interleaving t1 t2 m ->
    forall c, same (exec m c) (exec (tag true t1 ++ tag false t2) c).
  Proof.
    intros t1 t2 m Hind Hil. induction Hil as [| a t1 t2 m Hil IH | b t1 t2 m Hil IH]; intro c.
    - apply same_refl.
    - simpl. apply IH. exact (independent_tail1 _ _ _ Hind).
    - simpl. eapply same_trans.
      + apply IH. exact (independent_tail2 _ _ _ Hind).
      + apply (move_past t1 b (tag false t2) c).
        intros a Ha. apply (independent_indep t1 (b :: t2)); [exact Hind | exact Ha | left; reflexivity].
  Qed.

  (* any two schedules agree *)
  Corollary any_two_schedules_agree : forall t1 t2 m m',
    independent t1 t2 -> interleaving t1 t2 m -> interleaving t1 t2 m' ->
    forall c, same (exec m c) (exec m' c).
  Proof.
    intros t1 t2 m m' Hind H H' c. eapply same_trans.
    - apply (schedule_independent t1 t2 m Hind H).
    - apply same_sym. apply (schedule_independent t1 t2 m' Hind H').
  Qed.

  Lemma interleaving_seq12 : forall t1 t2 : task, interleaving t1 t2 (tag true t1 ++ tag false t2).
  Proof.
    induction t1 as [| a t1 IH]; intro t2; simpl.
    - induction t2 as [| b t2 IH2]; simpl; [apply il_nil | apply il_second; exact IH2].
    - apply il_first. apply IH.
  Qed.

  Lemma interleaving_seq21 : forall t2 t1 : task, interleaving t1 t2 (tag false t2 ++ tag true t1).
  Proof.
    induction t2 as [| b t2 IH]; intro t1; simpl.
    - induction t1 as [| a t1 IH1]; simpl; [apply il_nil | apply il_first; exact IH1].
    - apply il_second. apply IH.
  Qed.

  (* both completion orders: x entirely before y, y entirely before x *)
  Corollary completion_order_irrelevant : forall t1 t2,
    independent t1 t2 ->
    forall c, same (exec (tag true t1 ++ tag false t2) c) (exec (tag false t2 ++ tag true t1) c).
  Proof.
    intros t1 t2 Hind c.
    exact (any_two_schedules_agree t1 t2 _ _ Hind (interleaving_seq12 t1 t2) (interleaving_seq21 t2 t1) c).
  Qed.

  (* from footprints: tasks that stay inside disjoint footprints are independent *)
  Lemma conforms_independent : forall t1 t2 f g,
    conforms loc_eqb t1 f -> conforms loc_eqb t2 g ->
    footprints_disjoint2 Loc loc_eqb f g = true -> independent t1 t2.
  Proof.
    intros t1 t2 f g [R1 W1] [R2 W2] H. unfold footprints_disjoint2 in H.
    apply andb_true_iff in H. destruct H as [Hfg Hgf].
    rewrite subsetb_spec in R1, W1, R2, W2. rewrite disjointb_spec in Hfg, Hgf.
    split; apply disjointb_spec.
    - intros l Hl Hin. apply (Hfg l (W1 l Hl)). apply in_app_or in Hin. apply in_or_app.
      destruct Hin; [left; apply R2 | right; apply W2]; assumption.
    - intros l Hl Hin. apply (Hgf l (W2 l Hl)). apply in_app_or in Hin. apply in_or_app.
      destruct Hin; [left; apply R1 | right; apply W1]; assumption.
  Qed.

  Theorem footprint_schedule_independent : forall f g t1 t2 m,
    footprints_disjoint2 Loc loc_eqb f g = true ->
    conforms loc_eqb t1 f -> conforms loc_eqb t2 g -> interleaving t1 t2 m ->
    forall c, same (exec m c) (exec (tag true t1 ++ tag false t2) c).
  Proof.
    intros f g t1 t2 m H C1 C2 Hil. apply schedule_independent; [|exact Hil].
    exact (conforms_independent t1 t2 f g C1 C2 H).
  Qed.
End Proofs.

(* ---- instantiation on named locations ---- *)
Lemma string_eqb_spec : forall a b : string, String.eqb a b = true <-> a = b.
Proof. exact String.eqb_eq. Qed.

Definition sstep {Val} := ForkJoin.step string Val String.eqb.
Definition sexec {Val} := ForkJoin.exec string Val String.eqb.
Definition sconforms {Val} (t : task string Val) f := conforms String.eqb t f.

Lemma summary_ok_disjoint : forall s, summary_ok s = true -> footprints_disjoint s = true.
Proof.
  intros s H. unfold summary_ok in H. rewrite !andb_true_iff in H.
  destruct H as [[[[[[Hd _] _] _] _] _] _]. exact Hd.
Qed.

(* the statement about a summary: if the summary passes [summary_ok], any two tasks that stay
   inside the footprints derived from it give the same store and results under every schedule *)
Theorem summary_schedule_independent : forall (s : summary), summary_ok s = true ->
  forall (Val : Type) (t1 t2 : task string Val) m,
    sconforms t1 (fp_first s) -> sconforms t2 (fp_second s) -> interleaving t1 t2 m ->
    forall c, same (sexec m c) (sexec (tag true t1 ++ tag false t2) c).
Proof.
  intros s Hok Val t1 t2 m C1 C2 Hil c.
  apply summary_ok_disjoint in Hok. unfold footprints_disjoint in Hok.
  exact (footprint_schedule_independent string Val String.eqb string_eqb_spec
           (fp_first s) (fp_second s) t1 t2 m Hok C1 C2 Hil c).
Qed.

Theorem summary_completion_order_irrelevant : forall (s : summary), summary_ok s = true ->
  forall (Val : Type) (t1 t2 : task string Val),
    sconforms t1 (fp_first s) -> sconforms t2 (fp_second s) ->
    forall c, same (sexec (tag true t1 ++ tag false t2) c) (sexec (tag false t2 ++ tag true t1) c).
Proof.
  intros s Hok Val t1 t2 C1 C2 c.
  apply summary_ok_disjoint in Hok. unfold footprints_disjoint in Hok.
  apply (completion_order_irrelevant string Val String.eqb string_eqb_spec).
  exact (conforms_independent string Val String.eqb string_eqb_spec t1 t2 _ _ C1 C2 Hok).
Qed.

(* the hypothesis is needed: two tasks that write the same location end differently under the
   two completion orders *)
Local Open Scope string_scope.
Lemma racy_tasks_differ :
  let t1 : task string nat := [Write "g" (fun _ => 1)] in
  let t2 : task string nat := [Write "g" (fun _ => 2)] in
  let c := Build_state (fun _ => 0) [] [] in
  st (sexec (tag true t1 ++ tag false t2) c) "g" <> st (sexec (tag false t2 ++ tag true t1) c) "g".
Proof. vm_compute. discriminate. Qed.
