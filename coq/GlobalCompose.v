(* C06 -- the upper-bound exposure of global placement as ONE function of a circuit.
   Composes, in the order the C++ runs them,
     - DensityGrid::fromIspdCircuit (placement area, bin limits)          CV.Spread.circuit_grid_area / grid_of_circuit
     - HierarchicalDensityPlacement::fromIspdCircuit (cell demands)        density_grid.cpp:211-224
     - HierarchicalDensityPlacement::spreadCoordX / spreadCoordY in binary32, tree WITH the F15 repair (clampCoords) and
       the F21 repair (coordinate clamped into its bin)                    density_grid.cpp:308-399, CV.SpreadFloat.spread_coord_f true
     - GlobalPlacer::exportPlacement(circuit, xplace, yplace): std::round(xplace[i] - 0.5 * placedWidth(i)) in binary64
                                                                           place_global.cpp:100-114, CV.SpreadFloat.export_coord_f
   and, for the RETURNED placement, blendPlacement in binary32 (place_global.cpp:19-38) followed by the same export, and
   the loop of GlobalPlacer::run (place_global.cpp:150-196).
   Inputs that stay oracles (the theorems quantify over ALL their values):
     - the VIEW of the hierarchical grid (bin limits of the current level in x and y, cell lists binCells(i,j)): what
       DensityLegalizer::run leaves -- C16's subject;
     - the target vectors (blend of the solver's lower bound and of the previous upper bound): any binary32 values,
       NaN and infinities included;
     - margin = (int)(sideMargin * minCellHeight) and maxSize = (int)(sizeFactor * minCellHeight): float -> int truncations.
   Definitions only; proofs in GlobalComposeProofs.v. *)
From Coq Require Import ZArith List Bool Reals.
From Flocq Require Import Core BinarySingleNaN.
Require Import CV.Orient CV.FreeSpace CV.Spread CV.SpreadFloat.
Import ListNotations.
Local Open Scope Z_scope.

(* ------------------------------------------------------------------ the circuit's cells *)
(* (x, y, stored width, stored height, orientation, isFixed, isObstruction): the tuple of FreeSpace.compute_rows_circuit *)
Definition ccell := (Z * Z * Z * Z * orient * bool * bool)%type.

Definition cc_x (c : ccell) : Z := match c with (x, _, _, _, _, _, _) => x end.
Definition cc_y (c : ccell) : Z := match c with (_, y, _, _, _, _, _) => y end.
Definition cc_w (c : ccell) : Z := match c with (_, _, w, _, _, _, _) => w end.
Definition cc_h (c : ccell) : Z := match c with (_, _, _, h, _, _, _) => h end.
Definition cc_orient (c : ccell) : orient := match c with (_, _, _, _, o, _, _) => o end.
Definition cc_fixed (c : ccell) : bool := match c with (_, _, _, _, _, fx, _) => fx end.

(* Circuit::placedWidth / placedHeight (coloquinte.cpp): the stored sizes, exchanged for a turned orientation *)
Definition placed_w (c : ccell) : Z := if is_turn (cc_orient c) then cc_h c else cc_w c.
Definition placed_h (c : ccell) : Z := if is_turn (cc_orient c) then cc_w c else cc_h c.

(* HierarchicalDensityPlacement::fromIspdCircuit, density_grid.cpp:216-222: isFixed ? 0 : area(i), area = the product of
   the STORED sizes in long long, narrowed to int (the ideal product is modelled; the theorems assume it below 2^31) *)
Definition cell_demand (c : ccell) : Z := if cc_fixed c then 0 else cc_w c * cc_h c.

(* ------------------------------------------------------------------ a view of the hierarchical grid *)
(* binLimitX(0..nbBinsX), binLimitY(0..nbBinsY) of the CURRENT level and binCells(i,j) (binCells_[i][j]) *)
Record view := { v_x : list Z; v_y : list Z; v_cells : list (list (list nat)) }.

Definition pairs {A} (l : list A) : list (A * A) := combine l (tl l).

(* the bins in the order of the double loop of spreadCoordX (i outer, j inner): binLimitX(i), binLimitX(i+1), binCells(i,j) *)
Definition bins_x (v : view) : list bin :=
  concat (map (fun pc => map (fun cs => {| b_lo := fst (fst pc); b_hi := snd (fst pc); b_cells := cs |}) (snd pc))
              (combine (pairs (v_x v)) (v_cells v))).

(* the same loop in spreadCoordY: binLimitY(j), binLimitY(j+1), binCells(i,j) *)
Definition bins_y (v : view) : list bin :=
  concat (map (fun col => map (fun qc => {| b_lo := fst (fst qc); b_hi := snd (fst qc); b_cells := snd qc |})
                              (combine (pairs (v_y v)) col))
              (v_cells v)).

(* every cell index that is in some bin *)
Definition view_cells (v : view) : list nat := concat (concat (v_cells v)).

(* the limits of a level are a sub-sequence of the finest limits that keeps both ends (C16: level_limits = sel fine idx
   with idx strictly increasing from 0 to the number of fine bins; GlobalComposeProofs.level_limits_is_view) *)
Fixpoint subseqb (fine v : list Z) {struct fine} : bool :=
  match v with
  | [] => true
  | a :: v' =>
      match fine with
      | [] => false
      | b :: fine' => if a =? b then subseqb fine' v' else subseqb fine' v
      end
  end.

Definition is_view (fine v : list Z) : bool :=
  subseqb fine v && (2 <=? length v)%nat && (hd 0 v =? hd 0 fine) && (last v 0 =? last fine 0).

(* v is a view of the grid DensityGrid::fromIspdCircuit builds for the circuit *)
Definition view_of_circuit (margin maxSize : Z) (rows : list row) (cells : list ccell) (v : view) : bool :=
  let g := grid_of_circuit margin maxSize rows cells in
  is_view (fst g) (v_x v) && is_view (snd g) (v_y v).

(* C16's partition invariant as far as the spreading needs it: only cells of positive demand are in bins, each once
   (the second half is needed only for "the cell lands in ITS bin", not for "inside the rows") *)
Definition bins_positive (cells : list ccell) (v : view) : Prop :=
  forall c, In c (view_cells v) -> 0 < nth c (map cell_demand cells) 0.

(* the shape the C++ guarantees: one column per x bin, one entry per y bin *)
Definition view_shape (v : view) : bool :=
  (length (v_cells v) =? length (v_x v) - 1)%nat
  && forallb (fun col => (length col =? length (v_y v) - 1)%nat) (v_cells v).

(* ------------------------------------------------------------------ export of one placement *)
(* exportPlacement(circuit, xplace, yplace), one cell: fixed cells are skipped (their position stays); None = the
   conversion of a non-finite double to int, which is undefined behaviour in C++ *)
Definition export_cell_f (c : ccell) (x y : f32) : option (Z * Z) :=
  if cc_fixed c then Some (cc_x c, cc_y c)
  else match export_coord_f x (placed_w c), export_coord_f y (placed_h c) with
       | Some X, Some Y => Some (X, Y)
       | _, _ => None
       end.

Fixpoint export_placement_f (cells : list ccell) (xs ys : list f32) : list (option (Z * Z)) :=
  match cells, xs, ys with
  | c :: cs, x :: xs', y :: ys' => export_cell_f c x y :: export_placement_f cs xs' ys'
  | _, _, _ => []
  end.

(* ------------------------------------------------------------------ the upper bound: runUB's last three statements *)
(* xPlacementUB_ = leg_.spreadCoordX(xTarget), yPlacementUB_ = leg_.spreadCoordY(yTarget) *)
Definition ub_coords (margin : Z) (rows : list row) (cells : list ccell) (v : view) (tx ty : list f32)
  : list f32 * list f32 :=
  let a := circuit_grid_area margin rows cells in
  let d := map cell_demand cells in
  (spread_coord_f true (minX a) (maxX a) (bins_x v) tx d,
   spread_coord_f true (minY a) (maxY a) (bins_y v) ty d).

(* callback(PlacementStep::UpperBound, xPlacementUB_, yPlacementUB_): the lower-left corners written to the circuit *)
Definition ub_exposure (margin : Z) (rows : list row) (cells : list ccell) (v : view) (tx ty : list f32)
  : list (option (Z * Z)) :=
  let u := ub_coords margin rows cells v tx ty in
  export_placement_f cells (fst u) (snd u).

(* ------------------------------------------------------------------ blendPlacement in binary32, place_global.cpp:19-38 *)
(* `blending == 0.0f` / `== 1.0f`: IEEE equality (-0.0 == 0.0, NaN equals nothing) *)
Definition feqb (a b : f32) : bool :=
  match Bcompare a b with Some Eq => true | _ => false end.

(* (1.0f - blending) * v1[i] + blending * v2[i] *)
Definition blend_expr_f (w a b : f32) : f32 := fadd (fmul (fsub fone w) a) (fmul w b).

Definition blend_f (w : f32) (v1 v2 : list f32) : list f32 :=
  if feqb w fzero then v1
  else if feqb w fone then v2
  else map (fun p => blend_expr_f w (fst p) (snd p)) (combine v1 v2).

(* GlobalPlacer::exportPlacement(circuit) const, lines 90-98: the RETURNED placement *)
Definition returned_placement (w : f32) (cells : list ccell) (lbx ubx lby uby : list f32) : list (option (Z * Z)) :=
  export_placement_f cells (blend_f w lbx ubx) (blend_f w lby uby).

(* the same blend over the reals, one rnd32 per C++ operation *)
Definition blend_R (w a b : R) : R := rnd32 (rnd32 (rnd32 (1 - w) * a) + rnd32 (w * b))%R.

(* ------------------------------------------------------------------ the loop of GlobalPlacer::run, lines 150-196 *)
(* What one iteration consumes from the parts that are not modelled (all oracles; the theorems hold for every value):
     it_view     the view DensityLegalizer::run leaves in runUB (leg_.run())
     it_stop     `gap < gapTolerance || dist < distanceTolerance()` (line 172)
     it_penalty  `dist < nextPenaltyUpdateDistance` (line 176)
     it_lbs      the solver's results of the nbStepsBeforeRoughLegalization calls of runLB (lines 180-188), x and y *)
Record iter_oracle := { it_view : view; it_stop : bool; it_penalty : bool; it_lbs : list (list f32 * list f32) }.

Inductive step_kind := KLowerBound | KUpperBound | KPenaltyUpdate.

(* one callback: the kind and what exportPlacement wrote into the circuit *)
Definition event := (step_kind * list (option (Z * Z)))%type.

(* the placer's vectors: xPlacementLB_, yPlacementLB_, xPlacementUB_, yPlacementUB_ *)
Record gstate := { s_lbx : list f32; s_lby : list f32; s_ubx : list f32; s_uby : list f32 }.

(* runUB(), lines 258-269, with the rough-legalization target blending wrl: returns the new state and the callback *)
Definition run_ub (margin : Z) (rows : list row) (cells : list ccell) (wrl : f32) (v : view) (s : gstate)
  : gstate * event :=
  let tx := blend_f wrl (s_lbx s) (s_ubx s) in
  let ty := blend_f wrl (s_lby s) (s_uby s) in
  let u := ub_coords margin rows cells v tx ty in
  ({| s_lbx := s_lbx s; s_lby := s_lby s; s_ubx := fst u; s_uby := snd u |},
   (KUpperBound, export_placement_f cells (fst u) (snd u))).

(* runLB(), lines 228-256: the solver's answer replaces the lower bound, callback(LowerBound) *)
Definition run_lb (cells : list ccell) (s : gstate) (lb : list f32 * list f32) : gstate * event :=
  ({| s_lbx := fst lb; s_lby := snd lb; s_ubx := s_ubx s; s_uby := s_uby s |},
   (KLowerBound, export_placement_f cells (fst lb) (snd lb))).

Fixpoint run_lbs (cells : list ccell) (s : gstate) (lbs : list (list f32 * list f32)) : gstate * list event :=
  match lbs with
  | [] => (s, [])
  | lb :: t => let r := run_lb cells s lb in
               let r' := run_lbs cells (fst r) t in
               (fst r', snd r :: snd r')
  end.

(* the for loop: `its` = the oracles of the iterations still allowed (step_ <= maxNbSteps), consumed one per iteration;
   the break of line 172 leaves the loop.  Returns the state at the loop's exit and the callbacks in order *)
Fixpoint run_loop (margin : Z) (rows : list row) (cells : list ccell) (wrl : f32)
         (its : list iter_oracle) (s : gstate) : gstate * list event :=
  match its with
  | [] => (s, [])
  | it :: rest =>
      let r := run_ub margin rows cells wrl (it_view it) s in
      if it_stop it then (fst r, [snd r])
      else
        let pu := if it_penalty it
                  then [(KPenaltyUpdate, export_placement_f cells (s_ubx (fst r)) (s_uby (fst r)))] else [] in
        let l := run_lbs cells (fst r) (it_lbs it) in
        let r' := run_loop margin rows cells wrl rest (fst l) in
        (fst r', snd r :: pu ++ snd l ++ snd r')
  end.

(* GlobalPlacer::run after runInitialLB (whose LowerBound callbacks and final `UB = LB` give the state s0): the loop over
   at most maxNbSteps - nbInitialSteps iterations (firstn: step_ runs from nbInitialSteps + 1 to maxNbSteps), then the
   final runUB() of line 195 with the view `vlast`.  Returns the callbacks and the final vectors *)
Definition run_global (margin : Z) (rows : list row) (cells : list ccell) (wrl : f32)
           (maxNbSteps nbInitialSteps : nat) (its : list iter_oracle) (vlast : view) (s0 : gstate)
  : gstate * list event :=
  let r := run_loop margin rows cells wrl (firstn (maxNbSteps - nbInitialSteps) its) s0 in
  let u := run_ub margin rows cells wrl vlast (fst r) in
  (fst u, snd r ++ [snd u]).

(* GlobalPlacer::place: run(), then exportPlacement(circuit) with exportBlending wex *)
Definition place_global (margin : Z) (rows : list row) (cells : list ccell) (wrl wex : f32)
           (maxNbSteps nbInitialSteps : nat) (its : list iter_oracle) (vlast : view) (s0 : gstate)
  : list event * list (option (Z * Z)) :=
  let r := run_global margin rows cells wrl maxNbSteps nbInitialSteps its vlast s0 in
  (snd r, returned_placement wex cells (s_lbx (fst r)) (s_ubx (fst r)) (s_lby (fst r)) (s_uby (fst r))).

(* the number of loop iterations a run makes = the number of UpperBound callbacks minus the final one *)
Definition count_ub (evs : list event) : nat :=
  length (filter (fun e => match fst e with KUpperBound => true | _ => false end) evs).
