(* C13 -- optimality and termination of the successive-shortest-path solver (model Ssp.v / SspF.v).
   Part A: the two chain walks of sendSource(src, sink, quantity) end within their fuel (parents are acyclic).
   Part B: the second walk keeps "sendingCost_ is a potential of the allocation" and the queue order.
   Part C: one call of sendSource(src, sink, quantity) keeps the solver-wide invariant Inv /\ Jinv.
   Part D: sendSource(src), run(), solve(): a plan is returned unless the fuel of updateTree runs out, and
           every returned plan has minimum cost. *)
From Coq Require Import List ZArith Lia Bool Arith Permutation.
Import ListNotations.
Require Import CV.LpCert CV.Ssp CV.SspProofs CV.SspSafety CV.SspF CV.SspTree.
Local Open Scope Z_scope.

Lemma ssp_is_sspF pb : sspF tree_fuel pb = ssp pb.
Proof. reflexivity. Qed.

(* a rule for run_loop: invariant + the loop ends *)
Lemma run_loop_rule {S A : Type} (Iv : S -> Prop) (P : A -> Prop) (F : Err -> Prop) id p (body : S -> step S (res A)) s :
  Iv s ->
  (forall s, Iv s -> match body s with Continue s' => Iv s' | Done (Ok a) => P a | Done (Fail e) => F e end) ->
  (exists r, loopP p body s = Done r) ->
  match run_loop id p body s with Ok a => P a | Fail e => F e end.
Proof.
  intros Hs Hb (r & Er). unfold run_loop.
  pose proof (loopP_inv Iv (fun r => match r with Ok a => P a | Fail e => F e end) body Hb p s Hs) as H.
  rewrite Er in *. exact H.
Qed.

(* ================================================================== Part A: chain walks *)

Lemma chain_in_parent par a l r : Chain par a l r -> forall x, In x l -> exists b, nth x par None = Some b.
Proof.
  induction 1 as [r Hr|a b l r Hab Hc IH]; intros x Hx; [destruct Hx|].
  destruct Hx as [<-|Hx]; [exists b; exact Hab|apply IH, Hx].
Qed.

Lemma chain_len_bound n par a l r :
  (forall x b, nth x par None = Some b -> (x < n)%nat) -> Chain par a l r -> (length l <= n)%nat.
Proof.
  intros Hpar Hc. destruct (chain_nodup _ _ _ _ Hc) as [Hnd _].
  rewrite <- (seq_length n 0). apply NoDup_incl_length; [exact Hnd|].
  intros x Hx. destruct (chain_in_parent _ _ _ _ Hc x Hx) as (b & Hb). apply in_seq. specialize (Hpar x b Hb). lia.
Qed.

Lemma walk1_body_fail s w e : walk1_body s w = Done (Fail e) -> ~ okf e.
Proof.
  destruct w as [cur mq]. unfold walk1_body. destruct (nth cur (parent s) None) as [b|]; [|discriminate].
  unfold sent_source. destruct (getq (queues s) cur b) as [|e0 t0].
  - intros [= <-]. exact (fun H => H).
  - destruct (_ >? 0); [discriminate|]. intros [= <-]. exact (fun H => H).
Qed.

Lemma walk1_terminates s p sink q l r :
  Chain (parent s) sink l r -> (length l < Pos.to_nat p)%nat -> exists res, loopP p (walk1_body s) (sink, q) = Done res.
Proof.
  intros Hc Hl.
  apply (loopP_done (fun k (w : nat * Z) => exists l r, Chain (parent s) (fst w) l r /\ length l = k)
                    (walk1_body s)) with (k := length l); [|exists l, r; split; [exact Hc|reflexivity]|exact Hl].
  intros k [cur mq] (l0 & r0 & Hc0 & El0). cbn [fst] in Hc0. unfold walk1_body.
  destruct (nth cur (parent s) None) as [b|] eqn:Ep; [|exact I].
  destruct (sent_source 521 (queues s) cur b) as [top|e]; [|exact I].
  destruct (_ >? 0); [|exact I].
  inversion Hc0 as [? Hr|? b' l' ? Hab Hc']; subst; [congruence|].
  assert (b' = b) by congruence. subst b'.
  exists (length l'). split; [cbn; lia|]. exists l', r0. split; [exact Hc'|reflexivity].
Qed.

Lemma walk2_step_fail pb rm mx w b e : walk2_step pb rm mx w b = Fail e -> ~ okf e.
Proof.
  unfold walk2_step. destruct (negb _); [intros [= <-]; exact (fun H => H)|].
  unfold moving_cost at 1. destruct (_ =? _)%nat; cbn [bind].
  2:{ destruct (getq (w_qs w) (w_snk w) b) as [|e0 t0]; cbn [bind]; [intros [= <-]; exact (fun H => H)|].
      revert e. generalize (fst e0). intros oc e.
      unfold update_dest_queues. destruct (negb _); cbn [bind].
      - unfold sent_source. destruct (getq _ _ _) as [|e1 t1]; cbn [bind]; [intros [= <-]; exact (fun H => H)|].
        destruct (moving_cost 541 _ _ _) as [nc|e2] eqn:E2; cbn [bind]; [discriminate|].
        intros [= <-]. unfold moving_cost in E2. destruct (_ =? _)%nat; [discriminate|].
        destruct (getq _ _ _); [injection E2 as <-; exact (fun H => H)|discriminate].
      - destruct (existsb _ _); cbn [bind]; [intros [= <-]; exact (fun H => H)|].
        unfold sent_source. destruct (getq _ _ _) as [|e1 t1]; cbn [bind]; [intros [= <-]; exact (fun H => H)|].
        destruct (moving_cost 541 _ _ _) as [nc|e2] eqn:E2; cbn [bind]; [discriminate|].
        intros [= <-]. unfold moving_cost in E2. destruct (_ =? _)%nat; [discriminate|].
        destruct (getq _ _ _); [injection E2 as <-; exact (fun H => H)|discriminate]. }
  unfold update_dest_queues. destruct (negb _); cbn [bind].
  - unfold sent_source. destruct (getq _ _ _) as [|e1 t1]; cbn [bind]; [intros [= <-]; exact (fun H => H)|].
    destruct (moving_cost 541 _ _ _) as [nc|e2] eqn:E2; cbn [bind]; [discriminate|].
    intros [= <-]. unfold moving_cost in E2. destruct (_ =? _)%nat; [discriminate|].
    destruct (getq _ _ _); [injection E2 as <-; exact (fun H => H)|discriminate].
  - destruct (existsb _ _); cbn [bind]; [intros [= <-]; exact (fun H => H)|].
    unfold sent_source. destruct (getq _ _ _) as [|e1 t1]; cbn [bind]; [intros [= <-]; exact (fun H => H)|].
    destruct (moving_cost 541 _ _ _) as [nc|e2] eqn:E2; cbn [bind]; [discriminate|].
    intros [= <-]. unfold moving_cost in E2. destruct (_ =? _)%nat; [discriminate|].
    destruct (getq _ _ _); [injection E2 as <-; exact (fun H => H)|discriminate].
Qed.

Lemma walk2_step_snk pb rm mx w b w' : walk2_step pb rm mx w b = Ok w' -> w_snk w' = b.
Proof.
  unfold walk2_step. destruct (negb _); [discriminate|].
  destruct (moving_cost 535 _ _ _); cbn [bind]; [|discriminate].
  destruct (update_dest_queues _ _ _ _ _); cbn [bind]; [|discriminate].
  destruct (sent_source 538 _ _ _); cbn [bind]; [|discriminate].
  destruct (moving_cost 541 _ _ _); cbn [bind]; [|discriminate].
  intros [= <-]. reflexivity.
Qed.

Lemma walk2_terminates pb par rm mx p w l r :
  Chain par (w_snk w) l r -> (length l < Pos.to_nat p)%nat ->
  exists res, loopP p (walk2_body pb par rm mx) w = Done res.
Proof.
  intros Hc Hl.
  apply (loopP_done (fun k (w : W2) => exists l r, Chain par (w_snk w) l r /\ length l = k)
                    (walk2_body pb par rm mx)) with (k := length l); [|exists l, r; split; [exact Hc|reflexivity]|exact Hl].
  intros k w0 (l0 & r0 & Hc0 & El0). unfold walk2_body.
  destruct (nth (w_snk w0) par None) as [b|] eqn:Ep; [|exact I].
  destruct (walk2_step pb rm mx w0 b) as [w1|e] eqn:Es; [|exact I].
  inversion Hc0 as [? Hr|? b' l' ? Hab Hc']; subst; [congruence|].
  assert (b' = b) by congruence. subst b'. apply walk2_step_snk in Es.
  exists (length l'). split; [cbn; lia|]. exists l', r0. rewrite Es. split; [exact Hc'|reflexivity].
Qed.

Lemma chain_fuel_enough n (l : list nat) : (length l <= n)%nat -> (length l < Pos.to_nat (chain_fuel n))%nat.
Proof. intros H. unfold chain_fuel. rewrite SuccNat2Pos.id_succ. lia. Qed.

(* ================================================================== Part B: the second walk *)

Section Walk2Opt.
Variable pb : Pb.
Let n := nsnk pb.
Let m := nsrc pb.
Hypothesis Hcaps : forall j, (j < n)%nat -> 0 < cap_f pb j.
Hypothesis Hcost : forall j i, 0 <= cost pb j i < INT_MAX.
Variables (s : St) (src sink root : nat) (l : list nat) (mx : Z).
Hypothesis HI : Inv pb s.
Hypothesis HQ2 : Q2inv pb (rem s) (queues s).
Hypothesis HT : Tight (queues s) (scost s) (parent s).
Hypothesis HP : Pot pb (alloc s) (rem s) (getZ (scost s)).
Hypothesis Hchain : Chain (parent s) sink l root.
Hypothesis Hmx : 0 < mx.
Hypothesis Hgood : forall a, In a l -> good s mx a.
Hypothesis Hsrc : (src < m)%nat.
Hypothesis Hsink : (sink < n)%nat.
Hypothesis Hbest : forall k, (k < n)%nat ->
  getZ (scost s) sink + cost pb sink src <= getZ (scost s) k + cost pb k src.

Notation sc a := (getZ (scost s) a).

Record P2 (w : W2) : Prop := {
  p_snk : (w_snk w < n)%nat;
  p_pos : forall j k i, (j < n)%nat -> (k < n)%nat -> (i < m)%nat -> 0 < get2 (w_al w) j i ->
          sc j + cost pb j i <= sc k + cost pb k i;
  p_tr : forall k, (k < n)%nat -> sc (w_snk w) + cost pb (w_snk w) (w_src w) <= sc k + cost pb k (w_src w);
  p_q2 : Q2inv pb (rem s) (w_qs w);
  p_tight : w_upd w = false -> Tight (w_qs w) (scost s) (parent s) }.

Lemma topc_row qs qs' a b : nth a qs' [] = nth a qs [] -> topc qs' a b = topc qs a b.
Proof. intros E. unfold topc, getq. rewrite E. reflexivity. Qed.

Lemma walk2_step_P2 w b w' :
  K pb s src root l mx w -> length (w_qs w) = n -> Qinv pb (w_al w) (rem s) (w_qs w) -> P2 w ->
  nth (w_snk w) (parent s) None = Some b -> walk2_step pb (rem s) mx w b = Ok w' ->
  K pb s src root l mx w' /\ length (w_qs w') = n /\ Qinv pb (w_al w') (rem s) (w_qs w') /\ P2 w'.
Proof.
  intros HK Hlq HQw HP2 Hp Es.
  pose proof (walk2_step_safe pb Hcaps s src sink root l mx w b HI Hchain Hmx Hgood Hsrc HK Hlq HQw Hp) as Hsafe.
  rewrite Es in Hsafe. cbn [safe] in Hsafe. destruct Hsafe as (HK' & Hlq' & HQw').
  split; [exact HK'|]. split; [exact Hlq'|]. split; [exact HQw'|].
  pose proof HI as ((Hsh & Hlr & Hpos & Hrs & Hrem) & Hlq0 & HQ & (T1 & T2 & T3)).
  destruct HP2 as [Psnk Ppos Ptr Pq2 Ptight].
  destruct w as [wal wqs a wsrc wupd]. cbn [w_al w_qs w_snk w_src w_upd] in *.
  destruct HK as (pre & post & El & Hc & Hshw & Hposw & Hrows & Hrsw & Hcsw & Hws).
  cbn [w_al w_qs w_snk w_src w_upd] in *.
  destruct (T1 a b Hp) as (Ha & Hb & Hab & Hra & Hfb).
  assert (Hnotin : ~ In a pre).
  { destruct (chain_nodup _ _ _ _ Hchain) as [Hnd _]. rewrite El in Hnd.
    inversion Hc as [? Hr|? b' post' ? Hab' Hc']; subst; [congruence|].
    apply NoDup_remove_2 in Hnd. intros Hin. apply Hnd, in_app_iff. left; exact Hin. }
  destruct (Hrows a Hnotin) as [Era Erq].
  assert (Haq : (a < length wqs)%nat) by lia.
  pose proof (HQw a Ha Hra) as HQa. destruct HQa as (Q1 & Q2 & Q3).
  pose proof (Pq2 a Ha Hra) as HQ2a.
  unfold walk2_step in Es. cbn [w_al w_qs w_snk w_src w_upd] in Es.
  destruct (negb (getZ (rem s) a =? 0)); [discriminate|].
  unfold moving_cost at 1 in Es. destruct (Nat.eqb_spec a b) as [|_]; [contradiction|].
  destruct (getq wqs a b) as [|e0 t0] eqn:Eq0; [discriminate|]. cbn [bind] in Es.
  destruct (update_dest_queues pb wal wqs a wsrc) as [qs1|] eqn:Ed; [|discriminate]. cbn [bind] in Es.
  unfold sent_source at 1 in Es. destruct (getq qs1 a b) as [|e1 t1] eqn:Eq1; [discriminate|]. cbn [bind] in Es.
  set (al1 := upd2 wal a wsrc (get2 wal a wsrc + mx)) in *.
  set (al2 := upd2 al1 a (snd e1) (get2 al1 a (snd e1) - mx)) in *.
  set (qs2 := update_sink_queues al2 qs1 a (snd e1)) in *.
  unfold moving_cost in Es. destruct (Nat.eqb_spec a b) as [|_]; [contradiction|].
  destruct (getq qs2 a b) as [|e2 t2] eqn:Eq2; [discriminate|]. cbn [bind] in Es.
  injection Es as <-. cbn [w_al w_qs w_snk w_src w_upd] in *.
  destruct HK' as (pre' & post'' & _ & _ & Hshw' & Hposw' & _).
  cbn [w_al w_qs w_snk w_src w_upd] in *.
  assert (Hsh1 : shape n m al1) by (apply upd2_shape, Hshw).
  assert (G1 : forall j i, get2 al1 j i = if ((j =? a) && (i =? wsrc))%nat then get2 wal a wsrc + mx else get2 wal j i).
  { intros j i. unfold al1. apply (get2_upd2 n m); assumption. }
  (* the queue (a,b) after the push *)
  pose proof (getq_dest pb wal wqs a wsrc qs1 b Ed Haq Q1 Hb ltac:(congruence)) as Hq1.
  rewrite Eq1, Eq0 in Hq1.
  assert (He1 : fst e1 <= fst e0 /\ 0 < get2 al1 a (snd e1)).
  { assert (Hold : 0 < get2 al1 a (snd e0)).
    { pose proof (Q3 b e0 t0 Hb ltac:(congruence) Eq0) as Hnz. pose proof (Hposw a (snd e0)).
      rewrite G1. rewrite Nat.eqb_refl. cbn [andb]. destruct (_ =? _)%nat; [specialize (Hposw a wsrc)|]; lia. }
    destruct (get2 wal a wsrc =? 0).
    - split; [exact (q_push_top_le _ _ _ _ _ (eq_sym Hq1))|].
      symmetry in Hq1. apply q_push_head in Hq1. destruct Hq1 as [->|(t' & [= <- _])]; [|exact Hold].
      cbn [snd]. rewrite G1, !Nat.eqb_refl. cbn [andb]. specialize (Hposw a wsrc). lia.
    - injection Hq1 as -> _. split; [lia|exact Hold]. }
  destruct He1 as [Hle10 Hal1].
  destruct (get2_inrange n m al1 a (snd e1) Hsh1 ltac:(lia)) as [_ He1m].
  assert (G2 : forall j i, get2 al2 j i = if ((j =? a) && (i =? snd e1))%nat then get2 al1 a (snd e1) - mx else get2 al1 j i).
  { intros j i. unfold al2. apply (get2_upd2 n m); assumption. }
  (* lengths *)
  assert (Haq1 : (a < length qs1)%nat).
  { revert Ed. unfold update_dest_queues. destruct (negb _); [intros [= <-]; exact Haq|].
    destruct (existsb _ _); [discriminate|]. intros [= <-]. rewrite upd_length. exact Haq. }
  assert (Hl1 : length (nth a qs1 []) = n).
  { rewrite (dest_queues_row pb _ _ _ _ _ Ed Haq). destruct (_ =? 0); [rewrite mapi_from_length|]; exact Q1. }
  pose proof (dest_queues_Q2row pb wal wqs a wsrc qs1 Ed Haq Q1 HQ2a) as HQ2a1.
  pose proof (sink_queues_Q2row pb al2 qs1 a (snd e1) Haq1 Hl1 HQ2a1) as HQ2a2. fold qs2 in HQ2a2.
  (* tags *)
  assert (Tag1 : fst e1 = pmoving pb (snd e1) a b).
  { destruct (HQ2a1 b Hb ltac:(congruence)) as [_ Ht]. apply Ht. rewrite Eq1. left; reflexivity. }
  assert (Tag2 : fst e2 = pmoving pb (snd e2) a b).
  { destruct (HQ2a2 b Hb ltac:(congruence)) as [_ Ht]. apply Ht. rewrite Eq2. left; reflexivity. }
  (* positive entries of al1 satisfy the potential inequality *)
  assert (Ppos1 : forall j k i, (j < n)%nat -> (k < n)%nat -> (i < m)%nat -> 0 < get2 al1 j i ->
                    sc j + cost pb j i <= sc k + cost pb k i).
  { intros j k i Hj Hk Hi. rewrite G1.
    destruct (Nat.eqb_spec j a) as [->|_]; cbn [andb]; [|apply Ppos; assumption].
    destruct (Nat.eqb_spec i wsrc) as [->|_]; [intros _; apply Ptr, Hk|apply Ppos; assumption]. }
  (* the old tree edge a -> b is tight and e1 realises it *)
  assert (Htight0 : sc a = fst e0 + sc b).
  { rewrite (HT a b Hp). f_equal. unfold topc, getq. rewrite <- Erq. fold (getq wqs a b). rewrite Eq0. reflexivity. }
  pose proof (Ppos1 a b (snd e1) Ha Hb He1m Hal1) as Hpb. unfold pmoving in Tag1.
  assert (Hreal : sc a + cost pb a (snd e1) = sc b + cost pb b (snd e1)) by lia.
  assert (Ppos2 : forall j k i, (j < n)%nat -> (k < n)%nat -> (i < m)%nat -> 0 < get2 al2 j i ->
                    sc j + cost pb j i <= sc k + cost pb k i).
  { intros j k i Hj Hk Hi. rewrite G2. destruct ((j =? a)%nat && (i =? snd e1)%nat) eqn:E.
    - apply andb_true_iff in E. destruct E as [E1 E2]. apply Nat.eqb_eq in E1, E2. subst j i.
      intros _. apply Ppos1; assumption.
    - apply Ppos1; assumption. }
  (* rows other than a *)
  assert (Hrow_other : forall j, j <> a -> nth j qs2 [] = nth j wqs []).
  { intros j Hj. unfold qs2. rewrite sink_queues_rows by exact Hj.
    destruct (dest_queues_spec _ _ _ _ _ _ Ed) as [Hd1 _]. apply Hd1, Hj. }
  constructor; cbn [w_al w_qs w_snk w_src w_upd].
  - exact Hb.
  - exact Ppos2.
  - intros k Hk. pose proof (Ppos1 a k (snd e1) Ha Hk He1m Hal1). lia.
  - intros j Hj Hrj. destruct (Nat.eq_dec j a) as [->|Hne]; [exact HQ2a2|].
    apply (Q2row_ext pb wqs); [apply Hrow_other, Hne|apply Pq2; assumption].
  - intros Hu. apply orb_false_iff in Hu. destruct Hu as [Hu1 Hu2]. specialize (Ptight Hu1).
    rewrite Z.gtb_ltb in Hu2. apply Z.ltb_ge in Hu2.
    intros x y Hxy. destruct (Nat.eq_dec x a) as [->|Hne].
    + assert (y = b) by congruence. subst y.
      unfold topc at 1. rewrite Eq2.
      destruct (HQw' a Ha Hra) as (_ & _ & Q3'). pose proof (Q3' b e2 t2 Hb ltac:(congruence) Eq2) as Hnz2.
      assert (Hal2 : 0 < get2 al2 a (snd e2)) by (specialize (Hposw' a (snd e2)); lia).
      destruct (get2_inrange n m al2 a (snd e2) Hshw' Hnz2) as [_ He2m].
      pose proof (Ppos2 a b (snd e2) Ha Hb He2m Hal2). unfold pmoving in Tag2. lia.
    + rewrite (topc_row wqs qs2 x y (Hrow_other x Hne)). apply Ptight, Hxy.
Qed.

Lemma walk2_opt p w :
  run_loop 532 p (walk2_body pb (parent s) (rem s) mx) (mkW2 (alloc s) (queues s) sink src false) = Ok w ->
  length (w_qs w) = n /\ Qinv pb (w_al w) (rem s) (w_qs w) /\ P2 w.
Proof.
  intros H.
  pose proof HI as ((Hsh & Hlr & Hpos & Hrs & Hrem) & Hlq0 & HQ & HTi).
  apply (run_loop_inv
    (fun w => K pb s src root l mx w /\ length (w_qs w) = n /\ Qinv pb (w_al w) (rem s) (w_qs w) /\ P2 w)
    (fun w => length (w_qs w) = n /\ Qinv pb (w_al w) (rem s) (w_qs w) /\ P2 w)) in H.
  - exact H.
  - split; [|split; [exact Hlq0|split; [exact HQ|]]].
    + exists [], l. cbn [w_al w_qs w_snk w_src].
      split; [reflexivity|]. split; [exact Hchain|]. split; [exact Hsh|]. split; [exact Hpos|].
      split; [intros; split; reflexivity|]. split; [reflexivity|]. split; [reflexivity|exact Hsrc].
    + constructor; cbn [w_al w_qs w_snk w_src w_upd].
      * exact Hsink.
      * destruct HP as (_ & _ & P3). exact P3.
      * exact Hbest.
      * exact HQ2.
      * intros _. exact HT.
  - intros w0 (HK & Hl & HQw & HP2). unfold walk2_body.
    destruct (nth (w_snk w0) (parent s) None) as [b|] eqn:Ep; [|tauto].
    destruct (walk2_step pb (rem s) mx w0 b) as [w1|e] eqn:Es; [|exact I].
    exact (walk2_step_P2 w0 b w1 HK Hl HQw HP2 Ep Es).
Qed.
End Walk2Opt.

(* ================================================================== Part C: sendSource(src, sink, quantity) *)

Section Send.
Variable pb : Pb.
Let n := nsnk pb.
Let m := nsrc pb.
Hypothesis Hcaps : forall j, (j < n)%nat -> 0 < cap_f pb j.
Hypothesis Hcost : forall j i, 0 <= cost pb j i < INT_MAX.

Definition anyfree (rm : list Z) : Prop := exists f, (f < n)%nat /\ 0 < getZ rm f.

Lemma anyfree_dec rm : anyfree rm \/ ~ anyfree rm.
Proof.
  unfold anyfree. generalize n. intros k. induction k as [|k IH].
  - right. intros (f & Hf & _). lia.
  - destruct IH as [(f & Hf & Hp)|Hno]; [left; exists f; split; [lia|exact Hp]|].
    destruct (Z.lt_ge_cases 0 (getZ rm k)) as [Hk|Hk]; [left; exists k; split; [lia|exact Hk]|].
    right. intros (f & Hf & Hp). destruct (Nat.eq_dec f k) as [->|]; [lia|]. apply Hno. exists f. split; [lia|exact Hp].
Qed.

(* the part of the solver-wide invariant that carries optimality *)
Record Jinv (s : St) : Prop := {
  j_q2 : Q2inv pb (rem s) (queues s);
  j_acyc : Acyc pb (parent s);
  j_tight : Tight (queues s) (scost s) (parent s);
  j_pot : exists d, Pot pb (alloc s) (rem s) d /\
                    (anyfree (rem s) -> forall j, (j < n)%nat -> d j = getZ (scost s) j) }.

Lemma Jinv_pot s : Jinv s -> anyfree (rem s) -> Pot pb (alloc s) (rem s) (getZ (scost s)).
Proof.
  intros J Hf. destruct (j_pot s J) as (d & Hd & E). apply (Pot_ext pb _ _ d); [|exact Hd].
  intros j Hj. symmetry. apply E; assumption.
Qed.

Lemma send3F tf s src sink q :
  Inv pb s -> Jinv s -> (src < m)%nat -> 0 < q -> (sink < n)%nat -> getZ (scost s) sink < INT_MAX ->
  Pot pb (alloc s) (rem s) (getZ (scost s)) ->
  (forall k, (k < n)%nat -> getZ (scost s) sink + cost pb sink src <= getZ (scost s) k + cost pb k src) ->
  match send_source3F tf pb s src sink q with
  | Ok (s', sent) =>
      Inv pb s' /\ Jinv s' /\ free_total pb (rem s') = free_total pb (rem s) - sent /\ 0 < sent <= q /\
      forall i, (i < m)%nat -> colsum n (alloc s') i = colsum n (alloc s) i + delta i src * sent
  | Fail e => e = EFuel 483%nat /\ ~ (big_fuel n <= tf n)%positive
  end.
Proof.
  intros HI HJ Hsrc Hq Hsink Hfin HP Hbest.
  pose proof HI as ((Hsh & Hlr & Hpos & Hrs & Hrem) & Hlq0 & HQ & HT).
  pose proof HT as (T1 & T2 & T3).
  unfold send_source3F. destruct (Z.gtb_spec q 0) as [_|]; [|lia]. cbn [negb].
  (* first walk: ends, does not fail *)
  destruct (j_acyc s HJ sink Hsink) as (l & root & Hch).
  assert (Hlen : (length l <= n)%nat).
  { apply (chain_len_bound n (parent s) sink l root); [|exact Hch]. intros x b Hxb. apply (T1 x b Hxb). }
  assert (E1 : exists m1, run_loop 519 (chain_fuel (nsnk pb)) (walk1_body s) (sink, q) = Ok (root, m1)).
  { pose proof (walk1_safe pb Hcaps s sink q (chain_fuel (nsnk pb)) HI Hq) as Hs1.
    destruct (walk1_terminates s (chain_fuel (nsnk pb)) sink q l root Hch (chain_fuel_enough _ _ Hlen)) as (r1 & Er1).
    pose proof (loopP_inv (fun _ => True) (fun r : res (nat * Z) => forall e, r = Fail e -> ~ okf e) (walk1_body s)) as Hf.
    specialize (Hf ltac:(intros w _; destruct (walk1_body s w) as [w'|r] eqn:E; [exact I|];
                         intros e ->; exact (walk1_body_fail _ _ _ E)) (chain_fuel (nsnk pb)) (sink, q) I).
    rewrite Er1 in Hf.
    assert (Erl : run_loop 519 (chain_fuel (nsnk pb)) (walk1_body s) (sink, q) = r1) by (unfold run_loop; rewrite Er1; reflexivity).
    rewrite Erl in Hs1.
    destruct r1 as [[root' m1]|e]; [|exfalso; exact (Hf e eq_refl Hs1)].
    destruct (walk1_spec _ _ _ _ _ _ Hq Erl) as (l' & Hch' & _).
    destruct (chain_det _ _ _ _ Hch _ _ Hch') as [_ <-]. exists m1. exact Erl. }
  destruct E1 as (m1 & E1). rewrite E1. cbn [bind].
  destruct (walk1_spec _ _ _ _ _ _ Hq E1) as (l' & Hch' & Hm1 & Hgood).
  destruct (chain_det _ _ _ _ Hch _ _ Hch') as [<- _]. clear Hch'.
  destruct (chain_root_free pb _ _ _ _ _ _ HT Hch Hsink Hfin) as [Hroot Hfree].
  set (mx := Z.min m1 (getZ (rem s) root)).
  assert (Hmx1 : mx <= m1) by apply Z.le_min_l.
  assert (Hmx2 : mx <= getZ (rem s) root) by apply Z.le_min_r.
  assert (Hmx : 0 < mx) by (unfold mx; lia).
  clearbody mx.
  destruct (Z.gtb_spec mx 0) as [_|]; [|lia]. cbn [negb].
  assert (Hgood' : forall a, In a l -> good s mx a).
  { intros a Ha b e t H1 H2. specialize (Hgood a Ha b e t H1 H2). lia. }
  (* second walk: ends, does not fail *)
  assert (E2 : exists w, run_loop 532 (chain_fuel (nsnk pb)) (walk2_body pb (parent s) (rem s) mx)
                                  (mkW2 (alloc s) (queues s) sink src false) = Ok w).
  { pose proof (walk2_safe pb Hcaps s src sink root l mx (chain_fuel (nsnk pb)) HI Hch Hmx Hgood' Hsrc) as Hs2.
    destruct (walk2_terminates pb (parent s) (rem s) mx (chain_fuel (nsnk pb)) (mkW2 (alloc s) (queues s) sink src false)
                l root Hch (chain_fuel_enough _ _ Hlen)) as (r2 & Er2).
    pose proof (loopP_inv (fun _ => True) (fun r : res W2 => forall e, r = Fail e -> ~ okf e)
                          (walk2_body pb (parent s) (rem s) mx)) as Hf.
    specialize (Hf ltac:(intros w _; unfold walk2_body; destruct (nth (w_snk w) (parent s) None) as [b|];
                         [destruct (walk2_step pb (rem s) mx w b) as [w'|e0] eqn:E; [exact I|];
                          intros e [= <-]; exact (walk2_step_fail _ _ _ _ _ _ E)
                         |intros e; discriminate])
                  (chain_fuel (nsnk pb)) (mkW2 (alloc s) (queues s) sink src false) I).
    rewrite Er2 in Hf.
    assert (Erl : run_loop 532 (chain_fuel (nsnk pb)) (walk2_body pb (parent s) (rem s) mx)
                    (mkW2 (alloc s) (queues s) sink src false) = r2) by (unfold run_loop; rewrite Er2; reflexivity).
    rewrite Erl in Hs2.
    destruct r2 as [w|e]; [exists w; exact Erl|exfalso; exact (Hf e eq_refl Hs2)]. }
  destruct E2 as (w & E2). rewrite E2. cbn [bind].
  destruct (walk2_spec pb s src sink root l mx Hsh Hpos Hch Hmx Hgood' Hsrc _ _ E2)
    as (Ew & Hshw & Hposw & Hrsw & Hcsw & Hws).
  destruct (walk2_opt pb Hcaps s src sink root l mx HI (j_q2 s HJ) (j_tight s HJ) HP Hch Hmx Hgood' Hsrc Hsink Hbest _ _ E2)
    as (Hlqw & HQw & HP2).
  destruct HP2 as [_ Ppos Ptr Pq2 Ptight]. rewrite Ew in *.
  set (al := upd2 (w_al w) root (w_src w) (get2 (w_al w) root (w_src w) + mx)).
  set (rm := upd (rem s) root (getZ (rem s) root - mx)).
  assert (Erm : forall j, getZ rm j = if (j =? root)%nat then getZ (rem s) root - mx else getZ (rem s) j).
  { intros j. unfold rm, getZ. destruct (Nat.eqb_spec j root) as [->|Hne]; [apply nth_upd_eq; lia|apply nth_upd_neq; congruence]. }
  remember (getZ rm root =? 0) as full eqn:Efull.
  set (qs := if full then init_queues pb al (w_qs w) root else w_qs w).
  assert (Gal : forall j i, get2 al j i = if ((j =? root) && (i =? w_src w))%nat
                                          then get2 (w_al w) root (w_src w) + mx else get2 (w_al w) j i).
  { intros j i. unfold al. apply (get2_upd2 (nsnk pb) (nsrc pb)); assumption. }
  assert (HG1 : forall sc par, G pb (mkSt al rm sc par qs)).
  { intros sc par. unfold G. cbn [alloc rem].
    split; [apply upd2_shape, Hshw|]. split; [unfold rm; rewrite upd_length; exact Hlr|].
    split; [|split].
    - intros j i. rewrite Gal.
      destruct ((j =? root)%nat && (i =? w_src w)%nat); [specialize (Hposw root (w_src w)); lia|apply Hposw].
    - intros j Hj. unfold al. rewrite (rowsum_upd2 (nsnk pb) (nsrc pb)) by assumption.
      rewrite Hrsw by exact Hj. specialize (Hrs j Hj). rewrite Erm.
      destruct (Nat.eqb_spec j root) as [->|Hne]; lia.
    - intros j. rewrite Erm. destruct (Nat.eqb_spec j root) as [->|Hne]; [lia|apply Hrem]. }
  assert (Hlq1 : length qs = n).
  { unfold qs. destruct full; [|exact Hlqw]. unfold init_queues. rewrite upd_length. exact Hlqw. }
  assert (HQ1 : Qinv pb al rm qs).
  { intros a Ha Hra. rewrite Erm in Hra. destruct (Nat.eqb_spec a root) as [->|Hne].
    - assert (Ef : full = true) by (rewrite Efull, Erm, Nat.eqb_refl; apply Z.eqb_eq, Hra).
      unfold qs. rewrite Ef. apply init_queues_Qrow. fold n in Hlqw. lia.
    - apply (Qrow_ext pb (w_al w) (w_qs w)); [| |apply HQw; assumption].
      + unfold al. apply row_upd2_other, Hne.
      + unfold qs. destruct full; [apply init_queues_rows, Hne|reflexivity]. }
  assert (HQ21 : Q2inv pb rm qs).
  { intros a Ha Hra. rewrite Erm in Hra. destruct (Nat.eqb_spec a root) as [->|Hne].
    - assert (Ef : full = true) by (rewrite Efull, Erm, Nat.eqb_refl; apply Z.eqb_eq, Hra).
      unfold qs. rewrite Ef. apply init_queues_Q2row. fold n in Hlqw. lia.
    - apply (Q2row_ext pb (w_qs w)); [|apply Pq2; assumption].
      unfold qs. destruct full; [apply init_queues_rows, Hne|reflexivity]. }
  assert (Eft : free_total pb rm = free_total pb (rem s) - mx).
  { unfold free_total. rewrite (zsum_point (getZ rm) (getZ (rem s)) (seq 0 (nsnk pb)) root).
    - rewrite Erm, Nat.eqb_refl. lia.
    - apply seq_NoDup.
    - apply in_seq. lia.
    - intros j _ Hj. rewrite Erm. destruct (Nat.eqb_spec j root); [contradiction|reflexivity]. }
  (* the old labels are still potentials of the new allocation *)
  assert (HPot1 : Pot pb al rm (getZ (scost s))).
  { destruct HP as (P1 & P2 & _). split; [exact P1|]. split.
    - intros j Hj Hf. apply P2; [exact Hj|]. rewrite Erm in Hf. destruct (Nat.eqb_spec j root) as [->|_]; lia.
    - intros j k i Hj Hk Hi. rewrite Gal. destruct ((j =? root)%nat && (i =? w_src w)%nat) eqn:E.
      + apply andb_true_iff in E. destruct E as [Ej Ei]. apply Nat.eqb_eq in Ej, Ei. subst j i.
        intros _. apply Ptr, Hk.
      + apply Ppos; assumption. }
  assert (Hcol : forall i, (i < nsrc pb)%nat -> colsum (nsnk pb) al i = colsum (nsnk pb) (alloc s) i + delta i src * mx).
  { intros i Hi. unfold al. rewrite (colsum_upd2 (nsnk pb) (nsrc pb)) by assumption.
    specialize (Hcsw i Hi). unfold delta in *. destruct (i =? w_src w)%nat; lia. }
  destruct (w_upd w || full) eqn:Eu.
  - (* updateTree *)
    destruct (HG1 (scost s) (parent s)) as (Gsh & Glr & Gpos & Grs & Grem). cbn [alloc rem] in *.
    pose proof (update_treeF_spec pb Hcaps Hcost al rm qs (getZ (scost s)) Gsh Gpos Grs Grem Glr HQ1 HQ21 HPot1
                  tf (scost s) (parent s)) as H3.
    destruct (update_treeF tf _) as [s2|e3]; cbn [bind]; [|exact H3].
    destruct H3 as (Ea & Er & Eq & HT2 & HTi2 & HAc2 & HPot2).
    split; [|split; [|split; [rewrite Er; exact Eft|split; [lia|rewrite Ea; exact Hcol]]]].
    + unfold Inv, G. rewrite Ea, Er, Eq. split; [exact (HG1 [] [])|]. split; [exact Hlq1|]. split; [exact HQ1|exact HT2].
    + constructor; rewrite ?Ea, ?Er, ?Eq; try assumption.
      destruct (anyfree_dec rm) as [Hf|Hnf].
      * exists (getZ (scost s2)). split; [exact (HPot2 Hf)|]. intros _ j _. reflexivity.
      * exists (getZ (scost s)). split; [exact HPot1|]. intros Hf. contradiction.
  - (* the tree is kept *)
    cbn [bind]. apply orb_false_iff in Eu. destruct Eu as [Eupd Ef0].
    assert (Eqs : qs = w_qs w) by (unfold qs; rewrite Ef0; reflexivity).
    assert (Ef : getZ (rem s) root - mx <> 0).
    { rewrite Ef0 in Efull. symmetry in Efull. apply Z.eqb_neq in Efull. rewrite Erm, Nat.eqb_refl in Efull. exact Efull. }
    split; [|split; [|split; [exact Eft|split; [lia|exact Hcol]]]].
    + unfold Inv. cbn [alloc rem queues scost parent]. split; [exact (HG1 _ _)|]. split; [exact Hlq1|]. split; [exact HQ1|].
      split; [|split].
      * intros a b H. destruct (T1 a b H) as (Ha & Hb & Hab & Hra & Hfb). repeat split; try assumption.
        rewrite Erm. destruct (Nat.eqb_spec a root) as [->|_]; [lia|exact Hra].
      * intros a Ha Hf Hp. specialize (T2 a Ha Hf Hp). rewrite Erm.
        destruct (Nat.eqb_spec a root) as [->|_]; [lia|exact T2].
      * intros a Ha Hfr. rewrite Erm in Hfr. apply T3; [exact Ha|].
        destruct (Nat.eqb_spec a root) as [->|_]; [lia|exact Hfr].
    + constructor; cbn [alloc rem queues scost parent].
      * exact HQ21.
      * exact (j_acyc s HJ).
      * rewrite Eqs. exact (Ptight Eupd).
      * exists (getZ (scost s)). split; [exact HPot1|]. intros _ j _. reflexivity.
Qed.
End Send.
