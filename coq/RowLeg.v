(* Model of coloquinte::RowLegalizer (src/place_detailed/row_legalizer.{hpp,cpp}),
   line by line.  The std::priority_queue<Bound> is a list sorted max-first:
   exact, because Bound::operator< is a total order in which equal keys are
   equal records. *)
From Coq Require Import List ZArith Lia Bool.
Import ListNotations.
Local Open Scope Z_scope.

Record bound := { bpos : Z; bw : Z }.
Definition bound_lt (a b : bound) : bool :=
  (bpos a <? bpos b) || ((bpos a =? bpos b) && (bw a <? bw b)).

(* bounds.push(b) *)
Fixpoint pq_insert (b : bound) (q : list bound) : list bound :=
  match q with
  | [] => [b]
  | x :: q' => if bound_lt x b then b :: q else x :: pq_insert b q'
  end.

Record rl := { rbegin : Z; rend : Z;
               cpos : list Z   (* constrainingPos_, newest first *);
               widths : list Z (* cell widths, newest first; cumWidth_ = partial sums *);
               used : Z        (* cumWidth_.back() *);
               bounds : list bound }.

Definition rl_init (b e : Z) : rl :=
  {| rbegin := b; rend := e; cpos := []; widths := []; used := 0; bounds := [] |}.

Definition remaining_space (s : rl) : Z := rend s - rbegin s - used s.

(* the while loop of getDisplacement; structural on the queue.  Returns the
   remaining queue, the popped bounds in pop order (passed_bounds), slope,
   cur_pos, cur_cost *)
Fixpoint pop_loop (q : list bound) (targetAbs limit width : Z) (passed : list bound)
         (slope cur_pos cost : Z) : list bound * list bound * Z * Z * Z :=
  match q with
  | [] => (q, passed, slope, cur_pos, cost)
  | t :: q' =>
    if ((slope <? 0) && (targetAbs <? bpos t)) || (limit <? bpos t) then
      let cost' := cost + (cur_pos - bpos t) * (slope + width) in
      pop_loop q' targetAbs limit width (passed ++ [t]) (slope + bw t) (bpos t) cost'
    else (q, passed, slope, cur_pos, cost)
  end.

(* getDisplacement(width, targetPos, update) : new state and returned cost *)
Definition get_displacement (s : rl) (width targetPos : Z) (update : bool) : rl * Z :=
  let targetAbs := targetPos - used s in
  let limit := rend s - used s - width in
  let '(q, passed, slope, cur_pos, cost) :=
      pop_loop (bounds s) targetAbs limit width [] (- width) (rend s) 0 in
  let final := Z.min limit (Z.max (rbegin s) (if 0 <=? slope then cur_pos else targetAbs)) in
  let cost := cost + (cur_pos - final) * (slope + width) in
  let ret := cost + width * Z.abs (final - targetAbs) in
  if update then
    let q1 := if 0 <? slope then pq_insert {| bpos := Z.min cur_pos final; bw := slope |} q else q in
    let q2 := if rbegin s <? targetAbs then
                pq_insert {| bpos := Z.min targetAbs final; bw := 2 * width + Z.min slope 0 |} q1
              else q1 in
    ({| rbegin := rbegin s; rend := rend s; cpos := final :: cpos s; widths := width :: widths s;
        used := used s + width; bounds := q2 |}, ret)
  else
    (* for (Bound b : passed_bounds) bounds.push(b); *)
    ({| rbegin := rbegin s; rend := rend s; cpos := cpos s; widths := widths s; used := used s;
        bounds := fold_left (fun q b => pq_insert b q) passed q |}, ret).

Definition push (s : rl) (w t : Z) : rl * Z := get_displacement s w t true.
Definition get_cost (s : rl) (w t : Z) : rl * Z := get_displacement s w t false.

(* getPlacement(): running minimum of constrainingPos_ from the newest, plus
   cumWidth_[i]; returns positions newest first *)
Fixpoint placement_aux (cp ws : list Z) (usedAfter : Z) (curmin : option Z) : list Z :=
  match cp, ws with
  | c :: cp', w :: ws' =>
     let m := match curmin with None => c | Some m => Z.min m c end in
     (m + (usedAfter - w)) :: placement_aux cp' ws' (usedAfter - w) (Some m)
  | _, _ => []
  end.
Definition placement (s : rl) : list Z := rev (placement_aux (cpos s) (widths s) (used s) None).

(* one operation of a history: push, or a cost query *)
Inductive op := Push (w t : Z) | Query (w t : Z).

Definition step (s : rl) (o : op) : rl * Z :=
  match o with Push w t => push s w t | Query w t => get_cost s w t end.

Definition run_ops (b e : Z) (ops : list op) : rl * list Z :=
  let '(s, cs) := fold_left (fun '(s, cs) o => let '(s', c) := step s o in (s', c :: cs))
                            ops (rl_init b e, []) in
  (s, rev cs).

(* what the correspondence compares: final placement (oldest first), every
   returned cost in order *)
Definition run (b e : Z) (ops : list op) : list Z * list Z :=
  let '(s, cs) := run_ops b e ops in (placement s, cs).
