From Coq Require Import List ZArith Lia Bool Arith.
Import ListNotations.
Require Import CV.Hpwl CV.HpwlProofs CV.Optimiser.
Local Open Scope Z_scope.

(* ---------- positions after a list of single-coordinate updates ---------- *)
Definition pos_after (pos : list Z) (ups : list (nat * Z)) : list Z :=
  fold_left (fun l u => upd l (fst u) (snd u)) ups pos.

Fixpoint last_assign (ups : list (nat * Z)) (j : nat) : option Z :=
  match ups with
  | [] => None
  | u :: r => match last_assign r j with
              | Some v => Some v
              | None => if Nat.eqb j (fst u) then Some (snd u) else None
              end
  end.

Lemma nth_error_pos_after ups : forall pos j,
  nth_error (pos_after pos ups) j =
  match last_assign ups j with
  | Some v => match nth_error pos j with Some _ => Some v | None => None end
  | None => nth_error pos j
  end.
Proof.
  induction ups as [|[c p] r IH]; intros pos j; cbn [pos_after fold_left last_assign fst snd]; [reflexivity|].
  change (fold_left (fun l u => upd l (fst u) (snd u)) r (upd pos c p)) with (pos_after (upd pos c p) r).
  rewrite IH, nth_error_upd.
  destruct (last_assign r j) as [v|].
  - destruct (Nat.eqb_spec j c) as [->|]; [destruct (nth_error pos c); reflexivity|reflexivity].
  - destruct (Nat.eqb_spec j c) as [->|]; reflexivity.
Qed.

Lemma length_pos_after ups : forall pos, length (pos_after pos ups) = length pos.
Proof.
  induction ups as [|u r IH]; intros pos; cbn [pos_after fold_left]; [reflexivity|].
  change (fold_left (fun l u => upd l (fst u) (snd u)) r (upd pos (fst u) (snd u))) with (pos_after (upd pos (fst u) (snd u)) r).
  rewrite IH. apply length_upd.
Qed.

Lemma last_assign_none ups j : last_assign ups j = None <-> ~ In j (map fst ups).
Proof.
  induction ups as [|u r IH]; cbn [last_assign map In]; [tauto|].
  destruct (last_assign r j) as [v|].
  - split; [discriminate|]. intros H. exfalso. apply H. right.
    destruct (in_dec Nat.eq_dec j (map fst r)) as [i|n]; [exact i|]. apply IH in n. discriminate.
  - destruct (Nat.eqb_spec j (fst u)) as [->|n].
    + split; [discriminate|]. intros H. exfalso. apply H. left. reflexivity.
    + split; [|reflexivity]. intros _ [E|Hin]; [congruence|]. apply IH in Hin; [exact Hin|reflexivity].
Qed.

Lemma last_assign_map (f : nat -> Z) cs j v :
  last_assign (map (fun c => (c, f c)) cs) j = Some v -> v = f j.
Proof.
  induction cs as [|c r IH]; cbn [map last_assign fst snd]; [discriminate|].
  destruct (last_assign (map (fun c0 => (c0, f c0)) r) j) as [w|].
  - intros [= <-]. apply IH. reflexivity.
  - destruct (Nat.eqb_spec j c) as [->|]; [intros [= <-]; reflexivity|discriminate].
Qed.

Lemma nth_error_nth_Z (l : list Z) j : nth_error l j = match nth_error l j with Some _ => Some (nth j l 0) | None => None end.
Proof.
  revert j. induction l as [|a l IH]; intros [|j]; cbn; try reflexivity. apply IH.
Qed.

(* restoring the saved coordinates gives the original positions back *)
Lemma pos_after_restore pos ups :
  pos_after (pos_after pos ups) (map (fun c => (c, nth c pos 0)) (map fst ups)) = pos.
Proof.
  apply list_ext_nth_error. intros j. rewrite nth_error_pos_after.
  destruct (last_assign _ j) as [v|] eqn:L.
  - apply last_assign_map in L. subst v. rewrite nth_error_pos_after.
    rewrite (nth_error_nth_Z pos j). destruct (last_assign ups j); destruct (nth_error pos j); reflexivity.
  - apply last_assign_none in L. rewrite map_map in L. cbn [fst] in L. rewrite map_id in L.
    rewrite nth_error_pos_after. apply last_assign_none in L. rewrite L. reflexivity.
Qed.

(* two position vectors that agree outside D become equal once every index of D is assigned *)
Lemma pos_after_cover (D : nat -> Prop) pos1 pos2 ups :
  length pos1 = length pos2 ->
  (forall j, ~ D j -> nth_error pos1 j = nth_error pos2 j) ->
  (forall j, D j -> In j (map fst ups)) ->
  pos_after pos1 ups = pos_after pos2 ups.
Proof.
  intros Hl Hout Hcov. apply list_ext_nth_error. intros j. rewrite !nth_error_pos_after.
  destruct (last_assign ups j) as [v|] eqn:L.
  - assert (E : (nth_error pos1 j = None) <-> (nth_error pos2 j = None)) by (rewrite !nth_error_None, Hl; tauto).
    destruct (nth_error pos1 j), (nth_error pos2 j); try reflexivity; exfalso;
      [assert (Some z = None) by (apply E; reflexivity)|assert (Some z = None) by (apply E; reflexivity)]; discriminate.
  - apply Hout. intros HD. apply last_assign_none in L. apply L. apply Hcov. exact HD.
Qed.

Lemma pos_after_outside pos ups j : ~ In j (map fst ups) -> nth_error (pos_after pos ups) j = nth_error pos j.
Proof. intros H. rewrite nth_error_pos_after. apply last_assign_none in H. rewrite H. reflexivity. Qed.

(* ---------- the two-axis state ---------- *)
Definition OInv (s : ostate) : Prop := IInv (ox s) /\ IInv (oy s).
Definition xs_of (ms : list pmove) : list (nat * Z) := map (fun m => (fst m, fst (snd m))) ms.
Definition ys_of (ms : list pmove) : list (nat * Z) := map (fun m => (fst m, snd (snd m))) ms.

Definition same_nets (s t : ostate) : Prop := inets (ox s) = inets (ox t) /\ inets (oy s) = inets (oy t).
Definition same_pos (s t : ostate) : Prop := ipos (ox s) = ipos (ox t) /\ ipos (oy s) = ipos (oy t).

Lemma set_many_spec ms : forall s, OInv s ->
  OInv (set_many s ms) /\ same_nets (set_many s ms) s /\
  ipos (ox (set_many s ms)) = pos_after (ipos (ox s)) (xs_of ms) /\
  ipos (oy (set_many s ms)) = pos_after (ipos (oy s)) (ys_of ms).
Proof.
  induction ms as [|m r IH]; intros s Hs; cbn [set_many fold_left xs_of ys_of map pos_after].
  - unfold same_nets. tauto.
  - change (fold_left set_pos r (set_pos s m)) with (set_many (set_pos s m) r).
    destruct Hs as [Hx Hy].
    destruct (update_inv (ox s) (fst m) (fst (snd m)) Hx) as (Ax & Bx & Cx).
    destruct (update_inv (oy s) (fst m) (snd (snd m)) Hy) as (Ay & By & Cy).
    assert (H1 : OInv (set_pos s m)) by (split; assumption).
    destruct (IH _ H1) as (I1 & [N1 N2] & P1 & P2). cbn [set_pos ox oy] in *.
    split; [exact I1|]. split; [split; congruence|]. cbn [fst snd].
    split; [rewrite P1, Bx; reflexivity|rewrite P2, By; reflexivity].
Qed.

(* the maintained value is a function of nets and positions (C09: incremental = from scratch) *)
Lemma ovalue_scratch s : OInv s ->
  ovalue s = ivalue (incr_build (ipos (ox s)) (inets (ox s))) + ivalue (incr_build (ipos (oy s)) (inets (oy s))).
Proof. intros [[A B] [C D]]. unfold ovalue. cbn. rewrite B, A, D, C. reflexivity. Qed.

Lemma ovalue_ext s t : OInv s -> OInv t -> same_nets s t -> same_pos s t -> ovalue s = ovalue t.
Proof. intros Hs Ht [N1 N2] [P1 P2]. rewrite (ovalue_scratch s Hs), (ovalue_scratch t Ht), N1, N2, P1, P2. reflexivity. Qed.

Lemma xs_of_saved s cs : xs_of (saved s cs) = map (fun c => (c, nth c (ipos (ox s)) 0)) cs.
Proof. unfold xs_of, saved. rewrite map_map. reflexivity. Qed.
Lemma ys_of_saved s cs : ys_of (saved s cs) = map (fun c => (c, nth c (ipos (oy s)) 0)) cs.
Proof. unfold ys_of, saved. rewrite map_map. reflexivity. Qed.
Lemma fst_xs_of ms : map fst (xs_of ms) = map fst ms.
Proof. unfold xs_of. rewrite map_map. reflexivity. Qed.
Lemma fst_ys_of ms : map fst (ys_of ms) = map fst ms.
Proof. unfold ys_of. rewrite map_map. reflexivity. Qed.

(* valueOnSwap / valueOnInsert: the returned value is the value at the new positions, and the
   state is restored: same positions, same value *)
Lemma value_on_pure s ms : OInv s ->
  let r := value_on s ms in
  fst r = ovalue (set_many s ms) /\ OInv (snd r) /\ same_nets (snd r) s /\ same_pos (snd r) s /\ ovalue (snd r) = ovalue s.
Proof.
  intros Hs. cbn zeta. unfold value_on. cbn [fst snd].
  destruct (set_many_spec ms s Hs) as (I1 & N1 & P1 & Q1).
  destruct (set_many_spec (saved s (map fst ms)) _ I1) as (I2 & N2 & P2 & Q2).
  assert (SP : same_pos (set_many (set_many s ms) (saved s (map fst ms))) s).
  { split.
    - rewrite P2, P1, xs_of_saved, <- (fst_xs_of ms). apply pos_after_restore.
    - rewrite Q2, Q1, ys_of_saved, <- (fst_ys_of ms). apply pos_after_restore. }
  assert (SN : same_nets (set_many (set_many s ms) (saved s (map fst ms))) s).
  { destruct N1, N2. split; congruence. }
  split; [reflexivity|]. split; [exact I2|]. split; [exact SN|]. split; [exact SP|].
  apply ovalue_ext; assumption.
Qed.

(* applying the same moves to two states with the same nets and positions gives the same value *)
Lemma set_many_ext s t ms : OInv s -> OInv t -> same_nets s t -> same_pos s t ->
  ovalue (set_many s ms) = ovalue (set_many t ms) /\ same_pos (set_many s ms) (set_many t ms).
Proof.
  intros Hs Ht [N1 N2] [P1 P2].
  destruct (set_many_spec ms s Hs) as (I1 & [M1 M2] & A1 & B1).
  destruct (set_many_spec ms t Ht) as (I2 & [M3 M4] & A2 & B2).
  assert (SP : same_pos (set_many s ms) (set_many t ms)) by (split; congruence).
  split; [|exact SP]. apply ovalue_ext; try assumption. split; congruence.
Qed.

(* the candidate scan *)
Lemma best_scan_spec cands : forall s0 s b, OInv s0 -> OInv s -> same_nets s s0 -> same_pos s s0 -> ovalue s = ovalue s0 ->
  (match b with Some ms => ovalue (set_many s0 ms) < ovalue s0 | None => True end) ->
  let r := fold_left (fun (acc : ostate * option (list pmove)) cand =>
     match cand with
     | None => acc
     | Some ms => let r := value_on (fst acc) ms in
                  if fst r <? ovalue s0 then (snd r, Some ms) else (snd r, snd acc)
     end) cands (s, b) in
  OInv (fst r) /\ same_nets (fst r) s0 /\ same_pos (fst r) s0 /\
  match snd r with Some ms => ovalue (set_many s0 ms) < ovalue s0 | None => True end.
Proof.
  induction cands as [|[ms|] cands IH]; intros s0 s b H0 Hs SN SP SV Hb; cbn [fold_left].
  - cbn zeta. cbn [fst snd]. tauto.
  - cbn [fst snd].
    destruct (value_on_pure s ms Hs) as (V & I & N & P & E). cbn zeta in *.
    assert (SN' : same_nets (snd (value_on s ms)) s0) by (destruct N, SN; split; congruence).
    assert (SP' : same_pos (snd (value_on s ms)) s0) by (destruct P, SP; split; congruence).
    destruct (Z.ltb_spec (fst (value_on s ms)) (ovalue s0)) as [Lt|Ge].
    + apply IH; try assumption; [congruence|].
      rewrite V in Lt. destruct (set_many_ext s s0 ms Hs H0 SN SP) as [EQ _]. lia.
    + apply IH; try assumption. congruence.
  - apply IH; assumption.
Qed.

Theorem best_move_decreases s cands : OInv s ->
  let r := best_move s cands in
  OInv (fst r) /\ same_nets (fst r) s /\
  (snd r = true -> ovalue (fst r) < ovalue s) /\
  (snd r = false -> ovalue (fst r) = ovalue s /\ same_pos (fst r) s).
Proof.
  intros Hs. cbn zeta. unfold best_move, best_scan.
  assert (SN0 : same_nets s s) by (split; reflexivity).
  assert (SP0 : same_pos s s) by (split; reflexivity).
  pose proof (best_scan_spec cands s s None Hs Hs SN0 SP0 eq_refl I) as H. cbn zeta in H.
  destruct (fold_left _ cands (s, None)) as [s' [ms|]]; cbn [fst snd] in *.
  - destruct H as (I1 & N1 & P1 & Lt).
    destruct (set_many_spec ms s' I1) as (I2 & N2 & _).
    destruct (set_many_ext s' s ms I1 Hs N1 P1) as [EQ _].
    split; [exact I2|]. split; [destruct N1, N2; split; congruence|].
    split; [intros _; lia|discriminate].
  - destruct H as (I1 & N1 & P1 & _).
    split; [exact I1|]. split; [exact N1|]. split; [discriminate|]. intros _. split; [|exact P1].
    apply ovalue_ext; assumption.
Qed.

(* ---------- reordering ---------- *)
Definition agree_outside (cs : list nat) (s t : ostate) : Prop :=
  length (ipos (ox s)) = length (ipos (ox t)) /\ length (ipos (oy s)) = length (ipos (oy t)) /\
  forall j, ~ In j cs -> nth_error (ipos (ox s)) j = nth_error (ipos (ox t)) j /\
                        nth_error (ipos (oy s)) j = nth_error (ipos (oy t)) j.

Lemma set_many_cover cs s t ms : OInv s -> OInv t -> same_nets s t -> agree_outside cs s t ->
  (forall j, In j cs -> In j (map fst ms)) ->
  same_pos (set_many s ms) (set_many t ms) /\ ovalue (set_many s ms) = ovalue (set_many t ms).
Proof.
  intros Hs Ht SN (L1 & L2 & Ag) Hc.
  destruct (set_many_spec ms s Hs) as (I1 & [M1 M2] & A1 & B1).
  destruct (set_many_spec ms t Ht) as (I2 & [M3 M4] & A2 & B2).
  assert (SP : same_pos (set_many s ms) (set_many t ms)).
  { split.
    - rewrite A1, A2. apply (pos_after_cover (fun j => In j cs)); [exact L1|intros j Hj; apply (Ag j Hj)|].
      intros j Hj. rewrite fst_xs_of. apply Hc. exact Hj.
    - rewrite B1, B2. apply (pos_after_cover (fun j => In j cs)); [exact L2|intros j Hj; apply (Ag j Hj)|].
      intros j Hj. rewrite fst_ys_of. apply Hc. exact Hj. }
  split; [exact SP|]. apply ovalue_ext; try assumption. destruct SN. split; congruence.
Qed.

Lemma set_many_agree cs s ms : OInv s -> (forall j, In j (map fst ms) -> In j cs) -> agree_outside cs (set_many s ms) s.
Proof.
  intros Hs Hd. destruct (set_many_spec ms s Hs) as (_ & _ & A & B). unfold agree_outside.
  rewrite A, B, !length_pos_after. split; [reflexivity|]. split; [reflexivity|].
  intros j Hj. split; apply pos_after_outside; rewrite ?fst_xs_of, ?fst_ys_of; intros H; apply Hj, Hd, H.
Qed.

Lemma agree_trans cs a b c : agree_outside cs a b -> agree_outside cs b c -> agree_outside cs a c.
Proof.
  intros (A1 & A2 & A3) (B1 & B2 & B3). split; [congruence|]. split; [congruence|].
  intros j Hj. destruct (A3 j Hj), (B3 j Hj). split; congruence.
Qed.

Definition leaf_ok (cs : list nat) (leaf : list pmove) : Prop := forall j, In j (map fst leaf) <-> In j cs.

Lemma reorder_scan_spec cs leaves : forall s0 s bv b, OInv s0 -> OInv s -> same_nets s s0 -> agree_outside cs s s0 ->
  Forall (leaf_ok cs) leaves ->
  bv <= ovalue s0 ->
  (match b with Some leaf => leaf_ok cs leaf /\ bv = ovalue (set_many s0 leaf) /\ bv < ovalue s0 | None => bv = ovalue s0 end) ->
  let r := fold_left (fun (acc : ostate * Z * option (list pmove)) leaf =>
     let s1 := set_many (fst (fst acc)) leaf in
     if ovalue s1 <? snd (fst acc) then (s1, ovalue s1, Some leaf) else (s1, snd (fst acc), snd acc))
    leaves (s, bv, b) in
  OInv (fst (fst r)) /\ same_nets (fst (fst r)) s0 /\ agree_outside cs (fst (fst r)) s0 /\
  match snd r with Some leaf => leaf_ok cs leaf /\ ovalue (set_many s0 leaf) < ovalue s0 | None => True end.
Proof.
  induction leaves as [|leaf leaves IH]; intros s0 s bv b H0 Hs SN AG HF Hbv Hb; cbn [fold_left].
  - cbn zeta. cbn [fst snd]. split; [exact Hs|]. split; [exact SN|]. split; [exact AG|].
    destruct b as [leaf|]; [|exact I]. destruct Hb as (A & B & C). split; [exact A|lia].
  - cbn [fst snd]. inversion HF as [|? ? Hl HF']; subst.
    destruct (set_many_spec leaf s Hs) as (I1 & N1 & _).
    assert (SN1 : same_nets (set_many s leaf) s0) by (destruct N1, SN; split; congruence).
    assert (AG1 : agree_outside cs (set_many s leaf) s0).
    { eapply agree_trans; [apply set_many_agree; [exact Hs|intros j Hj; apply Hl; exact Hj]|exact AG]. }
    destruct (set_many_cover cs s s0 leaf Hs H0 SN AG (fun j Hj => proj2 (Hl j) Hj)) as [_ EQ].
    destruct (Z.ltb_spec (ovalue (set_many s leaf)) bv) as [Lt|Ge].
    + apply IH; try assumption; [lia|]. split; [exact Hl|]. split; [exact EQ|lia].
    + apply IH; assumption.
Qed.

Theorem reorder_decreases s cs leaves : OInv s -> Forall (leaf_ok cs) leaves ->
  let r := reorder s cs leaves in
  OInv (fst r) /\ same_nets (fst r) s /\
  (snd r = true -> ovalue (fst r) < ovalue s) /\
  (snd r = false -> ovalue (fst r) = ovalue s /\ same_pos (fst r) s).
Proof.
  intros Hs HF. cbn zeta. unfold reorder, reorder_scan.
  assert (SN0 : same_nets s s) by (split; reflexivity).
  assert (AG0 : agree_outside cs s s) by (split; [reflexivity|split; [reflexivity|intros; split; reflexivity]]).
  pose proof (reorder_scan_spec cs leaves s s (ovalue s) None Hs Hs SN0 AG0 HF (Z.le_refl _) eq_refl) as H. cbn zeta in H.
  destruct (fold_left _ leaves (s, ovalue s, None)) as [[s' bv] [leaf|]]; cbn [fst snd] in *.
  - destruct H as (I1 & N1 & A1 & Hl & Lt).
    destruct (set_many_spec leaf s' I1) as (I2 & N2 & _).
    destruct (set_many_cover cs s' s leaf I1 Hs N1 A1 (fun j Hj => proj2 (Hl j) Hj)) as [_ EQ].
    split; [exact I2|]. split; [destruct N1, N2; split; congruence|]. split; [intros _; lia|discriminate].
  - destruct H as (I1 & N1 & A1 & _).
    destruct (set_many_spec (saved s cs) s' I1) as (I2 & N2 & PX & PY).
    assert (SP : same_pos (set_many s' (saved s cs)) s).
    { destruct A1 as (L1 & L2 & Ag). split.
      - rewrite PX, xs_of_saved. apply list_ext_nth_error. intros j. rewrite nth_error_pos_after.
        destruct (last_assign _ j) as [v|] eqn:L.
        + apply last_assign_map in L. subst v. rewrite (nth_error_nth_Z (ipos (ox s)) j).
          assert (E : nth_error (ipos (ox s')) j = None <-> nth_error (ipos (ox s)) j = None) by (rewrite !nth_error_None, L1; tauto).
          destruct (nth_error (ipos (ox s')) j), (nth_error (ipos (ox s)) j); try reflexivity; exfalso;
            [assert (Some z = None) by (apply E; reflexivity)|assert (Some z = None) by (apply E; reflexivity)]; discriminate.
        + apply last_assign_none in L. rewrite map_map in L. cbn [fst] in L. rewrite map_id in L. apply (Ag j L).
      - rewrite PY, ys_of_saved. apply list_ext_nth_error. intros j. rewrite nth_error_pos_after.
        destruct (last_assign _ j) as [v|] eqn:L.
        + apply last_assign_map in L. subst v. rewrite (nth_error_nth_Z (ipos (oy s)) j).
          assert (E : nth_error (ipos (oy s')) j = None <-> nth_error (ipos (oy s)) j = None) by (rewrite !nth_error_None, L2; tauto).
          destruct (nth_error (ipos (oy s')) j), (nth_error (ipos (oy s)) j); try reflexivity; exfalso;
            [assert (Some z = None) by (apply E; reflexivity)|assert (Some z = None) by (apply E; reflexivity)]; discriminate.
        + apply last_assign_none in L. rewrite map_map in L. cbn [fst] in L. rewrite map_id in L. apply (Ag j L). }
    assert (SN : same_nets (set_many s' (saved s cs)) s) by (destruct N1, N2; split; congruence).
    split; [exact I2|]. split; [exact SN|]. split; [discriminate|]. intros _. split; [|exact SP].
    apply ovalue_ext; assumption.
Qed.

(* ---------- histories ---------- *)
Definition ostep_ok (o : ostep) : Prop :=
  match o with OBest _ => True | OReorder cs leaves => Forall (leaf_ok cs) leaves end.

Lemma ostep_monotone s o : OInv s -> ostep_ok o ->
  OInv (ostep_run s o) /\ same_nets (ostep_run s o) s /\ ovalue (ostep_run s o) <= ovalue s.
Proof.
  intros Hs Ho. destruct o as [cands|cs leaves]; cbn [ostep_run].
  - destruct (best_move_decreases s cands Hs) as (A & B & C & D). cbn zeta in *.
    split; [exact A|]. split; [exact B|]. destruct (snd (best_move s cands)); [specialize (C eq_refl); lia|destruct (D eq_refl); lia].
  - destruct (reorder_decreases s cs leaves Hs Ho) as (A & B & C & D). cbn zeta in *.
    split; [exact A|]. split; [exact B|]. destruct (snd (reorder s cs leaves)); [specialize (C eq_refl); lia|destruct (D eq_refl); lia].
Qed.

Theorem history_monotone os : forall s, OInv s -> Forall ostep_ok os ->
  OInv (osteps_run s os) /\ ovalue (osteps_run s os) <= ovalue s.
Proof.
  induction os as [|o os IH]; intros s Hs HF; cbn [osteps_run fold_left]; [split; [exact Hs|lia]|].
  inversion HF as [|? ? Ho HF']; subst.
  destruct (ostep_monotone s o Hs Ho) as (A & _ & C).
  destruct (IH _ A HF') as (D & E). change (fold_left ostep_run os (ostep_run s o)) with (osteps_run (ostep_run s o) os).
  split; [exact D|lia].
Qed.
