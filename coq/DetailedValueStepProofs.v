(* C05, composition: the coupling invariant (DetailedValueProofs.PInv) is preserved by every paired step,
   the value never increases along a history, and the main theorem on the exposed circuits. *)
From Coq Require Import List ZArith Lia Bool Arith Permutation.
Import ListNotations.
Require Import CV.Orient CV.FreeSpace CV.Circuit CV.Hpwl CV.HpwlProofs CV.HpwlFoldProofs.
Require Import CV.Moves CV.MovesProofs CV.MovesOrientProofs CV.Optimiser CV.OptimiserProofs.
Require Import CV.ShiftLp CV.ShiftLpProofs.
Require Import CV.Legalizer CV.LegalizerSoundProofs.
Require Import CV.DetailedInit CV.DetailedInitProofs CV.DetailedExport CV.DetailedExportProofs.
Require Import CV.DetailedValue CV.DetailedValueProofs.
Local Open Scope Z_scope.

(* ------------------------------------------------------------------ *)
(* cellPos read off the rows, without the row index *)
Definition xat (id : nat) (l : list pcell) : option Z :=
  match split_at id l with Some (_, m, _) => Some (p_x m) | None => None end.

Fixpoint pos_rows (rows : list drow) (id : nat) : option (Z * Z) :=
  match rows with
  | [] => None
  | r :: t => match xat id (dr_cells r) with Some x => Some (x, dr_y r) | None => pos_rows t id end
  end.

Lemma find_row_pos rows id : forall i0,
  match find_row rows id i0 with Some (_, r, _, m, _) => Some (p_x m, dr_y r) | None => None end = pos_rows rows id.
Proof.
  induction rows as [|r t IH]; intros i0; cbn [find_row pos_rows]; [reflexivity|]. unfold xat.
  destruct (split_at id (dr_cells r)) as [[[a m] b]|]; [reflexivity|apply IH].
Qed.

Lemma pos_in_rows d id : pos_in d id = pos_rows (d_rows d) id.
Proof. unfold pos_in. apply find_row_pos. Qed.

Lemma xat_cons id c l : xat id (c :: l) = if Nat.eqb (p_id c) id then Some (p_x c) else xat id l.
Proof.
  unfold xat. cbn [split_at]. destruct (Nat.eqb (p_id c) id); [reflexivity|].
  destruct (split_at id l) as [[[a m] b]|]; reflexivity.
Qed.

Lemma xat_other id a m b : p_id m <> id -> xat id (a ++ m :: b) = xat id (a ++ b).
Proof.
  intros Hne. induction a as [|c a IH]; cbn [app]; rewrite !xat_cons.
  - apply Nat.eqb_neq in Hne. rewrite Hne. reflexivity.
  - rewrite IH. reflexivity.
Qed.

Lemma xat_none id l : (forall p, In p l -> p_id p <> id) -> xat id l = None.
Proof.
  induction l as [|c l IH]; intros H; [reflexivity|]. rewrite xat_cons.
  destruct (Nat.eqb_spec (p_id c) id) as [E|_]; [exfalso; exact (H c (or_introl eq_refl) E)|].
  apply IH. intros p Hp. apply H. right. exact Hp.
Qed.

Lemma xat_some_in id l x : xat id l = Some x -> exists m, In m l /\ p_id m = id /\ p_x m = x.
Proof.
  induction l as [|c l IH]; [discriminate|]. rewrite xat_cons.
  destruct (Nat.eqb_spec (p_id c) id) as [E|_].
  - intros [= <-]. exists c. split; [left; reflexivity|]. split; [exact E|reflexivity].
  - intros H. destruct (IH H) as (m & H1 & H2). exists m. split; [right; exact H1|exact H2].
Qed.

Lemma xat_new id a m b : xat id a = None -> p_id m = id -> xat id (a ++ m :: b) = Some (p_x m).
Proof.
  intros Ha Hm. induction a as [|c a IH]; cbn [app]; rewrite xat_cons.
  - rewrite Hm, Nat.eqb_refl. reflexivity.
  - rewrite xat_cons in Ha. destruct (Nat.eqb (p_id c) id); [discriminate|]. apply IH. exact Ha.
Qed.

Lemma xat_app_none id a b : xat id (a ++ b) = None -> xat id a = None.
Proof.
  induction a as [|c a IH]; cbn [app]; [reflexivity|]. rewrite !xat_cons.
  destruct (Nat.eqb (p_id c) id); [discriminate|]. exact IH.
Qed.

(* replacing the cells of row i *)
Lemma pos_rows_upd rows j : forall i r l, nth_error rows i = Some r ->
  xat j l = xat j (dr_cells r) -> pos_rows (upd_row rows i (set_cells r l)) j = pos_rows rows j.
Proof.
  induction rows as [|r0 t IH]; intros [|i] r l; cbn [nth_error upd_row pos_rows]; try discriminate.
  - intros [= ->] E. cbn [set_cells dr_cells dr_y]. rewrite E. reflexivity.
  - intros H E. rewrite (IH _ _ _ H E). reflexivity.
Qed.

Lemma pos_rows_upd_new rows id : forall i r l x, nth_error rows i = Some r ->
  pos_rows rows id = None -> xat id l = Some x -> pos_rows (upd_row rows i (set_cells r l)) id = Some (x, dr_y r).
Proof.
  induction rows as [|r0 t IH]; intros [|i] r l x; cbn [nth_error upd_row pos_rows]; try discriminate.
  - intros [= ->] _ E. cbn [set_cells dr_cells dr_y]. rewrite E. reflexivity.
  - intros H. destruct (xat id (dr_cells r0)); [discriminate|]. intros P E. exact (IH _ _ _ _ H P E).
Qed.

Lemma pos_rows_none rows id : (forall r p, In r rows -> In p (dr_cells r) -> p_id p <> id) -> pos_rows rows id = None.
Proof.
  induction rows as [|r0 t IH]; intros H; cbn [pos_rows]; [reflexivity|].
  rewrite (xat_none id (dr_cells r0)) by (intros p Hp; apply (H r0 p); [left; reflexivity|exact Hp]).
  apply IH. intros r p Hr. apply H. right. exact Hr.
Qed.

Lemma pos_rows_some_in rows id x y : pos_rows rows id = Some (x, y) ->
  exists r m, In r rows /\ In m (dr_cells r) /\ p_id m = id /\ p_x m = x /\ dr_y r = y.
Proof.
  induction rows as [|r0 t IH]; cbn [pos_rows]; [discriminate|].
  destruct (xat id (dr_cells r0)) as [x0|] eqn:E.
  - intros [= <- <-]. apply xat_some_in in E as (m & H1 & H2 & H3). exists r0, m. repeat split; try assumption. left. reflexivity.
  - intros H. destruct (IH H) as (r & m & H1 & H2). exists r, m. split; [right; exact H1|exact H2].
Qed.

Lemma xat_none_inv id l p : xat id l = None -> In p l -> p_id p <> id.
Proof.
  induction l as [|c l IH]; [intros _ []|]. rewrite xat_cons.
  destruct (Nat.eqb_spec (p_id c) id) as [E|Hne]; [discriminate|]. intros H [<-|Hp]; [exact Hne|exact (IH H Hp)].
Qed.

Lemma pos_rows_none_inv rows id r p : pos_rows rows id = None -> In r rows -> In p (dr_cells r) -> p_id p <> id.
Proof.
  induction rows as [|r0 t IH]; cbn [pos_rows In]; [tauto|].
  destruct (xat id (dr_cells r0)) eqn:E; [discriminate|]. intros H [<-|Hr] Hp; [exact (xat_none_inv id _ p E Hp)|exact (IH H Hr Hp)].
Qed.

Lemma row_y_upd rows i r l j : nth_error rows i = Some r ->
  match nth_error (upd_row rows i (set_cells r l)) j with Some r' => dr_y r' | None => 0 end =
  match nth_error rows j with Some r' => dr_y r' | None => 0 end.
Proof.
  revert i j. induction rows as [|r0 t IH]; intros [|i] [|j]; cbn [nth_error upd_row]; try discriminate; try reflexivity.
  - intros [= ->]. reflexivity.
  - intros H. apply IH. exact H.
Qed.

(* ------------------------------------------------------------------ *)
(* the two primitives: what they do to cellPos *)
Definition same_row_y (d d' : dstate) : Prop := forall j, row_y d' j = row_y d j.

Lemma unplace_pos d id d' : unplace d id = Some d' ->
  (forall j, j <> id -> pos_in d' j = pos_in d j) /\ same_row_y d d'.
Proof.
  intros U. apply unplace_spec in U as (i & r & a & m & b & _ & Hn & Hc & Hid & Hr & _). split.
  - intros j Hj. rewrite !pos_in_rows, Hr. apply pos_rows_upd; [exact Hn|]. rewrite Hc. symmetry. apply xat_other. congruence.
  - intros j. unfold row_y. rewrite Hr. apply row_y_upd. exact Hn.
Qed.

Lemma take_loose_id id l c l' : take_loose id l = Some (c, l') -> In c l /\ p_id c = id.
Proof.
  revert c l'. induction l as [|x r IH]; intros c l'; cbn [take_loose]; [discriminate|].
  destruct (Nat.eqb_spec (p_id x) id) as [E|_].
  - intros [= <- <-]. split; [left; reflexivity|exact E].
  - destruct (take_loose id r) as [[m r']|]; [|discriminate]. intros [= <- <-].
    destruct (IH _ _ eq_refl) as [H1 H2]. split; [right; exact H1|exact H2].
Qed.

Lemma loose_not_placed d c : NoDup (map p_id (cells_of d)) -> In c (d_loose d) -> pos_in d (p_id c) = None.
Proof.
  intros ND Hc. rewrite pos_in_rows. apply pos_rows_none. intros r p Hr Hp E.
  unfold cells_of in ND. rewrite map_app in ND. apply NoDup_app_elim in ND as (_ & _ & D).
  apply (D (p_id c)).
  - rewrite <- E. apply in_map. apply in_flat_map. exists r. split; assumption.
  - apply in_map. exact Hc.
Qed.

Lemma place_pos d id rowi pred x d' : place d id rowi pred x = Some d' -> NoDup (map p_id (cells_of d)) ->
  (forall j, j <> id -> pos_in d' j = pos_in d j) /\ pos_in d' id = Some (x, row_y d rowi) /\ same_row_y d d'.
Proof.
  unfold place. destruct (take_loose id (d_loose d)) as [[c loose']|] eqn:T; [|discriminate].
  destruct (nth_error (d_rows d) rowi) as [r|] eqn:N; [|discriminate].
  destruct (split_site pred (dr_cells r)) as [[a b]|] eqn:S; [|discriminate].
  destruct (_ && _); [|discriminate]. intros [= <-] ND. cbn [d_rows].
  apply take_loose_id in T as [Tc Tid]. apply split_site_app in S.
  set (c' := {| p_id := p_id c; p_x := x; p_w := p_w c; p_pol := p_pol c; p_o := _ |}).
  assert (Hid : p_id c' = id) by exact Tid.
  split; [|split].
  - intros j Hj. rewrite !pos_in_rows. cbn [d_rows]. apply pos_rows_upd; [exact N|]. rewrite S. apply xat_other. congruence.
  - pose proof (loose_not_placed d c ND Tc) as P. rewrite Tid, pos_in_rows in P.
    rewrite pos_in_rows. cbn [d_rows]. unfold row_y. rewrite N.
    apply pos_rows_upd_new; [exact N|exact P|]. change x with (p_x c'). apply xat_new; [|exact Hid].
    apply xat_none. intros p Hp. apply (pos_rows_none_inv (d_rows d) id r p P (nth_error_In _ _ N)).
    rewrite S. apply in_or_app. left. exact Hp.
  - intros j. unfold row_y. cbn [d_rows]. apply row_y_upd. exact N.
Qed.

(* ------------------------------------------------------------------ *)
(* unique ids are preserved (the observable keys of the cells are permuted) *)
Lemma nodup_of_keys d d' : Permutation (map anykey (cells_of d)) (map anykey (cells_of d')) ->
  NoDup (map p_id (cells_of d)) -> NoDup (map p_id (cells_of d')).
Proof.
  intros P ND.
  assert (E : forall l, map p_id l = map (fun k : nat * Z * polarity * option orient => fst (fst (fst k))) (map anykey l))
    by (intros l; rewrite map_map; reflexivity).
  rewrite E in *. eapply Permutation_NoDup; [apply Permutation_map; exact P|exact ND].
Qed.

Lemma apply_mop_nodup d m d' : apply_mop d m = Some d' -> NoDup (map p_id (cells_of d)) -> NoDup (map p_id (cells_of d')).
Proof.
  intros A. apply nodup_of_keys. pose proof (step_keys d m) as K. unfold step_mop in K. rewrite A in K. exact K.
Qed.

(* ------------------------------------------------------------------ *)
(* lists of primitives *)
Definition prim_cell (m : mop) : option nat :=
  match m with MUnplace c => Some c | MPlace c _ _ _ => Some c | _ => None end.
Definition prims (ops : list mop) (cs : list nat) : Prop :=
  Forall (fun m => exists c, prim_cell m = Some c /\ In c cs) ops.

Lemma prims_frame ops : forall d d' cs, apply_all d ops = Some d' -> prims ops cs -> NoDup (map p_id (cells_of d)) ->
  NoDup (map p_id (cells_of d')) /\ same_row_y d d' /\ (forall j, ~ In j cs -> pos_in d' j = pos_in d j).
Proof.
  induction ops as [|m t IH]; intros d d' cs; cbn [apply_all].
  - intros [= <-] _ ND. split; [exact ND|]. split; intros j; reflexivity.
  - destruct (apply_mop d m) as [d1|] eqn:A; [|discriminate]. intros At HP ND.
    inversion HP as [|? ? (c0 & Hc0 & Hin) HP']; subst.
    pose proof (apply_mop_nodup d m d1 A ND) as ND1.
    destruct (IH d1 d' cs At HP' ND1) as (N' & Y' & F').
    assert (H1 : same_row_y d d1 /\ forall j, j <> c0 -> pos_in d1 j = pos_in d j).
    { destruct m as [| |c|c rowi pred x]; cbn [prim_cell] in Hc0; try discriminate; injection Hc0 as ->; cbn [apply_mop] in A.
      - destruct (unplace_pos d c0 d1 A) as [P Y]. split; assumption.
      - destruct (place_pos d c0 rowi pred x d1 A ND) as (P & _ & Y). split; assumption. }
    destruct H1 as [Y1 F1]. split; [exact N'|]. split.
    + intros j. rewrite Y', Y1. reflexivity.
    + intros j Hj. rewrite (F' j Hj). apply F1. intros ->. contradiction.
Qed.

Lemma apply_all_app d ops1 ops2 :
  apply_all d (ops1 ++ ops2) = match apply_all d ops1 with Some d1 => apply_all d1 ops2 | None => None end.
Proof.
  revert d. induction ops1 as [|m t IH]; intros d; cbn [app apply_all]; [reflexivity|].
  destruct (apply_mop d m); [apply IH|reflexivity].
Qed.

Lemma apply_all_run d ops d' : apply_all d ops = Some d' -> run_dops d (map DMop ops) = d'.
Proof.
  revert d. induction ops as [|m t IH]; intros d; cbn [apply_all map run_dops fold_left]; [intros [= <-]; reflexivity|].
  destruct (apply_mop d m) as [d1|] eqn:A; [|discriminate]. intros H.
  cbn [step_dop]. unfold step_mop. rewrite A. exact (IH d1 H).
Qed.

(* ------------------------------------------------------------------ *)
(* positions of a model after a list of updates on distinct cells *)
Lemma last_assign_in ups i v : NoDup (map fst ups) -> In (i, v) ups -> last_assign ups i = Some v.
Proof.
  induction ups as [|u r IH]; cbn [map In last_assign]; [tauto|]. intros ND [->|Hin].
  - inversion ND as [|? ? Hn _]; subst. cbn [fst snd] in *.
    assert (E : last_assign r i = None) by (apply last_assign_none; exact Hn). rewrite E, Nat.eqb_refl. reflexivity.
  - inversion ND as [|? ? _ ND']; subst. rewrite (IH ND' Hin). reflexivity.
Qed.

Lemma nth_pos_after_in pos ups i v : (i < length pos)%nat -> NoDup (map fst ups) -> In (i, v) ups ->
  nth i (pos_after pos ups) 0 = v.
Proof.
  intros Hi ND Hin. rewrite nth_nth_error, nth_error_pos_after, (last_assign_in ups i v ND Hin).
  destruct (nth_error pos i) eqn:E; [reflexivity|]. apply nth_error_None in E. lia.
Qed.

Lemma nth_pos_after_out pos ups i : ~ In i (map fst ups) -> nth i (pos_after pos ups) 0 = nth i pos 0.
Proof. intros H. rewrite !nth_nth_error, (pos_after_outside pos ups i H). reflexivity. Qed.

(* ------------------------------------------------------------------ *)
(* the coupling after the models have been refreshed on the cells `ms` from the structure d' *)
Lemma in_xs_of ms i p : In (i, p) ms -> In (i, fst p) (xs_of ms).
Proof. intros H. unfold xs_of. apply in_map_iff. exists (i, p). split; [reflexivity|exact H]. Qed.
Lemma in_ys_of ms i p : In (i, p) ms -> In (i, snd p) (ys_of ms).
Proof. intros H. unfold ys_of. apply in_map_iff. exists (i, p). split; [reflexivity|exact H]. Qed.

Lemma coupled_update c d d' o o' ms :
  coupled c d o ->
  ipos (ox o') = pos_after (ipos (ox o)) (xs_of ms) -> ipos (oy o') = pos_after (ipos (oy o)) (ys_of ms) ->
  NoDup (map fst ms) ->
  (forall i p, In (i, p) ms -> pos_in d' i = Some p) ->
  (forall i, In i (map fst ms) -> (i < length (cells c))%nat) ->
  (forall j, ~ In j (map fst ms) -> pos_in d' j = pos_in d j) ->
  coupled c d' o'.
Proof.
  intros (Lx & Ly & Zx & Zy & Hh & Hu) Px Py ND Hms Hlt Hfr. unfold coupled. cbn zeta.
  rewrite Px, Py, !length_pos_after.
  assert (Hn : ~ In (length (cells c)) (map fst ms)) by (intros H; apply Hlt in H; lia).
  assert (Hcur : forall i, cur_pos o' i =
            (nth i (pos_after (ipos (ox o)) (xs_of ms)) 0, nth i (pos_after (ipos (oy o)) (ys_of ms)) 0))
    by (intros i; unfold cur_pos; rewrite Px, Py; reflexivity).
  assert (Hout : forall i, ~ In i (map fst ms) -> cur_pos o' i = cur_pos o i).
  { intros i Hi. rewrite Hcur. unfold cur_pos.
    rewrite !nth_pos_after_out by (rewrite ?fst_xs_of, ?fst_ys_of; exact Hi). reflexivity. }
  split; [exact Lx|]. split; [exact Ly|].
  split; [rewrite nth_pos_after_out by (rewrite fst_xs_of; exact Hn); exact Zx|].
  split; [rewrite nth_pos_after_out by (rewrite fst_ys_of; exact Hn); exact Zy|].
  split.
  - intros i x y P. destruct (in_dec Nat.eq_dec i (map fst ms)) as [Hin|Hnin].
    + apply in_map_iff in Hin as ([i' p] & E & Hin). cbn [fst] in E. subst i'.
      pose proof (Hms i p Hin) as P'. rewrite P in P'. injection P' as <-.
      assert (Hi : (i < length (cells c))%nat) by (apply Hlt; apply in_map_iff; exists (i, (x, y)); split; [reflexivity|exact Hin]).
      rewrite Hcur. f_equal.
      * apply nth_pos_after_in; [lia|rewrite fst_xs_of; exact ND|]. exact (in_xs_of ms i (x, y) Hin).
      * apply nth_pos_after_in; [lia|rewrite fst_ys_of; exact ND|]. exact (in_ys_of ms i (x, y) Hin).
    + rewrite (Hout i Hnin). apply Hh. rewrite <- (Hfr i Hnin). exact P.
  - intros i k Hk P. destruct (in_dec Nat.eq_dec i (map fst ms)) as [Hin|Hnin].
    + exfalso. apply in_map_iff in Hin as ([i' p] & E & Hin). cbn [fst] in E. subst i'.
      rewrite (Hms i p Hin) in P. discriminate.
    + rewrite (Hout i Hnin). apply (Hu i k Hk). rewrite <- (Hfr i Hnin). exact P.
Qed.

(* a cell the structure holds is a cell of the circuit *)
Lemma held_lt c rh d i : Rel c rh d -> pos_in d i <> None -> (i < length (cells c))%nat.
Proof.
  intros HR H. unfold pos_in in H. destruct (find_row (d_rows d) i 0) as [[[[[ri r] a] m] b]|] eqn:F; [|congruence].
  destruct (found_is_kept c rh d i ri r a m b HR F) as (k & Hk & _). apply nth_error_Some. congruence.
Qed.

(* moves_at reads the positions *)
Lemma moves_at_spec d cs : forall ms, moves_at d cs = Some ms ->
  map fst ms = cs /\ forall i p, In (i, p) ms -> pos_in d i = Some p.
Proof.
  induction cs as [|c t IH]; intros ms; cbn [moves_at].
  - intros [= <-]. split; [reflexivity|intros i p []].
  - destruct (pos_in d c) as [p0|] eqn:P; [|discriminate]. destruct (moves_at d t) as [l|]; [|discriminate].
    intros [= <-]. destruct (IH l eq_refl) as [E H]. cbn [map fst]. split; [rewrite E; reflexivity|].
    intros i p [[= <- <-]|Hin]; [exact P|exact (H i p Hin)].
Qed.

(* ------------------------------------------------------------------ *)
(* swap and insert are sequences of primitives on the touched cells *)
Lemma swap_distinct d c1 c2 d' : swap d c1 c2 = Some d' -> c1 <> c2.
Proof.
  unfold swap. destruct (can_swap d c1 c2) as [[|]|] eqn:C; try discriminate. intros _ E. subst c2.
  unfold can_swap in C. destruct (find_row (d_rows d) c1 0) as [[[[[i1 r1] a1] m1] b1]|]; [|discriminate].
  rewrite Nat.eqb_refl in C. discriminate.
Qed.

Lemma swap_decomp d c1 c2 d' : swap d c1 c2 = Some d' ->
  exists ops, apply_all d ops = Some d' /\ prims ops [c1; c2].
Proof.
  unfold swap. destruct (can_swap d c1 c2) as [[|]|]; try discriminate.
  destruct (find_row (d_rows d) c1 0) as [[[[[i1 r1] a1] m1] b1]|]; [|discriminate].
  destruct (find_row (d_rows d) c2 0) as [[[[[i2 r2] a2] m2] b2]|]; [|discriminate].
  destruct (bounds_of r1 a1 b1) as [bb1 ba1]. destruct (bounds_of r2 a2 b2) as [bb2 ba2].
  destruct (if opt_nat_eqb (pred_of a1) (Some c2) then _ else _) as [x1 x2].
  destruct (unplace d c1) as [s1|] eqn:U1; [|discriminate].
  destruct (unplace s1 c2) as [s2|] eqn:U2; [|discriminate].
  assert (G : forall ida ra pa xa idb rb pb xb s3, In ida [c1; c2] -> In idb [c1; c2] ->
            place s2 ida ra pa xa = Some s3 -> place s3 idb rb pb xb = Some d' ->
            exists ops, apply_all d ops = Some d' /\ prims ops [c1; c2]).
  { intros ida ra pa xa idb rb pb xb s3 Ia Ib P1 P2.
    exists [MUnplace c1; MUnplace c2; MPlace ida ra pa xa; MPlace idb rb pb xb]. split.
    - cbn [apply_all apply_mop]. rewrite U1, U2, P1, P2. reflexivity.
    - repeat constructor; eexists; (split; [reflexivity|]); cbn [In]; tauto || assumption. }
  destruct (opt_nat_eqb (pred_of a1) (Some c2)).
  - destruct (place s2 c1 i2 _ x1) as [s3|] eqn:P1; [|discriminate]. intros P2.
    eapply G; [| |exact P1|exact P2]; cbn [In]; tauto.
  - destruct (opt_nat_eqb (pred_of a2) (Some c1)).
    + destruct (place s2 c2 i1 _ x2) as [s3|] eqn:P1; [|discriminate]. intros P2.
      eapply G; [| |exact P1|exact P2]; cbn [In]; tauto.
    + destruct (place s2 c1 i2 _ x1) as [s3|] eqn:P1; [|discriminate]. intros P2.
      eapply G; [| |exact P1|exact P2]; cbn [In]; tauto.
Qed.

Lemma insert_decomp d id rowi pred d' : insert d id rowi pred = Some d' ->
  exists ops, apply_all d ops = Some d' /\ prims ops [id].
Proof.
  unfold insert. destruct (can_insert d id rowi pred) as [[|]|]; try discriminate.
  destruct (find_row _ _ _) as [[[[[? ?] ?] c] ?]|]; [|discriminate].
  destruct (nth_error _ _) as [r|]; [|discriminate].
  destruct (split_site _ _) as [[sa sb]|]; [|discriminate].
  destruct (unplace d id) as [s1|] eqn:U; [|discriminate]. intros P.
  eexists [MUnplace id; MPlace id rowi pred _]. split.
  - cbn [apply_all apply_mop]. rewrite U, P. reflexivity.
  - repeat constructor; eexists; (split; [reflexivity|]); left; reflexivity.
Qed.

Lemma move_decomp d m d' : is_move m = true -> apply_mop d m = Some d' ->
  NoDup (touched m) /\ exists ops, apply_all d ops = Some d' /\ prims ops (touched m).
Proof.
  destruct m as [c1 c2|c rowi pred| |]; cbn [is_move apply_mop touched]; try discriminate; intros _ A.
  - split; [|exact (swap_decomp d c1 c2 d' A)]. pose proof (swap_distinct d c1 c2 d' A).
    constructor; [intros [E|[]]; congruence|]. constructor; [intros []|constructor].
  - split; [|exact (insert_decomp d c rowi pred d' A)]. constructor; [intros []|constructor].
Qed.

(* ------------------------------------------------------------------ *)
(* bestSwap / bestInsert / bestSwapUpdate *)
Lemma pscan_spec d (Q : mop -> Prop) cands : forall s0 s b, OInv s0 -> OInv s -> same_nets s s0 -> same_pos s s0 ->
  Forall Q cands ->
  (match b with Some m => Q m /\ exists ms, cand_moves d m = Some ms /\ ovalue (set_many s0 ms) < ovalue s0 | None => True end) ->
  let r := fold_left (fun (acc : ostate * option mop) m =>
     match cand_moves d m with
     | None => acc
     | Some ms => let r := value_on (fst acc) ms in
                  if fst r <? ovalue s0 then (snd r, Some m) else (snd r, snd acc)
     end) cands (s, b) in
  OInv (fst r) /\ same_nets (fst r) s0 /\ same_pos (fst r) s0 /\
  match snd r with Some m => Q m /\ exists ms, cand_moves d m = Some ms /\ ovalue (set_many s0 ms) < ovalue s0 | None => True end.
Proof.
  induction cands as [|m cands IH]; intros s0 s b H0 Hs SN SP HQ Hb; cbn [fold_left].
  - cbn zeta. cbn [fst snd]. tauto.
  - inversion HQ as [|? ? Qm HQ']; subst. destruct (cand_moves d m) as [ms|] eqn:CM; [|apply IH; assumption].
    cbn [fst snd]. destruct (value_on_pure s ms Hs) as (V & I & N & P & E). cbn zeta in *.
    assert (SN' : same_nets (snd (value_on s ms)) s0) by (destruct N, SN; split; congruence).
    assert (SP' : same_pos (snd (value_on s ms)) s0) by (destruct P, SP; split; congruence).
    destruct (Z.ltb_spec (fst (value_on s ms)) (ovalue s0)) as [Lt|Ge].
    + apply IH; try assumption. split; [exact Qm|]. exists ms. split; [exact CM|].
      rewrite V in Lt. destruct (set_many_ext s s0 ms Hs H0 SN SP) as [EQ _]. lia.
    + apply IH; assumption.
Qed.

Lemma coupled_same_pos c d o o' : same_pos o' o -> coupled c d o -> coupled c d o'.
Proof. intros [Px Py]. unfold coupled, cur_pos. rewrite Px, Py. tauto. Qed.

Lemma frozen_nets_trans c nets o o' : same_nets o' o -> frozen_nets c nets o -> frozen_nets c nets o'.
Proof. intros [A B] [C D]. split; congruence. Qed.

Lemma pbest_step c rh nets s cands : std_design c rh -> PInv c rh nets s -> forallb is_move cands = true ->
  PInv c rh nets (pbest s cands) /\ ovalue (ps_o (pbest s cands)) <= ovalue (ps_o s).
Proof.
  intros SD (HR & HI & Hl & ND & HO & HN & HC) HM. unfold pbest, pscan.
  assert (SN0 : same_nets (ps_o s) (ps_o s)) by (split; reflexivity).
  assert (SP0 : same_pos (ps_o s) (ps_o s)) by (split; reflexivity).
  assert (HQ : Forall (fun m => is_move m = true) cands) by (apply Forall_forall; apply forallb_forall; exact HM).
  pose proof (pscan_spec (ps_d s) _ cands (ps_o s) (ps_o s) None HO HO SN0 SP0 HQ I) as H. cbn zeta in H.
  destruct (fold_left _ cands (ps_o s, None)) as [o' [m|]]; cbn [fst snd] in H.
  - destruct H as (I1 & N1 & P1 & Qm & ms & CM & Lt). rewrite CM.
    unfold cand_moves in CM. destruct (apply_mop (ps_d s) m) as [d'|] eqn:A; [|discriminate].
    destruct (move_decomp _ m d' Qm A) as (NDt & ops & AO & PR).
    destruct (prims_frame ops _ d' _ AO PR ND) as (ND' & _ & FR).
    destruct (moves_at_spec d' _ ms CM) as [Ems Hms].
    destruct (set_many_spec ms o' I1) as (I2 & N2 & PX & PY).
    destruct (set_many_ext o' (ps_o s) ms I1 HO N1 P1) as [EQ _].
    assert (Est : step_mop (ps_d s) m = d') by (unfold step_mop; rewrite A; reflexivity).
    assert (HR' : Rel c rh d') by (rewrite <- Est; apply step_mop_rel; assumption).
    split; [|cbn [ps_o]; lia]. unfold PInv. cbn [ps_d ps_o].
    split; [exact HR'|]. split; [rewrite <- Est; apply step_inv; exact HI|].
    assert (Hl' : d_loose d' = []).
    { rewrite <- Hl, <- Est. apply (closed_step_loose (ps_d s) (DMop m)). destruct m; cbn in Qm |- *; congruence. }
    split; [exact Hl'|].
    split; [exact ND'|]. split; [exact I2|].
    split; [apply (frozen_nets_trans c nets (ps_o s)); [destruct N1, N2; split; congruence|exact HN]|].
    apply (coupled_update c (ps_d s) d' o' _ ms (coupled_same_pos c _ _ o' P1 HC) PX PY).
    + rewrite Ems. exact NDt.
    + exact Hms.
    + intros i Hi. apply in_map_iff in Hi as ([i' p] & E & Hin). cbn [fst] in E. subst i'.
      apply (held_lt c rh d' i HR'). rewrite (Hms i p Hin). discriminate.
    + rewrite Ems. exact FR.
  - destruct H as (I1 & N1 & P1 & _). split.
    + unfold PInv. cbn [ps_d ps_o]. split; [exact HR|]. split; [exact HI|]. split; [exact Hl|]. split; [exact ND|].
      split; [exact I1|]. split; [exact (frozen_nets_trans c nets _ o' N1 HN)|exact (coupled_same_pos c _ _ o' P1 HC)].
    + cbn [ps_o]. rewrite (ovalue_ext o' (ps_o s) I1 HO N1 P1). lia.
Qed.

(* ------------------------------------------------------------------ *)
(* with unique ids every cell of a row is the one cellPos finds *)
Lemma xat_entry l m : NoDup (map p_id l) -> In m l -> xat (p_id m) l = Some (p_x m).
Proof.
  induction l as [|c l IH]; cbn [map In]; [tauto|]. intros ND Hm. rewrite xat_cons.
  inversion ND as [|? ? Hn ND']; subst. destruct (Nat.eqb_spec (p_id c) (p_id m)) as [E|Hne].
  - destruct Hm as [->|Hm]; [reflexivity|]. exfalso. apply Hn. rewrite E. apply in_map. exact Hm.
  - destruct Hm as [->|Hm]; [congruence|]. exact (IH ND' Hm).
Qed.

Lemma pos_rows_entry rows r m : NoDup (map p_id (flat_map dr_cells rows)) -> In r rows -> In m (dr_cells r) ->
  pos_rows rows (p_id m) = Some (p_x m, dr_y r).
Proof.
  induction rows as [|r0 t IH]; cbn [flat_map In pos_rows]; [tauto|]. rewrite map_app. intros ND Hr Hm.
  apply NoDup_app_elim in ND as (N1 & N2 & D). destruct Hr as [->|Hr].
  - rewrite (xat_entry _ m N1 Hm). reflexivity.
  - rewrite (xat_none (p_id m) (dr_cells r0)); [exact (IH N2 Hr Hm)|].
    intros p Hp E. apply (D (p_id m)); [rewrite <- E; apply in_map; exact Hp|].
    apply in_map. apply in_flat_map. exists r. split; assumption.
Qed.

Lemma entry_pos d r m : NoDup (map p_id (cells_of d)) -> In r (d_rows d) -> In m (dr_cells r) ->
  pos_in d (p_id m) = Some (p_x m, dr_y r).
Proof.
  intros ND. unfold cells_of in ND. rewrite map_app in ND. apply NoDup_app_elim in ND as (N1 & _ & _).
  rewrite pos_in_rows. apply pos_rows_entry. exact N1.
Qed.

Lemma coupled_consistent c d o : NoDup (map p_id (cells_of d)) -> coupled c d o -> consistent d (ox o).
Proof.
  intros ND (_ & _ & _ & _ & Hh & _) r m Hr Hm. pose proof (Hh _ _ _ (entry_pos d r m ND Hr Hm)) as E.
  unfold cur_pos in E. injection E as E _. exact E.
Qed.

(* cellPos after a shift pass *)
Lemma xat_shift sel xf id l :
  xat id (map (move_cell (assign sel xf)) l) =
  match xat id l with Some x0 => Some (if mem id sel then xf id else x0) | None => None end.
Proof.
  induction l as [|c l IH]; cbn [map]; [reflexivity|]. rewrite !xat_cons. cbn [move_cell p_id p_x].
  destruct (Nat.eqb_spec (p_id c) id) as [E|_]; [|exact IH]. rewrite new_x_assign, E. reflexivity.
Qed.

Lemma pos_in_shift d sel xf id :
  pos_in (apply_shift d (assign sel xf)) id =
  match pos_in d id with Some (x0, y0) => Some (if mem id sel then xf id else x0, y0) | None => None end.
Proof.
  rewrite !pos_in_rows. unfold apply_shift. cbn [d_rows].
  induction (d_rows d) as [|r t IH]; cbn [map pos_rows]; [reflexivity|].
  cbn [set_cells dr_cells dr_y]. rewrite xat_shift. destruct (xat id (dr_cells r)); [reflexivity|exact IH].
Qed.

Lemma held_true d i : held d i = true -> pos_in d i <> None.
Proof. unfold held. destruct (pos_in d i); [discriminate|discriminate]. Qed.

Lemma mem_in c sel : mem c sel = true <-> In c sel.
Proof.
  unfold mem. rewrite existsb_exists. split.
  - intros (x & Hx & E). apply Nat.eqb_eq in E. subst x. exact Hx.
  - intros H. exists c. split; [exact H|apply Nat.eqb_refl].
Qed.

(* ------------------------------------------------------------------ *)
(* runShiftsOnCells *)
Lemma nth_written sel pos xf i : Forall (fun c => (c < length pos)%nat) sel ->
  nth i (write_pos pos (assign sel xf)) 0 = if mem i sel then xf i else nth i pos 0.
Proof.
  intros Hr. pose proof (ipin_pos_written sel pos xf (i, 0) Hr) as E. unfold ipin_pos, pin_at in E. cbn [fst snd] in E. lia.
Qed.

Lemma pshift_step c rh nets s sel pi f : std_design c rh -> PInv c rh nets s -> pstep_ok s (PShift sel pi f) ->
  PInv c rh nets (pshift s sel pi) /\ ovalue (ps_o (pshift s sel pi)) <= ovalue (ps_o s).
Proof.
  intros SD (HR & HI & Hl & ND & HO & HN & HC) [Hsel Hcert]. unfold pshift.
  pose proof (coupled_consistent c _ _ ND HC) as Hcons.
  assert (Hheld : forall i, In i sel -> pos_in (ps_d s) i <> None).
  { intros i Hi. apply held_true. rewrite forallb_forall in Hsel. exact (Hsel i Hi). }
  pose proof HC as (Lx & Ly & Zx & Zy & Hh & Hu).
  assert (Hrange : Forall (fun i => (i < length (ipos (ox (ps_o s))))%nat) sel).
  { apply Forall_forall. intros i Hi. pose proof (held_lt c rh _ i HR (Hheld i Hi)). lia. }
  destruct (shift_cert_step (ps_d s) (ps_o s) sel pi f HO HI Hcons Hrange Hcert) as (A1 & A2 & _ & A4 & A5 & A6 & _).
  cbn zeta in *. split; [|exact A5]. unfold PInv. cbn [ps_d ps_o].
  split; [apply shift_rel; exact HR|]. split; [exact A6|]. split; [exact Hl|].
  split; [apply (nodup_of_keys (ps_d s)); [rewrite shift_keys; apply Permutation_refl|exact ND]|].
  split; [exact A1|]. split; [exact (frozen_nets_trans c nets _ _ A2 HN)|].
  destruct (write_updates_spec (positions_of sel pi) (ox (ps_o s)) (proj1 HO)) as (_ & _ & PX & _).
  unfold coupled. cbn zeta. unfold cur_pos, oshift. cbn [ox oy]. rewrite PX.
  unfold positions_of. rewrite write_pos_eq, length_pos_after, <- write_pos_eq.
  assert (Hn : mem (length (cells c)) sel = false).
  { destruct (mem (length (cells c)) sel) eqn:M; [|reflexivity]. apply mem_in in M.
    pose proof (held_lt c rh _ _ HR (Hheld _ M)). lia. }
  split; [exact Lx|]. split; [exact Ly|].
  split; [rewrite (nth_written sel _ _ _ Hrange), Hn; exact Zx|]. split; [exact Zy|]. split.
  - intros i x y P. fold (positions_of sel pi) in P. unfold positions_of in P. rewrite pos_in_shift in P.
    destruct (pos_in (ps_d s) i) as [[x0 y0]|] eqn:P0; [|discriminate]. injection P as <- <-.
    pose proof (Hh i x0 y0 P0) as E. unfold cur_pos in E. injection E as E1 E2.
    rewrite (nth_written sel _ _ _ Hrange). rewrite E1, E2. reflexivity.
  - intros i k Hk P. fold (positions_of sel pi) in P. unfold positions_of in P. rewrite pos_in_shift in P.
    destruct (pos_in (ps_d s) i) as [[x0 y0]|] eqn:P0; [discriminate|].
    pose proof (Hu i k Hk P0) as E. unfold cur_pos in E.
    rewrite (nth_written sel _ _ _ Hrange).
    destruct (mem i sel) eqn:M; [|exact E]. apply mem_in in M. exfalso. exact (Hheld i M P0).
Qed.

(* ------------------------------------------------------------------ *)
(* the coupling after a refresh, when the models had been moved on the refreshed cells meanwhile (the
   search of RowReordering leaves the reordered cells anywhere) *)
Lemma coupled_update_agree c d d' o ob o' ms :
  coupled c d o -> agree_outside (map fst ms) ob o ->
  ipos (ox o') = pos_after (ipos (ox ob)) (xs_of ms) -> ipos (oy o') = pos_after (ipos (oy ob)) (ys_of ms) ->
  NoDup (map fst ms) ->
  (forall i p, In (i, p) ms -> pos_in d' i = Some p) ->
  (forall i, In i (map fst ms) -> (i < length (cells c))%nat) ->
  (forall j, ~ In j (map fst ms) -> pos_in d' j = pos_in d j) ->
  coupled c d' o'.
Proof.
  intros HC (Ax & Ay & Ag) Px Py ND Hms Hlt Hfr.
  set (om := {| ox := {| ipos := pos_after (ipos (ox o)) (xs_of ms); inets := inets (ox o); iminmax := iminmax (ox o); ivalue := ivalue (ox o) |};
                oy := {| ipos := pos_after (ipos (oy o)) (ys_of ms); inets := inets (oy o); iminmax := iminmax (oy o); ivalue := ivalue (oy o) |} |}).
  assert (HCm : coupled c d' om) by (apply (coupled_update c d d' o om ms HC); try assumption; reflexivity).
  apply (coupled_same_pos c d' om o'); [|exact HCm]. unfold same_pos, om. cbn [ox oy ipos]. rewrite Px, Py.
  split; apply list_ext_nth_error; intros j; rewrite !nth_error_pos_after.
  - destruct (last_assign (xs_of ms) j) as [v|] eqn:L.
    + assert (E : nth_error (ipos (ox ob)) j = None <-> nth_error (ipos (ox o)) j = None) by (rewrite !nth_error_None, Ax; tauto).
      destruct (nth_error (ipos (ox ob)) j), (nth_error (ipos (ox o)) j); try reflexivity; exfalso;
        [assert (Some z = None) by (apply E; reflexivity)|assert (Some z = None) by (apply E; reflexivity)]; discriminate.
    + apply last_assign_none in L. rewrite fst_xs_of in L. exact (proj1 (Ag j L)).
  - destruct (last_assign (ys_of ms) j) as [v|] eqn:L.
    + assert (E : nth_error (ipos (oy ob)) j = None <-> nth_error (ipos (oy o)) j = None) by (rewrite !nth_error_None, Ay; tauto).
      destruct (nth_error (ipos (oy ob)) j), (nth_error (ipos (oy o)) j); try reflexivity; exfalso;
        [assert (Some z = None) by (apply E; reflexivity)|assert (Some z = None) by (apply E; reflexivity)]; discriminate.
    + apply last_assign_none in L. rewrite fst_ys_of in L. exact (proj2 (Ag j L)).
Qed.

(* ------------------------------------------------------------------ *)
(* a sequence of successful place() calls *)
Definition pl_mop (p : placement) : mop := match p with (c, rowi, pred, x) => MPlace c rowi pred x end.

Lemma place_was_loose d id rowi pred x d' : place d id rowi pred x = Some d' -> NoDup (map p_id (cells_of d)) -> pos_in d id = None.
Proof.
  unfold place. destruct (take_loose id (d_loose d)) as [[c0 loose']|] eqn:T; [|discriminate]. intros _ ND.
  apply take_loose_id in T as [Tc Tid]. rewrite <- Tid. exact (loose_not_placed d c0 ND Tc).
Qed.

Lemma places_prims leaf : prims (map pl_mop leaf) (leaf_cells leaf).
Proof.
  unfold prims, leaf_cells. apply Forall_forall. intros m Hm. apply in_map_iff in Hm as ([[[c0 rowi] pred] x] & <- & Hin).
  exists c0. split; [reflexivity|]. apply in_map_iff. exists (c0, rowi, pred, x). split; [reflexivity|exact Hin].
Qed.

Lemma places_not_held leaf : forall d d', apply_all d (map pl_mop leaf) = Some d' -> NoDup (map p_id (cells_of d)) ->
  forall j, pos_in d j <> None -> ~ In j (leaf_cells leaf).
Proof.
  induction leaf as [|[[[c0 rowi] pred] x] t IH]; intros d d'; cbn [map pl_mop apply_all apply_mop leaf_cells pl_cell fst]; [intros _ _ j _ []|].
  destruct (place d c0 rowi pred x) as [d1|] eqn:P; [|discriminate]. intros At ND j Hj [E|Hin].
  - subst j. apply Hj. exact (place_was_loose d c0 rowi pred x d1 P ND).
  - destruct (place_pos d c0 rowi pred x d1 P ND) as (F & Pc & _).
    assert (ND1 : NoDup (map p_id (cells_of d1))) by (apply (apply_mop_nodup d (MPlace c0 rowi pred x)); [exact P|exact ND]).
    apply (IH d1 d' At ND1 j); [|exact Hin].
    destruct (Nat.eq_dec j c0) as [->|Hne]; [rewrite Pc; discriminate|rewrite (F j Hne); exact Hj].
Qed.

Lemma places_pos leaf : forall d d', apply_all d (map pl_mop leaf) = Some d' -> NoDup (map p_id (cells_of d)) ->
  NoDup (leaf_cells leaf) /\
  forall c0 rowi pred x, In (c0, rowi, pred, x) leaf -> pos_in d' c0 = Some (x, row_y d rowi).
Proof.
  induction leaf as [|[[[c0 rowi] pred] x] t IH]; intros d d'; cbn [map pl_mop apply_all apply_mop leaf_cells pl_cell fst].
  - intros _ _. split; [constructor|intros ? ? ? ? []].
  - destruct (place d c0 rowi pred x) as [d1|] eqn:P; [|discriminate]. intros At ND.
    destruct (place_pos d c0 rowi pred x d1 P ND) as (F & Pc & Y).
    assert (ND1 : NoDup (map p_id (cells_of d1))) by (apply (apply_mop_nodup d (MPlace c0 rowi pred x)); [exact P|exact ND]).
    destruct (IH d1 d' At ND1) as [NDt Ht].
    assert (Hnot : ~ In c0 (leaf_cells t)) by (apply (places_not_held t d1 d' At ND1); rewrite Pc; discriminate).
    split; [constructor; assumption|].
    intros c1 r1 p1 x1 [[= <- <- <- <-]|Hin].
    + destruct (prims_frame _ d1 d' _ At (places_prims t) ND1) as (_ & _ & FR). rewrite (FR c0 Hnot). exact Pc.
    + rewrite (Ht c1 r1 p1 x1 Hin). rewrite (Y r1). reflexivity.
Qed.

(* ------------------------------------------------------------------ *)
(* RowReordering::run *)
Lemma prscan_trans d leaves : forall o bv b,
  fold_left (fun (acc : ostate * Z * option (list pmove)) leaf =>
     let s1 := set_many (fst (fst acc)) leaf in
     if ovalue s1 <? snd (fst acc) then (s1, ovalue s1, Some leaf) else (s1, snd (fst acc), snd acc))
    (map (leaf_moves d) leaves) (o, bv, option_map (leaf_moves d) b) =
  let rp := fold_left (fun (acc : ostate * Z * option (list placement)) leaf =>
     let s1 := set_many (fst (fst acc)) (leaf_moves d leaf) in
     if ovalue s1 <? snd (fst acc) then (s1, ovalue s1, Some leaf) else (s1, snd (fst acc), snd acc))
    leaves (o, bv, b) in
  (fst (fst rp), snd (fst rp), option_map (leaf_moves d) (snd rp)).
Proof.
  induction leaves as [|leaf leaves IH]; intros o bv b; cbn [map fold_left]; [reflexivity|].
  cbn [fst snd]. destruct (ovalue (set_many o (leaf_moves d leaf)) <? bv).
  - exact (IH _ _ (Some leaf)).
  - exact (IH _ _ b).
Qed.

Lemma fst_leaf_moves d leaf : map fst (leaf_moves d leaf) = leaf_cells leaf.
Proof.
  unfold leaf_moves, leaf_cells. rewrite map_map. apply map_ext. intros [[[c0 rowi] pred] x]. reflexivity.
Qed.

Lemma dshifts_ok_mops ops : forall d, dshifts_ok d (map DMop ops).
Proof. induction ops as [|m t IH]; intros d; cbn [map dshifts_ok]; [exact I|]. split; [reflexivity|apply IH]. Qed.

Lemma same_row_y_trans d1 d2 d3 : same_row_y d1 d2 -> same_row_y d2 d3 -> same_row_y d1 d3.
Proof. intros A B j. rewrite (B j). apply A. Qed.

(* the write-back of a leaf: positions afterwards *)
Lemma wb_pos c rh d cs leaf d' : std_design c rh -> Rel c rh d -> Inv d -> NoDup (map p_id (cells_of d)) ->
  (forall j, In j (leaf_cells leaf) <-> In j cs) -> wb d cs leaf = Some d' ->
  Rel c rh d' /\ Inv d' /\ NoDup (map p_id (cells_of d')) /\ NoDup (leaf_cells leaf) /\
  (forall i p, In (i, p) (leaf_moves d leaf) -> pos_in d' i = Some p) /\
  (forall j, ~ In j (leaf_cells leaf) -> pos_in d' j = pos_in d j).
Proof.
  intros SD HR HI ND Hl W. unfold wb, wb_ops in W.
  pose proof (apply_all_run d _ d' W) as Erun.
  split; [rewrite <- Erun; apply run_dops_rel; assumption|].
  split; [rewrite <- Erun; apply run_dops_inv; [exact HI|apply dshifts_ok_mops]|].
  rewrite apply_all_app in W. destruct (apply_all d (map MUnplace cs)) as [d1|] eqn:U; [|discriminate].
  assert (PU : prims (map MUnplace cs) cs).
  { apply Forall_forall. intros m Hm. apply in_map_iff in Hm as (c0 & <- & Hc0). exists c0. split; [reflexivity|exact Hc0]. }
  destruct (prims_frame _ d d1 cs U PU ND) as (ND1 & Y1 & F1).
  change (map (fun p : placement => match p with (c0, rowi, pred, x) => MPlace c0 rowi pred x end) leaf) with (map pl_mop leaf) in W.
  destruct (prims_frame _ d1 d' _ W (places_prims leaf) ND1) as (ND' & _ & F2).
  destruct (places_pos leaf d1 d' W ND1) as [NDl Hp].
  split; [exact ND'|]. split; [exact NDl|]. split.
  - intros i p Hin. unfold leaf_moves in Hin. apply in_map_iff in Hin as ([[[c0 rowi] pred] x] & E & Hin). injection E as <- <-.
    rewrite (Hp c0 rowi pred x Hin). rewrite (Y1 rowi). reflexivity.
  - intros j Hj. rewrite (F2 j Hj). apply F1. intros Hc. apply Hj. apply Hl. exact Hc.
Qed.

Lemma preorder_step c rh nets s cs leaves : std_design c rh -> PInv c rh nets s -> pstep_ok s (PReorder cs leaves) ->
  PInv c rh nets (preorder s cs leaves) /\ ovalue (ps_o (preorder s cs leaves)) <= ovalue (ps_o s).
Proof.
  intros SD (HR & HI & Hl & ND & HO & HN & HC) (_ & HLeaves & Hwb).
  set (d := ps_d s) in *. set (o := ps_o s) in *.
  assert (HF : Forall (leaf_ok cs) (map (leaf_moves d) leaves)).
  { apply Forall_forall. intros lm Hlm. apply in_map_iff in Hlm as (leaf & <- & Hin).
    rewrite Forall_forall in HLeaves. unfold leaf_ok. rewrite fst_leaf_moves. exact (HLeaves leaf Hin). }
  assert (SN0 : same_nets o o) by (split; reflexivity).
  assert (AG0 : agree_outside cs o o) by (split; [reflexivity|split; [reflexivity|intros; split; reflexivity]]).
  pose proof (reorder_decreases o cs _ HO HF) as RD. cbn zeta in RD. unfold reorder, reorder_scan in RD.
  pose proof (reorder_scan_spec cs _ o o (ovalue o) None HO HO SN0 AG0 HF (Z.le_refl _) eq_refl) as RS. cbn zeta in RS.
  pose proof (prscan_trans d leaves o (ovalue o) None) as T. cbn [option_map] in T. cbn zeta in T.
  rewrite T in RD, RS. clear T. unfold preorder. fold d o. unfold prscan in Hwb |- *.
  revert RD RS Hwb.
  destruct (fold_left _ leaves (o, ovalue o, None)) as [[o' bv] [leaf|]]; cbn [fst snd option_map]; intros RD RS Hwb.
  - destruct RD as (I2 & N2 & Lt & _). destruct RS as (I1 & N1 & A1 & Hlk & _). destruct Hwb as (d' & W & Hl').
    rewrite W. unfold leaf_ok in Hlk. rewrite fst_leaf_moves in Hlk.
    destruct (wb_pos c rh d cs leaf d' SD HR HI ND Hlk W) as (HR' & HI' & ND' & NDl & Hms & Hfr).
    destruct (set_many_spec (leaf_moves d leaf) o' I1) as (_ & _ & PX & PY).
    split; [|specialize (Lt eq_refl); cbn [ps_o]; lia]. unfold PInv. cbn [ps_d ps_o].
    split; [exact HR'|]. split; [exact HI'|]. split; [exact Hl'|]. split; [exact ND'|]. split; [exact I2|].
    split; [exact (frozen_nets_trans c nets o _ N2 HN)|].
    apply (coupled_update_agree c d d' o o' _ (leaf_moves d leaf) HC); try assumption.
    + rewrite fst_leaf_moves. destruct A1 as (L1 & L2 & Ag). split; [exact L1|]. split; [exact L2|].
      intros j Hj. apply Ag. intros Hc. apply Hj. apply Hlk. exact Hc.
    + rewrite fst_leaf_moves. exact NDl.
    + intros i Hi. apply in_map_iff in Hi as ([i' p] & E & Hin). cbn [fst] in E. subst i'.
      apply (held_lt c rh d' i HR'). rewrite (Hms i p Hin). discriminate.
    + rewrite fst_leaf_moves. exact Hfr.
  - destruct RD as (I2 & N2 & _ & Eq). destruct (Eq eq_refl) as [EV SP].
    split; [|cbn [ps_o]; lia]. unfold PInv. cbn [ps_d ps_o].
    split; [exact HR|]. split; [exact HI|]. split; [exact Hl|]. split; [exact ND|]. split; [exact I2|].
    split; [exact (frozen_nets_trans c nets o _ N2 HN)|exact (coupled_same_pos c d o _ SP HC)].
Qed.

(* ------------------------------------------------------------------ *)
(* deliverable 1: every paired step keeps the invariant; the optimised value never increases *)
Theorem pstep_keeps_invariant c rh nets s st : std_design c rh -> PInv c rh nets s -> pstep_ok s st ->
  PInv c rh nets (pstep_run s st) /\ ovalue (ps_o (pstep_run s st)) <= ovalue (ps_o s).
Proof.
  intros SD HP Hok. destruct st as [cands|sel pi f|cs leaves]; cbn [pstep_run].
  - apply (pbest_step c rh nets s cands SD HP Hok).
  - apply (pshift_step c rh nets s sel pi f SD HP Hok).
  - apply (preorder_step c rh nets s cs leaves SD HP Hok).
Qed.

Theorem phist_keeps_invariant c rh nets l : forall s, std_design c rh -> PInv c rh nets s -> phist_ok s l ->
  PInv c rh nets (psteps_run s l) /\ ovalue (ps_o (psteps_run s l)) <= ovalue (ps_o s).
Proof.
  induction l as [|st l IH]; intros s SD HP Hok; cbn [psteps_run fold_left]; [split; [exact HP|lia]|].
  destruct Hok as [H1 H2]. destruct (pstep_keeps_invariant c rh nets s st SD HP H1) as [A B].
  destruct (IH _ SD A H2) as [C D]. change (fold_left pstep_run l (pstep_run s st)) with (psteps_run (pstep_run s st) l).
  split; [exact C|lia].
Qed.

Lemma psteps_run_app s l1 l2 : psteps_run s (l1 ++ l2) = psteps_run (psteps_run s l1) l2.
Proof. unfold psteps_run. apply fold_left_app. Qed.

Lemma phist_ok_app l1 : forall s l2, phist_ok s (l1 ++ l2) -> phist_ok s l1 /\ phist_ok (psteps_run s l1) l2.
Proof.
  induction l1 as [|st l1 IH]; intros s l2; cbn [app phist_ok psteps_run fold_left]; [tauto|].
  intros [H1 H2]. destruct (IH _ _ H2) as [A B]. split; [split; assumption|exact B].
Qed.

(* the exposed circuit of a state satisfying the invariant: its wirelength is the optimised value, and it is legal *)
Theorem exposed_value_inv c rh nets s :
  PInv c rh nets s -> orient_frozen c (ps_d s) -> int_pins (write_back c (ps_d s)) nets ->
  exposed_hpwl c nets s = ovalue (ps_o s).
Proof.
  intros (HR & _ & _ & _ & HO & HN & HC) HF HB. unfold exposed_hpwl. apply (exposed_value c rh); assumption.
Qed.

Theorem exposed_legal_inv c rh nets s : std_design c rh -> legal c -> PInv c rh nets s -> legal (write_back c (ps_d s)).
Proof. intros SD HL (HR & HI & Hl & _). apply (exposed_legal c rh); assumption. Qed.

(* deliverable 3: C05 on the exposed circuits *)
Theorem exposed_monotone c rh nets d0 l1 l2 :
  std_design c rh -> legal c -> from_circuit c = DOk d0 ->
  let s0 := {| ps_d := d0; ps_o := init_models c nets |} in
  phist_ok s0 (l1 ++ l2) ->
  let sj := psteps_run s0 l1 in
  let sk := psteps_run s0 (l1 ++ l2) in
  orient_frozen c (ps_d sj) -> orient_frozen c (ps_d sk) ->
  int_pins c nets -> int_pins (write_back c (ps_d sj)) nets -> int_pins (write_back c (ps_d sk)) nets ->
  exposed_hpwl c nets sk <= exposed_hpwl c nets sj <= hpwl_circuit c nets /\
  legal (write_back c (ps_d sj)) /\ legal (write_back c (ps_d sk)).
Proof.
  intros SD HL Hs s0 Hok sj sk Fj Fk B0 Bj Bk.
  pose proof (init_PInv c rh nets d0 SD HL Hs) as P0. fold s0 in P0.
  destruct (phist_ok_app l1 s0 l2 Hok) as [Ok1 Ok2].
  destruct (phist_keeps_invariant c rh nets l1 s0 SD P0 Ok1) as [Pj Vj]. fold sj in Pj, Vj.
  destruct (phist_keeps_invariant c rh nets l2 sj SD Pj Ok2) as [Pk Vk].
  assert (Ek : psteps_run sj l2 = sk) by (unfold sk, sj; rewrite psteps_run_app; reflexivity). rewrite Ek in Pk, Vk.
  rewrite (exposed_value_inv c rh nets sj Pj Fj Bj), (exposed_value_inv c rh nets sk Pk Fk Bk).
  rewrite <- (init_value c nets B0). change (init_models c nets) with (ps_o s0).
  split; [lia|]. split; apply (exposed_legal_inv c rh nets); assumption.
Qed.

(* what the first callback / a run without accepted move exposes is the legalized circuit itself *)
Theorem exposed_initial c rh d0 :
  std_design c rh -> legal c -> from_circuit c = DOk d0 ->
  orient_frozen c d0 /\ write_back c d0 = c.
Proof.
  intros SD HL Hs. destruct (from_circuit_structure c rh d0 SD HL Hs) as (_ & _ & _ & _ & Hall).
  assert (E : forall i k, nth_error (cells c) i = Some k -> export_cell d0 i k = k).
  { intros i k Hk. unfold export_cell. destruct (c_fixed k) eqn:Fx; [reflexivity|].
    destruct (find_row (d_rows d0) i 0) as [[[[[ri r] a] m] b]|] eqn:F; [|reflexivity].
    apply find_row_spec in F as (j & _ & N & Hc & Hid).
    assert (Hm : In m (dr_cells r)) by (rewrite Hc; apply in_or_app; right; left; reflexivity).
    destruct (Hall r m (nth_error_In _ _ N) Hm) as (k' & Hk' & _ & Em & Ey). rewrite Hid, Hk in Hk'. injection Hk' as <-.
    rewrite Em, Ey. cbn [cell_image p_x p_o]. rewrite <- Fx. destruct k; reflexivity. }
  split; [intros i k Hk _; rewrite (E i k Hk); reflexivity|].
  destruct c as [rws cs]. unfold write_back. cbn [rows cells] in *. f_equal.
  assert (G : forall l i0, (forall j k, nth_error l j = Some k -> export_cell d0 (i0 + j) k = k) -> map_from (export_cell d0) i0 l = l).
  { induction l as [|k t IH]; intros i0 H; cbn [map_from]; [reflexivity|]. f_equal.
    - specialize (H O k eq_refl). rewrite Nat.add_0_r in H. exact H.
    - apply IH. intros j k' Hj. replace (S i0 + j)%nat with (i0 + S j)%nat by lia. apply H. exact Hj. }
  apply G. intros j k Hj. apply E. exact Hj.
Qed.

(* ------------------------------------------------------------------ *)
(* int_pins of the exposed circuits from a condition on the input *)
Lemma exposed_int_pins c rh nets s :
  std_design c rh -> PInv c rh nets s -> orient_frozen c (ps_d s) -> int_pins c nets -> pins_fit c rh nets ->
  int_pins (write_back c (ps_d s)) nets.
Proof.
  intros SD (HR & HI & Hl & _) HF HB HP. pose proof (orient_frozen_same c rh _ HR HF) as HS.
  assert (G : forall net p, In net nets -> In p net ->
            INT_MIN <= cpin_x (write_back c (ps_d s)) p <= INT_MAX /\ INT_MIN <= cpin_y (write_back c (ps_d s)) p <= INT_MAX).
  { intros net p Hn Hp. destruct (HB net Hn) as [Bx By].
    pose proof (Bx _ (in_map (pin_px (hcells c)) net p Hp)) as Bx'. pose proof (By _ (in_map (pin_py (hcells c)) net p Hp)) as By'.
    rewrite pin_px_circuit in Bx'. rewrite pin_py_circuit in By'. unfold cpin_x, cpin_y in *.
    destruct (nth_error (cells c) (pc p)) as [k|] eqn:Ek.
    2:{ assert (E : nth_error (cells (write_back c (ps_d s))) (pc p) = None)
          by (apply nth_error_None; rewrite write_back_length; apply nth_error_None; exact Ek).
        rewrite E. split; assumption. }
    rewrite (write_back_nth_fwd c _ _ k Ek). destruct (export_cell_frame (ps_d s) (pc p) k) as (Ew & Eh & _).
    rewrite Ew, Eh, (HS _ k Ek).
    destruct (kept_dec rh k) as [Kk|Nk].
    2:{ rewrite (export_cell_absent _ _ k (not_kept_absent c rh _ _ k SD HR HI Ek Nk)). split; assumption. }
    destruct (kept_exported c rh _ _ k SD HR HI Hl Ek Kk) as
      (ri & r & a & m & b & sg & _ & _ & _ & _ & Hsg & _ & Ex & Ey & _ & _ & X0 & X1 & W & _).
    destruct (seg_shape c rh sg ri SD Hsg) as (_ & _ & r0 & Hr0 & _ & Ins & Y0). unfold inside in Ins.
    destruct Kk as [Fx Hh]. pose proof (HP net p k r0 Hn Hp Ek Fx Hh Hr0) as Q. cbn zeta in Q.
    rewrite Ex, Ey. lia. }
  intros net Hn. split; intros v Hv; apply in_map_iff in Hv as (p & <- & Hp);
    rewrite ?pin_px_circuit, ?pin_py_circuit; apply (G net p Hn Hp).
Qed.

(* deliverable 3 with hypotheses on the input only (apart from the F8 scope) *)
Theorem exposed_monotone_static c rh nets d0 l1 l2 :
  std_design c rh -> legal c -> from_circuit c = DOk d0 ->
  let s0 := {| ps_d := d0; ps_o := init_models c nets |} in
  phist_ok s0 (l1 ++ l2) ->
  let sj := psteps_run s0 l1 in
  let sk := psteps_run s0 (l1 ++ l2) in
  orient_frozen c (ps_d sj) -> orient_frozen c (ps_d sk) ->
  int_pins c nets -> pins_fit c rh nets ->
  exposed_hpwl c nets sk <= exposed_hpwl c nets sj <= hpwl_circuit c nets /\
  legal (write_back c (ps_d sj)) /\ legal (write_back c (ps_d sk)).
Proof.
  intros SD HL Hs s0 Hok sj sk Fj Fk B0 HP.
  pose proof (init_PInv c rh nets d0 SD HL Hs) as P0. fold s0 in P0.
  destruct (phist_ok_app l1 s0 l2 Hok) as [Ok1 _].
  destruct (phist_keeps_invariant c rh nets l1 s0 SD P0 Ok1) as [Pj _]. fold sj in Pj.
  destruct (phist_keeps_invariant c rh nets (l1 ++ l2) s0 SD P0 Hok) as [Pk _]. fold sk in Pk.
  apply (exposed_monotone c rh nets d0 l1 l2); try assumption.
  - apply (exposed_int_pins c rh nets sj); assumption.
  - apply (exposed_int_pins c rh nets sk); assumption.
Qed.

(* ------------------------------------------------------------------ *)
(* [R, known finding F8] the scope restriction cannot be dropped: the data of c05_frozen_offsets_refuted at circuit
   level.  Rows [0,1]x[0,4] (N) and [0,1]x[4,8] (FS); cell 0: 1 x 4, polarity SAME, pin at its lower-left corner,
   at (0,0) in the N row; cell 1: a fixed pin at (0,3).  bestInsert(0, row 1, {-1}) is accepted (optimised value
   3 -> 1); the cell is now FS, its pin is at its UPPER-left corner (0,8): Circuit::hpwl 3 -> 5. *)
Definition hp (c : nat) (x y : Z) : hpin := {| pc := c; pxo := x; pyo := y |}.
Definition w_f8 : circuit :=
  {| rows := [mkrow 0 1 0 4 oN; mkrow 0 1 4 8 oFS];
     cells := [mkcell 0 0 1 4 oN pSAME false true; mkcell 0 3 0 0 oN pANY true false] |}.
Definition w_f8_nets : list (list hpin) := [[hp 0 0 0; hp 1 0 0]].
Definition w_f8_hist : list pstep := [PBest [MInsert 0 1 None]].

Lemma w_f8_std : std_design w_f8 4.
Proof.
  split; [lia|]. split; [intros r [<-|[<-|[]]]; reflexivity|].
  split; [apply CircuitProofs.pairwise_disjointb_spec; vm_compute; reflexivity|].
  split; [intros r [<-|[<-|[]]]; reflexivity|].
  intros k Hk. vm_compute in Hk. destruct Hk as [<-|[]].
  split; [vm_compute; reflexivity|]. split; [exists 1%nat; split; [lia|vm_compute; reflexivity]|left; reflexivity].
Qed.

Theorem exposed_frozen_offsets_refuted :
  exists c rh nets d0 l,
    std_design c rh /\ legal c /\ from_circuit c = DOk d0 /\
    let s0 := {| ps_d := d0; ps_o := init_models c nets |} in
    phist_ok s0 l /\ int_pins c nets /\ int_pins (write_back c (ps_d (psteps_run s0 l))) nets /\
    legal (write_back c (ps_d (psteps_run s0 l))) /\
    ~ orient_frozen c (ps_d (psteps_run s0 l)) /\
    ovalue (ps_o (psteps_run s0 l)) < ovalue (ps_o s0) /\
    hpwl_circuit c nets < exposed_hpwl c nets (psteps_run s0 l).
Proof.
  exists w_f8, 4, w_f8_nets. eexists. exists w_f8_hist.
  split; [exact w_f8_std|]. split; [apply CircuitProofs.legalb_correct; vm_compute; reflexivity|].
  split; [vm_compute; reflexivity|]. cbn zeta.
  split; [cbn [phist_ok w_f8_hist pstep_ok]; split; [reflexivity|exact I]|].
  split; [apply int_pinsb_sound; vm_compute; reflexivity|].
  split; [apply int_pinsb_sound; vm_compute; reflexivity|].
  split; [apply CircuitProofs.legalb_correct; vm_compute; reflexivity|].
  split.
  - intros H. specialize (H 0%nat (mkcell 0 0 1 4 oN pSAME false true) eq_refl). vm_compute in H.
    assert (E : oFS = oN) by (apply H; discriminate). discriminate E.
  - split; vm_compute; reflexivity.
Qed.

Print Assumptions exposed_value.
Print Assumptions exposed_monotone.
Print Assumptions exposed_monotone_static.
Print Assumptions pstep_keeps_invariant.
Print Assumptions exposed_frozen_offsets_refuted.
