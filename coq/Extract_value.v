(* Extraction of the paired model of DetailedValue.v (row structure + the two net models) for the correspondence
   run PV of C05 (harness/dopt.cpp, ocaml/driver_value.ml, checks/c05_compose.py).
   ExtrOcamlBasic only; Z, positive, nat stay the extracted Coq datatypes.  No Extract Constant. *)
From Coq Require Import Extraction ExtrOcamlBasic ZArith List.
Require Import CV.Orient CV.FreeSpace CV.Circuit CV.Hpwl CV.Moves CV.Optimiser CV.DetailedInit CV.DetailedExport CV.DetailedValue.
Extraction Language OCaml.
Extraction "model_value.ml"
  DetailedInit.from_circuit DetailedValue.init_models DetailedValue.pbest DetailedValue.pscan DetailedExport.write_back
  Optimiser.ovalue DetailedValue.hpwl_circuit.
