(* C14 -- unbounded optimality of Transportation1d::solve(): the plan returned by the event sweep has minimum total
   cost sum a*|u_i - v_j| among ALL valid plans of the problem, for every input accepted by check().
   Architecture:
     A (Transp1dOptA1..A6): value-function invariant of run(): the positions p left by the push loop and
        flushPositions have cost Vf n (D_m - S_n), the optimum of the position problem (sources as contiguous
        blocks on the cumulative-demand axis, non-decreasing positions);
     M (Transp1dOptM1..M5): every feasible plan of the sorted problem costs at least Vf n (D_m - S_n):
        Kantorovich potential of the staircase plan with the same sink loads (LpCert), then a dynamic-programming
        bound over the sources with the best-window lemma (quasi-convexity of j |-> |u_i - v_j|);
     F (Transp1dOptF1, F2): the sorter yields a sorted problem; costs of plans are preserved by the relabelling. *)
From Coq Require Import List ZArith Lia Bool Arith.
Import ListNotations.
Require Import CV.LpCert CV.Transp1d CV.Transp1dProofs CV.Transp1dTerm CV.Transp1dCert CV.Transp1dOpt
               CV.Transp1dOptA1 CV.Transp1dOptA6 CV.Transp1dOptM5 CV.Transp1dOptF1 CV.Transp1dOptF2.
Local Open Scope Z_scope.

Lemma relabel_cost pb sol0 : let so := mk_sorter pb in let P := convert so pb in
  (forall i j a, In (i, j, a) sol0 -> (i < length (srcOrder so))%nat /\ (j < length (snkOrder so))%nat) ->
  plan_cost pb (convert_solution_back so sol0) = wsum (cost P) sol0.
Proof.
  intros so P. induction sol0 as [|[[i j] a] r IH]; intros Hr; [reflexivity|].
  cbn [convert_solution_back map plan_cost wsum]. fold (convert_solution_back so r).
  rewrite IH by (intros i' j' a' H; apply (Hr i' j' a'); right; exact H).
  destruct (Hr i j a (or_introl eq_refl)) as [Hi Hj].
  subst P so. rewrite (P_cost pb i j Hi Hj). reflexivity.
Qed.

(* the sorted problem: the positions computed by run() are optimal among all feasible plans (matrices) *)
Theorem run_optimal P p X : wf_sprob P -> sorted_sprob P -> run P = Some p -> feasible_mat P X ->
  pos_cost P 0 p <= mat_cost P X.
Proof.
  intros W So R F. rewrite (run_value P W So p R). apply plans_lower_bound; assumption.
Qed.

Theorem solve_optimal pb sol : solve pb = Ok sol ->
  forall sol', valid_plan pb sol' -> plan_cost pb sol <= plan_cost pb sol'.
Proof.
  unfold solve. destruct (check pb) eqn:Ck; [discriminate|]. apply check_none in Ck.
  set (so := mk_sorter pb). set (P := convert so pb).
  destruct (run P) as [p|] eqn:R; [|discriminate]. intros H sol' V'. inversion H; subst sol; clear H.
  pose proof (convert_wf pb Ck) as W. pose proof (convert_sorted pb Ck) as So. fold so in W, So. fold P in W, So.
  destruct (run_geom P p W R) as [Ln G].
  destruct (convert_sizes pb) as [Z1 Z2]. fold so in Z1, Z2. fold P in Z1, Z2.
  pose proof (relabel_cost pb (compute_solution P p)) as RC. cbv zeta in RC. fold so in RC. fold P in RC.
  rewrite RC.
  2:{ intros i j a Hin. apply (compute_solution_triples P p) in Hin. lia. }
  rewrite (compute_solution_cost P p W G Ln).
  rewrite <- (plan_mat_cost pb Ck sol' V'). fold so. fold P.
  apply (run_optimal P p _ W So R). apply (plan_feasible pb Ck sol' V').
Qed.
