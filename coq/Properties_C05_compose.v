(* C05, composition -- the wirelength of the CIRCUIT exposed by detailed placement (to be merged into
   Properties_C05.v).  Models: DetailedValue.v (Circuit::hpwl over Circuit.circuit, the two incremental
   models at construction, the coupling invariant between the row structure and the models, the paired
   steps bestSwap/bestInsert/bestSwapUpdate, runShiftsOnCells, RowReordering::run), on top of
   DetailedInit.from_circuit, DetailedExport.write_back, Optimiser.v, ShiftLp.v.
   Hypotheses that the property text does not spell out, and why they are there:
     int_pins          the pin coordinates of the circuits whose Circuit::hpwl is compared fit in a machine int
                       (true of every C++ state by typing; Circuit::hpwl and IncrNetModel start their min / max
                       loops from INT_MAX / INT_MIN, which is only exact on ints);
     orient_frozen     THE F8 SCOPE RESTRICTION: no cell with a row polarity has, in the exposed circuit, another
                       orientation than at construction (the models keep the pin offsets of that moment);
                       c05_exposed_frozen_offsets_refuted shows that it cannot be dropped;
     phist_ok          per step: best-move candidates are swaps / inserts; the cells of a shift pass / reordering
                       are cells of the rows; lemon's answer passes the proved certificate checker; the write-back
                       of a reordering is accepted by the structure (otherwise the C++ throws and exposes nothing). *)
From Coq Require Import List ZArith Lia Bool.
Import ListNotations.
Require Import CV.Orient CV.FreeSpace CV.Circuit CV.CircuitProofs CV.Hpwl CV.Moves CV.MovesProofs CV.MovesOrientProofs.
Require Import CV.Optimiser CV.OptimiserProofs CV.ShiftLp CV.ShiftLpProofs CV.LegalizerSoundProofs.
Require Import CV.DetailedInit CV.DetailedInitProofs CV.DetailedExport CV.DetailedExportProofs.
Require Import CV.DetailedValue CV.DetailedValueProofs CV.DetailedValueStepProofs.
Local Open Scope Z_scope.

(* [F] Circuit::hpwl over Circuit.circuit: the model through Hpwl.hpwl (C09) is the direct transcription of
   coloquinte.cpp 236-259 (x(cell) + pinXOffset, sentinels INT_MAX / INT_MIN, empty nets skipped) *)
Theorem c05_hpwl_circuit_is_circuit_hpwl : forall c nets, hpwl_circuit c nets = hpwl_direct c nets.
Proof. exact hpwl_circuit_direct. Qed.

(* [F] the coupling invariant holds after construction: DetailedPlacement::fromIspdCircuit + xTopology + yTopology
   of a legal circuit of the C01 domain (PInv: the structure stands for the circuit (C02's Rel), its rows are legal,
   no cell is unplaced, ids are unique, both models satisfy their invariant, their nets are the ones of
   construction, and `coupled`: x model = p_x, y model = y of the row for every cell in a row, circuit position for
   every other cell, the extra cell at 0) *)
Theorem c05_coupling_holds_at_construction : forall c rh nets d0,
  std_design c rh -> legal c -> from_circuit c = DOk d0 ->
  PInv c rh nets {| ps_d := d0; ps_o := init_models c nets |}.
Proof. exact init_PInv. Qed.

(* [F] every paired step keeps the invariant and does not increase the optimised value *)
Theorem c05_coupling_preserved_by_every_step : forall c rh nets s st,
  std_design c rh -> PInv c rh nets s -> pstep_ok s st ->
  PInv c rh nets (pstep_run s st) /\ ovalue (ps_o (pstep_run s st)) <= ovalue (ps_o s).
Proof. exact pstep_keeps_invariant. Qed.

Theorem c05_coupling_preserved_by_every_history : forall c rh nets l s,
  std_design c rh -> PInv c rh nets s -> phist_ok s l ->
  PInv c rh nets (psteps_run s l) /\ ovalue (ps_o (psteps_run s l)) <= ovalue (ps_o s).
Proof. exact phist_keeps_invariant. Qed.

(* [F] under the invariant, the two models hold exactly the positions of the exposed circuit *)
Theorem c05_models_hold_exposed_positions : forall c rh d o,
  Rel c rh d -> coupled c d o ->
  ipos (ox o) = map hx (hcells (write_back c d)) ++ [0] /\ ipos (oy o) = map hy (hcells (write_back c d)) ++ [0].
Proof. exact exposed_positions. Qed.

(* [F] value of the exposed circuit: Circuit::hpwl() after exportPlacement IS DetailedPlacer::value(), in the
   F8 scope (orient_frozen) *)
Theorem c05_exposed_hpwl_is_value : forall c rh nets s,
  PInv c rh nets s -> orient_frozen c (ps_d s) -> int_pins (write_back c (ps_d s)) nets ->
  hpwl_circuit (write_back c (ps_d s)) nets = ovalue (ps_o s).
Proof. exact exposed_value_inv. Qed.

(* [F] what is exposed before any accepted move is the legalized circuit itself *)
Theorem c05_exposed_initially : forall c rh d0,
  std_design c rh -> legal c -> from_circuit c = DOk d0 -> orient_frozen c d0 /\ write_back c d0 = c.
Proof. exact exposed_initial. Qed.

(* [F] C05, main: for every legal circuit of the C01 domain accepted by from_circuit and every history l1 ++ l2 of
   paired steps, the circuit exposed after l1 ++ l2 has a wirelength <= the one exposed after l1 <= the legalized
   one (successive callbacks, and the return), provided both exposed states are in the F8 scope; both circuits are
   legal (C02) *)
Theorem c05_exposed_wirelength_never_increases : forall c rh nets d0 l1 l2,
  std_design c rh -> legal c -> from_circuit c = DOk d0 ->
  let s0 := {| ps_d := d0; ps_o := init_models c nets |} in
  phist_ok s0 (l1 ++ l2) ->
  let sj := psteps_run s0 l1 in
  let sk := psteps_run s0 (l1 ++ l2) in
  orient_frozen c (ps_d sj) -> orient_frozen c (ps_d sk) ->
  int_pins c nets -> int_pins (write_back c (ps_d sj)) nets -> int_pins (write_back c (ps_d sk)) nets ->
  exposed_hpwl c nets sk <= exposed_hpwl c nets sj <= hpwl_circuit c nets /\
  legal (write_back c (ps_d sj)) /\ legal (write_back c (ps_d sk)).
Proof. exact exposed_monotone. Qed.

(* [F] the same with hypotheses on the INPUT only (apart from the F8 scope): int_pins of the legalized circuit and
   pins_fit (every pin of a movable row-high cell stays a machine int wherever the cell sits in a row) give int_pins
   at every exposed state of the F8 scope *)
Theorem c05_exposed_pins_stay_ints : forall c rh nets s,
  std_design c rh -> PInv c rh nets s -> orient_frozen c (ps_d s) -> int_pins c nets -> pins_fit c rh nets ->
  int_pins (write_back c (ps_d s)) nets.
Proof. exact exposed_int_pins. Qed.

Theorem c05_exposed_wirelength_never_increases_static : forall c rh nets d0 l1 l2,
  std_design c rh -> legal c -> from_circuit c = DOk d0 ->
  let s0 := {| ps_d := d0; ps_o := init_models c nets |} in
  phist_ok s0 (l1 ++ l2) ->
  let sj := psteps_run s0 l1 in
  let sk := psteps_run s0 (l1 ++ l2) in
  orient_frozen c (ps_d sj) -> orient_frozen c (ps_d sk) ->
  int_pins c nets -> pins_fit c rh nets ->
  exposed_hpwl c nets sk <= exposed_hpwl c nets sj <= hpwl_circuit c nets /\
  legal (write_back c (ps_d sj)) /\ legal (write_back c (ps_d sk)).
Proof. exact exposed_monotone_static. Qed.

(* [F] circuits without polarised cells are entirely in the F8 scope *)
Theorem c05_no_polarity_no_restriction : forall c d,
  (forall k, In k (cells c) -> c_pol k = pANY) -> orient_frozen c d.
Proof. exact orient_frozen_any. Qed.

(* [R, known finding F8] the hypothesis orient_frozen cannot be dropped: a legal two-row circuit, one polarised cell,
   one accepted bestInsert: every other hypothesis of c05_exposed_wirelength_never_increases holds, the optimised
   value DEcreases (3 -> 1) and Circuit::hpwl of the exposed (legal) circuit INcreases (3 -> 5) *)
Theorem c05_exposed_frozen_offsets_refuted :
  exists c rh nets d0 l,
    std_design c rh /\ legal c /\ from_circuit c = DOk d0 /\
    let s0 := {| ps_d := d0; ps_o := init_models c nets |} in
    phist_ok s0 l /\ int_pins c nets /\ int_pins (write_back c (ps_d (psteps_run s0 l))) nets /\
    legal (write_back c (ps_d (psteps_run s0 l))) /\
    ~ orient_frozen c (ps_d (psteps_run s0 l)) /\
    ovalue (ps_o (psteps_run s0 l)) < ovalue (ps_o s0) /\
    hpwl_circuit c nets < exposed_hpwl c nets (psteps_run s0 l).
Proof. exact exposed_frozen_offsets_refuted. Qed.

(* non-vacuity: rows [0,20]x[0,2] (N) and [0,20]x[2,4] (FS); movable 2x2 cells WITHOUT polarity A = 0 at (0,0),
   B = 1 at (10,2), C = 2 at (14,0); fixed pins 3 at (9,3), 4 at (9,0), 5 at (11,1); nets {A.(1,1), 3}, {B.(1,1), 4},
   {C.(0,0), 5}.  History: bestSwap(A, {B}) -- a swap ACROSS ROWS, accepted: A -> (9,2), B -> (6,0), wirelength
   19 -> 8 --, then runShiftsOnCells({B, C}) with an accepted certificate: B -> 8, C -> 11, wirelength 8 -> 3.
   All hypotheses of c05_exposed_wirelength_never_increases hold at both exposed states; the numbers are computed
   on the exposed circuits (Circuit::hpwl) and agree with the optimised value. *)
Definition ex5 : circuit :=
  {| rows := [mkrow 0 20 0 2 oN; mkrow 0 20 2 4 oFS];
     cells := [mkcell 0 0 2 2 oN pANY false true; mkcell 10 2 2 2 oN pANY false true; mkcell 14 0 2 2 oN pANY false true;
               mkcell 9 3 0 0 oN pANY true false; mkcell 9 0 0 0 oN pANY true false; mkcell 11 1 0 0 oN pANY true false] |}.
Definition ex5_nets : list (list hpin) := [[hp 0 1 1; hp 3 0 0]; [hp 1 1 1; hp 4 0 0]; [hp 2 0 0; hp 5 0 0]].
Definition ex5_pi (n : snode) : Z :=
  match n with NCell 1 => 8 | NCell 2 => 11 | NL 1 => 9 | NU 1 => 9 | NL 2 => 11 | NU 2 => 11 | _ => 0 end.
Definition ex5_flow : list Z := [0; 0; 0; 0; 0; 1; 1; 0; 0; 1; 1].
Definition ex5_l1 : list pstep := [PBest [MSwap 0 1]].
Definition ex5_l2 : list pstep := [PShift [1%nat; 2%nat] ex5_pi ex5_flow].

Example c05_compose_nonvacuous :
  std_design ex5 2 /\ legal ex5 /\ (forall k, In k (cells ex5) -> c_pol k = pANY) /\
  exists d0, from_circuit ex5 = DOk d0 /\
    let s0 := {| ps_d := d0; ps_o := init_models ex5 ex5_nets |} in
    let sj := psteps_run s0 ex5_l1 in
    let sk := psteps_run s0 (ex5_l1 ++ ex5_l2) in
    phist_ok s0 (ex5_l1 ++ ex5_l2) /\
    orient_frozen ex5 (ps_d sj) /\ orient_frozen ex5 (ps_d sk) /\
    int_pins ex5 ex5_nets /\ int_pins (write_back ex5 (ps_d sj)) ex5_nets /\ int_pins (write_back ex5 (ps_d sk)) ex5_nets /\
    map (fun k => (c_x k, c_y k)) (cells (write_back ex5 (ps_d sj))) = [(9, 2); (6, 0); (14, 0); (9, 3); (9, 0); (11, 1)] /\
    map (fun k => (c_x k, c_y k)) (cells (write_back ex5 (ps_d sk))) = [(9, 2); (8, 0); (11, 0); (9, 3); (9, 0); (11, 1)] /\
    hpwl_circuit ex5 ex5_nets = 19 /\ exposed_hpwl ex5 ex5_nets sj = 8 /\ exposed_hpwl ex5 ex5_nets sk = 3 /\
    ovalue (ps_o s0) = 19 /\ ovalue (ps_o sj) = 8 /\ ovalue (ps_o sk) = 3.
Proof.
  assert (HA : forall k, In k (cells ex5) -> c_pol k = pANY).
  { intros k Hk. vm_compute in Hk. repeat (destruct Hk as [<-|Hk]; [reflexivity|]). destruct Hk. }
  assert (SD : std_design ex5 2).
  { split; [lia|]. split; [intros r [<-|[<-|[]]]; reflexivity|].
    split; [apply pairwise_disjointb_spec; vm_compute; reflexivity|].
    split; [intros r [<-|[<-|[]]]; reflexivity|].
    intros k Hk. vm_compute in Hk.
    repeat (destruct Hk as [<-|Hk];
            [split; [vm_compute; reflexivity|]; split; [exists 1%nat; split; [lia|vm_compute; reflexivity]|left; reflexivity]|]).
    destruct Hk. }
  split; [exact SD|]. split; [apply legalb_correct; vm_compute; reflexivity|]. split; [exact HA|].
  eexists. split; [vm_compute; reflexivity|]. cbn zeta.
  split.
  { cbn [app ex5_l1 ex5_l2 phist_ok pstep_ok]. split; [reflexivity|]. split; [|exact I].
    split; vm_compute; reflexivity. }
  split; [apply orient_frozen_any; exact HA|]. split; [apply orient_frozen_any; exact HA|].
  split; [apply int_pinsb_sound; vm_compute; reflexivity|].
  split; [apply int_pinsb_sound; vm_compute; reflexivity|].
  split; [apply int_pinsb_sound; vm_compute; reflexivity|].
  vm_compute. repeat split; reflexivity.
Qed.

Example c05_compose_static_nonvacuous : int_pins ex5 ex5_nets /\ pins_fit ex5 2 ex5_nets.
Proof.
  split; [apply int_pinsb_sound; vm_compute; reflexivity|].
  intros net p k r Hn Hp Hk Fx Hh Hr.
  destruct Hn as [<-|[<-|[<-|[]]]]; destruct Hp as [<-|[<-|[]]]; vm_compute in Hk; injection Hk as <-; try discriminate Fx;
    destruct Hr as [<-|[<-|[]]]; vm_compute; repeat split; discriminate.
Qed.

Print Assumptions c05_hpwl_circuit_is_circuit_hpwl.
Print Assumptions c05_coupling_holds_at_construction.
Print Assumptions c05_coupling_preserved_by_every_step.
Print Assumptions c05_coupling_preserved_by_every_history.
Print Assumptions c05_models_hold_exposed_positions.
Print Assumptions c05_exposed_hpwl_is_value.
Print Assumptions c05_exposed_initially.
Print Assumptions c05_exposed_wirelength_never_increases.
Print Assumptions c05_exposed_pins_stay_ints.
Print Assumptions c05_exposed_wirelength_never_increases_static.
Print Assumptions c05_no_polarity_no_restriction.
Print Assumptions c05_exposed_frozen_offsets_refuted.
