(* C05, composition -- the wirelength of the CIRCUIT exposed by detailed placement (to be merged into
   Properties_C05.v).  Models: DetailedValue.v (Circuit::hpwl over Circuit.circuit, the two incremental
   models at construction, the coupling invariant between the row structure and the models, the paired
   steps bestSwap/bestInsert/bestSwapUpdate, runShiftsOnCells, RowReordering::run), on top of
   DetailedInit.from_circuit, DetailedExport.write_back, Optimiser.v, ShiftLp.v.
   Hypotheses that the property text does not spell out, and why they are there:
     int_pins          the pin coordinates of the circuits whose Circuit::hpwl is compared fit in a machine int
                       (true of every C++ state by typing; Circuit::hpwl and IncrNetModel start their min / max
                       loops from INT_MAX / INT_MIN, which is only exact on ints);
     orient_frozen     THE F8 SCOPE RESTRICTION: no cell with a row polarity has, in the exposed circuit, another
                       orientation than at construction (the models keep the pin offsets of that moment);
                       c05_exposed_frozen_offsets_refuted shows that it cannot be dropped;
     phist_ok          per step: best-move candidates are swaps / inserts; the cells of a shift pass / reordering
                       are cells of the rows; lemon's answer passes the proved certificate checker; the write-back
                       of a reordering is accepted by the structure (otherwise the C++ throws and exposes nothing). *)
From Coq Require Import List ZArith Lia Bool.
Import ListNotations.
Require Import CV.Orient CV.FreeSpace CV.Circuit CV.CircuitProofs CV.Hpwl CV.Moves CV.MovesProofs CV.MovesOrientProofs.
Require Import CV.Optimiser CV.OptimiserProofs CV.ShiftLp CV.ShiftLpProofs CV.LegalizerSoundProofs.
Require Import CV.DetailedInit CV.DetailedInitProofs CV.DetailedExport CV.DetailedExportProofs.
Require Import CV.DetailedValue CV.DetailedValueProofs CV.DetailedValueStepProofs.
Local Open Scope Z_scope.

(* [F] Circuit::hpwl over Circuit.circuit: the model through Hpwl.hpwl (C09) is the direct transcription of
   coloquinte.cpp 236-259 (x(cell) + pinXOffset, sentinels INT_MAX / INT_MIN, empty nets skipped) *)
Theorem c05_hpwl_circuit_is_circuit_hpwl : forall c nets, hpwl_circuit c nets = hpwl_direct c nets.
Proof. exact hpwl_circuit_direct. Qed.

(* [F] the coupling invariant holds after construction: DetailedPlacement::fromIspdCircuit + xTopology + yTopology
   of a legal circuit of the C01 domain (PInv: the structure stands for the circuit (C02's Rel), its rows are legal,
   no cell is unplaced, ids are unique, both models satisfy their invariant, their nets are the ones of
   construction, and `coupled`: x model = p_x, y model = y of the row for every cell in a row, circuit position for
   every other cell, the extra cell at 0) *)
Theorem c05_coupling_holds_at_construction : forall c rh nets d0,
  std_design c rh -> legal c -> from_circuit c = DOk d0 ->
  PInv c rh nets {| ps_d := d0; ps_o := init_models c nets |}.
Proof. exact init_PInv. Qed.

(* [F] every paired step keeps the invariant and does not increase the optimised value *)
Theorem c05_coupling_preserved_by_every_step : forall c rh nets s st,
  std_design c rh -> PInv c rh nets s -> pstep_ok s st ->
  PInv c rh nets (pstep_run s st) /\ ovalue (ps_o (pstep_run s st)) <= ovalue (ps_o s).
Proof. exact pstep_keeps_invariant. Qed.

Theorem c05_coupling_preserved_by_every_history : forall c rh nets l s,
  std_design c rh -> PInv c rh nets s -> phist_ok s l ->
  PInv c rh nets (psteps_run s l) /\ ovalue (ps_o (psteps_run s l)) <= ovalue (ps_o s).
Proof. exact phist_keeps_invariant. Qed.

(* [F] under the invariant, the two models hold exactly the positions of the exposed circuit *)
Theorem c05_models_hold_exposed_positions : forall c rh d o,
  Rel c rh d -> coupled c d o ->
  ipos (ox o) = map hx (hcells (write_back c d)) ++ [0] /\ ipos (oy o) = map hy (hcells (write_back c d)) ++ [0].
Proof. exact exposed_positions. Qed.

(* [F] value of the exposed circuit: Circuit::hpwl() after exportPlacement IS DetailedPlacer::value(), in the
   F8 scope (orient_frozen) *)
Theorem c05_exposed_hpwl_is_value : forall c rh nets s,
  PInv c rh nets s -> orient_frozen c (ps_d s) -> int_pins (write_back c (ps_d s)) nets ->
  hpwl_circuit (write_back c (ps_d s)) nets = ovalue (ps_o s).
Proof. exact exposed_value_inv. Qed.

(* [F] what is exposed before any accepted move is the legalized circuit itself *)
Theorem c05_exposed_initially : forall c rh d0,
  std_design c rh -> legal c -> from_circuit c = DOk d0 -> orient_frozen c d0 /\ write_back c d0 = c.
Proof. exact exposed_initial. Qed.

(* [F] C05, main: for every legal circuit of the C01 domain accepted by from_circuit and every history l1 ++ l2 of
   paired steps, the circuit exposed after l1 ++ l2 has a wirelength <= the one exposed after l1 <= the legalized
   one (successive callbacks, and the return), provided both exposed states are in the F8 scope; both circuits are
   legal (C02) *)
Theorem c05_exposed_wirelength_never_increases : forall c rh nets d0 l1 l2,
  std_design c rh -> legal c -> from_circuit c = DOk d0 ->
  let s0 := {| ps_d := d0; ps_o := init_models c nets |} in
  phist_ok s0 (l1 ++ l2) ->
  let sj := psteps_run s0 l1 in
  let sk := psteps_run s0 (l1 ++ l2) in
  orient_frozen c (ps_d sj) -> orient_frozen c (ps_d sk) ->
  int_pins c nets -> int_pins (write_back c (ps_d sj)) nets -> int_pins (write_back c (ps_d sk)) nets ->
  exposed_hpwl c nets sk <= exposed_hpwl c nets sj <= hpwl_circuit c nets /\
  legal (write_back c (ps_d sj)) /\ legal (write_back c (ps_d sk)).
Proof. exact exposed_monotone. Qed.

(* [F] circuits without polarised cells are entirely in the F8 scope *)
Theorem c05_no_polarity_no_restriction : forall c d,
  (forall k, In k (cells c) -> c_pol k = pANY) -> orient_frozen c d.
Proof. exact orient_frozen_any. Qed.
