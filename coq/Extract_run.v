(* Extraction of the closed model of DetailedPlacer::run() and its passes (DetailedRun.v) together with the paired model of
   DetailedValue.v and the closed reordering pass of Reorder.v, for the correspondence runs RN / RW of C02 / C05
   (harness/drun.cpp, ocaml/driver_run.ml, checks/c02_run.py).  ExtrOcamlBasic only; Z, positive, nat stay the extracted
   Coq datatypes.  No Extract Constant. *)
From Coq Require Import Extraction ExtrOcamlBasic ZArith List.
Require Import CV.Orient CV.FreeSpace CV.Circuit CV.Hpwl CV.Moves CV.Optimiser CV.DetailedInit CV.DetailedExport CV.DetailedValue.
Require Import CV.ShiftLp CV.RowNeigh CV.Reorder CV.DetailedRun.
Extraction Language OCaml.
Extraction "model_run.ml"
  DetailedInit.from_circuit DetailedValue.init_models DetailedExport.write_back Optimiser.ovalue
  DetailedRun.run_swaps DetailedRun.run_reordering DetailedRun.run_passes DetailedRun.place_detailed_model
  DetailedRun.row_ids DetailedRun.params_ok DetailedRun.run_passes_c DetailedRun.place_detailed_model_c.
