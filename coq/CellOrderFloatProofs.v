(* C11 -- proofs about the binary32 model of computeCellOrder (CellOrderFloat.v, Flocq).  Every lemma is closed by
   Qed; the axioms of the standard library's real numbers (ClassicalDedekindReals.sig_forall_dec, sig_not_dec,
   FunctionalExtensionality.functional_extensionality_dep, Classical_Prop.classic) are inherited from Coq.Reals through
   Flocq -- the same four as the C06 float development, no other.
   Practical note: never call lia / lra-on-Z in a context that contains `is_finite (fmul ...) = true` hypotheses (zify
   tries to evaluate them and does not come back): the integer facts are derived first. *)
From Coq Require Import ZArith Reals Psatz Lra Lia List Bool Permutation Sorted.
From Flocq Require Import Core BinarySingleNaN.
Import ListNotations.
Require Import CV.Orient CV.FreeSpace CV.RowLeg CV.RowLegFixProofs CV.Circuit CV.CircuitProofs CV.Legalizer CV.LegalizerProofs CV.LegalizerAbacusProofs
               CV.LegalizerSoundProofs CV.LegalizerTrivialProofs CV.LegalizerIdempotentProofs
               CV.CellOrder CV.CellOrderProofs CV.SpreadFloat CV.SpreadFloatProofs CV.CellOrderFloat.
Local Open Scope R_scope.

Local Instance prec24' : Prec_gt_0 24 := p24.
Local Instance valid32' : Valid_exp fexp32 := FLT_exp_valid (-149) 24.
Local Instance prec24_128' : Prec_lt_emax 24 128 := p24_128.

(* ------------------------------------------------------------------ half an ulp, absolute form *)
(* |x| <= 2^e  ==>  |rnd32 x - x| <= 2^(e-25)   (e >= -125: the bound is at least half the subnormal spacing) *)
Lemma rnd32_err_pow : forall (x : R) (e : Z), (-125 <= e)%Z -> Rabs x <= bpow radix2 e ->
  Rabs (rnd32 x - x) <= bpow radix2 (e - 25).
Proof.
  intros x e He Hx.
  destruct (Req_dec x 0) as [->|N0].
  { rewrite rnd32_0. replace (0 - 0) with 0 by ring. rewrite Rabs_R0. apply bpow_ge_0. }
  destruct (Rle_lt_or_eq_dec _ _ Hx) as [Hlt|Heq].
  - pose proof (error_le_half_ulp radix2 fexp32 (fun z => negb (Z.even z)) x) as H.
    fold (rnd32 x) in H. eapply Rle_trans; [exact H|].
    rewrite ulp_neq_0 by exact N0.
    assert (Hm : (mag radix2 x <= e)%Z) by (apply mag_le_bpow; [exact N0|exact Hlt]).
    assert (Hc : (cexp radix2 fexp32 x <= e - 24)%Z) by (unfold cexp, FLT_exp; lia).
    apply Rle_trans with (/ 2 * bpow radix2 (e - 24)).
    + apply Rmult_le_compat_l; [lra|]. apply bpow_le. exact Hc.
    + change (/ 2) with (bpow radix2 (-1)). rewrite <- bpow_plus.
      replace (-1 + (e - 24))%Z with (e - 25)%Z by ring. apply Rle_refl.
  - (* |x| = 2^e is a binary32 value *)
    assert (F : fmt32 x).
    { assert (Fp : fmt32 (bpow radix2 e)) by (apply fmt32_bpow; lia).
      destruct (Rle_or_lt 0 x) as [P|P].
      - rewrite Rabs_pos_eq in Heq by exact P. rewrite Heq. exact Fp.
      - rewrite Rabs_left in Heq by exact P. replace x with (- bpow radix2 e) by lra.
        apply generic_format_opp. exact Fp. }
    rewrite (rnd32_id x F). replace (x - x) with 0 by ring. rewrite Rabs_R0. apply bpow_ge_0.
Qed.

Lemma rnd32_abs_pow : forall (x : R) (e : Z), (-149 <= e)%Z -> Rabs x <= bpow radix2 e ->
  Rabs (rnd32 x) <= bpow radix2 e.
Proof. intros x e He H. apply rnd32_abs_le; [apply fmt32_bpow; exact He|exact H]. Qed.

Lemma bpow2_double : forall e, 2 * bpow radix2 e = bpow radix2 (e + 1).
Proof. intros e. rewrite bpow_plus. change (bpow radix2 1) with 2. ring. Qed.

Lemma IZR_abs_pow : forall (z : Z) (k : Z), (0 <= k)%Z -> (Z.abs z <= 2 ^ k)%Z -> Rabs (IZR z) <= bpow radix2 k.
Proof.
  intros z k Hk H. rewrite <- abs_IZR. apply Rle_trans with (IZR (2 ^ k)); [apply IZR_le; exact H|].
  rewrite (IZR_Zpower radix2) by exact Hk. apply Rle_refl.
Qed.

(* ------------------------------------------------------------------ the key over the reals: four roundings *)
(* |key_R - key_ref| <= 2^-5 + 2^-4 + 2^-3 + 2^-2 = 15/32 and |key_R| <= 2^23, for
   |x|, |w| <= 2^20, 0 <= ww <= 1, |t3| <= 2^21, |t4| <= 2^22 *)
Lemma key_R_err : forall (ww t3 t4 : R) (x w : Z),
  0 <= ww <= 1 -> (Z.abs x <= 2 ^ 20)%Z -> (Z.abs w <= 2 ^ 20)%Z ->
  Rabs t3 <= bpow radix2 21 -> Rabs t4 <= bpow radix2 22 ->
  Rabs (key_R ww t3 t4 x w - key_ref ww t3 t4 x w) <= key_eps /\
  Rabs (rnd32 (ww * IZR w)) <= bpow radix2 20 /\
  Rabs (rnd32 (IZR x + rnd32 (ww * IZR w))) <= bpow radix2 21 /\
  Rabs (rnd32 (rnd32 (IZR x + rnd32 (ww * IZR w)) + t3)) <= bpow radix2 22 /\
  Rabs (key_R ww t3 t4 x w) <= bpow radix2 23.
Proof.
  intros ww t3 t4 x w Hww Hx Hw H3 H4.
  pose proof (IZR_abs_pow x 20 ltac:(lia) Hx) as Bx.
  pose proof (IZR_abs_pow w 20 ltac:(lia) Hw) as Bw.
  unfold key_R, key_ref, key_eps.
  set (p := ww * IZR w). set (a := rnd32 p).
  assert (Bp : Rabs p <= bpow radix2 20).
  { unfold p. rewrite Rabs_mult, <- (Rmult_1_l (bpow radix2 20)).
    apply Rmult_le_compat; [apply Rabs_pos|apply Rabs_pos|rewrite Rabs_pos_eq; lra|exact Bw]. }
  pose proof (rnd32_err_pow p 20 ltac:(lia) Bp) as Ea. fold a in Ea.
  pose proof (rnd32_abs_pow p 20 ltac:(lia) Bp) as Ba. fold a in Ba.
  set (s1 := IZR x + a). set (b := rnd32 s1).
  assert (Bs1 : Rabs s1 <= bpow radix2 21).
  { unfold s1. eapply Rle_trans; [apply Rabs_triang|]. change (bpow radix2 21) with (bpow radix2 (20 + 1)). rewrite <- (bpow2_double 20). lra. }
  pose proof (rnd32_err_pow s1 21 ltac:(lia) Bs1) as Eb. fold b in Eb.
  pose proof (rnd32_abs_pow s1 21 ltac:(lia) Bs1) as Bb. fold b in Bb.
  set (s2 := b + t3). set (c := rnd32 s2).
  assert (Bs2 : Rabs s2 <= bpow radix2 22).
  { unfold s2. eapply Rle_trans; [apply Rabs_triang|]. change (bpow radix2 22) with (bpow radix2 (21 + 1)). rewrite <- (bpow2_double 21). lra. }
  pose proof (rnd32_err_pow s2 22 ltac:(lia) Bs2) as Ec. fold c in Ec.
  pose proof (rnd32_abs_pow s2 22 ltac:(lia) Bs2) as Bc. fold c in Bc.
  set (s3 := c + t4). set (d := rnd32 s3).
  assert (Bs3 : Rabs s3 <= bpow radix2 23).
  { unfold s3. eapply Rle_trans; [apply Rabs_triang|]. change (bpow radix2 23) with (bpow radix2 (22 + 1)). rewrite <- (bpow2_double 22). lra. }
  pose proof (rnd32_err_pow s3 23 ltac:(lia) Bs3) as Ed. fold d in Ed.
  pose proof (rnd32_abs_pow s3 23 ltac:(lia) Bs3) as Bd. fold d in Bd.
  split; [|split; [exact Ba|split; [exact Bb|split; [exact Bc|exact Bd]]]].
  replace (d - (IZR x + p + t3 + t4)) with ((d - s3) + (c - s2) + (b - s1) + (a - p))
    by (unfold s3, s2, s1; ring).
  change (bpow radix2 (20 - 25)) with (/ 32) in Ea. change (bpow radix2 (21 - 25)) with (/ 16) in Eb.
  change (bpow radix2 (22 - 25)) with (/ 8) in Ec. change (bpow radix2 (23 - 25)) with (/ 4) in Ed.
  eapply Rle_trans; [apply Rabs_triang|]. eapply Rle_trans; [apply Rplus_le_compat_r; apply Rabs_triang|].
  eapply Rle_trans; [apply Rplus_le_compat_r; apply Rplus_le_compat_r; apply Rabs_triang|]. lra.
Qed.

(* two cells of one row: same t3, t4, the left one entirely before the right one, widths >= 1, ordering width in
   [0,1]: the reference keys differ by at least 1, the float keys by at least 1/16 -- STRICTLY ordered *)
Lemma key_R_lt_in_row : forall (ww t3 t4 : R) (xi wi xj wj : Z),
  0 <= ww <= 1 -> (Z.abs xi <= 2 ^ 20)%Z -> (Z.abs xj <= 2 ^ 20)%Z ->
  (0 < wi <= 2 ^ 20)%Z -> (0 < wj <= 2 ^ 20)%Z -> (xi + wi <= xj)%Z ->
  Rabs t3 <= bpow radix2 21 -> Rabs t4 <= bpow radix2 22 ->
  key_R ww t3 t4 xi wi + / 16 <= key_R ww t3 t4 xj wj.
Proof.
  intros ww t3 t4 xi wi xj wj Hww Hxi Hxj Hwi Hwj Hx H3 H4.
  destruct (key_R_err ww t3 t4 xi wi Hww Hxi ltac:(lia) H3 H4) as [Ei _].
  destruct (key_R_err ww t3 t4 xj wj Hww Hxj ltac:(lia) H3 H4) as [Ej _].
  apply abs_le_inv in Ei. apply abs_le_inv in Ej. unfold key_eps, key_ref in *.
  assert (D : IZR xi + IZR wi <= IZR xj) by (rewrite <- plus_IZR; apply IZR_le; exact Hx).
  assert (Wi : 1 <= IZR wi) by (apply IZR_le; lia).
  assert (Wj : 1 <= IZR wj) by (apply IZR_le; lia).
  (* (xj - xi) + ww (wj - wi) >= wi (1 - ww) + ww wj >= 1 *)
  assert (P1 : 0 <= (1 - ww) * (IZR wi - 1)) by (apply Rmult_le_pos; lra).
  assert (P2 : 0 <= ww * (IZR wj - 1)) by (apply Rmult_le_pos; lra).
  assert (G : IZR xi + ww * IZR wi + 1 <= IZR xj + ww * IZR wj) by nra.
  lra.
Qed.

(* ------------------------------------------------------------------ the binary32 operations compute key_R *)
Lemma le_bpow127 : forall (r : R) (e : Z), (e <=? 127)%Z = true -> Rabs r <= bpow radix2 e -> Rabs r <= bpow radix2 127.
Proof. intros r e He H. eapply Rle_trans; [exact H|apply bpow_le; apply Z.leb_le; exact He]. Qed.

(* (float)x for a finite double x of magnitude <= 2^127: the correctly rounded value, finite *)
Lemma f_of_d_correct : forall x : f64, is_finite x = true -> Rabs (B2R x) <= bpow radix2 127 ->
  B2R (f_of_d x) = rnd32 (B2R x) /\ is_finite (f_of_d x) = true.
Proof.
  intros [s|s| |s m e B] Fx Hx; try discriminate.
  - cbn [f_of_d B2R is_finite]. rewrite rnd32_0. split; reflexivity.
  - cbn [f_of_d].
    pose proof (binary_normalize_correct 24 128 p24 p24_128 mode_NE (cond_Zopp s (Zpos m)) e s) as C.
    cbv zeta in C.
    change (F2R (Float radix2 (cond_Zopp s (Z.pos m)) e)) with (B2R (B754_finite s m e B : f64)) in C.
    change (round radix2 (SpecFloat.fexp 24 128) (round_mode mode_NE) (B2R (B754_finite s m e B : f64)))
      with (rnd32 (B2R (B754_finite s m e B : f64))) in C.
    rewrite (rnd32_no_overflow _ Hx) in C. destruct C as [C1 [C2 _]]. split; [exact C1|exact C2].
Qed.

Lemma d_one_correct : B2R d_one = 1 /\ is_finite d_one = true.
Proof. split; [apply Bone_correct|apply is_finite_Bone]. Qed.

Lemma f_of_d_one : B2R (f_of_d d_one) = 1 /\ is_finite (f_of_d d_one) = true.
Proof.
  destruct d_one_correct as [O1 O2].
  destruct (f_of_d_correct d_one O2) as [C1 C2].
  { rewrite O1, Rabs_R1. change 1 with (bpow radix2 0). apply bpow_le. discriminate. }
  split; [|exact C2]. rewrite C1, O1. apply rnd32_1.
Qed.

(* a parameter in [-B, B], B a binary32 value <= 2^127: its float conversion is finite and in [-B, B] *)
Lemma f_of_d_abs : forall (x : f64) (B : R), is_finite x = true -> fmt32 B -> B <= bpow radix2 127 ->
  Rabs (B2R x) <= B -> is_finite (f_of_d x) = true /\ Rabs (B2R (f_of_d x)) <= B.
Proof.
  intros x B Fx FB HB Hx. destruct (f_of_d_correct x Fx) as [C1 C2]; [lra|].
  split; [exact C2|]. rewrite C1. apply rnd32_abs_le; assumption.
Qed.

Lemma f_of_d_unit : forall x : f64, is_finite x = true -> 0 <= B2R x <= 1 ->
  is_finite (f_of_d x) = true /\ 0 <= B2R (f_of_d x) <= 1.
Proof.
  intros x Fx Hx. destruct (f_of_d_correct x Fx) as [C1 C2].
  { rewrite Rabs_pos_eq by lra. apply Rle_trans with 1; [lra|]. change 1 with (bpow radix2 0). apply bpow_le. lia. }
  split; [exact C2|]. rewrite C1. apply rnd32_unit_range. exact Hx.
Qed.

Lemma fmt32_IZR_small : forall z : Z, (Z.abs z <= 2 ^ 24)%Z -> fmt32 (IZR z).
Proof.
  intros z Hz. replace (IZR z) with (IZR z * bpow radix2 0) by (simpl; ring). apply fmt32_F2R; [exact Hz|lia].
Qed.

Lemma E21 : bpow radix2 21 = 2 * bpow radix2 20.
Proof. rewrite bpow2_double. reflexivity. Qed.
Lemma E22' : bpow radix2 22 = 2 * bpow radix2 21.
Proof. rewrite bpow2_double. reflexivity. Qed.
Lemma E22 : bpow radix2 22 = 4 * bpow radix2 20.
Proof. rewrite E22', E21. ring. Qed.
Lemma E23 : bpow radix2 23 = 2 * bpow radix2 22.
Proof. rewrite bpow2_double. reflexivity. Qed.

(* the float key of a small cell, weights in the domain: finite, equal to key_R *)
Lemma cell_key_f_correct : forall (wx ww wy wh : f32) (c : cell),
  is_finite wx = true -> is_finite ww = true -> is_finite wy = true -> is_finite wh = true ->
  B2R wx = 1 -> 0 <= B2R ww <= 1 -> Rabs (B2R wy) <= 2 -> Rabs (B2R wh) <= 4 -> small_cell c ->
  let t3 := rnd32 (B2R wy * IZR (cty c)) in
  let t4 := rnd32 (B2R wh * IZR (ch c)) in
  is_finite (cell_key_f wx ww wy wh c) = true /\
  B2R (cell_key_f wx ww wy wh c) = key_R (B2R ww) t3 t4 (ctx c) (cw c) /\
  Rabs t3 <= bpow radix2 21 /\ Rabs t4 <= bpow radix2 22.
Proof.
  intros wx ww wy wh c Fx Fw Fy Fh Hwx Hww Hwy Hwh (Sx & Sy & Sw & Sh) t3 t4.
  assert (P24 : (2 ^ 20 <= 2 ^ 24)%Z) by (apply Z.pow_le_mono_r; lia).
  assert (Zx : (Z.abs (ctx c) <= 2 ^ 24)%Z) by lia. assert (Zw : (Z.abs (cw c) <= 2 ^ 24)%Z) by lia.
  assert (Zy : (Z.abs (cty c) <= 2 ^ 24)%Z) by lia. assert (Zh : (Z.abs (ch c) <= 2 ^ 24)%Z) by lia.
  assert (Fx24 : fmt32 (IZR (ctx c))) by (apply fmt32_IZR_small; exact Zx).
  pose proof (IZR_abs_pow _ 20 ltac:(discriminate) Sx) as Bx. pose proof (IZR_abs_pow _ 20 ltac:(discriminate) Sw) as Bw.
  pose proof (IZR_abs_pow _ 20 ltac:(discriminate) Sy) as By. pose proof (IZR_abs_pow _ 20 ltac:(discriminate) Sh) as Bh.
  destruct (f_of_Z_exact (ctx c) Zx) as [Xv Xf]. destruct (f_of_Z_exact (cw c) Zw) as [Wv Wf].
  destruct (f_of_Z_exact (cty c) Zy) as [Yv Yf]. destruct (f_of_Z_exact (ch c) Zh) as [Hv Hf].
  assert (B3 : Rabs (B2R wy * IZR (cty c)) <= bpow radix2 21).
  { rewrite Rabs_mult, E21. apply Rmult_le_compat; [apply Rabs_pos|apply Rabs_pos|exact Hwy|exact By]. }
  assert (B4 : Rabs (B2R wh * IZR (ch c)) <= bpow radix2 22).
  { rewrite Rabs_mult, E22. apply Rmult_le_compat; [apply Rabs_pos|apply Rabs_pos|exact Hwh|exact Bh]. }
  assert (T3 : Rabs t3 <= bpow radix2 21) by (apply rnd32_abs_pow; [discriminate|exact B3]).
  assert (T4 : Rabs t4 <= bpow radix2 22) by (apply rnd32_abs_pow; [discriminate|exact B4]).
  destruct (key_R_err (B2R ww) t3 t4 (ctx c) (cw c) Hww Sx Sw T3 T4) as (_ & Ba & Bb & Bc & _).
  destruct (fmul_correct wx (f_of_Z (ctx c)) Fx Xf) as [M1 M1f].
  { rewrite Hwx, Xv, Rmult_1_l. apply (le_bpow127 _ 20); [reflexivity|exact Bx]. }
  rewrite Hwx, Xv, Rmult_1_l, (rnd32_id _ Fx24) in M1.
  destruct (fmul_correct ww (f_of_Z (cw c)) Fw Wf) as [M2 M2f].
  { rewrite Wv. apply (le_bpow127 _ 20); [reflexivity|]. rewrite Rabs_mult, <- (Rmult_1_l (bpow radix2 20)).
    apply Rmult_le_compat; [apply Rabs_pos|apply Rabs_pos|rewrite Rabs_pos_eq; lra|exact Bw]. }
  rewrite Wv in M2.
  destruct (fmul_correct wy (f_of_Z (cty c)) Fy Yf) as [M3 M3f].
  { rewrite Yv. apply (le_bpow127 _ 21); [reflexivity|exact B3]. }
  rewrite Yv in M3. fold t3 in M3.
  destruct (fmul_correct wh (f_of_Z (ch c)) Fh Hf) as [M4 M4f].
  { rewrite Hv. apply (le_bpow127 _ 22); [reflexivity|exact B4]. }
  rewrite Hv in M4. fold t4 in M4.
  (* the three sums *)
  destruct (fadd_correct _ _ M1f M2f) as [A1 A1f].
  { rewrite M1, M2. apply (le_bpow127 _ 21); [reflexivity|]. eapply Rle_trans; [apply Rabs_triang|].
    rewrite E21. lra. }
  rewrite M1, M2 in A1.
  destruct (fadd_correct _ _ A1f M3f) as [A2 A2f].
  { rewrite A1, M3. apply (le_bpow127 _ 22); [reflexivity|]. eapply Rle_trans; [apply Rabs_triang|].
    rewrite E22'. lra. }
  rewrite A1, M3 in A2.
  destruct (fadd_correct _ _ A2f M4f) as [A3 A3f].
  { rewrite A2, M4. apply (le_bpow127 _ 23); [reflexivity|]. eapply Rle_trans; [apply Rabs_triang|].
    rewrite E23. lra. }
  rewrite A2, M4 in A3.
  split; [exact A3f|]. split; [exact A3|]. split; [exact T3|exact T4].
Qed.

(* two cells of one row, float keys: both finite, STRICTLY ordered (by at least 1/16) *)
Lemma cell_key_f_lt_in_row : forall (wx ww wy wh : f32) (ci cj : cell),
  is_finite wx = true -> is_finite ww = true -> is_finite wy = true -> is_finite wh = true ->
  B2R wx = 1 -> 0 <= B2R ww <= 1 -> Rabs (B2R wy) <= 2 -> Rabs (B2R wh) <= 4 ->
  small_cell ci -> small_cell cj -> (0 < cw ci)%Z -> (0 < cw cj)%Z -> (ctx ci + cw ci <= ctx cj)%Z ->
  cty ci = cty cj -> ch ci = ch cj ->
  is_finite (cell_key_f wx ww wy wh ci) = true /\ is_finite (cell_key_f wx ww wy wh cj) = true /\
  B2R (cell_key_f wx ww wy wh ci) + / 16 <= B2R (cell_key_f wx ww wy wh cj).
Proof.
  intros wx ww wy wh ci cj Fx Fw Fy Fh Hwx Hww Hwy Hwh Si Sj Wi Wj Hx Ey Eh.
  pose proof Si as (Sxi & _ & Swi & _). pose proof Sj as (Sxj & _ & Swj & _).
  assert (Wi' : (0 < cw ci <= 2 ^ 20)%Z) by lia. assert (Wj' : (0 < cw cj <= 2 ^ 20)%Z) by lia.
  destruct (cell_key_f_correct wx ww wy wh ci Fx Fw Fy Fh Hwx Hww Hwy Hwh Si) as (Fi & Vi & T3 & T4).
  destruct (cell_key_f_correct wx ww wy wh cj Fx Fw Fy Fh Hwx Hww Hwy Hwh Sj) as (Fj & Vj & _ & _).
  split; [exact Fi|]. split; [exact Fj|]. rewrite Vi, Vj, <- Ey, <- Eh.
  apply key_R_lt_in_row; assumption.
Qed.

(* ------------------------------------------------------------------ std::pair's order on finite keys *)
Definition fkey_fin (k : fkey) : Prop := is_finite (fst k) = true.
(* a <= b : not (b < a) *)
Definition fpair_le (a b : fkey) : Prop :=
  B2R (fst a) < B2R (fst b) \/ (B2R (fst a) = B2R (fst b) /\ (snd a <= snd b)%nat).

Lemma Bltb_fin : forall a b : f32, is_finite a = true -> is_finite b = true ->
  (Bltb a b = true <-> B2R a < B2R b) /\ (Bltb a b = false <-> B2R b <= B2R a).
Proof.
  intros a b Fa Fb. rewrite (Bltb_correct 24 128 a b Fa Fb).
  destruct (Rlt_bool_spec (B2R a) (B2R b)) as [L|L]; split; split; intros H; try reflexivity; try discriminate; lra.
Qed.

Lemma fkey_ltb_true : forall a b, fkey_fin a -> fkey_fin b ->
  (fkey_ltb a b = true <-> B2R (fst a) < B2R (fst b) \/ (B2R (fst a) = B2R (fst b) /\ (snd a < snd b)%nat)).
Proof.
  intros a b Fa Fb. unfold fkey_ltb.
  destruct (Bltb_fin (fst a) (fst b) Fa Fb) as [T1 N1]. destruct (Bltb_fin (fst b) (fst a) Fb Fa) as [T2 N2].
  rewrite orb_true_iff, andb_true_iff, negb_true_iff, Nat.ltb_lt, T1, N2. split.
  - intros [H|[H1 H2]]; [left; exact H|].
    destruct (Rle_lt_or_eq_dec _ _ H1) as [L|E]; [left; exact L|right; split; [exact E|exact H2]].
  - intros [H|[H1 H2]]; [left; exact H|right; split; [rewrite H1; apply Rle_refl|exact H2]].
Qed.

Lemma fkey_ltb_false : forall a b, fkey_fin a -> fkey_fin b -> (fkey_ltb a b = false <-> fpair_le b a).
Proof.
  intros a b Fa Fb. pose proof (fkey_ltb_true a b Fa Fb) as T. unfold fpair_le. split.
  - intros H. destruct (Rtotal_order (B2R (fst b)) (B2R (fst a))) as [L|[E|G]].
    + left. exact L.
    + right. split; [exact E|]. destruct (Nat.le_gt_cases (snd b) (snd a)) as [N|N]; [exact N|].
      assert (X : fkey_ltb a b = true) by (apply T; right; split; [symmetry; exact E|exact N]). congruence.
    + assert (X : fkey_ltb a b = true) by (apply T; left; exact G). congruence.
  - intros H. destruct (fkey_ltb a b) eqn:E; [|reflexivity]. exfalso. apply (proj1 (fkey_ltb_true a b Fa Fb)) in E.
    destruct H as [H|[H1 H2]]; destruct E as [E|[E1 E2]]; try lra. apply (Nat.lt_irrefl (snd a)).
    eapply Nat.lt_le_trans; [exact E2|exact H2].
Qed.

Lemma fpair_le_trans : forall a b c, fpair_le a b -> fpair_le b c -> fpair_le a c.
Proof.
  unfold fpair_le. intros a b c [H|[H1 H2]] [K|[K1 K2]].
  - left. lra.
  - left. lra.
  - left. lra.
  - right. split; [lra|]. eapply Nat.le_trans; [exact H2|exact K2].
Qed.

(* ------------------------------------------------------------------ the insertion sort over float keys *)
Lemma finsert_key_perm : forall p l, Permutation (finsert_key p l) (p :: l).
Proof.
  intros p l. induction l as [|q l IH]; cbn [finsert_key]; [apply Permutation_refl|].
  destruct (fkey_ltb q p); [|apply Permutation_refl].
  eapply Permutation_trans; [apply perm_skip; exact IH|apply perm_swap].
Qed.

Lemma fsort_keys_perm : forall l, Permutation (fsort_keys l) l.
Proof.
  intros l. induction l as [|p l IH]; cbn [fsort_keys fold_right]; [apply Permutation_refl|].
  eapply Permutation_trans; [apply finsert_key_perm|apply perm_skip; exact IH].
Qed.

Lemma finsert_key_sorted : forall p l, fkey_fin p -> Forall fkey_fin l ->
  StronglySorted fpair_le l -> StronglySorted fpair_le (finsert_key p l).
Proof.
  intros p l Fp. induction l as [|q l IH]; intros Fl S; cbn [finsert_key].
  - constructor; [constructor|constructor].
  - inversion S as [|q' l' Sl Fq]; subst. inversion Fl as [|q' l' Fq' Fl']; subst.
    destruct (fkey_ltb q p) eqn:E.
    + constructor; [apply IH; assumption|].
      apply (Permutation_Forall (Permutation_sym (finsert_key_perm p l))). constructor; [|exact Fq].
      apply (proj1 (fkey_ltb_true q p Fq' Fp)) in E. destruct E as [E|[E1 E2]]; [left; exact E|right; split; [exact E1|]].
      apply Nat.lt_le_incl. exact E2.
    + apply (proj1 (fkey_ltb_false q p Fq' Fp)) in E. constructor; [exact S|]. constructor; [exact E|].
      eapply Forall_impl; [|exact Fq]. intros x Hx. exact (fpair_le_trans _ _ _ E Hx).
Qed.

Lemma fsort_keys_sorted : forall l, Forall fkey_fin l -> StronglySorted fpair_le (fsort_keys l).
Proof.
  intros l. induction l as [|p l IH]; intros Fl; cbn [fsort_keys fold_right]; [constructor|].
  inversion Fl as [|p' l' Fp Fl']; subst. apply finsert_key_sorted; [exact Fp| |apply IH; exact Fl'].
  apply (Permutation_Forall (Permutation_sym (fsort_keys_perm l))). exact Fl'.
Qed.

(* ------------------------------------------------------------------ computeCellOrder, binary32 *)
Lemma keyed_f_indices : forall wx ww wy wh cells,
  map snd (keyed_f wx ww wy wh cells) = seq 0 (length cells).
Proof. intros. unfold keyed_f. apply map_snd_combine. rewrite map_length, seq_length. reflexivity. Qed.

(* [no finiteness needed] a permutation of 0..n-1, whatever the keys (NaN and infinities included) *)
Theorem compute_cell_order_f_perm : forall wx ww wy wh cells,
  Permutation (compute_cell_order_f wx ww wy wh cells) (seq 0 (length cells)).
Proof.
  intros. unfold compute_cell_order_f. rewrite <- (keyed_f_indices wx ww wy wh cells).
  apply Permutation_map. apply fsort_keys_perm.
Qed.

Lemma compute_cell_order_f_NoDup : forall wx ww wy wh cells, NoDup (compute_cell_order_f wx ww wy wh cells).
Proof.
  intros. eapply Permutation_NoDup; [apply Permutation_sym; apply compute_cell_order_f_perm|apply seq_NoDup].
Qed.

Lemma compute_cell_order_f_In : forall wx ww wy wh cells i,
  In i (compute_cell_order_f wx ww wy wh cells) <-> (i < length cells)%nat.
Proof.
  intros. split; intros H.
  - apply (Permutation_in _ (compute_cell_order_f_perm wx ww wy wh cells)) in H. apply in_seq in H. lia.
  - apply (Permutation_in _ (Permutation_sym (compute_cell_order_f_perm wx ww wy wh cells))).
    apply in_seq. lia.
Qed.

Lemma combine_map_seq_In {A B} (f : A -> B) (cells : list A) : forall s k i,
  In (k, i) (combine (map f cells) (seq s (length cells))) ->
  (s <= i)%nat /\ exists c, nth_error cells (i - s) = Some c /\ k = f c.
Proof.
  induction cells as [|c cells IH]; intros s k i H; cbn in H; [contradiction|].
  destruct H as [H|H].
  - injection H as <- <-. split; [lia|]. exists c. rewrite Nat.sub_diag. split; reflexivity.
  - destruct (IH (S s) k i H) as (Hs & c' & Hc' & ->). split; [lia|]. exists c'. split; [|reflexivity].
    replace (i - s)%nat with (S (i - S s)) by lia. exact Hc'.
Qed.

Lemma keyed_f_In : forall wx ww wy wh cells k i, In (k, i) (keyed_f wx ww wy wh cells) ->
  exists c, nth_error cells i = Some c /\ k = cell_key_f wx ww wy wh c.
Proof.
  intros wx ww wy wh cells k i H. apply combine_map_seq_In in H as (_ & c & Hc & ->).
  rewrite Nat.sub_0_r in Hc. exists c. split; [exact Hc|reflexivity].
Qed.

(* when every key is finite the result is THE sorted one: a strictly smaller float key comes first *)
Theorem compute_cell_order_f_sorted : forall wx ww wy wh cells a b i j ci cj,
  (forall c, In c cells -> is_finite (cell_key_f wx ww wy wh c) = true) ->
  nth_error (compute_cell_order_f wx ww wy wh cells) a = Some i ->
  nth_error (compute_cell_order_f wx ww wy wh cells) b = Some j ->
  nth_error cells i = Some ci -> nth_error cells j = Some cj ->
  B2R (cell_key_f wx ww wy wh ci) < B2R (cell_key_f wx ww wy wh cj) -> (a < b)%nat.
Proof.
  unfold compute_cell_order_f. intros wx ww wy wh cells a b i j ci cj Fin Ha Hb Hi Hj Hlt.
  assert (Fk : Forall fkey_fin (keyed_f wx ww wy wh cells)).
  { apply Forall_forall. intros [k n] Hk. apply keyed_f_In in Hk as (c & Hc & ->).
    unfold fkey_fin. cbn [fst]. apply Fin. eapply nth_error_In; exact Hc. }
  set (sl := fsort_keys (keyed_f wx ww wy wh cells)) in *.
  apply nth_error_map_inv in Ha as ([ka ia] & Ea & Hia). apply nth_error_map_inv in Hb as ([kb ib] & Eb & Hib).
  cbn [snd] in Hia, Hib. subst ia ib.
  assert (Ka : ka = cell_key_f wx ww wy wh ci).
  { pose proof (Permutation_in _ (fsort_keys_perm _) (nth_error_In _ _ Ea)) as H.
    apply keyed_f_In in H as (c & Hc & ->). congruence. }
  assert (Kb : kb = cell_key_f wx ww wy wh cj).
  { pose proof (Permutation_in _ (fsort_keys_perm _) (nth_error_In _ _ Eb)) as H.
    apply keyed_f_In in H as (c & Hc & ->). congruence. }
  subst ka kb.
  destruct (Nat.lt_ge_cases a b) as [L|L]; [exact L|exfalso].
  assert (Hle : fpair_le (cell_key_f wx ww wy wh cj, j) (cell_key_f wx ww wy wh ci, i)).
  { destruct (Nat.eq_dec a b) as [->|N].
    - rewrite Ea in Eb. injection Eb as E1 E2. subst j. rewrite Hi in Hj. injection Hj as ->. lra.
    - apply (sorted_nth fpair_le sl (fsort_keys_sorted _ Fk) b a); [lia|exact Eb|exact Ea]. }
  unfold fpair_le in Hle. cbn [fst snd] in Hle. lra.
Qed.

(* ------------------------------------------------------------------ the call in Legalizer::run *)
(* the four float arguments for parameters of the domain *)
Lemma order_params_f : forall p, order_params_ok p ->
  is_finite (f_of_d (opd_w p)) = true /\ is_finite (f_of_d (opd_y p)) = true /\ is_finite (f_of_d (opd_h p)) = true /\
  0 <= B2R (f_of_d (opd_w p)) <= 1 /\ Rabs (B2R (f_of_d (opd_y p))) <= 2 /\ Rabs (B2R (f_of_d (opd_h p))) <= 4.
Proof.
  intros p (Fw & Fy & Fh & Hw & Hy & Hh).
  destruct (f_of_d_unit _ Fw Hw) as [A1 A2].
  assert (F2 : fmt32 2) by (change 2 with (bpow radix2 1); apply fmt32_bpow; discriminate).
  assert (F4 : fmt32 4) by (change 4 with (bpow radix2 2); apply fmt32_bpow; discriminate).
  assert (L2 : 2 <= bpow radix2 127) by (change 2 with (bpow radix2 1); apply bpow_le; discriminate).
  assert (L4 : 4 <= bpow radix2 127) by (change 4 with (bpow radix2 2); apply bpow_le; discriminate).
  destruct (f_of_d_abs _ 2 Fy F2 L2 Hy) as [B1 B2]. destruct (f_of_d_abs _ 4 Fh F4 L4 Hh) as [C1 C2].
  repeat split; try assumption; lra.
Qed.

(* every key is FINITE on the domain *)
Theorem cell_order_f_keys_finite : forall p c, order_params_ok p -> coords_small c ->
  forall k, In k (leg_cells c) ->
    is_finite (cell_key_f (f_of_d d_one) (f_of_d (opd_w p)) (f_of_d (opd_y p)) (f_of_d (opd_h p)) k) = true.
Proof.
  intros p c Hp Hs k Hk. unfold leg_cells in Hk. apply in_map_iff in Hk as (k0 & <- & Hk0).
  destruct (order_params_f p Hp) as (Fw & Fy & Fh & Hw & Hy & Hh). destruct f_of_d_one as [O1 O2].
  exact (proj1 (cell_key_f_correct _ _ _ _ _ O2 Fw Fy Fh O1 Hw Hy Hh (Hs k0 Hk0))).
Qed.

Lemma cell_order_f_NoDup : forall p c, NoDup (cell_order_f p c).
Proof. intros. apply compute_cell_order_f_NoDup. Qed.

Lemma cell_order_f_In : forall p c i, In i (cell_order_f p c) <-> (i < length (movable c))%nat.
Proof. intros. unfold cell_order_f. rewrite compute_cell_order_f_In. unfold leg_cells. rewrite map_length. reflexivity. Qed.

Theorem cell_order_f_perm : forall p c, Permutation (cell_order_f p c) (seq 0 (length (movable c))).
Proof.
  intros. unfold cell_order_f.
  replace (length (movable c)) with (length (leg_cells c)) by (unfold leg_cells; apply map_length).
  apply compute_cell_order_f_perm.
Qed.

(* what is needed of the circuit: movable cells of positive placed width and of one placed height *)
Lemma cell_order_f_left_to_right_gen : forall p c,
  (forall k, In k (movable c) -> (0 < cw (leg_cell_of k))%Z) ->
  (forall ki kj, In ki (movable c) -> In kj (movable c) -> ch (leg_cell_of ki) = ch (leg_cell_of kj)) ->
  order_params_ok p -> coords_small c -> order_left_to_right c (cell_order_f p c).
Proof.
  intros p c Hw Hh Hp Hs. split; [apply cell_order_f_NoDup|]. split; [apply cell_order_f_In|].
  intros a b i j ki kj s Ha Hb Hi Hj _ (Yi & _) (Yj & _) Hx.
  pose proof (nth_error_In _ _ Hi) as Iki. pose proof (nth_error_In _ _ Hj) as Ikj.
  unfold cell_order_f in Ha, Hb.
  apply (compute_cell_order_f_sorted _ _ _ _ _ a b i j (leg_cell_of ki) (leg_cell_of kj)
           (cell_order_f_keys_finite p c Hp Hs) Ha Hb).
  - unfold leg_cells. apply map_nth_error. exact Hi.
  - unfold leg_cells. apply map_nth_error. exact Hj.
  - destruct (order_params_f p Hp) as (Fw & Fy & Fh & Rw & Ry & Rh). destruct f_of_d_one as [O1 O2].
    assert (Ey : cty (leg_cell_of ki) = cty (leg_cell_of kj)) by congruence.
    destruct (cell_key_f_lt_in_row _ _ _ _ (leg_cell_of ki) (leg_cell_of kj) O2 Fw Fy Fh O1 Rw Ry Rh
                (Hs ki Iki) (Hs kj Ikj) (Hw ki Iki) (Hw kj Ikj) Hx Ey (Hh ki kj Iki Ikj)) as (_ & _ & L).
    lra.
Qed.

Theorem cell_order_f_left_to_right : forall p c rh,
  rowhigh_design c rh -> order_params_ok p -> coords_small c -> order_left_to_right c (cell_order_f p c).
Proof.
  intros p c rh (_ & _ & _ & _ & Hmov). apply cell_order_f_left_to_right_gen.
  - intros k Hk. destruct (Hmov k Hk) as (W & _). exact W.
  - intros ki kj Hi Hj. destruct (Hmov ki Hi) as (_ & A & _). destruct (Hmov kj Hj) as (_ & B & _).
    unfold leg_cell_of. cbn [ch]. congruence.
Qed.

(* ------------------------------------------------------------------ C11 with the binary32 order *)
Local Open Scope Z_scope.

Theorem legalize_float_fixpoint : forall p c rh,
  rowhigh_design c rh -> legal c -> polarity_admits c -> order_params_ok p -> coords_small c ->
  exists c', legalize_float p c = LegOk c' /\ rows c' = rows c /\ Forall2 (kept c) (cells c) (cells c').
Proof.
  intros p c rh Hd Hl Hpol Hp Hs. unfold legalize_float.
  apply (legalize_circuit_fixpoint c rh); try assumption. exact (cell_order_f_left_to_right p c rh Hd Hp Hs).
Qed.

Theorem legalize_float_idempotent : forall p c rh,
  rowhigh_design c rh -> legal c -> polarity_admits c -> order_params_ok p -> coords_small c ->
  (forall k r, In k (movable c) -> In r (rows c) -> under r k -> seg_orientation (leg_cell_of k) r = c_o k) ->
  legalize_float p c = LegOk c.
Proof.
  intros p c rh Hd Hl Hpol Hp Hs Ho. unfold legalize_float.
  apply (legalize_circuit_idempotent c rh); try assumption. exact (cell_order_f_left_to_right p c rh Hd Hp Hs).
Qed.

(* second legalization with the binary32 order, whatever the order of the first one *)
Theorem legalize_float_after_any : forall p c rh order c1,
  rowhigh_design c rh -> legalize_circuit c order = LegOk c1 -> order_params_ok p -> coords_small c1 ->
  legalize_float p c1 = LegOk c1.
Proof.
  intros p c rh order c1 Hd Hc1 Hp Hs. unfold legalize_float. apply (legalize_circuit_twice c rh order _ c1 Hd Hc1).
  apply cell_order_f_left_to_right_gen; [| |exact Hp|exact Hs].
  - intros k Hk. apply (legalize_output_dims c rh order c1 Hd Hc1 k Hk).
  - intros ki kj Hi Hj. destruct (legalize_output_dims c rh order c1 Hd Hc1 ki Hi) as [_ A].
    destruct (legalize_output_dims c rh order c1 Hd Hc1 kj Hj) as [_ B]. congruence.
Qed.

Theorem legalize_float_twice : forall p0 p c rh c1,
  rowhigh_design c rh -> legalize_float p0 c = LegOk c1 -> order_params_ok p -> coords_small c1 ->
  legalize_float p c1 = LegOk c1.
Proof. intros p0 p c rh c1 Hd Hc1. exact (legalize_float_after_any p c rh _ c1 Hd Hc1). Qed.

(* ------------------------------------------------------------------ binary64 constants *)
Local Open Scope R_scope.
Local Instance prec53' : Prec_gt_0 53 := p53.
Local Instance valid64' : Valid_exp (FLT_exp (-1074) 53) := FLT_exp_valid (-1074) 53.
Local Instance prec53_1024' : Prec_lt_emax 53 1024 := p53_1024.

(* m * 2^e for |m| < 2^53, -1074 <= e <= 0 is a binary64 value: binary_normalize is exact on it *)
Lemma d_of_me_exact : forall m e : Z, (Z.abs m < 2 ^ 53)%Z -> (-1074 <= e <= 0)%Z ->
  let x : f64 := @binary_normalize 53 1024 p53 p53_1024 mode_NE m e false in
  B2R x = IZR m * bpow radix2 e /\ is_finite x = true.
Proof.
  intros m e Hm He x.
  pose proof (binary_normalize_correct 53 1024 p53 p53_1024 mode_NE m e false) as C. cbv zeta in C. fold x in C.
  assert (G : generic_format radix2 (FLT_exp (-1074) 53) (F2R (Float radix2 m e))).
  { apply generic_format_FLT. exists (Float radix2 m e); [reflexivity|exact Hm|cbn; lia]. }
  change (SpecFloat.fexp 53 1024) with (FLT_exp (-1074) 53) in C.
  rewrite (round_generic radix2 (FLT_exp (-1074) 53) _ _ G) in C.
  assert (B : Rabs (F2R (Float radix2 m e)) < bpow radix2 1024).
  { unfold F2R. cbn [Fnum Fexp]. rewrite Rabs_mult, (Rabs_pos_eq (bpow radix2 e)) by apply bpow_ge_0.
    apply Rle_lt_trans with (Rabs (IZR m) * 1).
    - apply Rmult_le_compat_l; [apply Rabs_pos|]. change 1 with (bpow radix2 0). apply bpow_le. lia.
    - rewrite Rmult_1_r, <- abs_IZR. apply Rlt_trans with (IZR (2 ^ 53)); [apply IZR_lt; exact Hm|].
      rewrite (IZR_Zpower radix2) by lia. apply bpow_lt. lia. }
  rewrite (Rlt_bool_true _ _ B) in C. destruct C as [C1 [C2 _]]. split; [exact C1|exact C2].
Qed.

Lemma d_of_Z_exact : forall z : Z, (Z.abs z < 2 ^ 53)%Z -> B2R (d_of_Z z) = IZR z /\ is_finite (d_of_Z z) = true.
Proof.
  intros z Hz. destruct (d_of_me_exact z 0 Hz ltac:(lia)) as [A B]. split; [|exact B].
  unfold d_of_Z. rewrite A. cbn [bpow]. ring.
Qed.

Lemma dhalf_exact : B2R dhalf = / 2 /\ is_finite dhalf = true.
Proof.
  destruct (d_of_me_exact 1 (-1) ltac:(reflexivity) ltac:(lia)) as [A B]. split; [|exact B].
  unfold dhalf. rewrite A. change (bpow radix2 (-1)) with (/ 2). ring.
Qed.

Lemma Dleb_true_le : forall a b : f64, is_finite a = true -> is_finite b = true ->
  Bleb a b = true -> B2R a <= B2R b.
Proof.
  intros a b Fa Fb H. rewrite (Bleb_correct 53 1024 a b Fa Fb) in H.
  destruct (Rle_bool_spec (B2R a) (B2R b)); [assumption|discriminate].
Qed.

(* a boolean test of the parameter domain (evaluated by vm_compute on concrete doubles) and its meaning *)
Definition order_params_okb (p : order_params_d) : bool :=
  is_finite (opd_w p) && is_finite (opd_y p) && is_finite (opd_h p) &&
  Bleb (d_of_Z 0) (opd_w p) && Bleb (opd_w p) (d_of_Z 1) &&
  Bleb (d_of_Z (-2)) (opd_y p) && Bleb (opd_y p) (d_of_Z 2) &&
  Bleb (d_of_Z (-4)) (opd_h p) && Bleb (opd_h p) (d_of_Z 4).

Lemma order_params_okb_sound : forall p, order_params_okb p = true -> order_params_ok p.
Proof.
  intros p H. unfold order_params_okb in H.
  apply andb_prop in H as [H Lh4]. apply andb_prop in H as [H Lh4']. apply andb_prop in H as [H Ly2].
  apply andb_prop in H as [H Ly2']. apply andb_prop in H as [H Lw1]. apply andb_prop in H as [H Lw0].
  apply andb_prop in H as [H Fh]. apply andb_prop in H as [Fw Fy].
  destruct (d_of_Z_exact 0 ltac:(reflexivity)) as [V0 F0]. destruct (d_of_Z_exact 1 ltac:(reflexivity)) as [V1 F1].
  destruct (d_of_Z_exact 2 ltac:(reflexivity)) as [V2 F2]. destruct (d_of_Z_exact (-2) ltac:(reflexivity)) as [W2 G2].
  destruct (d_of_Z_exact 4 ltac:(reflexivity)) as [V4 F4]. destruct (d_of_Z_exact (-4) ltac:(reflexivity)) as [W4 G4].
  pose proof (Dleb_true_le _ _ F0 Fw Lw0) as A1. pose proof (Dleb_true_le _ _ Fw F1 Lw1) as A2.
  pose proof (Dleb_true_le _ _ G2 Fy Ly2') as A3. pose proof (Dleb_true_le _ _ Fy F2 Ly2) as A4.
  pose proof (Dleb_true_le _ _ G4 Fh Lh4') as A5. pose proof (Dleb_true_le _ _ Fh F4 Lh4) as A6.
  rewrite V0 in A1. rewrite V1 in A2. rewrite W2 in A3. rewrite V2 in A4. rewrite W4 in A5. rewrite V4 in A6.
  unfold order_params_ok. repeat split; try assumption; apply Rabs_le; lra.
Qed.

(* ------------------------------------------------------------------ the bound on orderingHeight is forced *)
Local Open Scope Z_scope.
(* w_tie satisfies every hypothesis of legalize_float_idempotent about the circuit (row height 2^20 - 1) *)
Lemma w_tie_hyps : fixpoint_hyps w_tie 1048575 /\ coords_small w_tie.
Proof.
  set (k1 := tie_cell 10). set (k2 := tie_cell 9).
  assert (Hmv : forall k, In k (movable w_tie) -> k = k1 \/ k = k2).
  { intros k Hk. unfold movable in Hk. apply filter_In in Hk as [Hk _]. cbn in Hk. intuition. }
  assert (Hpl : forall k, k = k1 \/ k = k2 ->
            maxX (placement_of k) - minX (placement_of k) = 1 /\ maxY (placement_of k) - minY (placement_of k) = 1048575).
  { intros k [-> | ->]; vm_compute; split; reflexivity. }
  assert (Hso : forall k r, k = k1 \/ k = k2 -> In r (rows w_tie) -> seg_orientation (leg_cell_of k) r = c_o k).
  { intros k r Hk [<-|[]]. destruct Hk as [-> | ->]; reflexivity. }
  split; [split; [|split; [apply legalb_correct; vm_compute; reflexivity|split]]|].
  - split; [lia|]. split; [intros r [<-|[]]; reflexivity|]. split; [cbn; tauto|]. split; [intros r [<-|[]]; reflexivity|].
    intros k Hk. destruct (Hpl k (Hmv k Hk)) as [A B]. rewrite A, B.
    destruct (Hmv k Hk) as [-> | ->]; (split; [lia|split; [lia|right; reflexivity]]).
  - intros k r Hk Hr _. rewrite (Hso k r (Hmv k Hk) Hr). destruct (Hmv k Hk) as [-> | ->]; discriminate.
  - intros k r Hk Hr _. exact (Hso k r (Hmv k Hk) Hr).
  - intros k Hk. destruct (Hmv k Hk) as [-> | ->]; vm_compute; repeat split; discriminate.
Qed.

(* [R] orderingHeight = 8 (LegalizationParameters::check accepts any value): a legal row-high placement with
   coordinates <= 2^20 in magnitude, every other hypothesis of legalize_float_idempotent satisfied, whose two float
   keys are EQUAL (both 8388610 = 2^23 + 2, finite); the index decides, the cell on the right comes first and the
   legalizer run with the binary32 order moves the other one (x = 9 becomes x = 11) *)
Theorem legalize_float_order_refuted :
  exists c p c', fixpoint_hyps c 1048575 /\ coords_small c /\
    is_finite (opd_w p) = true /\ is_finite (opd_y p) = true /\ is_finite (opd_h p) = true /\
    (0 <= B2R (opd_w p) <= 1)%R /\ B2R (opd_y p) = 0%R /\ B2R (opd_h p) = 8%R /\
    map B2SF (map (cell_key_f (f_of_d d_one) (f_of_d (opd_w p)) (f_of_d (opd_y p)) (f_of_d (opd_h p))) (leg_cells c))
      = [SpecFloat.S754_finite false 8388610 0; SpecFloat.S754_finite false 8388610 0] /\
    map c_x (cells c) = [10; 9] /\ cell_order_f p c = [0%nat; 1%nat] /\
    legalize_float p c = LegOk c' /\ map c_x (cells c') = [10; 11].
Proof.
  exists w_tie, p_tie. eexists.
  destruct w_tie_hyps as [H1 H2]. destruct dhalf_exact as [Vw Fw].
  destruct (d_of_Z_exact 0 ltac:(reflexivity)) as [V0 F0]. destruct (d_of_Z_exact 8 ltac:(reflexivity)) as [V8 F8].
  split; [exact H1|]. split; [exact H2|]. cbn [p_tie opd_w opd_y opd_h].
  split; [exact Fw|]. split; [exact F0|]. split; [exact F8|].
  split; [rewrite Vw; lra|]. split; [exact V0|]. split; [exact V8|].
  split; [vm_compute; reflexivity|]. split; [reflexivity|]. split; [vm_compute; reflexivity|].
  split; [vm_compute; reflexivity|]. reflexivity.
Qed.

(* the circuits of the non-vacuity examples are inside the coordinate domain: a boolean test and its meaning *)
Definition small_cellb (c : cell) : bool :=
  (Z.abs (ctx c) <=? 2 ^ 20) && (Z.abs (cty c) <=? 2 ^ 20) && (Z.abs (cw c) <=? 2 ^ 20) && (Z.abs (ch c) <=? 2 ^ 20).
Definition coords_smallb (c : circuit) : bool := forallb small_cellb (leg_cells c).

Lemma coords_smallb_sound : forall c, coords_smallb c = true -> coords_small c.
Proof.
  intros c H k Hk. unfold coords_smallb in H. rewrite forallb_forall in H.
  assert (Hin : In (leg_cell_of k) (leg_cells c)) by (unfold leg_cells; apply in_map; exact Hk).
  specialize (H _ Hin). unfold small_cellb in H.
  apply andb_prop in H as [H H4]. apply andb_prop in H as [H H3]. apply andb_prop in H as [H1 H2].
  apply Z.leb_le in H1, H2, H3, H4. unfold small_cell. tauto.
Qed.

Print Assumptions key_R_err.
Print Assumptions cell_key_f_correct.
Print Assumptions compute_cell_order_f_perm.
Print Assumptions compute_cell_order_f_sorted.
Print Assumptions cell_order_f_left_to_right.
Print Assumptions legalize_float_fixpoint.
Print Assumptions legalize_float_idempotent.
Print Assumptions legalize_float_twice.
Print Assumptions legalize_float_order_refuted.
