(* C11 -- proofs about the binary32 model of computeCellOrder (CellOrderFloat.v, Flocq).  Every lemma is closed by
   Qed; the real-number axioms of the standard library (ClassicalDedekindReals.sig_forall_dec, sig_not_dec,
   FunctionalExtensionality.functional_extensionality_dep) are inherited from Coq.Reals through Flocq. *)
From Coq Require Import ZArith Reals Psatz Lra Lia List Bool Permutation Sorted.
From Flocq Require Import Core BinarySingleNaN.
Import ListNotations.
Require Import CV.Orient CV.FreeSpace CV.RowLeg CV.Circuit CV.Legalizer CV.LegalizerSoundProofs CV.LegalizerIdempotentProofs
               CV.SpreadFloat CV.SpreadFloatProofs CV.CellOrderFloat.
Local Open Scope R_scope.

Local Instance prec24' : Prec_gt_0 24 := p24.
Local Instance valid32' : Valid_exp fexp32 := FLT_exp_valid (-149) 24.
Local Instance prec24_128' : Prec_lt_emax 24 128 := p24_128.

(* ------------------------------------------------------------------ half an ulp, absolute form *)
(* |x| <= 2^e  ==>  |rnd32 x - x| <= 2^(e-25)   (e >= -125: the bound is at least half the subnormal spacing) *)
Lemma rnd32_err_pow : forall (x : R) (e : Z), (-125 <= e)%Z -> Rabs x <= bpow radix2 e ->
  Rabs (rnd32 x - x) <= bpow radix2 (e - 25).
Proof.
  intros x e He Hx.
  destruct (Req_dec x 0) as [->|N0].
  { rewrite rnd32_0. replace (0 - 0) with 0 by ring. rewrite Rabs_R0. apply bpow_ge_0. }
  destruct (Rle_lt_or_eq_dec _ _ Hx) as [Hlt|Heq].
  - pose proof (error_le_half_ulp radix2 fexp32 (fun z => negb (Z.even z)) x) as H.
    fold (rnd32 x) in H. eapply Rle_trans; [exact H|].
    rewrite ulp_neq_0 by exact N0.
    assert (Hm : (mag radix2 x <= e)%Z) by (apply mag_le_bpow; [exact N0|exact Hlt]).
    assert (Hc : (cexp radix2 fexp32 x <= e - 24)%Z) by (unfold cexp, FLT_exp; lia).
    apply Rle_trans with (/ 2 * bpow radix2 (e - 24)).
    + apply Rmult_le_compat_l; [lra|]. apply bpow_le. exact Hc.
    + change (/ 2) with (bpow radix2 (-1)). rewrite <- bpow_plus.
      replace (-1 + (e - 24))%Z with (e - 25)%Z by ring. apply Rle_refl.
  - (* |x| = 2^e is a binary32 value *)
    assert (F : fmt32 x).
    { assert (Fp : fmt32 (bpow radix2 e)) by (apply fmt32_bpow; lia).
      destruct (Rle_or_lt 0 x) as [P|P].
      - rewrite Rabs_pos_eq in Heq by exact P. rewrite Heq. exact Fp.
      - rewrite Rabs_left in Heq by exact P. replace x with (- bpow radix2 e) by lra.
        apply generic_format_opp. exact Fp. }
    rewrite (rnd32_id x F). replace (x - x) with 0 by ring. rewrite Rabs_R0. apply bpow_ge_0.
Qed.

Lemma rnd32_abs_pow : forall (x : R) (e : Z), (-149 <= e)%Z -> Rabs x <= bpow radix2 e ->
  Rabs (rnd32 x) <= bpow radix2 e.
Proof. intros x e He H. apply rnd32_abs_le; [apply fmt32_bpow; exact He|exact H]. Qed.

Lemma bpow2_double : forall e, 2 * bpow radix2 e = bpow radix2 (e + 1).
Proof. intros e. rewrite bpow_plus. change (bpow radix2 1) with 2. ring. Qed.

Lemma IZR_abs_pow : forall (z : Z) (k : Z), (0 <= k)%Z -> (Z.abs z <= 2 ^ k)%Z -> Rabs (IZR z) <= bpow radix2 k.
Proof.
  intros z k Hk H. rewrite <- abs_IZR. apply Rle_trans with (IZR (2 ^ k)); [apply IZR_le; exact H|].
  rewrite (IZR_Zpower radix2) by exact Hk. apply Rle_refl.
Qed.

(* ------------------------------------------------------------------ the key over the reals: four roundings *)
(* |key_R - key_ref| <= 2^-5 + 2^-4 + 2^-3 + 2^-2 = 15/32 and |key_R| <= 2^23, for
   |x|, |w| <= 2^20, 0 <= ww <= 1, |t3| <= 2^21, |t4| <= 2^22 *)
Lemma key_R_err : forall (ww t3 t4 : R) (x w : Z),
  0 <= ww <= 1 -> (Z.abs x <= 2 ^ 20)%Z -> (Z.abs w <= 2 ^ 20)%Z ->
  Rabs t3 <= bpow radix2 21 -> Rabs t4 <= bpow radix2 22 ->
  Rabs (key_R ww t3 t4 x w - key_ref ww t3 t4 x w) <= key_eps /\
  Rabs (rnd32 (ww * IZR w)) <= bpow radix2 20 /\
  Rabs (rnd32 (IZR x + rnd32 (ww * IZR w))) <= bpow radix2 21 /\
  Rabs (rnd32 (rnd32 (IZR x + rnd32 (ww * IZR w)) + t3)) <= bpow radix2 22 /\
  Rabs (key_R ww t3 t4 x w) <= bpow radix2 23.
Proof.
  intros ww t3 t4 x w Hww Hx Hw H3 H4.
  pose proof (IZR_abs_pow x 20 ltac:(lia) Hx) as Bx.
  pose proof (IZR_abs_pow w 20 ltac:(lia) Hw) as Bw.
  unfold key_R, key_ref, key_eps.
  set (p := ww * IZR w). set (a := rnd32 p).
  assert (Bp : Rabs p <= bpow radix2 20).
  { unfold p. rewrite Rabs_mult, <- (Rmult_1_l (bpow radix2 20)).
    apply Rmult_le_compat; [apply Rabs_pos|apply Rabs_pos|rewrite Rabs_pos_eq; lra|exact Bw]. }
  pose proof (rnd32_err_pow p 20 ltac:(lia) Bp) as Ea. fold a in Ea.
  pose proof (rnd32_abs_pow p 20 ltac:(lia) Bp) as Ba. fold a in Ba.
  set (s1 := IZR x + a). set (b := rnd32 s1).
  assert (Bs1 : Rabs s1 <= bpow radix2 21).
  { unfold s1. eapply Rle_trans; [apply Rabs_triang|]. change (bpow radix2 21) with (bpow radix2 (20 + 1)). rewrite <- (bpow2_double 20). lra. }
  pose proof (rnd32_err_pow s1 21 ltac:(lia) Bs1) as Eb. fold b in Eb.
  pose proof (rnd32_abs_pow s1 21 ltac:(lia) Bs1) as Bb. fold b in Bb.
  set (s2 := b + t3). set (c := rnd32 s2).
  assert (Bs2 : Rabs s2 <= bpow radix2 22).
  { unfold s2. eapply Rle_trans; [apply Rabs_triang|]. change (bpow radix2 22) with (bpow radix2 (21 + 1)). rewrite <- (bpow2_double 21). lra. }
  pose proof (rnd32_err_pow s2 22 ltac:(lia) Bs2) as Ec. fold c in Ec.
  pose proof (rnd32_abs_pow s2 22 ltac:(lia) Bs2) as Bc. fold c in Bc.
  set (s3 := c + t4). set (d := rnd32 s3).
  assert (Bs3 : Rabs s3 <= bpow radix2 23).
  { unfold s3. eapply Rle_trans; [apply Rabs_triang|]. change (bpow radix2 23) with (bpow radix2 (22 + 1)). rewrite <- (bpow2_double 22). lra. }
  pose proof (rnd32_err_pow s3 23 ltac:(lia) Bs3) as Ed. fold d in Ed.
  pose proof (rnd32_abs_pow s3 23 ltac:(lia) Bs3) as Bd. fold d in Bd.
  split; [|split; [exact Ba|split; [exact Bb|split; [exact Bc|exact Bd]]]].
  replace (d - (IZR x + p + t3 + t4)) with ((d - s3) + (c - s2) + (b - s1) + (a - p))
    by (unfold s3, s2, s1; ring).
  change (bpow radix2 (20 - 25)) with (/ 32) in Ea. change (bpow radix2 (21 - 25)) with (/ 16) in Eb.
  change (bpow radix2 (22 - 25)) with (/ 8) in Ec. change (bpow radix2 (23 - 25)) with (/ 4) in Ed.
  eapply Rle_trans; [apply Rabs_triang|]. eapply Rle_trans; [apply Rplus_le_compat_r; apply Rabs_triang|].
  eapply Rle_trans; [apply Rplus_le_compat_r; apply Rplus_le_compat_r; apply Rabs_triang|]. lra.
Qed.

(* two cells of one row: same t3, t4, the left one entirely before the right one, widths >= 1, ordering width in
   [0,1]: the reference keys differ by at least 1, the float keys by at least 1/16 -- STRICTLY ordered *)
Lemma key_R_lt_in_row : forall (ww t3 t4 : R) (xi wi xj wj : Z),
  0 <= ww <= 1 -> (Z.abs xi <= 2 ^ 20)%Z -> (Z.abs xj <= 2 ^ 20)%Z ->
  (0 < wi <= 2 ^ 20)%Z -> (0 < wj <= 2 ^ 20)%Z -> (xi + wi <= xj)%Z ->
  Rabs t3 <= bpow radix2 21 -> Rabs t4 <= bpow radix2 22 ->
  key_R ww t3 t4 xi wi + / 16 <= key_R ww t3 t4 xj wj.
Proof.
  intros ww t3 t4 xi wi xj wj Hww Hxi Hxj Hwi Hwj Hx H3 H4.
  destruct (key_R_err ww t3 t4 xi wi Hww Hxi ltac:(lia) H3 H4) as [Ei _].
  destruct (key_R_err ww t3 t4 xj wj Hww Hxj ltac:(lia) H3 H4) as [Ej _].
  apply abs_le_inv in Ei. apply abs_le_inv in Ej. unfold key_eps, key_ref in *.
  assert (D : IZR xi + IZR wi <= IZR xj) by (rewrite <- plus_IZR; apply IZR_le; exact Hx).
  assert (Wi : 1 <= IZR wi) by (apply IZR_le; lia).
  assert (Wj : 1 <= IZR wj) by (apply IZR_le; lia).
  (* (xj - xi) + ww (wj - wi) >= wi (1 - ww) + ww wj >= 1 *)
  assert (P1 : 0 <= (1 - ww) * (IZR wi - 1)) by (apply Rmult_le_pos; lra).
  assert (P2 : 0 <= ww * (IZR wj - 1)) by (apply Rmult_le_pos; lra).
  assert (G : IZR xi + ww * IZR wi + 1 <= IZR xj + ww * IZR wj) by nra.
  lra.
Qed.

(* ------------------------------------------------------------------ the binary32 operations compute key_R *)
Lemma le_bpow127 : forall (r : R) (e : Z), (e <= 127)%Z -> Rabs r <= bpow radix2 e -> Rabs r <= bpow radix2 127.
Proof. intros r e He H. eapply Rle_trans; [exact H|apply bpow_le; exact He]. Qed.

(* (float)x for a finite double x of magnitude <= 2^127: the correctly rounded value, finite *)
Lemma f_of_d_correct : forall x : f64, is_finite x = true -> Rabs (B2R x) <= bpow radix2 127 ->
  B2R (f_of_d x) = rnd32 (B2R x) /\ is_finite (f_of_d x) = true.
Proof.
  intros [s|s| |s m e B] Fx Hx; try discriminate.
  - cbn [f_of_d B2R is_finite]. rewrite rnd32_0. split; reflexivity.
  - cbn [f_of_d].
    pose proof (binary_normalize_correct 24 128 p24 p24_128 mode_NE (cond_Zopp s (Zpos m)) e s) as C.
    cbv zeta in C.
    change (F2R (Float radix2 (cond_Zopp s (Z.pos m)) e)) with (B2R (B754_finite s m e B : f64)) in C.
    change (round radix2 (SpecFloat.fexp 24 128) (round_mode mode_NE) (B2R (B754_finite s m e B : f64)))
      with (rnd32 (B2R (B754_finite s m e B : f64))) in C.
    rewrite (rnd32_no_overflow _ Hx) in C. destruct C as [C1 [C2 _]]. split; [exact C1|exact C2].
Qed.

Lemma d_one_correct : B2R d_one = 1 /\ is_finite d_one = true.
Proof. split; [apply Bone_correct|apply is_finite_Bone]. Qed.

Lemma f_of_d_one : B2R (f_of_d d_one) = 1 /\ is_finite (f_of_d d_one) = true.
Proof.
  destruct d_one_correct as [O1 O2].
  destruct (f_of_d_correct d_one O2) as [C1 C2].
  { rewrite O1, Rabs_R1. change 1 with (bpow radix2 0). apply bpow_le. lia. }
  split; [|exact C2]. rewrite C1, O1. apply rnd32_1.
Qed.

(* a parameter in [-B, B], B a binary32 value <= 2^127: its float conversion is finite and in [-B, B] *)
Lemma f_of_d_abs : forall (x : f64) (B : R), is_finite x = true -> fmt32 B -> B <= bpow radix2 127 ->
  Rabs (B2R x) <= B -> is_finite (f_of_d x) = true /\ Rabs (B2R (f_of_d x)) <= B.
Proof.
  intros x B Fx FB HB Hx. destruct (f_of_d_correct x Fx) as [C1 C2]; [lra|].
  split; [exact C2|]. rewrite C1. apply rnd32_abs_le; assumption.
Qed.

Lemma f_of_d_unit : forall x : f64, is_finite x = true -> 0 <= B2R x <= 1 ->
  is_finite (f_of_d x) = true /\ 0 <= B2R (f_of_d x) <= 1.
Proof.
  intros x Fx Hx. destruct (f_of_d_correct x Fx) as [C1 C2].
  { rewrite Rabs_pos_eq by lra. apply Rle_trans with 1; [lra|]. change 1 with (bpow radix2 0). apply bpow_le. lia. }
  split; [exact C2|]. rewrite C1. apply rnd32_unit_range. exact Hx.
Qed.

Lemma fmt32_IZR_small : forall z : Z, (Z.abs z <= 2 ^ 24)%Z -> fmt32 (IZR z).
Proof.
  intros z Hz. replace (IZR z) with (IZR z * bpow radix2 0) by (simpl; ring). apply fmt32_F2R; [exact Hz|lia].
Qed.

Lemma E21 : bpow radix2 21 = 2 * bpow radix2 20.
Proof. rewrite bpow2_double. reflexivity. Qed.
Lemma E22' : bpow radix2 22 = 2 * bpow radix2 21.
Proof. rewrite bpow2_double. reflexivity. Qed.
Lemma E22 : bpow radix2 22 = 4 * bpow radix2 20.
Proof. rewrite E22', E21. ring. Qed.
Lemma E23 : bpow radix2 23 = 2 * bpow radix2 22.
Proof. rewrite bpow2_double. reflexivity. Qed.

(* the float key of a small cell, weights in the domain: finite, equal to key_R *)
Lemma cell_key_f_correct : forall (wx ww wy wh : f32) (c : cell),
  is_finite wx = true -> is_finite ww = true -> is_finite wy = true -> is_finite wh = true ->
  B2R wx = 1 -> 0 <= B2R ww <= 1 -> Rabs (B2R wy) <= 2 -> Rabs (B2R wh) <= 4 -> small_cell c ->
  let t3 := rnd32 (B2R wy * IZR (cty c)) in
  let t4 := rnd32 (B2R wh * IZR (ch c)) in
  is_finite (cell_key_f wx ww wy wh c) = true /\
  B2R (cell_key_f wx ww wy wh c) = key_R (B2R ww) t3 t4 (ctx c) (cw c) /\
  Rabs t3 <= bpow radix2 21 /\ Rabs t4 <= bpow radix2 22.
Proof.
  intros wx ww wy wh c Fx Fw Fy Fh Hwx Hww Hwy Hwh (Sx & Sy & Sw & Sh) t3 t4.
  assert (P24 : (2 ^ 20 <= 2 ^ 24)%Z) by (apply Z.pow_le_mono_r; lia).
  destruct (f_of_Z_exact (ctx c) ltac:(lia)) as [Xv Xf]. destruct (f_of_Z_exact (cw c) ltac:(lia)) as [Wv Wf].
  destruct (f_of_Z_exact (cty c) ltac:(lia)) as [Yv Yf]. destruct (f_of_Z_exact (ch c) ltac:(lia)) as [Hv Hf].
  pose proof (IZR_abs_pow _ 20 ltac:(lia) Sx) as Bx. pose proof (IZR_abs_pow _ 20 ltac:(lia) Sw) as Bw.
  pose proof (IZR_abs_pow _ 20 ltac:(lia) Sy) as By. pose proof (IZR_abs_pow _ 20 ltac:(lia) Sh) as Bh.
  assert (B3 : Rabs (B2R wy * IZR (cty c)) <= bpow radix2 21).
  { rewrite Rabs_mult, E21. apply Rmult_le_compat; [apply Rabs_pos|apply Rabs_pos|exact Hwy|exact By]. }
  assert (B4 : Rabs (B2R wh * IZR (ch c)) <= bpow radix2 22).
  { rewrite Rabs_mult, E22. apply Rmult_le_compat; [apply Rabs_pos|apply Rabs_pos|exact Hwh|exact Bh]. }
  assert (T3 : Rabs t3 <= bpow radix2 21) by (apply rnd32_abs_pow; [lia|exact B3]).
  assert (T4 : Rabs t4 <= bpow radix2 22) by (apply rnd32_abs_pow; [lia|exact B4]).
  destruct (key_R_err (B2R ww) t3 t4 (ctx c) (cw c) Hww Sx Sw T3 T4) as (_ & Ba & Bb & Bc & _).
  (* the four products *)
  destruct (fmul_correct wx (f_of_Z (ctx c)) Fx Xf) as [M1 M1f].
  { rewrite Hwx, Xv, Rmult_1_l. apply (le_bpow127 _ 20); [lia|exact Bx]. }
  rewrite Hwx, Xv, Rmult_1_l, (rnd32_id _ (fmt32_IZR_small (ctx c) ltac:(lia))) in M1.
  destruct (fmul_correct ww (f_of_Z (cw c)) Fw Wf) as [M2 M2f].
  { rewrite Wv. apply (le_bpow127 _ 20); [lia|]. rewrite Rabs_mult, <- (Rmult_1_l (bpow radix2 20)).
    apply Rmult_le_compat; [apply Rabs_pos|apply Rabs_pos|rewrite Rabs_pos_eq; lra|exact Bw]. }
  rewrite Wv in M2.
  destruct (fmul_correct wy (f_of_Z (cty c)) Fy Yf) as [M3 M3f].
  { rewrite Yv. apply (le_bpow127 _ 21); [lia|exact B3]. }
  rewrite Yv in M3. fold t3 in M3.
  destruct (fmul_correct wh (f_of_Z (ch c)) Fh Hf) as [M4 M4f].
  { rewrite Hv. apply (le_bpow127 _ 22); [lia|exact B4]. }
  rewrite Hv in M4. fold t4 in M4.
  (* the three sums *)
  destruct (fadd_correct _ _ M1f M2f) as [A1 A1f].
  { rewrite M1, M2. apply (le_bpow127 _ 21); [lia|]. eapply Rle_trans; [apply Rabs_triang|].
    rewrite E21. lra. }
  rewrite M1, M2 in A1.
  destruct (fadd_correct _ _ A1f M3f) as [A2 A2f].
  { rewrite A1, M3. apply (le_bpow127 _ 22); [lia|]. eapply Rle_trans; [apply Rabs_triang|].
    rewrite E22'. lra. }
  rewrite A1, M3 in A2.
  destruct (fadd_correct _ _ A2f M4f) as [A3 A3f].
  { rewrite A2, M4. apply (le_bpow127 _ 23); [lia|]. eapply Rle_trans; [apply Rabs_triang|].
    rewrite E23. lra. }
  rewrite A2, M4 in A3.
  split; [exact A3f|]. split; [exact A3|]. split; [exact T3|exact T4].
Qed.
