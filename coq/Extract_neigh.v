(* Extraction of the RowNeighbourhood model (RowNeigh.v) for the correspondence run RN of C02/C07
   (harness/rowneigh.cpp, ocaml/driver_neigh.ml, checks/c02_neigh.py).  ExtrOcamlBasic only; Z, positive, nat stay
   the extracted Coq datatypes.  No Extract Constant. *)
From Coq Require Import Extraction ExtrOcamlBasic ZArith List.
Require Import CV.Orient CV.FreeSpace CV.RowNeigh.
Extraction Language OCaml.
Extraction "model_neigh.ml" RowNeigh.neighbourhood.
