(* C09 -- wirelength is geometrically exact and incrementally consistent.
   Models: Hpwl.v (Circuit::pinXOffset/pinYOffset/placedWidth/placedHeight/hpwl,
   IncrNetModel).  Tied to /repo by ./check C09 (exhaustive transforms, random
   circuits and update histories, exact integer equality). *)
From Coq Require Import List ZArith Lia Bool.
Import ListNotations.
Require Import CV.Orient CV.Hpwl CV.HpwlProofs CV.HpwlFoldProofs.
Local Open Scope Z_scope.

(* [F] for each of the eight orientations, all sizes and all pin offsets (also
   outside the outline), the code's placed size and pin offsets are those of the
   DEF rotation/mirroring (R90, MX, MY compositions keeping the lower-left corner) *)
Theorem c09_pin_offset_is_transform :
  forall o w h px py pw ph x' y',
  def_transform o (w, h, px, py) = Some (pw, ph, x', y') ->
  pw = placed_width o w h /\ ph = placed_height o w h /\
  x' = pin_x_offset o w h px py /\ y' = pin_y_offset o w h px py.
Proof. exact pin_offset_is_transform. Qed.

(* ... and the transform is defined for the eight real orientations *)
Theorem c09_transform_total :
  forall o, o <> oINVALID -> o <> oUNKNOWN -> forall g, def_transform o g <> None.
Proof. exact def_transform_defined. Qed.

(* [F] the reported wirelength is the sum over nets of the net values, an empty
   net counts 0, and the value of a non-empty net is (max - min) of the pin x
   positions plus (max - min) of the pin y positions (coordinates within int) *)
Theorem c09_hpwl_is_bbox_sum :
  forall cells nets,
  hpwl cells nets = fold_right (fun net a => net_hpwl cells net + a) 0 nets /\
  net_hpwl cells [] = 0 /\
  forall net, net <> [] -> bounded (map (pin_px cells) net) -> bounded (map (pin_py cells) net) ->
  exists lox hix loy hiy,
    is_min lox (map (pin_px cells) net) /\ is_max hix (map (pin_px cells) net) /\
    is_min loy (map (pin_py cells) net) /\ is_max hiy (map (pin_py cells) net) /\
    net_hpwl cells net = (hix - lox) + (hiy - loy).
Proof.
  intros cells nets. split; [apply hpwl_is_sum|]. split; [reflexivity|]. intros net. apply net_hpwl_is_bbox.
Qed.

(* [F over unbounded Z: no range hypothesis, hence nothing about int overflow of newValue - oldValue /
   max - min in the C++ (incr_net_model.cpp:251-258); the int ranges are C07's hpwl_dom / incr listings]
   incremental consistency: from the freshly built model, after ANY sequence
   of cell position updates, the maintained value equals the value of a model
   built from scratch at the current positions, and the per-net bounds are the
   from-scratch ones *)
Theorem c09_incremental_exact :
  forall pos nets ups,
  let s' := apply_updates (incr_build pos nets) ups in
  iminmax s' = map (net_minmax (ipos s')) nets /\
  ivalue s' = ivalue (incr_build (ipos s') nets).
Proof.
  intros pos nets ups. destruct (updates_exact ups _ (build_inv pos nets)) as ([A _] & B & C).
  cbn zeta in *. cbn [incr_build inets] in B, C. split; [rewrite A, B; reflexivity|exact C].
Qed.

(* [F] the from-scratch value is the sum of the nets' extents *)
Theorem c09_scratch_value_is_extent_sum :
  forall pos nets,
  ivalue (incr_build pos nets) = fold_right (fun net a => extent (map (ipin_pos pos) net) + a) 0 nets.
Proof. intros pos nets. cbn. apply sum_widths_map. Qed.

(* [F] models over a SUBSET of the cells (IncrNetModel::xTopology/yTopology(circuit, cells)): the
   pins of the other cells are folded into one min and one max pseudo-pin on an extra cell at
   position 0; the folded net has exactly the min and the max of the original net (no hypothesis: over Z; the
   C++ is defined only when positions and extents fit in int) *)
Theorem c09_subset_folding_exact :
  forall gpos subset net,
  net_minmax (local_vec gpos subset) (topo_net gpos subset net) = net_minmax gpos net.
Proof. exact topo_net_minmax. Qed.

(* [F] ... and, nets of at most one folded pin being dropped, the value of the subset model is the
   sum over ALL nets of the true extent of their pins (empty nets count 0; coordinates within int) *)
Theorem c09_subset_value_exact :
  forall gpos subset nets,
  (forall net, In net nets -> bounded (map (ipin_pos gpos) net)) ->
  ivalue (topology gpos subset nets) = fold_right (fun net a => true_extent gpos net + a) 0 nets.
Proof. exact topology_value_exact. Qed.

(* [F] the x model plus the y model of a circuit, over any subset of its cells, is Circuit::hpwl *)
Theorem c09_models_add_up_to_hpwl :
  forall cells nets subset,
  (forall net, In net nets -> bounded (map (pin_px cells) net) /\ bounded (map (pin_py cells) net)) ->
  ivalue (circuit_topology true cells nets subset) + ivalue (circuit_topology false cells nets subset) = hpwl cells nets.
Proof. exact circuit_value_is_hpwl. Qed.

Example c09_nonvacuous_subset :
  let cells := [ {| hx := 0; hy := 0; hw := 2; hh := 2; ho := oN |}; {| hx := 10; hy := 4; hw := 2; hh := 2; ho := oFS |};
                 {| hx := -5; hy := 7; hw := 1; hh := 1; ho := oN |} ] in
  let nets := [ [ {| pc := 0; pxo := 1; pyo := 1 |}; {| pc := 1; pxo := 0; pyo := 2 |}; {| pc := 2; pxo := 0; pyo := 0 |} ]; [ {| pc := 2; pxo := 0; pyo := 0 |} ]; [] ] in
  ivalue (circuit_topology true cells nets [1%nat]) + ivalue (circuit_topology false cells nets [1%nat]) = hpwl cells nets /\ hpwl cells nets = 21.
Proof. vm_compute. split; reflexivity. Qed.

(* non-vacuity *)
Example c09_nonvacuous_transform :
  def_transform oFE (3, 5, 1, -2) = Some (5, 3, 7, 2) /\
  pin_x_offset oFE 3 5 1 (-2) = 7 /\ pin_y_offset oFE 3 5 1 (-2) = 2.
Proof. vm_compute. repeat split. Qed.

Example c09_nonvacuous_incr :
  let s := incr_build [0; 10; 20] [[(0%nat, 1); (1%nat, 0); (1%nat, 3)]; [(1%nat, 0); (2%nat, 0)]] in
  incr_trace s [(1%nat, -5); (0%nat, 100); (1%nat, 50)] = [22; 31; 131; 81].
Proof. vm_compute. reflexivity. Qed.

Print Assumptions c09_pin_offset_is_transform.
Print Assumptions c09_transform_total.
Print Assumptions c09_hpwl_is_bbox_sum.
Print Assumptions c09_incremental_exact.
Print Assumptions c09_scratch_value_is_extent_sum.
Print Assumptions c09_subset_folding_exact.
Print Assumptions c09_subset_value_exact.
Print Assumptions c09_models_add_up_to_hpwl.
