(* C07: the C++-typed intermediate values of RowLegalizer::getDisplacement
   (src/place_detailed/row_legalizer.cpp), in evaluation order, over the ideal model RowLeg.v.
   `int` = 32 bit, `long long` = 64 bit.  If every value listed here fits its type, the machine
   computation coincides with the ideal one and no signed overflow occurs (the transcription of
   the types is by hand: modelled, not verified; UBSan observes the same on the real code). *)
From Coq Require Import List ZArith Lia Bool.
Import ListNotations.
Require Import CV.RowLeg.
Local Open Scope Z_scope.

Inductive cty := I32 | I64.
Definition fits (v : cty * Z) : Prop :=
  match fst v with
  | I32 => -2147483648 <= snd v < 2147483648
  | I64 => -9223372036854775808 <= snd v < 9223372036854775808
  end.

(* the body of the while loop: old_pos - cur_pos (int), slope + width (int), their product
   (long long after the cast of the first factor), cur_cost (long long), slope += weight (int) *)
Fixpoint pop_vals (q : list bound) (ta lim w slope cur cost : Z) : list (cty * Z) :=
  match q with
  | [] => []
  | t :: q' =>
    if ((slope <? 0) && (ta <? bpos t)) || (lim <? bpos t) then
      let d := cur - bpos t in
      let sw := slope + w in
      (I32, d) :: (I32, sw) :: (I64, d * sw) :: (I64, cost + d * sw) :: (I32, slope + bw t)
      :: pop_vals q' ta lim w (slope + bw t) (bpos t) (cost + d * sw)
    else []
  end.

Definition gd_vals (s : rl) (w t : Z) : list (cty * Z) :=
  let ta := t - used s in
  let lim := rend s - used s - w in
  let '(q, passed, slope, cur, cost) := pop_loop (bounds s) ta lim w [] (- w) (rend s) 0 in
  let final := Z.min lim (Z.max (rbegin s) (if 0 <=? slope then cur else ta)) in
  [(I32, ta); (I32, - w); (I32, rend s - used s); (I32, lim)]
  ++ pop_vals (bounds s) ta lim w (- w) (rend s) 0
  ++ [(I32, cur - final); (I32, slope + w); (I64, (cur - final) * (slope + w)); (I64, cost + (cur - final) * (slope + w));
      (I32, w + used s); (I32, 2 * w); (I32, 2 * w + Z.min slope 0);
      (I32, final - ta); (I32, Z.abs (final - ta)); (I64, w * Z.abs (final - ta));
      (I64, cost + (cur - final) * (slope + w) + w * Z.abs (final - ta))].

(* histories: all intermediates of a sequence of operations *)
Fixpoint run_vals (s : rl) (ops : list op) : list (cty * Z) :=
  match ops with
  | [] => []
  | Push w t :: r => gd_vals s w t ++ run_vals (fst (push s w t)) r
  | Query w t :: r => gd_vals s w t ++ run_vals (fst (get_cost s w t)) r
  end.

(* an operation fits the segment and its target lies within twice the supported magnitude *)
Definition op_ok (s : rl) (o : op) : Prop :=
  match o with Push w t | Query w t => 0 < w <= remaining_space s /\ -8388608 <= t <= 8388608 end.
Fixpoint ops_ok (s : rl) (ops : list op) : Prop :=
  match ops with
  | [] => True
  | o :: r => op_ok s o /\ ops_ok (fst (step s o)) r
  end.
