(* C10 -- busy-circuit protocol and exception safety of placement calls.
   Model: Api.v (the Circuit object with its public vectors and flags, every setter of coloquinte.cpp, the control
   flow of Circuit::placeGlobal/legalize/placeDetailed -> GlobalPlacer::place / DetailedPlacer::legalize/place and their
   callback functions, the three export functions).  What the algorithms compute is an oracle (arbitrary functions of
   the circuit): whether parameters pass, whether legalization succeeds, whether a placer's constructor throws, how
   many callbacks there are and what they expose, whether run() throws after them.  A callback is a script: the
   operations it issues at each invocation (setters and nested placement calls with callbacks of their own) and the
   invocation at which it throws.  The entry points are modelled AFTER the F9 repair (scope guard); `call1_orig` is the
   snapshot's code.  Tied to /repo by ./check C10 (every callback index throwing, per instance). *)
From Coq Require Import List ZArith Lia Bool.
Import ListNotations.
Require Import CV.Orient CV.FreeSpace CV.Api CV.ApiProofs CV.CircuitAccess CV.CircuitAccessProofs CV.ApiAccessProofs CV.CircuitAccess_gen.
Local Open Scope Z_scope.

(* [F] a guarded setter on a busy circuit is refused with an error and changes nothing (all seven, all arguments) *)
Theorem c10_guarded_setter_refused_when_busy : forall c s,
  inUse c = true -> guarded s = true ->
  snd (apply_setter c s) = c /\ (fst (apply_setter c s) = RefusedInUse \/ fst (apply_setter c s) = RejectedArgs).
Proof. exact guarded_refused. Qed.

(* [F] every operation a callback issues during a call -- any stage, any oracle, any invocation, also after a nested
   placement call returned or threw inside the callback -- is issued on a busy circuit (e_busy = true in the log), and
   a guarded setter among them is refused with an error and leaves the circuit it was issued on (c') as it was *)
Theorem c10_guarded_setter_refused_in_callback : forall s o cb c e,
  In e (snd (fst (call1 s o cb c))) -> cbop_guarded (e_op e) = true ->
  e_busy e = true /\ (e_res e = RefusedInUse \/ e_res e = RejectedArgs) /\
  exists c', apply_cbop c' (e_op e) = (e_res e, c') /\ e_after e = c'.
Proof. exact guarded_refused_in_callback. Qed.

(* [F] ... and changes nothing: circuit and outcome of the call are those of the call whose callback does not issue
   the guarded setters at all *)
Theorem c10_guarded_setter_in_callback_changes_nothing : forall s o cb c,
  fst (fst (call1 s o (option_map (erase cbop cbop_guarded) cb) c)) = fst (fst (call1 s o cb c)) /\
  snd (call1 s o (option_map (erase cbop cbop_guarded) cb) c) = snd (call1 s o cb c).
Proof. exact guarded_in_callback_changes_nothing. Qed.

(* [F; by the shape of the model as far as the algorithms are concerned: the oracles cannot touch inUse, only the
   entry points' control flow (scope guard) can -- that friend classes do not write isInUse_ is C03's table theorem
   c03_algorithms_write_only_through_exports plus the tie]
   (repaired code) once the call has ended, by return or by ANY exception (parameters rejected, infeasible
   legalization, callback throwing at any invocation, size update detected, any internal error), the flag is clear
   and every setter whose arguments pass its own tests is accepted *)
Theorem c10_in_use_cleared_after_call : forall s o cb c,
  inUse c = false ->
  inUse (fst (fst (call1 s o cb c))) = false /\
  forall st, args_ok (fst (fst (call1 s o cb c))) st = true -> fst (apply_setter (fst (fst (call1 s o cb c))) st) = Accepted.
Proof. exact cleared_after_any_outcome. Qed.

(* [R] the same statement for the entry points of the snapshot (isInUse_ = false only on the normal path): refuted --
   rejected parameters leave the circuit busy and setRows({}) is refused afterwards.  This is finding F9, repaired by
   the `fix:` commit 265ce05 on /repo main (3e96216 on agent/C10); ./check C10 reproduces it on a tree without the repair. *)
Theorem c10_in_use_cleared_after_call_orig_refuted :
  exists s o cb c st,
    inUse c = false /\ consistent c = true /\ snd (call1_orig s o cb c) = Some EParams /\
    inUse (fst (fst (call1_orig s o cb c))) = true /\
    args_ok (fst (fst (call1_orig s o cb c))) st = true /\
    fst (apply_setter (fst (fst (call1_orig s o cb c))) st) = RefusedInUse.
Proof. exact cleared_after_call_orig_refuted. Qed.

(* [F, true by construction: o_leg : acirc -> option (list legcell) cannot write to the circuit, so this does not
   prove that Legalizer::fromIspdCircuit / run never write before throwing -- the tie and C03's access table
   carry that.  Stated for e in {ELegalizer, EParams} only: EExport keeps its partial writes, is modelled, is
   excluded here and is not proved unreachable]
   a legalization that failed (stage legalize or detailed; infeasible or parameters rejected) has left every
   vector of the circuit as it was and ran no callback: after_hard EParams c = c (nothing touched), after_hard
   ELegalizer c = c with the two "update seen" flags reset *)
Theorem c10_failed_legalize_unchanged : forall s o cb c e,
  s = StLegalize \/ s = StDetailed -> snd (call1 s o cb c) = Some e -> e = ELegalizer \/ e = EParams ->
  fst (call1 s o cb c) = (after_hard e c, []).
Proof. exact failed_legalize_unchanged1. Qed.

(* [F] Circuit::check()'s size equalities (and the polarity vector's, which check() forgets) hold in every state
   reachable from the constructor by any history of setters (any arguments) and placement calls (any stage, oracle,
   callback script, outcome) *)
Theorem c10_consistent_after : forall n h,
  consistent (run_history (new_circuit n) h) = true /\ check_ok (run_history (new_circuit n) h) = true.
Proof. exact reachable_consistent_check. Qed.

(* ---- non-vacuity: a two-cell circuit, detailed placement with one intermediate callback; the callback tries setRows,
   then legalizes again (nested call), then tries setCellIsFixed, and throws at its second invocation
   (ex_c, ex_o, ex_cb: end of ApiProofs.v) *)
(* [F over the GENERATED table; the translator is trusted] "EVERY structural modification is refused": the list of
   seven guarded setters of the model is not a sample.  tools/circuit_access.py regenerates from clang's AST of the tree
   under check the table of ALL member functions of Circuit (constructors excluded): const or not, the line of their
   first call of checkNotInUse(), every field they write or use in an unclassified way (with the line), the own
   non-const member functions they call.  For that table: (R1) a non-const member function that can change the
   structure (nets, pins, rows, fixed / obstruction flags, polarities) calls checkNotInUse() and does so before its
   first write of anything; (R2) a member function carries the guard iff the model's setter of the same name is
   `guarded`; (R3) every non-const member function that writes anything at all is one of the fourteen setters of Api.v,
   a placement entry point (which writes nothing but the in-use flag) or one of the two expansion functions (C18; they
   write widths only); (R4) a placement entry point takes the in-use flag THROUGH ITS SCOPE GUARD (table entry
   "@raii:isInUse_": an automatic variable, declared as a statement of the function body, of a class that the
   generator recognises by its shape -- constructor saves and sets the flag, destructor restores it, not copyable)
   BEFORE it hands *this to the algorithms (a shortcut path placed above the guard breaks it); (R5) an entry point
   writes NOTHING else: in particular a direct assignment to isInUse_ (a hand-written "set before, clear after",
   which has no exception path: seeded defect C10-10 in the inline place(effort)) is a plain write of "isInUse_"
   and breaks the theorem; (R6) an entry point calls no own non-const member function other than entry points
   (place(effort) = placeGlobal + placeDetailed, the effort overloads = their parameter overloads); and every
   entry point -- the four of them that are DEFINED INLINE in coloquinte.hpp included -- is in the table as a public
   non-const member function (last conjunct) -- so a setter added to the code, a guard dropped or moved behind a
   write, a flag marked by hand, all break this theorem even when no generated scenario calls that function. *)
Theorem c10_structural_setters_guarded_in_source : methods_ok circuit_methods.
Proof. exact (circuit_methods_okb_sound circuit_methods (eq_refl true)). Qed.

(* [F] the name/guard table of that rule is the setter type of the model, both ways *)
Theorem c10_setter_table_matches_model : forall s, In (setter_name s, guarded s) modelled_setters.
Proof. exact setter_table_matches_model. Qed.
Theorem c10_setter_table_complete :
  forall p, In p modelled_setters -> exists s, setter_name s = fst p /\ guarded s = snd p.
Proof. exact setter_table_complete. Qed.

Example c10_nonvacuous_callback :
  let '(c', log, e) := call1 StDetailed ex_o (Some ex_cb) ex_c in
  e = Some (ECallback 1) /\ map e_res log = [RefusedInUse; CallDone None; RefusedInUse; RefusedInUse; CallDone None; RefusedInUse]
  /\ cellX c' = [0; 2] /\ inUse c' = false /\ fst (apply_setter c' (SSetRows [])) = Accepted
  /\ map e_busy log = [true; true; true; true; true; true].
Proof. vm_compute. repeat split; auto. Qed.

Example c10_nonvacuous_failed_legalize :
  let o := {| o_params_ok := true; o_leg := fun _ => None; o_setup_ok := fun _ => true; o_gevents := []; o_gfinal := fun _ => None;
              o_devents := []; o_dfinal := fun _ => None |} in
  snd (call1 StDetailed o (Some ex_cb) ex_c) = Some ELegalizer /\ cellX (fst (fst (call1 StDetailed o (Some ex_cb) ex_c))) = [0; 0].
Proof. vm_compute. split; reflexivity. Qed.

Example c10_nonvacuous_history :
  let c := run_history (new_circuit 2)
             [HSet (SSetCellWidth [2; 2]); HSet (SAddNet [0; 1] [0; 1] [1; 1] 2); HCall StDetailed ex_o (Some ex_cb);
              HSet (SSetNets [0; 1; 3] [0; 0; 1] [0; 0; 0] [0; 0; 0] []); HSet (SSetCellX [1])] in
  netLimits c = [0; 1; 3] /\ netWeights c = [2; 2] /\ consistent c = true.
Proof. vm_compute. repeat split. Qed.

Print Assumptions c10_guarded_setter_refused_when_busy.
Print Assumptions c10_guarded_setter_refused_in_callback.
Print Assumptions c10_guarded_setter_in_callback_changes_nothing.
Print Assumptions c10_in_use_cleared_after_call.
Print Assumptions c10_in_use_cleared_after_call_orig_refuted.
Print Assumptions c10_failed_legalize_unchanged.
Print Assumptions c10_consistent_after.
Print Assumptions c10_structural_setters_guarded_in_source.
Print Assumptions c10_setter_table_matches_model.
Print Assumptions c10_setter_table_complete.
