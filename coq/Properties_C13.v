(* C13 -- the transportation solver returns a feasible minimum-cost plan; the assignment derived
   from it gives each source the sink that receives most of it.
   Statements only; every proof is `exact <lemma>` (the bounded theorem: vm_compute on the stated
   finite domains).  Model: Ssp.v, line by line after src/place_global/transportation.cpp; tied to
   the C++ by the relational correspondence run of ./check C13.  Prop-level notions (feasible,
   dual_ok, slack, cost) are LpCert's, instantiated at sources 0..nsrc-1 and sinks 0..nsnk-1:
     pb_feasible pb x := every source fully allocated /\ no sink above capacity /\ no negative entry
     pb_optimal  pb x := pb_feasible pb x /\ forall x', pb_feasible pb x' -> pb_cost pb x <= pb_cost pb x'
   (x, x' range over ALL functions nat -> nat -> Z, not only over matrices).

   SCOPE OF THE CLAIMS (review finding C13/HIGH, finding F26 of known_findings.json).  Every theorem below is about the
   ideal-integer (Z) model Ssp.v; "C13's domain" means: check() passes, INTEGER costs in [0, INT_MAX), total demand <=
   total capacity.  The model is optimal for every such cost.  The C++ (CostType = int) equals the model only while no
   int overflows:
   * proved for costs <= INT_MAX/2 = 1073741823: c07_ssp_run_no_overflow (Properties_C07.v; every int / long long
     intermediate of the whole run), sharp by c07_ssp_run_half_sharp (costs 2^30: `sendingCost_[i] + cost` = 2^31);
   * proved for the float-cost constructor (the only one DensityLegalizer::reoptimize uses): costsFromIntegers scales to
     about INT_MAX / (4 nbSinks), c07_float_problem_cost_dom + c07_ssp_run_no_overflow_scaled;
   * REFUTED for integer costs in (INT_MAX/2, INT_MAX): transportation.cpp:453 wraps and solve() returns a non-optimal
     plan or does not return (F26; witness TP 0 3 2 1 5 5 1 1 0 2000000000 2000000000 2100000000 2000000000 100: C++ cost
     2100000000, optimum 100 = ssp's answer).  ./check C13 generates this class (stream bigcost) and reports KNOWN-FINDING.
   TIE-BREAKING.  Ssp.v fixes ONE rule for equal-cost queue elements (q_push: stable insertion); no theorem here is
   parametric in that choice.  About 10 % of the C++ plans differ from the model's (libstdc++'s heap yields another
   equal-cost source); for those the C++'s optimality rests on the proved certificate checker (c13_check_plan_sound, run
   on every C++ plan by ./check C13) and on the lemon optimum, not on the theorems about ssp.
   FLOAT COSTS.  "Minimum cost" of a float-cost problem is with respect to the scaled integers costs() computed by the
   C++ (costsFromIntegers is not modelled here; C07: c07_float_problem_cost_dom).  DensityLegalizer::reoptimize is not
   modelled and not called by the check: the harness's flt stream emulates its call sequence.
   ASSERTS.  Modelled as error outcomes: cpp:467, 516, 522, 526, 533, 609 and every top() of a possibly empty queue.  Not
   modelled: cpp:46 (snk1 != snk2), 316 (increaseCapacity: 0 <= missing < nbSinks()), 560 (initQueues: the sink is full),
   596 (non-empty queue, after a top() that is modelled). *)
From Coq Require Import List ZArith Lia Bool.
Import ListNotations.
Require Import CV.LpCert CV.Ssp CV.SspProofs CV.SspSafety CV.SspF CV.SspTree CV.SspOpt CV.SspTotal CV.SspFuelCex CV.SspFuelMono.
Local Open Scope Z_scope.

(* [F] Soundness of the LP certificate checker, for all problems, plans and potentials: whenever the
   boolean checkers accept (x, u, v), the plan x is feasible and has minimum cost among all
   feasible plans.  (u, v) come from an untrusted function; nothing is assumed about them. *)
Theorem c13_certificate_sound :
  forall pb x u v, feasibleb pb x = true -> cert_okb pb x u v = true -> pb_optimal pb (plan_f x).
Proof. exact cert_sound. Qed.

(* [F] The checker as it is applied to the plan returned by the C++ (potentials by Bellman-Ford on
   the residual graph of the plan, untrusted). *)
Theorem c13_check_plan_sound :
  forall pb x, check_plan pb x = true -> pb_optimal pb (plan_f x).
Proof. exact check_plan_sound. Qed.

(* [F] The checked solver: whenever it answers, the answer is the plan of the line-by-line model
   and it is feasible and of minimum cost.  ("validated per run": ./check C13 evaluates
   solve_checked on every case.) *)
Theorem c13_checked_solver_sound :
  forall pb x, solve_checked pb = Some x -> ssp pb = Ok x /\ pb_optimal pb (plan_f x).
Proof. exact solve_checked_sound. Qed.

(* [F], partial correctness of the RAW algorithm, all inputs, no size bound: every plan returned by
   the model of TransportationSuccessiveShortestPath::run() on a problem accepted by check() is
   feasible -- every source fully allocated, no sink above its capacity, no negative allocation.
   (The proof uses a single fact about queues, q_push_head, but the statement is about the model's own tie-breaking
   rule; see TIE-BREAKING above.)  No hypothesis on total demand/capacity: when
   demand exceeds capacity the model cannot return a plan.
   _partial: this theorem states feasibility only.  The rest of C13 for the raw algorithm -- a plan IS
   returned and it is of minimum cost -- is c13_ssp_optimal (minimality of every returned plan, all
   inputs) and c13_ssp_returns (termination of every loop within the budgets of Ssp.v + optimality),
   further down. *)
Theorem c13_ssp_feasible_partial :
  forall pb x, check_pb pb = true -> ssp pb = Ok x -> pb_feasible pb (plan_f x).
Proof. exact ssp_feasible_checked. Qed.

(* [F], safety of the RAW algorithm on the whole domain of C13, no size bound: for every problem accepted by
   check() with costs in [0, INT_MAX) and total demand <= total capacity, the model of run() either returns a
   feasible plan or exhausts the fuel of one of its loops.  It never fails an assertion (cpp:467, 516, 522, 526,
   533, 609) and never calls top() on an empty queue (cpp:47/55 reached from 502, 521, 535, 538, 541).
   Invariants: G (previous theorem), Qinv (every full sink's queues contain all sources
   with a non-zero allocation there and have such a source on top), Tinv (sinkParent_ points from full sinks to
   sinks of finite sendingCost_; a parentless sink of finite cost has spare capacity; free sinks cost 0), and the
   accounting "outstanding demand <= sum of remainingCapa_".
   _partial: this theorem leaves open (i) termination of updateTree's label-correcting loop and of the two chain
   walks (fuel ids 483, 519, 532; 464 is excluded by the next theorem) and (ii) minimality.  Both are settled by
   c13_ssp_optimal, c13_ssp_returns and c13_sspF_total below (519 and 532 never run out; 483 does not run out with
   the budget big_fuel = tree_fuel; every returned plan is optimal). *)
Theorem c13_ssp_safe_partial :
  forall pb, check_pb pb = true -> (forall j i, 0 <= cost pb j i < INT_MAX) ->
  total_demand pb <= total_capacity pb ->
  match ssp pb with
  | Ok x => pb_feasible pb (plan_f x)
  | Fail (EFuel _) => True
  | Fail _ => False
  end.
Proof. exact ssp_safe. Qed.

(* [F] the `while (remaining > 0)` loop of sendSource(src) never exhausts the fuel the model gives
   it (every iteration sends at least one unit): its [Fail (EFuel 464)] outcome is impossible. *)
Theorem c13_send_loop_fuel_suffices :
  forall pb s src,
  exists r, loopP (Z.to_pos (getZ (dems pb) src + 1)) (send_body pb src) (s, getZ (dems pb) src) = Done r.
Proof. exact send_loop_never_out_of_fuel. Qed.

(* ---- unbounded optimality and termination of the RAW algorithm (SspTree.v, SspOpt.v, SspTotal.v)

   Invariants, all proved for every problem of C13's domain (no size bound), for the model's queue rule (q_push):
   * Q2inv: every queue of a full sink is sorted by cost and every element (c, i) of queue (a,b) has c = movingCost(i,a,b);
     with Qinv: top() of queue (a,b) is a source of MINIMUM moving cost among the sources allocated at a;
   * Pot: sendingCost_ is a potential of the current allocation (>= 0, 0 on sinks with spare capacity, and
     x[j][i] > 0 => d_j + c[j][i] <= d_k + c[k][i] for all k) -- dual feasibility + complementary slackness;
   * Tight: sendingCost_[a] = movingCost(a, sinkParent_[a]) + sendingCost_[sinkParent_[a]];
   * Acyc: the sinkParent_ chains end (no cycle), hence have at most nbSinks() hops.
   updateTree (label-correcting loop): loop invariant Vinv (SspTree.v); its result satisfies Tinv, Tight, Acyc and is a
   potential; augmenting along the tree keeps Pot for the OLD labels (walk2_step_P2, send3F), which are the lower bound
   that makes the next updateTree correct and terminating. *)

(* [F] MINIMUM COST of the raw algorithm (ideal-Z model; see SCOPE above for the C++), all inputs of C13's domain, no
   size bound, no checker: every plan the
   line-by-line model of run() returns is feasible and costs no more than any feasible plan (plans = arbitrary
   functions nat -> nat -> Z).  pb_optimal pb (plan_f x) unfolds to
     pb_feasible pb (plan_f x) /\ forall x', pb_feasible pb x' -> plan_cost pb x <= pb_cost pb x'.
   No hypothesis on total demand vs capacity is needed: a returned plan is feasible (c13_ssp_feasible_partial), and a
   feasible plan exists only when total demand <= total capacity (feasible_balanced). *)
Theorem c13_ssp_optimal :
  forall pb x, check_pb pb = true -> (forall j i, 0 <= cost pb j i < INT_MAX) ->
  ssp pb = Ok x -> pb_optimal pb (plan_f x).
Proof. exact ssp_optimal_checked. Qed.

(* [F] TOTAL CORRECTNESS of the line-by-line model ssp (the model that is extracted and tied to the C++), all
   inputs of C13's domain, no size bound: a plan IS returned -- every loop ends within its budget, no assertion
   fails, no empty queue is read -- and it is feasible and of minimum cost.  Ssp.v gives updateTree's `while (true)`
   loop the budget tree_fuel n = big_fuel n = n * (2 * INT_MAX + 1) + 1 rounds, which c13_sspF_total proves
   sufficient (the first budget of Ssp.v, n^3 + 2n + 1, is refuted by c13_tree_fuel_insufficient). *)
Theorem c13_ssp_returns :
  forall pb, check_pb pb = true -> (forall j i, 0 <= cost pb j i < INT_MAX) ->
  total_demand pb <= total_capacity pb ->
  exists x, ssp pb = Ok x /\ pb_optimal pb (plan_f x).
Proof. exact ssp_returns. Qed.

(* [F] (kept; the name dates from the time when Ssp.v had the cubic budget and this was all that could be said about
   ssp: "_partial" with respect to "a plan IS returned").  It is now subsumed by c13_ssp_returns; on its own it says:
   whatever budget tree_fuel is, ssp returns an optimal plan or stops in updateTree's loop (fuel id 483) and nowhere
   else -- the chain walks (519, 532) end within nbSinks()+1 hops (Acyc) and the send loop (464) within demand+1. *)
Theorem c13_ssp_returns_or_tree_fuel_partial :
  forall pb, check_pb pb = true -> (forall j i, 0 <= cost pb j i < INT_MAX) ->
  total_demand pb <= total_capacity pb ->
  (exists x, ssp pb = Ok x /\ pb_optimal pb (plan_f x)) \/ ssp pb = Fail (EFuel 483).
Proof. exact ssp_returns_or_tree_fuel. Qed.

(* SspF.v = Ssp.v with the round budget of updateTree as a parameter tf (applied to nbSinks()); same definitions
   otherwise; ssp is the instance tf = tree_fuel (= big_fuel). *)
Theorem c13_ssp_is_sspF : forall pb, sspF tree_fuel pb = ssp pb.
Proof. exact ssp_is_sspF. Qed.

(* [F] TOTAL CORRECTNESS of the raw algorithm (termination of every loop + feasibility + minimum cost) on C13's
   domain, no size bound: with a budget of at least  big_fuel n = n * (2 * INT_MAX + 1) + 1  rounds for updateTree,
   the model returns a plan and the plan is optimal.  Termination measure of the label-correcting loop:
   2 * (sum of sendingCost_) + (number of marked sinks) decreases in every round; labels stay >= the previous
   potential (>= 0).  This is the model-level statement that the unbounded C++ loop terminates (pseudo-polynomial
   bound); the chain walks and the send loop keep the budgets of Ssp.v. *)
Theorem c13_sspF_total :
  forall pb tf, check_pb pb = true -> (forall j i, 0 <= cost pb j i < INT_MAX) ->
  total_demand pb <= total_capacity pb ->
  (big_fuel (nsnk pb) <= tf (nsnk pb))%positive ->
  exists x, sspF tf pb = Ok x /\ pb_optimal pb (plan_f x).
Proof. exact sspF_total. Qed.

(* [F] for ANY budget: an optimal plan, or the budget of updateTree ran out and was smaller than big_fuel; nothing
   else can happen (no assertion, no empty top(), no other loop out of fuel). *)
Theorem c13_sspF_outcomes :
  forall pb tf, check_pb pb = true -> (forall j i, 0 <= cost pb j i < INT_MAX) ->
  total_demand pb <= total_capacity pb ->
  match sspF tf pb with
  | Ok x => pb_optimal pb (plan_f x)
  | Fail e => e = EFuel 483%nat /\ ~ (big_fuel (nsnk pb) <= tf (nsnk pb))%positive
  end.
Proof. exact sspF_spec. Qed.

(* [F] the plan does not depend on the round budget of updateTree (all problems, no hypothesis): a plan returned
   with some budget is returned with every larger budget, so two budgets never give two different plans.  With
   c13_sspF_total: whenever ssp (= sspF tree_fuel) returns a plan on C13's domain, it is THE plan of the terminating
   run -- the budget can only turn the answer into Fail (EFuel 483), never change it. *)
Theorem c13_sspF_budget_monotone :
  forall tf tf' pb x, (forall n, (tf n <= tf' n)%positive) -> sspF tf pb = Ok x -> sspF tf' pb = Ok x.
Proof. exact sspF_budget_monotone. Qed.

Theorem c13_sspF_budget_independent :
  forall tf1 tf2 pb x1 x2, sspF tf1 pb = Ok x1 -> sspF tf2 pb = Ok x2 -> x1 = x2.
Proof. exact sspF_fuel_indep. Qed.

(* [F] (witness) the budget cubic_fuel n = n^3 + 2n + 1 that Ssp.v gave updateTree before is NOT sufficient: a problem of
   C13's domain with 12 sinks and 11 sources on which the same definitions with that budget stop in updateTree's loop
   (exactly 2049 rounds needed, 1753 allowed), while ssp (budget big_fuel) returns the (optimal, c13_ssp_returns) plan
   "source i -> sink 11 - i".  The real code returns this plan too (harness/transp.cpp, cost 23628 = the lemon optimum; the
   case and the smaller members of the family are in corpus/C13/cases.txt).  The family (SspFuelCex.v) makes updateTree
   take 2^(number of full sinks) rounds, in the model and in the C++: a worst-case running-time observation, not a
   violation of C13. *)
Theorem c13_tree_fuel_insufficient :
  check_pb cex_pb = true /\ (forall j i, 0 <= cost cex_pb j i < INT_MAX) /\
  total_demand cex_pb <= total_capacity cex_pb /\
  sspF cubic_fuel cex_pb = Fail (EFuel 483) /\
  ssp cex_pb =
    Ok (map (fun j => map (fun i => if (j + i =? 11)%nat then 1 else 0) (seq 0 11)) (seq 0 12)) /\
  cubic_fuel (nsnk cex_pb) = 1753%positive /\
  sspF (fun _ => 2048%positive) cex_pb = Fail (EFuel 483) /\
  sspF (fun _ => 2049%positive) cex_pb = ssp cex_pb.
Proof. exact tree_fuel_insufficient. Qed.

(* [B] Bounded theorem: on each of the explicit finite domains below -- exactly ns sinks and nr
   sources, capacities 1..maxc, demands 1..maxd, costs 0..maxk, total demand <= total capacity --
   the raw algorithm returns a plan and that plan is feasible and of minimum cost. *)
Theorem c13_optimal_bounded :
  forall ns nr maxc maxd maxk,
  In (ns, nr, maxc, maxd, maxk)
     [(2%nat, 3%nat, 3, 3, 2); (3%nat, 2%nat, 2, 2, 2); (3%nat, 3%nat, 2, 2, 1); (2%nat, 2%nat, 3, 3, 3);
      (3%nat, 3%nat, 2, 1, 2); (1%nat, 3%nat, 9, 3, 2); (3%nat, 1%nat, 3, 9, 2); (4%nat, 2%nat, 2, 3, 1);
      (2%nat, 4%nat, 3, 2, 1)] ->
  forall pb, in_small_domain ns nr maxc maxd maxk pb -> ssp_correct pb.
Proof.
  intros ns nr maxc maxd maxk Hd. cbn [In] in Hd.
  repeat (destruct Hd as [[= <- <- <- <- <-]|Hd]; [apply bounded_correct; vm_compute; reflexivity|]).
  destruct Hd.
Qed.

(* [F] toAssignment: for every plan without negative entries (every feasible plan) and at least one
   sink, source i is assigned a sink that receives at least as much of i as any other sink, and the
   first such sink. *)
Theorem c13_to_assignment_argmax :
  forall pb al, (0 < nsnk pb)%nat -> (forall j i, 0 <= get2 al j i) ->
  length (to_assignment pb al) = nsrc pb /\
  forall i, (i < nsrc pb)%nat ->
    let r := nth i (to_assignment pb al) 0%nat in
    (r < nsnk pb)%nat /\
    (forall k, (k < nsnk pb)%nat -> get2 al k i <= get2 al r i) /\
    (forall k, (k < r)%nat -> get2 al k i < get2 al r i).
Proof. exact to_assignment_argmax. Qed.

(* [F] the boolean form of C13's own clause ("the sink that receives most of it"; which one among
   equals is not prescribed), as run on the C++ assignment *)
Theorem c13_argmaxb_sound :
  forall pb x a, argmaxb pb x a = true ->
  length a = nsrc pb /\
  forall i, (i < nsrc pb)%nat ->
    (nth i a 0%nat < nsnk pb)%nat /\ forall k, (k < nsnk pb)%nat -> get2 x k i <= get2 x (nth i a 0%nat) i.
Proof. exact argmaxb_sound. Qed.

(* [F] increaseCapacity: demands and costs untouched; afterwards total capacity >= total demand;
   nothing changes when capacity already suffices; otherwise, with m = demand - capacity > 0 and n
   sinks, sink j grows by floor(m/n), plus one for the first (m mod n) sinks, and the total capacity
   becomes exactly the total demand.  The problem stays acceptable to check(). *)
Theorem c13_increase_capacity_post :
  forall pb, (0 < nsnk pb)%nat ->
  let pb' := increase_capacity pb in
  dems pb' = dems pb /\ costs pb' = costs pb /\ nsnk pb' = nsnk pb /\
  total_demand pb' <= total_capacity pb' /\
  (total_demand pb <= total_capacity pb -> caps pb' = caps pb) /\
  (total_capacity pb < total_demand pb ->
     let m := total_demand pb - total_capacity pb in
     let n := Z.of_nat (nsnk pb) in
     total_capacity pb' = total_demand pb /\
     forall j, (j < nsnk pb)%nat ->
       getZ (caps pb') j = getZ (caps pb) j + m / n + (if Z.of_nat j <? m mod n then 1 else 0)).
Proof. exact increase_capacity_post. Qed.

Theorem c13_increase_capacity_keeps_check :
  forall pb, check_pb pb = true -> check_pb (increase_capacity pb) = true.
Proof. exact increase_capacity_check. Qed.

(* ---- non-vacuity: one non-trivial value per theorem *)
Definition ex_pb : Pb := mkPb [3; 2; 4] [2; 3; 1; 2] [[1; 5; 2; 0]; [4; 1; 3; 2]; [2; 2; 0; 7]].
Definition ex_plan : list (list Z) := [[1; 0; 0; 2]; [0; 2; 0; 0]; [1; 1; 1; 0]].

(* a plan with a split source (source 0 over sinks 0 and 2, source 1 over sinks 1 and 2), sink 0 and
   sink 1 saturated, certified with u = (2,2,0,1), v = (1,1,0) *)
Example c13_certificate_nonvacuous :
  feasibleb ex_pb ex_plan = true /\ cert_okb ex_pb ex_plan [2; 2; 0; 1] [1; 1; 0] = true /\
  check_plan ex_pb ex_plan = true /\ plan_cost ex_pb ex_plan = 7.
Proof. vm_compute. repeat split; reflexivity. Qed.

Example c13_solver_nonvacuous :
  check_pb ex_pb = true /\ ssp ex_pb = Ok ex_plan /\ solve_checked ex_pb = Some ex_plan /\
  to_assignment ex_pb ex_plan = [0%nat; 1%nat; 2%nat; 0%nat] /\
  argmaxb ex_pb ex_plan [0%nat; 1%nat; 2%nat; 0%nat] = true.
Proof. vm_compute. repeat split; reflexivity. Qed.

(* an infeasible and a feasible-but-suboptimal plan are rejected (the checkers are not constantly true) *)
Example c13_checker_rejects :
  feasibleb ex_pb [[2; 0; 0; 2]; [0; 2; 0; 0]; [0; 1; 1; 0]] = false /\
  feasibleb ex_pb [[0; 0; 1; 2]; [0; 2; 0; 0]; [2; 1; 0; 0]] = true /\
  check_plan ex_pb [[0; 0; 1; 2]; [0; 2; 0; 0]; [2; 1; 0; 0]] = false.
Proof. vm_compute. repeat split; reflexivity. Qed.

Example c13_safe_nonvacuous :
  check_pb ex_pb = true /\ (forall j i, 0 <= cost ex_pb j i < INT_MAX) /\
  total_demand ex_pb <= total_capacity ex_pb /\ total_demand ex_pb = 8.
Proof.
  split; [reflexivity|]. split; [|split; [vm_compute; discriminate|reflexivity]].
  intros j i. unfold cost, get2, ex_pb, INT_MAX. cbn [costs].
  destruct j as [|[|[|[|j]]]]; cbn [nth]; destruct i as [|[|[|[|[|i]]]]]; cbn [nth]; lia.
Qed.

Example c13_bounded_nonvacuous :
  in_small_domain 3 3 2 1 2 (mkPb [1; 1; 2] [1; 1; 1] [[0; 2; 1]; [0; 0; 2]; [1; 2; 2]]) /\
  ssp (mkPb [1; 1; 2] [1; 1; 1] [[0; 2; 1]; [0; 0; 2]; [1; 2; 2]]) = Ok [[0; 0; 1]; [0; 1; 0]; [1; 0; 0]].
Proof.
  split; [|vm_compute; reflexivity].
  unfold in_small_domain. cbn [caps dems costs length].
  repeat split; try reflexivity; repeat constructor; cbn; lia.
Qed.

(* increaseCapacity on capacities (1,1,1) for demands (5,5): m = 7, n = 3: +2 each, +1 for sink 0 *)
Example c13_increase_nonvacuous :
  caps (increase_capacity (mkPb [1; 1; 1] [5; 5] [[0; 0]; [0; 0]; [0; 0]])) = [4; 3; 3].
Proof. vm_compute. reflexivity. Qed.

Example c13_fuel_nonvacuous :
  exists s, loopP (Z.to_pos (getZ (dems ex_pb) 1 + 1)) (send_body ex_pb 1) (init_st ex_pb, getZ (dems ex_pb) 1) = Done (Ok s).
Proof. eexists. vm_compute. reflexivity. Qed.

(* the problem of c13_safe_nonvacuous is in the domain of the new theorems; with the proved budget the model
   returns the same plan (sinks 0 and 1 end saturated, so updateTree ran); so does the old cubic budget on this small
   problem; with a budget of one round it stops at updateTree's loop and nowhere else *)
Example c13_total_nonvacuous :
  sspF big_fuel ex_pb = Ok ex_plan /\ sspF cubic_fuel ex_pb = Ok ex_plan /\ ssp ex_pb = Ok ex_plan /\
  sspF (fun _ => 1%positive) ex_pb = Fail (EFuel 483) /\ (big_fuel (nsnk ex_pb) = 12884901886)%positive.
Proof. vm_compute. repeat split; reflexivity. Qed.

Print Assumptions c13_certificate_sound.
Print Assumptions c13_check_plan_sound.
Print Assumptions c13_checked_solver_sound.
Print Assumptions c13_ssp_feasible_partial.
Print Assumptions c13_ssp_safe_partial.
Print Assumptions c13_send_loop_fuel_suffices.
Print Assumptions c13_optimal_bounded.
Print Assumptions c13_to_assignment_argmax.
Print Assumptions c13_argmaxb_sound.
Print Assumptions c13_increase_capacity_post.
Print Assumptions c13_increase_capacity_keeps_check.
Print Assumptions c13_ssp_optimal.
Print Assumptions c13_ssp_returns_or_tree_fuel_partial.
Print Assumptions c13_ssp_is_sspF.
Print Assumptions c13_sspF_total.
Print Assumptions c13_sspF_outcomes.
Print Assumptions c13_tree_fuel_insufficient.
Print Assumptions c13_sspF_budget_monotone.
Print Assumptions c13_sspF_budget_independent.
Print Assumptions c13_ssp_returns.
