(* Extraction of the C13 model (transportation solver) to OCaml for the correspondence run.
   ExtrOcamlBasic only: bool/option/list/prod/unit/sumbool map to OCaml's; Z, positive, nat
   stay the extracted Coq datatypes.  No Extract Constant. *)
From Coq Require Import Extraction ExtrOcamlBasic ZArith List.
Require Import CV.LpCert CV.Ssp.
Extraction Language OCaml.
Extraction "model_transp.ml"
  Ssp.ssp Ssp.check_pb Ssp.increase_capacity Ssp.to_assignment Ssp.total_demand Ssp.total_capacity
  Ssp.feasibleb Ssp.cert_okb Ssp.potentials Ssp.check_plan Ssp.solve_checked Ssp.argmaxb Ssp.plan_cost.
