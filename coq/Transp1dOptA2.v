(* C14 optimality, part A2: facts about the costs |u_i - v_j| of a sorted problem; updateOptimalSink. *)
From Coq Require Import List ZArith Lia Bool Arith.
Import ListNotations.
Require Import CV.LpCert CV.Transp1d CV.Transp1dProofs CV.Transp1dTerm CV.Transp1dCert CV.Transp1dOpt CV.Transp1dOptA1.
Local Open Scope Z_scope.

Section Sorted.
Variable P : sprob.
Hypothesis So : sorted_sprob P.
Notation n := (n_src P).
Notation m := (n_snk P).
Notation c := (cost P).

Lemma u_le i k : (i <= k)%nat -> (k < n)%nat -> zn (su P) i <= zn (su P) k.
Proof. apply (proj1 So). Qed.
Lemma v_le j k : (j <= k)%nat -> (k < m)%nat -> zn (sv P) j <= zn (sv P) k.
Proof. apply (proj2 So). Qed.

Lemma delta_nonneg i j : (i + 1 < n)%nat -> (j + 1 < m)%nat -> 0 <= delta P i j.
Proof.
  intros Hi Hj. pose proof (u_le i (i + 1) ltac:(lia) Hi). pose proof (v_le j (j + 1) ltac:(lia) Hj).
  unfold delta, cost. lia.
Qed.

Lemma delta_zero_left i j : (i + 1 < n)%nat -> (j + 1 < m)%nat -> zn (sv P) (j + 1) <= zn (su P) i -> delta P i j = 0.
Proof.
  intros Hi Hj H. pose proof (u_le i (i + 1) ltac:(lia) Hi). pose proof (v_le j (j + 1) ltac:(lia) Hj).
  unfold delta, cost. lia.
Qed.

Lemma delta_zero_right i j : (i + 1 < n)%nat -> (j + 1 < m)%nat -> zn (su P) (i + 1) <= zn (sv P) j -> delta P i j = 0.
Proof.
  intros Hi Hj H. pose proof (u_le i (i + 1) ltac:(lia) Hi). pose proof (v_le j (j + 1) ltac:(lia) Hj).
  unfold delta, cost. lia.
Qed.

(* quasi-convexity of j |-> c i j *)
Lemma cost_qc i j k l : (j <= k)%nat -> (k <= l)%nat -> (l < m)%nat -> c i k <= Z.max (c i j) (c i l).
Proof.
  intros H1 H2 H3. pose proof (v_le j k H1 ltac:(lia)). pose proof (v_le k l H2 H3). unfold cost. lia.
Qed.

(* o is the sink chosen by updateOptimalSink for source i *)
Definition OS (i o : nat) : Prop :=
  (o < m)%nat /\ (forall j, (j < o)%nat -> c i (j + 1) <= c i j) /\ ((o + 1 < m)%nat -> c i o < c i (o + 1)).

Lemma OS_left i o : OS i o -> forall k j, (j <= k)%nat -> (k <= o)%nat -> c i k <= c i j.
Proof.
  intros (_ & H & _) k. induction k as [|k IH]; intros j Hjk Hk.
  - replace j with O by lia. lia.
  - destruct (Nat.eq_dec j (S k)) as [->|Hne]; [lia|].
    specialize (IH j ltac:(lia) ltac:(lia)). specialize (H k ltac:(lia)). replace (k + 1)%nat with (S k) in H by lia. lia.
Qed.

Lemma OS_right i o : OS i o -> forall j k, (o <= j)%nat -> (j <= k)%nat -> (k < m)%nat -> c i j <= c i k.
Proof.
  intros (Ho & _ & H) j k Hoj Hjk Hk.
  destruct (Nat.eq_dec j k) as [->|Hne]; [lia|].
  specialize (H ltac:(lia)).
  pose proof (v_le o (o + 1) ltac:(lia) ltac:(lia)) as V1.
  pose proof (v_le (o + 1) k ltac:(lia) Hk) as V2.
  destruct (Nat.eq_dec j o) as [->|Hjo].
  - unfold cost in *. lia.
  - pose proof (v_le (o + 1) j ltac:(lia) ltac:(lia)) as V3. pose proof (v_le j k Hjk Hk) as V4.
    unfold cost in *. lia.
Qed.

(* the next source keeps the non-increasing part *)
Lemma OS_next_left i o : (i + 1 < n)%nat -> OS i o -> forall j, (j < o)%nat -> c (i + 1) (j + 1) <= c (i + 1) j.
Proof.
  intros Hi (Ho & H & _) j Hj. specialize (H j Hj).
  pose proof (delta_nonneg i j Hi ltac:(lia)) as Dl. unfold delta in Dl. lia.
Qed.

Lemma upd_opt_spec i : forall fuel j, (j < m)%nat -> (m - 1 - j <= fuel)%nat ->
  let o := upd_opt P i fuel j in
  (j <= o)%nat /\ (o < m)%nat /\ (forall k, (j <= k)%nat -> (k < o)%nat -> c i (k + 1) <= c i k) /\
  ((o + 1 < m)%nat -> c i o < c i (o + 1)).
Proof.
  induction fuel as [|f IH]; intros j Hj Hf; cbn [upd_opt].
  - cbv zeta. repeat split; try lia.
  - destruct (Nat.ltb_spec (j + 1) m) as [H1|H1]; cbn [andb].
    + destruct (Z.leb_spec (c i (j + 1)) (c i j)) as [H2|H2].
      * destruct (IH (j + 1)%nat H1 ltac:(lia)) as (A & B & C & E). cbv zeta. repeat split; try lia; try assumption.
        intros k K1 K2. destruct (Nat.eq_dec k j) as [->|Hne]; [exact H2|apply C; lia].
      * cbv zeta. repeat split; try lia.
    + cbv zeta. repeat split; try lia.
Qed.

Lemma upd_opt_OS i o0 : (i < n)%nat -> (o0 < m)%nat -> (forall j, (j < o0)%nat -> c i (j + 1) <= c i j) ->
  OS i (upd_opt P i m o0) /\ (o0 <= upd_opt P i m o0)%nat.
Proof.
  intros Hi Ho H. destruct (upd_opt_spec i m o0 Ho ltac:(lia)) as (A & B & C & E). cbv zeta in *.
  split; [|exact A]. split; [exact B|]. split; [|exact E].
  intros j Hj. destruct (Nat.lt_ge_cases j o0); [apply H; assumption|apply C; lia].
Qed.
End Sorted.
