(* C14 -- optimality certificate for one-dimensional transportation plans, on top of LpCert.lp_cert_sound.
   cert_ok pb sol uu vv (boolean, extracted, run on every correspondence case on the C++ plan) checks that
   `sol` is a valid plan of `pb` and that (uu, vv) are dual potentials with complementary slackness;
   cert_ok_sound: then `sol` has minimum total cost sum a*|u_i - v_j| among ALL valid plans.
   cert_of (untrusted) computes potentials by Bellman-Ford on the residual graph; only cert_ok is proved. *)
From Coq Require Import List ZArith Lia Bool Arith.
Import ListNotations.
Require Import CV.LpCert CV.Transp1d CV.Transp1dProofs.
Local Open Scope Z_scope.

(* ---------------------------------------------------------------- plans as matrices *)
Fixpoint mat (sol : list triple) (j i : nat) : Z :=
  match sol with
  | [] => 0
  | (i', j', a) :: r => (if Nat.eqb i' i && Nat.eqb j' j then a else 0) + mat r j i
  end.

Definition pcost (pb : prob) (j i : nat) : Z := Z.abs (zn (pb_u pb) i - zn (pb_v pb) j).

Fixpoint plan_cost (pb : prob) (sol : list triple) : Z :=
  match sol with [] => 0 | (i, j, a) :: r => a * pcost pb j i + plan_cost pb r end.

Definition srcs (pb : prob) := seq 0 (nb_sources pb).
Definition snks (pb : prob) := seq 0 (nb_sinks pb).

Lemma zsum_single (f : nat -> Z) l i0 : NoDup l -> In i0 l -> (forall i, In i l -> i <> i0 -> f i = 0) -> zsum f l = f i0.
Proof.
  induction l as [|x r IH]; intros Hnd Hin Hz; [contradiction|]. cbn [zsum].
  inversion Hnd as [|? ? Hx Hr]; subst.
  destruct Hin as [->|Hin].
  - rewrite (zsum_ext f (fun _ => 0) r), zsum_zero; [lia|].
    intros a Ha. apply Hz; [right; exact Ha|]. intros ->. contradiction.
  - rewrite IH; [|exact Hr|exact Hin|intros i Hi; apply Hz; right; exact Hi].
    rewrite (Hz x); [lia|left; reflexivity|]. intros ->. contradiction.
Qed.

Lemma zsum_all_zero (f : nat -> Z) l : (forall i, In i l -> f i = 0) -> zsum f l = 0.
Proof. intros H. rewrite (zsum_ext f (fun _ => 0) l H). apply zsum_zero. Qed.

Definition in_range (pb : prob) (sol : list triple) : Prop :=
  forall i j a, In (i, j, a) sol -> (i < nb_sources pb)%nat /\ (j < nb_sinks pb)%nat.

Lemma in_range_tail pb t r : in_range pb (t :: r) -> in_range pb r.
Proof. intros H i j a Hin. apply (H i j a). right. exact Hin. Qed.

Lemma sent_mat pb sol i : in_range pb sol -> sent (snks pb) (mat sol) i = src_sum sol i.
Proof.
  unfold sent. induction sol as [|[[i' j'] a] r IH]; intros Hr; cbn [mat src_sum].
  - apply zsum_zero.
  - rewrite zsum_plus, IH by (eapply in_range_tail; exact Hr). f_equal.
    destruct (Hr i' j' a (or_introl eq_refl)) as [_ Hj].
    destruct (Nat.eqb i' i); cbn [andb].
    + rewrite (zsum_single _ (snks pb) j'); [rewrite Nat.eqb_refl; reflexivity|apply seq_NoDup|apply in_seq; lia|].
      intros j _ Hne. destruct (Nat.eqb_spec j' j); [congruence|reflexivity].
    + apply zsum_zero.
Qed.

Lemma load_mat pb sol j : in_range pb sol -> load (srcs pb) (mat sol) j = snk_sum sol j.
Proof.
  unfold load. induction sol as [|[[i' j'] a] r IH]; intros Hr; cbn [mat snk_sum].
  - apply zsum_zero.
  - rewrite zsum_plus. f_equal; [|apply IH; eapply in_range_tail; exact Hr].
    destruct (Hr i' j' a (or_introl eq_refl)) as [Hi _].
    destruct (Nat.eqb j' j); [|rewrite (zsum_all_zero _ (srcs pb)); [reflexivity|intros i _; rewrite andb_false_r; reflexivity]].
    rewrite (zsum_single _ (srcs pb) i'); [rewrite Nat.eqb_refl; reflexivity|apply seq_NoDup|apply in_seq; lia|].
    intros i _ Hne. destruct (Nat.eqb_spec i' i); [congruence|reflexivity].
Qed.

Lemma cost_mat pb sol : in_range pb sol -> LpCert.cost (srcs pb) (snks pb) (pcost pb) (mat sol) = plan_cost pb sol.
Proof.
  unfold LpCert.cost. induction sol as [|[[i' j'] a] r IH]; intros Hr; cbn [mat plan_cost].
  - apply zsum_all_zero. intros j _. apply zsum_all_zero. intros i _. lia.
  - destruct (Hr i' j' a (or_introl eq_refl)) as [Hi Hj].
    specialize (IH (in_range_tail _ _ _ Hr)).
    set (ind := fun j i => if Nat.eqb i' i && Nat.eqb j' j then a else 0).
    assert (E : forall j, zsum (fun i => pcost pb j i * (ind j i + mat r j i)) (srcs pb)
                          = zsum (fun i => pcost pb j i * ind j i) (srcs pb) + zsum (fun i => pcost pb j i * mat r j i) (srcs pb)).
    { intros j. rewrite <- zsum_plus. apply zsum_ext. intros i _. lia. }
    rewrite (zsum_ext _ _ _ (fun j _ => E j)), zsum_plus, IH. f_equal.
    rewrite (zsum_single _ (snks pb) j'); [|apply seq_NoDup|apply in_seq; lia|].
    + rewrite (zsum_single _ (srcs pb) i'); [|apply seq_NoDup|apply in_seq; lia|].
      * unfold ind. rewrite !Nat.eqb_refl. cbn [andb]. lia.
      * intros i _ Hne. unfold ind. destruct (Nat.eqb_spec i' i); [congruence|]. cbn [andb]. lia.
    + intros j _ Hne. apply zsum_all_zero. intros i _. unfold ind. destruct (Nat.eqb_spec j' j); [congruence|]. rewrite andb_false_r. lia.
Qed.

Lemma mat_nonneg sol j i : (forall i' j' a, In (i', j', a) sol -> 0 < a) -> 0 <= mat sol j i.
Proof.
  induction sol as [|[[i' j'] a] r IH]; intros H; cbn [mat]; [lia|].
  assert (0 < a) by (eapply H; left; reflexivity).
  assert (0 <= mat r j i) by (apply IH; intros; eapply H; right; eassumption).
  destruct (Nat.eqb i' i && Nat.eqb j' j); lia.
Qed.

Lemma mat_pos_in sol j i : 0 < mat sol j i -> (forall i' j' a, In (i', j', a) sol -> 0 < a) -> exists a, In (i, j, a) sol.
Proof.
  induction sol as [|[[i' j'] a] r IH]; intros H Hp; cbn [mat] in H; [lia|].
  destruct (Nat.eqb_spec i' i) as [->|Hi]; [destruct (Nat.eqb_spec j' j) as [->|Hj]|]; cbn [andb] in H.
  - exists a. left. reflexivity.
  - destruct IH as [a' Ha]; [lia|intros; eapply Hp; right; eassumption|]. exists a'. right. exact Ha.
  - destruct IH as [a' Ha]; [lia|intros; eapply Hp; right; eassumption|]. exists a'. right. exact Ha.
Qed.

Lemma valid_feasible pb sol : valid_plan pb sol ->
  feasible (srcs pb) (snks pb) (zn (pb_s pb)) (zn (pb_d pb)) (mat sol).
Proof.
  intros (V1 & V2 & V3).
  assert (Hr : in_range pb sol) by (intros i j a H; apply V1 in H; tauto).
  repeat split.
  - intros i Hi. apply in_seq in Hi. rewrite sent_mat by exact Hr. apply V2. lia.
  - intros j Hj. apply in_seq in Hj. rewrite load_mat by exact Hr. apply V3. lia.
  - intros i j _ _. apply mat_nonneg. intros i' j' a H. apply V1 in H. tauto.
Qed.

(* ---------------------------------------------------------------- the checker *)
Definition valid_planb (pb : prob) (sol : list triple) : bool :=
  forallb (fun '(i, j, a) => Nat.ltb i (nb_sources pb) && Nat.ltb j (nb_sinks pb) && (0 <? a)) sol
  && forallb (fun i => src_sum sol i =? zn (pb_s pb) i) (srcs pb)
  && forallb (fun j => snk_sum sol j <=? zn (pb_d pb) j) (snks pb).

Definition dual_okb (pb : prob) (uu vv : list Z) : bool :=
  forallb (fun j => 0 <=? zn vv j) (snks pb)
  && forallb (fun i => forallb (fun j => zn uu i - zn vv j <=? pcost pb j i) (snks pb)) (srcs pb).

Definition slackb (pb : prob) (sol : list triple) (uu vv : list Z) : bool :=
  forallb (fun '(i, j, a) => zn uu i - zn vv j =? pcost pb j i) sol
  && forallb (fun j => negb (0 <? zn vv j) || (snk_sum sol j =? zn (pb_d pb) j)) (snks pb).

Definition cert_ok (pb : prob) (sol : list triple) (uu vv : list Z) : bool :=
  valid_planb pb sol && dual_okb pb uu vv && slackb pb sol uu vv.

Lemma valid_planb_correct pb sol : valid_planb pb sol = true <-> valid_plan pb sol.
Proof.
  unfold valid_planb, valid_plan. rewrite !andb_true_iff, !forallb_forall. split.
  - intros [[H1 H2] H3]. repeat split.
    + apply H1 in H. apply andb_prop in H. destruct H as [H _]. apply andb_prop in H. destruct H as [H _]. apply Nat.ltb_lt in H. exact H.
    + apply H1 in H. apply andb_prop in H. destruct H as [H _]. apply andb_prop in H. destruct H as [_ H]. apply Nat.ltb_lt in H. exact H.
    + apply H1 in H. apply andb_prop in H. destruct H as [_ H]. apply Z.ltb_lt in H. exact H.
    + intros i Hi. apply Z.eqb_eq. apply H2. apply in_seq. lia.
    + intros j Hj. apply Z.leb_le. apply H3. apply in_seq. lia.
  - intros (V1 & V2 & V3). repeat split.
    + intros [[i j] a] H. apply V1 in H. destruct H as (A & B & C).
      apply Nat.ltb_lt in A, B. apply Z.ltb_lt in C. rewrite A, B, C. reflexivity.
    + intros i Hi. apply in_seq in Hi. apply Z.eqb_eq. apply V2. lia.
    + intros j Hj. apply in_seq in Hj. apply Z.leb_le. apply V3. lia.
Qed.

(* soundness: a plan accepted with some potentials is valid and optimal among all valid plans *)
Theorem cert_ok_sound pb sol uu vv : cert_ok pb sol uu vv = true ->
  valid_plan pb sol /\ forall sol', valid_plan pb sol' -> plan_cost pb sol <= plan_cost pb sol'.
Proof.
  unfold cert_ok. rewrite !andb_true_iff. intros [[Hv Hd] Hs].
  apply valid_planb_correct in Hv. split; [exact Hv|]. intros sol' Hv'.
  pose proof Hv as (V1 & V2 & V3). pose proof Hv' as (V1' & _ & _).
  assert (Hr : in_range pb sol) by (intros i j a H; apply V1 in H; tauto).
  assert (Hr' : in_range pb sol') by (intros i j a H; apply V1' in H; tauto).
  rewrite <- (cost_mat pb sol Hr), <- (cost_mat pb sol' Hr').
  apply (lp_cert_sound (srcs pb) (snks pb) (zn (pb_s pb)) (zn (pb_d pb)) (pcost pb) (mat sol) (zn uu) (zn vv) (mat sol')).
  - apply valid_feasible. exact Hv.
  - unfold dual_okb in Hd. rewrite andb_true_iff, !forallb_forall in Hd. destruct Hd as [D1 D2]. split.
    + intros j Hj. apply Z.leb_le. apply D1. exact Hj.
    + intros i j Hi Hj. specialize (D2 i Hi). rewrite forallb_forall in D2. apply Z.leb_le. apply D2. exact Hj.
  - unfold slackb in Hs. rewrite andb_true_iff, !forallb_forall in Hs. destruct Hs as [S1 S2]. split.
    + intros i j Hi Hj Hpos. destruct (mat_pos_in sol j i Hpos) as [a Ha]; [intros i' j' a' H; apply V1 in H; tauto|].
      apply (S1 _) in Ha. apply Z.eqb_eq in Ha. exact Ha.
    + intros j Hj Hpos. specialize (S2 j Hj). apply orb_prop in S2. destruct S2 as [S2|S2].
      * apply negb_true_iff in S2. apply Z.ltb_ge in S2. lia.
      * apply Z.eqb_eq in S2. rewrite load_mat by exact Hr. exact S2.
  - apply valid_feasible. exact Hv'.
Qed.

(* ---------------------------------------------------------------- potentials (untrusted) *)
Definition list_min (d : Z) (l : list Z) : Z := match l with [] => d | x :: r => fold_left Z.min r x end.
Definition list_max (d : Z) (l : list Z) : Z := match l with [] => d | x :: r => fold_left Z.max r x end.

Fixpoint set_min (l : list Z) (j : nat) (x : Z) : list Z :=
  match l, j with
  | [], _ => []
  | y :: r, O => Z.min y x :: r
  | y :: r, S j' => y :: set_min r j' x
  end.

(* u_i = min_j (v_j + |u_i - v_j|) *)
Definition relax_u (pb : prob) (vv : list Z) : list Z :=
  map (fun x => list_min 0 (map (fun '(v, y) => v + Z.abs (x - y)) (combine vv (pb_v pb)))) (pb_u pb).
(* v_j = min (v_j, u_i - |u_i - v_j|) over the triples (i, j, a) of the plan *)
Definition relax_v (pb : prob) (sol : list triple) (uu vv : list Z) : list Z :=
  fold_left (fun vv '(i, j, a) => set_min vv j (zn uu i - pcost pb j i)) sol vv.

Fixpoint bf (pb : prob) (sol : list triple) (rounds : nat) (vv : list Z) : list Z :=
  match rounds with
  | O => vv
  | S r => let vv' := relax_v pb sol (relax_u pb vv) vv in
           if forallb (fun '(a, b) => a =? b) (combine vv vv') then vv else bf pb sol r vv'
  end.

Definition cert_of (pb : prob) (sol : list triple) : list Z * list Z :=
  let allpos := pb_u pb ++ pb_v pb in
  let K := 1 + (Z.of_nat (nb_sources pb + nb_sinks pb + 1)) * (list_max 0 allpos - list_min 0 allpos) in
  let v0 := map (fun j => if snk_sum sol j <? zn (pb_d pb) j then 0 else K) (snks pb) in
  let vv := bf pb sol (nb_sources pb + nb_sinks pb + 2) v0 in
  (relax_u pb vv, vv).

(* solve() run under the proved checker *)
Definition solve_checked (pb : prob) : option (list triple) :=
  match solve pb with
  | Ok sol => let '(uu, vv) := cert_of pb sol in if cert_ok pb sol uu vv then Some sol else None
  | Err _ => None
  end.

Theorem solve_checked_sound pb sol : solve_checked pb = Some sol ->
  solve pb = Ok sol /\ valid_plan pb sol /\ forall sol', valid_plan pb sol' -> plan_cost pb sol <= plan_cost pb sol'.
Proof.
  unfold solve_checked. destruct (solve pb) as [s|e]; [|discriminate].
  destruct (cert_of pb s) as [uu vv]. destruct (cert_ok pb s uu vv) eqn:E; [|discriminate].
  intros H. inversion H; subst. split; [reflexivity|]. apply (cert_ok_sound _ _ _ _ E).
Qed.

(* the checker applied to an arbitrary plan (the C++ plan in the correspondence run) *)
Definition check_plan (pb : prob) (sol : list triple) : bool :=
  let '(uu, vv) := cert_of pb sol in cert_ok pb sol uu vv.

Theorem check_plan_sound pb sol : check_plan pb sol = true ->
  valid_plan pb sol /\ forall sol', valid_plan pb sol' -> plan_cost pb sol <= plan_cost pb sol'.
Proof. unfold check_plan. destruct (cert_of pb sol) as [uu vv]. apply cert_ok_sound. Qed.

(* ---------------------------------------------------------------- finite domain of the bounded theorem *)
Fixpoint lists_of (k : nat) (vals : list Z) : list (list Z) :=
  match k with
  | O => [[]]
  | S k' => flat_map (fun x => map (cons x) (lists_of k' vals)) vals
  end.

(* nested forallb over every problem with exactly n sources and m sinks whose entries are taken from the given value lists *)
Definition forall_probs (n m : nat) (pos sup dem : list Z) (f : prob -> bool) : bool :=
  forallb (fun u => forallb (fun v => forallb (fun s => forallb (fun d =>
    f {| pb_u := u; pb_v := v; pb_s := s; pb_d := d |}) (lists_of m dem)) (lists_of n sup)) (lists_of m pos)) (lists_of n pos).

(* ... with 1..N sources and 1..M sinks *)
Definition forall_probs_upto (N M : nat) (pos sup dem : list Z) (f : prob -> bool) : bool :=
  forallb (fun n => forallb (fun m => forall_probs (S n) (S m) pos sup dem f) (seq 0 M)) (seq 0 N).

Definition in_box (N M : nat) (pos sup dem : list Z) (pb : prob) : Prop :=
  (1 <= length (pb_u pb) <= N)%nat /\ (1 <= length (pb_v pb) <= M)%nat /\
  length (pb_s pb) = length (pb_u pb) /\ length (pb_d pb) = length (pb_v pb) /\
  (forall x, In x (pb_u pb) -> In x pos) /\ (forall x, In x (pb_v pb) -> In x pos) /\
  (forall x, In x (pb_s pb) -> In x sup) /\ (forall x, In x (pb_d pb) -> In x dem).

Lemma lists_of_complete vals : forall k l, length l = k -> (forall x, In x l -> In x vals) -> In l (lists_of k vals).
Proof.
  induction k as [|k IH]; intros l HL Hv.
  - destruct l; [left; reflexivity|discriminate].
  - destruct l as [|x r]; [discriminate|]. cbn [lists_of]. apply in_flat_map. exists x. split; [apply Hv; left; reflexivity|].
    apply in_map. apply IH; [cbn in HL; lia|]. intros y Hy. apply Hv. right. exact Hy.
Qed.

Lemma forall_probs_upto_spec N M pos sup dem f : forall_probs_upto N M pos sup dem f = true ->
  forall pb, in_box N M pos sup dem pb -> f pb = true.
Proof.
  unfold forall_probs_upto, forall_probs. intros H pb (B1 & B2 & B3 & B4 & B5 & B6 & B7 & B8).
  rewrite forallb_forall in H. specialize (H (length (pb_u pb) - 1)%nat ltac:(apply in_seq; lia)).
  rewrite forallb_forall in H. specialize (H (length (pb_v pb) - 1)%nat ltac:(apply in_seq; lia)).
  replace (S (length (pb_u pb) - 1)) with (length (pb_u pb)) in H by lia.
  replace (S (length (pb_v pb) - 1)) with (length (pb_v pb)) in H by lia.
  rewrite forallb_forall in H. specialize (H (pb_u pb) (lists_of_complete _ _ _ eq_refl B5)).
  rewrite forallb_forall in H. specialize (H (pb_v pb) (lists_of_complete _ _ _ eq_refl B6)).
  rewrite forallb_forall in H. specialize (H (pb_s pb) (lists_of_complete _ _ _ B3 B7)).
  rewrite forallb_forall in H. specialize (H (pb_d pb) (lists_of_complete _ _ _ B4 B8)).
  destruct pb. exact H.
Qed.

Definition bounded_ok (pb : prob) : bool :=
  match check pb with
  | Some _ => true
  | None => match solve_checked pb with Some _ => true | None => false end
  end.

Lemma bounded_ok_spec pb : bounded_ok pb = true -> check pb = None ->
  exists sol, solve pb = Ok sol /\ valid_plan pb sol /\ forall sol', valid_plan pb sol' -> plan_cost pb sol <= plan_cost pb sol'.
Proof.
  unfold bounded_ok. intros H Ck. rewrite Ck in H. destruct (solve_checked pb) as [sol|] eqn:E; [|discriminate].
  exists sol. apply solve_checked_sound. exact E.
Qed.

Lemma box_optimal N M pos sup dem : forall_probs_upto N M pos sup dem bounded_ok = true ->
  forall pb, in_box N M pos sup dem pb -> check pb = None ->
  exists sol, solve pb = Ok sol /\ valid_plan pb sol /\ forall sol', valid_plan pb sol' -> plan_cost pb sol <= plan_cost pb sol'.
Proof. intros H pb Hb Ck. apply bounded_ok_spec; [|exact Ck]. apply (forall_probs_upto_spec _ _ _ _ _ _ H pb Hb). Qed.
