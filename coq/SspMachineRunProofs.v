(* C07: every int / long long intermediate listed in SspMachineRun.v, along a whole run of the successive-shortest-path
   solver, fits its type (run_dom: check() accepts, demand <= capacity <= 2^62, scaled costs in [0, INT_MAX / 2]).
   Part 1: the states of a loop satisfy the loop invariant.
   Part 2: updateTree -- on top of C13's loop invariant Vinv (SspTree.v): every finite label is at most HALF, because
           the first round relaxes every full sink from a free sink of label 0 and labels only decrease afterwards.
   Part 3: between two calls of sendSource/3 the labels are within [0, HALF] whenever a sink has room (a consequence of
           C13's Inv /\ Jinv: the labels are potentials).
   Part 4: sendSource/3, sendSource/1, run. *)
From Coq Require Import List ZArith Lia Bool Arith Permutation.
Import ListNotations.
Require Import CV.LpCert CV.Density CV.RowLegMachine CV.Transp1dMachine CV.DensityMachine CV.DensityMachineProofs.
Require Import CV.Ssp CV.SspProofs CV.SspSafety CV.SspF CV.SspTree CV.SspOpt CV.SspTotal.
Require Import CV.SspMachine CV.SspMachineProofs CV.SspMachineRun.
Local Open Scope Z_scope.

(* ================================================================== Part 1: states of loops *)

Lemma loopP_states_inv {S R : Type} (Iv : S -> Prop) (body : S -> step S R) :
  (forall s, Iv s -> match body s with Continue s' => Iv s' | Done _ => True end) ->
  forall p s, Iv s -> Forall Iv (loopP_states p body s).
Proof.
  intros Hb.
  assert (HL : forall p s, Iv s -> match loopP p body s with Continue s' => Iv s' | Done _ => True end).
  { intros p s Hs. exact (loopP_inv Iv (fun _ => True) body Hb p s Hs). }
  induction p as [p IH|p IH|]; intros s Hs; cbn [loopP_states].
  - constructor; [exact Hs|]. pose proof (Hb s Hs) as H0. destruct (body s) as [s1|r]; [|constructor].
    apply Fapp; [apply IH, H0|]. pose proof (HL p s1 H0) as H1.
    destruct (loopP p body s1) as [s2|r]; [apply IH, H1|constructor].
  - apply Fapp; [apply IH, Hs|]. pose proof (HL p s Hs) as H1.
    destruct (loopP p body s) as [s2|r]; [apply IH, H1|constructor].
  - constructor; [exact Hs|constructor].
Qed.

Lemma foldM_states_inv {A S : Type} (Iv : S -> Prop) (f : S -> A -> res S) l :
  (forall s a s', In a l -> Iv s -> f s a = Ok s' -> Iv s') ->
  forall s, Iv s -> Forall (fun sa => Iv (fst sa) /\ In (snd sa) l) (foldM_states f l s).
Proof.
  induction l as [|a l IH]; intros Hf s Hs; cbn [foldM_states]; [constructor|].
  constructor; [split; [exact Hs|left; reflexivity]|].
  destruct (f s a) as [s1|e] eqn:E; [|constructor].
  assert (H1 : Iv s1) by (apply (Hf s a s1); [left; reflexivity|exact Hs|exact E]).
  specialize (IH (fun s0 a0 s0' Ha => Hf s0 a0 s0' (or_intror Ha)) s1 H1).
  eapply Forall_impl; [|exact IH]. intros [s0 a0] [H2 H3]. split; [exact H2|right; exact H3].
Qed.

Lemma Fflat_forall {A B} (P : A -> Prop) (Q : B -> Prop) (f : A -> list B) l :
  Forall P l -> (forall a, P a -> Forall Q (f a)) -> Forall Q (flat_map f l).
Proof. intros Hl Hf. apply Fflat. intros a Ha. apply Hf. rewrite Forall_forall in Hl. apply Hl, Ha. Qed.

(* ---- sums *)
Lemma zsum_ge_term (f : nat -> Z) l a : (forall x, In x l -> 0 <= f x) -> In a l -> f a <= zsum f l.
Proof.
  induction l as [|h t IH]; intros Hf Ha; [destruct Ha|]. cbn [zsum].
  pose proof (Hf h (or_introl eq_refl)).
  assert (0 <= zsum f t) by (apply zsum_nonneg_in; intros x Hx; apply Hf; right; exact Hx).
  destruct Ha as [->|Ha]; [lia|]. specialize (IH (fun x Hx => Hf x (or_intror Hx)) Ha). lia.
Qed.

Lemma entry_le_rowsum n m al j i : shape n m al -> (forall j i, 0 <= get2 al j i) -> get2 al j i <= rowsum m al j.
Proof.
  intros Hsh Hpos. destruct (Z.eq_dec (get2 al j i) 0) as [E|Hnz].
  - rewrite E. unfold rowsum, load. apply zsum_nonneg_in. intros x _. apply Hpos.
  - destruct (get2_inrange n m al j i Hsh Hnz) as [_ Hi]. unfold rowsum, load, plan_f.
    apply (zsum_ge_term (fun i0 => get2 al j i0)); [intros x _; apply Hpos|apply in_seq; lia].
Qed.

(* costs within half_dom: moving costs fit, and are within [-HALF, HALF] *)
Lemma half_moving pb src a b : half_dom pb -> - HALF <= pmoving pb src a b <= HALF.
Proof. intros H. unfold pmoving. pose proof (H b src). pose proof (H a src). lia. Qed.

Lemma half_moving_vals pb src a b : half_dom pb -> Forall fits (moving_vals pb src a b).
Proof. intros H. pose proof (half_moving pb src a b H). unfold moving_vals, HALF in *. dfits. Qed.

Lemma cost_dom_half pb : cost_dom pb -> half_dom pb.
Proof.
  intros (Hn & _ & Hc) j i. destruct (Hc j i) as [H0 H1]. split; [exact H0|].
  set (n := Z.of_nat (nsnk pb)) in *. assert (1 <= n) by (subst n; lia). unfold HALF. nia.
Qed.

Lemma half_dom_cost pb : half_dom pb -> forall j i, 0 <= cost pb j i < INT_MAX.
Proof. intros H j i. specialize (H j i). unfold HALF, INT_MAX in *. lia. Qed.

(* ================================================================== Part 2: updateTree *)

Section TreeM.
Variable pb : Pb.
Let n := nsnk pb.
Let m := nsrc pb.
Hypothesis Hcaps : forall j, (j < n)%nat -> 0 < cap_f pb j.
Hypothesis HC : half_dom pb.
Variables (al : list (list Z)) (rm : list Z) (qs : list (list Queue)) (p : nat -> Z).
Hypothesis Hsh : shape n m al.
Hypothesis Hpos : forall j i, 0 <= get2 al j i.
Hypothesis Hrs : forall j, (j < n)%nat -> rowsum m al j + getZ rm j = cap_f pb j.
Hypothesis Hrem : forall j, 0 <= getZ rm j.
Hypothesis Hlr : length rm = n.
Hypothesis HQ : Qinv pb al rm qs.
Hypothesis HQ2 : Q2inv pb rm qs.
Hypothesis Hp : Pot pb al rm p.

Notation scv t a := (getZ (t_sc t) a).
Notation tvv t a := (nth a (t_tv t) false).
Notation VI := (Vinv pb rm qs p).

(* the edge i -> b of a full sink is one moving cost *)
Lemma topc_half i b : (i < n)%nat -> (b < n)%nat -> i <> b -> getZ rm i = 0 -> - HALF <= topc qs i b <= HALF.
Proof.
  intros Hi Hb Hne Hri.
  destruct (edge_top pb Hcaps al rm qs Hsh Hpos Hrs Hlr HQ HQ2 i b Hi Hb Hne Hri) as (e & t & _ & -> & _ & _ & ->).
  apply half_moving, HC.
Qed.

(* every finite label is at most HALF; before the first round ends the marked sinks are the free ones (label 0),
   afterwards every label is finite *)
Definition Rinv (t : TreeSt) : Prop :=
  (forall a, (a < n)%nat -> scv t a < INT_MAX -> scv t a <= HALF) /\
  ((forall a, (a < n)%nat -> tvv t a = true -> scv t a = 0) \/ (forall a, (a < n)%nat -> scv t a < INT_MAX)).

(* invariant of the for loop 498-508 for the selected sink b with label sb *)
Definition Finv (b : nat) (sb : Z) (t : TreeSt) : Prop :=
  VI t /\ scv t b = sb /\ tvv t b = true /\
  (forall a, (a < n)%nat -> scv t a < INT_MAX -> scv t a <= HALF) /\
  (sb = 0 \/ forall a, (a < n)%nat -> scv t a < INT_MAX).

(* what one relaxation changes *)
Lemma relax_change b t i t' : VI t -> (i < n)%nat -> (b < n)%nat -> relax qs rm b t i = Ok t' ->
  forall a, scv t' a = scv t a \/ (a = i /\ i <> b /\ getZ rm i = 0 /\ scv t' a = topc qs i b + scv t b).
Proof.
  intros V Hi Hb. unfold relax. destruct (Z.gtb_spec (getZ rm i) 0) as [Hfree|Hfull]; [intros [= <-] a; left; reflexivity|].
  assert (Hri : getZ rm i = 0) by (specialize (Hrem i); lia).
  destruct (Nat.eq_dec i b) as [->|Hib].
  { unfold moving_cost. rewrite Nat.eqb_refl. cbn [bind]. destruct (Z.ltb_spec (0 + scv t b) (scv t b)); [lia|].
    intros [= <-] a. left; reflexivity. }
  rewrite (moving_cost_topc pb Hcaps al rm qs Hsh Hpos Hrs Hlr HQ HQ2 502%nat i b Hi Hb Hib Hri). cbn [bind].
  destruct (_ <? _); [|intros [= <-] a; left; reflexivity].
  intros [= <-] a. cbn [t_sc]. unfold getZ. destruct (Nat.eq_dec a i) as [->|Hne].
  - right. rewrite nth_upd_eq by (rewrite (v_lsc pb rm qs p t V); exact Hi). repeat split; assumption.
  - left. apply nth_upd_neq. congruence.
Qed.

Lemma relax_F b sb t i t' : Finv b sb t -> (b < n)%nat -> sb < INT_MAX -> (i < n)%nat ->
  relax qs rm b t i = Ok t' -> Finv b sb t'.
Proof.
  intros (V & Esb & Etb & Hbd & Hdis) Hb Hfin Hi E.
  destruct (relax_V pb Hcaps al rm qs p Hsh Hpos Hrs Hrem Hlr HQ HQ2 Hp b t i t' V Hb Etb ltac:(lia) Hi E)
    as (V' & Es' & Et' & _ & Hmono & _).
  pose proof (relax_change b t i t' V Hi Hb E) as Hch.
  split; [exact V'|]. split; [lia|]. split; [exact Et'|]. split.
  - intros a Ha Hfa. destruct (Hch a) as [Ea|(-> & Hib & Hri & Ea)].
    + rewrite Ea in *. apply Hbd; assumption.
    + destruct Hdis as [H0|Hall].
      * rewrite Ea, Esb, H0. pose proof (topc_half i b Hi Hb Hib Hri). lia.
      * pose proof (Hmono i). pose proof (Hbd i Hi (Hall i Hi)). lia.
  - destruct Hdis as [H0|Hall]; [left; exact H0|right]. intros a Ha. pose proof (Hmono a). specialize (Hall a Ha). lia.
Qed.

(* the addition of line 502 at a state of the for loop *)
Lemma relax_step_vals_fit b sb t i : Finv b sb t -> (b < n)%nat -> sb < INT_MAX -> (i < n)%nat ->
  Forall fits (relax_step_vals qs rm b t i).
Proof.
  intros (V & Esb & Etb & Hbd & _) Hb Hfin Hi. unfold relax_step_vals.
  destruct (Z.gtb_spec (getZ rm i) 0) as [Hfree|Hfull]; [constructor|].
  assert (Hri : getZ rm i = 0) by (specialize (Hrem i); lia).
  pose proof (v_rng pb rm qs p t V b Hb) as Hrb. pose proof (Hbd b Hb ltac:(lia)) as Hub.
  destruct (Nat.eq_dec i b) as [->|Hib].
  - unfold moving_cost. rewrite Nat.eqb_refl. unfold relax_vals, HALF in *. dfits.
  - rewrite (moving_cost_topc pb Hcaps al rm qs Hsh Hpos Hrs Hlr HQ HQ2 502%nat i b Hi Hb Hib Hri).
    pose proof (topc_half i b Hi Hb Hib Hri). unfold relax_vals, HALF in *. dfits.
Qed.

Lemma Finv_start t b : VI t -> Rinv t -> (b < n)%nat -> tvv t b = true -> Finv b (scv t b) t.
Proof.
  intros V [Hbd Hdis] Hb Htb. split; [exact V|]. split; [reflexivity|]. split; [exact Htb|]. split; [exact Hbd|].
  destruct Hdis as [H0|Hall]; [left; apply H0; assumption|right; exact Hall].
Qed.

(* one round of the while loop: the invariant is kept, the listed values fit *)
Lemma tree_body_R t : VI t -> Rinv t ->
  Forall fits (tree_body_vals qs rm t) /\
  match tree_body qs rm t with Continue t' => VI t' /\ Rinv t' | Done _ => True end.
Proof.
  intros V R.
  pose proof (tree_body_V pb Hcaps al rm qs p Hsh Hpos Hrs Hrem Hlr HQ HQ2 Hp t V) as HV.
  unfold tree_body_vals. unfold tree_body in *. rewrite Hlr in *. fold n in HV |- *.
  pose proof (select_best_spec2 pb rm Hlr n t) as Hsel. destruct (select_best n t) as [b|]; [|split; [constructor|exact I]].
  destruct Hsel as (Hb & Htb & Hfb). set (sb := scv t b) in *.
  pose proof (Finv_start t b V R Hb Htb) as HF. fold sb in HF.
  assert (Hstep : forall s a s', In a (seq 0 n) -> Finv b sb s -> relax qs rm b s a = Ok s' -> Finv b sb s').
  { intros s a s' Ha Hs E. apply in_seq in Ha. apply (relax_F b sb s a s' Hs Hb Hfb ltac:(lia) E). }
  split.
  - apply (Fflat_forall (fun sa : TreeSt * nat => Finv b sb (fst sa) /\ In (snd sa) (seq 0 n))).
    + apply foldM_states_inv; [exact Hstep|exact HF].
    + intros [s a] [Hs Ha]. cbn [fst snd] in *. apply in_seq in Ha.
      apply (relax_step_vals_fit b sb s a Hs Hb Hfb). lia.
  - destruct (foldM (relax qs rm b) (seq 0 n) t) as [t'|e] eqn:E; [|exact I].
    destruct HV as [V2 _]. split; [exact V2|].
    pose proof (foldM_inv (Finv b sb) (relax qs rm b) (seq 0 n) Hstep t t' HF E) as (V' & Es' & _ & Hbd' & _).
    split; [exact Hbd'|right]. cbn [t_sc] in *. intros a Ha.
    destruct (Z.lt_ge_cases 0 (getZ rm a)) as [Hfa|Hfa].
    + destruct (v_free pb rm qs p _ V2 a Ha Hfa) as [E0 _]. cbn [t_sc] in E0. rewrite E0. unfold INT_MAX. lia.
    + assert (Hra : getZ rm a = 0) by (specialize (Hrem a); lia).
      destruct (Nat.eq_dec a b) as [->|Hab]; [lia|].
      pose proof (v_relaxed pb rm qs p _ V2 b Hb) as Hrel. cbn [t_sc t_tv] in Hrel.
      rewrite nth_upd_eq in Hrel by (rewrite (v_ltv pb rm qs p t' V'); exact Hb).
      specialize (Hrel eq_refl ltac:(lia) a Ha Hra Hab).
      pose proof (topc_half a b Ha Hb Hab Hra). pose proof (Hbd' b Hb ltac:(lia)). unfold HALF, INT_MAX in *. lia.
Qed.

Lemma Rinv_init : Rinv (t_init rm).
Proof.
  split.
  - intros a Ha. rewrite (t_init_sc pb rm Hlr a Ha). destruct (_ >? _); unfold HALF, INT_MAX; lia.
  - left. intros a Ha. rewrite (t_init_tv pb rm Hlr a Ha), (t_init_sc pb rm Hlr a Ha). destruct (_ >? _); [reflexivity|discriminate].
Qed.

(* [F] updateTree: every addition of line 502, in every round, fits int *)
Lemma update_tree_vals_fit tf sc0 par0 : Forall fits (update_tree_vals tf (mkSt al rm sc0 par0 qs)).
Proof.
  unfold update_tree_vals. cbn [rem queues]. fold (t_init rm).
  apply (Fflat_forall (fun t => VI t /\ Rinv t)).
  - apply loopP_states_inv.
    + intros t [V R]. destruct (tree_body_R t V R) as [_ H]. exact H.
    + split; [apply (Vinv_init pb al rm qs p Hlr Hp)|exact Rinv_init].
  - intros t [V R]. destruct (tree_body_R t V R) as [H _]. exact H.
Qed.

End TreeM.

(* ================================================================== Part 3: the labels between two augmentations *)

Section RunM.
Variable pb : Pb.
Let n := nsnk pb.
Let m := nsrc pb.
Hypothesis Hcaps : forall j, (j < n)%nat -> 0 < cap_f pb j.
Hypothesis HC : half_dom pb.
Hypothesis Hcap : total_capacity pb <= SUMB.
Let Hcost : forall j i, 0 <= cost pb j i < INT_MAX := half_dom_cost pb HC.

(* while a sink has room the labels are potentials (C13: Jinv), hence at most ONE moving cost: a full sink holds a
   source, and for that source the free sink (label 0) is not cheaper than staying *)
Lemma labels_half s : Inv pb s -> Jinv pb s -> anyfree pb (rem s) ->
  forall a, (a < n)%nat -> 0 <= getZ (scost s) a <= HALF.
Proof.
  intros ((Hsh & Hlr & Hpos & Hrs & Hrem) & _) HJ Hfree a Ha.
  destruct (Jinv_pot pb s HJ Hfree) as (P1 & P2 & P3). destruct Hfree as (f & Hf & Hff).
  split; [apply P1, Ha|].
  destruct (Z.lt_ge_cases 0 (getZ (rem s) a)) as [Hfa|Hfa]; [rewrite (P2 a Ha Hfa); unfold HALF; lia|].
  assert (Hra : getZ (rem s) a = 0) by (specialize (Hrem a); lia).
  destruct (row_positive pb (alloc s) a Hsh) as (i & Hi & Hnz).
  { specialize (Hrs a Ha). specialize (Hcaps a Ha). unfold n, m in *. lia. }
  assert (Hal : 0 < get2 (alloc s) a i) by (specialize (Hpos a i); lia).
  pose proof (P3 a f i Ha Hf Hi Hal) as H3. rewrite (P2 f Hf Hff) in H3.
  pose proof (HC a i). pose proof (HC f i). lia.
Qed.

(* [F] bestSink: every sum of line 453 fits, at every state at which bestSink is called *)
Lemma best_sink_vals_fit_run s src : Inv pb s -> Jinv pb s -> anyfree pb (rem s) ->
  Forall fits (best_sink_vals pb (scost s) src).
Proof.
  intros HI HJ Hf. unfold best_sink_vals. apply Fmap. intros i Hi. apply in_seq in Hi.
  pose proof (labels_half s HI HJ Hf i ltac:(fold n; lia)). pose proof (HC i src). unfold HALF in *. dfit.
Qed.

(* long long side: an allocation entry plus what a sink can still take is at most the total capacity *)
Lemma cap_bound s a r : G pb s -> (a < n)%nat -> (r < n)%nat -> rowsum m (alloc s) a + getZ (rem s) r <= SUMB.
Proof.
  intros (Hsh & Hlr & Hpos & Hrs & Hrem) Ha Hr.
  assert (Hrow : forall j, 0 <= rowsum m (alloc s) j).
  { intros j. unfold rowsum, load. apply zsum_nonneg_in. intros x _. apply Hpos. }
  assert (E : total_capacity pb = zsum (fun j => rowsum m (alloc s) j) (seq 0 n) + zsum (getZ (rem s)) (seq 0 n)).
  { unfold total_capacity. rewrite zsuml_zsum. fold (nsnk pb). fold n. rewrite <- zsum_plus.
    apply zsum_ext. intros j Hj. apply in_seq in Hj. symmetry. apply Hrs. lia. }
  pose proof (zsum_ge_term (fun j => rowsum m (alloc s) j) (seq 0 n) a (fun x _ => Hrow x) ltac:(apply in_seq; lia)) as H1.
  pose proof (zsum_ge_term (getZ (rem s)) (seq 0 n) r (fun x _ => Hrem x) ltac:(apply in_seq; lia)) as H2.
  cbv beta in H1. lia.
Qed.

(* ================================================================== Part 4: sendSource *)

Lemma dest_queues_vals_fit al sink src : Forall fits (dest_queues_vals pb al sink src).
Proof.
  unfold dest_queues_vals. destruct (negb _); [constructor|]. apply Fflat. intros dst _.
  destruct (_ =? _)%nat; [constructor|apply half_moving_vals, HC].
Qed.

Lemma init_queues_vals_fit al sink : Forall fits (init_queues_vals pb al sink).
Proof.
  unfold init_queues_vals. apply Fflat. intros dst _. destruct (_ =? _)%nat; [constructor|].
  apply Fflat. intros src _. apply half_moving_vals, HC.
Qed.

(* one iteration of the second chain walk, at a state satisfying C13's walk invariant K *)
Lemma walk2_body_vals_fit s src root l mx w :
  Inv pb s -> (root < n)%nat -> 0 < mx <= getZ (rem s) root -> K pb s src root l mx w ->
  Forall fits (walk2_body_vals pb (parent s) mx w).
Proof.
  intros (HG & _ & _ & (T1 & _)) Hroot Hmx (pre & post & _ & _ & Hshw & Hposw & _ & Hrsw & _ & Hws).
  unfold walk2_body_vals. destruct (nth (w_snk w) (parent s) None) as [b|] eqn:Ep; [|constructor].
  destruct (T1 _ _ Ep) as (Ha & _). set (a := w_snk w) in *.
  pose proof (cap_bound s a root HG Ha Hroot) as Hcb.
  assert (Hent : forall i, 0 <= get2 (w_al w) a i <= rowsum m (w_al w) a).
  { intros i. split; [apply Hposw|apply (entry_le_rowsum n m); assumption]. }
  pose proof (Hrsw a Ha) as Er. unfold n, m in *. rewrite <- Er in Hcb.
  unfold walk2_step_vals. fold a. apply Fapp; [apply dest_queues_vals_fit|].
  apply Fapp; [pose proof (Hent (w_src w)); dfits|].
  destruct (update_dest_queues pb (w_al w) (w_qs w) a (w_src w)) as [qs1|]; [|constructor].
  destruct (sent_source 538 qs1 a b) as [ss|]; [|constructor].
  rewrite (get2_upd2 n m) by assumption. rewrite Nat.eqb_refl. cbn [andb].
  pose proof (Hent (w_src w)). pose proof (Hent ss). destruct (ss =? w_src w)%nat; dfits.
Qed.

Lemma walk2_vals_fit s src sink root l mx p :
  Inv pb s -> Chain (parent s) sink l root -> (root < n)%nat -> 0 < mx <= getZ (rem s) root ->
  (forall a, In a l -> good s mx a) -> (src < m)%nat ->
  Forall fits (flat_map (walk2_body_vals pb (parent s) mx)
                 (loopP_states p (walk2_body pb (parent s) (rem s) mx) (mkW2 (alloc s) (queues s) sink src false))).
Proof.
  intros HI Hch Hroot Hmx Hgood Hsrc. pose proof HI as ((Hsh & Hlr & Hpos & Hrs & Hrem) & _).
  apply (Fflat_forall (K pb s src root l mx)).
  - apply loopP_states_inv.
    + intros w HK. unfold walk2_body. destruct (nth (w_snk w) (parent s) None) as [b|] eqn:Ep; [|exact I].
      destruct (walk2_step pb (rem s) mx w b) as [w1|] eqn:Es; [|exact I].
      exact (walk2_step_K pb s src sink root l mx Hsh Hch ltac:(lia) Hgood Hsrc w b w1 HK Ep Es).
    + exists [], l. cbn [w_al w_qs w_snk w_src].
      split; [reflexivity|]. split; [exact Hch|]. split; [exact Hsh|]. split; [exact Hpos|].
      split; [intros; split; reflexivity|]. split; [reflexivity|]. split; [reflexivity|exact Hsrc].
  - intros w HK. exact (walk2_body_vals_fit s src root l mx w HI Hroot Hmx HK).
Qed.

(* the state handed to updateTree by sendSource/3 satisfies the hypotheses of Part 2 with the OLD labels as the
   potential (same derivation as in SspOpt.send3F, which only exports the facts about the final state) *)
Lemma send3_mid s src sink q root m1 w :
  Inv pb s -> Jinv pb s -> (src < m)%nat -> 0 < q -> (sink < n)%nat -> getZ (scost s) sink < INT_MAX ->
  Pot pb (alloc s) (rem s) (getZ (scost s)) ->
  (forall k, (k < n)%nat -> getZ (scost s) sink + cost pb sink src <= getZ (scost s) k + cost pb k src) ->
  run_loop 519 (chain_fuel (nsnk pb)) (walk1_body s) (sink, q) = Ok (root, m1) ->
  let mx := Z.min m1 (getZ (rem s) root) in
  run_loop 532 (chain_fuel (nsnk pb)) (walk2_body pb (parent s) (rem s) mx) (mkW2 (alloc s) (queues s) sink src false) = Ok w ->
  let al := upd2 (w_al w) (w_snk w) (w_src w) (get2 (w_al w) (w_snk w) (w_src w) + mx) in
  let rm := upd (rem s) (w_snk w) (getZ (rem s) (w_snk w) - mx) in
  let qs := if getZ rm (w_snk w) =? 0 then init_queues pb al (w_qs w) (w_snk w) else w_qs w in
  w_snk w = root /\ 0 <= get2 (w_al w) root (w_src w) <= rowsum m (alloc s) root /\
  G pb (mkSt al rm (scost s) (parent s) qs) /\ Qinv pb al rm qs /\ Q2inv pb rm qs /\ Pot pb al rm (getZ (scost s)).
Proof.
  intros HI HJ Hsrc Hq Hsink Hfin HP Hbest E1 mx E2.
  pose proof HI as ((Hsh & Hlr & Hpos & Hrs & Hrem) & Hlq0 & HQ & HT).
  destruct (walk1_spec _ _ _ _ _ _ Hq E1) as (l & Hch & Hm1 & Hgood).
  destruct (chain_root_free pb _ _ _ _ _ _ HT Hch Hsink Hfin) as [Hroot Hfree].
  assert (Hmx1 : mx <= m1) by apply Z.le_min_l.
  assert (Hmx2 : mx <= getZ (rem s) root) by apply Z.le_min_r.
  assert (Hmx : 0 < mx) by (unfold mx; lia).
  clearbody mx.
  assert (Hgood' : forall a, In a l -> good s mx a).
  { intros a Ha b e t H1 H2. specialize (Hgood a Ha b e t H1 H2). lia. }
  destruct (walk2_spec pb s src sink root l mx Hsh Hpos Hch Hmx Hgood' Hsrc _ _ E2)
    as (Ew & Hshw & Hposw & Hrsw & Hcsw & Hws).
  destruct (walk2_opt pb Hcaps s src sink root l mx HI (j_q2 pb s HJ) (j_tight pb s HJ) HP Hch Hmx Hgood' Hsrc Hsink Hbest _ _ E2)
    as (Hlqw & HQw & HP2).
  destruct HP2 as [_ Ppos Ptr Pq2 _]. rewrite Ew in *. cbv zeta.
  set (al := upd2 (w_al w) root (w_src w) (get2 (w_al w) root (w_src w) + mx)).
  set (rm := upd (rem s) root (getZ (rem s) root - mx)).
  assert (Erm : forall j, getZ rm j = if (j =? root)%nat then getZ (rem s) root - mx else getZ (rem s) j).
  { intros j. unfold rm, getZ. destruct (Nat.eqb_spec j root) as [->|Hne]; [apply nth_upd_eq; unfold n in *; lia|apply nth_upd_neq; congruence]. }
  remember (getZ rm root =? 0) as full eqn:Efull.
  set (qs := if full then init_queues pb al (w_qs w) root else w_qs w).
  assert (Gal : forall j i, get2 al j i = if ((j =? root) && (i =? w_src w))%nat
                                          then get2 (w_al w) root (w_src w) + mx else get2 (w_al w) j i).
  { intros j i. unfold al. apply (get2_upd2 (nsnk pb) (nsrc pb)); assumption. }
  split; [reflexivity|]. split.
  { split; [apply Hposw|]. pose proof (entry_le_rowsum n m (w_al w) root (w_src w) Hshw Hposw) as H0.
    pose proof (Hrsw root Hroot) as H1. unfold n, m in *. lia. }
  split; [|split; [|split]].
  - unfold G. cbn [alloc rem].
    split; [apply upd2_shape, Hshw|]. split; [unfold rm; rewrite upd_length; exact Hlr|].
    split; [|split].
    + intros j i. rewrite Gal.
      destruct ((j =? root)%nat && (i =? w_src w)%nat); [specialize (Hposw root (w_src w)); lia|apply Hposw].
    + intros j Hj. unfold al. rewrite (rowsum_upd2 (nsnk pb) (nsrc pb)) by assumption.
      rewrite Hrsw by exact Hj. specialize (Hrs j Hj). rewrite Erm.
      destruct (Nat.eqb_spec j root) as [->|Hne]; lia.
    + intros j. rewrite Erm. destruct (Nat.eqb_spec j root) as [->|Hne]; [lia|apply Hrem].
  - intros a Ha Hra. rewrite Erm in Hra. destruct (Nat.eqb_spec a root) as [->|Hne].
    + assert (Ef : full = true) by (rewrite Efull, Erm, Nat.eqb_refl; apply Z.eqb_eq, Hra).
      unfold qs. rewrite Ef. apply init_queues_Qrow. unfold n in *. lia.
    + apply (Qrow_ext pb (w_al w) (w_qs w)); [| |apply HQw; assumption].
      * unfold al. apply row_upd2_other, Hne.
      * unfold qs. destruct full; [apply init_queues_rows, Hne|reflexivity].
  - intros a Ha Hra. rewrite Erm in Hra. destruct (Nat.eqb_spec a root) as [->|Hne].
    + assert (Ef : full = true) by (rewrite Efull, Erm, Nat.eqb_refl; apply Z.eqb_eq, Hra).
      unfold qs. rewrite Ef. apply init_queues_Q2row. unfold n in *. lia.
    + apply (Q2row_ext pb (w_qs w)); [|apply Pq2; assumption].
      unfold qs. destruct full; [apply init_queues_rows, Hne|reflexivity].
  - destruct HP as (P1 & P2 & _). split; [exact P1|]. split.
    + intros j Hj Hf. apply P2; [exact Hj|]. rewrite Erm in Hf. destruct (Nat.eqb_spec j root) as [->|_]; lia.
    + intros j k i Hj Hk Hi. rewrite Gal. destruct ((j =? root)%nat && (i =? w_src w)%nat) eqn:E.
      * apply andb_true_iff in E. destruct E as [Ej Ei]. apply Nat.eqb_eq in Ej, Ei. subst j i.
        intros _. apply Ptr, Hk.
      * apply Ppos; assumption.
Qed.

(* [F] one call of sendSource(src, sink, quantity): both chain walks, the final updates, initQueues and updateTree *)
Lemma send3_vals_fit tf s src sink q :
  Inv pb s -> Jinv pb s -> (src < m)%nat -> 0 < q -> (sink < n)%nat -> getZ (scost s) sink < INT_MAX ->
  Pot pb (alloc s) (rem s) (getZ (scost s)) ->
  (forall k, (k < n)%nat -> getZ (scost s) sink + cost pb sink src <= getZ (scost s) k + cost pb k src) ->
  Forall fits (send3_vals tf pb s src sink q).
Proof.
  intros HI HJ Hsrc Hq Hsink Hfin HP Hbest.
  pose proof HI as (HG & _ & _ & HT). pose proof HG as (Hsh & Hlr & Hpos & Hrs & Hrem).
  unfold send3_vals. destruct (Z.gtb_spec q 0) as [_|]; [|lia]. cbn [negb]. cbv zeta.
  destruct (run_loop 519 (chain_fuel (nsnk pb)) (walk1_body s) (sink, q)) as [[root m1]|e] eqn:E1; [|constructor].
  destruct (walk1_spec _ _ _ _ _ _ Hq E1) as (l & Hch & Hm1 & Hgood).
  destruct (chain_root_free pb _ _ _ _ _ _ HT Hch Hsink Hfin) as [Hroot Hfree].
  set (mx := Z.min m1 (getZ (rem s) root)) in *.
  assert (Hmx1 : mx <= m1) by apply Z.le_min_l.
  assert (Hmx2 : mx <= getZ (rem s) root) by apply Z.le_min_r.
  assert (Hmx : 0 < mx) by (unfold mx; lia).
  destruct (Z.gtb_spec mx 0) as [_|]; [|lia]. cbn [negb].
  assert (Hgood' : forall a, In a l -> good s mx a).
  { intros a Ha b e t H1 H2. specialize (Hgood a Ha b e t H1 H2). lia. }
  apply Fapp; [exact (walk2_vals_fit s src sink root l mx _ HI Hch Hroot (conj Hmx Hmx2) Hgood' Hsrc)|].
  destruct (run_loop 532 _ _ _) as [w|e] eqn:E2; [|constructor].
  destruct (send3_mid s src sink q root m1 w HI HJ Hsrc Hq Hsink Hfin HP Hbest E1 E2) as (Ew & Hent & HG1 & HQ1 & HQ21 & HPot1).
  rewrite Ew in *.
  pose proof (cap_bound s root root HG Hroot Hroot) as Hcb.
  apply Fapp; [specialize (Hrem root); dfits|].
  apply Fapp; [destruct (_ =? 0); [apply init_queues_vals_fit|constructor]|].
  destruct (w_upd w || _); [|constructor].
  destruct HG1 as (Gsh & Glr & Gpos & Grs & Grem). cbn [alloc rem] in Gsh, Glr, Gpos, Grs, Grem.
  exact (update_tree_vals_fit pb Hcaps HC _ _ _ (getZ (scost s)) Gsh Gpos Grs Grem Glr HQ1 HQ21 HPot1 tf (scost s) (parent s)).
Qed.

Lemma free_le_cap s : G pb s -> free_total pb (rem s) <= total_capacity pb.
Proof.
  intros (Hsh & Hlr & Hpos & Hrs & Hrem). unfold free_total, total_capacity. rewrite zsuml_zsum. fold (nsnk pb).
  apply zsum_le. intros j Hj. apply in_seq in Hj. specialize (Hrs j ltac:(lia)). fold (cap_f pb j).
  assert (0 <= rowsum (nsrc pb) (alloc s) j) by (unfold rowsum, load; apply zsum_nonneg_in; intros x _; apply Hpos).
  lia.
Qed.

(* the invariant of the while (remaining > 0) loop of sendSource(src), as in SspTotal.send_sourceF_spec *)
Definition SI (later : Z) (sr : St * Z) : Prop :=
  Inv pb (fst sr) /\ Jinv pb (fst sr) /\ 0 <= snd sr /\ snd sr + later <= free_total pb (rem (fst sr)).

Lemma send_body_step tf src later sr : (src < m)%nat -> 0 <= later -> SI later sr ->
  Forall fits (send_body_vals tf pb src sr) /\
  match send_bodyF tf pb src sr with Continue sr' => SI later sr' | Done _ => True end.
Proof.
  intros Hsrc Hl (HI1 & HJ1 & Hr & Hft1). destruct sr as [s1 r]. cbn [fst snd] in *.
  unfold send_body_vals, send_bodyF.
  destruct (Z.gtb_spec r 0) as [Hr0|Hr0]; cbn [negb]; [|split; [constructor|exact I]].
  pose proof HI1 as (HG1 & _ & _ & (_ & _ & T3)).
  assert (Hfree : anyfree pb (rem s1)).
  { destruct (zsum_pos_exists (getZ (rem s1)) (seq 0 n)) as (j & Hj & Hp); [unfold free_total in Hft1; fold n in Hft1; lia|].
    apply in_seq in Hj. exists j. split; [lia|exact Hp]. }
  assert (Hex : exists j, (j < n)%nat /\ getZ (scost s1) j + cost pb j src < INT_MAX).
  { destruct Hfree as (j & Hj & Hp). exists j. split; [exact Hj|]. rewrite (T3 j Hj Hp). specialize (Hcost j src). lia. }
  destruct (best_sink_spec2 pb (scost s1) src Hex) as (Hk & Hfin & Hmin).
  set (k := best_sink pb (scost s1) src) in *.
  assert (Hfin' : getZ (scost s1) k < INT_MAX) by (specialize (Hcost k src); lia).
  pose proof (Jinv_pot pb s1 HJ1 Hfree) as HP.
  pose proof (send3F pb Hcaps Hcost tf s1 src k r HI1 HJ1 Hsrc Hr0 Hk Hfin' HP Hmin) as H3.
  pose proof (send3_vals_fit tf s1 src k r HI1 HJ1 Hsrc Hr0 Hk Hfin' HP Hmin) as Hv.
  pose proof (free_le_cap s1 HG1) as Hfc.
  split.
  - apply Fapp; [exact (best_sink_vals_fit_run s1 src HI1 HJ1 Hfree)|]. apply Fapp; [exact Hv|].
    destruct (send_source3F tf pb s1 src k r) as [[s2 sent]|e]; [|constructor].
    destruct H3 as (_ & _ & _ & Hs & _). dfits.
  - destruct (send_source3F tf pb s1 src k r) as [[s2 sent]|e]; [|exact I].
    destruct H3 as (HI2 & HJ2 & Hft2 & Hs & _).
    destruct (Z.gtb_spec sent 0); [|lia]. cbn [negb]. unfold SI. cbn [fst snd].
    split; [exact HI2|]. split; [exact HJ2|]. split; [lia|rewrite Hft2; lia].
Qed.

(* [F] sendSource(src): every iteration of the loop *)
Lemma send_source_vals_fit tf s src later :
  Inv pb s -> Jinv pb s -> (src < m)%nat -> 0 <= dem_f pb src -> 0 <= later ->
  dem_f pb src + later <= free_total pb (rem s) -> Forall fits (send_source_vals tf pb s src).
Proof.
  intros HI HJ Hsrc Hd Hl Hft. unfold send_source_vals. fold (dem_f pb src).
  apply (Fflat_forall (SI later)).
  - apply loopP_states_inv.
    + intros sr Hsr. exact (proj2 (send_body_step tf src later sr Hsrc Hl Hsr)).
    + unfold SI. cbn [fst snd]. split; [exact HI|split; [exact HJ|split; [exact Hd|exact Hft]]].
  - intros sr Hsr. exact (proj1 (send_body_step tf src later sr Hsrc Hl Hsr)).
Qed.

(* run(): all sources, in the order of sortedSourcesByDemand *)
Lemma run_vals_fit tf L :
  (forall a, In a L -> (a < m)%nat) -> (forall i, 0 <= dem_f pb i) ->
  forall s, Inv pb s -> Jinv pb s -> zsum (dem_f pb) L <= free_total pb (rem s) ->
  Forall fits (flat_map (fun sa => send_source_vals tf pb (fst sa) (snd sa)) (foldM_states (send_sourceF tf pb) L s)).
Proof.
  intros Hin Hd. induction L as [|a L IH]; intros s HI HJ Hft; cbn [foldM_states flat_map]; [constructor|].
  cbn [zsum] in Hft. cbn [fst snd].
  pose proof (zsum_nonneg _ L Hd) as Hl.
  apply Fapp; [exact (send_source_vals_fit tf s a _ HI HJ (Hin a (or_introl eq_refl)) (Hd a) Hl Hft)|].
  pose proof (send_sourceF_spec pb Hcaps Hcost tf s a (zsum (dem_f pb) L) HI HJ (Hin a (or_introl eq_refl)) (Hd a) Hl Hft) as H1.
  destruct (send_sourceF tf pb s a) as [s1|e]; [|constructor]. cbn [outF] in H1.
  destruct H1 as (HI1 & HJ1 & Hft1 & _).
  exact (IH (fun b Hb => Hin b (or_intror Hb)) s1 HI1 HJ1 Hft1).
Qed.

End RunM.

(* ================================================================== the whole run *)

(* [F] every listed intermediate of a whole run fits its type, for every round budget of updateTree *)
Theorem ssp_run_vals_fit tf pb : run_dom pb -> Forall fits (ssp_run_vals tf pb).
Proof.
  intros (Hchk & HC & Hbal & Hcap).
  assert (Hcaps : forall j, (j < nsnk pb)%nat -> 0 < cap_f pb j).
  { unfold check_pb in Hchk. rewrite !andb_true_iff, !forallb_forall in Hchk. destruct Hchk as [[[_ Hc] _] _].
    intros j Hj. unfold cap_f, getZ. specialize (Hc _ (nth_In _ 0 Hj)). apply Z.ltb_lt in Hc. exact Hc. }
  destruct (check_pb_nonneg pb Hchk) as [Hc0 Hd].
  pose proof (sorted_sources_perm pb) as Hperm.
  assert (Hin : forall a, In a (sorted_sources pb) -> (a < nsrc pb)%nat).
  { intros a Ha. eapply Permutation_in in Ha; [|exact Hperm]. apply in_seq in Ha. lia. }
  assert (Hft : zsum (dem_f pb) (sorted_sources pb) <= free_total pb (rem (init_st pb))).
  { rewrite (zsum_perm _ _ _ Hperm). unfold free_total. cbn [init_st rem].
    unfold total_demand, total_capacity in Hbal. rewrite !zsuml_zsum in Hbal. exact Hbal. }
  unfold ssp_run_vals. apply Fapp.
  - apply Fmap. intros d Hdin.
    assert (Hnn : forall x, In x (dems pb) -> 0 <= x).
    { intros x Hx. destruct (In_nth _ _ 0 Hx) as (i & _ & <-). apply (Hd i). }
    pose proof (Hnn d Hdin). pose proof (in_le_zsuml _ Hnn d Hdin) as Hle. unfold total_demand in Hbal. dfit.
  - exact (run_vals_fit pb Hcaps HC Hcap tf (sorted_sources pb) Hin Hd (init_st pb) (Inv_init pb Hcaps)
             (Jinv_init pb Hcaps) Hft).
Qed.

(* [F] the model of solve() (ssp = sspF tree_fuel): it returns, and every listed intermediate of its run fits, on C13's
   domain with the costs that costsFromIntegers produces and at most 2^62 units of capacity *)
Theorem ssp_run_no_overflow pb :
  check_pb pb = true -> cost_dom pb -> total_demand pb <= total_capacity pb -> total_capacity pb <= SUMB ->
  Forall fits (ssp_run_vals tree_fuel pb) /\ exists x, ssp pb = Ok x.
Proof.
  intros Hchk Hcd Hbal Hcap. pose proof (cost_dom_half pb Hcd) as HC. split.
  - apply ssp_run_vals_fit. split; [exact Hchk|split; [exact HC|split; [exact Hbal|exact Hcap]]].
  - destruct (ssp_returns pb Hchk (half_dom_cost pb HC) Hbal) as (x & E & _). exists x. exact E.
Qed.

Lemma fitsb_spec v : fitsb v = true <-> fits v.
Proof. unfold fitsb, fits. destruct (fst v); rewrite andb_true_iff, Z.leb_le, Z.ltb_lt; reflexivity. Qed.

(* ---- examples *)
Lemma cost_range_forall pb lo hi : lo <= 0 <= hi ->
  forallb (forallb (fun c => (lo <=? c) && (c <=? hi))) (costs pb) = true -> forall j i, lo <= cost pb j i <= hi.
Proof.
  intros H0 H j i. unfold cost, get2. rewrite forallb_forall in H.
  destruct (Nat.lt_ge_cases j (length (costs pb))) as [Hj|Hj].
  - pose proof (H _ (nth_In _ [] Hj)) as Hr. rewrite forallb_forall in Hr.
    destruct (Nat.lt_ge_cases i (length (nth j (costs pb) []))) as [Hi|Hi]; [|rewrite nth_overflow by exact Hi; exact H0].
    specialize (Hr _ (nth_In _ 0 Hi)). apply andb_true_iff in Hr. rewrite Z.leb_le, Z.leb_le in Hr. exact Hr.
  - rewrite (nth_overflow (costs pb)) by exact Hj. destruct i; exact H0.
Qed.

Lemma in_by_veqb v l : existsb (veqb v) l = true -> In v l.
Proof.
  intros H. apply existsb_exists in H. destruct H as (x & Hx & E). destruct v as [tv zv], x as [tx zx].
  unfold veqb in E. cbn [fst snd] in E. destruct tv, tx; try discriminate; apply Z.eqb_eq in E; subst; exact Hx.
Qed.

(* non-vacuity: a problem of the domain (costs AT the costsFromIntegers bound for 3 sinks) whose run goes through both
   chain walks and three calls of updateTree; 62 listed values, the largest int one is twice the largest cost *)
Example ssp_run_nonvacuous :
  run_dom ex_run_pb /\ cost_dom ex_run_pb /\
  ssp ex_run_pb = Ok [[2; 0; 0]; [0; 2; 0]; [1; 0; 2]] /\
  length (ssp_run_vals tree_fuel ex_run_pb) = 62%nat /\
  In (I32, 357913942) (ssp_run_vals tree_fuel ex_run_pb) /\ In (I32, -178956971) (ssp_run_vals tree_fuel ex_run_pb).
Proof.
  assert (Hc : forall j i, 0 <= cost ex_run_pb j i <= 178956971).
  { apply cost_range_forall; [lia|vm_compute; reflexivity]. }
  split; [|split; [|split; [|split; [|split]]]].
  - split; [vm_compute; reflexivity|]. split; [intros j i; specialize (Hc j i); unfold HALF; lia|].
    split; vm_compute; discriminate.
  - split; [cbn; lia|]. split; [cbn; lia|]. intros j i. specialize (Hc j i).
    change (Z.of_nat (nsnk ex_run_pb)) with 3. lia.
  - vm_compute. reflexivity.
  - vm_compute. reflexivity.
  - apply in_by_veqb. vm_compute. reflexivity.
  - apply in_by_veqb. vm_compute. reflexivity.
Qed.

(* the bound of half_dom is sharp: one unit above it (costs 2^30 = HALF + 1, still inside C13's domain, where the ideal
   model returns the optimal plan) the run contains an int value that does not fit: bestSink's 2^30 + 2^30 *)
Example ssp_run_half_sharp :
  check_pb over_run_pb = true /\ (forall j i, 0 <= cost over_run_pb j i <= HALF + 1) /\
  total_demand over_run_pb <= total_capacity over_run_pb <= SUMB /\
  ssp over_run_pb = Ok [[1; 0]; [0; 1]] /\
  In (I32, 2147483648) (ssp_run_vals tree_fuel over_run_pb) /\ ~ fits (I32, 2147483648).
Proof.
  split; [vm_compute; reflexivity|]. split; [apply cost_range_forall; [unfold HALF; lia|vm_compute; reflexivity]|].
  split; [split; vm_compute; discriminate|]. split; [vm_compute; reflexivity|].
  split; [apply in_by_veqb; vm_compute; reflexivity|]. unfold fits. cbn [fst snd]. lia.
Qed.
