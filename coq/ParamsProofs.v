(* C19 -- proofs about the model of Params.v (input validation).  The statements collected in
   Properties_C19.v are proved here. *)
From Coq Require Import String List ZArith QArith Bool Lia.
Require Import CV.Params CV.ParamsDefaults_gen.
Import ListNotations.
Open Scope Z_scope.

(* ------------------------------------------------------------------ first_fail *)

Lemma first_fail_none : forall l,
  first_fail l = None <-> (forall c m, In (c, m) l -> c = false).
Proof.
  induction l as [|[c m] r IH]; simpl.
  - split; [intros _ c m []|reflexivity].
  - destruct c.
    + split; [discriminate|]. intros H. specialize (H true m (or_introl eq_refl)). discriminate.
    + rewrite IH. split.
      * intros H c' m' [E|I]; [inversion E; reflexivity|eauto].
      * intros H c' m' I. eauto.
Qed.

Lemma first_fail_some : forall l m, first_fail l = Some m -> In (true, m) l.
Proof.
  induction l as [|[c m'] r IH]; simpl; intros m H; [discriminate|].
  destruct c; [inversion H; subst; left; reflexivity|right; auto].
Qed.

Lemma first_fail_app : forall l1 l2,
  first_fail (l1 ++ l2) = match first_fail l1 with Some m => Some m | None => first_fail l2 end.
Proof.
  induction l1 as [|[c m] r IH]; simpl; intros; [reflexivity|]. destruct c; auto.
Qed.

(* the first failing test decides: everything before it passed *)
Lemma first_fail_first : forall l m, first_fail l = Some m ->
  exists l1 l2, l = l1 ++ (true, m) :: l2 /\ forall c m', In (c, m') l1 -> c = false.
Proof.
  induction l as [|[c m'] r IH]; simpl; intros m H; [discriminate|].
  destruct c.
  - inversion H; subst. exists [], r. split; [reflexivity|intros ? ? []].
  - destruct (IH _ H) as (l1 & l2 & E & F). exists ((false, m') :: l1), l2. split.
    + rewrite E. reflexivity.
    + intros c m'' [X|X]; [inversion X; reflexivity|eauto].
Qed.

(* ------------------------------------------------------------------ exact comparisons *)

Lemma qlt_spec : forall a b, qlt a b = true <-> (a < b)%Q.
Proof. intros. unfold qlt, Qlt. apply Z.ltb_lt. Qed.
Lemma qle_spec : forall a b, qle a b = true <-> (a <= b)%Q.
Proof. intros. unfold qle, Qle. apply Z.leb_le. Qed.
Lemma qlt_false : forall a b, qlt a b = false <-> (b <= a)%Q.
Proof. intros. unfold qlt, Qle. rewrite Z.ltb_ge. reflexivity. Qed.
Lemma qle_false : forall a b, qle a b = false <-> (b < a)%Q.
Proof. intros. unfold qle, Qlt. rewrite Z.leb_gt. reflexivity. Qed.

(* ------------------------------------------------------------------ check(): Prop-level reading *)

(* the documented ranges, as propositions over Q (closed or open as in the C++ tests) *)
Definition penalty_ok (p : PenaltyParams) : Prop :=
  (d_1em6 <= pe_cutoffDistance p)%Q /\
  (d_0p8 <= pe_cutoffDistanceUpdateFactor p <= d_1p2)%Q /\
  (d_0p49 <= pe_areaExponent p <= d_1p01)%Q /\
  (q0 < pe_initialValue p)%Q /\
  (q1 < pe_updateFactor p /\ pe_updateFactor p < q2)%Q /\
  (f_0p1 <= pe_targetBlending p <= f_1p1)%Q.

Definition continuous_ok (p : ContinuousParams) : Prop :=
  (d_1em6 <= cm_approximationDistance p <= d_1e3)%Q /\
  (d_0p8 <= cm_approximationDistanceUpdateFactor p <= d_1p2)%Q /\
  0 < cm_maxNbConjugateGradientSteps p /\
  (d_1em8 <= cm_conjugateGradientErrorTolerance p <= q1)%Q.

Definition legalization_ok (p : LegalizationParams) : Prop :=
  lg_costModel p = 0 /\ (qm1 <= lg_orderingWidth p <= q2)%Q /\ (d_m0p2 <= lg_orderingY p <= d_0p2)%Q.

Definition detailed_ok (p : DetailedParams) : Prop :=
  0 <= dp_nbPasses p /\ 0 <= dp_localSearchNbNeighbours p /\ 0 <= dp_localSearchNbRows p /\
  0 < dp_shiftNbRows p /\ 0 <= dp_shiftMaxNbCells p /\ 0 < dp_reorderingNbRows p /\
  0 <= dp_reorderingMaxNbCells p.

Definition global_own_ok (p : GlobalOwn) : Prop :=
  0 <= gp_nbInitialSteps p < gp_maxNbSteps p /\
  1 <= gp_nbStepsBeforeRoughLegalization p /\
  (q0 <= gp_gapTolerance p <= q1)%Q /\ (q0 <= gp_distanceTolerance p)%Q /\
  (qmhalf <= gp_exportBlending p <= q3half)%Q /\ (q0 <= gp_noise p <= q2)%Q /\
  (q0 < gp_penaltyUpdateDistance p)%Q /\ (q1 <= gp_penaltyUpdateBackoff p)%Q.

Definition rough_ok (p : RoughParams) : Prop :=
  let ls := rl_lineReoptSize p in let lo := rl_lineReoptOverlap p in
  let ds := rl_diagReoptSize p in let do := rl_diagReoptOverlap p in
  let ss := rl_squareReoptSize p in let so := rl_squareReoptOverlap p in
  0 <= rl_nbSteps p /\ (q1 <= rl_binSize p <= q25)%Q /\
  (1 <= ls <= 64 /\ 1 <= ds <= 64 /\ 1 <= ss <= 8) /\
  (1 <= lo /\ 1 <= do /\ 1 <= so) /\
  (2 <= ls \/ 2 <= ds \/ 2 <= ss \/ (rl_unidimensionalTransport p = true /\ rl_costModel p = 0)) /\
  (1 < ls -> lo < ls) /\ (1 < ds -> do < ds) /\ (1 < ss -> so < ss) /\
  (q0 <= rl_quadraticPenalty p <= q1)%Q /\ (d_m0p1 <= rl_targetBlending p <= f_0p9)%Q.

Ltac unfold_tests := unfold check_penalty, check_continuous, check_rough, check_legalization, check_detailed,
  penalty_tests, continuous_tests, rough_tests, legalization_tests, detailed_tests, global_own_tests.

(* split a "first_fail [..] = None" hypothesis / goal into its tests *)
Ltac ff_inv H :=
  simpl in H;
  repeat match type of H with
  | (if ?c then _ else _) = None => let E := fresh "E" in destruct c eqn:E; [discriminate H|]
  end.

Ltac bool_facts :=
  repeat match goal with
  | H : (_ || _) = false |- _ => apply orb_false_iff in H; destruct H
  | H : (_ && _) = false |- _ => apply andb_false_iff in H
  | H : negb _ = false |- _ => apply negb_false_iff in H
  | H : negb _ = true |- _ => apply negb_true_iff in H
  | H : qlt _ _ = false |- _ => apply qlt_false in H
  | H : qle _ _ = false |- _ => apply qle_false in H
  | H : qgt _ _ = false |- _ => unfold qgt in H; apply qlt_false in H
  | H : qge _ _ = false |- _ => unfold qge in H; apply qle_false in H
  | H : (_ <? _) = false |- _ => apply Z.ltb_ge in H
  | H : (_ <=? _) = false |- _ => apply Z.leb_gt in H
  | H : (_ >? _) = false |- _ => rewrite Z.gtb_ltb in H; apply Z.ltb_ge in H
  | H : (_ >=? _) = false |- _ => rewrite Z.geb_leb in H; apply Z.leb_gt in H
  | H : (_ =? _) = true |- _ => apply Z.eqb_eq in H
  | H : (_ =? _) = false |- _ => apply Z.eqb_neq in H
  end.

Lemma penalty_check_ok : forall p, check_penalty p = None <-> penalty_ok p.
Proof.
  intros p. unfold_tests. unfold penalty_ok. split.
  - intros H. ff_inv H. bool_facts. tauto.
  - intros (A & (B1 & B2) & (C1 & C2) & D & (E1 & E2) & (F1 & F2)).
    simpl. unfold qgt, qge.
    apply qlt_false in A, B1, B2, C1, C2, F1, F2. apply qle_false in D, E1, E2.
    rewrite A, B1, B2, C1, C2, D, E1, E2, F1, F2. reflexivity.
Qed.

Lemma continuous_check_ok : forall p, check_continuous p = None <-> continuous_ok p.
Proof.
  intros p. unfold_tests. unfold continuous_ok. split.
  - intros H. ff_inv H. bool_facts. repeat split; auto; lia.
  - intros ((A1 & A2) & (B1 & B2) & C & (D1 & D2)).
    simpl. unfold qgt.
    apply qlt_false in A1, A2, B1, B2, D1, D2. apply Z.leb_gt in C.
    rewrite A1, A2, B1, B2, C, D1, D2. reflexivity.
Qed.

Lemma legalization_check_ok : forall p, check_legalization p = None <-> legalization_ok p.
Proof.
  intros p. unfold_tests. unfold legalization_ok. split.
  - intros H. ff_inv H. bool_facts. tauto.
  - intros (A & (B1 & B2) & (C1 & C2)).
    simpl. unfold qgt. apply Z.eqb_eq in A. apply qlt_false in B1, B2, C1, C2.
    rewrite A, B1, B2, C1, C2. reflexivity.
Qed.

Lemma detailed_check_ok : forall p, check_detailed p = None <-> detailed_ok p.
Proof.
  intros p. unfold_tests. unfold detailed_ok. split.
  - intros H. ff_inv H. bool_facts. lia.
  - intros (A & B & C & D & E & F & G). simpl.
    apply Z.ltb_ge in A, B, C, E, G. apply Z.leb_gt in D, F.
    rewrite A, B, C, D, E, F, G. reflexivity.
Qed.

Lemma global_own_check_ok : forall p, first_fail (global_own_tests p) = None <-> global_own_ok p.
Proof.
  intros p. unfold_tests. unfold global_own_ok. split.
  - intros H. ff_inv H. bool_facts. repeat split; auto; lia.
  - intros ((A1 & A2) & B & (C1 & C2) & D & (E1 & E2) & (F1 & F2) & G & I). simpl. unfold qgt.
    assert (M : gp_maxNbSteps p <? 0 = false) by (apply Z.ltb_ge; lia).
    assert (A1' : gp_nbInitialSteps p <? 0 = false) by (apply Z.ltb_ge; lia).
    assert (A2' : gp_nbInitialSteps p >=? gp_maxNbSteps p = false) by (rewrite Z.geb_leb; apply Z.leb_gt; lia).
    assert (B' : gp_nbStepsBeforeRoughLegalization p <? 1 = false) by (apply Z.ltb_ge; lia).
    apply qlt_false in C1, C2, D, E1, E2, F1, F2, I. apply qle_false in G.
    rewrite M, A1', A2', B', C1, C2, D, E1, E2, F1, F2, G, I. reflexivity.
Qed.

Lemma rough_check_ok : forall p, check_rough p = None <-> rough_ok p.
Proof.
  intros p. unfold_tests. unfold rough_ok. cbv zeta. split.
  - intros H. ff_inv H. clear H.
    match goal with H : (_ && _ && _ && _) = false |- _ => rename H into HX end.
    match goal with H : (((rl_lineReoptSize p >? 1) && _) = false) |- _ => rename H into HL end.
    match goal with H : (((rl_diagReoptSize p >? 1) && _) = false) |- _ => rename H into HD end.
    match goal with H : (((rl_squareReoptSize p >? 1) && _) = false) |- _ => rename H into HS end.
    bool_facts.
    repeat split; auto; try lia.
    destruct HX as [HX|HX].
    + apply andb_false_iff in HX. destruct HX as [HX|HX].
      * apply andb_false_iff in HX. destruct HX as [HX|HX]; bool_facts; lia.
      * bool_facts; lia.
    + apply orb_false_iff in HX. destruct HX as [X1 X2]. bool_facts.
      right; right; right. split; [destruct (rl_unidimensionalTransport p); auto; discriminate|auto].
  - intros (A & (B1 & B2) & ((C1 & C2) & (C3 & C4) & (C5 & C6)) & (D1 & D2 & D3) & X & L & D & S &
            (E1 & E2) & (F1 & F2)).
    simpl. unfold qgt.
    apply qlt_false in B1, B2, E1, E2, F1, F2.
    rewrite B1, B2, E1, E2, F1, F2.
    replace (rl_nbSteps p <? 0) with false by (symmetry; apply Z.ltb_ge; lia).
    replace (rl_lineReoptSize p <? 1) with false by (symmetry; apply Z.ltb_ge; lia).
    replace (rl_diagReoptSize p <? 1) with false by (symmetry; apply Z.ltb_ge; lia).
    replace (rl_squareReoptSize p <? 1) with false by (symmetry; apply Z.ltb_ge; lia).
    replace (rl_lineReoptOverlap p <? 1) with false by (symmetry; apply Z.ltb_ge; lia).
    replace (rl_diagReoptOverlap p <? 1) with false by (symmetry; apply Z.ltb_ge; lia).
    replace (rl_squareReoptOverlap p <? 1) with false by (symmetry; apply Z.ltb_ge; lia).
    replace (rl_lineReoptSize p >? 64) with false by (symmetry; rewrite Z.gtb_ltb; apply Z.ltb_ge; lia).
    replace (rl_diagReoptSize p >? 64) with false by (symmetry; rewrite Z.gtb_ltb; apply Z.ltb_ge; lia).
    replace (rl_squareReoptSize p >? 8) with false by (symmetry; rewrite Z.gtb_ltb; apply Z.ltb_ge; lia).
    simpl.
    assert (HX : (rl_lineReoptSize p <? 2) && (rl_diagReoptSize p <? 2) && (rl_squareReoptSize p <? 2) &&
                 (negb (rl_unidimensionalTransport p) || negb (rl_costModel p =? 0)) = false).
    { destruct X as [X|[X|[X|[X1 X2]]]].
      - replace (rl_lineReoptSize p <? 2) with false by (symmetry; apply Z.ltb_ge; lia). reflexivity.
      - replace (rl_diagReoptSize p <? 2) with false by (symmetry; apply Z.ltb_ge; lia).
        rewrite andb_false_r. reflexivity.
      - replace (rl_squareReoptSize p <? 2) with false by (symmetry; apply Z.ltb_ge; lia).
        rewrite andb_false_r. reflexivity.
      - rewrite X1, X2. simpl. rewrite andb_false_r. reflexivity. }
    rewrite HX.
    assert (HL : (rl_lineReoptSize p >? 1) && (rl_lineReoptOverlap p >=? rl_lineReoptSize p) = false).
    { destruct (rl_lineReoptSize p >? 1) eqn:G; [|reflexivity]. simpl.
      rewrite Z.gtb_ltb in G. apply Z.ltb_lt in G. rewrite Z.geb_leb. apply Z.leb_gt. auto. }
    assert (HD : (rl_diagReoptSize p >? 1) && (rl_diagReoptOverlap p >=? rl_diagReoptSize p) = false).
    { destruct (rl_diagReoptSize p >? 1) eqn:G; [|reflexivity]. simpl.
      rewrite Z.gtb_ltb in G. apply Z.ltb_lt in G. rewrite Z.geb_leb. apply Z.leb_gt. auto. }
    assert (HS : (rl_squareReoptSize p >? 1) && (rl_squareReoptOverlap p >=? rl_squareReoptSize p) = false).
    { destruct (rl_squareReoptSize p >? 1) eqn:G; [|reflexivity]. simpl.
      rewrite Z.gtb_ltb in G. apply Z.ltb_lt in G. rewrite Z.geb_leb. apply Z.leb_gt. auto. }
    rewrite HL, HD, HS. reflexivity.
Qed.

Definition global_ok (p : GlobalParams) : Prop :=
  rough_ok (gp_roughLegalization p) /\ continuous_ok (gp_continuousModel p) /\
  penalty_ok (gp_penalty p) /\ global_own_ok (gp_own p).

Definition coloquinte_ok (p : ColoquinteParams) : Prop :=
  global_ok (cp_global p) /\ legalization_ok (cp_legalization p) /\ detailed_ok (cp_detailed p).

Lemma ff_app_none : forall l1 l2, first_fail (l1 ++ l2) = None <-> first_fail l1 = None /\ first_fail l2 = None.
Proof.
  intros. rewrite first_fail_app. destruct (first_fail l1); split; try tauto; try discriminate;
    try (intros [H _]; discriminate).
Qed.

Lemma global_check_ok : forall p, check_global p = None <-> global_ok p.
Proof.
  intros p. unfold check_global, global_tests, global_ok.
  rewrite !ff_app_none.
  rewrite <- rough_check_ok, <- continuous_check_ok, <- penalty_check_ok, <- global_own_check_ok.
  unfold check_rough, check_continuous, check_penalty. tauto.
Qed.

(* the check accepts exactly the documented ranges *)
Lemma coloquinte_check_ok : forall p, check_coloquinte p = None <-> coloquinte_ok p.
Proof.
  intros p. unfold check_coloquinte, coloquinte_tests, coloquinte_ok.
  rewrite !ff_app_none.
  rewrite <- global_check_ok, <- legalization_check_ok, <- detailed_check_ok.
  unfold check_global, check_legalization, check_detailed. tauto.
Qed.

(* order of evaluation: a failure of the nested global/legalization checks wins over later ones *)
Lemma coloquinte_check_order : forall p,
  check_coloquinte p =
    match check_rough (gp_roughLegalization (cp_global p)) with Some m => Some m | None =>
    match check_continuous (gp_continuousModel (cp_global p)) with Some m => Some m | None =>
    match check_penalty (gp_penalty (cp_global p)) with Some m => Some m | None =>
    match first_fail (global_own_tests (gp_own (cp_global p))) with Some m => Some m | None =>
    match check_legalization (cp_legalization p) with Some m => Some m | None =>
    check_detailed (cp_detailed p) end end end end end.
Proof.
  intros. unfold check_coloquinte, coloquinte_tests, global_tests.
  rewrite !first_fail_app. unfold check_rough, check_continuous, check_penalty, check_legalization, check_detailed.
  destruct (first_fail (rough_tests _)); [reflexivity|].
  destruct (first_fail (continuous_tests _)); [reflexivity|].
  destruct (first_fail (penalty_tests _)); [reflexivity|].
  destruct (first_fail (global_own_tests _)); reflexivity.
Qed.

(* ------------------------------------------------------------------ constructors *)

Lemma effort_bad_spec : forall e, effort_bad e = true <-> (e < 1 \/ e > 9).
Proof. intros. unfold effort_bad. rewrite orb_true_iff, Z.ltb_lt, Z.gtb_ltb, Z.ltb_lt. lia. Qed.

Lemma effort_bad_false : forall e, effort_bad e = false <-> 1 <= e <= 9.
Proof.
  intros. destruct (effort_bad e) eqn:E.
  - apply effort_bad_spec in E. split; [discriminate|lia].
  - split; [intros _|reflexivity]. destruct (Z_lt_dec e 1); [|destruct (Z_gt_dec e 9)]; try lia;
    assert (effort_bad e = true) by (apply effort_bad_spec; lia); congruence.
Qed.

(* every constructor that uses the effort refuses a bad one, whatever the tables contain (also
   empty tables): nothing is indexed before the refusal *)
Lemma rough_ctor_refuses : forall T e, e < 1 \/ e > 9 -> rough_ctor T e = Throw MEffort.
Proof. intros T e H. unfold rough_ctor, check_effort. apply effort_bad_spec in H. rewrite H. reflexivity. Qed.
Lemma penalty_ctor_refuses : forall T e, e < 1 \/ e > 9 -> penalty_ctor T e = Throw MEffort.
Proof. intros T e H. unfold penalty_ctor, check_effort. apply effort_bad_spec in H. rewrite H. reflexivity. Qed.
Lemma detailed_ctor_refuses : forall T e, e < 1 \/ e > 9 -> detailed_ctor T e = Throw MEffort.
Proof. intros T e H. unfold detailed_ctor, check_effort. apply effort_bad_spec in H. rewrite H. reflexivity. Qed.
Lemma global_ctor_refuses : forall T e, e < 1 \/ e > 9 -> global_ctor T e = Throw MEffort.
Proof. intros T e H. unfold global_ctor, continuous_ctor. simpl. rewrite rough_ctor_refuses by auto. reflexivity. Qed.
Lemma coloquinte_ctor_refuses : forall T e s, e < 1 \/ e > 9 -> coloquinte_ctor T e s = Throw MEffort.
Proof. intros T e s H. unfold coloquinte_ctor. rewrite global_ctor_refuses by auto. reflexivity. Qed.

Definition tables_9 (T : Tables) : Prop :=
  length (t_rough T) = 9%nat /\ length (t_penalty T) = 9%nat /\ length (t_global T) = 9%nat /\
  length (t_detailed T) = 9%nat.

Lemma index_in_range : forall A (l : list A) e, length l = 9%nat -> 1 <= e <= 9 -> exists a, index l (e - 1) = Ok a.
Proof.
  intros A l e L H. unfold index, znth_error.
  replace (e - 1 <? 0) with false by (symmetry; apply Z.ltb_ge; lia).
  destruct (nth_error l (Z.to_nat (e - 1))) eqn:E; [eauto|].
  apply nth_error_None in E. lia.
Qed.

Definition crashes {A} (o : Outcome A) : Prop := o = UBIndex \/ o = AbortAssert.

Lemma checked_no_crash : forall A chk (a : A), ~ crashes (checked chk a).
Proof. intros. unfold checked, crashes. destruct (chk a); intros [H|H]; discriminate. Qed.

(* with nine-entry tables no constructor ever reads out of bounds or aborts, for ANY effort *)
Lemma coloquinte_ctor_no_crash : forall T e s, tables_9 T -> ~ crashes (coloquinte_ctor T e s).
Proof.
  intros T e s (L1 & L2 & L3 & L4).
  destruct (effort_bad e) eqn:B.
  - apply effort_bad_spec in B. rewrite coloquinte_ctor_refuses by auto. intros [H|H]; discriminate.
  - apply effort_bad_false in B.
    unfold coloquinte_ctor, global_ctor, rough_ctor, penalty_ctor, detailed_ctor, continuous_ctor,
      legalization_ctor, check_effort.
    assert (Bf : effort_bad e = false) by (apply effort_bad_false; auto). rewrite Bf. simpl.
    destruct (index_in_range _ (t_rough T) e L1 B) as [r Hr].
    destruct (index_in_range _ (t_penalty T) e L2 B) as [p Hp].
    destruct (index_in_range _ (t_global T) e L3 B) as [g Hg].
    destruct (index_in_range _ (t_detailed T) e L4 B) as [d Hd].
    rewrite Hr, Hp, Hg, Hd. simpl.
    unfold checked.
    destruct (check_global _); simpl; [intros [H|H]; discriminate|].
    destruct (check_legalization _); simpl; [intros [H|H]; discriminate|].
    destruct (check_detailed _); simpl; intros [H|H]; discriminate.
Qed.

Lemma default_tables_9 : tables_9 default_tables.
Proof. repeat split. Qed.

Lemma effort_cases : forall e, 1 <= e <= 9 -> In e [1;2;3;4;5;6;7;8;9].
Proof. intros e H. simpl. lia. Qed.

(* the nine documented efforts: finite, by computation over the generated table *)
Definition ctor_passes (e : Z) : bool :=
  match coloquinte_ctor default_tables e 0 with
  | Ok p => match check_coloquinte p with None => true | Some _ => false end
  | _ => false
  end.

Lemma ctor_passes_all : forallb ctor_passes [1;2;3;4;5;6;7;8;9] = true.
Proof. vm_compute. reflexivity. Qed.

Lemma seed_irrelevant : forall T e s,
  coloquinte_ctor T e s =
  match coloquinte_ctor T e 0 with
  | Ok p => Ok {| cp_global := cp_global p; cp_legalization := cp_legalization p; cp_detailed := cp_detailed p; cp_seed := s |}
  | Throw m => Throw m | UBIndex => UBIndex | AbortAssert => AbortAssert
  end.
Proof.
  intros. unfold coloquinte_ctor.
  destruct (global_ctor T e); simpl; try reflexivity.
  destruct (legalization_ctor T e); simpl; try reflexivity.
  destruct (detailed_ctor T e); simpl; try reflexivity.
  destruct (check_effort e); simpl; reflexivity.
Qed.

Lemma efforts_1_9_pass : forall e s, 1 <= e <= 9 ->
  exists p, coloquinte_ctor default_tables e s = Ok p /\ check_coloquinte p = None /\ cp_seed p = s.
Proof.
  intros e s H. apply effort_cases in H.
  pose proof ctor_passes_all as A. rewrite forallb_forall in A. specialize (A e H).
  unfold ctor_passes in A. rewrite seed_irrelevant.
  destruct (coloquinte_ctor default_tables e 0) as [p| | |]; try discriminate.
  destruct (check_coloquinte p) eqn:C; [discriminate|].
  eexists. split; [reflexivity|]. split; [|reflexivity].
  unfold check_coloquinte, coloquinte_tests in *. simpl. exact C.
Qed.

(* ... and each public sub-constructor *)
Definition sub_ctors_pass (e : Z) : bool :=
  match global_ctor default_tables e with Ok p => match check_global p with None => true | _ => false end | _ => false end &&
  match rough_ctor default_tables e with Ok p => match check_rough p with None => true | _ => false end | _ => false end &&
  match penalty_ctor default_tables e with Ok p => match check_penalty p with None => true | _ => false end | _ => false end &&
  match continuous_ctor default_tables e with Ok p => match check_continuous p with None => true | _ => false end | _ => false end &&
  match legalization_ctor default_tables e with Ok p => match check_legalization p with None => true | _ => false end | _ => false end &&
  match detailed_ctor default_tables e with Ok p => match check_detailed p with None => true | _ => false end | _ => false end.

Lemma sub_ctors_pass_all : forall e, 1 <= e <= 9 -> sub_ctors_pass e = true.
Proof.
  intros e H. apply effort_cases in H. revert e H. apply forallb_forall. vm_compute. reflexivity.
Qed.

(* the code before the repair: the first member constructor reads squareSizeArray[effort-1] *)
Lemma coloquinte_ctor_orig_ub : exists e s, (e < 1 \/ e > 9) /\ coloquinte_ctor_orig default_tables e s = UBIndex.
Proof. exists 0, 0. split; [lia|]. vm_compute. reflexivity. Qed.

Lemma coloquinte_ctor_orig_ub_all : forall T e s, tables_9 T -> e < 1 \/ e > 9 -> coloquinte_ctor_orig T e s = UBIndex.
Proof.
  intros T e s (L1 & _) H. unfold coloquinte_ctor_orig, global_ctor_orig, continuous_ctor, rough_ctor_orig. simpl.
  assert (X : index (t_rough T) (e - 1) = UBIndex).
  { unfold index, znth_error. destruct (e - 1 <? 0) eqn:E; [reflexivity|].
    apply Z.ltb_ge in E.
    destruct (nth_error (t_rough T) (Z.to_nat (e - 1))) eqn:N; [|reflexivity].
    assert (Z.to_nat (e - 1) < length (t_rough T))%nat by (apply nth_error_Some; congruence). lia. }
  rewrite X. reflexivity.
Qed.

Lemma detailed_ctor_orig_aborts : exists e, detailed_ctor_orig default_tables e = AbortAssert.
Proof. exists 10. reflexivity. Qed.

(* ------------------------------------------------------------------ entry of the stages *)

Lemma rejected_params_leave_circuit : forall s p c m,
  check_coloquinte p = Some m -> enter s p c = CThrow m c.
Proof. intros s p c m H. unfold enter. rewrite H. reflexivity. Qed.

Lemma rejected_iff_out_of_range : forall s p c,
  (exists m, enter s p c = CThrow m c) <-> ~ coloquinte_ok p.
Proof.
  intros. rewrite <- coloquinte_check_ok. unfold enter. destruct (check_coloquinte p) eqn:E.
  - split; [intros _; discriminate|eauto].
  - split; [intros [m H]; destruct s; discriminate|congruence].
Qed.

Lemma accepted_params_work : forall s p c, check_coloquinte p = None -> exists c', enter s p c = CWork c'.
Proof. intros s p c H. unfold enter. rewrite H. destruct s; eauto. Qed.

Lemma rejected_effort_leaves_circuit : forall T s e c,
  e < 1 \/ e > 9 -> enter_effort T s e c = CThrow MEffort c.
Proof. intros. unfold enter_effort. rewrite coloquinte_ctor_refuses by auto. reflexivity. Qed.

(* an effort-call never reaches the work with parameters the check rejects *)
Lemma effort_entry_checked : forall T s e c c', enter_effort T s e c = CWork c' ->
  exists p, coloquinte_ctor T e (-1) = Ok p /\ check_coloquinte p = None.
Proof.
  intros T s e c c' H. unfold enter_effort in H.
  destruct (coloquinte_ctor T e (-1)) as [p| | |]; try discriminate.
  exists p. split; [reflexivity|]. unfold enter in H. destruct (check_coloquinte p); [discriminate|reflexivity].
Qed.

(* before repair 7682226 legalize cleared the update flags before rejecting *)
Lemma enter_orig_modifies : exists s p c m,
  check_coloquinte p = Some m /\ enter_orig s p c <> CThrow m c.
Proof.
  pose (c := upd_flags (circuit_new 1) true true).
  destruct (coloquinte_ctor default_tables 3 0) as [p0| | |] eqn:E; try (vm_compute in E; discriminate).
  pose (p := {| cp_global := cp_global p0; cp_legalization := cp_legalization p0;
                cp_detailed := {| dp_nbPasses := -1; dp_localSearchNbNeighbours := 0; dp_localSearchNbRows := 0;
                                  dp_shiftNbRows := 1; dp_shiftMaxNbCells := 0; dp_reorderingNbRows := 1;
                                  dp_reorderingMaxNbCells := 0 |}; cp_seed := 0 |}).
  exists SLegalize, p, c, MDpPasses. vm_compute in E. inversion E; subst p0. clear E.
  split; [vm_compute; reflexivity|]. vm_compute. intros H. discriminate H.
Qed.

(* ------------------------------------------------------------------ setters *)

Lemma setter_refuses_wrong_length : forall a c n,
  setter_expected a c = Some n -> arg_len a <> n -> run_setter a c = CThrow (setter_len_msg a) c.
Proof.
  intros a c n E H. unfold run_setter. rewrite E.
  apply Z.eqb_neq in H. rewrite H. reflexivity.
Qed.

Lemma setter_expected_cases : forall a c,
  setter_expected a c = Some (nbCells c) \/
  (exists v, a = ANetWeights v /\ setter_expected a c = Some (nbNets c)) \/
  (exists v, a = ARows v /\ setter_expected a c = None).
Proof. intros a c. destruct a; simpl; eauto. Qed.

Lemma setter_throw_unchanged : forall a c m c', run_setter a c = CThrow m c' -> c' = c.
Proof.
  intros a c m c' H. unfold run_setter in H.
  destruct (setter_expected a c).
  - destruct (negb _); [inversion H; reflexivity|].
    destruct (setter_guarded a && isInUse c); inversion H; reflexivity.
  - destruct (setter_guarded a && isInUse c); inversion H; reflexivity.
Qed.

Lemma setter_total : forall a c, exists r, (run_setter a c = COk r) \/ (exists m, run_setter a c = CThrow m c).
Proof.
  intros a c. unfold run_setter.
  destruct (setter_expected a c).
  - destruct (negb _); [exists c; right; eauto|].
    destruct (setter_guarded a && isInUse c); [exists c; right; eauto|eexists; left; reflexivity].
  - destruct (setter_guarded a && isInUse c); [exists c; right; eauto|eexists; left; reflexivity].
Qed.

Lemma setter_in_use_refused : forall a c, setter_guarded a = true -> isInUse c = true ->
  exists m, run_setter a c = CThrow m c.
Proof.
  intros a c G U. unfold run_setter. rewrite G, U. simpl.
  destruct (setter_expected a c); [destruct (negb _)|]; eauto.
Qed.

Lemma zlen_map : forall A B (f : A -> B) l, zlen (map f l) = zlen l.
Proof. intros. unfold zlen. rewrite map_length. reflexivity. Qed.

Definition consistent (c : CState) : Prop := circuit_check c = None.

Lemma consistent_spec : forall c, consistent c <->
  (zlen (cellHeight c) = nbCells c /\ zlen (cellIsFixed c) = nbCells c /\ zlen (cellIsObstruction c) = nbCells c /\
   zlen (cellX c) = nbCells c /\ zlen (cellY c) = nbCells c /\ zlen (cellOrientation c) = nbCells c /\
   netLimits c <> [] /\ hd 0 (netLimits c) = 0 /\ zlen (netWeights c) = nbNets c /\
   zlen (pinCells c) = nbPins c /\ zlen (pinXOffsets c) = nbPins c /\ zlen (pinYOffsets c) = nbPins c).
Proof.
  intros c. unfold consistent, circuit_check. split.
  - intros H. ff_inv H. bool_facts.
    repeat split; auto. destruct (netLimits c); [discriminate|congruence].
  - intros (A & B & C & D & E & F & G & I & J & K & L & M).
    apply first_fail_none. intros b m IN. simpl in IN.
    assert (N : nbCells c = zlen (cellWidth c)) by reflexivity.
    repeat (destruct IN as [IN|IN]; [inversion IN; subst; clear IN;
      try (apply negb_false_iff; apply Z.eqb_eq; congruence)|]); try contradiction.
    destruct (netLimits c); [congruence|reflexivity].
Qed.

(* Circuit::check only compares sizes; for polarity it compares nothing (not in the C++ either) *)

Lemma setter_preserves_consistent : forall a c c',
  consistent c -> run_setter a c = COk c' -> consistent c' /\ nbCells c' = nbCells c /\ pinCells c' = pinCells c.
Proof.
  intros a c c' H R. unfold run_setter in R.
  assert (X : (forall n, setter_expected a c = Some n -> arg_len a = n) /\ c' = setter_apply a c).
  { destruct (setter_expected a c) as [n|].
    - destruct (arg_len a =? n) eqn:E; simpl in R; [|discriminate].
      destruct (setter_guarded a && isInUse c); [discriminate|]. inversion R.
      split; [|reflexivity]. intros n' Q. inversion Q; subst. apply Z.eqb_eq; auto.
    - destruct (setter_guarded a && isInUse c); [discriminate|]. inversion R. split; [discriminate|reflexivity]. }
  destruct X as [L ->]. apply consistent_spec in H.
  destruct H as (A & B & C & D & E & F & G & I & J & K & M & N).
  destruct a; simpl in L; try (specialize (L _ eq_refl); simpl in L);
    (split; [apply consistent_spec; unfold nbCells, nbNets, nbPins in *; simpl;
             rewrite ?zlen_map; repeat split; auto; try congruence
            | split; [unfold nbCells in *; simpl; congruence|reflexivity]]).
Qed.

(* ------------------------------------------------------------------ addNet / setNets *)

Lemma forallb_false_ex : forall A (f : A -> bool) l, forallb f l = false <-> exists x, In x l /\ f x = false.
Proof.
  induction l; simpl.
  - split; [discriminate|intros (x & [] & _)].
  - rewrite andb_false_iff, IHl. split.
    + intros [H|(x & I & H)]; eauto.
    + intros (x & [->|I] & H); eauto.
Qed.

Lemma cell_ok_false : forall c i, cell_ok c i = false <-> (i < 0 \/ nbCells c <= i).
Proof. intros. unfold cell_ok. rewrite andb_false_iff, Z.leb_gt, Z.ltb_ge. tauto. Qed.

(* addNet never stores a net with a pin on a non-existent cell, or with inconsistent lengths *)
Lemma add_net_refuses : forall cells xs ys w c,
  (zlen cells <> zlen xs \/ zlen cells <> zlen ys \/ exists i, In i cells /\ (i < 0 \/ nbCells c <= i)) ->
  exists m, add_net cells xs ys w c = CThrow m c.
Proof.
  intros cells xs ys w c H. unfold add_net.
  destruct (negb (zlen cells =? zlen xs) || negb (zlen cells =? zlen ys)) eqn:L; [eauto|].
  destruct (isInUse c); [eauto|].
  destruct (forallb (cell_ok c) cells) eqn:F; simpl; [|eauto].
  exfalso. bool_facts.
  destruct H as [H|[H|(i & I & H)]]; try contradiction.
  rewrite forallb_forall in F. specialize (F i I). apply cell_ok_false in H. congruence.
Qed.

Lemma add_net_bad_cell_msg : forall cells xs ys w c i,
  zlen cells = zlen xs -> zlen cells = zlen ys -> isInUse c = false ->
  In i cells -> (i < 0 \/ nbCells c <= i) -> add_net cells xs ys w c = CThrow MBadCell c.
Proof.
  intros cells xs ys w c i L1 L2 U I H. unfold add_net.
  rewrite <- L1, <- L2, Z.eqb_refl, U. simpl.
  assert (F : forallb (cell_ok c) cells = false) by (apply forallb_false_ex; exists i; split; auto; apply cell_ok_false; auto).
  rewrite F. reflexivity.
Qed.

Lemma add_net_throw_unchanged : forall cells xs ys w c m c', add_net cells xs ys w c = CThrow m c' -> c' = c.
Proof.
  intros until c'. unfold add_net.
  destruct (negb _ || negb _); [intros H; inversion H; reflexivity|].
  destruct (isInUse c); [intros H; inversion H; reflexivity|].
  destruct (negb (forallb _ _)); [intros H; inversion H; reflexivity|].
  destruct cells; discriminate.
Qed.

Lemma last_app1 : forall (l : list Z) x d, last (l ++ [x]) d = x.
Proof. induction l; simpl; intros; [reflexivity|]. destruct (l ++ [x]) eqn:E; [destruct l; discriminate|]. rewrite <- E. apply IHl. Qed.

Lemma zlen_app : forall A (l1 l2 : list A), zlen (l1 ++ l2) = zlen l1 + zlen l2.
Proof. intros. unfold zlen. rewrite app_length. lia. Qed.

Lemma add_net_ok_invariant : forall cells xs ys w c c',
  consistent c -> pins_in_range c = true -> add_net cells xs ys w c = COk c' ->
  consistent c' /\ pins_in_range c' = true /\ nbCells c' = nbCells c.
Proof.
  intros cells xs ys w c c' H P R. unfold add_net in R.
  destruct (negb (zlen cells =? zlen xs) || negb (zlen cells =? zlen ys)) eqn:L; [discriminate|].
  destruct (isInUse c); [discriminate|].
  destruct (forallb (cell_ok c) cells) eqn:F; simpl in R; [|discriminate].
  bool_facts.
  destruct cells as [|c0 cs] eqn:EC.
  - inversion R; subst. auto.
  - rewrite <- EC in *. inversion R; subst c'. clear R.
    apply consistent_spec in H. destruct H as (A & B & C & D & E & G & I & J & K & M & N & O).
    split; [|split].
    + apply consistent_spec. unfold nbCells, nbNets, nbPins in *. simpl.
      rewrite !zlen_app, last_app1.
      repeat split; auto; try lia.
      * destruct (netLimits c); [congruence|discriminate].
      * destruct (netLimits c); [congruence|simpl in *; auto].
      * change (zlen [w]) with 1. change (zlen [last (netLimits c) 0 + zlen cells]) with 1. lia.
    + unfold pins_in_range in *. simpl. rewrite forallb_app.
      unfold cell_ok, nbCells in *. simpl. rewrite P, F. reflexivity.
    + reflexivity.
Qed.

Lemma add_net_orig_accepts_bad_cell : exists cells xs ys w c c',
  consistent c /\ pins_in_range c = true /\
  add_net_orig cells xs ys w c = COk c' /\ pins_in_range c' = false.
Proof.
  exists [5], [0], [0], 1, (circuit_new 2). eexists.
  split; [vm_compute; reflexivity|]. split; [reflexivity|]. split; [vm_compute; reflexivity|reflexivity].
Qed.

(* setNets *)
Definition set_nets_wellformed (lim cells xs ys ws : list Z) (c : CState) : Prop :=
  lim <> [] /\ hd 0 lim = 0 /\ sortedb lim = true /\
  last lim 0 = zlen cells /\ last lim 0 = zlen xs /\ last lim 0 = zlen ys /\
  (zlen lim = zlen ws + 1 \/ ws = []) /\
  (forall i, In i cells -> 0 <= i < nbCells c).

Lemma zlen_nil : forall A (l : list A), zlen l = 0 <-> l = [].
Proof. intros. unfold zlen. destruct l; simpl; split; try reflexivity; try discriminate; lia. Qed.

(* setNets accepts exactly the well-formed arguments (when the circuit is not in use), and a
   refusal is an exception that leaves the circuit as it was *)
Lemma starts0_spec : forall lim, starts0 lim = true <-> lim <> [] /\ hd 0 lim = 0.
Proof.
  destruct lim as [|l0 r]; simpl.
  - split; [discriminate|intros [H _]; congruence].
  - rewrite Z.eqb_eq. split; [intros H; split; [discriminate|auto]|tauto].
Qed.

Lemma set_nets_accepts_iff : forall lim cells xs ys ws c, isInUse c = false ->
  ((exists c', set_nets lim cells xs ys ws c = COk c') <-> set_nets_wellformed lim cells xs ys ws c).
Proof.
  intros lim cells xs ys ws c U. unfold set_nets, set_nets_wellformed. rewrite U.
  destruct (starts0 lim) eqn:E0; cbn [negb].
  2:{ split; [intros [? H]; discriminate|]. intros (H1 & H2 & _).
      assert (starts0 lim = true) by (apply starts0_spec; auto). congruence. }
  apply starts0_spec in E0. destruct E0 as [E0 E1].
  destruct (sortedb lim) eqn:ES; cbn [negb].
  2:{ split; [intros [? H]; discriminate|intros (_ & _ & H & _); discriminate]. }
  destruct (negb (last lim 0 =? zlen cells) || negb (last lim 0 =? zlen xs) || negb (last lim 0 =? zlen ys)) eqn:EL.
  { split; [intros [? H]; discriminate|].
    intros (_ & _ & _ & A & B & C & _). rewrite <- A, <- B, <- C, Z.eqb_refl in EL. discriminate. }
  destruct (negb (zlen lim =? zlen ws + 1) && negb (zlen ws =? 0)) eqn:EW.
  { split; [intros [? H]; discriminate|].
    intros (_ & _ & _ & _ & _ & _ & [W|W] & _).
    - rewrite W, Z.eqb_refl in EW. discriminate.
    - subst ws. rewrite andb_false_r in EW. discriminate. }
  destruct (forallb (cell_ok c) cells) eqn:EF; cbn [negb].
  - split; [intros _|eauto].
    apply orb_false_iff in EL. destruct EL as [EL EL3]. apply orb_false_iff in EL. destruct EL as [EL1 EL2].
    apply negb_false_iff, Z.eqb_eq in EL1, EL2, EL3.
    repeat split; auto.
    + apply andb_false_iff in EW. destruct EW as [W|W]; apply negb_false_iff, Z.eqb_eq in W;
        [left; auto|right; apply zlen_nil; auto].
    + rewrite forallb_forall in EF. specialize (EF i H). unfold cell_ok in EF.
      apply andb_true_iff in EF. destruct EF as [X _]. apply Z.leb_le in X. exact X.
    + rewrite forallb_forall in EF. specialize (EF i H). unfold cell_ok in EF.
      apply andb_true_iff in EF. destruct EF as [_ X]. apply Z.ltb_lt in X. exact X.
  - split; [intros [? H]; discriminate|].
    intros (_ & _ & _ & _ & _ & _ & _ & H).
    apply forallb_false_ex in EF. destruct EF as (i & I & F). apply cell_ok_false in F. specialize (H i I). lia.
Qed.

Lemma set_nets_throw_unchanged : forall lim cells xs ys ws c m c',
  set_nets lim cells xs ys ws c = CThrow m c' -> c' = c.
Proof.
  intros until c'. unfold set_nets.
  destruct (isInUse c); [intros H; inversion H; reflexivity|].
  repeat match goal with |- context [if ?b then _ else _] => destruct b; [intros H; inversion H; reflexivity|] end.
  discriminate.
Qed.

Lemma set_nets_total : forall lim cells xs ys ws c,
  (exists c', set_nets lim cells xs ys ws c = COk c') \/ (exists m, set_nets lim cells xs ys ws c = CThrow m c).
Proof.
  intros. unfold set_nets.
  destruct (isInUse c); [right; eauto|].
  repeat match goal with |- context [if ?b then _ else _] => destruct b; [right; eauto|] end.
  left; eauto.
Qed.

Lemma resize_weights_len : forall w n, length (resize_weights w n) = n.
Proof. intros. unfold resize_weights. rewrite app_length, firstn_length, repeat_length. lia. Qed.

Lemma set_nets_ok_invariant : forall lim cells xs ys ws c c',
  consistent c -> set_nets lim cells xs ys ws c = COk c' ->
  consistent c' /\ pins_in_range c' = true /\ nbCells c' = nbCells c.
Proof.
  intros lim cells xs ys ws c c' H R.
  assert (U : isInUse c = false).
  { unfold set_nets in R. destruct (isInUse c); [discriminate|reflexivity]. }
  assert (W : set_nets_wellformed lim cells xs ys ws c) by (apply set_nets_accepts_iff; eauto).
  destruct W as (W1 & W2 & W3 & W4 & W5 & W6 & W7 & W8).
  assert (E : c' = set_nets_store lim cells xs ys ws c).
  { unfold set_nets in R. rewrite U in R.
    repeat match type of R with (if ?b then _ else _) = _ => destruct b; [discriminate|] end.
    inversion R; reflexivity. }
  subst c'. apply consistent_spec in H. destruct H as (A & B & C & D & E & G & I & J & K & M & N & O).
  split; [|split].
  - apply consistent_spec. unfold set_nets_store, nbCells, nbNets, nbPins in *. simpl.
    repeat split; auto; try congruence.
    unfold zlen. rewrite resize_weights_len. destruct lim as [|l0 lr]; [congruence|]. cbn [Datatypes.length]. lia.
  - unfold pins_in_range, set_nets_store. simpl. apply forallb_forall. intros i Ii.
    specialize (W8 i Ii). unfold cell_ok, nbCells in *. simpl.
    apply andb_true_iff. split; [apply Z.leb_le|apply Z.ltb_lt]; lia.
  - reflexivity.
Qed.

Lemma set_nets_orig_aborts : exists lim cells xs ys ws c, set_nets_orig lim cells xs ys ws c = CAbort.
Proof. exists [0; 2], [0], [0], [0], [], (circuit_new 1). reflexivity. Qed.

Lemma set_nets_orig_accepts_bad_cell : exists lim cells xs ys ws c c',
  consistent c /\ set_nets_orig lim cells xs ys ws c = COk c' /\ pins_in_range c' = false.
Proof.
  exists [0; 1], [-1], [0], [0], [], (circuit_new 1). eexists.
  split; [vm_compute; reflexivity|]. split; [vm_compute; reflexivity|reflexivity].
Qed.

(* a fresh circuit is consistent (Circuit::Circuit ends with check()) *)
Lemma circuit_new_consistent : forall n, consistent (circuit_new n) /\ pins_in_range (circuit_new n) = true.
Proof.
  intros n. split; [|reflexivity]. apply consistent_spec. unfold nbCells, nbNets, nbPins, zlen. simpl.
  rewrite !repeat_length. repeat split; auto; discriminate.
Qed.
