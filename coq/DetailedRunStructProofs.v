(* C02 / C05 -- list-structure lemmas behind the termination of the walks of DetailedRun.v:
   with unique ids a cell has ONE place (row, cells before, cells after); a swap exchanges the places of the two cells,
   so the partner of an accepted swap has as many cells after it as the swapped cell had (swap_rest): the walk
   `for (c = rowFirstCell(r1); c != -1; c = cellNext(c))`, whose c is replaced by the partner, goes on from the same
   place of the same row. *)
From Coq Require Import List ZArith Lia Bool Arith Permutation.
Import ListNotations.
Require Import CV.Orient CV.Moves CV.MovesProofs CV.MovesOrientProofs CV.DetailedValue CV.DetailedValueProofs CV.DetailedValueStepProofs.
Require Import CV.ReorderGeomProofs.
Local Open Scope Z_scope.

Definition ids (l : list pcell) : list nat := map p_id l.

(* ---------- unique ids: one place per cell ---------- *)
Lemma split_at_notin id l : ~ In id (ids l) -> split_at id l = None.
Proof.
  induction l as [|x t IH]; cbn [ids map In split_at]; [reflexivity|]. intros H.
  destruct (Nat.eqb_spec (p_id x) id) as [E|_]; [exfalso; apply H; left; exact E|].
  unfold ids in IH. rewrite IH; [reflexivity|]. intros Hin. apply H. right. exact Hin.
Qed.

Lemma split_at_at a m b : NoDup (ids (a ++ m :: b)) -> split_at (p_id m) (a ++ m :: b) = Some (a, m, b).
Proof.
  induction a as [|x a IH]; cbn [app ids map split_at]; intros ND.
  - rewrite Nat.eqb_refl. reflexivity.
  - inversion ND as [|? ? Hx ND']; subst.
    destruct (Nat.eqb_spec (p_id x) (p_id m)) as [E|_].
    + exfalso. apply Hx. rewrite E. rewrite map_app. apply in_or_app. right. left. reflexivity.
    + unfold ids in IH. rewrite (IH ND'). reflexivity.
Qed.

Lemma place_unique a m b a' m' b' : NoDup (ids (a ++ m :: b)) -> a ++ m :: b = a' ++ m' :: b' -> p_id m = p_id m' ->
  a = a' /\ m = m' /\ b = b'.
Proof.
  intros ND E Hid. pose proof (split_at_at a m b ND) as S1. rewrite E in ND, S1. rewrite Hid in S1.
  rewrite (split_at_at a' m' b' ND) in S1. injection S1 as <- <- <-. tauto.
Qed.

Lemma nodup_rows d : NoDup (map p_id (cells_of d)) -> NoDup (ids (flat_map dr_cells (d_rows d))).
Proof. unfold cells_of. rewrite map_app. intros H. apply NoDup_app_elim in H as (H & _). exact H. Qed.

Lemma nodup_row rows : forall i r, NoDup (ids (flat_map dr_cells rows)) -> nth_error rows i = Some r -> NoDup (ids (dr_cells r)).
Proof.
  induction rows as [|x t IH]; intros [|i] r; cbn [nth_error flat_map]; try discriminate; unfold ids; rewrite map_app; intros ND E.
  - injection E as <-. apply NoDup_app_elim in ND as (H & _). exact H.
  - apply NoDup_app_elim in ND as (_ & H & _). exact (IH i r H E).
Qed.

Lemma find_row_at rows : forall i0 i r a m b, NoDup (ids (flat_map dr_cells rows)) -> nth_error rows i = Some r ->
  dr_cells r = a ++ m :: b -> find_row rows (p_id m) i0 = Some ((i0 + i)%nat, r, a, m, b).
Proof.
  induction rows as [|x t IH]; intros i0 [|i] r a m b; cbn [nth_error flat_map find_row]; try discriminate;
    unfold ids; rewrite map_app; intros ND E Hc.
  - injection E as <-. apply NoDup_app_elim in ND as (H & _). rewrite Hc in H |- *. rewrite (split_at_at a m b H).
    rewrite Nat.add_0_r. reflexivity.
  - apply NoDup_app_elim in ND as (_ & H & Hd). rewrite split_at_notin.
    + rewrite (IH (S i0) i r a m b H E Hc). do 5 f_equal. lia.
    + intros Hin. apply (Hd (p_id m)); [exact Hin|]. apply in_map. apply in_flat_map. exists r. split; [exact (nth_error_In _ _ E)|].
      rewrite Hc. apply in_or_app. right. left. reflexivity.
Qed.

(* a found cell: its place, as an equation on the row *)
Lemma find_row_place rows id i r a m b : find_row rows id 0 = Some (i, r, a, m, b) ->
  nth_error rows i = Some r /\ dr_cells r = a ++ m :: b /\ p_id m = id.
Proof. intros F. apply find_row_spec in F as (k & -> & N & Hc & Hid). cbn [Nat.add]. tauto. Qed.

(* ---------- predecessors and sites ---------- *)
Lemma pred_of_snoc a z : pred_of (a ++ [z]) = Some (p_id z).
Proof. unfold pred_of. rewrite rev_app_distr. reflexivity. Qed.

Lemma pred_of_app a m mid : mid <> [] -> pred_of (a ++ m :: mid) = pred_of (a ++ mid).
Proof.
  intros H. destruct (exists_last H) as (l & z & ->).
  replace (a ++ m :: l ++ [z]) with ((a ++ m :: l) ++ [z]) by (rewrite <- app_assoc; reflexivity).
  rewrite app_assoc. rewrite !pred_of_snoc. reflexivity.
Qed.

Lemma pred_of_in a p : pred_of a = Some p -> In p (ids a).
Proof.
  destruct a as [|x a] using rev_ind; [discriminate|]. rewrite pred_of_snoc. intros [= <-].
  unfold ids. rewrite map_app. apply in_or_app. right. left. reflexivity.
Qed.

Lemma split_site_pred a b : NoDup (ids (a ++ b)) -> split_site (pred_of a) (a ++ b) = Some (a, b).
Proof.
  destruct a as [|z a _] using rev_ind; intros ND; [reflexivity|].
  rewrite pred_of_snoc. cbn [split_site]. rewrite <- app_assoc in ND |- *. cbn [app] in ND |- *.
  rewrite (split_at_at a z b ND). reflexivity.
Qed.

Lemma split_site_some a m b : NoDup (ids (a ++ m :: b)) -> split_site (Some (p_id m)) (a ++ m :: b) = Some (a ++ [m], b).
Proof. intros ND. cbn [split_site]. rewrite (split_at_at a m b ND). reflexivity. Qed.

(* ---------- place, as an equation on the rows ---------- *)
Lemma place_rows s id rowi pred x s' : place s id rowi pred x = Some s' ->
  exists r a b c', nth_error (d_rows s) rowi = Some r /\ split_site pred (dr_cells r) = Some (a, b) /\ p_id c' = id /\
    d_rows s' = upd_row (d_rows s) rowi (set_cells r (a ++ c' :: b)).
Proof.
  unfold place. destruct (take_loose id (d_loose s)) as [[c0 l']|] eqn:T; [|discriminate].
  destruct (nth_error (d_rows s) rowi) as [r|] eqn:N; [|discriminate].
  destruct (split_site pred (dr_cells r)) as [[a b]|] eqn:S; [|discriminate].
  destruct (_ && _); [|discriminate]. intros [= <-]. cbn [d_rows].
  eexists r, a, b, _. split; [reflexivity|]. split; [exact S|]. split; [|reflexivity].
  cbn [p_id]. exact (proj2 (take_loose_id _ _ _ _ T)).
Qed.

(* placing after the predecessor pred_of a of a row a ++ b *)
Lemma place_after_pred s id rowi x s' r a b : place s id rowi (pred_of a) x = Some s' ->
  nth_error (d_rows s) rowi = Some r -> dr_cells r = a ++ b -> NoDup (ids (a ++ b)) ->
  exists c', p_id c' = id /\ d_rows s' = upd_row (d_rows s) rowi (set_cells r (a ++ c' :: b)).
Proof.
  intros P N Hc ND. destruct (place_rows _ _ _ _ _ _ P) as (r' & a' & b' & c' & N' & S & Hid & Hr).
  rewrite N in N'. injection N' as <-. rewrite Hc, (split_site_pred a b ND) in S. injection S as <- <-.
  exists c'. split; assumption.
Qed.

(* placing right after the cell m of a row a ++ m :: b *)
Lemma place_after_cell s id rowi x s' r a m b : place s id rowi (Some (p_id m)) x = Some s' ->
  nth_error (d_rows s) rowi = Some r -> dr_cells r = a ++ m :: b -> NoDup (ids (a ++ m :: b)) ->
  exists c', p_id c' = id /\ d_rows s' = upd_row (d_rows s) rowi (set_cells r (a ++ m :: c' :: b)).
Proof.
  intros P N Hc ND. destruct (place_rows _ _ _ _ _ _ P) as (r' & a' & b' & c' & N' & S & Hid & Hr).
  rewrite N in N'. injection N' as <-. rewrite Hc, (split_site_some a m b ND) in S. injection S as <- <-.
  exists c'. split; [exact Hid|]. rewrite Hr. rewrite <- app_assoc. reflexivity.
Qed.

(* ---------- the number of cells after a cell in its row ---------- *)
Definition rest (d : dstate) (c : nat) : option nat :=
  match find_row (d_rows d) c 0 with Some (_, _, _, _, b) => Some (length b) | None => None end.

Lemma rest_at d i r a m b : NoDup (map p_id (cells_of d)) -> nth_error (d_rows d) i = Some r -> dr_cells r = a ++ m :: b ->
  rest d (p_id m) = Some (length b).
Proof. intros ND N Hc. unfold rest. rewrite (find_row_at (d_rows d) 0 i r a m b (nodup_rows d ND) N Hc). reflexivity. Qed.

Lemma row_nodup d i r : NoDup (map p_id (cells_of d)) -> nth_error (d_rows d) i = Some r -> NoDup (ids (dr_cells r)).
Proof. intros ND N. exact (nodup_row (d_rows d) i r (nodup_rows d ND) N). Qed.

Lemma two_in_row (a1 : list pcell) m1 b1 : forall a2 m2 b2, a1 ++ m1 :: b1 = a2 ++ m2 :: b2 -> m1 <> m2 ->
  (exists mid, a2 = a1 ++ m1 :: mid /\ b1 = mid ++ m2 :: b2) \/ (exists mid, a1 = a2 ++ m2 :: mid /\ b2 = mid ++ m1 :: b1).
Proof.
  induction a1 as [|x a1 IH]; intros [|y a2] m2 b2; cbn [app]; intros E Hne.
  - injection E as E1 E2. contradiction.
  - injection E as -> ->. left. exists a2. split; reflexivity.
  - injection E as -> <-. right. exists a1. split; reflexivity.
  - injection E as -> E. destruct (IH a2 m2 b2 E Hne) as [(mid & -> & ->)|(mid & -> & ->)].
    + left. exists mid. split; reflexivity.
    + right. exists mid. split; reflexivity.
Qed.

Lemma pred_of_inv a p : pred_of a = Some p -> exists u z, a = u ++ [z] /\ p_id z = p.
Proof.
  destruct a as [|z u _] using rev_ind; [discriminate|]. rewrite pred_of_snoc. intros [= <-]. exists u, z. split; reflexivity.
Qed.

Lemma opt_nat_eqb_eq a b : opt_nat_eqb a b = true -> a = b.
Proof.
  destruct a as [x|], b as [y|]; cbn [opt_nat_eqb]; try discriminate; [|reflexivity].
  intros H. apply Nat.eqb_eq in H. congruence.
Qed.
Lemma opt_nat_eqb_refl a : opt_nat_eqb a a = true.
Proof. destruct a; cbn [opt_nat_eqb]; [apply Nat.eqb_refl|reflexivity]. Qed.

(* ---------- a swap exchanges the places ---------- *)
Lemma swap_rest d c1 c2 d' : NoDup (map p_id (cells_of d)) -> swap d c1 c2 = Some d' -> rest d' c2 = rest d c1.
Proof.
  intros ND SW. pose proof (apply_mop_nodup d (MSwap c1 c2) d' SW ND) as ND'. revert SW.
  unfold swap. destruct (can_swap d c1 c2) as [[|]|] eqn:CS; try discriminate.
  unfold can_swap in CS.
  destruct (find_row (d_rows d) c1 0) as [[[[[i1 r1] a1] m1] b1]|] eqn:F1; [|discriminate].
  destruct (find_row (d_rows d) c2 0) as [[[[[i2 r2] a2] m2] b2]|] eqn:F2; [|discriminate].
  destruct (Nat.eqb_spec c1 c2) as [|Hne]; [discriminate|]. clear CS.
  destruct (bounds_of r1 a1 b1) as [bb1 ba1]. destruct (bounds_of r2 a2 b2) as [bb2 ba2].
  destruct (if opt_nat_eqb (pred_of a1) (Some c2) then _ else _) as [x1 x2].
  destruct (unplace d c1) as [s1|] eqn:U1; [|discriminate].
  destruct (unplace s1 c2) as [s2|] eqn:U2; [|discriminate].
  assert (R1 : rest d c1 = Some (length b1)) by (unfold rest; rewrite F1; reflexivity). rewrite R1. clear R1.
  destruct (find_row_place _ _ _ _ _ _ _ F1) as (N1 & C1 & Hid1).
  destruct (find_row_place _ _ _ _ _ _ _ F2) as (N2 & C2 & Hid2).
  pose proof (apply_mop_nodup d (MUnplace c1) s1 U1 ND) as ND1.
  pose proof (apply_mop_nodup s1 (MUnplace c2) s2 U2 ND1) as ND2.
  destruct (find_row_after_remove c1 c2 Hne (d_rows d) O i1 r1 a1 m1 b1 i2 r2 a2 m2 b2 F1 F2) as (r2' & a2' & b2' & F2').
  apply unplace_spec in U1 as (i' & r' & a' & m' & b' & F' & _ & _ & _ & Hr1 & _).
  rewrite F1 in F'. injection F' as <- <- <- <- <-. rewrite <- Hr1 in F2'.
  apply unplace_spec in U2 as (i' & r' & a' & m' & b' & F' & _ & _ & _ & Hr2 & _).
  rewrite F2' in F'. injection F' as <- <- <- <- <-.
  destruct (find_row_place _ _ _ _ _ _ _ F2') as (N2' & C2' & _).
  assert (Hm : m1 <> m2) by (intros E; apply Hne; rewrite <- Hid1, <- Hid2, E; reflexivity).
  (* the row of s2 at i2, and the one at i1 when i1 <> i2 *)
  assert (S2same : nth_error (d_rows s2) i2 = Some (set_cells r2' (a2' ++ b2'))) by (rewrite Hr2; exact (nth_error_upd_row_same _ _ _ _ N2')).
  assert (S1same : nth_error (d_rows s1) i1 = Some (set_cells r1 (a1 ++ b1))) by (rewrite Hr1; exact (nth_error_upd_row_same _ _ _ _ N1)).
  (* finishing: the row i1 of d' holds c2' with b1-many cells after it *)
  assert (Fin : forall s3 rr a c2' b, d_rows d' = upd_row (d_rows s3) i1 (set_cells rr (a ++ c2' :: b)) ->
                  nth_error (d_rows s3) i1 = Some rr -> p_id c2' = c2 -> length b = length b1 -> rest d' c2 = Some (length b1)).
  { intros s3 rr a c2' b Hd N3 Hid Hlen. rewrite <- Hlen, <- Hid.
    apply (rest_at d' i1 (set_cells rr (a ++ c2' :: b)) a c2' b ND'); [|reflexivity].
    rewrite Hd. exact (nth_error_upd_row_same _ _ _ _ N3). }
  destruct (opt_nat_eqb (pred_of a1) (Some c2)) eqn:A1.
  - (* c2 is the predecessor of c1 *)
    apply opt_nat_eqb_eq in A1. destruct (pred_of_inv _ _ A1) as (u & z & -> & Hz).
    assert (Fz : find_row (d_rows d) c2 0 = Some (i1, r1, u, z, m1 :: b1)).
    { rewrite <- Hz. apply (find_row_at (d_rows d) 0 i1 r1 u z (m1 :: b1) (nodup_rows d ND) N1). rewrite C1, <- app_assoc. reflexivity. }
    rewrite F2 in Fz. injection Fz as -> -> -> -> ->.
    rewrite S1same in N2'. injection N2' as <-. cbn [set_cells dr_cells] in C2'.
    pose proof (row_nodup s1 i1 _ ND1 S1same) as NDr1. cbn [set_cells dr_cells] in NDr1.
    rewrite <- app_assoc in C2', NDr1. cbn [app] in C2', NDr1.
    destruct (place_unique u z b1 a2' z b2' NDr1 C2' eq_refl) as (<- & _ & <-).
    destruct (place s2 c1 i1 (pred_of u) x1) as [s3|] eqn:P1; [|discriminate]. intros P2.
    pose proof (apply_mop_nodup s2 (MPlace c1 i1 (pred_of u) x1) s3 P1 ND2) as ND3.
    pose proof (row_nodup s2 i1 _ ND2 S2same) as NDr2. cbn [set_cells dr_cells] in NDr2.
    destruct (place_after_pred s2 c1 i1 x1 s3 _ u b1 P1 S2same eq_refl NDr2) as (c1' & Hc1' & Hr3).
    assert (S3 : nth_error (d_rows s3) i1 = Some (set_cells (set_cells (set_cells r1 ((u ++ [z]) ++ b1)) (u ++ b1)) (u ++ c1' :: b1)))
      by (rewrite Hr3; exact (nth_error_upd_row_same _ _ _ _ S2same)).
    pose proof (row_nodup s3 i1 _ ND3 S3) as NDr3. cbn [set_cells dr_cells] in NDr3.
    rewrite <- Hc1' in P2.
    destruct (place_after_cell s3 c2 i1 x2 d' _ u c1' b1 P2 S3 eq_refl NDr3) as (c2' & Hc2' & Hr4).
    refine (Fin s3 _ (u ++ [c1']) c2' b1 _ S3 Hc2' eq_refl).
    rewrite Hr4. replace ((u ++ [c1']) ++ c2' :: b1) with (u ++ c1' :: c2' :: b1) by (rewrite <- app_assoc; reflexivity). reflexivity.
  - destruct (opt_nat_eqb (pred_of a2) (Some c1)) eqn:A2.
    + (* c1 is the predecessor of c2 *)
      apply opt_nat_eqb_eq in A2. destruct (pred_of_inv _ _ A2) as (u & z & -> & Hz).
      assert (Fz : find_row (d_rows d) c1 0 = Some (i2, r2, u, z, m2 :: b2)).
      { rewrite <- Hz. apply (find_row_at (d_rows d) 0 i2 r2 u z (m2 :: b2) (nodup_rows d ND) N2). rewrite C2, <- app_assoc. reflexivity. }
      rewrite F1 in Fz. injection Fz as -> -> -> -> ->.
      rewrite S1same in N2'. injection N2' as <-. cbn [set_cells dr_cells] in C2'.
      pose proof (row_nodup s1 i2 _ ND1 S1same) as NDr1. cbn [set_cells dr_cells] in NDr1.
      destruct (place_unique u m2 b2 a2' m2 b2' NDr1 C2' eq_refl) as (<- & _ & <-).
      destruct (place s2 c2 i2 (pred_of u) x2) as [s3|] eqn:P1; [|discriminate]. intros P2.
      pose proof (apply_mop_nodup s2 (MPlace c2 i2 (pred_of u) x2) s3 P1 ND2) as ND3.
      pose proof (row_nodup s2 i2 _ ND2 S2same) as NDr2. cbn [set_cells dr_cells] in NDr2.
      destruct (place_after_pred s2 c2 i2 x2 s3 _ u b2 P1 S2same eq_refl NDr2) as (c2' & Hc2' & Hr3).
      assert (S3 : nth_error (d_rows s3) i2 = Some (set_cells (set_cells (set_cells r2 (u ++ m2 :: b2)) (u ++ b2)) (u ++ c2' :: b2)))
        by (rewrite Hr3; exact (nth_error_upd_row_same _ _ _ _ S2same)).
      pose proof (row_nodup s3 i2 _ ND3 S3) as NDr3. cbn [set_cells dr_cells] in NDr3.
      rewrite <- Hc2' in P2.
      destruct (place_after_cell s3 c1 i2 x1 d' _ u c2' b2 P2 S3 eq_refl NDr3) as (c1' & Hc1' & Hr4).
      exact (Fin s3 _ u c2' (c1' :: b2) Hr4 S3 Hc2' eq_refl).
    + (* general case *)
      destruct (place s2 c1 i2 (pred_of a2) x1) as [s3|] eqn:P1; [|discriminate]. intros P2.
      pose proof (apply_mop_nodup s2 (MPlace c1 i2 (pred_of a2) x1) s3 P1 ND2) as ND3.
      pose proof (row_nodup s2 i2 _ ND2 S2same) as NDr2. cbn [set_cells dr_cells] in NDr2.
      destruct (Nat.eq_dec i1 i2) as [Ei|Ni].
      * subst i2. rewrite N1 in N2. injection N2 as <-. rewrite C1 in C2.
        rewrite S1same in N2'. injection N2' as <-. cbn [set_cells dr_cells] in C2'.
        pose proof (row_nodup s1 i1 _ ND1 S1same) as NDr1. cbn [set_cells dr_cells] in NDr1.
        destruct (two_in_row a1 m1 b1 a2 m2 b2 C2 Hm) as [(mid & -> & ->)|(mid & -> & ->)].
        -- (* c1 left of c2 *)
           assert (Hmid : mid <> []).
           { intros ->. rewrite pred_of_snoc, Hid1 in A2. cbn [opt_nat_eqb] in A2. rewrite Nat.eqb_refl in A2. discriminate. }
           rewrite app_assoc in C2', NDr1.
           destruct (place_unique (a1 ++ mid) m2 b2 a2' m2 b2' NDr1 C2' eq_refl) as (<- & _ & <-).
           rewrite (pred_of_app a1 m1 mid Hmid) in P1.
           destruct (place_after_pred s2 c1 i1 x1 s3 _ (a1 ++ mid) b2 P1 S2same eq_refl NDr2) as (c1' & Hc1' & Hr3).
           assert (S3 : nth_error (d_rows s3) i1 = Some (set_cells (set_cells (set_cells r1 (a1 ++ mid ++ m2 :: b2)) ((a1 ++ mid) ++ b2)) ((a1 ++ mid) ++ c1' :: b2)))
             by (rewrite Hr3; exact (nth_error_upd_row_same _ _ _ _ S2same)).
           pose proof (row_nodup s3 i1 _ ND3 S3) as NDr3. cbn [set_cells dr_cells] in NDr3. rewrite <- app_assoc in NDr3.
           destruct (place_after_pred s3 c2 i1 x2 d' _ a1 (mid ++ c1' :: b2) P2 S3 (eq_sym (app_assoc _ _ _)) NDr3) as (c2' & Hc2' & Hr4).
           refine (Fin s3 _ a1 c2' (mid ++ c1' :: b2) Hr4 S3 Hc2' _). rewrite !app_length. reflexivity.
        -- (* c2 left of c1 *)
           assert (Hmid : mid <> []).
           { intros ->. rewrite pred_of_snoc, Hid2 in A1. cbn [opt_nat_eqb] in A1. rewrite Nat.eqb_refl in A1. discriminate. }
           rewrite <- app_assoc in C2', NDr1. cbn [app] in C2', NDr1.
           destruct (place_unique a2 m2 (mid ++ b1) a2' m2 b2' NDr1 C2' eq_refl) as (<- & _ & <-).
           destruct (place_after_pred s2 c1 i1 x1 s3 _ a2 (mid ++ b1) P1 S2same eq_refl NDr2) as (c1' & Hc1' & Hr3).
           assert (S3 : nth_error (d_rows s3) i1 = Some (set_cells (set_cells (set_cells r1 ((a2 ++ m2 :: mid) ++ b1)) (a2 ++ mid ++ b1)) (a2 ++ c1' :: mid ++ b1)))
             by (rewrite Hr3; exact (nth_error_upd_row_same _ _ _ _ S2same)).
           pose proof (row_nodup s3 i1 _ ND3 S3) as NDr3. cbn [set_cells dr_cells] in NDr3.
           rewrite (pred_of_app a2 m2 mid Hmid), <- (pred_of_app a2 c1' mid Hmid) in P2.
           assert (E3 : a2 ++ c1' :: mid ++ b1 = (a2 ++ c1' :: mid) ++ b1) by (rewrite <- app_assoc; reflexivity).
           rewrite E3 in NDr3.
           destruct (place_after_pred s3 c2 i1 x2 d' _ (a2 ++ c1' :: mid) b1 P2 S3 E3 NDr3) as (c2' & Hc2' & Hr4).
           exact (Fin s3 _ (a2 ++ c1' :: mid) c2' b1 Hr4 S3 Hc2' eq_refl).
      * (* different rows *)
        assert (E2 : nth_error (d_rows s1) i2 = Some r2) by (rewrite Hr1, (nth_error_upd_row_other _ i1 i2 _ Ni); exact N2).
        rewrite E2 in N2'. injection N2' as <-. rewrite C2 in C2'.
        pose proof (row_nodup d i2 _ ND N2) as NDr. rewrite C2 in NDr.
        destruct (place_unique a2 m2 b2 a2' m2 b2' NDr C2' eq_refl) as (<- & _ & <-).
        destruct (place_after_pred s2 c1 i2 x1 s3 _ a2 b2 P1 S2same eq_refl NDr2) as (c1' & Hc1' & Hr3).
        assert (S3 : nth_error (d_rows s3) i1 = Some (set_cells r1 (a1 ++ b1))).
        { rewrite Hr3, (nth_error_upd_row_other _ i2 i1 _ (not_eq_sym Ni)), Hr2, (nth_error_upd_row_other _ i2 i1 _ (not_eq_sym Ni)). exact S1same. }
        pose proof (row_nodup s3 i1 _ ND3 S3) as NDr3. cbn [set_cells dr_cells] in NDr3.
        destruct (place_after_pred s3 c2 i1 x2 d' _ a1 b1 P2 S3 eq_refl NDr3) as (c2' & Hc2' & Hr4).
        exact (Fin s3 _ a1 c2' b1 Hr4 S3 Hc2' eq_refl).
Qed.

(* ---------- cellNext moves one place to the right; rowFirstCell has the whole row after it ---------- *)
Lemma next_rest d c c2 : NoDup (map p_id (cells_of d)) ->
  match find_row (d_rows d) c 0 with Some (_, _, _, _, b) => Reorder.head_id b | None => None end = Some c2 ->
  exists k, rest d c = Some (S k) /\ rest d c2 = Some k.
Proof.
  intros ND. unfold rest. destruct (find_row (d_rows d) c 0) as [[[[[i r] a] m] b]|] eqn:F; [|discriminate].
  destruct b as [|n b']; cbn [Reorder.head_id]; [discriminate|]. intros [= <-].
  destruct (find_row_place _ _ _ _ _ _ _ F) as (N & C & _).
  exists (length b'). split; [reflexivity|].
  assert (C' : dr_cells r = (a ++ [m]) ++ n :: b') by (rewrite C, <- app_assoc; reflexivity).
  pose proof (rest_at d i r (a ++ [m]) n b' ND N C') as R. unfold rest in R. exact R.
Qed.

Lemma first_rest d r c t : NoDup (map p_id (cells_of d)) ->
  match nth_error (d_rows d) r with Some rw => map p_id (dr_cells rw) | None => [] end = c :: t ->
  rest d c = Some (length t).
Proof.
  intros ND. destruct (nth_error (d_rows d) r) as [rw|] eqn:N; [|discriminate].
  destruct (dr_cells rw) as [|m l] eqn:C; cbn [map]; [discriminate|]. intros [= <- <-].
  rewrite map_length. exact (rest_at d r rw [] m l ND N C).
Qed.
