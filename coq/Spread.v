(* C06 -- exact model over Q of the pieces of global placement that decide where
   coordinates end up:
     - spreadCells / HierarchicalDensityPlacement::spreadCoordX/Y   (src/place_global/density_grid.cpp)
     - the side-margin clipping of DensityGrid::fromIspdCircuit, computePlacementArea,
       updateBinsToSize / computeSubdivisions                       (density_grid.cpp, utils/helpers.hpp)
     - blendPlacement and GlobalPlacer::exportPlacement             (src/place_global/place_global.cpp)
   Floats are modelled as exact rationals (regime (b) of DESIGN.md section 3): the single-precision
   rounding of the C++ is NOT modelled; the tie is exact on dyadic inputs and tolerance-based elsewhere.
   The bins (limits + cell lists) are inputs of the spreading model: how the rough legalizer fills them
   is C16's business.  spread_step has NO clamp although the code clamps the coordinate into the bin since
   the F21 repair (/repo 7b95a91): over Q with non-negative demands the clamp is the identity, so the model
   follows the arithmetic, not the current source text (the binary32 model SpreadFloat.v has both forms).
   Totalisations: getq defaults to 0, division by a zero demand sum gives 0 (masked by the hypotheses
   0 < demand, index in range of the theorems).  No proofs in this file. *)
From Coq Require Import List ZArith QArith Qround Bool.
Import ListNotations.
Require Import CV.Orient CV.FreeSpace.

(* ------------------------------------------------------------------ helpers *)

(* v[c] of a std::vector<float>; an out-of-range index is undefined behaviour in the C++ and 0 here
   (every theorem assumes the index in range) *)
Definition getq (l : list Q) (c : nat) : Q :=
  match nth_error l c with Some v => v | None => 0%Q end.

(* v[n] = x; nothing happens when n is out of range *)
Fixpoint set_nth {A : Type} (n : nat) (v : A) (l : list A) : list A :=
  match l, n with
  | [], _ => []
  | _ :: t, O => v :: t
  | h :: t, S n' => h :: set_nth n' v t
  end.

(* ------------------------------------------------------------------ spreadCells, density_grid.cpp:301-328 *)

(* std::pair<float,int>: (target, position in the bin); operator< is lexicographic (line 311 std::sort) *)
Definition key := (Q * nat)%type.

Definition key_ltb (a b : key) : bool :=
  match Qcompare (fst a) (fst b) with
  | Lt => true
  | Gt => false
  | Eq => Nat.ltb (snd a) (snd b)
  end.

(* the positions are pairwise distinct, so the order is total and the sorted sequence is unique:
   insertion sort computes what std::sort computes *)
Fixpoint insert_key (k : key) (l : list key) : list key :=
  match l with
  | [] => [k]
  | h :: t => if key_ltb h k then h :: insert_key k t else k :: l
  end.

Definition sort_keys (l : list key) : list key := fold_right insert_key [] l.

(* lines 308-310: order.emplace_back(targets[i], i) *)
Definition mk_order (targets : list Q) : list key := combine targets (seq 0 (length targets)).

(* line 313: std::accumulate(demands.begin(), demands.end(), 0.0f) *)
Definition qsum (l : list Q) : Q := fold_left Qplus l 0%Q.

(* one iteration of the loop of lines 316-326; state = (dem, coords) *)
Definition spread_step (demands : list Q) (inv lo hi : Q) (st : Q * list Q) (k : key) : Q * list Q :=
  let c := snd k in
  match nth_error demands c with
  | None => st
  | Some cur =>
      if Qle_bool cur 0 then st                                     (* line 319: continue *)
      else
        let dem1 := (fst st + (1 # 2) * cur * inv)%Q in             (* line 323 *)
        let coord := (dem1 * hi + (1 - dem1) * lo)%Q in             (* line 324: dem*maxCoord + (1-dem)*minCoord *)
        ((dem1 + (1 # 2) * cur * inv)%Q, set_nth c coord (snd st))  (* line 325 *)
  end.

Definition spread_cells (targets demands : list Q) (lo hi : Q) : list Q :=
  let order := sort_keys (mk_order targets) in
  let inv := (/ qsum demands)%Q in                                  (* line 312-313: 1.0f / total *)
  snd (fold_left (spread_step demands inv lo hi) order (0%Q, repeat 0%Q (length targets))).

(* ------------------------------------------------------------------ spreadCoordX / spreadCoordY, lines 331-371 *)

(* one bin (i,j) as the loops of spreadCoordX (resp. Y) see it: binLimitX(i), binLimitX(i+1) (resp.
   binLimitY(j), binLimitY(j+1)) and binCells(i,j).  These are inputs of the model. *)
Record bin := { b_lo : Z; b_hi : Z; b_cells : list nat }.

(* lines 344-346: ret[binCells(i,j)[k]] = coords[k] *)
Fixpoint write_back (cells : list nat) (coords : list Q) (ret : list Q) : list Q :=
  match cells, coords with
  | c :: cs, v :: vs => write_back cs vs (set_nth c v ret)
  | _, _ => ret
  end.

(* body of the double loop; cellDemand(c) is an int converted to float (exact below 2^24) *)
Definition spread_bin (target demand : list Q) (ret : list Q) (b : bin) : list Q :=
  let bt := map (getq target) (b_cells b) in
  let bd := map (getq demand) (b_cells b) in
  write_back (b_cells b) (spread_cells bt bd (inject_Z (b_lo b)) (inject_Z (b_hi b))) ret.

(* the unrepaired function (tree before the F15 fix): std::vector<float> ret(nbCells(), 0.0f) *)
Definition spread_coord_orig (ncells : nat) (bins : list bin) (target demand : list Q) : list Q :=
  fold_left (spread_bin target demand) bins (repeat 0%Q ncells).

(* clampCoords (F15 fix): std::max(minCoord, std::min(maxCoord, c)) *)
Definition qmin_std (a b : Q) : Q := if Qle_bool a b then a else b.      (* std::min(a,b) = (b < a) ? b : a *)
Definition qmax_std (a b : Q) : Q := if Qle_bool b a then a else b.      (* std::max(a,b) = (a < b) ? b : a *)
Definition clampq (lo hi v : Q) : Q := qmax_std lo (qmin_std hi v).

(* the repaired function: cells that are in no bin keep their target clamped into the placement area
   [alo, ahi] (placementArea().minX/maxX, resp. minY/maxY) *)
Definition spread_coord (alo ahi : Z) (bins : list bin) (target demand : list Q) : list Q :=
  fold_left (spread_bin target demand) bins (map (clampq (inject_Z alo) (inject_Z ahi)) target).

(* ------------------------------------------------------------------ the placement area and the bin limits *)
Local Open Scope Z_scope.

(* utils/helpers.hpp computeSubdivisions: ret[i] = min + (i * (max - min) / number), i = 0..number
   (int arithmetic, C++ division truncates: Z.quot; the product is evaluated in int in the C++: the ideal
   value is modelled) *)
Definition subdivisions (mn mx : Z) (number : nat) : list Z :=
  map (fun i => mn + Z.quot (Z.of_nat i * (mx - mn)) (Z.of_nat number)) (seq 0 (S number)).

(* DensityGrid::fromIspdCircuit lines 38-44: rows not wider than twice the margin are dropped, the others
   lose `margin` on each side.  margin = (int)(sideMargin * minCellHeight) is a float->int truncation: input *)
Definition clip_row (margin : Z) (r : rect) : list rect :=
  if maxX r - minX r <=? 2 * margin then []
  else [ {| minX := minX r + margin; maxX := maxX r - margin; minY := minY r; maxY := maxY r |} ].

Definition clip_rows (margin : Z) (rows : list rect) : list rect := flat_map (clip_row margin) rows.

(* DensityGrid::computePlacementArea / Circuit::computePlacementArea: bounding box, (0,0,0,0) when empty.
   The C++ folds min/max from INT_MAX/INT_MIN, which is the same value on a non-empty list of ints *)
Definition bb_add (a r : rect) : rect :=
  {| minX := Z.min (minX r) (minX a); maxX := Z.max (maxX r) (maxX a);
     minY := Z.min (minY r) (minY a); maxY := Z.max (maxY r) (maxY a) |}.

Definition bbox (rs : list rect) : rect :=
  match rs with
  | [] => {| minX := 0; maxX := 0; minY := 0; maxY := 0 |}
  | r :: t => fold_left bb_add t r
  end.

(* updateBinsToSize: bins = max(1, length / maxSize); maxSize = (int)(sizeFactor * minCellHeight): input *)
Definition nb_bins (len maxSize : Z) : nat := Z.to_nat (Z.max 1 (Z.quot len maxSize)).

Definition limits (mn mx maxSize : Z) : list Z := subdivisions mn mx (nb_bins (mx - mn) maxSize).

(* the placement area of the density grid built from free rows *)
Definition grid_area (margin : Z) (free : list rect) : rect := bbox (clip_rows margin free).

(* the placement area DensityGrid::fromIspdCircuit gives its grid (repair of finding F28, density_grid.cpp:45-51):
   the bounding box of the clipped free rows; when NO free row survives the clipping (rows covered by fixed
   obstructions, or only pieces not wider than twice the margin left) the bounding box of the circuit's ROWS
   (Circuit::computePlacementArea, coloquinte.cpp:261-276) -- before the repair that case gave (0,0,0,0) *)
Definition circuit_grid_area (margin : Z) (rows : list row)
           (cells : list (Z * Z * Z * Z * orient * bool * bool)) : rect :=
  let free := map rr (compute_rows_circuit rows [] cells) in
  match clip_rows margin free with
  | [] => bbox (map rr rows)
  | _ :: _ => grid_area margin free
  end.

(* DensityGrid::fromIspdCircuit from the circuit's rows and cells: computeRows (C15's model), clipping,
   bounding box (of the clipped rows, or of the circuit's rows when none is left), bin limits in x and y *)
Definition grid_of_circuit (margin maxSize : Z) (rows : list row)
           (cells : list (Z * Z * Z * Z * orient * bool * bool)) : list Z * list Z :=
  let a := circuit_grid_area margin rows cells in
  (limits (minX a) (maxX a) maxSize, limits (minY a) (maxY a) maxSize).

Local Close Scope Z_scope.

(* ------------------------------------------------------------------ blend and export, place_global.cpp *)

(* std::round: to nearest, halves away from zero *)
Definition round_half_away (q : Q) : Z :=
  if Qle_bool 0 q then Qfloor (q + (1 # 2)) else (- Qfloor (- q + (1 # 2)))%Z.

(* blendPlacement, lines 22-38 (the two shortcuts return one of the vectors unchanged) *)
Definition blend_placement (v1 v2 : list Q) (w : Q) : list Q :=
  if Qeq_bool w 0 then v1
  else if Qeq_bool w 1 then v2
  else map (fun p => ((1 - w) * fst p + w * snd p)%Q) (combine v1 v2).

(* a cell as exportPlacement sees it; g_pw/g_ph are placedWidth/placedHeight, g_orient is opaque *)
Record gcell := { g_fixed : bool; g_x : Z; g_y : Z; g_pw : Z; g_ph : Z; g_orient : Z }.

(* lines 111-112: std::round(xplace[i] - 0.5 * placedWidth(i)) (evaluated in double in the C++) *)
Definition export_coord (centre : Q) (size : Z) : Z :=
  round_half_away (centre - (1 # 2) * inject_Z size).

(* exportPlacement(circuit, xplace, yplace), lines 100-114: fixed cells are skipped *)
Definition export_cell (c : gcell) (xy : Q * Q) : gcell :=
  if g_fixed c then c
  else {| g_fixed := g_fixed c; g_x := export_coord (fst xy) (g_pw c); g_y := export_coord (snd xy) (g_ph c);
          g_pw := g_pw c; g_ph := g_ph c; g_orient := g_orient c |}.

Fixpoint export_placement (cells : list gcell) (xs ys : list Q) : list gcell :=
  match cells, xs, ys with
  | c :: cs, x :: xs', y :: ys' => export_cell c (x, y) :: export_placement cs xs' ys'
  | _, _, _ => cells
  end.

(* exportPlacement(circuit) const, lines 90-98: the returned placement *)
Definition export_global (w : Q) (cells : list gcell) (lbx ubx lby uby : list Q) : list gcell :=
  export_placement cells (blend_placement lbx ubx w) (blend_placement lby uby w).
