(* C02 / C04 -- the composition: the CIRCUIT that detailed placement exposes (not only the row structure)
   is legal, leaves the cells it does not optimise exactly where they were, and carries the prescribed
   orientations.  (To be merged into Properties_C02.v / Properties_C04.v.)

   Models: DetailedInit.from_circuit (DetailedPlacement::fromIspdCircuit + constructor + check()),
   Moves.v (the row structure and its operations; histories dop / run_dops of MovesOrientProofs.v: the
   four operations swap / insert / unplace / place, performed when their guard holds and refused
   otherwise, and shift passes DShift xs), DetailedExport.write_back (DetailedPlacement::exportPlacement,
   what DetailedPlacer::callback does before every Detailed-step callback and what the caller receives on
   return).  Proofs: DetailedExportProofs.v.

     std_design c rh    the C01 domain (rows of one positive height rh, pairwise disjoint, not turned;
                        movable cells of positive placed width, placed height a positive multiple of rh,
                        not turned unless without polarity);
     orient_pre c rh    what check() insists on (follows from Circuit.orient_ok before c, the conclusion
                        of C04 for legalization: DetailedInitProofs.orient_ok_gives_pre);
     dshifts_ok s ops   every shift pass DShift xs of the history satisfies, in the state it is applied
                        to, the guard Moves.shift_ok (the positional constraints handed to the network
                        simplex; they follow from dual feasibility: c02_shift_dual_feasible_legal);
     closed_dop         the optimiser's own moves: swap, insert, shift with ARBITRARY arguments (no raw
                        unplace / place);
     d_loose s' = []    no cell is between an unplace and its place (the C++ only exports between
                        complete passes; c02_write_back_unplaced_refuted shows it cannot be dropped). *)
From Coq Require Import List ZArith Lia Bool.
Import ListNotations.
Require Import CV.Orient CV.FreeSpace CV.Circuit CV.OrientProofs CV.Moves CV.MovesProofs CV.MovesOrientProofs.
Require Import CV.Legalizer CV.LegalizerProofs CV.LegalizerSoundProofs.
Require Import CV.DetailedInit CV.DetailedInitProofs CV.DetailedExport CV.DetailedExportProofs.
Local Open Scope Z_scope.

(* [F on the stated domain] C02, main clause.  For every legal circuit of the C01 domain, the structure
   s that fromIspdCircuit builds from it, and EVERY history of moves and shift passes (shift passes
   satisfying their constraints) after which no cell is unplaced: the circuit obtained by
   exportPlacement satisfies `legal`, the legality specification of C01 -- bottom edges on row
   boundaries, every row-high strip inside one free segment of the C15 model, movable cells pairwise
   disjoint (kept cells against each other AND against the movable cells the structure does not hold) *)
Theorem c02_write_back_legal : forall c rh s ops,
  std_design c rh -> legal c -> orient_pre c rh -> from_circuit c = DOk s ->
  dshifts_ok s ops -> d_loose (run_dops s ops) = [] ->
  legal (write_back c (run_dops s ops)).
Proof. exact write_back_legal. Qed.

(* [F on the stated domain] the same for histories made of the optimiser's own moves (swap, insert,
   shift) with arbitrary arguments: they never leave a cell unplaced *)
Theorem c02_write_back_legal_optimiser_moves : forall c rh s ops,
  std_design c rh -> legal c -> orient_pre c rh -> from_circuit c = DOk s ->
  forallb closed_dop ops = true -> dshifts_ok s ops ->
  legal (write_back c (run_dops s ops)).
Proof. exact write_back_legal_closed. Qed.

(* [F on the stated domain] C02, "cells it does not optimise stay exactly where legalization put them":
   for EVERY history (no hypothesis on the shifts or on unplaced cells) the rows are the same, every
   cell keeps its size, polarity and flags, and every cell that is fixed or not exactly one row high
   (multi-row cells, movable macros) is IDENTICAL -- position and orientation included -- in the
   exposed circuit *)
Theorem c02_write_back_frame : forall c rh s ops,
  std_design c rh -> legal c -> orient_pre c rh -> from_circuit c = DOk s ->
  rows (write_back c (run_dops s ops)) = rows c /\
  Forall2 same_frame (cells c) (cells (write_back c (run_dops s ops))) /\
  (forall i k, nth_error (cells c) i = Some k -> (c_fixed k = true \/ placed_h k <> rh) ->
               nth_error (cells (write_back c (run_dops s ops))) i = Some k).
Proof. exact write_back_frame. Qed.

(* [F on the stated domain] "at each callback": the C++ exports into the same circuit again and again;
   exporting the current state into a circuit that already received an earlier state of the run gives
   exactly write_back of the ORIGINAL circuit (so the theorems above speak about every callback) *)
Theorem c02_write_back_twice : forall c rh s ops1 ops2,
  std_design c rh -> legal c -> orient_pre c rh -> from_circuit c = DOk s -> d_loose (run_dops s ops2) = [] ->
  write_back (write_back c (run_dops s ops1)) (run_dops s ops2) = write_back c (run_dops s ops2).
Proof. exact write_back_twice. Qed.

(* [R, about states the C++ never exposes] with a cell unplaced the structure does not describe a
   placement: unplace(1) then insert(5, row 0) puts cell 5 where the (stale) position of cell 1 is *)
Theorem c02_write_back_unplaced_refuted :
  exists s, from_circuit ex_dinit = DOk s /\
    d_loose (run_dops s [DMop (MUnplace 1); DMop (MInsert 5 0 None)]) <> [] /\
    legalb (write_back ex_dinit (run_dops s [DMop (MUnplace 1); DMop (MInsert 5 0 None)])) = false.
Proof. exact write_back_unplaced_refuted. Qed.

(* [F on the stated domain, rows of known orientation] C04 for the exposed circuit: with the
   orientations legalization leaves (orient_ok before c) and every history whose raw place operations
   target a row allowed for the cell (dhist_allowed; swap / insert need nothing), every polarised
   movable cell of the exposed circuit has the documented orientation of the row under its bottom-left
   corner, never INVALID, and every cell without polarity has the orientation it had in `before` *)
Theorem c04_write_back_orient_ok : forall before c rh s ops,
  std_design c rh -> (forall r, In r (rows c) -> ro r <> oUNKNOWN) -> legal c -> orient_ok before c ->
  from_circuit c = DOk s -> dshifts_ok s ops -> dhist_allowed s ops -> d_loose (run_dops s ops) = [] ->
  orient_ok before (write_back c (run_dops s ops)).
Proof. exact write_back_orient_ok. Qed.

Theorem c04_write_back_orient_ok_optimiser_moves : forall before c rh s ops,
  std_design c rh -> (forall r, In r (rows c) -> ro r <> oUNKNOWN) -> legal c -> orient_ok before c ->
  from_circuit c = DOk s -> forallb closed_dop ops = true -> dshifts_ok s ops ->
  orient_ok before (write_back c (run_dops s ops)).
Proof. exact write_back_orient_ok_closed. Qed.

(* non-vacuity: ex_dinit (two rows N / FS; a fixed obstruction; a fixed non-obstruction; cell 4 two rows
   high; cell 7 turned; row-high cells 1 2 3 5 8 with polarities SAME NW ANY OPPOSITE SAME).  History:
   swap(1,5) across the rows (both change orientation), insert(3, row 3) refused (no room), a shift of
   cell 2, insert(8, row 2) from the FS row to the N row, insert(2, row 3) refused (NW on an FS row).
   Every hypothesis holds; the exposed circuit is computed: cells 1, 5, 8 changed row, 2 moved, the
   fixed cells 0 and 6, the two-row cell 4 and the refused cell 3 are where they were *)
Definition ex_compose_ops : list dop :=
  [DMop (MSwap 1 5); DMop (MInsert 3 3 (Some 7%nat)); DShift [(2%nat, 4)]; DMop (MInsert 8 2 None);
   DMop (MInsert 2 3 None)].

Example c02_compose_nonvacuous :
  std_design ex_dinit 2 /\ legal ex_dinit /\ orient_pre ex_dinit 2 /\ orient_ok ex_dinit ex_dinit /\
  (forall r, In r (rows ex_dinit) -> ro r <> oUNKNOWN) /\
  exists s, from_circuit ex_dinit = DOk s /\ forallb closed_dop ex_compose_ops = true /\ dshifts_ok s ex_compose_ops /\
    map (fun k => (c_x k, c_y k, c_o k)) (cells ex_dinit) =
      [(8, 0, oN); (0, 0, oN); (5, 0, oN); (10, 0, oN); (16, 0, oN); (12, 2, oN); (1, 0, oN); (0, 2, oE); (18, 2, oFS)] /\
    map (fun k => (c_x k, c_y k, c_o k)) (cells (write_back ex_dinit (run_dops s ex_compose_ops))) =
      [(8, 0, oN); (8, 2, oFS); (4, 0, oN); (10, 0, oN); (16, 0, oN); (1, 0, oFS); (1, 0, oN); (0, 2, oE); (18, 0, oN)] /\
    legalb (write_back ex_dinit (run_dops s ex_compose_ops)) = true /\
    orient_okb ex_dinit (write_back ex_dinit (run_dops s ex_compose_ops)) = true.
Proof.
  split; [exact ex_dinit_std|]. split; [apply CircuitProofs.legalb_correct; vm_compute; reflexivity|].
  split; [exact ex_dinit_orient_pre|]. split; [apply orient_okb_correct; vm_compute; reflexivity|].
  split; [intros r [<-|[<-|[]]]; discriminate|].
  eexists. split; [vm_compute; reflexivity|]. split; [reflexivity|]. split; [vm_compute; repeat split; reflexivity|].
  vm_compute. repeat split; reflexivity.
Qed.

Print Assumptions c02_write_back_legal.
Print Assumptions c02_write_back_legal_optimiser_moves.
Print Assumptions c02_write_back_frame.
Print Assumptions c02_write_back_twice.
Print Assumptions c02_write_back_unplaced_refuted.
Print Assumptions c04_write_back_orient_ok.
Print Assumptions c04_write_back_orient_ok_optimiser_moves.
