(* C13 -- updateTree() (cpp:472-511): correctness and termination of the label-correcting loop, for any fuel.
   Part 1: loop rules (enough fuel => the loop ends).
   Part 2: the queues are sorted by cost and every element carries its moving cost (Q2inv); with Qinv of
           SspSafety.v: the top of queue (a,b) is a source of MINIMUM moving cost among those allocated at a.
   Part 3: potentials (Pot) = dual feasibility + complementary slackness of the current allocation.
   Part 4: the loop invariant Vinv of updateTree, its postcondition (Tinv, tight tree edges, acyclic parents,
           the new labels are potentials) and its termination measure. *)
From Coq Require Import List ZArith Lia Bool Arith Permutation.
Import ListNotations.
Require Import CV.LpCert CV.Ssp CV.SspProofs CV.SspSafety CV.SspF.
Local Open Scope Z_scope.

(* ================================================================== Part 1: loops *)

Lemma loopP_fuel {S R : Type} (Iv : nat -> S -> Prop) (body : S -> step S R) :
  (forall k s, Iv k s -> match body s with Continue s' => exists k', (k' < k)%nat /\ Iv k' s' | Done _ => True end) ->
  forall p k s, Iv k s ->
    match loopP p body s with
    | Continue s' => exists k', (k' + Pos.to_nat p <= k)%nat /\ Iv k' s'
    | Done _ => True
    end.
Proof.
  intros Hb. induction p as [p IH|p IH|]; intros k s Hs; cbn [loopP].
  - pose proof (Hb k s Hs) as H0. destruct (body s) as [s1|r]; [|exact I].
    destruct H0 as (k1 & Hk1 & H1). pose proof (IH k1 s1 H1) as H2.
    destruct (loopP p body s1) as [s2|r]; [|exact I]. destruct H2 as (k2 & Hk2 & H2).
    pose proof (IH k2 s2 H2) as H3. destruct (loopP p body s2) as [s3|r]; [|exact I].
    destruct H3 as (k3 & Hk3 & H3). exists k3. split; [rewrite Pos2Nat.inj_xI; lia|exact H3].
  - pose proof (IH k s Hs) as H2. destruct (loopP p body s) as [s2|r]; [|exact I]. destruct H2 as (k2 & Hk2 & H2).
    pose proof (IH k2 s2 H2) as H3. destruct (loopP p body s2) as [s3|r]; [|exact I].
    destruct H3 as (k3 & Hk3 & H3). exists k3. split; [rewrite Pos2Nat.inj_xO; lia|exact H3].
  - pose proof (Hb k s Hs) as H0. destruct (body s) as [s1|r]; [|exact I].
    destruct H0 as (k1 & Hk1 & H1). exists k1. split; [rewrite Pos2Nat.inj_1; lia|exact H1].
Qed.

Lemma loopP_done {S R : Type} (Iv : nat -> S -> Prop) (body : S -> step S R) :
  (forall k s, Iv k s -> match body s with Continue s' => exists k', (k' < k)%nat /\ Iv k' s' | Done _ => True end) ->
  forall p k s, Iv k s -> (k < Pos.to_nat p)%nat -> exists r, loopP p body s = Done r.
Proof.
  intros Hb p k s Hs Hk. pose proof (loopP_fuel Iv body Hb p k s Hs) as H.
  destruct (loopP p body s) as [s'|r]; [|exists r; reflexivity]. destruct H as (k' & Hk' & _). lia.
Qed.

(* outcome "a value with P, or the fuel of updateTree ran out" *)
Definition safe2 {A : Type} (r : res A) (P : A -> Prop) : Prop :=
  match r with Ok a => P a | Fail e => e = EFuel 483%nat end.

Lemma foldM_seq {S : Type} (Iv : nat -> S -> Prop) (f : S -> nat -> res S) :
  forall len a s, Iv a s ->
  (forall k s, (a <= k < a + len)%nat -> Iv k s -> exists s', f s k = Ok s' /\ Iv (Datatypes.S k) s') ->
  exists s', foldM f (seq a len) s = Ok s' /\ Iv (a + len)%nat s'.
Proof.
  induction len as [|len IH]; intros a s Hs Hf; cbn [seq foldM].
  - exists s. rewrite Nat.add_0_r. split; [reflexivity|exact Hs].
  - destruct (Hf a s ltac:(lia) Hs) as (s1 & E1 & H1). rewrite E1. cbn [bind].
    destruct (IH (Datatypes.S a) s1 H1) as (s' & E' & H').
    + intros k s0 Hk. apply Hf. lia.
    + exists s'. split; [exact E'|]. replace (a + Datatypes.S len)%nat with (Datatypes.S a + len)%nat by lia. exact H'.
Qed.

Lemma zsum_le_const (f : nat -> Z) l c : (forall a, In a l -> f a <= c) -> zsum f l <= c * Z.of_nat (length l).
Proof.
  induction l as [|h t IH]; intros H; cbn [zsum length]; [lia|].
  pose proof (H h (or_introl eq_refl)). specialize (IH (fun a Ha => H a (or_intror Ha))). lia.
Qed.

Lemma zsum_nonneg_in (f : nat -> Z) l : (forall a, In a l -> 0 <= f a) -> 0 <= zsum f l.
Proof.
  induction l as [|h t IH]; intros H; cbn [zsum]; [lia|].
  pose proof (H h (or_introl eq_refl)). specialize (IH (fun a Ha => H a (or_intror Ha))). lia.
Qed.

(* ================================================================== Part 2: sorted queues *)

Fixpoint qsorted (q : Queue) : Prop :=
  match q with [] => True | e :: t => (forall x, In x t -> fst e <= fst x) /\ qsorted t end.

Lemma q_push_sorted e q : qsorted q -> qsorted (q_push e q).
Proof.
  induction q as [|h t IH]; cbn [q_push qsorted]; intros Hq.
  - split; [intros x []|exact I].
  - destruct Hq as [Hh Ht]. destruct (Z.ltb_spec (fst e) (fst h)) as [Hlt|Hge]; cbn [qsorted].
    + split; [|split; assumption]. intros x [<-|Hx]; [lia|]. specialize (Hh x Hx). lia.
    + split; [|apply IH, Ht]. intros x Hx. apply q_push_in in Hx. destruct Hx as [->|Hx]; [exact Hge|apply Hh, Hx].
Qed.

Lemma q_fold_sorted l acc : qsorted acc -> qsorted (fold_left (fun q e => q_push e q) l acc).
Proof. revert acc; induction l as [|a l IH]; intros acc H; cbn [fold_left]; [exact H|]. apply IH, q_push_sorted, H. Qed.

Lemma q_of_list_sorted l : qsorted (q_of_list l).
Proof. unfold q_of_list. apply q_fold_sorted. exact I. Qed.

Lemma drop_stale_sorted arow q : qsorted q -> qsorted (drop_stale arow q).
Proof.
  induction q as [|e t IH]; cbn [drop_stale]; intros H; [exact H|].
  destruct (getZ arow (snd e) =? 0); [apply IH; destruct H as [_ H]; exact H|exact H].
Qed.

Lemma drop_stale_incl arow q x : In x (drop_stale arow q) -> In x q.
Proof.
  induction q as [|e t IH]; cbn [drop_stale]; intros H; [exact H|].
  destruct (getZ arow (snd e) =? 0); [right; apply IH, H|exact H].
Qed.

Lemma q_push_top_le e e0 t0 e1 t1 : q_push e (e0 :: t0) = e1 :: t1 -> fst e1 <= fst e0.
Proof.
  cbn [q_push]. destruct (Z.ltb_spec (fst e) (fst e0)); intros [= <- _]; lia.
Qed.

Lemma qsorted_head e t x : qsorted (e :: t) -> In x (e :: t) -> fst e <= fst x.
Proof. intros [H _] [<-|Hx]; [lia|apply H, Hx]. Qed.

Section Opt.
Variable pb : Pb.
Let n := nsnk pb.
Let m := nsrc pb.

Definition Q2row (qs : list (list Queue)) (a : nat) : Prop :=
  forall b, (b < n)%nat -> b <> a ->
    qsorted (getq qs a b) /\ forall e, In e (getq qs a b) -> fst e = pmoving pb (snd e) a b.

Definition Q2inv (rm : list Z) (qs : list (list Queue)) : Prop :=
  forall a, (a < n)%nat -> getZ rm a = 0 -> Q2row qs a.

Lemma Q2row_ext qs qs' a : nth a qs' [] = nth a qs [] -> Q2row qs a -> Q2row qs' a.
Proof. intros E H b Hb Hne. unfold getq. rewrite E. exact (H b Hb Hne). Qed.

Lemma init_queues_Q2row al qs a : (a < length qs)%nat -> Q2row (init_queues pb al qs a) a.
Proof.
  intros Ha b Hb Hne. unfold getq, init_queues. rewrite nth_upd_eq by exact Ha. fold n m.
  rewrite (@nth_map_in nat Queue _ _ b 0%nat []) by (rewrite seq_length; exact Hb). rewrite seq_nth by exact Hb. cbn [Nat.add].
  destruct (Nat.eqb_spec a b) as [->|_]; [contradiction|]. split; [apply q_of_list_sorted|].
  intros e He. apply q_of_list_in, in_map_iff in He. destruct He as (i & <- & _). reflexivity.
Qed.

Lemma dest_queues_Q2row al qs a src qs1 :
  update_dest_queues pb al qs a src = Ok qs1 -> (a < length qs)%nat -> length (nth a qs []) = n ->
  Q2row qs a -> Q2row qs1 a.
Proof.
  intros Hd Ha Hl H b Hb Hne. rewrite (getq_dest pb al qs a src qs1 b Hd Ha Hl Hb Hne).
  destruct (H b Hb Hne) as [Hs Ht]. destruct (get2 al a src =? 0); [|split; assumption].
  split; [apply q_push_sorted, Hs|]. intros e He. apply q_push_in in He. destruct He as [->|He]; [reflexivity|apply Ht, He].
Qed.

Lemma sink_queues_Q2row al qs a src :
  (a < length qs)%nat -> length (nth a qs []) = n -> Q2row qs a -> Q2row (update_sink_queues al qs a src) a.
Proof.
  intros Ha Hl H b Hb Hne. rewrite (getq_sink pb al qs a src b Ha Hl Hb Hne).
  destruct (H b Hb Hne) as [Hs Ht]. destruct (get2 al a src =? 0); [|split; assumption].
  split; [apply drop_stale_sorted, Hs|]. intros e He. apply Ht. eapply drop_stale_incl, He.
Qed.

Definition topc (qs : list (list Queue)) (a b : nat) : Z :=
  match getq qs a b with [] => 0 | e :: _ => fst e end.

(* the top of queue (a,b) is a source with an allocation at a, of minimum moving cost among those *)
Lemma top_min al qs a b i :
  Qrow pb al qs a -> Q2row qs a -> (b < n)%nat -> b <> a -> (i < m)%nat -> get2 al a i <> 0 ->
  topc qs a b <= pmoving pb i a b.
Proof.
  intros (_ & Q2 & _) H2 Hb Hne Hi Hnz. destruct (Q2 b i Hb Hne Hi Hnz) as (c & Hc).
  destruct (H2 b Hb Hne) as [Hs Ht]. pose proof (Ht _ Hc) as Ec. cbn [fst snd] in Ec. subst c.
  unfold topc. destruct (getq qs a b) as [|e t] eqn:E; [destruct Hc|].
  exact (qsorted_head e t _ Hs Hc).
Qed.

(* ================================================================== Part 3: potentials *)

(* d : sink potentials.  With u_i = min_k (c[k][i] + d_k) these are exactly LpCert's dual_ok and slack. *)
Definition Pot (al : list (list Z)) (rm : list Z) (d : nat -> Z) : Prop :=
  (forall j, (j < n)%nat -> 0 <= d j) /\
  (forall j, (j < n)%nat -> 0 < getZ rm j -> d j = 0) /\
  (forall j k i, (j < n)%nat -> (k < n)%nat -> (i < m)%nat -> 0 < get2 al j i ->
     d j + cost pb j i <= d k + cost pb k i).

Lemma Pot_ext al rm d d' : (forall j, (j < n)%nat -> d' j = d j) -> Pot al rm d -> Pot al rm d'.
Proof.
  intros E (P1 & P2 & P3). split; [|split].
  - intros j Hj. rewrite E by exact Hj. apply P1, Hj.
  - intros j Hj Hf. rewrite E by exact Hj. apply P2; assumption.
  - intros j k i Hj Hk Hi Hp. rewrite !E by assumption. apply P3; assumption.
Qed.

Definition Tight (qs : list (list Queue)) (sc : list Z) (par : list (option nat)) : Prop :=
  forall a b, nth a par None = Some b -> getZ sc a = topc qs a b + getZ sc b.

Definition Acyc (par : list (option nat)) : Prop :=
  forall a, (a < n)%nat -> exists l r, Chain par a l r.

(* ---- chains under an update of one parent *)
Lemma chain_upd_notin (par : list (option nat)) i v a l r :
  Chain par a l r -> ~ In i l -> i <> r -> Chain (upd par i v) a l r.
Proof.
  induction 1 as [r Hr|a b l r Hab Hc IH]; intros Hn Hr'.
  - constructor. rewrite nth_upd_neq by exact Hr'. exact Hr.
  - econstructor.
    + rewrite nth_upd_neq; [exact Hab|]. intros ->. apply Hn. left; reflexivity.
    + apply IH; [|exact Hr']. intros Hin. apply Hn. right; exact Hin.
Qed.

Lemma chain_upd_all (par : list (option nat)) i b lb rb :
  (i < length par)%nat -> Chain (upd par i (Some b)) b lb rb ->
  forall a l r, Chain par a l r -> exists l' r', Chain (upd par i (Some b)) a l' r'.
Proof.
  intros Hi Hb a l r Hc. induction Hc as [r Hr|a c l r Hac Hc IH].
  - destruct (Nat.eq_dec r i) as [->|Hne].
    + exists (i :: lb), rb. econstructor; [apply nth_upd_eq, Hi|exact Hb].
    + exists [], r. constructor. rewrite nth_upd_neq by congruence. exact Hr.
  - destruct (Nat.eq_dec a i) as [->|Hne].
    + exists (i :: lb), rb. econstructor; [apply nth_upd_eq, Hi|exact Hb].
    + destruct IH as (l' & r' & H'). exists (a :: l'), r'. econstructor; [|exact H'].
      rewrite nth_upd_neq by congruence. exact Hac.
Qed.

End Opt.

(* ================================================================== Part 4: updateTree *)

Section Tree.
Variable pb : Pb.
Let n := nsnk pb.
Let m := nsrc pb.
Hypothesis Hcaps : forall j, (j < n)%nat -> 0 < cap_f pb j.
Hypothesis Hcost : forall j i, 0 <= cost pb j i < INT_MAX.
Variables (al : list (list Z)) (rm : list Z) (qs : list (list Queue)) (p : nat -> Z).
Hypothesis Hsh : shape n m al.
Hypothesis Hpos : forall j i, 0 <= get2 al j i.
Hypothesis Hrs : forall j, (j < n)%nat -> rowsum m al j + getZ rm j = cap_f pb j.
Hypothesis Hrem : forall j, 0 <= getZ rm j.
Hypothesis Hlr : length rm = n.
Hypothesis HQ : Qinv pb al rm qs.
Hypothesis HQ2 : Q2inv pb rm qs.
Hypothesis Hp : Pot pb al rm p.

(* the edge i -> b of a full sink i: the queue has a top, an allocated source carrying its moving cost *)
Lemma edge_top i b : (i < n)%nat -> (b < n)%nat -> i <> b -> getZ rm i = 0 ->
  exists e t, getq qs i b = e :: t /\ topc qs i b = fst e /\ 0 < get2 al i (snd e) /\ (snd e < m)%nat /\
              fst e = pmoving pb (snd e) i b.
Proof.
  intros Hi Hb Hne Hri.
  pose proof (full_queue_nonempty pb Hcaps al rm qs i b Hsh Hrs HQ Hi Hri Hb ltac:(congruence)) as Hq.
  destruct (getq qs i b) as [|e t] eqn:E; [congruence|]. exists e, t. split; [reflexivity|].
  split; [unfold topc; rewrite E; reflexivity|].
  destruct (HQ i Hi Hri) as (_ & _ & Q3). pose proof (Q3 b e t Hb ltac:(congruence) E) as Hnz.
  destruct (get2_inrange n m al i (snd e) Hsh Hnz) as [_ He].
  split; [specialize (Hpos i (snd e)); lia|]. split; [exact He|].
  destruct (HQ2 i Hi Hri b Hb ltac:(congruence)) as [_ Ht]. apply Ht. rewrite E. left; reflexivity.
Qed.

Lemma edge_lb i b : (i < n)%nat -> (b < n)%nat -> i <> b -> getZ rm i = 0 -> p i <= topc qs i b + p b.
Proof.
  intros Hi Hb Hne Hri. destruct (edge_top i b Hi Hb Hne Hri) as (e & t & _ & -> & Hal & He & ->).
  destruct Hp as (_ & _ & P3). specialize (P3 i b (snd e) Hi Hb He Hal). unfold pmoving. lia.
Qed.

Lemma edge_ub i k i0 : (i < n)%nat -> (k < n)%nat -> i <> k -> getZ rm i = 0 -> (i0 < m)%nat -> 0 < get2 al i i0 ->
  topc qs i k <= pmoving pb i0 i k.
Proof.
  intros Hi Hk Hne Hri Hi0 Hal.
  apply (top_min pb al qs i k i0 (HQ i Hi Hri) (HQ2 i Hi Hri) Hk ltac:(congruence) Hi0). lia.
Qed.

Lemma moving_cost_topc line i b : (i < n)%nat -> (b < n)%nat -> i <> b -> getZ rm i = 0 ->
  moving_cost line qs i b = Ok (topc qs i b).
Proof.
  intros Hi Hb Hne Hri. destruct (edge_top i b Hi Hb Hne Hri) as (e & t & E & -> & _).
  unfold moving_cost. destruct (Nat.eqb_spec i b); [contradiction|]. rewrite E. reflexivity.
Qed.

Notation scv t a := (getZ (t_sc t) a).
Notation parv t a := (nth a (t_par t) None).
Notation tvv t a := (nth a (t_tv t) false).

Record Vinv (t : TreeSt) : Prop := {
  v_lsc : length (t_sc t) = n;
  v_lpar : length (t_par t) = n;
  v_ltv : length (t_tv t) = n;
  v_rng : forall a, (a < n)%nat -> 0 <= scv t a <= INT_MAX;
  v_free : forall a, (a < n)%nat -> 0 < getZ rm a -> scv t a = 0 /\ parv t a = None;
  v_lb : forall a, (a < n)%nat -> scv t a < INT_MAX -> p a <= scv t a;
  v_mark : forall a, (a < n)%nat -> tvv t a = true -> scv t a < INT_MAX;
  v_relaxed : forall b, (b < n)%nat -> tvv t b = false -> scv t b < INT_MAX ->
              forall i, (i < n)%nat -> getZ rm i = 0 -> i <> b -> scv t i <= topc qs i b + scv t b;
  v_par : forall a b, parv t a = Some b ->
          (a < n)%nat /\ (b < n)%nat /\ a <> b /\ getZ rm a = 0 /\ scv t b < INT_MAX /\ scv t a < INT_MAX /\
          topc qs a b + scv t b <= scv t a;
  v_root : forall a, (a < n)%nat -> scv t a < INT_MAX -> parv t a = None -> 0 < getZ rm a;
  v_acyc : forall a, (a < n)%nat -> exists l r, Chain (t_par t) a l r }.

(* termination measure *)
Definition Mz (t : TreeSt) : Z :=
  2 * zsum (fun a => scv t a) (seq 0 n) + zsum (fun a => if tvv t a then 1 else 0) (seq 0 n).

Lemma Mz_nonneg t : Vinv t -> 0 <= Mz t.
Proof.
  intros V. unfold Mz.
  assert (0 <= zsum (fun a => scv t a) (seq 0 n)).
  { apply zsum_nonneg_in. intros a Ha. apply in_seq in Ha. apply (v_rng t V). lia. }
  assert (0 <= zsum (fun a => if tvv t a then 1 else 0) (seq 0 n)).
  { apply zsum_nonneg_in. intros a _. destruct (tvv t a); lia. }
  lia.
Qed.

(* sc - p does not increase along parent chains *)
Lemma chain_phi t b l r : Vinv t -> Chain (t_par t) b l r ->
  forall x, In x l \/ x = r -> scv t x - p x <= scv t b - p b.
Proof.
  intros V Hc. induction Hc as [r Hr|a c l r Hac Hc IH]; intros x Hx.
  - destruct Hx as [[]| ->]. lia.
  - destruct (v_par t V a c Hac) as (Ha & Hcn & Hne & Hra & _ & _ & Hle).
    pose proof (edge_lb a c Ha Hcn Hne Hra) as Hlb.
    assert (Hc0 : scv t c - p c <= scv t a - p a) by lia.
    destruct Hx as [[<-|Hx]|Hx]; [lia| |].
    + specialize (IH x (or_introl Hx)). lia.
    + specialize (IH x (or_intror Hx)). lia.
Qed.

Lemma relax_V b t i t' :
  Vinv t -> (b < n)%nat -> tvv t b = true -> scv t b < INT_MAX -> (i < n)%nat ->
  relax qs rm b t i = Ok t' ->
  Vinv t' /\ scv t' b = scv t b /\ tvv t' b = true /\ Mz t' <= Mz t /\
  (forall a, scv t' a <= scv t a) /\
  (getZ rm i = 0 -> i <> b -> scv t' i <= topc qs i b + scv t' b).
Proof.
  intros V Hb Htb Hfb Hi. unfold relax.
  destruct (Z.gtb_spec (getZ rm i) 0) as [Hfree|Hfull].
  { intros [= <-]. refine (conj V (conj eq_refl (conj Htb (conj (Z.le_refl _) (conj (fun a => Z.le_refl _) _))))). intros; lia. }
  assert (Hri : getZ rm i = 0) by (specialize (Hrem i); lia).
  destruct (Nat.eq_dec i b) as [->|Hib].
  { unfold moving_cost. rewrite Nat.eqb_refl. cbn [bind]. destruct (Z.ltb_spec (0 + scv t b) (scv t b)); [lia|].
    intros [= <-]. refine (conj V (conj eq_refl (conj Htb (conj (Z.le_refl _) (conj (fun a => Z.le_refl _) _))))). intros; congruence. }
  rewrite (moving_cost_topc 502%nat i b Hi Hb Hib Hri). cbn [bind].
  set (mc := topc qs i b).
  destruct (Z.ltb_spec (mc + scv t b) (scv t i)) as [Hlt|Hge].
  2:{ intros [= <-]. refine (conj V (conj eq_refl (conj Htb (conj (Z.le_refl _) (conj (fun a => Z.le_refl _) _))))). intros; lia. }
  intros [= <-]. cbn [t_sc t_par t_tv].
  pose proof (edge_lb i b Hi Hb Hib Hri) as Hlb. fold mc in Hlb.
  pose proof (v_lb t V b Hb Hfb) as Hpb.
  pose proof (v_rng t V i Hi) as Hrngi. pose proof (v_rng t V b Hb) as Hrngb.
  destruct Hp as (Pp1 & Pp2 & _). pose proof (Pp1 i Hi) as Hpi.
  assert (Esc : forall a, getZ (upd (t_sc t) i (mc + scv t b)) a = if (a =? i)%nat then mc + scv t b else scv t a).
  { intros a. unfold getZ. destruct (Nat.eqb_spec a i) as [->|Hne];
      [apply nth_upd_eq; rewrite (v_lsc t V); exact Hi|apply nth_upd_neq; congruence]. }
  assert (Epar : forall a, nth a (upd (t_par t) i (Some b)) None = if (a =? i)%nat then Some b else parv t a).
  { intros a. destruct (Nat.eqb_spec a i) as [->|Hne];
      [apply nth_upd_eq; rewrite (v_lpar t V); exact Hi|apply nth_upd_neq; congruence]. }
  assert (Etv : forall a, nth a (upd (t_tv t) i true) false = if (a =? i)%nat then true else tvv t a).
  { intros a. destruct (Nat.eqb_spec a i) as [->|Hne];
      [apply nth_upd_eq; rewrite (v_ltv t V); exact Hi|apply nth_upd_neq; congruence]. }
  assert (Ebi : (b =? i)%nat = false) by (apply Nat.eqb_neq; congruence).
  split; [|split; [|split; [|split; [|split]]]].
  - constructor; cbn [t_sc t_par t_tv].
    + rewrite upd_length. apply (v_lsc t V).
    + rewrite upd_length. apply (v_lpar t V).
    + rewrite upd_length. apply (v_ltv t V).
    + intros a Ha. rewrite Esc. destruct (Nat.eqb_spec a i) as [->|_]; [lia|apply (v_rng t V), Ha].
    + intros a Ha Hf. rewrite Esc, Epar. destruct (Nat.eqb_spec a i) as [->|_]; [lia|apply (v_free t V); assumption].
    + intros a Ha. rewrite Esc. destruct (Nat.eqb_spec a i) as [->|_]; [lia|apply (v_lb t V), Ha].
    + intros a Ha. rewrite Esc, Etv. destruct (Nat.eqb_spec a i) as [->|_]; [lia|apply (v_mark t V), Ha].
    + intros b' Hb'. rewrite Etv, Esc. destruct (Nat.eqb_spec b' i) as [->|Hne']; [discriminate|].
      intros Htv Hfin i' Hi' Hri' Hne''. rewrite Esc.
      pose proof (v_relaxed t V b' Hb' Htv Hfin i' Hi' Hri' Hne'') as H0.
      destruct (Nat.eqb_spec i' i) as [->|_]; lia.
    + intros a b'. rewrite Epar, !Esc. destruct (Nat.eqb_spec a i) as [->|Hne].
      * intros [= <-]. rewrite Ebi. repeat split; try assumption; lia.
      * intros H0. destruct (v_par t V a b' H0) as (Ha & Hb' & Hab & Hra & Hfb' & Hfa & Hle).
        repeat split; try assumption; destruct (Nat.eqb_spec b' i) as [->|_]; lia.
    + intros a Ha. rewrite Esc, Epar. destruct (Nat.eqb_spec a i) as [->|_]; [discriminate|apply (v_root t V), Ha].
    + (* acyclic: i is not on the chain of b, because sc - p is strictly smaller at b *)
      destruct (v_acyc t V b Hb) as (lb & rb & Hcb).
      assert (Hnot : ~ In i lb /\ i <> rb).
      { split; [intros Hin; pose proof (chain_phi t b lb rb V Hcb i (or_introl Hin))
               |intros ->; pose proof (chain_phi t b lb rb V Hcb rb (or_intror eq_refl))]; lia. }
      destruct Hnot as [Hn1 Hn2].
      pose proof (chain_upd_notin (t_par t) i (Some b) b lb rb Hcb Hn1 Hn2) as Hcb'.
      intros a Ha. destruct (v_acyc t V a Ha) as (l & r & Hc).
      exact (chain_upd_all (t_par t) i b lb rb ltac:(rewrite (v_lpar t V); exact Hi) Hcb' a l r Hc).
  - rewrite Esc, Ebi. reflexivity.
  - rewrite Etv, Ebi. exact Htb.
  - unfold Mz. cbn [t_sc t_par t_tv].
    rewrite (zsum_point (fun a => getZ (upd (t_sc t) i (mc + scv t b)) a) (fun a => scv t a) (seq 0 n) i);
      [|apply seq_NoDup|apply in_seq; lia|intros a _ Hne; rewrite Esc; destruct (Nat.eqb_spec a i); [contradiction|reflexivity]].
    rewrite (zsum_point (fun a => if nth a (upd (t_tv t) i true) false then 1 else 0) (fun a => if tvv t a then 1 else 0) (seq 0 n) i);
      [|apply seq_NoDup|apply in_seq; lia|intros a _ Hne; rewrite Etv; destruct (Nat.eqb_spec a i); [contradiction|reflexivity]].
    rewrite Esc, Etv, Nat.eqb_refl. destruct (tvv t i); lia.
  - intros a. rewrite Esc. destruct (Nat.eqb_spec a i) as [->|_]; lia.
  - intros _ _. rewrite !Esc, Nat.eqb_refl, Ebi. fold mc. lia.
Qed.

Lemma relax_ok b t i : (b < n)%nat -> (i < n)%nat -> exists t', relax qs rm b t i = Ok t'.
Proof.
  intros Hb Hi. unfold relax. destruct (Z.gtb_spec (getZ rm i) 0) as [Hfree|Hfull]; [eexists; reflexivity|].
  assert (Hri : getZ rm i = 0) by (specialize (Hrem i); lia).
  destruct (Nat.eq_dec i b) as [->|Hib].
  - unfold moving_cost. rewrite Nat.eqb_refl. cbn [bind]. destruct (_ <? _); eexists; reflexivity.
  - rewrite (moving_cost_topc 502%nat i b Hi Hb Hib Hri). cbn [bind]. destruct (_ <? _); eexists; reflexivity.
Qed.

Lemma select_best_spec2 k t :
  match select_best k t with
  | Some b => (b < k)%nat /\ tvv t b = true /\ scv t b < INT_MAX
  | None => forall i, (i < k)%nat -> tvv t i = true -> INT_MAX <= scv t i
  end.
Proof.
  unfold select_best.
  set (f := fun (st : option nat * Z) i => if tvv t i && (scv t i <? snd st) then (Some i, scv t i) else st).
  assert (H : let st := fold_left f (seq 0 k) (None, INT_MAX) in
              match fst st with
              | Some b => (b < k)%nat /\ tvv t b = true /\ scv t b = snd st /\ snd st < INT_MAX
              | None => snd st = INT_MAX /\ forall i, (i < k)%nat -> tvv t i = true -> INT_MAX <= scv t i
              end).
  { induction k as [|k IH]; cbn zeta.
    - cbn. split; [reflexivity|intros; lia].
    - rewrite seq_S, fold_left_app. cbn [fold_left Nat.add]. cbn zeta in IH.
      set (st1 := fold_left f (seq 0 k) (None, INT_MAX)) in *.
      assert (Ef : f st1 k = if tvv t k && (scv t k <? snd st1) then (Some k, scv t k) else st1) by reflexivity.
      rewrite Ef. clear Ef. destruct (tvv t k) eqn:Etk; cbn [andb].
      + destruct (Z.ltb_spec (scv t k) (snd st1)) as [Hlt|Hge]; cbn [fst snd].
        * split; [lia|]. split; [exact Etk|]. split; [reflexivity|].
          destruct (fst st1); [destruct IH as (_ & _ & _ & H0)|destruct IH as [H0 _]]; lia.
        * destruct (fst st1) as [b|].
          -- destruct IH as (H1 & H2 & H3 & H4). repeat split; try assumption; lia.
          -- destruct IH as [H1 H2]. split; [exact H1|]. intros i Hi Hti.
             destruct (Nat.eq_dec i k) as [->|]; [lia|apply H2; [lia|exact Hti]].
      + destruct (fst st1) as [b|].
        * destruct IH as (H1 & H2 & H3 & H4). repeat split; try assumption; lia.
        * destruct IH as [H1 H2]. split; [exact H1|]. intros i Hi Hti.
          destruct (Nat.eq_dec i k) as [->|]; [congruence|apply H2; [lia|exact Hti]]. }
  cbn zeta in H. fold f. destruct (fst (fold_left f (seq 0 k) (None, INT_MAX))) as [b|].
  - destruct H as (H1 & H2 & H3 & H4). repeat split; try assumption; lia.
  - destruct H as [_ H]. exact H.
Qed.

Lemma tree_body_V t : Vinv t ->
  match tree_body qs rm t with
  | Continue t' => Vinv t' /\ Mz t' <= Mz t - 1
  | Done r => r = Ok t /\ forall a, (a < n)%nat -> tvv t a = false
  end.
Proof.
  intros V. unfold tree_body. rewrite Hlr. fold n.
  pose proof (select_best_spec2 n t) as Hsel. destruct (select_best n t) as [b|].
  2:{ split; [reflexivity|]. intros a Ha. destruct (tvv t a) eqn:E; [|reflexivity].
      pose proof (v_mark t V a Ha E). specialize (Hsel a Ha E). lia. }
  destruct Hsel as (Hb & Htb & Hfb).
  destruct (foldM_seq
    (fun k t1 => Vinv t1 /\ scv t1 b = scv t b /\ tvv t1 b = true /\ Mz t1 <= Mz t /\
                 forall i, (i < k)%nat -> getZ rm i = 0 -> i <> b -> scv t1 i <= topc qs i b + scv t1 b)
    (relax qs rm b) n 0%nat t) as (t' & E' & V' & Esb & Etb & HM & Hrel).
  - refine (conj V (conj eq_refl (conj Htb (conj (Z.le_refl _) _)))). intros; lia.
  - intros k t1 Hk (V1 & E1 & Et1 & HM1 & Hrel1).
    destruct (relax_ok b t1 k Hb ltac:(lia)) as (t2 & E2). exists t2. split; [exact E2|].
    destruct (relax_V b t1 k t2 V1 Hb Et1 ltac:(lia) ltac:(lia) E2) as (V2 & Es2 & Et2 & HM2 & Hmono & Hnew).
    split; [exact V2|]. split; [lia|]. split; [exact Et2|]. split; [lia|].
    intros i Hi Hri Hne. destruct (Nat.eq_dec i k) as [->|Hik]; [apply Hnew; assumption|].
    specialize (Hrel1 i ltac:(lia) Hri Hne). specialize (Hmono i). lia.
  - rewrite E'. cbn [Nat.add] in *.
    assert (Etv : forall a, nth a (upd (t_tv t') b false) false = if (a =? b)%nat then false else tvv t' a).
    { intros a. destruct (Nat.eqb_spec a b) as [->|Hne];
        [apply nth_upd_eq; rewrite (v_ltv t' V'); exact Hb|apply nth_upd_neq; congruence]. }
    split.
    + constructor; cbn [t_sc t_par t_tv].
      * apply (v_lsc t' V'). * apply (v_lpar t' V'). * rewrite upd_length. apply (v_ltv t' V').
      * apply (v_rng t' V'). * apply (v_free t' V'). * apply (v_lb t' V').
      * intros a Ha. rewrite Etv. destruct (Nat.eqb_spec a b); [discriminate|apply (v_mark t' V'), Ha].
      * intros b' Hb'. rewrite Etv. destruct (Nat.eqb_spec b' b) as [->|_].
        -- intros _ _ i Hi Hri Hne. apply Hrel; assumption.
        -- apply (v_relaxed t' V'), Hb'.
      * apply (v_par t' V'). * apply (v_root t' V'). * apply (v_acyc t' V').
    + unfold Mz in *. cbn [t_sc t_par t_tv].
      rewrite (zsum_point (fun a => if nth a (upd (t_tv t') b false) false then 1 else 0)
                          (fun a => if tvv t' a then 1 else 0) (seq 0 n) b);
        [|apply seq_NoDup|apply in_seq; lia|intros a _ Hne; rewrite Etv; destruct (Nat.eqb_spec a b); [contradiction|reflexivity]].
      rewrite Etv, Nat.eqb_refl, Etb. lia.
Qed.

Definition t_init : TreeSt :=
  mkT (map (fun r => if r >? 0 then 0 else INT_MAX) rm) (map (fun _ => None) rm) (map (fun r => r >? 0) rm).

Lemma t_init_sc a : (a < n)%nat -> scv t_init a = if getZ rm a >? 0 then 0 else INT_MAX.
Proof. intros Ha. unfold getZ, t_init. cbn [t_sc]. rewrite (nth_map_in _ _ a 0 0) by lia. reflexivity. Qed.
Lemma t_init_tv a : (a < n)%nat -> tvv t_init a = (getZ rm a >? 0).
Proof. intros Ha. unfold getZ, t_init. cbn [t_tv]. rewrite (nth_map_in _ _ a 0 false) by lia. reflexivity. Qed.

Lemma Vinv_init : Vinv t_init.
Proof.
  destruct Hp as (Pp1 & Pp2 & _).
  constructor.
  - cbn. rewrite map_length. exact Hlr.
  - cbn. rewrite map_length. exact Hlr.
  - cbn. rewrite map_length. exact Hlr.
  - intros a Ha. rewrite t_init_sc by exact Ha. destruct (_ >? _); unfold INT_MAX; lia.
  - intros a Ha Hf. rewrite t_init_sc by exact Ha. split; [|apply nth_map_const_none].
    destruct (Z.gtb_spec (getZ rm a) 0); [reflexivity|lia].
  - intros a Ha. rewrite t_init_sc by exact Ha. destruct (Z.gtb_spec (getZ rm a) 0) as [Hf|]; [|lia].
    intros _. rewrite (Pp2 a Ha Hf). lia.
  - intros a Ha. rewrite t_init_tv, t_init_sc by exact Ha. destruct (_ >? _); [unfold INT_MAX; lia|discriminate].
  - intros b Hb. rewrite t_init_tv, t_init_sc by exact Hb. destruct (_ >? _); [discriminate|lia].
  - intros a b H. cbn [t_init t_par] in H. rewrite nth_map_const_none in H. discriminate.
  - intros a Ha. rewrite t_init_sc by exact Ha. destruct (Z.gtb_spec (getZ rm a) 0); [intros; assumption|lia].
  - intros a _. exists [], a. constructor. apply nth_map_const_none.
Qed.

Lemma Mz_init : Mz t_init <= Z.of_nat n * (2 * INT_MAX + 1).
Proof.
  unfold Mz.
  assert (H1 : zsum (fun a => scv t_init a) (seq 0 n) <= INT_MAX * Z.of_nat (length (seq 0 n))).
  { apply zsum_le_const. intros a Ha. apply in_seq in Ha. rewrite t_init_sc by lia. destruct (_ >? _); unfold INT_MAX; lia. }
  assert (H2 : zsum (fun a => if tvv t_init a then 1 else 0) (seq 0 n) <= 1 * Z.of_nat (length (seq 0 n))).
  { apply zsum_le_const. intros a _. destruct (tvv t_init a); lia. }
  rewrite seq_length in *. unfold INT_MAX in *. lia.
Qed.

(* the postcondition of the loop *)
Definition Vfinal (t : TreeSt) : Prop := Vinv t /\ forall a, (a < n)%nat -> tvv t a = false.

Lemma tree_loop_post id f t : run_loop id f (tree_body qs rm) t_init = Ok t -> Vfinal t.
Proof.
  apply (run_loop_inv Vinv Vfinal); [exact Vinv_init|].
  intros t0 V. pose proof (tree_body_V t0 V) as H. destruct (tree_body qs rm t0) as [t1|r]; [tauto|].
  destruct H as [-> H]. split; assumption.
Qed.

Lemma tree_loop_fail id f e : run_loop id f (tree_body qs rm) t_init = Fail e -> e = EFuel id.
Proof.
  unfold run_loop.
  pose proof (loopP_inv Vinv (fun r : res TreeSt => exists t, r = Ok t) (tree_body qs rm)) as H.
  specialize (H ltac:(intros t0 V; pose proof (tree_body_V t0 V) as H0;
                      destruct (tree_body qs rm t0) as [t1|r]; [tauto|destruct H0 as [-> _]; eexists; reflexivity])
                f t_init Vinv_init).
  destruct (loopP f (tree_body qs rm) t_init) as [t1|r]; [intros [= <-]; reflexivity|].
  destruct H as (t & ->). discriminate.
Qed.

Lemma tree_loop_terminates id f : (big_fuel n <= f)%positive -> exists t, run_loop id f (tree_body qs rm) t_init = Ok t.
Proof.
  intros Hf. unfold run_loop.
  destruct (loopP_done (fun k t => Vinv t /\ Mz t <= Z.of_nat k) (tree_body qs rm)) with
    (p := f) (k := Z.to_nat (Z.of_nat n * (2 * INT_MAX + 1))) (s := t_init) as (r & Er).
  - intros k t [V HM]. pose proof (tree_body_V t V) as H. destruct (tree_body qs rm t) as [t1|r]; [|exact I].
    destruct H as [V1 HM1]. pose proof (Mz_nonneg t1 V1). exists (k - 1)%nat. split; [lia|]. split; [exact V1|lia].
  - split; [exact Vinv_init|]. pose proof Mz_init. unfold INT_MAX in *. lia.
  - apply Pos2Nat.inj_le in Hf. unfold big_fuel in Hf. unfold INT_MAX in *. lia.
  - rewrite Er.
    pose proof (loopP_inv Vinv (fun r : res TreeSt => exists t, r = Ok t) (tree_body qs rm)) as H.
    specialize (H ltac:(intros t0 V; pose proof (tree_body_V t0 V) as H0;
                        destruct (tree_body qs rm t0) as [t1|r0]; [tauto|destruct H0 as [-> _]; eexists; reflexivity])
                  f t_init Vinv_init).
    rewrite Er in H. exact H.
Qed.

(* consequences of the postcondition *)
Lemma Vfinal_Tinv t : Vfinal t -> Tinv pb rm (t_sc t) (t_par t).
Proof.
  intros [V _]. split; [|split].
  - intros a b H. destruct (v_par t V a b H) as (Ha & Hb & Hab & Hra & Hfb & _). repeat split; assumption.
  - intros a Ha Hf Hn. exact (v_root t V a Ha Hf Hn).
  - intros a Ha Hf. apply (v_free t V a Ha Hf).
Qed.

Lemma Vfinal_Tight t : Vfinal t -> Tight qs (t_sc t) (t_par t).
Proof.
  intros [V Hun] a b H. destruct (v_par t V a b H) as (Ha & Hb & Hab & Hra & Hfb & _ & Hle).
  pose proof (v_relaxed t V b Hb (Hun b Hb) Hfb a Ha Hra Hab). lia.
Qed.

Lemma Vfinal_Acyc t : Vfinal t -> Acyc pb (t_par t).
Proof. intros [V _] a Ha. exact (v_acyc t V a Ha). Qed.

Lemma Vfinal_lengths t : Vfinal t -> length (t_sc t) = n /\ length (t_par t) = n.
Proof. intros [V _]. split; [apply (v_lsc t V)|apply (v_lpar t V)]. Qed.

Lemma Vfinal_Pot t : Vfinal t -> (exists f, (f < n)%nat /\ 0 < getZ rm f) -> Pot pb al rm (fun a => scv t a).
Proof.
  intros [V Hun] (f & Hf & Hfree).
  destruct (v_free t V f Hf Hfree) as [Esf _].
  assert (Hfin : forall a, (a < n)%nat -> scv t a < INT_MAX).
  { intros a Ha. destruct (Z.lt_ge_cases 0 (getZ rm a)) as [Hfa|Hfa].
    - destruct (v_free t V a Ha Hfa) as [-> _]. unfold INT_MAX; lia.
    - assert (Hra : getZ rm a = 0) by (specialize (Hrem a); lia).
      assert (Haf : a <> f) by (intros ->; lia).
      pose proof (v_relaxed t V f Hf (Hun f Hf) ltac:(rewrite Esf; unfold INT_MAX; lia) a Ha Hra Haf) as H0.
      destruct (edge_top a f Ha Hf Haf Hra) as (e & t0 & _ & Et & _ & _ & Ec). rewrite Et, Ec, Esf in H0.
      unfold pmoving in H0. pose proof (Hcost f (snd e)). pose proof (Hcost a (snd e)). lia. }
  destruct Hp as (Pp1 & Pp2 & Pp3).
  split; [|split].
  - intros j Hj. pose proof (v_lb t V j Hj (Hfin j Hj)). specialize (Pp1 j Hj). lia.
  - intros j Hj Hfj. apply (v_free t V j Hj Hfj).
  - intros j k i Hj Hk Hi Hal.
    destruct (Nat.eq_dec j k) as [->|Hjk]; [lia|].
    destruct (Z.lt_ge_cases 0 (getZ rm j)) as [Hfj|Hfj].
    + destruct (v_free t V j Hj Hfj) as [-> _]. specialize (Pp3 j k i Hj Hk Hi Hal). rewrite (Pp2 j Hj Hfj) in Pp3.
      pose proof (v_lb t V k Hk (Hfin k Hk)). lia.
    + assert (Hrj : getZ rm j = 0) by (specialize (Hrem j); lia).
      pose proof (v_relaxed t V k Hk (Hun k Hk) (Hfin k Hk) j Hj Hrj Hjk) as H0.
      pose proof (edge_ub j k i Hj Hk Hjk Hrj Hi Hal) as H1. unfold pmoving in H1. lia.
Qed.

(* ---- updateTree with any fuel *)
Lemma update_treeF_spec tf sc0 par0 :
  match update_treeF tf (mkSt al rm sc0 par0 qs) with
  | Ok s' => alloc s' = al /\ rem s' = rm /\ queues s' = qs /\
             Tinv pb rm (scost s') (parent s') /\ Tight qs (scost s') (parent s') /\ Acyc pb (parent s') /\
             ((exists f, (f < n)%nat /\ 0 < getZ rm f) -> Pot pb al rm (getZ (scost s')))
  | Fail e => e = EFuel 483%nat /\ ~ (big_fuel n <= tf n)%positive
  end.
Proof.
  unfold update_treeF. cbn [rem queues alloc]. fold t_init. rewrite Hlr. fold n.
  destruct (run_loop 483 (tf n) (tree_body qs rm) t_init) as [t|e] eqn:E; cbn [bind].
  - pose proof (tree_loop_post _ _ _ E) as HF. cbn [alloc rem queues scost parent].
    split; [reflexivity|]. split; [reflexivity|]. split; [reflexivity|].
    split; [apply Vfinal_Tinv, HF|]. split; [apply Vfinal_Tight, HF|]. split; [apply Vfinal_Acyc, HF|].
    intros Hex. exact (Vfinal_Pot t HF Hex).
  - split; [exact (tree_loop_fail _ _ _ E)|]. intros Hbig.
    destruct (tree_loop_terminates 483%nat (tf n) Hbig) as (t & Et). congruence.
Qed.

End Tree.
