(* DetailedPlacement::fromIspdCircuit never throws on a legal circuit of the C01 domain (with rows,
   and with the orientations check() insists on), and the structure it builds satisfies the row
   invariant of MovesProofs.v and holds exactly the movable row-high cells at their positions. *)
From Coq Require Import List ZArith Lia Bool Arith.
Import ListNotations.
Require Import CV.Orient CV.FreeSpace CV.FreeSpaceProofs CV.Circuit CV.CircuitProofs CV.Moves CV.MovesProofs.
Require Import CV.Legalizer CV.LegalizerSoundProofs.
Require Import CV.DetailedInit.
Local Open Scope Z_scope.

(* ------------------------------------------------------------------ *)
(* an x-range that is free stays inside ONE free interval *)
Definition covers (l : list iv) (u v : Z) : Prop := exists a b, In (a, b) l /\ a <= u /\ v <= b.

Lemma subtract_covers a b l u v :
  u < v -> (v <= a \/ b <= u) -> covers l u v -> covers (subtract a b l) u v.
Proof.
  intros Huv Hd (x & y & Hin & Hx & Hy). induction l as [|[lo hi] l IH]; [destruct Hin|].
  cbn [subtract]. destruct Hin as [E|Hin].
  - injection E as -> ->. destruct Hd as [Hd|Hd].
    + exists x, (Z.min y a). split; [|lia]. apply in_or_app. left.
      destruct (x <? Z.min y a) eqn:E; [left; reflexivity|apply Z.ltb_ge in E; lia].
    + exists (Z.max x b), y. split; [|lia]. apply in_or_app; right; apply in_or_app; left.
      destruct (Z.max x b <? y) eqn:E; [left; reflexivity|apply Z.ltb_ge in E; lia].
  - destruct (IH Hin) as (x' & y' & H1 & H2). exists x', y'. split; [|exact H2].
    apply in_or_app; right; apply in_or_app; right; exact H1.
Qed.

Lemma freespace_covers rw obs u v :
  minX rw <= u -> u < v -> v <= maxX rw -> minY rw < maxY rw ->
  (forall o, In o obs -> blocks rw o = true -> v <= minX o \/ maxX o <= u) ->
  covers (freespace_iv rw obs) u v.
Proof.
  intros H1 H2 H3 H4 Hall. unfold freespace_iv.
  replace ((minX rw <? maxX rw) && (minY rw <? maxY rw)) with true
    by (symmetry; apply andb_true_iff; split; apply Z.ltb_lt; lia).
  assert (G : forall l, covers l u v ->
     covers (fold_left (fun l o => if blocks rw o then subtract (minX o) (maxX o) l else l) obs l) u v).
  { induction obs as [|o obs IH]; intros l Hl; cbn [fold_left]; [exact Hl|].
    apply IH; [intros o' Ho'; apply Hall; right; exact Ho'|].
    destruct (blocks rw o) eqn:B; [|exact Hl].
    apply subtract_covers; [exact H2|apply Hall; [left; reflexivity|exact B]|exact Hl]. }
  apply G. exists (minX rw), (maxX rw). split; [left; reflexivity|lia].
Qed.

Lemma covers_clear rw obs u v o :
  covers (freespace_iv rw obs) u v -> u < v -> In o obs -> blocks rw o = true ->
  v <= minX o \/ maxX o <= u.
Proof.
  intros (a & b & Hin & Ha & Hb) Huv Ho B.
  destruct (Z_le_gt_dec v (minX o)) as [|G1]; [left; assumption|].
  destruct (Z_le_gt_dec (maxX o) u) as [|G2]; [right; assumption|]. exfalso.
  assert (Hbx : minX o < maxX o).
  { unfold blocks in B. apply andb_true_iff in B as [B _]. apply andb_true_iff in B as [B _].
    apply andb_true_iff in B as [B _]. apply Z.ltb_lt in B. exact B. }
  assert (Hiv : in_ivs (Z.max u (minX o)) (freespace_iv rw obs)).
  { exists (a, b). split; [exact Hin|]. unfold in_iv. cbn [fst snd]. lia. }
  apply freespace_exact in Hiv as (_ & _ & Hall). apply (Hall o Ho B). lia.
Qed.

(* ------------------------------------------------------------------ *)
(* placements *)
Lemma placement_of_eq k :
  placement_of k = {| minX := c_x k; maxX := c_x k + placed_w k; minY := c_y k; maxY := c_y k + placed_h k |}.
Proof. unfold placement_of, cell_placement, placed_w, placed_h. destruct (is_turn (c_o k)); reflexivity. Qed.

Lemma pd_In {A} (f : A -> rect) l a b :
  pairwise_disjoint (map f l) -> In a l -> In b l -> a <> b -> disjoint_rects (f a) (f b).
Proof.
  induction l as [|x l IH]; cbn [map pairwise_disjoint In]; [tauto|].
  intros [H1 H2] [->|Ha] [->|Hb] Hne.
  - congruence.
  - apply H1. apply in_map. exact Hb.
  - apply disjoint_rects_sym. apply H1. apply in_map. exact Ha.
  - apply IH; assumption.
Qed.

Definition fixed_cells (c : circuit) := map (fun k => (placement_of k, c_fixed k, c_obs k)) (cells c).

Lemma dp_rows_In c rh s :
  In s (dp_rows c rh) <->
  exists r, In r (rows c) /\ In s (freespace_rows r (obstacles_of (dp_obstacles rh (cells c)) (fixed_cells c))).
Proof. unfold dp_rows, compute_rows. rewrite in_flat_map. reflexivity. Qed.

Lemma dp_rows_pd c rh : pairwise_disjoint (map rr (rows c)) -> pairwise_disjoint (map rr (dp_rows c rh)).
Proof.
  intros H. unfold dp_rows, compute_rows. apply pd_flat_map; [exact H|]. intros r _. split.
  - apply freespace_rows_pd.
  - intros s. apply freespace_rows_inside.
Qed.

Lemma dp_obstacles_In rh cs o :
  In o (dp_obstacles rh cs) -> exists k, In k cs /\ c_fixed k = false /\ placed_h k <> rh /\ o = placement_of k.
Proof.
  unfold dp_obstacles. rewrite in_flat_map. intros (k & Hk & Ho). exists k. split; [exact Hk|].
  destruct (c_fixed k); [destruct Ho|]. destruct (Z.eqb_spec (placed_h k) rh) as [|Hne]; cbn [negb] in Ho; [destruct Ho|].
  destruct Ho as [<-|[]]. tauto.
Qed.

(* the kept cells: movable and exactly one row high *)
Definition kept (rh : Z) (k : ccell) : Prop := c_fixed k = false /\ placed_h k = rh.

Lemma movable_In c k : In k (movable c) <-> In k (cells c) /\ c_fixed k = false.
Proof. unfold movable. rewrite filter_In. rewrite negb_true_iff. reflexivity. Qed.

(* a kept cell of a legal circuit lies inside one segment of the rows the constructor receives *)
Lemma kept_has_segment c rh k :
  std_design c rh -> row_height c = Some rh -> legal c -> In k (cells c) -> kept rh k ->
  exists s r, In s (dp_rows c rh) /\ In r (rows c) /\ ro s = ro r /\ inside (rr s) (rr r) /\
              minY (rr s) = c_y k /\ maxY (rr s) = c_y k + rh /\
              minX (rr s) <= c_x k /\ c_x k + placed_w k <= maxX (rr s) /\ 0 < placed_w k.
Proof.
  intros (Hrh & Hheight & Hpd & Hturn & Hmov) HRH HL Hk [Hfx Hh].
  unfold legal in HL. rewrite HRH in HL. destruct HL as (_ & Hleg & Hdis).
  assert (Hkm : In k (movable c)) by (apply movable_In; tauto).
  destruct (Hleg k Hkm) as (Hx & n & Hn & Hnh & _ & Hstrips).
  rewrite placement_of_eq in Hx, Hnh, Hstrips. cbn [minX maxX minY maxY] in Hx, Hnh, Hstrips.
  assert (n = 1%nat) by nia. subst n.
  destruct (Hstrips O ltac:(lia)) as (s0 & Hs0 & Y0 & Y1 & X0 & X1). cbn [minX maxX minY maxY] in Y0, Y1, X0, X1.
  unfold free_rows, compute_rows in Hs0. apply in_flat_map in Hs0 as (r & Hr & Hs0).
  pose proof (freespace_rows_shape _ _ _ Hs0) as (S1 & S2 & S3 & S4 & S5 & S6).
  pose proof (Hheight r Hr) as Hrr.
  assert (C0 : covers (freespace_iv (rr r) (obstacles_of [] (fixed_cells c))) (c_x k) (c_x k + placed_w k)).
  { unfold freespace_rows in Hs0. apply in_map_iff in Hs0 as ([a b] & <- & Hin). cbn [rr minX maxX fst snd] in *.
    exists a, b. split; [exact Hin|lia]. }
  assert (C1 : covers (freespace_iv (rr r) (obstacles_of (dp_obstacles rh (cells c)) (fixed_cells c)))
                      (c_x k) (c_x k + placed_w k)).
  { apply freespace_covers; try lia. intros o Ho B. unfold obstacles_of in Ho. apply in_app_or in Ho as [Ho|Ho].
    - apply dp_obstacles_In in Ho as (k' & Hk' & Hfx' & Hh' & ->).
      assert (Hne : k <> k') by (intros ->; congruence).
      assert (Hk'm : In k' (movable c)) by (apply movable_In; tauto).
      pose proof (pd_In placement_of _ _ _ Hdis Hkm Hk'm Hne) as D.
      unfold blocks in B. rewrite (placement_of_eq k) in D. unfold disjoint_rects in D. cbn [minX maxX minY maxY] in D.
      apply andb_true_iff in B as [B B4]. apply andb_true_iff in B as [B B3]. apply andb_true_iff in B as [B1 B2].
      apply Z.ltb_lt in B1, B2, B3, B4. lia.
    - eapply covers_clear; [exact C0|lia| |exact B]. unfold obstacles_of. cbn [app]. exact Ho. }
  destruct C1 as (a & b & Hin & Ha & Hb).
  set (s := {| rr := {| minX := a; maxX := b; minY := minY (rr r); maxY := maxY (rr r) |}; ro := ro r |}).
  assert (Hs : In s (freespace_rows r (obstacles_of (dp_obstacles rh (cells c)) (fixed_cells c)))).
  { unfold freespace_rows. apply in_map_iff. exists (a, b). split; [reflexivity|exact Hin]. }
  exists s, r. split; [apply dp_rows_In; exists r; split; assumption|]. split; [exact Hr|]. split; [reflexivity|].
  split; [apply freespace_rows_inside in Hs; exact Hs|]. cbn [s rr minX maxX minY maxY]. lia.
Qed.

(* ------------------------------------------------------------------ *)
(* the rows are sorted by (minY, minX) *)
Definition key_le (a b : rect) : Prop := minY a < minY b \/ (minY a = minY b /\ minX a <= minX b).

Fixpoint lsorted (l : list row) : Prop :=
  match l with
  | [] => True
  | a :: t => Forall (fun b => key_le (rr a) (rr b)) t /\ lsorted t
  end.

Lemma key_le_trans a b c : key_le a b -> key_le b c -> key_le a c.
Proof. unfold key_le. lia. Qed.

Lemma insert_row_lsorted r l : lsorted l -> lsorted (insert_row r l).
Proof.
  induction l as [|x l IH]; cbn [insert_row lsorted]; [intros _; split; [constructor|exact I]|].
  intros [H1 H2]. destruct (_ || _) eqn:E.
  - assert (K : key_le (rr r) (rr x)).
    { apply orb_true_iff in E as [E|E]; [apply Z.ltb_lt in E; left; exact E|].
      apply andb_true_iff in E as [E1 E2]. apply Z.eqb_eq in E1. apply Z.ltb_lt in E2. right. lia. }
    cbn [lsorted]. split; [|split; assumption]. constructor; [exact K|].
    rewrite Forall_forall in *. intros b Hb. eapply key_le_trans; [exact K|apply H1; exact Hb].
  - assert (K : key_le (rr x) (rr r)).
    { apply orb_false_iff in E as [E1 E2]. apply Z.ltb_ge in E1. unfold key_le.
      destruct (Z.eqb_spec (minY (rr r)) (minY (rr x))) as [Ey|Ey]; cbn [andb] in E2; [apply Z.ltb_ge in E2; lia|lia]. }
    cbn [lsorted]. split; [|apply IH; exact H2].
    rewrite Forall_forall in *. intros b Hb. apply insert_row_In in Hb as [->|Hb]; [exact K|apply H1; exact Hb].
Qed.

Lemma sort_rows_lsorted l : lsorted (sort_rows l).
Proof.
  induction l as [|x l IH]; cbn [sort_rows fold_right]; [exact I|]. fold (sort_rows l).
  apply insert_row_lsorted. exact IH.
Qed.

Lemma lsorted_app l1 s l2 : lsorted (l1 ++ s :: l2) ->
  (forall a, In a l1 -> key_le (rr a) (rr s)) /\ (forall b, In b l2 -> key_le (rr s) (rr b)).
Proof.
  induction l1 as [|x l1 IH]; cbn [app lsorted].
  - intros [H _]. split; [intros a []|]. rewrite Forall_forall in H. exact H.
  - intros [H1 H2]. destruct (IH H2) as [A B]. split; [|exact B].
    intros a [<-|Ha]; [|apply A; exact Ha]. rewrite Forall_forall in H1. apply H1. apply in_or_app. right. left. reflexivity.
Qed.

(* ------------------------------------------------------------------ *)
(* the search *)
Lemma row_before_split l1 : forall s l2 x y i prev,
  (forall a, In a l1 -> val_lt x y (rr a) = false) -> val_lt x y (rr s) = false ->
  match l2 with [] => True | t :: _ => val_lt x y (rr t) = true end ->
  row_before (l1 ++ s :: l2) x y i prev = Some ((i + length l1)%nat, s).
Proof.
  induction l1 as [|a l1 IH]; intros s l2 x y i prev H1 Hs H2; cbn [app row_before length].
  - rewrite Hs. destruct l2 as [|t l2]; cbn [row_before]; [|rewrite H2]; rewrite Nat.add_0_r; reflexivity.
  - rewrite (H1 a (or_introl eq_refl)). rewrite (IH s l2 x y (S i) _); [f_equal; f_equal; lia| |exact Hs|exact H2].
    intros b Hb. apply H1. right. exact Hb.
Qed.

Lemma row_before_nth rws : forall x y i prev j r,
  row_before rws x y i prev = Some (j, r) ->
  prev = Some (j, r) \/ ((i <= j)%nat /\ nth_error rws (j - i) = Some r).
Proof.
  induction rws as [|a t IH]; intros x y i prev j r; cbn [row_before]; [intros ->; left; reflexivity|].
  destruct (val_lt x y (rr a)); [intros ->; left; reflexivity|].
  intros H. apply IH in H as [[= <- <-]|[H1 H2]].
  - right. split; [lia|]. rewrite Nat.sub_diag. reflexivity.
  - right. split; [lia|]. replace (j - i)%nat with (S (j - S i)) by lia. exact H2.
Qed.

(* what a successful search guarantees (the three tests of the constructor) *)
Lemma locate_sound rws i d j : locate rws i d = DOk j ->
  exists r, nth_error rws j = Some r /\ minY (rr r) = dc_y d /\ minX (rr r) <= dc_x d /\ dc_x d + dc_w d <= maxX (rr r).
Proof.
  unfold locate. destruct (row_before rws (dc_x d) (dc_y d) 0 None) as [[rowi r]|] eqn:E; [|discriminate].
  destruct (Z.eqb_spec (minY (rr r)) (dc_y d)) as [Ey|]; cbn [negb]; [|discriminate].
  destruct (Z.ltb_spec (dc_x d) (minX (rr r))); [discriminate|].
  destruct (Z.ltb_spec (maxX (rr r)) (dc_x d + dc_w d)); [discriminate|].
  intros [= <-]. apply row_before_nth in E as [E|[_ E]]; [discriminate|].
  rewrite Nat.sub_0_r in E. exists r. repeat split; try assumption.
Qed.

(* in sorted, pairwise disjoint rows of one positive height the search finds THE segment that holds
   the cell *)
Lemma locate_finds rws rh i d s :
  lsorted rws -> pairwise_disjoint (map rr rws) -> 0 < rh ->
  (forall r, In r rws -> maxY (rr r) - minY (rr r) = rh /\ minX (rr r) < maxX (rr r)) ->
  In s rws -> minY (rr s) = dc_y d -> minX (rr s) <= dc_x d -> dc_x d + dc_w d <= maxX (rr s) -> 0 < dc_w d ->
  exists j, locate rws i d = DOk j /\ nth_error rws j = Some s.
Proof.
  intros Hs Hpd Hrh Hshape Hin Y X0 X1 W.
  apply in_split in Hin as (l1 & l2 & ->). destruct (lsorted_app _ _ _ Hs) as [A B].
  assert (E : row_before (l1 ++ s :: l2) (dc_x d) (dc_y d) 0 None = Some (length l1, s)).
  { rewrite (row_before_split l1 s l2 (dc_x d) (dc_y d) 0 None); [reflexivity| | |].
    - intros a Ha. specialize (A a Ha). unfold key_le in A. unfold val_lt.
      apply orb_false_iff. split; [apply Z.ltb_ge; lia|].
      destruct (Z.eqb_spec (dc_y d) (minY (rr a))); cbn [andb]; [apply Z.ltb_ge; lia|reflexivity].
    - unfold val_lt. apply orb_false_iff. split; [apply Z.ltb_ge; lia|].
      destruct (Z.eqb_spec (dc_y d) (minY (rr s))); cbn [andb]; [apply Z.ltb_ge; lia|reflexivity].
    - destruct l2 as [|t l2]; [exact I|].
      specialize (B t (or_introl eq_refl)). unfold key_le in B. unfold val_lt.
      destruct B as [B|[B1 B2]]; [apply orb_true_iff; left; apply Z.ltb_lt; lia|].
      rewrite map_app in Hpd. apply pd_app in Hpd as (_ & Hpd & _). cbn [map pairwise_disjoint] in Hpd.
      destruct Hpd as [D _]. specialize (D (rr t) (or_introl eq_refl)).
      destruct (Hshape s) as [Hs1 Hs2]; [apply in_or_app; right; left; reflexivity|].
      destruct (Hshape t) as [Ht1 Ht2]; [apply in_or_app; right; right; left; reflexivity|].
      unfold disjoint_rects in D. apply orb_true_iff. right. apply andb_true_iff.
      split; [apply Z.eqb_eq; lia|apply Z.ltb_lt; lia]. }
  exists (length l1). split.
  - unfold locate. rewrite E.
    destruct (Z.eqb_spec (minY (rr s)) (dc_y d)); cbn [negb]; [|contradiction].
    destruct (Z.ltb_spec (dc_x d) (minX (rr s))); [lia|].
    destruct (Z.ltb_spec (maxX (rr s)) (dc_x d + dc_w d)); [lia|]. reflexivity.
  - rewrite nth_error_app2 by lia. rewrite Nat.sub_diag. reflexivity.
Qed.

(* ------------------------------------------------------------------ *)
(* the loop over the cells *)
Fixpoint ids_inc (lo : nat) (l : list pcell) : Prop :=
  match l with [] => True | a :: t => (lo <= p_id a)%nat /\ ids_inc (S (p_id a)) t end.

Lemma ids_inc_weaken lo lo' l : (lo' <= lo)%nat -> ids_inc lo l -> ids_inc lo' l.
Proof. destruct l as [|a t]; cbn [ids_inc]; [tauto|]. intros H [H1 H2]. split; [lia|exact H2]. Qed.

Lemma ids_inc_In lo l b : ids_inc lo l -> In b l -> (lo <= p_id b)%nat.
Proof.
  revert lo. induction l as [|a t IH]; intros lo; cbn [ids_inc In]; [tauto|].
  intros [H1 H2] [<-|Hb]; [exact H1|]. specialize (IH _ H2 Hb). lia.
Qed.

Lemma ids_inc_filter (f : nat * pcell -> bool) l : forall lo,
  ids_inc lo (map snd l) -> ids_inc lo (map snd (filter f l)).
Proof.
  induction l as [|a t IH]; intros lo; cbn [map filter ids_inc]; [tauto|].
  intros [H1 H2]. destruct (f a); cbn [map ids_inc].
  - split; [exact H1|apply IH; exact H2].
  - apply IH. eapply ids_inc_weaken; [|exact H2]. lia.
Qed.

Lemma locate_all_ok rws ds : forall i0,
  (forall k d, nth_error ds k = Some d -> dc_w d <> -1 -> exists j, locate rws (i0 + k) d = DOk j) ->
  exists l, locate_all rws i0 ds = DOk l.
Proof.
  induction ds as [|d t IH]; intros i0 H; cbn [locate_all]; [eexists; reflexivity|].
  destruct (IH (S i0)) as (l & Hl).
  { intros k d' Hk Hw. destruct (H (S k) d' Hk Hw) as (j & Hj). exists j. rewrite <- Hj. f_equal. lia. }
  destruct (Z.eqb_spec (dc_w d) (-1)) as [|Hw]; [exists l; exact Hl|].
  destruct (H O d eq_refl Hw) as (j & Hj). rewrite Nat.add_0_r in Hj. rewrite Hj, Hl. eexists; reflexivity.
Qed.

Lemma locate_all_spec rws ds : forall i0 l, locate_all rws i0 ds = DOk l ->
  ids_inc i0 (map snd l) /\
  (forall j p, In (j, p) l -> exists k d, nth_error ds k = Some d /\ dc_w d <> -1 /\
                                          p = pcell_of (i0 + k) d /\ locate rws (i0 + k) d = DOk j) /\
  (forall k d, nth_error ds k = Some d -> dc_w d <> -1 -> exists j, In (j, pcell_of (i0 + k) d) l).
Proof.
  induction ds as [|d t IH]; intros i0 l; cbn [locate_all].
  - intros [= <-]. split; [exact I|]. split; [intros j p []|]. intros [|k] d; discriminate.
  - destruct (Z.eqb_spec (dc_w d) (-1)) as [Ew|Hw].
    + intros H. destruct (IH _ _ H) as (A & B & C). split; [eapply ids_inc_weaken; [|exact A]; lia|]. split.
      * intros j p Hin. destruct (B j p Hin) as (k & d' & K1 & K2 & K3 & K4). exists (S k), d'.
        replace (i0 + S k)%nat with (S i0 + k)%nat by lia. tauto.
      * intros [|k] d' Hk Hw'; cbn [nth_error] in Hk; [injection Hk as <-; contradiction|].
        destruct (C k d' Hk Hw') as (j & Hj). exists j. replace (i0 + S k)%nat with (S i0 + k)%nat by lia. exact Hj.
    + destruct (locate rws i0 d) as [j0|e] eqn:L0; [|discriminate].
      destruct (locate_all rws (S i0) t) as [l'|e] eqn:L; [|discriminate]. intros [= <-].
      destruct (IH _ _ L) as (A & B & C). split; [cbn [map snd ids_inc pcell_of p_id]; split; [lia|exact A]|]. split.
      * intros j p [[= <- <-]|Hin].
        -- exists O, d. rewrite Nat.add_0_r. tauto.
        -- destruct (B j p Hin) as (k & d' & K1 & K2 & K3 & K4). exists (S k), d'.
           replace (i0 + S k)%nat with (S i0 + k)%nat by lia. tauto.
      * intros [|k] d' Hk Hw'; cbn [nth_error] in Hk.
        -- injection Hk as <-. exists j0. left. rewrite Nat.add_0_r. reflexivity.
        -- destruct (C k d' Hk Hw') as (j & Hj). exists j. right.
           replace (i0 + S k)%nat with (S i0 + k)%nat by lia. exact Hj.
Qed.

(* ------------------------------------------------------------------ *)
(* sorting a row's cells *)
Definition xdisj (a b : pcell) : Prop := p_x a + p_w a <= p_x b \/ p_x b + p_w b <= p_x a.

Fixpoint pwx (l : list pcell) : Prop :=
  match l with [] => True | a :: t => (forall b, In b t -> xdisj a b) /\ pwx t end.

Lemma insert_x_In c l b : In b (insert_x c l) <-> b = c \/ In b l.
Proof.
  induction l as [|a t IH]; cbn [insert_x In].
  - split; [intros [<-|[]]; left; reflexivity|intros [->|[]]; left; reflexivity].
  - destruct (p_x a <? p_x c); cbn [In].
    + rewrite IH. split; [intros [<-|[->|H]]|intros [->|[<-|H]]]; auto.
    + split; [intros [<-|H]|intros [->|H]]; auto.
Qed.

Lemma sort_x_In l b : In b (sort_x l) <-> In b l.
Proof.
  induction l as [|a t IH]; cbn [sort_x fold_right In]; [tauto|]. fold (sort_x t).
  rewrite insert_x_In, IH. split; intros [H|H]; auto.
Qed.

Lemma insert_chain hi c l : forall lo,
  chain lo hi l -> Forall (fun b => 0 < p_w b) l ->
  lo <= p_x c -> p_x c + p_w c <= hi -> 0 < p_w c -> (forall b, In b l -> xdisj c b) ->
  chain lo hi (insert_x c l).
Proof.
  induction l as [|a t IH]; intros lo Hc Hw L H W D; cbn [insert_x chain] in *; [lia|].
  destruct Hc as (H1 & H2 & H3). inversion Hw as [|? ? Wa Wt]; subst.
  pose proof (D a (or_introl eq_refl)) as Da. unfold xdisj in Da.
  destruct (Z.ltb_spec (p_x a) (p_x c)); cbn [chain].
  - split; [exact H1|]. split; [exact H2|]. apply IH; try assumption; [lia|].
    intros b Hb. apply D. right. exact Hb.
  - split; [exact L|]. split; [lia|]. split; [lia|]. split; [exact H2|exact H3].
Qed.

Lemma sort_chain lo hi l :
  lo <= hi -> Forall (fun p => lo <= p_x p /\ p_x p + p_w p <= hi /\ 0 < p_w p) l -> pwx l ->
  chain lo hi (sort_x l) /\ Forall (fun b => 0 < p_w b) (sort_x l).
Proof.
  intros Hlh. induction l as [|a t IH]; cbn [sort_x fold_right pwx]; [intros _ _; split; [exact Hlh|constructor]|].
  fold (sort_x t). intros HF [D P]. inversion HF as [|? ? (A1 & A2 & A3) HF']; subst.
  destruct (IH HF' P) as [C W]. split.
  - apply insert_chain; try assumption. intros b Hb. apply D. apply sort_x_In. exact Hb.
  - rewrite Forall_forall in *. intros b Hb. apply insert_x_In in Hb as [->|Hb]; [exact A3|apply W; exact Hb].
Qed.

Lemma pwx_of_ids l : forall lo, ids_inc lo l ->
  (forall a b, In a l -> In b l -> p_id a <> p_id b -> xdisj a b) -> pwx l.
Proof.
  induction l as [|a t IH]; intros lo; cbn [ids_inc pwx]; [tauto|].
  intros [H1 H2] D. split.
  - intros b Hb. apply D; [left; reflexivity|right; exact Hb|]. pose proof (ids_inc_In _ _ _ H2 Hb). lia.
  - apply (IH _ H2). intros x y Hx Hy. apply D; right; assumption.
Qed.

(* the two position tests follow from the row invariant *)
Lemma chain_no_overlap lo hi l : chain lo hi l -> no_overlap l = true.
Proof.
  revert lo. induction l as [|a t IH]; intros lo; cbn [chain no_overlap]; [reflexivity|].
  intros (H1 & H2 & H3). destruct t as [|b t']; [reflexivity|].
  apply andb_true_iff. split; [|eapply IH; exact H3]. cbn [chain] in H3. apply Z.leb_le. lia.
Qed.

Lemma chain_check_chain hi l : forall lo, chain lo hi l -> check_chain lo hi l = true.
Proof.
  induction l as [|a t IH]; intros lo; cbn [chain check_chain]; [reflexivity|].
  intros (H1 & H2 & H3). rewrite (IH _ H3). rewrite andb_true_r. apply andb_true_iff. split; [apply Z.leb_le; exact H1|].
  destruct t as [|b t']; [|reflexivity]. cbn [chain] in H3. apply Z.leb_le. exact H3.
Qed.

(* ------------------------------------------------------------------ *)
(* the rows built *)
Lemma build_rows_In rws asg : forall j0 dr,
  In dr (build_rows rws j0 asg) <-> exists k s, nth_error rws k = Some s /\ dr = mk_drow s (row_cells asg (j0 + k)).
Proof.
  induction rws as [|r t IH]; intros j0 dr; cbn [build_rows In].
  - split; [intros []|intros ([|k] & s & H & _); discriminate].
  - rewrite IH. split.
    + intros [<-|(k & s & H1 & H2)].
      * exists O, r. rewrite Nat.add_0_r. split; reflexivity.
      * exists (S k), s. replace (j0 + S k)%nat with (S j0 + k)%nat by lia. split; assumption.
    + intros ([|k] & s & H1 & H2); cbn [nth_error] in H1.
      * injection H1 as <-. left. rewrite Nat.add_0_r in H2. symmetry. exact H2.
      * right. exists k, s. replace (S j0 + k)%nat with (j0 + S k)%nat by lia. split; assumption.
Qed.

Lemma row_cells_In asg j p : In p (row_cells asg j) <-> In (j, p) asg.
Proof.
  unfold row_cells. rewrite sort_x_In, in_map_iff. split.
  - intros ([j' p'] & E & Hin). cbn [snd] in E. subst p'. apply filter_In in Hin as [Hin Hj].
    cbn [fst] in Hj. apply Nat.eqb_eq in Hj. subst j'. exact Hin.
  - intros Hin. exists (j, p). split; [reflexivity|]. apply filter_In. split; [exact Hin|]. cbn [fst]. apply Nat.eqb_refl.
Qed.

Lemma pd_filter_nth {A} (f : A -> rect) (g : A -> bool) l : pairwise_disjoint (map f (filter g l)) ->
  forall i j a b, i <> j -> nth_error l i = Some a -> nth_error l j = Some b -> g a = true -> g b = true ->
  disjoint_rects (f a) (f b).
Proof.
  induction l as [|x t IH]; intros Hpd i j a b Hne Hi Hj Ga Gb; [destruct i; discriminate|].
  cbn [filter] in Hpd. destruct i as [|i], j as [|j]; cbn [nth_error] in Hi, Hj; try lia.
  - injection Hi as ->. rewrite Ga in Hpd. cbn [map pairwise_disjoint] in Hpd. destruct Hpd as [H1 _].
    apply H1. apply in_map. apply filter_In. split; [eapply nth_error_In; exact Hj|exact Gb].
  - injection Hj as ->. rewrite Gb in Hpd. cbn [map pairwise_disjoint] in Hpd. destruct Hpd as [H1 _].
    apply disjoint_rects_sym. apply H1. apply in_map. apply filter_In. split; [eapply nth_error_In; exact Hi|exact Ga].
  - apply (IH ltac:(destruct (g x); [exact (proj2 Hpd)|exact Hpd]) i j); try assumption. lia.
Qed.

(* ------------------------------------------------------------------ *)
(* the main theorem *)

(* what check() demands of the orientations: a kept cell has the orientation the table gives for
   the row under its bottom-left corner, when the table gives one *)
Definition orient_pre (c : circuit) (rh : Z) : Prop :=
  forall k, In k (cells c) -> kept rh k ->
  forall r, In r (rows c) -> minY (rr r) = c_y k -> minX (rr r) <= c_x k < maxX (rr r) ->
  cell_orientation_in_row (c_pol k) (ro r) = oUNKNOWN \/ c_o k = cell_orientation_in_row (c_pol k) (ro r).

(* the cell of the abstract structure that stands for circuit cell number i *)
Definition cell_image (i : nat) (k : ccell) : pcell :=
  {| p_id := i; p_x := c_x k; p_w := placed_w k; p_pol := c_pol k; p_o := c_o k |}.

Lemma dp_width_kept rh k : kept rh k -> dp_width rh k = placed_w k.
Proof. intros [H1 H2]. unfold dp_width. rewrite H1. rewrite (proj2 (Z.eqb_eq _ _) H2). reflexivity. Qed.

Lemma dp_width_not_ignored rh k : dp_width rh k <> -1 -> kept rh k.
Proof.
  unfold dp_width, kept. destruct (c_fixed k); [congruence|].
  destruct (Z.eqb_spec (placed_h k) rh); cbn [negb]; [tauto|congruence].
Qed.

Lemma pcell_of_kept rh i k : kept rh k -> pcell_of i (dcell_of rh k) = cell_image i k.
Proof. intros H. unfold pcell_of, dcell_of, cell_image. cbn. rewrite (dp_width_kept _ _ H). reflexivity. Qed.

Lemma sorted_rows_shape c rh s :
  std_design c rh -> In s (sort_rows (dp_rows c rh)) ->
  maxY (rr s) - minY (rr s) = rh /\ minX (rr s) < maxX (rr s) /\
  exists r, In r (rows c) /\ ro s = ro r /\ inside (rr s) (rr r) /\ minY (rr s) = minY (rr r).
Proof.
  intros (Hrh & Hheight & _) Hs. apply (proj1 (sort_rows_In _ _)) in Hs. apply (proj1 (dp_rows_In _ _ _)) in Hs as (r & Hr & Hs).
  pose proof (freespace_rows_shape _ _ _ Hs) as (S1 & S2 & S3 & S4 & S5 & S6). pose proof (Hheight r Hr).
  split; [lia|]. split; [exact S5|]. exists r. split; [exact Hr|]. split; [exact S3|]. split; [|exact S1].
  apply freespace_rows_inside in Hs. exact Hs.
Qed.

Lemma kept_placed_w_pos c rh k : std_design c rh -> In k (cells c) -> kept rh k -> 0 < placed_w k.
Proof.
  intros (_ & _ & _ & _ & Hmov) Hk [Hfx _]. destruct (Hmov k) as (H & _); [apply movable_In; tauto|].
  rewrite placement_of_eq in H. cbn [minX maxX] in H. lia.
Qed.

(* every kept cell is located, in the segment that holds it *)
Lemma kept_located c rh i k :
  std_design c rh -> row_height c = Some rh -> legal c -> In k (cells c) -> kept rh k ->
  exists j s, locate (sort_rows (dp_rows c rh)) i (dcell_of rh k) = DOk j /\
              nth_error (sort_rows (dp_rows c rh)) j = Some s.
Proof.
  intros SD HRH HL Hk Hkept.
  destruct (kept_has_segment c rh k SD HRH HL Hk Hkept) as (s & r & Hs & Hr & _ & _ & Y0 & _ & X0 & X1 & W).
  destruct (locate_finds (sort_rows (dp_rows c rh)) rh i (dcell_of rh k) s) as (j & L & N).
  - apply sort_rows_lsorted.
  - apply pd_sort. apply dp_rows_pd. destruct SD as (_ & _ & Hpd & _). exact Hpd.
  - destruct SD as (Hrh & _). exact Hrh.
  - intros r' Hr'. destruct (sorted_rows_shape c rh r' SD Hr') as (A & B & _). split; assumption.
  - apply sort_rows_In. exact Hs.
  - cbn [dcell_of dc_y]. exact Y0.
  - cbn [dcell_of dc_x]. exact X0.
  - cbn [dcell_of dc_x dc_w]. rewrite (dp_width_kept _ _ Hkept). exact X1.
  - cbn [dcell_of dc_w]. rewrite (dp_width_kept _ _ Hkept). exact W.
  - exists j, s. split; assumption.
Qed.

Definition row_geom (r : drow) : Z * Z * Z * orient := (dr_min r, dr_max r, dr_y r, dr_o r).
Definition seg_geom (s : row) : Z * Z * Z * orient := (minX (rr s), maxX (rr s), minY (rr s), ro s).

Lemma build_rows_geom rws asg : forall j0, map row_geom (build_rows rws j0 asg) = map seg_geom rws.
Proof. induction rws as [|r t IH]; intros j0; cbn [build_rows map]; [reflexivity|]. rewrite IH. reflexivity. Qed.

Lemma from_circuit_accepts_legal_rows c rh :
  std_design c rh -> rows c <> [] -> legal c -> orient_pre c rh ->
  exists s, from_circuit c = DOk s /\ Inv s /\ d_loose s = [] /\
    (* the rows are the free segments left by the fixed obstructions and the off-height movable cells *)
    map row_geom (d_rows s) = map seg_geom (sort_rows (dp_rows c rh)) /\
    (* every movable row-high cell is there, at its position, in a row at its y ... *)
    (forall i k, nth_error (cells c) i = Some k -> kept rh k ->
       exists dr, In dr (d_rows s) /\ dr_y dr = c_y k /\ In (cell_image i k) (dr_cells dr)) /\
    (* ... and nothing else *)
    (forall dr p, In dr (d_rows s) -> In p (dr_cells dr) ->
       exists k, nth_error (cells c) (p_id p) = Some k /\ kept rh k /\ p = cell_image (p_id p) k /\ dr_y dr = c_y k).
Proof.
  intros SD Hrows HL HO.
  assert (HRH : row_height c = Some rh).
  { destruct SD as (_ & Hheight & _). apply row_height_uniform; assumption. }
  set (rws := sort_rows (dp_rows c rh)). set (ds := map (dcell_of rh) (cells c)).
  (* 1. the loop over the cells succeeds *)
  assert (Hds : forall i d, nth_error ds i = Some d -> dc_w d <> -1 ->
                            exists k, nth_error (cells c) i = Some k /\ d = dcell_of rh k /\ kept rh k).
  { intros i d Hi Hw. apply nth_error_map_inv in Hi as (k & Hk & ->). exists k.
    split; [exact Hk|]. split; [reflexivity|]. apply dp_width_not_ignored. exact Hw. }
  destruct (locate_all_ok rws ds O) as (asg & Hasg).
  { intros i d Hi Hw. destruct (Hds i d Hi Hw) as (k & Hk & -> & Hkept).
    destruct (kept_located c rh (0 + i) k SD HRH HL (nth_error_In _ _ Hk) Hkept) as (j & s & L & _).
    exists j. exact L. }
  destruct (locate_all_spec rws ds O asg Hasg) as (Hinc & Hsnd & Hcmp).
  (* what is known of every assigned cell *)
  assert (Hcell : forall j p, In (j, p) asg ->
            exists k s, nth_error (cells c) (p_id p) = Some k /\ kept rh k /\ p = cell_image (p_id p) k /\
                        nth_error rws j = Some s /\ minY (rr s) = c_y k /\ minX (rr s) <= c_x k /\
                        c_x k + placed_w k <= maxX (rr s) /\ 0 < placed_w k).
  { intros j p Hin. destruct (Hsnd j p Hin) as (i & d & Hi & Hw & -> & L). cbn [Nat.add] in *.
    destruct (Hds i d Hi Hw) as (k & Hk & -> & Hkept). apply locate_sound in L as (s & N & Y & X0 & X1).
    cbn [dcell_of dc_x dc_y dc_w] in Y, X0, X1. rewrite (dp_width_kept _ _ Hkept) in X1.
    exists k, s. cbn [pcell_of p_id]. split; [exact Hk|]. split; [exact Hkept|].
    split; [apply pcell_of_kept; exact Hkept|]. split; [exact N|]. repeat split; try assumption.
    eapply kept_placed_w_pos; [exact SD|eapply nth_error_In; exact Hk|exact Hkept]. }
  (* 2. every row built is a chain with the expected orientations *)
  assert (Hrow : forall j s, nth_error rws j = Some s ->
            chain (minX (rr s)) (maxX (rr s)) (row_cells asg j) /\
            forallb (check_orient (ro s)) (row_cells asg j) = true).
  { intros j s N. pose proof (sorted_rows_shape c rh s SD (nth_error_In _ _ N)) as (Sh & Sx & r & Hr & Ro & Ins & Sy).
    split.
    - unfold row_cells. apply sort_chain; [lia| |].
      + rewrite Forall_forall. intros p Hp. apply in_map_iff in Hp as ([j' p'] & E & Hin). cbn [snd] in E. subst p'.
        apply filter_In in Hin as [Hin Hj]. cbn [fst] in Hj. apply Nat.eqb_eq in Hj. subst j'.
        destruct (Hcell j p Hin) as (k & s' & _ & _ & -> & N' & _ & X0 & X1 & W). rewrite N in N'. injection N' as <-.
        cbn [cell_image p_x p_w]. lia.
      + apply (pwx_of_ids _ O); [apply ids_inc_filter; exact Hinc|].
        assert (Hin' : forall p, In p (map snd (filter (fun q : nat * pcell => Nat.eqb (fst q) j) asg)) -> In (j, p) asg).
        { intros p Hp. apply in_map_iff in Hp as ([j' p'] & E & Hin). cbn [snd] in E. subst p'.
          apply filter_In in Hin as [Hin Hj]. cbn [fst] in Hj. apply Nat.eqb_eq in Hj. subst j'. exact Hin. }
        intros a b Ha Hb Hne. apply Hin' in Ha, Hb.
        destruct (Hcell j a Ha) as (ka & sa & Hka & [Fa Ha'] & Ea & Na & Ya & _).
        destruct (Hcell j b Hb) as (kb & sb & Hkb & [Fb Hb'] & Eb & Nb & Yb & _).
        rewrite N in Na, Nb. injection Na as <-. injection Nb as <-.
        assert (D : disjoint_rects (placement_of ka) (placement_of kb)).
        { unfold legal in HL. rewrite HRH in HL. destruct HL as (_ & _ & Hdis). unfold movable in Hdis.
          apply (pd_filter_nth placement_of (fun k => negb (c_fixed k)) (cells c) Hdis (p_id a) (p_id b)); try assumption.
          - rewrite Fa. reflexivity.
          - rewrite Fb. reflexivity. }
        rewrite !placement_of_eq in D. unfold disjoint_rects in D. cbn [minX maxX minY maxY] in D.
        rewrite Ea, Eb. unfold xdisj. cbn [cell_image p_x p_w]. destruct SD as (Hrh & _). lia.
    - apply forallb_forall. intros p Hp. apply row_cells_In in Hp.
      destruct (Hcell j p Hp) as (k & s' & Hk & Hkept & -> & N' & Y & X0 & X1 & W). rewrite N in N'. injection N' as <-.
      unfold check_orient. cbn [cell_image p_pol p_o]. rewrite Ro.
      unfold inside in Ins.
      destruct (HO k (nth_error_In _ _ Hk) Hkept r Hr ltac:(lia) ltac:(lia)) as [E|E].
      + rewrite E. reflexivity.
      + apply orb_true_iff. right. apply orient_eqb_eq. exact E. }
  (* 3. hence no exception *)
  set (drs := build_rows rws 0 asg).
  assert (Hdr : forall dr, In dr drs -> exists j s, nth_error rws j = Some s /\ dr = mk_drow s (row_cells asg j)).
  { intros dr Hdr. apply build_rows_In in Hdr as (j & s & N & ->). exists j, s. split; [exact N|reflexivity]. }
  assert (F1 : forallb (fun r => no_overlap (dr_cells r)) drs = true).
  { apply forallb_forall. intros dr Hin. destruct (Hdr dr Hin) as (j & s & N & ->). cbn [mk_drow dr_cells].
    eapply chain_no_overlap. exact (proj1 (Hrow j s N)). }
  assert (F2 : forallb (fun r => check_chain (dr_min r) (dr_max r) (dr_cells r)) drs = true).
  { apply forallb_forall. intros dr Hin. destruct (Hdr dr Hin) as (j & s & N & ->). cbn [mk_drow dr_cells dr_min dr_max].
    apply chain_check_chain. exact (proj1 (Hrow j s N)). }
  assert (F3 : forallb (fun r => forallb (check_orient (dr_o r)) (dr_cells r)) drs = true).
  { apply forallb_forall. intros dr Hin. destruct (Hdr dr Hin) as (j & s & N & ->). cbn [mk_drow dr_cells dr_o].
    exact (proj2 (Hrow j s N)). }
  exists {| d_rows := drs; d_loose := [] |}. split.
  { unfold from_circuit. destruct (rows c) as [|r0 rs] eqn:ER; [congruence|]. rewrite HRH.
    unfold construct. fold ds. fold rws. rewrite Hasg. fold drs. rewrite F1, F2, F3. reflexivity. }
  split.
  { split; cbn [d_rows d_loose]; [|constructor]. rewrite Forall_forall. intros dr Hin.
    destruct (Hdr dr Hin) as (j & s & N & ->). unfold row_ok. cbn [mk_drow dr_cells dr_min dr_max].
    exact (proj1 (Hrow j s N)). }
  split; [reflexivity|]. cbn [d_rows]. split; [apply build_rows_geom|]. split.
  - intros i k Hk Hkept.
    assert (Hi : nth_error ds i = Some (dcell_of rh k)) by (unfold ds; apply map_nth_error; exact Hk).
    destruct (Hcmp i _ Hi) as (j & Hin).
    { cbn [dcell_of dc_w]. rewrite (dp_width_kept _ _ Hkept).
      pose proof (kept_placed_w_pos c rh k SD (nth_error_In _ _ Hk) Hkept). lia. }
    cbn [Nat.add] in Hin. rewrite (pcell_of_kept _ _ _ Hkept) in Hin.
    destruct (Hcell j _ Hin) as (k' & s & Hk' & _ & _ & N & Y & _). cbn [cell_image p_id] in Hk'.
    rewrite Hk in Hk'. injection Hk' as <-.
    exists (mk_drow s (row_cells asg j)). split; [|split].
    + apply build_rows_In. exists j, s. split; [exact N|reflexivity].
    + cbn [mk_drow dr_y]. exact Y.
    + cbn [mk_drow dr_cells]. apply row_cells_In. exact Hin.
  - intros dr p Hin Hp. destruct (Hdr dr Hin) as (j & s & N & ->). cbn [mk_drow dr_cells dr_y] in *.
    apply row_cells_In in Hp. destruct (Hcell j p Hp) as (k & s' & Hk & Hkept & E & N' & Y & _).
    rewrite N in N'. injection N' as <-. exists k. tauto.
Qed.

(* without rows (code since da3fc07): every cell of a legal circuit is fixed, hence ignored *)
Lemma locate_all_ignored rws ds : forall i, Forall (fun d => dc_w d = -1) ds -> locate_all rws i ds = DOk [].
Proof.
  induction ds as [|d t IH]; intros i H; cbn [locate_all]; [reflexivity|].
  inversion H as [|? ? Hd Ht]; subst. rewrite Hd. cbn. apply IH. exact Ht.
Qed.

Lemma from_circuit_norows c :
  rows c = [] -> movable c = [] -> from_circuit c = DOk {| d_rows := []; d_loose := [] |}.
Proof.
  intros ER EM. unfold from_circuit. rewrite ER. unfold construct, dp_rows, compute_rows. rewrite ER.
  cbn [flat_map sort_rows fold_right]. rewrite locate_all_ignored; [reflexivity|].
  rewrite Forall_forall. intros d Hd. apply in_map_iff in Hd as (k & <- & Hk).
  cbn [dcell_of dc_w]. unfold dp_width. destruct (c_fixed k) eqn:Hfx; [reflexivity|].
  assert (In k (movable c)) by (apply movable_In; tauto). rewrite EM in H. destruct H.
Qed.

Theorem from_circuit_accepts_legal c rh :
  std_design c rh -> legal c -> orient_pre c rh ->
  exists s, from_circuit c = DOk s /\ Inv s /\ d_loose s = [] /\
    map row_geom (d_rows s) = map seg_geom (sort_rows (dp_rows c rh)) /\
    (forall i k, nth_error (cells c) i = Some k -> kept rh k ->
       exists dr, In dr (d_rows s) /\ dr_y dr = c_y k /\ In (cell_image i k) (dr_cells dr)) /\
    (forall dr p, In dr (d_rows s) -> In p (dr_cells dr) ->
       exists k, nth_error (cells c) (p_id p) = Some k /\ kept rh k /\ p = cell_image (p_id p) k /\ dr_y dr = c_y k).
Proof.
  intros SD HL HO. destruct (rows c) as [|r0 rs] eqn:ER.
  - assert (EM : movable c = []).
    { unfold legal, row_height in HL. rewrite ER in HL. exact HL. }
    exists {| d_rows := []; d_loose := [] |}. split; [apply from_circuit_norows; assumption|].
    split; [split; constructor|]. split; [reflexivity|]. cbn [d_rows map]. split.
    + unfold dp_rows, compute_rows. rewrite ER. reflexivity.
    + split; [|intros dr p []]. intros i k Hk [Hfx _]. exfalso.
      assert (H : In k (movable c)) by (apply movable_In; split; [eapply nth_error_In; exact Hk|exact Hfx]).
      rewrite EM in H. destruct H.
  - apply from_circuit_accepts_legal_rows; try assumption. rewrite ER. discriminate.
Qed.

(* ------------------------------------------------------------------ *)
(* link with C04: the orientations legalization leaves (Circuit.orient_ok, the conclusion of
   c04_legalize_circuit_orient_ok) are the ones check() insists on, and the structure built
   satisfies the orientation invariant of MovesOrientProofs.v *)
Require Import CV.OrientProofs CV.MovesOrientProofs.

Lemma combine_nth_In {A B} (l : list A) (l' : list B) : forall i a b,
  nth_error l i = Some a -> nth_error l' i = Some b -> In (a, b) (combine l l').
Proof.
  revert l'. induction l as [|x l IH]; intros [|y l'] [|i] a b; cbn [nth_error combine]; try discriminate.
  - intros [= ->] [= ->]. left. reflexivity.
  - intros H1 H2. right. eapply IH; eassumption.
Qed.

Lemma orient_ok_entry b c rh k r :
  std_design c rh -> orient_ok b c -> In k (cells c) -> c_fixed k = false ->
  In r (rows c) -> minY (rr r) = c_y k -> minX (rr r) <= c_x k < maxX (rr r) ->
  (cell_orientation_in_row (c_pol k) (ro r) = oUNKNOWN \/ c_o k = cell_orientation_in_row (c_pol k) (ro r)) /\
  cell_orientation_in_row (c_pol k) (ro r) <> oINVALID.
Proof.
  intros (Hrh & Hheight & Hpd & _) [Hlen Hall] Hk Hfx Hr Y X.
  apply In_nth_error in Hk as [i Hi].
  assert (Hb : exists kb, nth_error (cells b) i = Some kb).
  { destruct (nth_error (cells b) i) as [kb|] eqn:E; [exists kb; reflexivity|].
    apply nth_error_None in E. assert (i < length (cells c))%nat by (apply nth_error_Some; congruence). lia. }
  destruct Hb as [kb Hkb]. pose proof (Hall kb k (combine_nth_In _ _ _ _ _ Hkb Hi) Hfx) as [HA HP].
  assert (Hpol : c_pol k = pANY \/ c_pol k <> pANY) by (destruct (c_pol k); [left; reflexivity|right; discriminate..]).
  destruct Hpol as [EP|NP].
  - rewrite EP. cbn. split; [left; reflexivity|discriminate].
  - destruct (HP NP) as (r' & o & RU & P & Eo & Hinv). unfold row_under in RU. apply find_some in RU as [Hr' Hb'].
    apply andb_true_iff in Hb' as [Hb' B3]. apply andb_true_iff in Hb' as [B1 B2].
    apply Z.eqb_eq in B1. apply Z.leb_le in B2. apply Z.ltb_lt in B3.
    assert (r' = r).
    { eapply (rows_point_unique (rows c) rh (c_x k) (c_y k)); try eassumption; lia. }
    subst r'. pose proof (table_matches_doc (c_pol k) (ro r)) as T. rewrite P in T. rewrite T.
    split; [right; exact Eo|exact Hinv].
Qed.

Lemma orient_ok_gives_pre b c rh : std_design c rh -> orient_ok b c -> orient_pre c rh.
Proof.
  intros SD HO k Hk [Hfx _] r Hr Y X. exact (proj1 (orient_ok_entry b c rh k r SD HO Hk Hfx Hr Y X)).
Qed.

Theorem from_circuit_after_legalization b c rh :
  std_design c rh -> legal c -> orient_ok b c ->
  exists s, from_circuit c = DOk s /\ Inv s /\ OInvM s.
Proof.
  intros SD HL HO.
  destruct (from_circuit_accepts_legal c rh SD HL (orient_ok_gives_pre b c rh SD HO))
    as (s & Hs & HI & _ & Hgeom & _ & Hcells).
  exists s. split; [exact Hs|]. split; [exact HI|].
  unfold OInvM. rewrite Forall_forall. intros dr Hdr. unfold orow_ok. rewrite Forall_forall. intros p Hp.
  destruct (Hcells dr p Hdr Hp) as (k & Hk & [Hfx Hh] & Ep & Y).
  assert (Hg : In (row_geom dr) (map seg_geom (sort_rows (dp_rows c rh)))) by (rewrite <- Hgeom; apply in_map; exact Hdr).
  apply in_map_iff in Hg as (sg & Eg & Hsg). unfold seg_geom, row_geom in Eg. injection Eg as G1 G2 G3 G4.
  destruct (sorted_rows_shape c rh sg SD Hsg) as (_ & _ & r & Hr & Ro & Ins & Sy).
  destruct HI as [HR _]. rewrite Forall_forall in HR. specialize (HR dr Hdr). unfold row_ok in HR.
  destruct (chain_In _ _ _ _ HR Hp) as (C1 & C2 & _).
  pose proof (kept_placed_w_pos c rh k SD (nth_error_In _ _ Hk) (conj Hfx Hh)) as W.
  rewrite Ep in C1, C2. cbn [cell_image p_x p_w] in C1, C2. unfold inside in Ins.
  destruct (orient_ok_entry b c rh k r SD HO (nth_error_In _ _ Hk) Hfx Hr ltac:(lia) ltac:(lia)) as [E1 E2].
  unfold cell_o_ok. rewrite Ep. cbn [cell_image p_pol p_o]. rewrite <- G4, Ro. intros Hu.
  destruct E1 as [E1|E1]; [contradiction|]. split; assumption.
Qed.

(* ------------------------------------------------------------------ *)
(* the hypotheses cannot be dropped *)
Definition mkrow (x0 x1 y0 y1 : Z) (o : orient) : row := {| rr := {| minX := x0; maxX := x1; minY := y0; maxY := y1 |}; ro := o |}.
Definition mkcell (x y w h : Z) (o : orient) (pol : polarity) (fx ob : bool) : ccell :=
  {| c_x := x; c_y := y; c_w := w; c_h := h; c_o := o; c_pol := pol; c_fixed := fx; c_obs := ob |}.

(* [R, GENUINE DEFECT of /repo BEFORE commit da3fc07 -- finding F20, repaired] a circuit WITHOUT
   ROWS and without movable cells (here: one fixed cell; the empty circuit behaves the same) is legal
   and legalization accepts it (Legalizer::run has nothing to place), yet the ORIGINAL
   DetailedPlacement::fromIspdCircuit (from_circuit_orig) threw "Cannot compute row height as no row
   has been defined" from its first line circuit.rowHeight().  Reproduced on the C++ before the
   repair: Circuit c(1) with one fixed cell, no rows: legalize() returns, placeDetailed() throws.
   The current code (from_circuit) builds the empty structure. *)
Definition w_norows : circuit := {| rows := []; cells := [mkcell 3 4 2 2 oN pANY true true] |}.

Theorem from_circuit_norows_orig_refuted :
  std_design w_norows 2 /\ legal w_norows /\ orient_pre w_norows 2 /\
  legalize_circuit w_norows [] = LegOk w_norows /\
  from_circuit_orig w_norows = DErr ENoRows /\
  from_circuit w_norows = DOk {| d_rows := []; d_loose := [] |}.
Proof.
  split; [|split; [|split; [|split; [|split]]]].
  - split; [lia|]. split; [intros r []|]. split; [exact I|]. split; [intros r []|]. intros k [].
  - apply legalb_correct. vm_compute. reflexivity.
  - intros k Hk Hkept r [].
  - vm_compute. reflexivity.
  - vm_compute. reflexivity.
  - vm_compute. reflexivity.
Qed.

(* without rows a MOVABLE cell still makes the constructor throw (as legalization does: NoRow) *)
Example from_circuit_norows_movable :
  from_circuit {| rows := []; cells := [mkcell 3 4 2 0 oN pANY false true] |} = DErr (ENoRowFound 0) /\
  from_circuit {| rows := []; cells := [mkcell 3 4 2 2 oN pANY false true] |} = DOk {| d_rows := []; d_loose := [] |}.
Proof. split; vm_compute; reflexivity. Qed.

(* [R] legality says nothing about orientations: a legal circuit whose SAME cell is oriented FS on
   an N row makes check() throw.  (Never after DetailedPlacer::legalize, which sets the orientation:
   from_circuit_after_legalization.) *)
Definition w_badorient : circuit :=
  {| rows := [mkrow 0 20 0 2 oN]; cells := [mkcell 0 0 3 2 oFS pSAME false true] |}.

Theorem from_circuit_orientation_refuted :
  std_design w_badorient 2 /\ rows w_badorient <> [] /\ legal w_badorient /\
  from_circuit w_badorient = DErr ECheckOrientation.
Proof.
  split; [|split; [discriminate|split]].
  - split; [lia|]. split; [intros r [<-|[]]; reflexivity|]. split; [cbn; tauto|].
    split; [intros r [<-|[]]; reflexivity|]. intros k Hk. vm_compute in Hk. destruct Hk as [<-|[]].
    split; [vm_compute; reflexivity|]. split; [exists 1%nat; split; [lia|vm_compute; reflexivity]|left; reflexivity].
  - apply legalb_correct. vm_compute. reflexivity.
  - vm_compute. reflexivity.
Qed.

(* [R] rows that overlap (outside the C01 domain: std_design asks pairwise disjoint rows): the
   search takes the LAST row starting at or before the cell, here the short row [5,8), and throws
   although the cell lies inside the long row [0,20) and the circuit is legal *)
Definition w_overlaprows : circuit :=
  {| rows := [mkrow 0 20 0 2 oN; mkrow 5 8 0 2 oN]; cells := [mkcell 6 0 3 2 oN pANY false true] |}.

Theorem from_circuit_overlapping_rows_refuted :
  legal w_overlaprows /\ orient_pre w_overlaprows 2 /\ ~ pairwise_disjoint (map rr (rows w_overlaprows)) /\
  from_circuit w_overlaprows = DErr (ERowEndsBefore 0).
Proof.
  split; [apply legalb_correct; vm_compute; reflexivity|]. split; [|split].
  - intros k [<-|[]] _ r _ _ _. left. reflexivity.
  - intros H. apply pairwise_disjointb_spec in H. vm_compute in H. discriminate.
  - vm_compute. reflexivity.
Qed.

(* non-vacuity of the main theorem: two rows (N, FS); a fixed obstruction splitting row 0; a fixed
   non-obstruction cell under a movable one (ignored); a movable cell two rows high (it becomes an
   obstacle of the detailed placement: segments [0,8) [10,16) [18,20) and [0,16) [18,20)); cells
   exactly on segment ends; a turned cell without polarity (placed width = stored height) *)
Definition ex_dinit : circuit :=
  {| rows := [mkrow 0 20 0 2 oN; mkrow 0 20 2 4 oFS];
     cells := [ mkcell 8 0 2 2 oN pANY true true;
                mkcell 0 0 3 2 oN pSAME false true;
                mkcell 5 0 3 2 oN pNW false true;
                mkcell 10 0 6 2 oN pANY false true;
                mkcell 16 0 2 4 oN pANY false true;
                mkcell 12 2 3 2 oN pOPPOSITE false true;
                mkcell 1 0 4 2 oN pANY true false;
                mkcell 0 2 2 3 oE pANY false true;
                mkcell 18 2 2 2 oFS pSAME false true ] |}.

Lemma ex_dinit_std : std_design ex_dinit 2.
Proof.
  split; [lia|]. split; [intros r [<-|[<-|[]]]; reflexivity|].
  split; [apply pairwise_disjointb_spec; vm_compute; reflexivity|].
  split; [intros r [<-|[<-|[]]]; reflexivity|].
  intros k Hk. vm_compute in Hk.
  repeat (destruct Hk as [<-|Hk];
          [split; [vm_compute; reflexivity|];
           split; [first [exists 1%nat; split; [lia|vm_compute; reflexivity]|exists 2%nat; split; [lia|vm_compute; reflexivity]]|];
           first [left; reflexivity|right; reflexivity]|]).
  destruct Hk.
Qed.

Lemma ex_dinit_orient_pre : orient_pre ex_dinit 2.
Proof.
  intros k Hk [Hfx Hh] r Hr Y X. vm_compute in Hk.
  repeat (destruct Hk as [<-|Hk];
          [try discriminate Hfx; try (vm_compute in Hh; discriminate Hh);
           destruct Hr as [<-|[<-|[]]]; cbn in Y, X |- *; try discriminate Y; try lia;
           first [left; reflexivity|right; reflexivity]|]).
  destruct Hk.
Qed.

Example from_circuit_nonvacuous :
  std_design ex_dinit 2 /\ rows ex_dinit <> [] /\ legal ex_dinit /\ orient_pre ex_dinit 2 /\
  exists s, from_circuit ex_dinit = DOk s /\
    map (fun dr => (dr_min dr, dr_max dr, dr_y dr, map (fun p => (p_id p, p_x p, p_w p)) (dr_cells dr))) (d_rows s) =
    [ (0, 8, 0, [(1%nat, 0, 3); (2%nat, 5, 3)]); (10, 16, 0, [(3%nat, 10, 6)]); (18, 20, 0, []);
      (0, 16, 2, [(7%nat, 0, 3); (5%nat, 12, 3)]); (18, 20, 2, [(8%nat, 18, 2)]) ].
Proof.
  split; [exact ex_dinit_std|]. split; [discriminate|]. split; [apply legalb_correct; vm_compute; reflexivity|].
  split; [exact ex_dinit_orient_pre|]. eexists. split; vm_compute; reflexivity.
Qed.

Print Assumptions from_circuit_accepts_legal.
Print Assumptions from_circuit_after_legalization.
Print Assumptions from_circuit_norows_orig_refuted.
