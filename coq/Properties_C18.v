(* C18 -- cell expansion respects density caps and never touches fixed cells.
   Model: Expand.v, the exact rational model of Circuit::computeRowPlacementArea,
   expandCellsToDensity, expandCellsByFactor, computeCellExpansion (src/coloquinte.cpp): every
   floating-point operation is the exact rational one, every float->int conversion is the
   truncation toward zero; rows minus obstructions come from the C15 model FreeSpace.v.
   All theorems are [F]: proved for every input of the stated domain (cell sizes >= 0, cap >= 0 where
   said); nothing is bounded or partial.  What the theorems do NOT cover is the rounding of the IEEE
   operations themselves (see checks/c18.py for how the tie treats it).
   Vocabulary (ExpandProofs.v): frame k k' := k' differs from k at most in its width, and not at all
   when k is fixed; processed k := movable with h > 0 and w > 0 (the cells the density loop acts on);
   frac_width f cap k := min(w*f, cap); nmov := number of movable cells. *)
From Coq Require Import List ZArith QArith Qround Bool.
Import ListNotations.
Require Import CV.Orient CV.FreeSpace CV.Expand CV.ExpandProofs.
Local Open Scope Q_scope.

(* ------------------------------------------------------------ expandCellsToDensity *)

(* [F] only widths of movable cells change: rows untouched, every cell equal to the old one except
   possibly for its width, fixed cells equal; in the two "nothing to do" branches (no area, already
   dense) the circuit is returned as it is *)
Theorem c18_density_only_movable_widths : forall t m mew c c' b,
  expand_to_density_br t m mew c = Some (c', b) ->
  e_rows c' = e_rows c /\ Forall2 frame (e_cells c) (e_cells c') /\ (b <> BrExpand -> c' = c).
Proof. exact to_density_only_widths. Qed.

(* [F] a cell whose width is not above the cap maxRowWidth * maxExpandedWidth is never made narrower *)
Theorem c18_density_never_narrower : forall t m mew c c' b,
  nonneg_sizes (e_cells c) -> 0 <= mew ->
  expand_to_density_br t m mew c = Some (c', b) ->
  Forall2 (fun k k' => iq (e_w k) <= iq (max_row_width (e_rows c)) * mew -> (e_w k <= e_w k')%Z)
          (e_cells c) (e_cells c').
Proof. exact to_density_wider. Qed.

(* [F] the carry invariant of the missingArea loop, one iteration: for a processed cell, starting from
   0 <= missing, the iteration ends with 0 <= missing' < h and
   h * newWidth + missing' = h * fracW + missing *)
Theorem c18_carry_invariant_step : forall f cap k m k' m',
  processed k = true -> 0 <= m -> 0 <= frac_width f cap k ->
  expand_cell f cap k m = Some (k', m') ->
  k' = set_w k (e_w k') /\ (Qtrunc (frac_width f cap k) <= e_w k')%Z /\
  0 <= m' /\ m' < iq (e_h k) /\
  iq (e_h k) * iq (e_w k') + m' == iq (e_h k) * frac_width f cap k + m.
Proof. exact expand_cell_spec. Qed.

(* [F] the carry invariant over the whole loop: movable area after + final missing
   = sum of h*fracW over the processed cells (+ the untouched area of skipped movable cells) + initial
   missing, with 0 <= final missing < height of the last processed cell *)
Theorem c18_carry_invariant : forall f cap, 0 <= f -> 0 <= cap -> forall cells m cells' m',
  expand_cells f cap cells m = Some (cells', m') -> 0 <= m ->
  0 <= m' /\
  iq (movable_area cells') + m' == qsum (map (frac_area f cap) cells) + m /\
  below m' (last_proc_h cells None).
Proof. exact carry_invariant_loop. Qed.

(* [F] resulting movable area <= target * available area (no slack at all in exact arithmetic); and when
   no cap binds it is within the height of the last processed cell of it *)
Theorem c18_density_area_bound : forall t m mew c c',
  nonneg_sizes (e_cells c) -> 0 <= mew ->
  expand_to_density_br t m mew c = Some (c', BrExpand) ->
  let ra := row_placement_area m c in
  let f := t / (iq (movable_area (e_cells c)) / iq ra) in
  let cap := iq (max_row_width (e_rows c)) * mew in
  iq (movable_area (e_cells c')) <= t * iq ra /\
  (no_cap_binds f cap (e_cells c) ->
   exists h, last_proc_h (e_cells c) None = Some h /\ t * iq ra - iq h < iq (movable_area (e_cells c'))).
Proof. exact to_density_area. Qed.

(* [F] the fuel of the carry loop always suffices: the model never answers None on the domain *)
Theorem c18_density_total : forall t m mew c,
  nonneg_sizes (e_cells c) -> 0 <= mew -> expand_to_density_br t m mew c <> None.
Proof. exact to_density_total. Qed.

(* ------------------------------------------------------------ expandCellsByFactor *)

(* [F] only widths of movable cells change; unchanged circuit and return value 1 in the "nothing to do"
   branches *)
Theorem c18_factor_only_movable_widths : forall es maxD m c c' r b,
  expand_by_factor_br es maxD m c = Some (c', r, b) ->
  e_rows c' = e_rows c /\ Forall2 frame (e_cells c) (e_cells c') /\ (b <> BrExpand -> c' = c /\ r = 1).
Proof. exact by_factor_only_widths. Qed.

(* [F] with factors >= 1 no cell becomes narrower (there is no width cap in this function) *)
Theorem c18_factor_never_narrower : forall es maxD m c c' r b,
  nonneg_sizes (e_cells c) -> Forall (fun e => 1 <= e) es ->
  expand_by_factor_br es maxD m c = Some (c', r, b) ->
  Forall2 (fun k k' => (e_w k <= e_w k')%Z) (e_cells c) (e_cells c').
Proof. exact by_factor_wider. Qed.

(* [F] resulting movable area <= maxDensity * available area + number of movable cells, i.e.
   utilisation <= maxDensity + nmov / available: the explicit truncation slack (one unit of area per
   movable cell, lost by the truncating accumulation of expandedArea, which makes the ratio too large) *)
Theorem c18_factor_area_bound : forall es maxD m c c' r,
  nonneg_sizes (e_cells c) ->
  expand_by_factor_br es maxD m c = Some (c', r, BrExpand) ->
  iq (movable_area (e_cells c')) <= maxD * iq (row_placement_area m c) + iq (nmov (e_cells c)).
Proof. exact by_factor_area. Qed.

(* ------------------------------------------------------------ computeCellExpansion *)

(* [F] factor 1 for fixed cells and for cells intersecting no congested region (congestion > 1);
   otherwise the factor of one of the intersecting congested regions, and at least the factor of
   every one of them: the maximum.  expansion_spec is spelled out in ExpandProofs.v. *)
Theorem c18_expansion_is_max : forall cmap fp pf c l,
  compute_expansion cmap fp pf c = Some l ->
  0 <= fp /\ 1 <= pf /\
  Forall2 (fun k v =>
    (e_fixed k = true -> v = 1) /\
    (e_fixed k = false ->
       1 <= v /\
       (forall r cg, congested_hit cmap k r cg -> region_factor fp pf cg <= v) /\
       ((forall r cg, ~ congested_hit cmap k r cg) -> v = 1) /\
       ((exists r cg, congested_hit cmap k r cg) ->
        exists r cg, congested_hit cmap k r cg /\ v = region_factor fp pf cg)))
    (e_cells c) l.
Proof. exact expansion_is_max. Qed.

(* [F] it refuses exactly fixedPenalty < 0 or penaltyFactor < 1 *)
Theorem c18_expansion_throws : forall cmap fp pf c,
  compute_expansion cmap fp pf c = None <-> (fp < 0 \/ pf < 1).
Proof. exact expansion_throws. Qed.

(* ------------------------------------------------------------ computeRowPlacementArea *)

(* [F] the available area is never negative; a margin never adds area to a free row and a zero
   margin leaves width * height *)
Theorem c18_row_area : forall m c,
  (0 <= row_placement_area m c)%Z /\
  (forall r, In r (e_free_rows c) -> 0 <= m -> (0 <= rect_w (rr r))%Z ->
             (margin_row_area m r <= rect_w (rr r) * rect_h (rr r))%Z) /\
  (forall r, (0 <= rect_w (rr r))%Z -> margin_row_area 0 r = (rect_w (rr r) * rect_h (rr r))%Z).
Proof. exact row_area_facts. Qed.

(* ------------------------------------------------------------ non-vacuity *)
Definition mk (x y w h : Z) (o : orient) (fx ob : bool) : ecell :=
  {| e_x := x; e_y := y; e_w := w; e_h := h; e_o := o; e_fixed := fx; e_obs := ob |}.
Definition mkrow (a b c d : Z) : row := {| rr := {| minX := a; maxX := b; minY := c; maxY := d |}; ro := oN |}.

(* two rows, one of them obstructed by a fixed cell; a 1-row cell, a 2-row cell, a zero-width cell *)
Definition ex_c : ecircuit :=
  {| e_rows := [mkrow 0 40 0 10; mkrow 0 40 10 20];
     e_cells := [mk 0 0 20 10 oN false false; mk 5 0 7 20 oN false false;
                 mk 30 0 10 10 oN true true; mk 0 0 0 10 oN false false] |}.

(* margin 1/2: available area 20*10 + 30*10 = 500, movable area 340, target 3/4: factor 75/68 *)
Example c18_density_nonvacuous :
  row_placement_area (1#2) ex_c = 500%Z /\
  nonneg_sizes (e_cells ex_c) /\
  no_cap_binds ((3#4) / (iq 340 / iq 500)) (iq 40 * 1) (e_cells ex_c) /\
  exists c', expand_to_density_br (3#4) (1#2) 1 ex_c = Some (c', BrExpand) /\
             map e_w (e_cells c') = [22; 7; 10; 0]%Z /\ movable_area (e_cells c') = 360%Z.
Proof.
  split; [vm_compute; reflexivity|]. split.
  { repeat constructor; vm_compute; discriminate. }
  split.
  { repeat constructor; intros _; vm_compute; discriminate. }
  eexists. split; [vm_compute; reflexivity|]. split; vm_compute; reflexivity.
Qed.

(* a cap that binds (1/2 of the widest row = 20): the first cell keeps 20, never narrower *)
Example c18_density_cap_nonvacuous :
  exists c', expand_to_density_br (3#4) (1#2) (1#2) ex_c = Some (c', BrExpand) /\
             map e_w (e_cells c') = [20; 7; 10; 0]%Z.
Proof. eexists. split; vm_compute; reflexivity. Qed.

(* the carry crosses cells of different heights: missing 15 after the 2-row cell, two increments on the 1-row cell *)
Example c18_carry_nonvacuous :
  exists cs m', expand_cells (5#4) 100 [mk 0 0 3 20 oN false false; mk 0 0 3 10 oN false false] 0 = Some (cs, m') /\
                map e_w cs = [3; 5]%Z /\ m' == 5#2.
Proof. eexists. eexists. split; [vm_compute; reflexivity|]. split; vm_compute; reflexivity. Qed.

(* factors 3/2, 2, (fixed) 5, 1 with maxDensity 3/4 on area 500: expandedArea 580 > 375, ratio 7/48 *)
Example c18_factor_nonvacuous :
  Forall (fun e => 1 <= e) [3#2; 2; 5; 1] /\
  exists c' r, expand_by_factor_br [3#2; 2; 5; 1] (3#4) (1#2) ex_c = Some (c', r, BrExpand) /\
               map e_w (e_cells c') = [21; 8; 10; 0]%Z /\ nmov (e_cells ex_c) = 3%Z /\ r == 29#17.
Proof.
  split; [repeat constructor; vm_compute; discriminate|].
  eexists. eexists. split; [vm_compute; reflexivity|]. split; [vm_compute; reflexivity|].
  split; vm_compute; reflexivity.
Qed.

(* overlapping congested regions 5/4 and 3/2 over the first cell, an uncongested one (3/4), a fixed cell *)
Example c18_expansion_nonvacuous :
  option_map (map Qred) (compute_expansion
    [({| minX := 0; maxX := 10; minY := 0; maxY := 10 |}, 5#4);
     ({| minX := 5; maxX := 50; minY := 5; maxY := 30 |}, 3#2);
     ({| minX := -10; maxX := 100; minY := -10; maxY := 100 |}, 3#4)] (1#8) 2 ex_c)
  = Some [17#8; 17#8; 1; 1].
Proof. vm_compute. reflexivity. Qed.

Print Assumptions c18_density_only_movable_widths.
Print Assumptions c18_density_never_narrower.
Print Assumptions c18_carry_invariant_step.
Print Assumptions c18_carry_invariant.
Print Assumptions c18_density_area_bound.
Print Assumptions c18_density_total.
Print Assumptions c18_factor_only_movable_widths.
Print Assumptions c18_factor_never_narrower.
Print Assumptions c18_factor_area_bound.
Print Assumptions c18_expansion_is_max.
Print Assumptions c18_expansion_throws.
Print Assumptions c18_row_area.
