(* C18 -- cell expansion respects density caps and never touches fixed cells.
   Model: Expand.v, the exact rational model of Circuit::computeRowPlacementArea,
   expandCellsToDensity, expandCellsByFactor, computeCellExpansion (src/coloquinte.cpp): every
   floating-point operation is the exact rational one, every float->int conversion is the
   truncation toward zero; rows minus obstructions come from the C15 model FreeSpace.v.
   All theorems are [F]: proved for every input of the stated domain (cell sizes >= 0, cap >= 0 where
   said); nothing is bounded or partial.  The theorems c18_* of this first part do NOT cover the rounding of
   the IEEE operations themselves; the second part of this file (theorems c18f_*, model ExpandFloat.v, Flocq
   binary64/binary32) does: it states what holds for the COMPUTED widths and factors.
   Vocabulary (ExpandProofs.v): frame k k' := k' differs from k at most in its width, and not at all
   when k is fixed; processed k := movable with h > 0 and w > 0 (the cells the density loop acts on);
   frac_width f cap k := min(w*f, cap); nmov := number of movable cells. *)
From Coq Require Import List ZArith QArith Qround Bool.
Import ListNotations.
Require Import CV.Orient CV.FreeSpace CV.Expand CV.ExpandProofs.
Local Open Scope Q_scope.

(* ------------------------------------------------------------ expandCellsToDensity *)

(* [F] only widths of movable cells change: rows untouched, every cell equal to the old one except
   possibly for its width, fixed cells equal; in the two "nothing to do" branches (no area, already
   dense) the circuit is returned as it is *)
Theorem c18_density_only_movable_widths : forall t m mew c c' b,
  expand_to_density_br t m mew c = Some (c', b) ->
  e_rows c' = e_rows c /\ Forall2 frame (e_cells c) (e_cells c') /\ (b <> BrExpand -> c' = c).
Proof. exact to_density_only_widths. Qed.

(* [F] a cell whose width is not above the cap maxRowWidth * maxExpandedWidth is never made narrower *)
Theorem c18_density_never_narrower : forall t m mew c c' b,
  nonneg_sizes (e_cells c) -> 0 <= mew ->
  expand_to_density_br t m mew c = Some (c', b) ->
  Forall2 (fun k k' => iq (e_w k) <= iq (max_row_width (e_rows c)) * mew -> (e_w k <= e_w k')%Z)
          (e_cells c) (e_cells c').
Proof. exact to_density_wider. Qed.

(* [F] the carry invariant of the missingArea loop, one iteration: for a processed cell, starting from
   0 <= missing, the iteration ends with 0 <= missing' < h and
   h * newWidth + missing' = h * fracW + missing *)
Theorem c18_carry_invariant_step : forall f cap k m k' m',
  processed k = true -> 0 <= m -> 0 <= frac_width f cap k ->
  expand_cell f cap k m = Some (k', m') ->
  k' = set_w k (e_w k') /\ (Qtrunc (frac_width f cap k) <= e_w k')%Z /\
  0 <= m' /\ m' < iq (e_h k) /\
  iq (e_h k) * iq (e_w k') + m' == iq (e_h k) * frac_width f cap k + m.
Proof. exact expand_cell_spec. Qed.

(* [F] the carry invariant over the whole loop: movable area after + final missing
   = sum of h*fracW over the processed cells (+ the untouched area of skipped movable cells) + initial
   missing, with 0 <= final missing < height of the last processed cell *)
Theorem c18_carry_invariant : forall f cap, 0 <= f -> 0 <= cap -> forall cells m cells' m',
  expand_cells f cap cells m = Some (cells', m') -> 0 <= m ->
  0 <= m' /\
  iq (movable_area cells') + m' == qsum (map (frac_area f cap) cells) + m /\
  below m' (last_proc_h cells None).
Proof. exact carry_invariant_loop. Qed.

(* [F] resulting movable area <= target * available area (no slack at all in exact arithmetic); and when
   no cap binds it is within the height of the last processed cell of it *)
Theorem c18_density_area_bound : forall t m mew c c',
  nonneg_sizes (e_cells c) -> 0 <= mew ->
  expand_to_density_br t m mew c = Some (c', BrExpand) ->
  let ra := row_placement_area m c in
  let f := t / (iq (movable_area (e_cells c)) / iq ra) in
  let cap := iq (max_row_width (e_rows c)) * mew in
  iq (movable_area (e_cells c')) <= t * iq ra /\
  (no_cap_binds f cap (e_cells c) ->
   exists h, last_proc_h (e_cells c) None = Some h /\ t * iq ra - iq h < iq (movable_area (e_cells c'))).
Proof. exact to_density_area. Qed.

(* [F] the fuel of the carry loop always suffices: the model never answers None on the domain *)
Theorem c18_density_total : forall t m mew c,
  nonneg_sizes (e_cells c) -> 0 <= mew -> expand_to_density_br t m mew c <> None.
Proof. exact to_density_total. Qed.

(* ------------------------------------------------------------ expandCellsByFactor *)

(* [F] only widths of movable cells change; unchanged circuit and return value 1 in the "nothing to do"
   branches *)
Theorem c18_factor_only_movable_widths : forall es maxD m c c' r b,
  expand_by_factor_br es maxD m c = Some (c', r, b) ->
  e_rows c' = e_rows c /\ Forall2 frame (e_cells c) (e_cells c') /\ (b <> BrExpand -> c' = c /\ r = 1).
Proof. exact by_factor_only_widths. Qed.

(* [F] with factors >= 1 no cell becomes narrower (there is no width cap in this function) *)
Theorem c18_factor_never_narrower : forall es maxD m c c' r b,
  nonneg_sizes (e_cells c) -> Forall (fun e => 1 <= e) es ->
  expand_by_factor_br es maxD m c = Some (c', r, b) ->
  Forall2 (fun k k' => (e_w k <= e_w k')%Z) (e_cells c) (e_cells c').
Proof. exact by_factor_wider. Qed.

(* [F] resulting movable area <= maxDensity * available area + number of movable cells, i.e.
   utilisation <= maxDensity + nmov / available: the explicit truncation slack (one unit of area per
   movable cell, lost by the truncating accumulation of expandedArea, which makes the ratio too large) *)
Theorem c18_factor_area_bound : forall es maxD m c c' r,
  nonneg_sizes (e_cells c) ->
  expand_by_factor_br es maxD m c = Some (c', r, BrExpand) ->
  iq (movable_area (e_cells c')) <= maxD * iq (row_placement_area m c) + iq (nmov (e_cells c)).
Proof. exact by_factor_area. Qed.

(* ------------------------------------------------------------ computeCellExpansion *)

(* [F] factor 1 for fixed cells and for cells intersecting no congested region (congestion > 1);
   otherwise the factor of one of the intersecting congested regions, and at least the factor of
   every one of them: the maximum.  expansion_spec is spelled out in ExpandProofs.v. *)
Theorem c18_expansion_is_max : forall cmap fp pf c l,
  compute_expansion cmap fp pf c = Some l ->
  0 <= fp /\ 1 <= pf /\
  Forall2 (fun k v =>
    (e_fixed k = true -> v = 1) /\
    (e_fixed k = false ->
       1 <= v /\
       (forall r cg, congested_hit cmap k r cg -> region_factor fp pf cg <= v) /\
       ((forall r cg, ~ congested_hit cmap k r cg) -> v = 1) /\
       ((exists r cg, congested_hit cmap k r cg) ->
        exists r cg, congested_hit cmap k r cg /\ v = region_factor fp pf cg)))
    (e_cells c) l.
Proof. exact expansion_is_max. Qed.

(* [F] it refuses exactly fixedPenalty < 0 or penaltyFactor < 1 *)
Theorem c18_expansion_throws : forall cmap fp pf c,
  compute_expansion cmap fp pf c = None <-> (fp < 0 \/ pf < 1).
Proof. exact expansion_throws. Qed.

(* ------------------------------------------------------------ computeRowPlacementArea *)

(* [F] the available area is never negative; a margin never adds area to a free row and a zero
   margin leaves width * height *)
Theorem c18_row_area : forall m c,
  (0 <= row_placement_area m c)%Z /\
  (forall r, In r (e_free_rows c) -> 0 <= m -> (0 <= rect_w (rr r))%Z ->
             (margin_row_area m r <= rect_w (rr r) * rect_h (rr r))%Z) /\
  (forall r, (0 <= rect_w (rr r))%Z -> margin_row_area 0 r = (rect_w (rr r) * rect_h (rr r))%Z).
Proof. exact row_area_facts. Qed.

(* ------------------------------------------------------------ non-vacuity *)
Definition mk (x y w h : Z) (o : orient) (fx ob : bool) : ecell :=
  {| e_x := x; e_y := y; e_w := w; e_h := h; e_o := o; e_fixed := fx; e_obs := ob |}.
Definition mkrow (a b c d : Z) : row := {| rr := {| minX := a; maxX := b; minY := c; maxY := d |}; ro := oN |}.

(* two rows, one of them obstructed by a fixed cell; a 1-row cell, a 2-row cell, a zero-width cell *)
Definition ex_c : ecircuit :=
  {| e_rows := [mkrow 0 40 0 10; mkrow 0 40 10 20];
     e_cells := [mk 0 0 20 10 oN false false; mk 5 0 7 20 oN false false;
                 mk 30 0 10 10 oN true true; mk 0 0 0 10 oN false false] |}.

(* margin 1/2: available area 20*10 + 30*10 = 500, movable area 340, target 3/4: factor 75/68 *)
Example c18_density_nonvacuous :
  row_placement_area (1#2) ex_c = 500%Z /\
  nonneg_sizes (e_cells ex_c) /\
  no_cap_binds ((3#4) / (iq 340 / iq 500)) (iq 40 * 1) (e_cells ex_c) /\
  exists c', expand_to_density_br (3#4) (1#2) 1 ex_c = Some (c', BrExpand) /\
             map e_w (e_cells c') = [22; 7; 10; 0]%Z /\ movable_area (e_cells c') = 360%Z.
Proof.
  split; [vm_compute; reflexivity|]. split.
  { repeat constructor; vm_compute; discriminate. }
  split.
  { repeat constructor; intros _; vm_compute; discriminate. }
  eexists. split; [vm_compute; reflexivity|]. split; vm_compute; reflexivity.
Qed.

(* a cap that binds (1/2 of the widest row = 20): the first cell keeps 20, never narrower *)
Example c18_density_cap_nonvacuous :
  exists c', expand_to_density_br (3#4) (1#2) (1#2) ex_c = Some (c', BrExpand) /\
             map e_w (e_cells c') = [20; 7; 10; 0]%Z.
Proof. eexists. split; vm_compute; reflexivity. Qed.

(* the carry crosses cells of different heights: missing 15 after the 2-row cell, two increments on the 1-row cell *)
Example c18_carry_nonvacuous :
  exists cs m', expand_cells (5#4) 100 [mk 0 0 3 20 oN false false; mk 0 0 3 10 oN false false] 0 = Some (cs, m') /\
                map e_w cs = [3; 5]%Z /\ m' == 5#2.
Proof. eexists. eexists. split; [vm_compute; reflexivity|]. split; vm_compute; reflexivity. Qed.

(* factors 3/2, 2, (fixed) 5, 1 with maxDensity 3/4 on area 500: expandedArea 580 > 375, ratio 7/48 *)
Example c18_factor_nonvacuous :
  Forall (fun e => 1 <= e) [3#2; 2; 5; 1] /\
  exists c' r, expand_by_factor_br [3#2; 2; 5; 1] (3#4) (1#2) ex_c = Some (c', r, BrExpand) /\
               map e_w (e_cells c') = [21; 8; 10; 0]%Z /\ nmov (e_cells ex_c) = 3%Z /\ r == 29#17.
Proof.
  split; [repeat constructor; vm_compute; discriminate|].
  eexists. eexists. split; [vm_compute; reflexivity|]. split; [vm_compute; reflexivity|].
  split; vm_compute; reflexivity.
Qed.

(* overlapping congested regions 5/4 and 3/2 over the first cell, an uncongested one (3/4), a fixed cell *)
Example c18_expansion_nonvacuous :
  option_map (map Qred) (compute_expansion
    [({| minX := 0; maxX := 10; minY := 0; maxY := 10 |}, 5#4);
     ({| minX := 5; maxX := 50; minY := 5; maxY := 30 |}, 3#2);
     ({| minX := -10; maxX := 100; minY := -10; maxY := 100 |}, 3#4)] (1#8) 2 ex_c)
  = Some [17#8; 17#8; 1; 1].
Proof. vm_compute. reflexivity. Qed.

Print Assumptions c18_density_only_movable_widths.
Print Assumptions c18_density_never_narrower.
Print Assumptions c18_carry_invariant_step.
Print Assumptions c18_carry_invariant.
Print Assumptions c18_density_area_bound.
Print Assumptions c18_density_total.
Print Assumptions c18_factor_only_movable_widths.
Print Assumptions c18_factor_never_narrower.
Print Assumptions c18_factor_area_bound.
Print Assumptions c18_expansion_is_max.
Print Assumptions c18_expansion_throws.
Print Assumptions c18_row_area.

(* ============================================================ floating point (binary64 / binary32, Flocq)
   Model: ExpandFloat.v -- the same four functions with every C++ double / float operation replaced by the
   correctly rounded IEEE-754 operation of Flocq (round to nearest even), conversions to int / long long =
   truncation (Btrunc) into ideal integers.  These theorems are about the COMPUTED widths and factors.
   They rest on the axioms of the standard library's classical real numbers (Flocq's specification is
   stated over R): ClassicalDedekindReals.sig_forall_dec, ClassicalDedekindReals.sig_not_dec,
   FunctionalExtensionality.functional_extensionality_dep, Classical_Prop.classic -- exactly what Print
   Assumptions lists for each c18f_* theorem below; the c18_* theorems above stay closed.
   Domain everywhere: widths and heights in [0, 2^31) (int_sizes), areas below 2^63 (no long long overflow),
   finite arguments. *)
From Coq Require Import Reals Lia.
From Flocq Require Import Core BinarySingleNaN.
Require Import CV.SpreadFloat CV.ExpandFloat CV.ExpandFloatBase CV.ExpandFloatProofs CV.ExpandFloatFactor
               CV.ExpandFloatCongestion CV.ExpandFloatCarry CV.ExpandFloatArea CV.ExpandFloatTotal
               CV.ExpandFloatLower.
Local Close Scope Q_scope.
Local Open Scope R_scope.

(* [F] only widths of movable cells change (binary64 model of expandCellsToDensity) *)
Theorem c18f_density_only_movable_widths : forall t m mew c c' b,
  expand_to_density_f_br t m mew c = Some (c', b) ->
  e_rows c' = e_rows c /\ Forall2 frame (e_cells c) (e_cells c') /\ (b <> BrExpand -> c' = c).
Proof. exact to_density_f_frame. Qed.

(* [F] never narrower, for the computed widths: finite target <= 1; whenever the computed cap is not below the
   width in the C++ comparison (!(cap < w), which includes a NaN cap), the new width is >= the old one.
   Rounding cannot produce oldWidth - 1: the computed factor is >= 1 (monotone rounding of a quotient > 1),
   w * factor rounds to >= w, missingArea never becomes negative.
   NOTE: the float -> int conversion of the model (Btrunc) goes into ideal Z, so there is NO hypothesis "the new width is
   below 2^31" here (nor in c18f_factor_never_narrower): for inputs inside these hypotheses whose result reaches 2^31 the
   compiled code converts out of range (undefined behaviour; observed: width 2^30 with cap 2 -> -2147483648) and the clause
   is false for the C++ while true for the model.  The claim of ./check C18 is restricted to results below 2^31. *)
Theorem c18f_density_never_narrower : forall (t m mew : f64) c c' b,
  is_finite t = true -> B2R t <= 1 -> int_sizes (e_cells c) ->
  (movable_area (e_cells c) < 2 ^ 63)%Z -> (row_placement_area_f m c < 2 ^ 63)%Z ->
  expand_to_density_f_br t m mew c = Some (c', b) ->
  Forall2 (fun k k' => Bltb (cap_f mew c) (d_of_Z (e_w k)) = false -> (e_w k <= e_w k')%Z)
          (e_cells c) (e_cells c').
Proof. exact to_density_f_wider. Qed.

(* [F] the statement's hypothesis over the reals implies the computed one: maxRowWidth * maxExpandedWidth (exact
   product) not below w  =>  the computed cap is not below w *)
Theorem c18f_cap_not_below : forall (mew : f64) c (w : Z), is_finite mew = true ->
  Rabs (B2R mew) <= bpow radix2 900 ->
  (0 <= w < 2 ^ 31)%Z -> (0 <= max_row_width (e_rows c) < 2 ^ 31)%Z ->
  IZR w <= IZR (max_row_width (e_rows c)) * B2R mew ->
  Bltb (cap_f mew c) (d_of_Z w) = false.
Proof. exact cap_f_not_below. Qed.

(* [F] (int)fracW is defined (finite, in [0, 2^31)) for every processed cell when the cap is finite in [0, 2^31),
   e.g. 0 <= maxExpandedWidth <= 1 *)
Theorem c18f_density_conversion_defined : forall (f cap : f64) k, is_finite f = true ->
  1 <= B2R f <= bpow radix2 63 -> (0 <= e_w k < 2 ^ 31)%Z ->
  is_finite cap = true -> 0 <= B2R cap < bpow radix2 31 -> fw_ok f cap k.
Proof. exact fw_ok_of_cap. Qed.

(* [F] carry invariant, one iteration, in binary64: fracW - newW and every missingArea - h are exact, the two
   remaining roundings cost at most 2^-20 area units; 0 <= missing' < h *)
Theorem c18f_carry_invariant_step : forall f cap k (m : f64) k' m',
  processed k = true -> (e_h k < 2 ^ 31)%Z ->
  is_finite m = true -> 0 <= B2R m <= bpow radix2 31 -> fw_ok f cap k ->
  expand_cell_f f cap k m = Some (k', m') ->
  k' = set_w k (e_w k') /\ is_finite m' = true /\ 0 <= B2R m' < IZR (e_h k) /\
  Rabs (IZR (e_h k) * IZR (e_w k') + B2R m' - (IZR (e_h k) * B2R (frac_width_f f cap k) + B2R m))
    <= bpow radix2 (-20).
Proof. exact expand_cell_f_spec. Qed.

(* [F] carry invariant over the whole loop: the accumulated floating-point error of movable area + missing is
   at most 2^-20 per processed cell (areas are accumulated in long long, only missingArea is a double);
   H = any bound of the heights *)
Theorem c18f_carry_invariant : forall f cap (H : Z), (H <= 2 ^ 31)%Z -> forall cells (m : f64) cells' m',
  int_sizes cells -> Forall (fw_ok f cap) cells -> Forall (fun k => (e_h k <= H)%Z) cells ->
  is_finite m = true -> 0 <= B2R m < IZR H ->
  expand_cells_f f cap cells m = Some (cells', m') ->
  is_finite m' = true /\ 0 <= B2R m' < IZR H /\
  Rabs (IZR (movable_area cells') + B2R m' - (rsum (map (frac_area_f f cap) cells) + B2R m))
    <= INR (nproc cells) * bpow radix2 (-20).
Proof. exact expand_cells_f_inv. Qed.

(* [F] utilisation: movable area after <= target * available * (1 + 2^-50) + 2^-20 per processed cell
   (exact theorem c18_density_area_bound: <= target * available) *)
Theorem c18f_density_area_bound : forall (t m mew : f64) c c',
  is_finite t = true -> B2R t <= 1 -> int_sizes (e_cells c) ->
  (movable_area (e_cells c) < 2 ^ 63)%Z -> (row_placement_area_f m c < 2 ^ 63)%Z ->
  is_finite (cap_f mew c) = true -> 0 <= B2R (cap_f mew c) < bpow radix2 31 ->
  expand_to_density_f_br t m mew c = Some (c', BrExpand) ->
  IZR (movable_area (e_cells c')) <=
    B2R t * IZR (row_placement_area_f m c) * (1 + bpow radix2 (-50)) +
    INR (nproc (e_cells c)) * bpow radix2 (-20).
Proof. exact to_density_f_area. Qed.

(* [F] "within one cell height" for the computed widths: when no cap binds (fracW > maxCellWidth false for every
   processed cell), area after > target * available * (1 - 2^-50) - H - 2^-20 per processed cell, H any bound
   of the heights (exact theorem: > target * available - height of the last processed cell) *)
Theorem c18f_density_area_lower : forall (t m mew : f64) c c' (H : Z),
  is_finite t = true -> B2R t <= 1 -> int_sizes (e_cells c) ->
  (movable_area (e_cells c) < 2 ^ 63)%Z -> (row_placement_area_f m c < 2 ^ 63)%Z ->
  is_finite (cap_f mew c) = true -> 0 <= B2R (cap_f mew c) < bpow radix2 31 ->
  (1 <= H <= 2 ^ 31)%Z -> Forall (fun k => (e_h k <= H)%Z) (e_cells c) ->
  expand_to_density_f_br t m mew c = Some (c', BrExpand) ->
  no_cap_binds_f (ddiv t (density_f (movable_area (e_cells c)) (row_placement_area_f m c))) (cap_f mew c) (e_cells c) ->
  B2R t * IZR (row_placement_area_f m c) * (1 - bpow radix2 (-50)) - IZR H
    - INR (nproc (e_cells c)) * bpow radix2 (-20) < IZR (movable_area (e_cells c')).
Proof. exact to_density_f_area_lower. Qed.

(* [F] on the same domain the binary64 model always returns: the while loop terminates (every subtraction
   missingArea - h is exact, so the fuel floor(missingArea / h) of the model suffices) *)
Theorem c18f_density_total : forall (t m mew : f64) c,
  is_finite t = true -> B2R t <= 1 -> int_sizes (e_cells c) ->
  (movable_area (e_cells c) < 2 ^ 63)%Z -> (row_placement_area_f m c < 2 ^ 63)%Z ->
  is_finite (cap_f mew c) = true -> 0 <= B2R (cap_f mew c) < bpow radix2 31 ->
  expand_to_density_f_br t m mew c <> None.
Proof. exact to_density_f_total. Qed.

(* [F] expandCellsByFactor, binary64/binary32: only widths of movable cells change *)
Theorem c18f_factor_only_movable_widths : forall es maxD m c c' r b,
  expand_by_factor_f_br es maxD m c = Some (c', r, b) ->
  e_rows c' = e_rows c /\ Forall2 frame (e_cells c) (e_cells c') /\ (b <> BrExpand -> c' = c /\ r = done).
Proof. exact by_factor_f_frame. Qed.

(* [F] finite factors in [1, 2^100]: no movable cell becomes narrower -- the adjusted factor
   (float)(1.0 + (e - 1.0) * ratio) is still >= 1 because 0 <= ratio <= 1 after rounding *)
Theorem c18f_factor_never_narrower : forall es maxD m c c' r b,
  int_sizes (e_cells c) -> Forall (factor_ok (bpow radix2 100)) es -> is_finite maxD = true ->
  (movable_area (e_cells c) < 2 ^ 63)%Z -> (row_placement_area_f m c < 2 ^ 63)%Z ->
  (Z.abs (expanded_area_f (e_cells c) es 0) < 2 ^ 63)%Z ->
  expand_by_factor_f_br es maxD m c = Some (c', r, b) ->
  Forall2 (fun k k' => (e_w k <= e_w k')%Z) (e_cells c) (e_cells c').
Proof. exact by_factor_f_wider. Qed.

(* [F] the factor of a congested region (c > 1.0f) computed in binary32/binary64 is finite and >= 1 + 2^-23 *)
Theorem c18f_region_factor_above_one : forall fp pf c : f32,
  is_finite fp = true -> is_finite pf = true -> is_finite c = true ->
  0 <= B2R fp <= bpow radix2 40 -> 1 <= B2R pf <= bpow radix2 40 -> 1 < B2R c <= bpow radix2 40 ->
  is_finite (region_factor_f fp pf c) = true /\ 1 + bpow radix2 (-23) <= B2R (region_factor_f fp pf c).
Proof. exact region_factor_f_gt1. Qed.

(* [F] computeCellExpansion in binary32: 1.0f for fixed cells and cells that intersect no congested region,
   otherwise the (bitwise) factor of an intersecting congested region that is >= all the others *)
Theorem c18f_expansion_is_max : forall cmap fp pf c l, ce_dom cmap fp pf ->
  compute_expansion_f cmap fp pf c = Some l ->
  0 <= B2R fp /\ 1 <= B2R pf /\ Forall2 (expansion_spec_f cmap fp pf) (e_cells c) l.
Proof. exact expansion_f_is_max. Qed.

Theorem c18f_expansion_throws : forall cmap fp pf c, is_finite fp = true -> is_finite pf = true ->
  (compute_expansion_f cmap fp pf c = None <-> (B2R fp < 0 \/ B2R pf < 1)).
Proof. exact expansion_f_throws. Qed.

(* ------------------------------------------------------------ non-vacuity and range witnesses (floating point) *)
(* ex_c with target 0.75, margin 0.5, maxExpandedWidth 1.0: the hypotheses of c18f_density_never_narrower /
   c18f_density_area_bound hold and the computed widths are those of the exact model *)
Example c18f_density_nonvacuous :
  let t := d_of_me 3 (-2) in let m := d_of_me 1 (-1) in
  is_finite t = true /\ B2R t <= 1 /\ int_sizes (e_cells ex_c) /\ row_placement_area_f m ex_c = 500%Z /\
  is_finite (cap_f done ex_c) = true /\ 0 <= B2R (cap_f done ex_c) < bpow radix2 31 /\
  exists c', expand_to_density_f_br t m done ex_c = Some (c', BrExpand) /\
             map e_w (e_cells c') = [22; 7; 10; 0]%Z.
Proof.
  cbv zeta. split; [vm_compute; reflexivity|]. split; [apply B2R_le_1; vm_compute; reflexivity|].
  split; [unfold int_sizes; repeat constructor; simpl; lia|]. split; [vm_compute; reflexivity|].
  split; [vm_compute; reflexivity|].
  split; [change (bpow radix2 31) with (IZR (2 ^ 31));
          apply B2R_between; [vm_compute; reflexivity|vm_compute; reflexivity|vm_compute; reflexivity..]|].
  eexists. split; vm_compute; reflexivity.
Qed.

(* the additional hypotheses of c18f_density_area_lower on the same instance: no cap binds, heights <= 20 *)
Example c18f_density_lower_nonvacuous :
  let t := d_of_me 3 (-2) in let m := d_of_me 1 (-1) in
  no_cap_binds_f (ddiv t (density_f (movable_area (e_cells ex_c)) (row_placement_area_f m ex_c)))
                 (cap_f done ex_c) (e_cells ex_c) /\
  Forall (fun k => (e_h k <= 20)%Z) (e_cells ex_c).
Proof.
  cbv zeta. split.
  - unfold no_cap_binds_f. repeat (apply Forall_cons; [intros _; vm_compute; reflexivity|]). apply Forall_nil.
  - repeat constructor; simpl; lia.
Qed.

(* float factors 1.5, 2, (fixed) 5, 1 with maxDensity 0.75, margin 0.5 *)
Example c18f_factor_nonvacuous :
  let es := [f_of_me 3 (-1); f_of_Z 2; f_of_Z 5; fone] in
  Forall (factor_ok (bpow radix2 100)) es /\
  option_map (fun x => (map e_w (e_cells (fst (fst x))), snd x))
             (expand_by_factor_f_br es (d_of_me 3 (-2)) (d_of_me 1 (-1)) ex_c)
  = Some ([21; 8; 10; 0]%Z, BrExpand).
Proof.
  cbv zeta. split; [repeat (apply Forall_cons; [apply factor_ok_small; vm_compute; reflexivity|]); apply Forall_nil|].
  vm_compute. reflexivity.
Qed.

(* overlapping congested regions 1.25 and 1.5 over the first cell, an uncongested one (0.75), a fixed cell:
   factors 2.125, 2.125, 1, 1 (bit for bit) *)
Example c18f_expansion_nonvacuous :
  option_map (map B2SF) (compute_expansion_f
    [({| minX := 0; maxX := 10; minY := 0; maxY := 10 |}, f_of_me 5 (-2));
     ({| minX := 5; maxX := 50; minY := 5; maxY := 30 |}, f_of_me 3 (-1));
     ({| minX := -10; maxX := 100; minY := -10; maxY := 100 |}, f_of_me 3 (-2))] (f_of_me 1 (-3)) (f_of_Z 2) ex_c)
  = Some (map B2SF [f_of_me 17 (-3); f_of_me 17 (-3); fone; fone]).
Proof. vm_compute. reflexivity. Qed.

(* RANGE WITNESSES (just outside the bound of c18f_density_conversion_defined): cap = 4 * 2^30 = 2^32 is not
   below the width 2^29, the factor is 8, fracW = 2^32: (int)fracW is undefined in C++ (the model's ideal width
   2^32 does not fit an int; the compiled code returns the width 0: narrower).  With maxExpandedWidth = 1
   (cap 2^30) the same circuit stays in range. *)
Example c18f_density_conversion_out_of_range :
  int_sizes (e_cells wit_ed) /\ Bltb (cap_f (d_of_me 4 0) wit_ed) (d_of_Z 536870912) = false /\
  (exists c', expand_to_density_f_br (d_of_me 1 (-1)) (d_of_me 0 0) (d_of_me 4 0) wit_ed = Some (c', BrExpand) /\
              map e_w (e_cells c') = [4294967296]%Z /\ ~ in_int 4294967296) /\
  (exists c', expand_to_density_f_br (d_of_me 1 (-1)) (d_of_me 0 0) done wit_ed = Some (c', BrExpand) /\
              map e_w (e_cells c') = [1073741824]%Z /\ in_int 1073741824).
Proof.
  split; [unfold int_sizes; repeat constructor; simpl; lia|]. split; [vm_compute; reflexivity|]. split.
  - eexists. split; [vm_compute; reflexivity|]. split; [vm_compute; reflexivity|]. unfold in_int. lia.
  - eexists. split; [vm_compute; reflexivity|]. split; [vm_compute; reflexivity|]. unfold in_int. lia.
Qed.

(* expandCellsByFactor: a cell 2^20 wide with the factor 4096 (utilisation after: 1/4, no adjustment): the product
   2^32 does not fit an int (the compiled code stores -2147483648); with the factor 2047 it fits *)
Example c18f_factor_conversion_out_of_range :
  let widths es := option_map (fun x => (map e_w (e_cells (fst (fst x))), snd x))
                              (expand_by_factor_f_br es done (d_of_me 0 0) wit_ef) in
  widths [f_of_Z 4096] = Some ([4294967296]%Z, BrExpand) /\ ~ in_int 4294967296 /\
  widths [f_of_Z 2047] = Some ([2146435072]%Z, BrExpand) /\ in_int 2146435072.
Proof.
  cbv zeta. split; [vm_compute; reflexivity|]. split; [unfold in_int; lia|].
  split; [vm_compute; reflexivity|]. unfold in_int. lia.
Qed.

Print Assumptions c18f_density_only_movable_widths.
Print Assumptions c18f_density_never_narrower.
Print Assumptions c18f_cap_not_below.
Print Assumptions c18f_density_conversion_defined.
Print Assumptions c18f_carry_invariant_step.
Print Assumptions c18f_carry_invariant.
Print Assumptions c18f_density_area_bound.
Print Assumptions c18f_density_area_lower.
Print Assumptions c18f_density_total.
Print Assumptions c18f_factor_only_movable_widths.
Print Assumptions c18f_factor_never_narrower.
Print Assumptions c18f_region_factor_above_one.
Print Assumptions c18f_expansion_is_max.
Print Assumptions c18f_expansion_throws.
